(* C09 - concrete facts on the executable instance c_ops (vm_compute): regression for D09, the witness of the
   dirty-reopen finding, non-vacuity of the guards. *)
From Coq Require Import NArith ZArith List Bool.
From Verif.C09_ADS Require Import Model Proofs Refine.
Import ListNotations.
Open Scope N_scope.

Definition ka : bytes := [97]. Definition kb : bytes := [98]. Definition kab : bytes := [97; 98].

(* D09 (repaired by c0299ea): nil values no longer look absent.  On the pinned code this history gave
   Size 3, Has(a) = false, Delete(a) = false. *)
Definition d09_history : list ev :=
  [ESet ka None; ESet ka None; ESet kb (Some [1]); ESize; EHas ka; EGet ka; EDelete ka; ESize].

Lemma d09_regression :
  outs c_ops d09_history =
  [ONone _; ONone _; ONone _; OSize _ 2; OBool _ true; OGet _ (Some []); OBool _ true; OSize _ 1].
Proof. vm_compute. reflexivity. Qed.

(* Finding dirty-reopen-keeps-size-and-rawkeys: size and raw keys are written through, trie nodes wait for
   Commit.  A new instance opened after an uncommitted Delete has the key again (Has, Get, Root) while Size is 0
   and Stream is empty; deleting it again drives Size() to -1. *)
Definition dirty_reopen_history : list ev :=
  [ESet ka (Some [1]); ECommit; EDelete ka; EReopen; EHas ka; EGet ka; ESize; EStream; EDelete ka; ESize].

Lemma dirty_reopen_witness :
  clean_reopens dirty_reopen_history = false /\
  outs c_ops dirty_reopen_history =
  [ONone _; ONone _; OBool _ true; ONone _; OBool _ true; OGet _ (Some [1]); OSize _ 0; OStream _ [];
   OBool _ true; OSize _ (-1)] /\
  snd (spec_run c_ops spec0 dirty_reopen_history) =
  [ONone _; ONone _; OBool _ true; ONone _; OBool _ true; OGet _ (Some [1]); OSize _ 1; OStream _ [(ka, Some [1])];
   OBool _ true; OSize _ 0].
Proof. vm_compute. repeat split; reflexivity. Qed.

(* non-vacuity: a history with overwrites, delete-and-reinsert, empty and nil values, two commits and reopens
   satisfies the guard of the refinement theorem and is small *)
Definition rich_history : list ev :=
  [ESet kb (Some [2]); ESet ka (Some [9]); ESet kab None; ECommit; EReopen; EDelete ka; ESet ka (Some [1]);
   ESet kb (Some [2]); ERoot; ECommit; ERestored; EReopen; EStream; ESize; EGet kab; EAdd kab; EStreamKeys].

Lemma rich_history_clean : clean_reopens rich_history = true.
Proof. reflexivity. Qed.

Lemma rich_history_contents : contents_after rich_history = [(ka, [1]); (kab, []); (kb, [2])].
Proof. vm_compute. reflexivity. Qed.

(* two different routes to the same contents, and a route to different contents *)
Definition route1 : list ev := [ESet ka (Some [1]); ESet kb (Some [2]); ESet kab None].
Definition route2 : list ev :=
  [ESet kab (Some [7]); ESet kb (Some [2]); ECommit; EDelete kab; ESet ka (Some [1]); ESet kab (Some []); EReopen; ESet ka (Some [1]); ESet kab (Some [])].
Definition route3 : list ev := [ESet ka (Some [1]); ESet kb (Some [2])].

Lemma routes_same_contents : contents_after route1 = contents_after route2 /\ contents_after route1 <> contents_after route3.
Proof. split; [vm_compute; reflexivity|vm_compute; discriminate]. Qed.

Lemma routes_roots :
  map_root c_ops (state_after c_ops route1) = map_root c_ops (state_after c_ops route2) /\
  map_root c_ops (state_after c_ops route1) <> map_root c_ops (state_after c_ops route3).
Proof. split; [vm_compute; reflexivity|vm_compute; discriminate]. Qed.
