(* C09 - proofs, part 2: the authenticated map/set refines a plain map, for every history, over ANY trie
   that satisfies [trie_spec]. *)
From Coq Require Import NArith ZArith List Bool Lia.
From Verif.C09_ADS Require Import Model Proofs.
Import ListNotations.

(* ---------- the specification: a plain (sorted association list) map and its last committed copy ---------- *)

Record spec := mkS { s_cur : alist; s_com : option alist }.

Definition spec0 : spec := mkS [] None.

Definition committed_or_empty (s : spec) : alist := match s_com s with Some c => c | None => [] end.

(* a new instance shows what was committed last: uncommitted changes are dropped *)
Definition spec_step (s : spec) (e : ev) : spec :=
  match e with
  | ESet k v => mkS (al_set k (match v with Some b => b | None => [] end) (s_cur s)) (s_com s)
  | EAdd k => mkS (al_set k [] (s_cur s)) (s_com s)
  | EDelete k => mkS (al_del k (s_cur s)) (s_com s)
  | ECommit => mkS (s_cur s) (Some (s_cur s))
  | EReopen => mkS (committed_or_empty s) (s_com s)
  | _ => s
  end.

Definition is_some {A} (o : option A) : bool := match o with Some _ => true | None => false end.

(* int(uint64(n)) *)
Definition wrap_int (n : nat) : Z :=
  let x := (Z.of_nat n mod 2 ^ 64)%Z in if (x <? 2 ^ 63)%Z then x else (x - 2 ^ 64)%Z.

Lemma wrap_int_small : forall n, (Z.of_nat n < 2 ^ 63)%Z -> wrap_int n = Z.of_nat n.
Proof.
  intros n H. unfold wrap_int. rewrite Z.mod_small by lia.
  destruct (Z.ltb_spec (Z.of_nat n) (2 ^ 63)); lia.
Qed.

(* the plain map after a history *)
Definition spec_after (h : list ev) : spec := fold_left spec_step h spec0.
Definition contents_after (h : list ev) : alist := s_cur (spec_after h).

Definition is_commit (e : ev) : bool := match e with ECommit => true | _ => false end.

Section Refinement.
  Variable O : trie_ops.
  Hypothesis HO : trie_spec O.

  (* what the plain map answers; Root is not an output of the plain map (see the root theorems) *)
  Definition spec_out (s : spec) (e : ev) : out O :=
    match e with
    | ESet _ _ | EAdd _ | ECommit | EReopen | ERoot => ONone O
    | EDelete k => OBool O (is_some (al_get (s_cur s) k))
    | EGet k => OGet O (al_get (s_cur s) k)
    | EHas k => OBool O (is_some (al_get (s_cur s) k))
    | ESize => OSize O (wrap_int (length (s_cur s)))
    | EStream => OStream O (map (fun p => (fst p, Some (snd p))) (s_cur s))
    | EStreamKeys => OKeys O (map fst (s_cur s))
    | ERestored => OBool O (is_some (s_com s))
    end.

  Fixpoint spec_run (s : spec) (h : list ev) : spec * list (out O) :=
    match h with
    | [] => (s, [])
    | e :: r => let '(s2, os) := spec_run (spec_step s e) r in (s2, spec_out s e :: os)
    end.

  Lemma spec_run_fst : forall h s, fst (spec_run s h) = fold_left spec_step h s.
  Proof.
    induction h as [|e r IH]; intros s; simpl; [reflexivity|].
    rewrite <- IH. destruct (spec_run (spec_step s e) r). reflexivity.
  Qed.

  (* the root digest is compared by the root theorems, not here *)
  Definition visible (o : out O) : out O := match o with ORoot _ _ => ONone O | _ => o end.
  (* the outputs that do not depend on the written-through size / raw keys *)
  Definition core (o : out O) : out O :=
    match o with ORoot _ _ | OSize _ _ | OStream _ _ | OKeys _ _ => ONone O | _ => o end.

  (* ---------- invariant A (all histories): the trie and the stored root follow the plain map ---------- *)

  Definition InvA (m : amap O) (s : spec) : Prop :=
    asorted (s_cur s) /\
    (forall k, t_get O (tree O m) k = al_get (s_cur s) k) /\
    match s_com s with
    | None => rootkey O m = None
    | Some c => asorted c /\ exists r, rootkey O m = Some r /\
                  forall k, t_get O (t_import O (t_store O (tree O m)) r) k = al_get c k
    end.

  Lemma InvA_fresh : InvA (fresh O) spec0.
  Proof.
    unfold InvA, fresh, open. simpl. split; [exact I|]. split; [|reflexivity].
    intros k. apply (H_get_new O HO).
  Qed.

  Lemma has_spec : forall m s k, InvA m s -> has O m k = is_some (al_get (s_cur s) k).
  Proof. intros m s k (_ & G & _). unfold has. rewrite G. reflexivity. Qed.

  Lemma InvA_set : forall m s k v, InvA m s ->
    InvA (map_set O m k v) (mkS (al_set k (match v with Some b => b | None => [] end) (s_cur s)) (s_com s)).
  Proof.
    intros m s k v (S & G & C). unfold InvA, map_set. simpl. split; [apply asorted_set; exact S|]. split.
    - intros k'. destruct (bytes_eq_dec k' k) as [->|N].
      + rewrite (H_get_update_same O HO), al_get_set_same. destruct v; reflexivity.
      + rewrite (H_get_update_other O HO) by exact N. rewrite al_get_set_other by exact N. apply G.
    - destruct (s_com s) as [c|]; [|exact C]. destruct C as (Sc & r & R & I). split; [exact Sc|].
      exists r. split; [exact R|]. rewrite (H_store_update O HO). exact I.
  Qed.

  Lemma InvA_delete : forall m s k, InvA m s ->
    InvA (fst (map_delete O m k)) (mkS (al_del k (s_cur s)) (s_com s)).
  Proof.
    intros m s k H. pose proof (has_spec m s k H) as Hh. destruct H as (S & G & C).
    unfold map_delete. destruct (has O m k) eqn:E; simpl.
    - assert (t_get O (tree O m) k <> None) as P by (unfold has in E; destruct (t_get O (tree O m) k); congruence).
      unfold InvA. simpl. split; [apply asorted_del; exact S|]. split.
      + intros k'. destruct (bytes_eq_dec k' k) as [->|N].
        * rewrite (H_get_delete_same O HO) by exact P. rewrite al_get_del_same. reflexivity.
        * rewrite (H_get_delete_other O HO) by assumption. rewrite al_get_del_other by exact N. apply G.
      + destruct (s_com s) as [c|]; [|exact C]. destruct C as (Sc & r & R & I). split; [exact Sc|].
        exists r. split; [exact R|]. rewrite (H_store_delete O HO). exact I.
    - assert (al_get (s_cur s) k = None) as A by (destruct (al_get (s_cur s) k); [discriminate|reflexivity]).
      rewrite al_del_absent by exact A. unfold InvA. simpl. auto.
  Qed.

  Lemma InvA_commit : forall m s, InvA m s -> InvA (map_commit O m) (mkS (s_cur s) (Some (s_cur s))).
  Proof.
    intros m s (S & G & C). unfold InvA, map_commit. simpl. split; [exact S|]. split.
    - intros k. rewrite (H_get_commit O HO). apply G.
    - split; [exact S|]. exists (t_root O (tree O m)). split; [reflexivity|].
      intros k. rewrite (H_import_commit O HO). apply G.
  Qed.

  Lemma InvA_reopen : forall m s, InvA m s -> InvA (reopen O m) (mkS (committed_or_empty s) (s_com s)).
  Proof.
    intros m s (S & G & C). unfold InvA, reopen, open, committed_or_empty. simpl.
    destruct (s_com s) as [c|].
    - destruct C as (Sc & r & R & I). rewrite R. split; [exact Sc|]. split; [exact I|].
      split; [exact Sc|]. exists r. split; [reflexivity|]. rewrite (H_store_import O HO). exact I.
    - rewrite C. split; [exact I|]. split; [|reflexivity]. intros k. apply (H_get_new O HO).
  Qed.

  Lemma restored_spec : forall m s, InvA m s -> was_restored O m = is_some (s_com s).
  Proof.
    intros m s (_ & _ & C). unfold was_restored. destruct (s_com s).
    - destruct C as (_ & r & R & _). rewrite R. reflexivity.
    - rewrite C. reflexivity.
  Qed.

  Lemma step_InvA : forall m s e, InvA m s ->
    InvA (fst (step O m e)) (spec_step s e) /\ core (snd (step O m e)) = core (spec_out s e).
  Proof.
    intros m s e H. destruct e; simpl.
    - split; [apply InvA_set; exact H|reflexivity].
    - split; [apply (InvA_set m s k (Some [])); exact H|reflexivity].
    - pose proof (InvA_delete m s k H) as D. pose proof (has_spec m s k H) as Hh.
      unfold map_delete in *. destruct (has O m k); simpl in *; (split; [exact D|rewrite <- Hh; reflexivity]).
    - split; [apply InvA_commit; exact H|reflexivity].
    - split; [apply InvA_reopen; exact H|reflexivity].
    - split; [destruct s; exact H|]. unfold map_get. destruct H as (_ & G & _). rewrite G. reflexivity.
    - split; [destruct s; exact H|]. rewrite (has_spec m s k H). reflexivity.
    - split; [destruct s; exact H|reflexivity].
    - split; [destruct s; exact H|reflexivity].
    - split; [destruct s; exact H|reflexivity].
    - split; [destruct s; exact H|reflexivity].
    - split; [destruct s; exact H|]. rewrite (restored_spec m s H). reflexivity.
  Qed.

  Lemma run_InvA : forall h m s, InvA m s ->
    InvA (fst (run O m h)) (fst (spec_run s h)) /\
    map core (snd (run O m h)) = map core (snd (spec_run s h)).
  Proof.
    induction h as [|e r IH]; intros m s H; simpl; [auto|].
    destruct (step_InvA m s e H) as [H1 Ho].
    destruct (step O m e) as [m1 o] eqn:Es. simpl in H1, Ho.
    specialize (IH m1 (spec_step s e) H1).
    destruct (run O m1 r) as [m2 os]. destruct (spec_run (spec_step s e) r) as [s2 os'].
    simpl in *. destruct IH as [I2 Eo]. split; [exact I2|]. rewrite Ho, Eo. reflexivity.
  Qed.

  (* ---------- invariant B: size and raw keys, as long as no reopen drops uncommitted changes ---------- *)

  Definition next_dirty (d : bool) (e : ev) : bool :=
    match e with
    | ESet _ _ | EAdd _ | EDelete _ => true
    | ECommit | EReopen => false
    | _ => d
    end.

  Definition ok_ev (d : bool) (e : ev) : bool := match e with EReopen => negb d | _ => true end.

  (* every reopen happens with nothing uncommitted (d: are there uncommitted changes now) *)
  Fixpoint clean_from (d : bool) (h : list ev) : bool :=
    match h with
    | [] => true
    | e :: r => ok_ev d e && clean_from (next_dirty d e) r
    end.

  Definition clean_reopens (h : list ev) : bool := clean_from false h.

  Definition size_ok (sz : option N) (c : alist) : Prop :=
    match sz with
    | None => c = []
    | Some n => n = (N.of_nat (length c) mod 2 ^ 64)%N
    end.

  Definition InvB (d : bool) (m : amap O) (s : spec) : Prop :=
    rawkeys O m = map fst (s_cur s) /\
    size_ok (size O m) (s_cur s) /\
    (d = false -> s_cur s = committed_or_empty s).

  Lemma InvB_fresh : InvB false (fresh O) spec0.
  Proof. unfold InvB, fresh, open. simpl. auto. Qed.

  Lemma add_size_up : forall sz c, size_ok sz c -> forall p, size_ok (add_size sz 1) (p :: c).
  Proof.
    intros sz c H p. unfold size_ok, add_size. apply N2Z.inj. rewrite Z2N.id by (apply Z.mod_pos_bound; lia).
    rewrite N2Z.inj_mod. change (Z.of_N (2 ^ 64)) with (2 ^ 64)%Z. rewrite nat_N_Z.
    destruct sz as [n|]; unfold size_ok in H.
    - subst n. rewrite N2Z.inj_mod, nat_N_Z. change (Z.of_N (2 ^ 64)) with (2 ^ 64)%Z.
      rewrite Zplus_mod_idemp_l. f_equal. simpl length. lia.
    - subst c. reflexivity.
  Qed.

  Lemma add_size_down : forall sz c p, size_ok sz (p :: c) -> size_ok (add_size sz (-1)) c.
  Proof.
    intros sz c p H. unfold size_ok, add_size. apply N2Z.inj. rewrite Z2N.id by (apply Z.mod_pos_bound; lia).
    rewrite N2Z.inj_mod. change (Z.of_N (2 ^ 64)) with (2 ^ 64)%Z. rewrite nat_N_Z.
    destruct sz as [n|]; unfold size_ok in H; [|discriminate].
    subst n. rewrite N2Z.inj_mod, nat_N_Z. change (Z.of_N (2 ^ 64)) with (2 ^ 64)%Z.
    rewrite Zplus_mod_idemp_l. f_equal. change (length (p :: c)) with (S (length c)). lia.
  Qed.

  Lemma size_ok_len : forall sz c c', length c = length c' -> size_ok sz c -> (c = [] -> c' = []) -> size_ok sz c'.
  Proof.
    intros sz c c' L H E. destruct sz; simpl in *; [rewrite <- L; exact H|auto].
  Qed.

  Lemma map_size_spec : forall m c, size_ok (size O m) c -> map_size O m = wrap_int (length c).
  Proof.
    intros m c H. unfold map_size, wrap_int. destruct (size O m) as [n|]; unfold size_ok in H.
    - subst n. rewrite N2Z.inj_mod, nat_N_Z. change (Z.of_N (2 ^ 64)) with (2 ^ 64)%Z.
      set (x := (Z.of_nat (length c) mod 2 ^ 64)%Z).
      assert ((N.of_nat (length c) mod 2 ^ 64 <? 2 ^ 63)%N = (x <? 2 ^ 63)%Z) as ->; [|reflexivity].
      assert (Z.of_N (N.of_nat (length c) mod 2 ^ 64) = x) as Hx
        by (rewrite N2Z.inj_mod, nat_N_Z; reflexivity).
      destruct (N.ltb_spec (N.of_nat (length c) mod 2 ^ 64) (2 ^ 63));
      destruct (Z.ltb_spec x (2 ^ 63)); try reflexivity; exfalso;
      change (2 ^ 63)%Z with (Z.of_N (2 ^ 63)) in *; lia.
    - subst c. reflexivity.
  Qed.

  Lemma InvB_set : forall d m s k v, InvA m s -> InvB d m s ->
    InvB true (map_set O m k v) (mkS (al_set k (match v with Some b => b | None => [] end) (s_cur s)) (s_com s)).
  Proof.
    intros d m s k v HA (K & Z & _). pose proof (has_spec m s k HA) as Hh. destruct HA as (Hs & _ & _).
    unfold InvB, map_set. cbn [rawkeys size s_cur s_com]. unfold nil_to_empty.
    split; [rewrite map_fst_set, K; reflexivity|]. split; [|discriminate].
    rewrite Hh. pose proof (length_set k (match v with Some b => b | None => [] end) (s_cur s) Hs) as L.
    destruct (al_get (s_cur s) k) eqn:G; cbn [is_some].
    - eapply size_ok_len; [symmetry; exact L|exact Z|]. intros E. rewrite E in G. discriminate.
    - destruct (al_set k _ (s_cur s)) as [|p c'] eqn:E; [discriminate L|].
      pose proof (add_size_up _ _ Z p) as U. eapply size_ok_len; [|exact U|discriminate].
      rewrite L. reflexivity.
  Qed.

  Lemma InvB_delete : forall d m s k, InvA m s -> InvB d m s ->
    InvB true (fst (map_delete O m k)) (mkS (al_del k (s_cur s)) (s_com s)).
  Proof.
    intros d m s k HA (K & Z & _). pose proof (has_spec m s k HA) as Hh. destruct HA as (Hs & _ & _).
    unfold InvB, map_delete. rewrite Hh. destruct (al_get (s_cur s) k) eqn:G; cbn [is_some fst rawkeys size s_cur s_com].
    - split; [rewrite map_fst_del, K; reflexivity|]. split; [|discriminate].
      assert (al_get (s_cur s) k <> None) as P by congruence.
      pose proof (length_del_present k (s_cur s) Hs P) as L.
      destruct (s_cur s) as [|p c] eqn:E; [discriminate L|].
      pose proof (add_size_down _ _ _ Z) as D. eapply size_ok_len; [|exact D|].
      + change (length (p :: c)) with (Datatypes.S (length c)) in L. lia.
      + intros ->. change (length [p]) with 1%nat in L.
        destruct (al_del k [p]) as [|q c2]; [reflexivity|]. change (length (q :: c2)) with (Datatypes.S (length c2)) in L. lia.
    - rewrite al_del_absent by exact G. split; [exact K|]. split; [exact Z|discriminate].
  Qed.

  Lemma step_InvB : forall d m s e, InvA m s -> InvB d m s -> ok_ev d e = true ->
    InvB (next_dirty d e) (fst (step O m e)) (spec_step s e) /\
    visible (snd (step O m e)) = spec_out s e.
  Proof.
    intros d m s e HA HB Hok. pose proof (step_InvA m s e HA) as [_ Hc].
    destruct e; simpl in *.
    - split; [eapply InvB_set; eauto|reflexivity].
    - split; [apply (InvB_set d m s k (Some [])); auto|reflexivity].
    - pose proof (InvB_delete d m s k HA HB) as D. unfold map_delete in *.
      destruct (has O m k); simpl in *; (split; [exact D|exact Hc]).
    - destruct HB as (K & Z & _). split; [|reflexivity]. unfold InvB. simpl. auto.
    - destruct HB as (K & Z & C). apply negb_true_iff in Hok. specialize (C Hok).
      split; [|reflexivity]. unfold InvB. simpl. rewrite <- C. auto.
    - split; [destruct s; exact HB|exact Hc].
    - split; [destruct s; exact HB|exact Hc].
    - split; [destruct s; exact HB|]. f_equal. apply map_size_spec. apply HB.
    - split; [destruct s; exact HB|]. f_equal. unfold map_stream.
      destruct HB as (K & _ & _). destruct HA as (S & G & _). rewrite K.
      rewrite <- (stream_sorted _ S). apply map_ext. intros k. rewrite G. reflexivity.
    - split; [destruct s; exact HB|]. f_equal. unfold set_stream, map_stream.
      destruct HB as (K & _ & _). rewrite map_map. simpl. rewrite map_id. exact K.
    - split; [destruct s; exact HB|reflexivity].
    - split; [destruct s; exact HB|exact Hc].
  Qed.

  Lemma run_InvB : forall h d m s, InvA m s -> InvB d m s -> clean_from d h = true ->
    map visible (snd (run O m h)) = snd (spec_run s h) /\
    exists d', InvB d' (fst (run O m h)) (fst (spec_run s h)).
  Proof.
    induction h as [|e r IH]; intros d m s HA HB Hc; simpl; [split; [reflexivity|eauto]|].
    simpl in Hc. apply andb_true_iff in Hc. destruct Hc as [Hok Hr].
    destruct (step_InvB d m s e HA HB Hok) as [HB1 Ho].
    destruct (step_InvA m s e HA) as [HA1 _].
    destruct (step O m e) as [m1 o] eqn:Es. simpl in HB1, HA1, Ho.
    specialize (IH _ m1 (spec_step s e) HA1 HB1 Hr).
    destruct (run O m1 r) as [m2 os]. destruct (spec_run (spec_step s e) r) as [s2 os'].
    simpl in *. destruct IH as [Eo Ex]. split; [|exact Ex]. rewrite Ho, Eo. reflexivity.
  Qed.

  (* ---------- the theorems ---------- *)

  (* all histories: Get / Has / Delete results / WasRestored follow the plain map; a reopen shows the last
     committed contents *)
  Theorem refines_map_core : forall h,
    map core (outs O h) = map core (snd (spec_run spec0 h)) /\
    (forall k, map_get O (state_after O h) k = al_get (s_cur (spec_after h)) k).
  Proof.
    intros h. unfold spec_after. rewrite <- spec_run_fst.
    destruct (run_InvA h (fresh O) spec0 InvA_fresh) as [(S & G & C) E].
    split; [exact E|exact G].
  Qed.

  (* histories whose reopens drop nothing: every output except the root digest is the plain map's *)
  Theorem refines_map : forall h, clean_reopens h = true ->
    map visible (outs O h) = snd (spec_run spec0 h) /\
    map_size O (state_after O h) = wrap_int (length (s_cur (spec_after h))) /\
    map_stream O (state_after O h) = map (fun p => (fst p, Some (snd p))) (s_cur (spec_after h)) /\
    asorted (s_cur (spec_after h)).
  Proof.
    intros h Hc. unfold spec_after. rewrite <- spec_run_fst.
    destruct (run_InvA h (fresh O) spec0 InvA_fresh) as [HA _].
    destruct (run_InvB h false (fresh O) spec0 InvA_fresh InvB_fresh Hc) as [E [d' HB]].
    split; [exact E|].
    pose proof (step_InvB d' _ _ ESize HA HB eq_refl) as [_ Z1].
    pose proof (step_InvB d' _ _ EStream HA HB eq_refl) as [_ Z2].
    simpl in Z1, Z2. injection Z1 as Z1. injection Z2 as Z2.
    split; [exact Z1|]. split; [exact Z2|]. apply HA.
  Qed.

  (* the root depends on the contents only (all histories, also across reopens) *)
  Theorem root_content_only : forall h1 h2,
    (forall k, al_get (s_cur (spec_after h1)) k = al_get (s_cur (spec_after h2)) k) ->
    map_root O (state_after O h1) = map_root O (state_after O h2).
  Proof.
    intros h1 h2 H. apply (H_root_ext O HO). intros k.
    destruct (refines_map_core h1) as [_ G1]. destruct (refines_map_core h2) as [_ G2].
    unfold map_get in *. rewrite G1, G2. apply H.
  Qed.

  (* the converse needs collision freedom *)
  Theorem root_injective : root_collision_free O -> forall h1 h2,
    map_root O (state_after O h1) = map_root O (state_after O h2) ->
    s_cur (spec_after h1) = s_cur (spec_after h2).
  Proof.
    intros CF h1 h2 H. unfold spec_after. rewrite <- !spec_run_fst.
    destruct (run_InvA h1 (fresh O) spec0 InvA_fresh) as [(S1 & G1 & _) _].
    destruct (run_InvA h2 (fresh O) spec0 InvA_fresh) as [(S2 & G2 & _) _].
    apply asorted_ext; try assumption. intros k.
    rewrite <- G1, <- G2. apply CF. exact H.
  Qed.

  (* Commit, then a new instance over the same store: same Root, Size, Stream, Get (any state m) *)
  Theorem reopen_after_commit : forall m,
    let m1 := map_commit O m in
    let m2 := reopen O m1 in
    map_root O m1 = map_root O m /\
    map_root O m2 = map_root O m1 /\ map_size O m2 = map_size O m1 /\
    map_stream O m2 = map_stream O m1 /\ (forall k, map_get O m2 k = map_get O m1 k) /\
    (forall k, has O m2 k = has O m1 k) /\ was_restored O m2 = true.
  Proof.
    intros m. simpl. unfold map_root, map_size, map_stream, map_get, has, reopen, open, map_commit. simpl.
    assert (forall k, t_get O (t_import O (t_store O (t_commit O (tree O m))) (t_root O (tree O m))) k
                      = t_get O (t_commit O (tree O m)) k) as G
      by (intros k; rewrite (H_import_commit O HO), (H_get_commit O HO); reflexivity).
    split; [apply (H_root_ext O HO); intros k; apply (H_get_commit O HO)|].
    split; [apply (H_root_ext O HO); exact G|]. split; [reflexivity|].
    split; [apply map_ext; intros k; rewrite G; reflexivity|].
    split; [exact G|]. split; [intros k; rewrite G; reflexivity|reflexivity].
  Qed.

  Lemma restored_run : forall h m,
    was_restored O (fst (run O m h)) = was_restored O m || existsb is_commit h.
  Proof.
    induction h as [|e r IH]; intros m; simpl; [rewrite orb_false_r; reflexivity|].
    destruct (step O m e) as [m1 o] eqn:Es. specialize (IH m1).
    destruct (run O m1 r) as [m2 os]. simpl in *. rewrite IH.
    assert (was_restored O m1 = was_restored O m || is_commit e) as ->.
    { destruct e; simpl in Es; try (injection Es as <- _; simpl; rewrite ?orb_false_r, ?orb_true_r; reflexivity).
      unfold map_delete in Es. destruct (has O m k); injection Es as <- _; simpl; rewrite orb_false_r; reflexivity. }
    rewrite orb_assoc. reflexivity.
  Qed.

  Theorem restored_iff_committed : forall h, was_restored O (state_after O h) = existsb is_commit h.
  Proof. intros h. unfold state_after. rewrite restored_run. reflexivity. Qed.
End Refinement.
