(* Correspondence for the shared-database scenarios of C09 (hx-c09 realms): a case is a list of realms (instance i is an
   ads.Map / ads.Set over the view with realm Rs[i] of ONE mapdb), an interleaved history of calls (SOp i e) and wipes
   (SWipe i = Clear() of view i + a new instance), and what the real code returned for every call plus Size() and
   WasRestoredFromStorage() of the instance called, read after the call.  The model is [sys_step] on the concrete trie
   [c_ops] with the layout [ext_addr]; roots are compared through the root-class table of Corr.v.  A case whose realms
   or wipes are outside the guards of C09_shared_db_refines counts as a mismatch (the generator must stay inside). *)
From Coq Require Import NArith ZArith List Bool PArith.
From Verif.C09_ADS Require Import Model Corr Shared.
Import ListNotations.

Record scase := mkSCase { sc_realms : list bytes; sc_hist : list sev; sc_obs : list obs }.

Definition sev_inst (x : sev) : nat := match x with SOp i _ => i | SWipe i => i end.

Fixpoint sagree (c : cls) (Rs : list bytes) (s : sys c_ops) (h : list sev) (os : list obs) : cls * bool :=
  match h, os with
  | [], [] => (c, true)
  | x :: r, ob :: os' =>
      let '(s1, o) := sys_step c_ops ext_addr Rs s x in
      match o, nth_error Rs (sev_inst x), nth_error (snd s1) (sev_inst x) with
      | Some o, Some R, Some t =>
          let '(c1, ok) := out_agree c o (o_out ob) in
          let m1 := view c_ops (ext_addr R) (fst s1) t in
          if ok && Z.eqb (map_size c_ops m1) (o_size ob) && Bool.eqb (was_restored c_ops m1) (o_restored ob)
          then sagree c1 Rs s1 r os'
          else (c1, false)
      | _, _, _ => (c, false)
      end
  | _, _ => (c, false)
  end.

Fixpoint smismatches_from (i : nat) (c : cls) (cs : list scase) : list nat :=
  match cs with
  | [] => []
  | x :: r =>
      let '(c1, ok) := sagree c (sc_realms x) (sys_init c_ops ext_addr (sc_realms x)) (sc_hist x) (sc_obs x) in
      if ok && realms_okb (sc_realms x) && hist_okb (sc_realms x) (sc_hist x)
      then smismatches_from (S i) c1 r else i :: smismatches_from (S i) c1 r
  end.

Definition smismatches (cs : list scase) : list nat := smismatches_from 0 cls0 cs.
