(* Correspondence for C09: a case is a history of API calls on ads.Map / ads.Set over one mapdb (EReopen = a new
   instance over the same store) with what the real code returned for every call, plus Size() and
   WasRestoredFromStorage() read after every call.  The model is run on the concrete trie instance [c_ops].

   Roots: the real Root() is a SHA-256 digest, the model root is the canonical contents.  The harness numbers
   the distinct real roots 1,2,3,... in order of first appearance over the whole cases file; [mismatches] threads
   a table from model roots to these numbers and demands that it stays a bijection: a model root seen before
   must carry the same number (equal contents => equal real root) and a new model root must carry the next
   fresh number (different contents => different real root). *)
From Coq Require Import NArith ZArith List Bool PArith FMapPositive.
From Verif.C09_ADS Require Import Model.
Import ListNotations.

Inductive cout :=
| CNone | CErr | CBool (b : bool) | CGet (v : option bytes)
| CStream (l : list (bytes * option bytes)) | CKeys (l : list bytes) | CRoot (id : positive).

Record obs := mkObs { o_out : cout; o_size : Z; o_restored : bool }.
Record case := mkCase { c_hist : list ev; c_obs : list obs }.

(* prefix-free bit code of the canonical contents, packed into a positive (key of the root table) *)
Fixpoint enc_bits (n : nat) (b : N) (acc : positive) : positive :=
  match n with
  | O => acc
  | S n' => enc_bits n' (N.div2 b) (if N.odd b then xI acc else xO acc)
  end.
Fixpoint enc_bytes (l : bytes) (acc : positive) : positive :=
  match l with
  | [] => xO acc
  | b :: r => enc_bytes r (enc_bits 8 b (xI acc))
  end.
Fixpoint enc_alist (l : alist) (acc : positive) : positive :=
  match l with
  | [] => xO acc
  | (k, v) :: r => enc_alist r (enc_bytes v (enc_bytes k (xI acc)))
  end.

Definition cls := (PositiveMap.t positive * positive)%type.
Definition cls0 : cls := (PositiveMap.empty positive, 1%positive).

Definition check_root (c : cls) (r : alist) (id : positive) : cls * bool :=
  let code := enc_alist r 1%positive in
  match PositiveMap.find code (fst c) with
  | Some id' => (c, Pos.eqb id id')
  | None => if Pos.eqb id (snd c) then ((PositiveMap.add code id (fst c), Pos.succ (snd c)), true) else (c, false)
  end.

Definition optb_eqb (a b : option bytes) : bool :=
  match a, b with None, None => true | Some x, Some y => bytes_eqb x y | _, _ => false end.

Fixpoint keys_eqb (a b : list bytes) : bool :=
  match a, b with
  | [], [] => true
  | x :: a', y :: b' => bytes_eqb x y && keys_eqb a' b'
  | _, _ => false
  end.

Fixpoint stream_eqb (a b : list (bytes * option bytes)) : bool :=
  match a, b with
  | [], [] => true
  | (k1, v1) :: a', (k2, v2) :: b' => bytes_eqb k1 k2 && optb_eqb v1 v2 && stream_eqb a' b'
  | _, _ => false
  end.

Definition out_agree (c : cls) (o : out c_ops) (x : cout) : cls * bool :=
  match o, x with
  | ONone _, CNone => (c, true)
  | OBool _ a, CBool b => (c, Bool.eqb a b)
  | OGet _ a, CGet b => (c, optb_eqb a b)
  | OSize _ _, _ => (c, false)
  | OStream _ a, CStream b => (c, stream_eqb a b)
  | OKeys _ a, CKeys b => (c, keys_eqb a b)
  | ORoot _ r, CRoot id => check_root c r id
  | _, _ => (c, false)
  end.

(* ESize is never sent as an event: Size() is read after every call *)
Fixpoint agree (c : cls) (m : amap c_ops) (h : list ev) (os : list obs) : cls * bool :=
  match h, os with
  | [], [] => (c, true)
  | e :: r, x :: os' =>
      let '(m1, o) := step c_ops m e in
      let '(c1, ok) := out_agree c o (o_out x) in
      if ok && Z.eqb (map_size c_ops m1) (o_size x) && Bool.eqb (was_restored c_ops m1) (o_restored x)
      then agree c1 m1 r os'
      else (c1, false)
  | _, _ => (c, false)
  end.

Fixpoint mismatches_from (i : nat) (c : cls) (cs : list case) : list nat :=
  match cs with
  | [] => []
  | x :: r =>
      let '(c1, ok) := agree c (fresh c_ops) (c_hist x) (c_obs x) in
      if ok then mismatches_from (S i) c1 r else i :: mismatches_from (S i) c1 r
  end.

Definition mismatches (cs : list case) : list nat := mismatches_from 0 cls0 cs.
