(* C09 - proofs for the model under store faults (Faults.v): for EVERY history of calls, refused writes, aborted
   Streams, second instances and reopens, over any trie with [trie_spec]:
   the trie and the stored root follow a plain map in which a refused Commit does nothing (failure atomicity of
   Commit w.r.t. the root write) and a Set/Delete whose raw-key or size write was refused HAS taken effect in the
   trie (the listed finding refused-write-keeps-trie-update, mirrored); a reopen / second instance always shows the
   contents and root of the last SUCCESSFUL Commit. *)
From Coq Require Import NArith ZArith List Bool Lia.
From Verif.C09_ADS Require Import Model Proofs Refine Faults.
Import ListNotations.

(* the plain map under faults: what the trie holds (s_cur) and what the last successful Commit stored (s_com) *)
Definition fspec_step (s : spec) (e : fev) : spec :=
  match e with
  | FOk e' => spec_step s e'
  | FFailSet k v _ => spec_step s (ESet k v)
  | FFailAdd k _ => spec_step s (EAdd k)
  | FFailDelete k _ => spec_step s (EDelete k)
  | FFailCommitRoot | FAbort _ | FAbortKeys _ | FProbe _ _ => s
  end.

Definition fspec_after (h : list fev) : spec := fold_left fspec_step h spec0.

Definition is_ok_commit (e : fev) : bool := match e with FOk ECommit => true | _ => false end.

(* events that must not change anything: refused Commit, aborted Streams, second instances *)
Definition is_neutral (e : fev) : bool :=
  match e with FFailCommitRoot | FAbort _ | FAbortKeys _ | FProbe _ _ => true | _ => false end.

Lemma fspec_com_step : forall s e, is_ok_commit e = false -> s_com (fspec_step s e) = s_com s.
Proof.
  intros s e H. destruct e as [e'|k v j|k j|k j| |j|j|b ks]; simpl; try reflexivity.
  destruct e'; simpl; try reflexivity. discriminate H.
Qed.

Lemma fspec_com_keep : forall h s, existsb is_ok_commit h = false ->
  s_com (fold_left fspec_step h s) = s_com s.
Proof.
  induction h as [|e r IH]; intros s H; simpl; [reflexivity|].
  simpl in H. apply orb_false_elim in H as [He Hr]. rewrite IH by exact Hr. apply fspec_com_step. exact He.
Qed.

Lemma fspec_restored : forall h s,
  is_some (s_com (fold_left fspec_step h s)) = is_some (s_com s) || existsb is_ok_commit h.
Proof.
  induction h as [|e r IH]; intros s; simpl; [rewrite orb_false_r; reflexivity|].
  rewrite IH. destruct (is_ok_commit e) eqn:E.
  - destruct e as [e'| | | | | | |]; try discriminate E. destruct e'; try discriminate E.
    simpl. rewrite orb_true_r. reflexivity.
  - rewrite fspec_com_step by exact E. reflexivity.
Qed.

Section FaultProofs.
  Variable O : trie_ops.
  Hypothesis HO : trie_spec O.

  (* invariant A of Refine.v speaks about the trie and the root key only *)
  Lemma InvA_same : forall m m' s,
    tree O m' = tree O m -> rootkey O m' = rootkey O m -> InvA O m s -> InvA O m' s.
  Proof. intros m m' s Ht Hr H. unfold InvA in *. rewrite Ht, Hr. exact H. Qed.

  Lemma fail_set_InvA : forall m s k v j, InvA O m s ->
    InvA O (fst (fail_set O m k v j)) (spec_step s (ESet k v)).
  Proof.
    intros m s k v j H. pose proof (InvA_set O HO m s k v H) as S.
    unfold fail_set. destruct j as [|[|j]]; destruct (has O m k); simpl;
      (eapply InvA_same; [| |exact S]; reflexivity).
  Qed.

  Lemma fail_delete_InvA : forall m s k j, InvA O m s ->
    InvA O (fst (fail_delete O m k j)) (spec_step s (EDelete k)).
  Proof.
    intros m s k j H. pose proof (InvA_delete O HO m s k H) as D.
    unfold fail_delete. unfold map_delete in D. destruct (has O m k); simpl in *; [|exact D].
    destruct j as [|[|j]]; simpl; (eapply InvA_same; [| |exact D]; reflexivity).
  Qed.

  Lemma fstep_InvA : forall m s e, InvA O m s -> InvA O (fst (fstep O m e)) (fspec_step s e).
  Proof.
    intros m s e H. destruct e as [e'|k v j|k j|k j| |j|j|b ks]; simpl; try exact H.
    - pose proof (step_InvA O HO m s e' H) as [I _]. destruct (step O m e'). exact I.
    - apply fail_set_InvA. exact H.
    - apply (fail_set_InvA m s k (Some []) j H).
    - apply fail_delete_InvA. exact H.
  Qed.

  Lemma frun_InvA : forall h m s, InvA O m s -> InvA O (fst (frun O m h)) (fold_left fspec_step h s).
  Proof.
    induction h as [|e r IH]; intros m s H; simpl; [exact H|].
    pose proof (fstep_InvA m s e H) as H1. destruct (fstep O m e) as [m1 o]. simpl in H1.
    specialize (IH m1 (fspec_step s e) H1). destruct (frun O m1 r) as [m2 os]. exact IH.
  Qed.

  Lemma frun_app_fst : forall h1 h2 m, fst (frun O m (h1 ++ h2)) = fst (frun O (fst (frun O m h1)) h2).
  Proof.
    induction h1 as [|e r IH]; intros h2 m; simpl; [reflexivity|].
    destruct (fstep O m e) as [m1 o]. specialize (IH h2 m1).
    destruct (frun O m1 (r ++ h2)) as [m2 os]. destruct (frun O m1 r) as [m3 os3]. simpl in *. exact IH.
  Qed.

  Lemma fstate_after_app : forall h1 h2, fstate_after O (h1 ++ h2) = fst (frun O (fstate_after O h1) h2).
  Proof. intros. unfold fstate_after. apply frun_app_fst. Qed.

  Theorem faults_InvA : forall h, InvA O (fstate_after O h) (fspec_after h).
  Proof. intros h. unfold fstate_after, fspec_after. apply frun_InvA. apply (InvA_fresh O HO). Qed.

  (* refused Commit, aborted Stream, second instance: the state is untouched *)
  Theorem neutral_keeps_state : forall h e, is_neutral e = true -> fstate_after O (h ++ [e]) = fstate_after O h.
  Proof.
    intros h e N. rewrite fstate_after_app. destruct e; try discriminate N; reflexivity.
  Qed.

  (* every history: the live instance answers like the plain map; a reopen / second instance shows the last
     successfully committed contents; WasRestored <=> some Commit succeeded *)
  Theorem faults_refine : forall h,
    let m := fstate_after O h in
    let p := reopen O m in
    (forall k, map_get O m k = al_get (s_cur (fspec_after h)) k) /\
    (forall k, has O m k = is_some (al_get (s_cur (fspec_after h)) k)) /\
    (forall k, map_get O p k = al_get (committed_or_empty (fspec_after h)) k) /\
    was_restored O m = existsb is_ok_commit h /\
    was_restored O p = existsb is_ok_commit h.
  Proof.
    intros h m p. pose proof (faults_InvA h) as I. fold m in I.
    pose proof (InvA_reopen O HO m _ I) as Ip. fold p in Ip.
    assert (is_some (s_com (fspec_after h)) = existsb is_ok_commit h) as R
      by (unfold fspec_after; rewrite fspec_restored; reflexivity).
    split; [intros k; destruct I as (_ & G & _); apply G|].
    split; [intros k; apply (has_spec O m _ k I)|].
    split; [intros k; destruct Ip as (_ & G & _); apply G|].
    split; [rewrite (restored_spec O m _ I); exact R|].
    rewrite (restored_spec O p _ Ip). exact R.
  Qed.

  (* failure atomicity of Commit (root write refused), at full strength: after a successful Commit, ANY further
     history without a successful Commit - refused Commits, Sets/Deletes with refused writes, aborted Streams,
     reopens with uncommitted changes - and a reopen shows exactly the root and contents of that Commit *)
  Theorem failed_commit_restores_previous : forall h1 h2,
    existsb is_ok_commit h2 = false ->
    let c := fstate_after O (h1 ++ [FOk ECommit]) in
    let m := fstate_after O ((h1 ++ [FOk ECommit]) ++ h2) in
    let p := reopen O m in
    map_root O p = map_root O c /\ (forall k, map_get O p k = map_get O c k) /\
    was_restored O p = true /\ was_restored O m = true.
  Proof.
    intros h1 h2 N c m p.
    pose proof (faults_InvA (h1 ++ [FOk ECommit])) as Ic. fold c in Ic.
    pose proof (faults_InvA ((h1 ++ [FOk ECommit]) ++ h2)) as Im. fold m in Im.
    pose proof (InvA_reopen O HO m _ Im) as Ip. fold p in Ip.
    assert (s_com (fspec_after ((h1 ++ [FOk ECommit]) ++ h2)) = Some (s_cur (fspec_after (h1 ++ [FOk ECommit])))) as C.
    { unfold fspec_after. rewrite (fold_left_app fspec_step (h1 ++ [FOk ECommit]) h2).
      rewrite fspec_com_keep by exact N. rewrite fold_left_app. reflexivity. }
    assert (forall k, map_get O p k = map_get O c k) as G.
    { intros k. destruct Ip as (_ & Gp & _). destruct Ic as (_ & Gc & _). unfold map_get.
      rewrite Gp, Gc. unfold committed_or_empty. rewrite C. reflexivity. }
    split; [apply (H_root_ext O HO); exact G|]. split; [exact G|].
    rewrite (restored_spec O p _ Ip), (restored_spec O m _ Im). simpl. rewrite C. split; reflexivity.
  Qed.

  (* ... and when no Commit ever succeeded, a reopen is an empty, not-restored instance *)
  Theorem never_committed_reopens_empty : forall h, existsb is_ok_commit h = false ->
    let m := fstate_after O h in
    let p := reopen O m in
    (forall k, map_get O p k = None) /\ was_restored O p = false /\ was_restored O m = false /\
    map_root O p = map_root O (fresh O).
  Proof.
    intros h N m p. destruct (faults_refine h) as (_ & _ & G & Rm & Rp). fold m in G, Rm, Rp. fold p in G, Rp.
    assert (s_com (fspec_after h) = None) as C by (unfold fspec_after; rewrite fspec_com_keep by exact N; reflexivity).
    assert (forall k, map_get O p k = None) as G0.
    { intros k. rewrite G. unfold committed_or_empty. rewrite C. reflexivity. }
    split; [exact G0|]. rewrite Rm, Rp, N. split; [reflexivity|]. split; [reflexivity|].
    apply (H_root_ext O HO). intros k. fold (map_get O p k). rewrite G0.
    symmetry. apply (H_get_new O HO).
  Qed.

  (* the fault model extends Model.v: without faults it is [run] *)
  Theorem fault_free_is_run : forall h m, fst (frun O m (map FOk h)) = fst (run O m h).
  Proof.
    induction h as [|e r IH]; intros m; simpl; [reflexivity|].
    destruct (step O m e) as [m1 o]. specialize (IH m1).
    destruct (frun O m1 (map FOk r)) as [m2 os]. destruct (run O m1 r) as [m3 os3]. exact IH.
  Qed.
End FaultProofs.

(* non-vacuity and a concrete run on the executable trie: Set a; Commit; Set b; Set c with the size write refused;
   Commit with the root write refused; second instance *)
Definition fx_a : bytes := [97%N].
Definition fx_b : bytes := [98%N].
Definition fx_c : bytes := [99%N].
Definition fx_hist : list fev :=
  [FOk (ESet fx_a (Some [1%N])); FOk ECommit; FOk (ESet fx_b (Some [2%N])); FFailSet fx_c (Some [3%N]) 1;
   FFailCommitRoot; FAbort 0; FProbe false [fx_a; fx_b; fx_c]].

Lemma fx_outs :
  fouts c_ops fx_hist =
    [FO c_ops (ONone c_ops); FO c_ops (ONone c_ops); FO c_ops (ONone c_ops); FErr c_ops; FErr c_ops;
     FAborted c_ops [(fx_a, Some [1%N])] true;
     FProbed c_ops true [(fx_a, [1%N])] 2 [(fx_a, Some [1%N]); (fx_b, None); (fx_c, None)] [Some [1%N]; None; None]] /\
  map_size c_ops (fstate_after c_ops fx_hist) = 2%Z /\
  map_get c_ops (fstate_after c_ops fx_hist) fx_c = Some [3%N].
Proof. vm_compute. repeat split. Qed.

Lemma fx_guard : existsb is_ok_commit [FOk (ESet fx_b (Some [2%N])); FFailSet fx_c (Some [3%N]) 1; FFailCommitRoot; FAbort 0] = false.
Proof. reflexivity. Qed.
