(* C09 - several authenticated maps/sets in different realms of ONE key-value database (executable model).

   newAuthenticatedMap derives its sub-stores from the store it is handed: raw-key mirror = realm ++ [0] (iterated by
   Stream), trie nodes = realm ++ [1], root = key realm ++ [2], size = key realm ++ [3] (map_impl.go: WithExtendedRealm /
   NewTypedValue(store, [prefix])).  Here the database is ONE flat key-value list shared by all instances; an instance
   owns only its in-memory trie and the four addresses [addr] it derived from its realm.  The layout [ext_addr] is what
   the code does; any other layout function (e.g. [abs_raw_addr]: the raw-key mirror derived with an absolute realm)
   can be run through the same model and leaks between instances (Examples in SharedProofs.v).

   The raw keys are individual database keys below the mirror's realm (IterateKeys = all keys with that prefix, prefix
   stripped, byte order).  The external trie keeps its nodes in an abstract store [tS O]; it is one cell at the address
   of the node realm (written by Commit only).  Single-instance operations are those of Model.v read through [view]. *)
From Coq Require Import NArith ZArith List Bool.
From Verif.C09_ADS Require Import Model.
Import ListNotations.

(* events of a system of instances: a call on instance i, or Clear() of instance i's store view followed by a new
   instance over it *)
Inductive sev := SOp (i : nat) (e : ev) | SWipe (i : nat).

(* [strip p k]: k = p ++ s (the key as seen through a view with realm p) *)
Fixpoint strip (p k : bytes) : option bytes :=
  match p, k with
  | [], _ => Some k
  | x :: p', y :: k' => if N.eqb x y then strip p' k' else None
  | _ :: _, [] => None
  end.

Definition prefixb (p k : bytes) : bool := match strip p k with Some _ => true | None => false end.

(* the sub-realm / key bytes 0..3 an instance uses below its realm *)
Definition n_sub : N := 4.

(* decidable sufficient condition for disjoint footprints: the realms diverge at some byte, or one is a proper prefix of
   the other and the longer one continues with a byte that is not a sub-realm byte *)
Fixpoint separatedb (a b : bytes) : bool :=
  match a, b with
  | [], [] => false
  | [], y :: _ => N.leb n_sub y
  | x :: _, [] => N.leb n_sub x
  | x :: a', y :: b' => if N.eqb x y then separatedb a' b' else true
  end.

Fixpoint set_nth {A} (i : nat) (x : A) (l : list A) : list A :=
  match l, i with
  | [], _ => []
  | _ :: r, O => x :: r
  | y :: r, S i' => y :: set_nth i' x r
  end.

Record addr := mkAddr { a_raw : bytes; a_nodes : bytes; a_root : bytes; a_size : bytes }.

(* map_impl.go: every sub-store extends the realm of the store handed in *)
Definition ext_addr (R : bytes) : addr := mkAddr (R ++ [0%N]) (R ++ [1%N]) (R ++ [2%N]) (R ++ [3%N]).
(* the defect class: one sub-store derived with an absolute realm (store.WithRealm instead of WithExtendedRealm) *)
Definition abs_raw_addr (R : bytes) : addr := mkAddr [0%N] (R ++ [1%N]) (R ++ [2%N]) (R ++ [3%N]).

Section Shared.
  Variable O : trie_ops.

  Inductive cell := KRaw | KSize (n : N) | KRoot (r : tR O) | KNodes (s : tS O).

  (* the database: newest binding first, [kv_get] takes the first match, [kv_del] removes every binding of the key *)
  Definition kvs := list (bytes * cell).

  Fixpoint kv_get (db : kvs) (k : bytes) : option cell :=
    match db with
    | [] => None
    | (k', c) :: r => if bytes_eqb k k' then Some c else kv_get r k
    end.

  Definition kv_set (k : bytes) (c : cell) (db : kvs) : kvs := (k, c) :: db.

  Fixpoint kv_del (k : bytes) (db : kvs) : kvs :=
    match db with
    | [] => []
    | (k', c) :: r => if bytes_eqb k k' then kv_del k r else (k', c) :: kv_del k r
    end.

  (* IterateKeys of a view with realm p: the keys below p, realm stripped, in byte order *)
  Fixpoint kv_iter (p : bytes) (db : kvs) : list bytes :=
    match db with
    | [] => []
    | (k, _) :: r => match strip p k with Some s => rk_insert s (kv_iter p r) | None => kv_iter p r end
    end.

  (* Clear() of a view with realm p: DeletePrefix(p) *)
  Fixpoint kv_clear (p : bytes) (db : kvs) : kvs :=
    match db with
    | [] => []
    | (k, c) :: r => if prefixb p k then kv_clear p r else (k, c) :: kv_clear p r
    end.

  Definition nodes_at (A : addr) (db : kvs) : tS O :=
    match kv_get db (a_nodes A) with Some (KNodes s) => s | _ => st_empty O end.
  Definition root_at (A : addr) (db : kvs) : option (tR O) :=
    match kv_get db (a_root A) with Some (KRoot r) => Some r | _ => None end.
  Definition size_at (A : addr) (db : kvs) : option N :=
    match kv_get db (a_size A) with Some (KSize n) => Some n | _ => None end.

  (* what an instance with addresses A and live trie t is, as a single-store instance of Model.v *)
  Definition view (A : addr) (db : kvs) (t : tT O) : amap O :=
    mkA O t (kv_iter (a_raw A) db) (size_at A db) (root_at A db).

  (* newAuthenticatedMap over the database *)
  Definition sh_open (A : addr) (db : kvs) : tT O :=
    match root_at A db with
    | Some r => t_import O (nodes_at A db) r
    | None => t_new O (nodes_at A db)
    end.

  Definition sh_has (t : tT O) (k : bytes) : bool := match t_get O t k with Some _ => true | None => false end.

  Definition sh_add_size (A : addr) (db : kvs) (delta : Z) : kvs :=
    match add_size (size_at A db) delta with Some n => kv_set (a_size A) (KSize n) db | None => db end.

  Definition sh_set (A : addr) (db : kvs) (t : tT O) (k : bytes) (v : option bytes) : kvs * tT O :=
    let h := sh_has t k in
    let db1 := kv_set (a_raw A ++ k) KRaw db in
    (if h then db1 else sh_add_size A db1 1, t_update O t k (nil_to_empty v)).

  Definition sh_delete (A : addr) (db : kvs) (t : tT O) (k : bytes) : kvs * tT O * bool :=
    if sh_has t k
    then (sh_add_size A (kv_del (a_raw A ++ k) db) (-1), t_delete O t k, true)
    else (db, t, false).

  (* Commit: root key, then the trie flushes its nodes *)
  Definition sh_commit (A : addr) (db : kvs) (t : tT O) : kvs * tT O :=
    let t' := t_commit O t in
    (kv_set (a_nodes A) (KNodes (t_store O t')) (kv_set (a_root A) (KRoot (t_root O t)) db), t').

  Definition sh_step (A : addr) (db : kvs) (t : tT O) (e : ev) : kvs * tT O * out O :=
    match e with
    | ESet k v => (sh_set A db t k v, ONone O)
    | EAdd k => (sh_set A db t k (Some []), ONone O)
    | EDelete k => let '(db', t', d) := sh_delete A db t k in (db', t', OBool O d)
    | ECommit => (sh_commit A db t, ONone O)
    | EReopen => (db, sh_open A db, ONone O)
    | _ => (db, t, snd (step O (view A db t) e))            (* reads: Model.v on the view *)
    end.

  (* ----- the system: realms Rs (instance i lives in realm Rs[i]), layout L, one database, one live trie each ----- *)
  Variable L : bytes -> addr.

  Definition sys := (kvs * list (tT O))%type.

  Definition sys_init (Rs : list bytes) : sys := ([], map (fun R => sh_open (L R) []) Rs).

  Definition sys_step (Rs : list bytes) (s : sys) (x : sev) : sys * option (out O) :=
    let '(db, ts) := s in
    match x with
    | SOp i e =>
        match nth_error Rs i, nth_error ts i with
        | Some R, Some t => let '(db', t', o) := sh_step (L R) db t e in ((db', set_nth i t' ts), Some o)
        | _, _ => (s, None)
        end
    | SWipe i =>
        match nth_error Rs i, nth_error ts i with
        | Some R, Some _ => let db' := kv_clear R db in ((db', set_nth i (sh_open (L R) db') ts), Some (ONone O))
        | _, _ => (s, None)
        end
    end.

  Fixpoint sys_run (Rs : list bytes) (s : sys) (h : list sev) : sys * list (option (out O)) :=
    match h with
    | [] => (s, [])
    | x :: r => let '(s1, o) := sys_step Rs s x in let '(s2, os) := sys_run Rs s1 r in (s2, o :: os)
    end.

  (* ----- the reference: every instance alone over its own store (Model.v), no database in common ----- *)
  Definition iso_step (ms : list (amap O)) (x : sev) : list (amap O) * option (out O) :=
    match x with
    | SOp i e =>
        match nth_error ms i with
        | Some m => let '(m', o) := step O m e in (set_nth i m' ms, Some o)
        | None => (ms, None)
        end
    | SWipe i =>
        match nth_error ms i with
        | Some _ => (set_nth i (fresh O) ms, Some (ONone O))
        | None => (ms, None)
        end
    end.

  Fixpoint iso_run (ms : list (amap O)) (h : list sev) : list (amap O) * list (option (out O)) :=
    match h with
    | [] => (ms, [])
    | x :: r => let '(m1, o) := iso_step ms x in let '(m2, os) := iso_run m1 r in (m2, o :: os)
    end.

  Definition iso_init (Rs : list bytes) : list (amap O) := map (fun _ => fresh O) Rs.
End Shared.

(* ----- guards of the theorems, decidable ----- *)

(* every two different instances live in separated realms *)
Fixpoint sep_from (R : bytes) (l : list bytes) : bool :=
  match l with [] => true | x :: r => separatedb R x && separatedb x R && sep_from R r end.
Fixpoint realms_okb (Rs : list bytes) : bool :=
  match Rs with [] => true | R :: r => sep_from R r && realms_okb r end.

(* Clear() of the view of realm i is only used when that realm is not a prefix of a sibling's realm *)
Fixpoint wipe_okb_from (n i : nat) (R : bytes) (l : list bytes) : bool :=
  match l with
  | [] => true
  | x :: r => (Nat.eqb n i || negb (prefixb R x)) && wipe_okb_from (S n) i R r
  end.
Definition hist_okb (Rs : list bytes) (h : list sev) : bool :=
  forallb (fun x => match x with
                    | SOp _ _ => true
                    | SWipe i => match nth_error Rs i with Some R => wipe_okb_from 0 i R Rs | None => true end
                    end) h.
