(* C09 - executable model of /repo/ads (authenticated map and set over pokt-network/smt).

   The sparse Merkle trie is EXTERNAL code (github.com/pokt-network/smt v0.9.2, value hasher disabled): it is
   modelled as an abstract authenticated dictionary [trie_ops]; what ads relies on is the record of hypotheses
   [trie_spec] in Proofs.v (premise of every theorem; trusted base).  [c_ops] below is one concrete executable
   instance (association list, root = canonical sorted contents, node store = the committed snapshots); it is
   proved to satisfy [trie_spec] in Proofs.v and it is the instance the correspondence check runs.

   On top of it map_impl.go / set_impl.go are transcribed as they are after the D09 fix (c0299ea):
   has := tree.Get != nil, the uint64 size counter in a TypedValue (absent until the first addSize, wraps),
   the raw keys mirrored in realm 0 of the store (mapdb iterates in byte-lexicographic order), the root under a
   fixed key written by Commit, and the constructor that imports the trie when the root key exists.
   Keys and values are byte strings; the key/value codecs of the caller are the identity (K = string,
   V = []byte in the harness; a Go nil slice is [None], see [nil_to_empty]). *)
From Coq Require Import NArith ZArith List Bool.
Import ListNotations.

Definition bytes := list N.

(* Go's bytes.Compare / string order: the iteration order of mapdb. *)
Fixpoint lex_cmp (a b : bytes) : comparison :=
  match a, b with
  | [], [] => Eq
  | [], _ :: _ => Lt
  | _ :: _, [] => Gt
  | x :: a', y :: b' => match N.compare x y with Eq => lex_cmp a' b' | c => c end
  end.

Definition bytes_eqb (a b : bytes) : bool := match lex_cmp a b with Eq => true | _ => false end.

(* ---------- sorted association lists: the plain map of the specification, and the concrete trie ---------- *)

Definition alist := list (bytes * bytes).

Fixpoint al_get (l : alist) (k : bytes) : option bytes :=
  match l with
  | [] => None
  | (k', v) :: r => if bytes_eqb k k' then Some v else al_get r k
  end.

Fixpoint al_set (k v : bytes) (l : alist) : alist :=
  match l with
  | [] => [(k, v)]
  | (k', v') :: r =>
      match lex_cmp k k' with
      | Lt => (k, v) :: l
      | Eq => (k, v) :: r
      | Gt => (k', v') :: al_set k v r
      end
  end.

Fixpoint al_del (k : bytes) (l : alist) : alist :=
  match l with
  | [] => []
  | (k', v') :: r => if bytes_eqb k k' then al_del k r else (k', v') :: al_del k r
  end.

(* realm 0 of the store: the set of raw keys, iterated in sorted order *)
Fixpoint rk_insert (k : bytes) (l : list bytes) : list bytes :=
  match l with
  | [] => [k]
  | x :: r =>
      match lex_cmp k x with
      | Lt => k :: l
      | Eq => k :: r
      | Gt => x :: rk_insert k r
      end
  end.

Fixpoint rk_remove (k : bytes) (l : list bytes) : list bytes :=
  match l with
  | [] => []
  | x :: r => if bytes_eqb k x then rk_remove k r else x :: rk_remove k r
  end.

(* ---------- the abstract authenticated dictionary (smt.SMT over a MapStore) ---------- *)

Record trie_ops := mkOps {
  tT : Type;                                  (* a live *smt.SMT: in-memory trie + its node store *)
  tS : Type;                                  (* the node store (realm 1 of the KVStore) *)
  tR : Type;                                  (* root digests *)
  st_empty : tS;
  t_new : tS -> tT;                           (* smt.NewSparseMerkleTrie(store, sha256, WithValueHasher(nil)) *)
  t_import : tS -> tR -> tT;                  (* smt.ImportSparseMerkleTrie(store, sha256, root, ...) *)
  t_get : tT -> bytes -> option bytes;        (* Get; None = the nil "default value" of an absent key *)
  t_update : tT -> bytes -> bytes -> tT;      (* Update(key, value), value non-nil *)
  t_delete : tT -> bytes -> tT;               (* Delete(key) (ads only calls it for a present key) *)
  t_root : tT -> tR;                          (* Root() *)
  t_commit : tT -> tT;                        (* Commit(): flush dirty nodes, drop orphans *)
  t_store : tT -> tS                          (* what is in the node store right now *)
}.

(* ---------- one concrete instance ---------- *)

Fixpoint alist_eqb (a b : alist) : bool :=
  match a, b with
  | [], [] => true
  | (k1, v1) :: a', (k2, v2) :: b' => bytes_eqb k1 k2 && bytes_eqb v1 v2 && alist_eqb a' b'
  | _, _ => false
  end.

(* canonical form: sorted by key, the first binding of a key wins (as in al_get) *)
Fixpoint canon (l : alist) : alist :=
  match l with
  | [] => []
  | (k, v) :: r => al_set k v (canon r)
  end.

Record ctrie := mkC { c_live : alist; c_nodes : list alist }.

Definition c_ops : trie_ops := {|
  tT := ctrie; tS := list alist; tR := alist;
  st_empty := [];
  t_new := fun s => mkC [] s;
  t_import := fun s r => mkC (if existsb (alist_eqb r) s then r else []) s;
  t_get := fun t k => al_get (c_live t) k;
  t_update := fun t k v => mkC (al_set k v (c_live t)) (c_nodes t);
  t_delete := fun t k => mkC (al_del k (c_live t)) (c_nodes t);
  t_root := fun t => canon (c_live t);
  t_commit := fun t => mkC (c_live t) [canon (c_live t)];   (* orphans are deleted: one snapshot remains *)
  t_store := c_nodes
|}.

(* ---------- map_impl.go / set_impl.go ---------- *)

(* one event per API call; EAdd / EStreamKeys are the set flavour, EReopen drops the instance and constructs
   a new one over the same store *)
Inductive ev :=
| ESet (k : bytes) (v : option bytes) | EAdd (k : bytes) | EDelete (k : bytes) | ECommit | EReopen
| EGet (k : bytes) | EHas (k : bytes) | ESize | EStream | EStreamKeys | ERoot | ERestored.

Section ADS.
  Variable O : trie_ops.

  (* in memory: tree (over the node store).  In the store: rawkeys (realm 0), t_store tree (realm 1),
     rootkey (key 02), size (key 03).  The TypedValue caches are coherent with the store as long as one
     instance is live, so they are not modelled separately. *)
  Record amap := mkA {
    tree : tT O;
    rawkeys : list bytes;
    size : option N;
    rootkey : option (tR O)
  }.

  (* newAuthenticatedMap over a store with the given contents *)
  Definition open (rk : list bytes) (st : tS O) (sz : option N) (rt : option (tR O)) : amap :=
    mkA (match rt with Some r => t_import O st r | None => t_new O st end) rk sz rt.

  Definition fresh : amap := open [] (st_empty O) None None.

  (* drop the instance, construct a new one over the same store *)
  Definition reopen (m : amap) : amap := open (rawkeys m) (t_store O (tree m)) (size m) (rootkey m).

  Definition has (m : amap) (k : bytes) : bool :=
    match t_get O (tree m) k with Some _ => true | None => false end.

  (* addSize: size.Get (0 when the key is absent), then size.Set(uint64(int(size)+delta)) *)
  Definition add_size (sz : option N) (delta : Z) : option N :=
    Some (Z.to_N ((Z.of_N (match sz with Some n => n | None => 0%N end) + delta) mod 2 ^ 64)).

  (* the D09 fix: a nil serialized value is stored as the empty value *)
  Definition nil_to_empty (v : option bytes) : bytes := match v with Some b => b | None => [] end.

  Definition map_set (m : amap) (k : bytes) (v : option bytes) : amap :=
    let vb := nil_to_empty v in
    let h := has m k in
    mkA (t_update O (tree m) k vb) (rk_insert k (rawkeys m))
        (if h then size m else add_size (size m) 1) (rootkey m).

  (* Size(): int(size), 0 when the size key is absent *)
  Definition map_size (m : amap) : Z :=
    match size m with
    | None => 0
    | Some n => if (n <? 2 ^ 63)%N then Z.of_N n else Z.of_N n - 2 ^ 64
    end.

  Definition map_commit (m : amap) : amap :=
    mkA (t_commit O (tree m)) (rawkeys m) (size m) (Some (t_root O (tree m))).

  Definition map_delete (m : amap) (k : bytes) : amap * bool :=
    if has m k
    then (mkA (t_delete O (tree m) k) (rk_remove k (rawkeys m)) (add_size (size m) (-1)) (rootkey m), true)
    else (m, false).

  (* Get: (value, exists); exists = false exactly when the trie returns nil *)
  Definition map_get (m : amap) (k : bytes) : option bytes := t_get O (tree m) k.

  (* Stream: the raw keys in store order, each with tree.Get (nil when the trie does not have the key) *)
  Definition map_stream (m : amap) : list (bytes * option bytes) :=
    map (fun k => (k, t_get O (tree m) k)) (rawkeys m).

  Definition map_root (m : amap) : tR O := t_root O (tree m).

  Definition was_restored (m : amap) : bool := match rootkey m with Some _ => true | None => false end.

  (* set_impl.go: Add(k) = Set(k, types.Void), types.Empty.Bytes() = []byte{}; Stream drops the values *)
  Definition set_add (m : amap) (k : bytes) : amap := map_set m k (Some []).
  Definition set_stream (m : amap) : list bytes := map fst (map_stream m).

  Inductive out :=
  | ONone | OBool (b : bool) | OGet (v : option bytes) | OSize (z : Z)
  | OStream (l : list (bytes * option bytes)) | OKeys (l : list bytes) | ORoot (r : tR O).

  Definition step (m : amap) (e : ev) : amap * out :=
    match e with
    | ESet k v => (map_set m k v, ONone)
    | EAdd k => (set_add m k, ONone)
    | EDelete k => let '(m', d) := map_delete m k in (m', OBool d)
    | ECommit => (map_commit m, ONone)
    | EReopen => (reopen m, ONone)
    | EGet k => (m, OGet (map_get m k))
    | EHas k => (m, OBool (has m k))
    | ESize => (m, OSize (map_size m))
    | EStream => (m, OStream (map_stream m))
    | EStreamKeys => (m, OKeys (set_stream m))
    | ERoot => (m, ORoot (map_root m))
    | ERestored => (m, OBool (was_restored m))
    end.

  Fixpoint run (m : amap) (h : list ev) : amap * list out :=
    match h with
    | [] => (m, [])
    | e :: r => let '(m1, o) := step m e in let '(m2, os) := run m1 r in (m2, o :: os)
    end.

  Definition state_after (h : list ev) : amap := fst (run fresh h).
  Definition outs (h : list ev) : list out := snd (run fresh h).
End ADS.

