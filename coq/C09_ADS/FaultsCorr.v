(* Correspondence for the fault / consumer-error / second-instance histories (hx-c09 faults): as Corr.v, the model
   runs on [c_ops], real roots are numbered by first appearance and must stay in bijection with the model roots. *)
From Coq Require Import NArith ZArith List Bool PArith.
From Verif.C09_ADS Require Import Model Corr Faults.
Import ListNotations.

Inductive fcout :=
| FC (c : cout)
| FCAbort (l : list (bytes * option bytes)) (err : bool)
| FCAbortKeys (l : list bytes) (err : bool)
| FCProbe (restored : bool) (root : positive) (size : Z) (stream : list (bytes * option bytes)) (gets : list (option bytes)).

Record fobs := mkFObs { fo_out : fcout; fo_size : Z; fo_restored : bool }.
Record fcase := mkFCase { fc_hist : list fev; fc_obs : list fobs }.

Fixpoint opts_eqb (a b : list (option bytes)) : bool :=
  match a, b with
  | [], [] => true
  | x :: a', y :: b' => optb_eqb x y && opts_eqb a' b'
  | _, _ => false
  end.

Definition fout_agree (c : cls) (o : fout c_ops) (x : fcout) : cls * bool :=
  match o, x with
  | FO _ o', FC x' => out_agree c o' x'
  | FErr _, FC CErr => (c, true)
  | FAborted _ l e, FCAbort l' e' => (c, stream_eqb l l' && Bool.eqb e e')
  | FAbortedKeys _ l e, FCAbortKeys l' e' => (c, keys_eqb l l' && Bool.eqb e e')
  | FProbed _ rs r sz st gs, FCProbe rs' id sz' st' gs' =>
      let '(c1, ok) := check_root c r id in
      (c1, ok && Bool.eqb rs rs' && Z.eqb sz sz' && stream_eqb st st' && opts_eqb gs gs')
  | _, _ => (c, false)
  end.

Fixpoint fagree (c : cls) (m : amap c_ops) (h : list fev) (os : list fobs) : cls * bool :=
  match h, os with
  | [], [] => (c, true)
  | e :: r, x :: os' =>
      let '(m1, o) := fstep c_ops m e in
      let '(c1, ok) := fout_agree c o (fo_out x) in
      if ok && Z.eqb (map_size c_ops m1) (fo_size x) && Bool.eqb (was_restored c_ops m1) (fo_restored x)
      then fagree c1 m1 r os'
      else (c1, false)
  | _, _ => (c, false)
  end.

Fixpoint fmismatches_from (i : nat) (c : cls) (cs : list fcase) : list nat :=
  match cs with
  | [] => []
  | x :: r =>
      let '(c1, ok) := fagree c (fresh c_ops) (fc_hist x) (fc_obs x) in
      if ok then fmismatches_from (S i) c1 r else i :: fmismatches_from (S i) c1 r
  end.

Definition fmismatches (cs : list fcase) : list nat := fmismatches_from 0 cls0 cs.
