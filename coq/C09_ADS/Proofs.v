(* C09 - proofs, part 1: byte-string order, sorted association lists (the plain map), the hypotheses on the
   external trie [trie_spec] and the proof that the concrete instance [c_ops] satisfies them. *)
From Coq Require Import NArith ZArith List Bool Lia.
From Verif.C09_ADS Require Import Model.
Import ListNotations.

(* ---------- lex_cmp is a decidable strict total order ---------- *)

Lemma lex_cmp_refl : forall a, lex_cmp a a = Eq.
Proof. induction a as [|x a IH]; simpl; [reflexivity|]. rewrite N.compare_refl. exact IH. Qed.

Lemma lex_cmp_eq : forall a b, lex_cmp a b = Eq -> a = b.
Proof.
  induction a as [|x a IH]; destruct b as [|y b]; simpl; try discriminate; [reflexivity|].
  destruct (N.compare_spec x y) as [E|L|G]; try discriminate.
  intros H. subst. f_equal. apply IH. exact H.
Qed.

Lemma lex_cmp_antisym : forall a b, lex_cmp b a = CompOpp (lex_cmp a b).
Proof.
  induction a as [|x a IH]; destruct b as [|y b]; simpl; try reflexivity.
  rewrite (N.compare_antisym x y). destruct (N.compare x y); simpl; auto.
Qed.

Lemma lex_cmp_trans : forall a b c, lex_cmp a b = Lt -> lex_cmp b c = Lt -> lex_cmp a c = Lt.
Proof.
  induction a as [|x a IH]; destruct b as [|y b]; destruct c as [|z c]; simpl; try discriminate; try reflexivity.
  destruct (N.compare_spec x y) as [E|L|G]; try discriminate;
  destruct (N.compare_spec y z) as [E'|L'|G']; try discriminate; intros H1 H2.
  - subst. rewrite N.compare_refl. eapply IH; eauto.
  - subst. apply N.compare_lt_iff in L'. rewrite L'. reflexivity.
  - subst. apply N.compare_lt_iff in L. rewrite L. reflexivity.
  - assert (x < z)%N as Hxz by lia. apply N.compare_lt_iff in Hxz. rewrite Hxz. reflexivity.
Qed.

Lemma bytes_eqb_eq : forall a b, bytes_eqb a b = true <-> a = b.
Proof.
  unfold bytes_eqb. intros a b. split.
  - destruct (lex_cmp a b) eqn:E; try discriminate. intros _. apply lex_cmp_eq. exact E.
  - intros ->. rewrite lex_cmp_refl. reflexivity.
Qed.

Lemma bytes_eqb_refl : forall a, bytes_eqb a a = true.
Proof. intros. apply bytes_eqb_eq. reflexivity. Qed.

Lemma bytes_eqb_neq : forall a b, a <> b -> bytes_eqb a b = false.
Proof. intros a b H. destruct (bytes_eqb a b) eqn:E; [|reflexivity]. apply bytes_eqb_eq in E. contradiction. Qed.

Lemma bytes_eq_dec : forall a b : bytes, {a = b} + {a <> b}.
Proof.
  intros a b. destruct (bytes_eqb a b) eqn:E.
  - left. apply bytes_eqb_eq. exact E.
  - right. intros ->. rewrite bytes_eqb_refl in E. discriminate.
Qed.

Definition klt (a b : bytes) : Prop := lex_cmp a b = Lt.

Lemma klt_neq : forall a b, klt a b -> a <> b.
Proof. unfold klt. intros a b H ->. rewrite lex_cmp_refl in H. discriminate. Qed.

Lemma gt_klt : forall a b, lex_cmp a b = Gt -> klt b a.
Proof. unfold klt. intros a b H. rewrite lex_cmp_antisym, H. reflexivity. Qed.

(* ---------- strictly sorted key lists ---------- *)

Fixpoint ksorted (l : list bytes) : Prop :=
  match l with
  | [] => True
  | x :: r => Forall (klt x) r /\ ksorted r
  end.

Definition asorted (l : alist) : Prop := ksorted (map fst l).

Lemma Forall_klt_trans : forall a b l, klt a b -> Forall (klt b) l -> Forall (klt a) l.
Proof. intros a b l H F. eapply Forall_impl; [|exact F]. intros c Hc. eapply lex_cmp_trans; eauto. Qed.

Lemma Forall_rk_insert : forall x k l, klt x k -> Forall (klt x) l -> Forall (klt x) (rk_insert k l).
Proof.
  induction l as [|y r IH]; simpl; intros Hk F.
  - constructor; auto.
  - inversion F; subst. destruct (lex_cmp k y); constructor; auto.
Qed.

Lemma ksorted_rk_insert : forall k l, ksorted l -> ksorted (rk_insert k l).
Proof.
  induction l as [|y r IH]; simpl; intros H.
  - split; [constructor|exact I].
  - destruct H as [F S]. destruct (lex_cmp k y) eqn:E; simpl.
    + apply lex_cmp_eq in E. subst. split; assumption.
    + split; [|split; assumption]. constructor; [exact E|]. eapply Forall_klt_trans; eauto.
    + split; [|apply IH; exact S]. apply Forall_rk_insert; [apply gt_klt; exact E|exact F].
Qed.

Lemma Forall_rk_remove : forall (P : bytes -> Prop) k l, Forall P l -> Forall P (rk_remove k l).
Proof.
  induction l as [|y r IH]; simpl; intros F; [constructor|].
  inversion F; subst. destruct (bytes_eqb k y); [apply IH; assumption|constructor; auto].
Qed.

Lemma ksorted_rk_remove : forall k l, ksorted l -> ksorted (rk_remove k l).
Proof.
  induction l as [|y r IH]; simpl; intros H; [exact I|].
  destruct H as [F S]. destruct (bytes_eqb k y); [apply IH; exact S|].
  simpl. split; [apply Forall_rk_remove; exact F|apply IH; exact S].
Qed.

(* ---------- the plain map: get/set/delete laws, length, canonicity ---------- *)

Lemma map_fst_set : forall k v l, map fst (al_set k v l) = rk_insert k (map fst l).
Proof.
  induction l as [|[k' v'] r IH]; simpl; [reflexivity|].
  destruct (lex_cmp k k'); simpl; [reflexivity|reflexivity|]. rewrite IH. reflexivity.
Qed.

Lemma map_fst_del : forall k l, map fst (al_del k l) = rk_remove k (map fst l).
Proof.
  induction l as [|[k' v'] r IH]; simpl; [reflexivity|].
  destruct (bytes_eqb k k'); simpl; [exact IH|]. rewrite IH. reflexivity.
Qed.

Lemma asorted_set : forall k v l, asorted l -> asorted (al_set k v l).
Proof. unfold asorted. intros. rewrite map_fst_set. apply ksorted_rk_insert. assumption. Qed.

Lemma asorted_del : forall k l, asorted l -> asorted (al_del k l).
Proof. unfold asorted. intros. rewrite map_fst_del. apply ksorted_rk_remove. assumption. Qed.

Lemma al_get_set_same : forall k v l, al_get (al_set k v l) k = Some v.
Proof.
  induction l as [|[k' v'] r IH]; simpl.
  - rewrite bytes_eqb_refl. reflexivity.
  - destruct (lex_cmp k k') eqn:E; simpl; try (rewrite bytes_eqb_refl; reflexivity).
    unfold bytes_eqb. rewrite E. exact IH.
Qed.

Lemma al_get_set_other : forall k v l k', k' <> k -> al_get (al_set k v l) k' = al_get l k'.
Proof.
  induction l as [|[k0 v0] r IH]; simpl; intros k' N.
  - rewrite (bytes_eqb_neq _ _ N). reflexivity.
  - destruct (lex_cmp k k0) eqn:E; simpl.
    + apply lex_cmp_eq in E. subst k0. rewrite (bytes_eqb_neq _ _ N). reflexivity.
    + rewrite (bytes_eqb_neq _ _ N). reflexivity.
    + rewrite IH by exact N. reflexivity.
Qed.

Lemma al_get_del_same : forall k l, al_get (al_del k l) k = None.
Proof.
  induction l as [|[k0 v0] r IH]; simpl; [reflexivity|].
  destruct (bytes_eqb k k0) eqn:E; simpl; [exact IH|]. rewrite E. exact IH.
Qed.

Lemma al_get_del_other : forall k l k', k' <> k -> al_get (al_del k l) k' = al_get l k'.
Proof.
  induction l as [|[k0 v0] r IH]; simpl; intros k' N; [reflexivity|].
  destruct (bytes_eqb k k0) eqn:E; simpl.
  - apply bytes_eqb_eq in E. subst k0. rewrite (bytes_eqb_neq _ _ N). apply IH. exact N.
  - rewrite IH by exact N. reflexivity.
Qed.

Lemma al_del_absent : forall k l, al_get l k = None -> al_del k l = l.
Proof.
  induction l as [|[k0 v0] r IH]; simpl; [reflexivity|].
  destruct (bytes_eqb k k0); [discriminate|]. intros H. rewrite IH by exact H. reflexivity.
Qed.

Lemma al_get_klt_all : forall k l, Forall (klt k) (map fst l) -> al_get l k = None.
Proof.
  induction l as [|[k0 v0] r IH]; simpl; intros F; [reflexivity|].
  inversion F; subst. rewrite (bytes_eqb_neq k k0) by (apply klt_neq; assumption). apply IH. assumption.
Qed.

Lemma length_set : forall k v l, asorted l ->
  length (al_set k v l) = match al_get l k with Some _ => length l | None => S (length l) end.
Proof.
  unfold asorted. induction l as [|[k0 v0] r IH]; simpl; intros H; [reflexivity|].
  destruct H as [F S]. unfold bytes_eqb. destruct (lex_cmp k k0) eqn:E; simpl.
  - reflexivity.
  - rewrite al_get_klt_all; [reflexivity|]. eapply Forall_klt_trans; eauto.
  - rewrite IH by exact S. destruct (al_get r k); reflexivity.
Qed.

Lemma length_del_present : forall k l, asorted l -> al_get l k <> None -> S (length (al_del k l)) = length l.
Proof.
  unfold asorted. induction l as [|[k0 v0] r IH]; simpl; intros H P; [congruence|].
  destruct H as [F S]. destruct (bytes_eqb k k0) eqn:E.
  - apply bytes_eqb_eq in E. subst k0. rewrite al_del_absent; [reflexivity|]. apply al_get_klt_all. exact F.
  - simpl. rewrite IH; auto.
Qed.

(* two strictly sorted association lists with the same lookups are the same list *)
Lemma asorted_ext : forall l1 l2, asorted l1 -> asorted l2 ->
  (forall k, al_get l1 k = al_get l2 k) -> l1 = l2.
Proof.
  unfold asorted. induction l1 as [|[k1 v1] r1 IH]; destruct l2 as [|[k2 v2] r2]; simpl; intros S1 S2 H.
  - reflexivity.
  - specialize (H k2). rewrite bytes_eqb_refl in H. discriminate.
  - specialize (H k1). rewrite bytes_eqb_refl in H. discriminate.
  - destruct S1 as [F1 S1]. destruct S2 as [F2 S2].
    destruct (lex_cmp k1 k2) eqn:E.
    + apply lex_cmp_eq in E. subst k2.
      pose proof (H k1) as Hk. rewrite bytes_eqb_refl in Hk. injection Hk as ->.
      f_equal. apply IH; auto. intros k. destruct (bytes_eq_dec k k1) as [->|N].
      * rewrite !al_get_klt_all; auto.
      * specialize (H k). rewrite (bytes_eqb_neq _ _ N) in H. exact H.
    + exfalso. specialize (H k1). rewrite bytes_eqb_refl in H.
      rewrite (bytes_eqb_neq k1 k2) in H by (apply klt_neq; exact E).
      rewrite al_get_klt_all in H; [discriminate|]. eapply Forall_klt_trans; eauto.
    + exfalso. apply gt_klt in E. specialize (H k2). rewrite bytes_eqb_refl in H.
      rewrite (bytes_eqb_neq k2 k1) in H by (apply klt_neq; exact E).
      rewrite al_get_klt_all in H; [discriminate|]. eapply Forall_klt_trans; eauto.
Qed.

(* Stream of a sorted plain map: the raw keys in order, each with its value *)
Lemma stream_sorted : forall l, asorted l ->
  map (fun k => (k, al_get l k)) (map fst l) = map (fun p => (fst p, Some (snd p))) l.
Proof.
  unfold asorted. induction l as [|[k v] r IH]; simpl; intros H; [reflexivity|].
  destruct H as [F S]. rewrite bytes_eqb_refl. f_equal. rewrite <- IH by exact S.
  apply map_ext_in. intros k' In. rewrite Forall_forall in F.
  rewrite (bytes_eqb_neq k' k); [reflexivity|]. intros ->. exact (klt_neq _ _ (F _ In) eq_refl).
Qed.

Lemma al_get_canon : forall l k, al_get (canon l) k = al_get l k.
Proof.
  induction l as [|[k0 v0] r IH]; simpl; intros k; [reflexivity|].
  destruct (bytes_eq_dec k k0) as [->|N].
  - rewrite al_get_set_same, bytes_eqb_refl. reflexivity.
  - rewrite al_get_set_other by exact N. rewrite (bytes_eqb_neq _ _ N). apply IH.
Qed.

Lemma asorted_canon : forall l, asorted (canon l).
Proof. induction l as [|[k0 v0] r IH]; simpl; [exact I|]. apply asorted_set. exact IH. Qed.

Lemma alist_eqb_refl : forall l, alist_eqb l l = true.
Proof. induction l as [|[k v] r IH]; simpl; [reflexivity|]. rewrite !bytes_eqb_refl, IH. reflexivity. Qed.

(* ---------- what ads relies on from the trie (pokt-network/smt is modelled, not verified) ---------- *)

Record trie_spec (O : trie_ops) : Prop := mkSpec {
  H_get_new : forall s k, t_get O (t_new O s) k = None;
  H_get_update_same : forall t k v, t_get O (t_update O t k v) k = Some v;
  H_get_update_other : forall t k v k', k' <> k -> t_get O (t_update O t k v) k' = t_get O t k';
  H_get_delete_same : forall t k, t_get O t k <> None -> t_get O (t_delete O t k) k = None;
  H_get_delete_other : forall t k k', t_get O t k <> None -> k' <> k ->
                       t_get O (t_delete O t k) k' = t_get O t k';
  (* the root is a function of the contents *)
  H_root_ext : forall t1 t2, (forall k, t_get O t1 k = t_get O t2 k) -> t_root O t1 = t_root O t2;
  H_get_commit : forall t k, t_get O (t_commit O t) k = t_get O t k;
  (* nothing reaches the node store before Commit; constructors keep the store they are given *)
  H_store_update : forall t k v, t_store O (t_update O t k v) = t_store O t;
  H_store_delete : forall t k, t_store O (t_delete O t k) = t_store O t;
  H_store_new : forall s, t_store O (t_new O s) = s;
  H_store_import : forall s r, t_store O (t_import O s r) = s;
  (* importing the committed root over the committed store gives the committed contents *)
  H_import_commit : forall t k,
      t_get O (t_import O (t_store O (t_commit O t)) (t_root O t)) k = t_get O t k
}.

(* extra premise of the converse direction only: no two different contents share a root (for the real trie:
   collision freedom of SHA-256 over the node encoding) *)
Definition root_collision_free (O : trie_ops) : Prop :=
  forall t1 t2, t_root O t1 = t_root O t2 -> forall k, t_get O t1 k = t_get O t2 k.

(* the hypotheses are satisfiable: the executable instance has them *)
Lemma c_ops_spec : trie_spec c_ops.
Proof.
  constructor; simpl; intros.
  - reflexivity.
  - apply al_get_set_same.
  - apply al_get_set_other. assumption.
  - apply al_get_del_same.
  - apply al_get_del_other. assumption.
  - apply asorted_ext; try apply asorted_canon. intros k. rewrite !al_get_canon. apply H.
  - reflexivity.
  - reflexivity.
  - reflexivity.
  - reflexivity.
  - reflexivity.
  - rewrite alist_eqb_refl. simpl. apply al_get_canon.
Qed.

Lemma c_ops_collision_free : root_collision_free c_ops.
Proof.
  unfold root_collision_free. simpl. intros t1 t2 H k.
  rewrite <- (al_get_canon (c_live t1)), <- (al_get_canon (c_live t2)), H. reflexivity.
Qed.
