(* C09 - the model under store faults, consumer errors and second instances (round-4 strengthening).

   The store handed to NewMap/NewSet may REFUSE a write (kvstore Set/Delete returns an error, nothing is written).
   map_impl.go performs its writes in a fixed order, transcribed here:
     Set(k,v):  tree.Update (memory only); rawKeysStore.Set = write 0; if the key was absent: size.Set = write 1
     Delete(k): absent key: no write; present: tree.Delete (memory only); rawKeysStore.Delete = write 0; size.Set = write 1
     Commit():  root.Set = write 0; then the trie's node writes (those are inside the external trie: not modelled)
   A call whose j-th write is refused stops there and returns the error; what it did before stays (TypedValue updates
   its cache only after the store accepted the write, so cache and store stay coherent and are not modelled apart).
   [FAbort j]: Stream whose consumer returns an error at visit j - the elements up to and including visit j were
   delivered, the error is returned, nothing else happens (in particular the instance stays usable).
   [FProbe]: a second instance constructed over the same store next to the live one (= [reopen] without dropping the
   live instance): WasRestored, Root, Size, Stream and Get of some keys as a reopen would see them right now. *)
From Coq Require Import NArith ZArith List Bool.
From Verif.C09_ADS Require Import Model.
Import ListNotations.

Inductive fev :=
| FOk (e : ev)                                        (* a call without fault (any event of Model.v) *)
| FFailSet (k : bytes) (v : option bytes) (j : nat)   (* map Set, the store refuses its j-th write *)
| FFailAdd (k : bytes) (j : nat)                      (* set Add *)
| FFailDelete (k : bytes) (j : nat)
| FFailCommitRoot                                     (* Commit, the store refuses the root-key write *)
| FAbort (j : nat)                                    (* map Stream, consumer error at visit j *)
| FAbortKeys (j : nat)                                (* set Stream *)
| FProbe (set : bool) (ks : list bytes).

Section Faults.
  Variable O : trie_ops.

  Inductive fout :=
  | FO (o : out O)
  | FErr
  | FAborted (l : list (bytes * option bytes)) (err : bool)
  | FAbortedKeys (l : list bytes) (err : bool)
  | FProbed (restored : bool) (root : tR O) (size : Z) (stream : list (bytes * option bytes)) (gets : list (option bytes)).

  (* j beyond the writes the call makes: no write is refused, the call succeeds *)
  Definition fail_set (m : amap O) (k : bytes) (v : option bytes) (j : nat) : amap O * fout :=
    let t' := t_update O (tree O m) k (nil_to_empty v) in
    match j, has O m k with
    | 0, _ => (mkA O t' (rawkeys O m) (size O m) (rootkey O m), FErr)
    | 1, false => (mkA O t' (rk_insert k (rawkeys O m)) (size O m) (rootkey O m), FErr)
    | _, _ => (map_set O m k v, FO (ONone O))
    end.

  Definition fail_delete (m : amap O) (k : bytes) (j : nat) : amap O * fout :=
    if has O m k
    then let t' := t_delete O (tree O m) k in
         match j with
         | 0 => (mkA O t' (rawkeys O m) (size O m) (rootkey O m), FErr)
         | 1 => (mkA O t' (rk_remove k (rawkeys O m)) (size O m) (rootkey O m), FErr)
         | _ => (mkA O t' (rk_remove k (rawkeys O m)) (add_size (size O m) (-1)) (rootkey O m), FO (OBool O true))
         end
    else (m, FO (OBool O false)).

  Definition probe (m : amap O) (set : bool) (ks : list bytes) : fout :=
    let p := reopen O m in
    FProbed (was_restored O p) (map_root O p) (map_size O p)
            (if set then map (fun k => (k, None)) (set_stream O p) else map_stream O p)
            (map (map_get O p) ks).

  Definition fstep (m : amap O) (e : fev) : amap O * fout :=
    match e with
    | FOk e' => let '(m', o) := step O m e' in (m', FO o)
    | FFailSet k v j => fail_set m k v j
    | FFailAdd k j => fail_set m k (Some []) j
    | FFailDelete k j => fail_delete m k j
    | FFailCommitRoot => (m, FErr)
    | FAbort j => (m, FAborted (firstn (S j) (map_stream O m)) (Nat.ltb j (length (map_stream O m))))
    | FAbortKeys j => (m, FAbortedKeys (firstn (S j) (set_stream O m)) (Nat.ltb j (length (set_stream O m))))
    | FProbe set ks => (m, probe m set ks)
    end.

  Fixpoint frun (m : amap O) (h : list fev) : amap O * list fout :=
    match h with
    | [] => (m, [])
    | e :: r => let '(m1, o) := fstep m e in let '(m2, os) := frun m1 r in (m2, o :: os)
    end.

  Definition fstate_after (h : list fev) : amap O := fst (frun (fresh O) h).
  Definition fouts (h : list fev) : list fout := snd (frun (fresh O) h).
End Faults.
