(* C09 - proofs about several instances in ONE database (model: Shared.v).
   1. simulation: an operation of one instance through the shared database is the single-store operation of Model.v on
      its [view] (so every single-instance theorem of Refine.v applies to it);
   2. frame: an operation of one instance (or Clear of its store view) does not change what an instance with a
      separated realm reads from the database - neither its live view nor what a reopen of it would construct;
   3. the whole system (any interleaving, reopen and wipe of each) is observationally the product of isolated instances. *)
From Coq Require Import NArith ZArith List Bool Lia.
From Verif.C09_ADS Require Import Model Proofs Shared.
Import ListNotations.

(* ---------- strip / prefix ---------- *)

Lemma strip_app : forall p s, strip p (p ++ s) = Some s.
Proof. induction p as [|x p IH]; simpl; intros; [reflexivity|]. rewrite N.eqb_refl. apply IH. Qed.

Lemma strip_some : forall p k s, strip p k = Some s -> k = p ++ s.
Proof.
  induction p as [|x p IH]; simpl; intros k s H.
  - injection H as ->. reflexivity.
  - destruct k as [|y k]; [discriminate|]. destruct (N.eqb_spec x y); [|discriminate]. subst. f_equal. apply IH. exact H.
Qed.

Lemma strip_none : forall p k, (forall s, k <> p ++ s) -> strip p k = None.
Proof. intros p k H. destruct (strip p k) eqn:E; [|reflexivity]. apply strip_some in E. exfalso. eapply H; eauto. Qed.

(* ---------- sorted key lists: remove after insert ---------- *)

Lemma bytes_eqb_cmp : forall a b, bytes_eqb a b = match lex_cmp a b with Eq => true | _ => false end.
Proof. reflexivity. Qed.

Lemma rk_insert_head : forall k l, Forall (klt k) l -> rk_insert k l = k :: l.
Proof.
  destruct l as [|x r]; cbn [rk_insert]; intros F; [reflexivity|].
  inversion F as [|? ? Hx ?]; subst. unfold klt in Hx. rewrite Hx. reflexivity.
Qed.

Lemma rk_remove_insert_same : forall k l, rk_remove k (rk_insert k l) = rk_remove k l.
Proof.
  induction l as [|x r IH]; cbn [rk_insert rk_remove].
  - rewrite bytes_eqb_refl. reflexivity.
  - rewrite (bytes_eqb_cmp k x). destruct (lex_cmp k x) eqn:E; cbn [rk_remove].
    + rewrite bytes_eqb_refl. reflexivity.
    + rewrite bytes_eqb_refl, (bytes_eqb_cmp k x), E. reflexivity.
    + rewrite (bytes_eqb_cmp k x), E, IH. reflexivity.
Qed.

Lemma rk_remove_insert_comm : forall k k' l, k <> k' -> ksorted l ->
  rk_remove k (rk_insert k' l) = rk_insert k' (rk_remove k l).
Proof.
  intros k k' l N. assert (bytes_eqb k k' = false) as Nb by (apply bytes_eqb_neq; exact N).
  induction l as [|x r IH]; intros S.
  - cbn [rk_insert rk_remove]. rewrite Nb. reflexivity.
  - destruct S as [F S]. cbn [rk_insert]. destruct (lex_cmp k' x) eqn:E.
    + apply lex_cmp_eq in E. subst x. cbn [rk_remove]. rewrite Nb. cbn [rk_insert]. rewrite lex_cmp_refl. reflexivity.
    + cbn [rk_remove]. rewrite Nb. destruct (bytes_eqb k x) eqn:Ex.
      * symmetry. apply rk_insert_head. apply Forall_rk_remove. eapply Forall_klt_trans; eauto.
      * cbn [rk_insert]. rewrite E. reflexivity.
    + cbn [rk_remove]. destruct (bytes_eqb k x) eqn:Ex.
      * apply IH. exact S.
      * cbn [rk_insert]. rewrite E. rewrite IH by exact S. reflexivity.
Qed.

Section SharedProofs.
  Variable O : trie_ops.
  Notation kvs := (kvs O).
  Notation cell := (cell O).

  (* ---------- the database ---------- *)

  Lemma kv_get_set_same : forall k c (db : kvs), kv_get O (kv_set O k c db) k = Some c.
  Proof. intros. cbn. rewrite bytes_eqb_refl. reflexivity. Qed.

  Lemma kv_get_set_other : forall k c (db : kvs) k', k' <> k -> kv_get O (kv_set O k c db) k' = kv_get O db k'.
  Proof. intros. cbn. rewrite bytes_eqb_neq by assumption. reflexivity. Qed.

  Lemma kv_get_del_other : forall k (db : kvs) k', k' <> k -> kv_get O (kv_del O k db) k' = kv_get O db k'.
  Proof.
    induction db as [|[k0 c] r IH]; intros k' N; cbn [kv_del kv_get]; [reflexivity|].
    destruct (bytes_eqb k k0) eqn:E.
    - apply bytes_eqb_eq in E. subst k0. rewrite (bytes_eqb_neq _ _ N). apply IH. exact N.
    - cbn [kv_get]. rewrite IH by exact N. reflexivity.
  Qed.

  Lemma kv_get_clear_out : forall p (db : kvs) k, strip p k = None -> kv_get O (kv_clear O p db) k = kv_get O db k.
  Proof.
    induction db as [|[k0 c] r IH]; intros k H; cbn [kv_clear kv_get]; [reflexivity|].
    unfold prefixb. destruct (strip p k0) eqn:E.
    - rewrite bytes_eqb_neq; [apply IH; exact H|]. intros ->. congruence.
    - cbn [kv_get]. rewrite IH by exact H. reflexivity.
  Qed.

  Lemma kv_get_clear_in : forall p (db : kvs) k, strip p k <> None -> kv_get O (kv_clear O p db) k = None.
  Proof.
    induction db as [|[k0 c] r IH]; intros k H; cbn [kv_clear kv_get]; [reflexivity|].
    unfold prefixb. destruct (strip p k0) eqn:E; [apply IH; exact H|].
    cbn [kv_get]. rewrite bytes_eqb_neq; [apply IH; exact H|]. intros ->. contradiction.
  Qed.

  Lemma ksorted_kv_iter : forall p (db : kvs), ksorted (kv_iter O p db).
  Proof.
    induction db as [|[k c] r IH]; cbn [kv_iter]; [exact I|].
    destruct (strip p k); [apply ksorted_rk_insert; exact IH|exact IH].
  Qed.

  Lemma kv_iter_set_in : forall p k s c (db : kvs), strip p k = Some s ->
    kv_iter O p (kv_set O k c db) = rk_insert s (kv_iter O p db).
  Proof. intros. cbn. rewrite H. reflexivity. Qed.

  Lemma kv_iter_set_out : forall p k c (db : kvs), strip p k = None -> kv_iter O p (kv_set O k c db) = kv_iter O p db.
  Proof. intros. cbn. rewrite H. reflexivity. Qed.

  Lemma kv_iter_del_out : forall p k (db : kvs), strip p k = None -> kv_iter O p (kv_del O k db) = kv_iter O p db.
  Proof.
    induction db as [|[k0 c] r IH]; intros H; cbn [kv_del kv_iter]; [reflexivity|].
    destruct (bytes_eqb k k0) eqn:E.
    - apply bytes_eqb_eq in E. subst k0. rewrite H. apply IH. exact H.
    - cbn [kv_iter]. rewrite IH by exact H. reflexivity.
  Qed.

  Lemma kv_iter_del_in : forall p k s (db : kvs), strip p k = Some s ->
    kv_iter O p (kv_del O k db) = rk_remove s (kv_iter O p db).
  Proof.
    induction db as [|[k0 c] r IH]; intros H; cbn [kv_del kv_iter]; [reflexivity|].
    destruct (bytes_eqb k k0) eqn:E.
    - apply bytes_eqb_eq in E. subst k0. rewrite H, rk_remove_insert_same. apply IH. exact H.
    - cbn [kv_iter]. destruct (strip p k0) eqn:S0.
      + rewrite IH by exact H. symmetry. apply rk_remove_insert_comm; [|apply ksorted_kv_iter].
        intros ->. apply strip_some in H. apply strip_some in S0. subst. rewrite bytes_eqb_refl in E. discriminate.
      + apply IH. exact H.
  Qed.

  Lemma kv_iter_clear_out : forall p q (db : kvs), (forall x, strip q x <> None -> strip p x = None) ->
    kv_iter O q (kv_clear O p db) = kv_iter O q db.
  Proof.
    induction db as [|[k0 c] r IH]; intros H; cbn [kv_clear kv_iter]; [reflexivity|].
    unfold prefixb. destruct (strip p k0) eqn:E.
    - destruct (strip q k0) eqn:Eq; [|apply IH; exact H]. rewrite H in E by congruence. discriminate.
    - cbn [kv_iter]. rewrite IH by exact H. reflexivity.
  Qed.

  Lemma kv_iter_clear_in : forall p q (db : kvs), (forall x, strip q x <> None -> strip p x <> None) ->
    kv_iter O q (kv_clear O p db) = [].
  Proof.
    induction db as [|[k0 c] r IH]; intros H; cbn [kv_clear kv_iter]; [reflexivity|].
    unfold prefixb. destruct (strip p k0) eqn:E; [apply IH; exact H|].
    cbn [kv_iter]. destruct (strip q k0) eqn:Eq; [|apply IH; exact H]. exfalso. apply (H k0); congruence.
  Qed.

  (* ---------- what an instance reads from / writes to the database ---------- *)

  Definition reads (A : addr) (k : bytes) : Prop :=
    k = a_nodes A \/ k = a_root A \/ k = a_size A \/ strip (a_raw A) k <> None.
  Definition writes (A : addr) (k : bytes) : Prop :=
    k = a_nodes A \/ k = a_root A \/ k = a_size A \/ exists x, k = a_raw A ++ x.
  Definition no_interfere (A1 A2 : addr) : Prop := forall k, writes A1 k -> ~ reads A2 k.

  (* the persistent part of an instance: everything it reads from the database *)
  Definition pers (A : addr) (db : kvs) :=
    (kv_iter O (a_raw A) db, size_at O A db, root_at O A db, nodes_at O A db).

  Lemma pers_view : forall A db db', pers A db' = pers A db ->
    (forall t, view O A db' t = view O A db t) /\ sh_open O A db' = sh_open O A db /\ nodes_at O A db' = nodes_at O A db.
  Proof.
    unfold pers, view, sh_open. intros A db db' H. injection H as H1 H2 H3 H4.
    rewrite H1, H2, H3, H4. repeat split; reflexivity.
  Qed.

  Lemma not_reads : forall A k, ~ reads A k ->
    a_nodes A <> k /\ a_root A <> k /\ a_size A <> k /\ strip (a_raw A) k = None.
  Proof.
    unfold reads. intros A k H. repeat split; try (intros E; apply H; subst; tauto).
    destruct (strip (a_raw A) k) eqn:E; [|reflexivity]. exfalso. apply H. right. right. right. congruence.
  Qed.

  Lemma pers_set_frame : forall A db k c, ~ reads A k -> pers A (kv_set O k c db) = pers A db.
  Proof.
    intros A db k c H. apply not_reads in H. destruct H as (Hn & Hr & Hs & Hraw).
    unfold pers, size_at, root_at, nodes_at.
    rewrite !kv_get_set_other by assumption. rewrite kv_iter_set_out by assumption. reflexivity.
  Qed.

  Lemma pers_del_frame : forall A db k, ~ reads A k -> pers A (kv_del O k db) = pers A db.
  Proof.
    intros A db k H. apply not_reads in H. destruct H as (Hn & Hr & Hs & Hraw).
    unfold pers, size_at, root_at, nodes_at.
    rewrite !kv_get_del_other by assumption. rewrite kv_iter_del_out by assumption. reflexivity.
  Qed.

  Lemma pers_clear_frame : forall A db p, (forall k, reads A k -> strip p k = None) ->
    pers A (kv_clear O p db) = pers A db.
  Proof.
    intros A db p H. unfold pers, size_at, root_at, nodes_at.
    rewrite !kv_get_clear_out by (apply H; unfold reads; tauto).
    rewrite kv_iter_clear_out; [reflexivity|]. intros x Hx. apply H. unfold reads. tauto.
  Qed.

  Lemma pers_add_size_frame : forall A1 A2 db d, no_interfere A1 A2 -> pers A2 (sh_add_size O A1 db d) = pers A2 db.
  Proof.
    intros. unfold sh_add_size, add_size. apply pers_set_frame. apply H. unfold writes. tauto.
  Qed.

  (* FRAME, one operation: nothing an instance with non-interfering addresses reads is changed *)
  Lemma sh_step_frame : forall A1 A2 db t e, no_interfere A1 A2 ->
    pers A2 (fst (fst (sh_step O A1 db t e))) = pers A2 db.
  Proof.
    intros A1 A2 db t e NI.
    assert (forall k v, pers A2 (fst (sh_set O A1 db t k v)) = pers A2 db) as Hset.
    { intros k v. unfold sh_set. cbn [fst].
      assert (pers A2 (kv_set O (a_raw A1 ++ k) (KRaw O) db) = pers A2 db) as H1
        by (apply pers_set_frame; apply NI; unfold writes; right; right; right; eexists; reflexivity).
      destruct (sh_has O t k); [exact H1|]. rewrite pers_add_size_frame by exact NI. exact H1. }
    destruct e; cbn [sh_step fst]; try reflexivity.
    - apply Hset.
    - apply Hset.
    - unfold sh_delete. destruct (sh_has O t k); cbn [fst]; [|reflexivity].
      rewrite pers_add_size_frame by exact NI. apply pers_del_frame. apply NI. unfold writes.
      right; right; right; eexists; reflexivity.
    - unfold sh_commit. cbn [fst]. rewrite !pers_set_frame; [reflexivity| |]; apply NI; unfold writes; tauto.
  Qed.

  (* ---------- the layout of the code: ext_addr ---------- *)

  (* footprints: every database key instance R touches has the form R ++ c :: x with a sub-realm byte c < 4 *)
  Definition fp_disjoint (R1 R2 : bytes) : Prop :=
    forall c1 c2 x y, (c1 < n_sub)%N -> (c2 < n_sub)%N -> R1 ++ c1 :: x <> R2 ++ c2 :: y.

  Lemma fp_disjoint_sym : forall R1 R2, fp_disjoint R1 R2 -> fp_disjoint R2 R1.
  Proof. unfold fp_disjoint. intros R1 R2 H c1 c2 x y H1 H2 E. apply (H c2 c1 y x H2 H1). symmetry. exact E. Qed.

  Lemma fp_disjoint_diverge : forall p a b s1 s2, a <> b -> fp_disjoint (p ++ a :: s1) (p ++ b :: s2).
  Proof.
    unfold fp_disjoint. intros p a b s1 s2 N c1 c2 x y _ _ E. rewrite <- !app_assoc in E.
    apply app_inv_head in E. cbn in E. congruence.
  Qed.

  Lemma fp_disjoint_extend : forall R b s, (n_sub <= b)%N -> fp_disjoint R (R ++ b :: s).
  Proof.
    unfold fp_disjoint. intros R b s Hb c1 c2 x y H1 _ E. rewrite <- app_assoc in E.
    apply app_inv_head in E. cbn in E. injection E as -> _. lia.
  Qed.

  Lemma fp_disjoint_cons : forall x a b, fp_disjoint a b -> fp_disjoint (x :: a) (x :: b).
  Proof. unfold fp_disjoint. intros x a b H c1 c2 u v H1 H2 E. cbn in E. injection E as E. exact (H c1 c2 u v H1 H2 E). Qed.

  Lemma separatedb_sound : forall a b, separatedb a b = true -> fp_disjoint a b.
  Proof.
    induction a as [|x a IH]; destruct b as [|y b]; cbn [separatedb]; intros H; try discriminate.
    - apply N.leb_le in H. apply (fp_disjoint_extend [] y b H).
    - apply N.leb_le in H. apply fp_disjoint_sym. apply (fp_disjoint_extend [] x a H).
    - destruct (N.eqb_spec x y) as [->|N].
      + apply fp_disjoint_cons. apply IH. exact H.
      + apply (fp_disjoint_diverge [] x y a b N).
  Qed.

  Lemma ext_writes : forall R k, writes (ext_addr R) k -> exists c x, (c < n_sub)%N /\ k = R ++ c :: x.
  Proof.
    unfold writes, ext_addr, n_sub. cbn. intros R k [H|[H|[H|[x H]]]]; subst.
    - exists 1%N, []. split; [lia|reflexivity].
    - exists 2%N, []. split; [lia|reflexivity].
    - exists 3%N, []. split; [lia|reflexivity].
    - exists 0%N, x. split; [lia|]. rewrite <- app_assoc. reflexivity.
  Qed.

  Lemma ext_reads : forall R k, reads (ext_addr R) k -> exists c x, (c < n_sub)%N /\ k = R ++ c :: x.
  Proof.
    unfold reads. intros R k [H|[H|[H|H]]].
    - apply ext_writes. unfold writes. tauto.
    - apply ext_writes. unfold writes. tauto.
    - apply ext_writes. unfold writes. tauto.
    - destruct (strip (a_raw (ext_addr R)) k) eqn:E; [|contradiction]. apply strip_some in E.
      apply ext_writes. unfold writes. right; right; right. eexists; exact E.
  Qed.

  Lemma ext_no_interfere : forall R1 R2, fp_disjoint R1 R2 -> no_interfere (ext_addr R1) (ext_addr R2).
  Proof.
    intros R1 R2 D k W Rd. apply ext_writes in W. apply ext_reads in Rd.
    destruct W as (c1 & x & H1 & ->). destruct Rd as (c2 & y & H2 & E). exact (D c1 c2 x y H1 H2 E).
  Qed.

  (* Clear() of the view with realm R1 does not reach instance R2 *)
  Lemma ext_clear_frame : forall R1 R2, prefixb R1 R2 = false -> fp_disjoint R1 R2 ->
    forall k, reads (ext_addr R2) k -> strip R1 k = None.
  Proof.
    intros R1 R2 NP D k Rd. apply ext_reads in Rd. destruct Rd as (c & y & Hc & ->).
    destruct (strip R1 (R2 ++ c :: y)) as [s|] eqn:E; [|reflexivity]. exfalso.
    apply strip_some in E. apply app_eq_app in E. destruct E as [l [[E1 E2]|[E1 E2]]].
    - (* R2 = R1 ++ l *) subst R2. unfold prefixb in NP. rewrite strip_app in NP. discriminate.
    - (* R1 = R2 ++ l, c :: y = l ++ s *)
      destruct l as [|c' l'].
      + rewrite app_nil_r in E1. subst R1. unfold prefixb in NP.
        rewrite <- (app_nil_r R2) in NP at 2. rewrite strip_app in NP. discriminate.
      + cbn in E2. injection E2 as <- _. subst R1.
        apply (D 0%N c [] (l' ++ [0%N])); [reflexivity|exact Hc|]. rewrite <- app_assoc. reflexivity.
  Qed.

  Lemma ext_wf_raw : forall (R x : bytes) (c : N), c <> 0%N -> (R ++ [0%N]) ++ x <> R ++ [c].
  Proof. intros R x c N E. rewrite <- app_assoc in E. apply app_inv_head in E. cbn in E. congruence. Qed.

  Lemma ext_neq : forall (R : bytes) (c c' : N), c <> c' -> R ++ [c] <> R ++ [c'].
  Proof. intros R c c' N E. apply app_inv_head in E. congruence. Qed.

  (* ---------- SIMULATION: an operation through the database is the Model.v operation on the view ---------- *)

  Hypothesis HO : trie_spec O.

  Lemma sim_step : forall R db t e, nodes_at O (ext_addr R) db = t_store O t ->
    let r := sh_step O (ext_addr R) db t e in
    view O (ext_addr R) (fst (fst r)) (snd (fst r)) = fst (step O (view O (ext_addr R) db t) e) /\
    snd r = snd (step O (view O (ext_addr R) db t) e) /\
    nodes_at O (ext_addr R) (fst (fst r)) = t_store O (snd (fst r)).
  Proof.
    intros R db t e Coh.
    set (A := ext_addr R) in *.
    assert (forall x, strip (a_raw A) (a_raw A ++ x) = Some x) as Sin by (intros; apply strip_app).
    assert (strip (a_raw A) (a_size A) = None /\ strip (a_raw A) (a_root A) = None /\ strip (a_raw A) (a_nodes A) = None)
      as (Ss & Sr & Sn).
    { repeat split; apply strip_none; intros s E; symmetry in E; revert E; apply ext_wf_raw; discriminate. }
    assert (forall x, a_size A <> a_raw A ++ x /\ a_root A <> a_raw A ++ x /\ a_nodes A <> a_raw A ++ x) as Nraw.
    { intros x. repeat split; intros E; symmetry in E; revert E; apply ext_wf_raw; discriminate. }
    assert (a_size A <> a_root A /\ a_size A <> a_nodes A /\ a_root A <> a_nodes A /\ a_root A <> a_size A /\
            a_nodes A <> a_size A /\ a_nodes A <> a_root A) as (N1 & N2 & N3 & N4 & N5 & N6).
    { repeat split; apply ext_neq; discriminate. }
    (* Set / Add *)
    assert (forall k v, let r := sh_set O A db t k v in
              view O A (fst r) (snd r) = map_set O (view O A db t) k v /\ nodes_at O A (fst r) = t_store O (snd r)) as Hset.
    { intros k v. unfold sh_set, map_set, view, has, sh_has. cbn [fst snd tree rawkeys size rootkey].
      destruct (Nraw k) as (Ns & Nr & Nn).
      destruct (t_get O t k) eqn:G.
      - split.
        + f_equal.
          * rewrite (kv_iter_set_in _ _ k) by apply Sin. reflexivity.
          * unfold size_at. rewrite kv_get_set_other by assumption. reflexivity.
          * unfold root_at. rewrite kv_get_set_other by assumption. reflexivity.
        + unfold nodes_at. rewrite kv_get_set_other by assumption. fold (nodes_at O A db).
          rewrite Coh. symmetry. apply (H_store_update O HO).
      - assert (size_at O A (kv_set O (a_raw A ++ k) (KRaw O) db) = size_at O A db) as Hs
          by (unfold size_at; rewrite kv_get_set_other by assumption; reflexivity).
        unfold sh_add_size. rewrite Hs. unfold add_size. split.
        + f_equal.
          * rewrite kv_iter_set_out by assumption. rewrite (kv_iter_set_in _ _ k) by apply Sin. reflexivity.
          * unfold size_at at 1. rewrite kv_get_set_same. reflexivity.
          * unfold root_at. rewrite !kv_get_set_other by assumption. reflexivity.
        + unfold nodes_at. rewrite !kv_get_set_other by assumption. fold (nodes_at O A db).
          rewrite Coh. symmetry. apply (H_store_update O HO). }
    destruct e; cbn [sh_step step fst snd]; fold A.
    - (* ESet *) destruct (Hset k v) as [H1 H2]. repeat split; assumption.
    - (* EAdd *) destruct (Hset k (Some [])) as [H1 H2]. repeat split; assumption.
    - (* EDelete *)
      unfold sh_delete, map_delete, has, sh_has. cbn [tree view]. destruct (Nraw k) as (Ns & Nr & Nn).
      destruct (t_get O t k) eqn:G; cbn [fst snd]; [|repeat split; try reflexivity; try exact Coh].
      assert (size_at O A (kv_del O (a_raw A ++ k) db) = size_at O A db) as Hs
        by (unfold size_at; rewrite kv_get_del_other by assumption; reflexivity).
      unfold sh_add_size. rewrite Hs. unfold add_size. repeat split.
      + unfold view. cbn [tree rawkeys size rootkey]. f_equal.
        * rewrite kv_iter_set_out by assumption. apply kv_iter_del_in. apply Sin.
        * unfold size_at at 1. rewrite kv_get_set_same. reflexivity.
        * unfold root_at. rewrite kv_get_set_other, kv_get_del_other by assumption. reflexivity.
      + unfold nodes_at. rewrite kv_get_set_other, kv_get_del_other by assumption. fold (nodes_at O A db).
        rewrite Coh. symmetry. apply (H_store_delete O HO).
    - (* ECommit *)
      unfold sh_commit, map_commit, view. cbn [fst snd tree rawkeys size rootkey]. repeat split.
      + f_equal.
        * rewrite !kv_iter_set_out by assumption. reflexivity.
        * unfold size_at. rewrite !kv_get_set_other by assumption. reflexivity.
        * unfold root_at. rewrite kv_get_set_other by assumption. rewrite kv_get_set_same. reflexivity.
      + unfold nodes_at. rewrite kv_get_set_same. reflexivity.
    - (* EReopen *)
      unfold reopen, open, sh_open, view. cbn [tree rawkeys size rootkey]. rewrite <- Coh. repeat split.
      destruct (root_at O A db); symmetry; [apply (H_store_import O HO)|apply (H_store_new O HO)].
    - repeat split; try reflexivity; try exact Coh.
    - repeat split; try reflexivity; try exact Coh.
    - repeat split; try reflexivity; try exact Coh.
    - repeat split; try reflexivity; try exact Coh.
    - repeat split; try reflexivity; try exact Coh.
    - repeat split; try reflexivity; try exact Coh.
    - repeat split; try reflexivity; try exact Coh.
  Qed.

  (* Clear() of the own view + a new instance = a fresh single-store instance *)
  Lemma wipe_fresh : forall R db, let db' := kv_clear O R db in
    view O (ext_addr R) db' (sh_open O (ext_addr R) db') = fresh O /\
    nodes_at O (ext_addr R) db' = t_store O (sh_open O (ext_addr R) db').
  Proof.
    intros R db db'.
    assert (forall c, strip R (R ++ [c]) <> None) as In by (intros c; rewrite strip_app; discriminate).
    assert (root_at O (ext_addr R) db' = None) as Hr by (unfold root_at, db'; rewrite kv_get_clear_in by apply In; reflexivity).
    assert (size_at O (ext_addr R) db' = None) as Hs by (unfold size_at, db'; rewrite kv_get_clear_in by apply In; reflexivity).
    assert (nodes_at O (ext_addr R) db' = st_empty O) as Hn by (unfold nodes_at, db'; rewrite kv_get_clear_in by apply In; reflexivity).
    assert (kv_iter O (a_raw (ext_addr R)) db' = []) as Hk.
    { unfold db'. apply kv_iter_clear_in. intros x Hx. destruct (strip (a_raw (ext_addr R)) x) eqn:E; [|contradiction].
      apply strip_some in E. subst x. cbn [a_raw ext_addr]. rewrite <- app_assoc, strip_app. discriminate. }
    unfold view, sh_open, fresh, open. rewrite Hr, Hs, Hn, Hk. split; [reflexivity|].
    symmetry. apply (H_store_new O HO).
  Qed.

  (* ---------- the system ---------- *)

  Definition rel (Rs : list bytes) (s : sys O) (ms : list (amap O)) : Prop :=
    length (snd s) = length Rs /\ length ms = length Rs /\
    forall i R t, nth_error Rs i = Some R -> nth_error (snd s) i = Some t ->
      nth_error ms i = Some (view O (ext_addr R) (fst s) t) /\ nodes_at O (ext_addr R) (fst s) = t_store O t.

  Definition pairwise_sep (Rs : list bytes) : Prop :=
    forall i j Ri Rj, i <> j -> nth_error Rs i = Some Ri -> nth_error Rs j = Some Rj -> fp_disjoint Ri Rj.

  Definition wipe_ok (Rs : list bytes) (x : sev) : Prop :=
    match x with
    | SOp _ _ => True
    | SWipe i => forall R j Rj, nth_error Rs i = Some R -> j <> i -> nth_error Rs j = Some Rj -> prefixb R Rj = false
    end.

  Lemma length_set_nth : forall A i (x : A) l, length (set_nth i x l) = length l.
  Proof. induction i; destruct l; cbn; auto. Qed.

  Lemma nth_set_nth_same : forall A i (x : A) l, i < length l -> nth_error (set_nth i x l) i = Some x.
  Proof. induction i; destruct l; cbn; intros; try lia; [reflexivity|]. apply IHi. lia. Qed.

  Lemma nth_set_nth_other : forall A i j (x : A) l, j <> i -> nth_error (set_nth i x l) j = nth_error l j.
  Proof.
    induction i; destruct l; destruct j; cbn; intros; try reflexivity; try congruence.
    apply IHi. congruence.
  Qed.

  Lemma nth_lt : forall A (l : list A) i x, nth_error l i = Some x -> i < length l.
  Proof. intros. apply nth_error_Some. congruence. Qed.

  Lemma step_rel : forall Rs s ms x, pairwise_sep Rs -> wipe_ok Rs x -> rel Rs s ms ->
    snd (sys_step O ext_addr Rs s x) = snd (iso_step O ms x) /\
    rel Rs (fst (sys_step O ext_addr Rs s x)) (fst (iso_step O ms x)).
  Proof.
    intros Rs [db ts] ms x PS WO (L1 & L2 & Hrel). cbn [fst snd] in *.
    destruct x as [i e|i]; cbn [sys_step iso_step].
    - destruct (nth_error Rs i) as [R|] eqn:ER.
      + pose proof (nth_lt _ _ _ _ ER) as Li.
        destruct (nth_error ts i) as [t|] eqn:ET; [|apply nth_error_None in ET; lia].
        destruct (Hrel i R t ER ET) as [Em Coh]. rewrite Em.
        pose proof (sim_step R db t e Coh) as Sim. cbn zeta in Sim.
        destruct (sh_step O (ext_addr R) db t e) as [[db' t'] o] eqn:ES. cbn [fst snd] in Sim.
        destruct Sim as (Sv & So & Sc).
        destruct (step O (view O (ext_addr R) db t) e) as [m' o'] eqn:EM. cbn [fst snd] in *.
        split; [congruence|]. unfold rel. cbn [fst snd]. rewrite !length_set_nth. split; [assumption|split; [assumption|]].
        intros j Rj tj ERj ETj. destruct (Nat.eq_dec j i) as [->|Nj].
        * rewrite nth_set_nth_same in ETj by lia. rewrite nth_set_nth_same by lia.
          assert (Rj = R) by congruence. subst Rj. injection ETj as <-. split; [congruence|exact Sc].
        * rewrite nth_set_nth_other in ETj by exact Nj. rewrite nth_set_nth_other by exact Nj.
          destruct (Hrel j Rj tj ERj ETj) as [Emj Cohj].
          assert (pers (ext_addr Rj) db' = pers (ext_addr Rj) db) as P.
          { pose proof (sh_step_frame (ext_addr R) (ext_addr Rj) db t e) as F. rewrite ES in F. cbn [fst] in F.
            apply F. apply ext_no_interfere. apply (PS i j); auto. }
          apply pers_view in P. destruct P as (Pv & _ & Pn). rewrite Pv, Pn. split; assumption.
      + assert (nth_error ms i = None) as EMn by (apply nth_error_None; apply nth_error_None in ER; lia).
        rewrite EMn. cbn [fst snd]. split; [reflexivity|]. unfold rel. cbn [fst snd]. split; [assumption|split; assumption].
    - destruct (nth_error Rs i) as [R|] eqn:ER.
      + pose proof (nth_lt _ _ _ _ ER) as Li.
        destruct (nth_error ts i) as [t|] eqn:ET; [|apply nth_error_None in ET; lia].
        destruct (Hrel i R t ER ET) as [Em Coh]. rewrite Em. cbn [fst snd]. split; [reflexivity|].
        unfold rel. cbn [fst snd]. rewrite !length_set_nth. split; [assumption|split; [assumption|]].
        intros j Rj tj ERj ETj. destruct (Nat.eq_dec j i) as [->|Nj].
        * rewrite nth_set_nth_same in ETj by lia. rewrite nth_set_nth_same by lia.
          assert (Rj = R) by congruence. subst Rj. injection ETj as <-.
          destruct (wipe_fresh R db) as [W1 W2]. split; [congruence|exact W2].
        * rewrite nth_set_nth_other in ETj by exact Nj. rewrite nth_set_nth_other by exact Nj.
          destruct (Hrel j Rj tj ERj ETj) as [Emj Cohj].
          assert (pers (ext_addr Rj) (kv_clear O R db) = pers (ext_addr Rj) db) as P.
          { apply pers_clear_frame. apply ext_clear_frame; [apply (WO R j Rj); auto|apply (PS i j); auto]. }
          apply pers_view in P. destruct P as (Pv & _ & Pn). rewrite Pv, Pn. split; assumption.
      + assert (nth_error ms i = None) as EMn by (apply nth_error_None; apply nth_error_None in ER; lia).
        rewrite EMn. cbn [fst snd]. split; [reflexivity|]. unfold rel. cbn [fst snd]. split; [assumption|split; assumption].
  Qed.

  Lemma run_rel : forall Rs h s ms, pairwise_sep Rs -> Forall (wipe_ok Rs) h -> rel Rs s ms ->
    snd (sys_run O ext_addr Rs s h) = snd (iso_run O ms h) /\
    rel Rs (fst (sys_run O ext_addr Rs s h)) (fst (iso_run O ms h)).
  Proof.
    induction h as [|x r IH]; intros s ms PS WO Hr; cbn [sys_run iso_run]; [split; [reflexivity|exact Hr]|].
    inversion WO as [|? ? W1 W2]; subst.
    destruct (step_rel Rs s ms x PS W1 Hr) as [Eo Hr1].
    destruct (sys_step O ext_addr Rs s x) as [s1 o]. destruct (iso_step O ms x) as [m1 o']. cbn [fst snd] in *.
    destruct (IH s1 m1 PS W2 Hr1) as [Eos Hr2].
    destruct (sys_run O ext_addr Rs s1 r) as [s2 os]. destruct (iso_run O m1 r) as [m2 os']. cbn [fst snd] in *.
    split; [congruence|exact Hr2].
  Qed.

  Lemma init_rel : forall Rs, rel Rs (sys_init O ext_addr Rs) (iso_init O Rs).
  Proof.
    intros Rs. unfold rel, sys_init, iso_init. cbn [fst snd]. rewrite !map_length. split; [reflexivity|split; [reflexivity|]].
    intros i R t ER ET. rewrite (map_nth_error _ _ _ ER) in ET. injection ET as <-. split.
    - rewrite (map_nth_error _ _ _ ER). reflexivity.
    - unfold sh_open, root_at, nodes_at. cbn. symmetry. apply (H_store_new O HO).
  Qed.
End SharedProofs.

(* ---------- the decidable guards imply the premises ---------- *)

Lemma sep_from_sound : forall R l, sep_from R l = true -> forall j Rj, nth_error l j = Some Rj ->
  fp_disjoint R Rj /\ fp_disjoint Rj R.
Proof.
  induction l as [|x r IH]; cbn [sep_from]; intros H j Rj E; [destruct j; discriminate|].
  apply andb_prop in H. destruct H as [H H3]. apply andb_prop in H. destruct H as [H1 H2].
  destruct j; cbn in E.
  - injection E as <-. split; apply separatedb_sound; assumption.
  - eapply IH; eauto.
Qed.

Lemma realms_okb_sound : forall Rs, realms_okb Rs = true -> pairwise_sep Rs.
Proof.
  unfold pairwise_sep. induction Rs as [|R r IH]; cbn [realms_okb]; intros H i j Ri Rj N Ei Ej.
  - destruct i; discriminate.
  - apply andb_prop in H. destruct H as [H1 H2]. destruct i, j; cbn in Ei, Ej.
    + congruence.
    + injection Ei as <-. apply (sep_from_sound _ _ H1 _ _ Ej).
    + injection Ej as <-. apply (sep_from_sound _ _ H1 _ _ Ei).
    + eapply (IH H2 i j); eauto.
Qed.

Lemma wipe_okb_from_sound : forall R l n i, wipe_okb_from n i R l = true ->
  forall j Rj, nth_error l j = Some Rj -> n + j <> i -> prefixb R Rj = false.
Proof.
  induction l as [|x r IH]; cbn [wipe_okb_from]; intros n i H j Rj E N; [destruct j; discriminate|].
  apply andb_prop in H. destruct H as [H1 H2]. destruct j; cbn in E.
  - injection E as <-. apply orb_prop in H1. destruct H1 as [H1|H1].
    + apply Nat.eqb_eq in H1. lia.
    + apply negb_true_iff in H1. exact H1.
  - apply (IH (S n) i H2 j Rj E). lia.
Qed.

Lemma hist_okb_sound : forall Rs h, hist_okb Rs h = true -> Forall (wipe_ok Rs) h.
Proof.
  unfold hist_okb. intros Rs h H. rewrite forallb_forall in H. apply Forall_forall. intros x In.
  specialize (H x In). destruct x as [i e|i]; cbn [wipe_ok]; [exact I|].
  intros R j Rj ER Nj ERj. rewrite ER in H. apply (wipe_okb_from_sound R Rs 0 i H j Rj ERj). cbn. exact Nj.
Qed.

(* ---------- main statements ---------- *)

(* Any interleaving of calls on instances living in separated realms of ONE database (with reopen of each and, for
   realms that are not a prefix of a sibling's, Clear of the view + new instance) returns exactly what the same
   instances return when each runs alone over a store of its own (Model.v, hence Refine.v: each refines its own plain
   map); at the end every instance's view of the database is its isolated state. *)
Theorem shared_db_refines : forall O, trie_spec O -> forall Rs h,
  realms_okb Rs = true -> hist_okb Rs h = true ->
  snd (sys_run O ext_addr Rs (sys_init O ext_addr Rs) h) = snd (iso_run O (iso_init O Rs) h) /\
  (let s := fst (sys_run O ext_addr Rs (sys_init O ext_addr Rs) h) in
   forall i R t, nth_error Rs i = Some R -> nth_error (snd s) i = Some t ->
     nth_error (fst (iso_run O (iso_init O Rs) h)) i = Some (view O (ext_addr R) (fst s) t)).
Proof.
  intros O HO Rs h H1 H2.
  destruct (run_rel O HO Rs h _ _ (realms_okb_sound Rs H1) (hist_okb_sound Rs h H2) (init_rel O HO Rs)) as [Eo Hr].
  split; [exact Eo|]. intros s i R t ER ET. destruct Hr as (_ & _ & Hr). apply (Hr i R t ER ET).
Qed.

(* FRAME.  Whatever the database holds and whatever instance 1 does in one call (Set/Add/Delete/Commit/reopen/reads):
   an instance whose realm has a footprint disjoint from instance 1's keeps its view (hence contents, Root, Size, Stream,
   Get, Has, WasRestored), and a new instance opened over its store view is the same as before the call.
   No premise on the trie. *)
Theorem instances_independent : forall O R1 R2, fp_disjoint R1 R2 -> forall db t1 e,
  let db' := fst (fst (sh_step O (ext_addr R1) db t1 e)) in
  (forall t2, view O (ext_addr R2) db' t2 = view O (ext_addr R2) db t2) /\
  sh_open O (ext_addr R2) db' = sh_open O (ext_addr R2) db.
Proof.
  intros O R1 R2 D db t1 e db'.
  destruct (pers_view O (ext_addr R2) db db') as (H1 & H2 & _); [|split; assumption].
  apply sh_step_frame. apply ext_no_interfere. exact D.
Qed.

(* ... and the same for Clear() of instance 1's store view, when realm 1 is not a prefix of realm 2 *)
Theorem wipe_independent : forall O R1 R2, fp_disjoint R1 R2 -> prefixb R1 R2 = false -> forall db,
  let db' := kv_clear O R1 db in
  (forall t2, view O (ext_addr R2) db' t2 = view O (ext_addr R2) db t2) /\
  sh_open O (ext_addr R2) db' = sh_open O (ext_addr R2) db.
Proof.
  intros O R1 R2 D NP db db'.
  destruct (pers_view O (ext_addr R2) db db') as (H1 & H2 & _); [|split; assumption].
  apply pers_clear_frame. apply ext_clear_frame; assumption.
Qed.

(* spelled out on the observables of instance 2, live (t2 = its trie) and as a new instance over its store view *)
Corollary instances_independent_observables : forall O R1 R2, fp_disjoint R1 R2 -> forall db t1 e t2,
  let db' := fst (fst (sh_step O (ext_addr R1) db t1 e)) in
  let m := view O (ext_addr R2) db t2 in let m' := view O (ext_addr R2) db' t2 in
  let n := view O (ext_addr R2) db (sh_open O (ext_addr R2) db) in
  let n' := view O (ext_addr R2) db' (sh_open O (ext_addr R2) db') in
  (map_root O m' = map_root O m /\ map_size O m' = map_size O m /\ map_stream O m' = map_stream O m /\
   (forall k, map_get O m' k = map_get O m k) /\ was_restored O m' = was_restored O m) /\
  (map_root O n' = map_root O n /\ map_size O n' = map_size O n /\ map_stream O n' = map_stream O n /\
   (forall k, map_get O n' k = map_get O n k) /\ was_restored O n' = was_restored O n).
Proof.
  intros O R1 R2 D db t1 e t2 db' m m' n n'.
  destruct (instances_independent O R1 R2 D db t1 e) as [Hv Ho]. fold db' in Hv, Ho.
  unfold m', n'. rewrite Ho, !Hv. repeat split; reflexivity.
Qed.

(* the decidable realm condition used by harness and guards *)
Theorem separated_footprints : forall a b, separatedb a b = true -> fp_disjoint a b.
Proof. exact separatedb_sound. Qed.

(* ---------- concrete facts (c_ops, vm_compute) ---------- *)
Open Scope N_scope.

Definition rA : bytes := [65]. Definition rB : bytes := [66]. Definition rAB : bytes := [65; 66].
Definition kx : bytes := [97]. Definition ky : bytes := [98].

Definition shared_history : list sev :=
  [SOp 0 (ESet kx (Some [1])); SOp 1 (ESet kx (Some [2])); SOp 2 (EAdd kx); SOp 1 (ESet ky None); SOp 0 ECommit;
   SOp 1 (EDelete kx); SOp 0 EStream; SOp 1 EStream; SOp 2 EStreamKeys; SOp 1 ECommit; SWipe 2; SOp 0 EReopen;
   SOp 0 EStream; SOp 2 EStreamKeys; SOp 1 EReopen; SOp 1 EStream; SOp 0 ERoot].

(* non-vacuity of the guards: the empty realm, a realm, a realm extending it *)
Lemma shared_guards_nonvacuous :
  realms_okb [[]; rA; rAB] = true /\ hist_okb [[]; rA; rAB] shared_history = true /\
  snd (sys_run c_ops ext_addr [[]; rA; rAB] (sys_init c_ops ext_addr [[]; rA; rAB]) shared_history) =
  [Some (ONone c_ops); Some (ONone c_ops); Some (ONone c_ops); Some (ONone c_ops); Some (ONone c_ops); Some (OBool c_ops true);
   Some (OStream c_ops [(kx, Some [1])]); Some (OStream c_ops [(ky, Some [])]); Some (OKeys c_ops [kx]); Some (ONone c_ops);
   Some (ONone c_ops); Some (ONone c_ops); Some (OStream c_ops [(kx, Some [1])]); Some (OKeys c_ops []); Some (ONone c_ops);
   Some (OStream c_ops [(ky, Some [])]); Some (ORoot c_ops [(kx, [1])])].
Proof. vm_compute. repeat split; reflexivity. Qed.

(* The defect class the shared database exists for: the raw-key mirror derived with an absolute realm (layout
   abs_raw_addr).  Two maps in realms A and B: Stream of B shows A's key (with no value), the isolated run shows
   nothing. *)
Definition leak_history : list sev := [SOp 0 (ESet kx (Some [1])); SOp 1 EStream].

Lemma absolute_realm_leaks :
  realms_okb [rA; rB] = true /\
  snd (sys_run c_ops abs_raw_addr [rA; rB] (sys_init c_ops abs_raw_addr [rA; rB]) leak_history) =
    [Some (ONone c_ops); Some (OStream c_ops [(kx, None)])] /\
  snd (sys_run c_ops ext_addr [rA; rB] (sys_init c_ops ext_addr [rA; rB]) leak_history) =
    [Some (ONone c_ops); Some (OStream c_ops [])] /\
  snd (iso_run c_ops (iso_init c_ops [rA; rB]) leak_history) = [Some (ONone c_ops); Some (OStream c_ops [])].
Proof. vm_compute. repeat split; reflexivity. Qed.

(* The realm guard is needed: an instance in the empty realm and one in realm [0] (the first one's raw-key realm)
   do leak with the layout of the code. *)
Lemma unseparated_realms_leak :
  realms_okb [[]; [0]] = false /\
  snd (sys_run c_ops ext_addr [[]; [0]] (sys_init c_ops ext_addr [[]; [0]]) [SOp 1 (ESet kx (Some [1])); SOp 0 EStream]) =
    [Some (ONone c_ops); Some (OStream c_ops [([0; 97], None); ([3], None)])].
Proof. vm_compute. repeat split; reflexivity. Qed.
