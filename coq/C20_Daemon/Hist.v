(* C20 - from the state invariant to the history predicates (event_ok of the event a step appends). *)
From Coq Require Import ZArith List Bool Lia Sorting.Sorted.
From Verif.C20_Daemon Require Import Model Base Inv Frame Preserve.
Import ListNotations.
Open Scope Z_scope.

Section Hist.
Variable s : st.
Hypothesis G : ginv s.

Lemma noshut : once s <> ODone -> shut_in (log s) = false.
Proof. intros H. destruct (shut_in (log s)) eqn:E; auto. exfalso. apply H. apply (g_l4 _ G); auto. Qed.

Lemma done_or_live v : w_started (gw s v) = true -> livew (gw s v) = true \/ returned_in (log s) v = true.
Proof.
  intros H. destruct (livew (gw s v)) eqn:L; auto. right. apply (g_l2 _ G). apply notlive_done; auto.
Qed.

Lemma all_returned_ok : alldone s -> all_returned (log s) = true.
Proof.
  intros A. unfold all_returned. apply forallb_forall. intros e He. destruct e; auto.
  destruct (g_l1 _ G _ _ _ _ He) as [S _]. apply (g_l2 _ G). apply A. exact S.
Qed.

Lemma live_in_live w : live_in (log s) w = true -> live s w /\ order_in (log s) w = ord (heap s) w.
Proof.
  unfold live_in. intros H. apply andb_true_iff in H. destruct H as [H1 H2].
  destruct (started_in_In _ _ H1) as [c [n Hin]]. destruct (g_l1 _ G _ _ _ _ Hin) as [S [_ O]].
  split; [|unfold ord; fold (gw s w); auto].
  unfold live, livew. rewrite S. simpl. destruct (w_returned (gw s w)) eqn:R; auto.
  apply (g_l2 _ G) in R. rewrite R in H2. discriminate.
Qed.

Lemma cancel_ok_lemma w :
  (live s w -> forall v, live s v -> ord (heap s) v <= ord (heap s) w) -> cancel_ok (log s) w = true.
Proof.
  intros H. unfold cancel_ok. destruct (live_in (log s) w) eqn:L; auto. simpl.
  destruct (live_in_live _ L) as [Lw Ow]. apply forallb_forall. intros e He. destruct e; auto.
  destruct (g_l1 _ G _ _ _ _ He) as [S [_ O]]. destruct (done_or_live _ S) as [A|A].
  - apply orb_true_iff. left. apply Z.leb_le. rewrite Ow, <- O. apply (H Lw w0). exact A.
  - rewrite A. apply orb_true_r.
Qed.

(* no live worker carries name n (except possibly those listed by a newer part of the log): the name is free *)
Lemma name_free_old es t n :
  (forall v, live s v -> w_name (gw s v) <> n) ->
  forallb (fun e => match e with
                    | EvStart v c n' _ => negb (Nat.eqb n n') || Nat.eqb c t || returned_in (es ++ log s) v
                    | _ => true end) (log s) = true.
Proof.
  intros H. apply forallb_forall. intros e He. destruct e; auto.
  destruct (g_l1 _ G _ _ _ _ He) as [S [N _]]. destruct (Nat.eqb n n0) eqn:E; auto. simpl.
  apply Nat.eqb_eq in E. subst n0. destruct (done_or_live _ S) as [A|A].
  - exfalso. apply (H w); auto.
  - rewrite returned_in_app; auto. apply orb_true_r.
Qed.
End Hist.
