(* C20 - preservation of the invariant by the state-changing steps. *)
From Coq Require Import ZArith List Bool Lia Sorting.Sorted.
From Verif.C20_Daemon Require Import Model Base Inv Frame Preserve Hist.
Import ListNotations.
Open Scope Z_scope.

Ltac o1 :=
  let t' := fresh "t'" in let Hn := fresh "Hn" in let L := fresh "L" in let N := fresh "N" in let O := fresh "O" in
  intros t' Hn L N O; split; [try (apply nolateL_upd; auto)|split; [try solve [auto|discriminate|congruence]|split; [try reflexivity|
  split; [try solve [auto]|split; [try solve [let w := fresh in let F := fresh in intros w F; exact F]|try solve [split; reflexivity]]]]]].

Lemma upd_out {A} (l : list A) i f : (length l <= i)%nat -> upd l i f = l.
Proof. revert i; induction l; intros [|i] H; simpl in *; auto; try lia. rewrite IHl; auto. lia. Qed.

Section Steps2.
Variables (s : st) (t : nat).
Hypothesis G : ginv s.

Lemma st_SD0a : thr s t SD0 -> once s = OFree -> ginv (set_pc (set_once s OBusy) t SD1).
Proof.
  intros Ht Ho.
  gg G Ht SD0 SD1.
  - intros _. right. split; auto. discriminate.
  - o1.
  - intros N _. apply (g_nostart _ G). eapply (nolate_back _ _ SD0 SD1); eauto. simpl. auto. congruence.
  - intros Hs. apply (g_l4 _ G) in Hs. congruence.
Qed.

Lemma st_SD0b : thr s t SD0 -> once s = ODone -> ginv (add_log (set_pc s t Fin) (EvShutRet t)).
Proof.
  intros Ht Ho. destruct (g_once _ G Ho) as [S A].
  gg G Ht SD0 Fin.
  - intros v c n o [H|H]; [discriminate|]. apply (g_l1 _ G _ _ _ _ H).
  - rewrite (all_returned_ok _ G A). apply (g_hist _ G).
Qed.

Lemma sd_only p t' q : thr s t p -> sdact p = true -> t' <> t -> thr s t' q -> sdact q = true -> False.
Proof. intros Ht S Hn Hq Sq. apply Hn. eapply (g_sduniq _ G); eauto. Qed.

Lemma late_blocks p : thr s t p -> late p = true -> nolate s -> False.
Proof. intros Ht L N. exact (nolateL_has _ _ _ N Ht L). Qed.

Lemma st_SD8 : thr s t SD8 -> ginv (set_pc (set_running s false) t SD9).
Proof.
  intros Ht. pose proof (g_tinv _ G _ _ Ht) as Hi. simpl in Hi. destruct Hi as [O [S A]].
  gg G Ht SD8 SD9.
  - intros t' Hn L N. exfalso. eapply late_blocks; eauto.
  - intros N. exfalso. eapply (nolateL_has _ _ _ N (thr_upd_self _ _ _ SD9 Ht)). reflexivity.
Qed.

Lemma st_SD9 : thr s t SD9 -> lock_free s = true -> ginv (set_pc (do_clear s) t SD10).
Proof.
  intros Ht Hl. apply lockfree_none in Hl. pose proof (g_tinv _ G _ _ Ht) as Hi. simpl in Hi. destruct Hi as [O [S A]].
  assert (NL : forall v, live s v -> False).
  { intros v Hv. unfold live, livew in Hv. apply andb_true_iff in Hv. destruct Hv as [H1 H2]. rewrite (A v H1) in H2. discriminate. }
  gg G Ht SD9 SD10.
  - intros t' w q Hn Hq Hw. split; [apply samew_refl|]. intros; congruence.
  - intros N. exfalso. eapply (nolateL_has _ _ _ N (thr_upd_self _ _ _ SD10 Ht)). reflexivity.
  - intros n w [].
  - intros v Hv. destruct (NL v Hv).
Qed.

Lemma st_SD10 : thr s t SD10 -> ginv (add_log (set_pc (set_once s ODone) t Fin) (EvShutRet t)).
Proof.
  intros Ht. pose proof (g_tinv _ G _ _ Ht) as Hi. simpl in Hi. destruct Hi as [O [S A]].
  gg G Ht SD10 Fin.
  - intros t' Hn L N. exfalso. eapply late_blocks; eauto.
  - intros t' q Hn Hq Sq. exfalso. eapply (sd_only SD10); eauto.
  - intros v c n o [H|H]; [discriminate|]. apply (g_l1 _ G _ _ _ _ H).
  - rewrite (all_returned_ok _ G A). apply (g_hist _ G).
Qed.

(* ---- a step that only changes the flag / cancelled fields of one worker object ---- *)
Definition minor (f : worker -> worker) : Prop :=
  forall x, w_name (f x) = w_name x /\ w_order (f x) = w_order x /\ w_tid (f x) = w_tid x /\
            w_started (f x) = w_started x /\ w_returned (f x) = w_returned x.

Lemma ginv_minor s' p p' w f es :
  thr s t p ->
  heap s' = upd (heap s) w f -> reg s' = reg s -> wgcnt s' = wgcnt s -> once s' = once s ->
  running s' = running s -> stopped s' = stopped s -> lock s' = lock s ->
  threads s' = upd (threads s) t (fun _ => p') ->
  log s' = es ++ log s -> (es = [] \/ exists v, es = [EvCancel v]) -> hist_ok (log s') = true ->
  minor f -> (live s w -> w_flag (f (gw s w)) = true) ->
  (forall t' q, t' <> t -> thr s t' q -> wpc q = Some w -> w_flag (f (gw s w)) = w_flag (gw s w)) ->
  (lock s = Some t -> False) -> late p' = late p -> (sdact p' = true -> sdact p = true) ->
  (wpc p' = None \/ wpc p' = wpc p) ->
  tinv s' t p' -> ginv s'.
Proof.
  intros Ht Hh Hr Hw Ho Hrun Hst Hlk Hth Hlog Hes Hhist Mf Hfl Hoth Hnl Hlate Hsd Hwp Hti.
  assert (GW : forall v, gw s' v = if Nat.eqb v w && Nat.ltb w (length (heap s)) then f (gw s v) else gw s v).
  { intros v. unfold gw. rewrite Hh. apply getw_upd. }
  assert (M : forall v, w_name (gw s' v) = w_name (gw s v) /\ w_order (gw s' v) = w_order (gw s v) /\
     w_tid (gw s' v) = w_tid (gw s v) /\ w_started (gw s' v) = w_started (gw s v) /\ w_returned (gw s' v) = w_returned (gw s v)).
  { intros v. rewrite GW. destruct (_ && _); auto; try apply Mf. }
  assert (LV : forall v, livew (gw s' v) = livew (gw s v)).
  { intros v. unfold livew. destruct (M v) as [_ [_ [_ [A B]]]]. rewrite A, B. reflexivity. }
  assert (OD : forall v, ord (heap s') v = ord (heap s) v).
  { intros v. unfold ord. apply (M v). }
  assert (AD : alldone s -> alldone s').
  { intros A v. unfold started. destruct (M v) as [_ [_ [_ [B C]]]]. rewrite B, C. apply A. }
  assert (NLs : nolate s' <-> nolate s).
  { unfold nolate. rewrite Hth. split; intros N.
    - eapply (nolate_back _ _ p p' Ht); [intros E; rewrite Hlate; exact E|exact N].
    - destruct (late p') eqn:E. exfalso. symmetry in Hlate. exact (nolateL_has _ _ _ N Ht Hlate). apply nolateL_upd; auto. }
  assert (OW : forall v, owns s v -> owns s' v).
  { intros v. unfold owns. rewrite Hr. destruct (M v) as [A _]. rewrite A. auto. }
  assert (LOGS : forall v c n o, In (EvStart v c n o) (log s') -> In (EvStart v c n o) (log s)).
  { rewrite Hlog. intros v c n o Hin. apply in_app_or in Hin. destruct Hin as [Hin|Hin]; auto.
    destruct Hes as [->|[x ->]]; simpl in Hin; intuition; discriminate. }
  apply (ginv_gen _ _ _ p p' G Ht); auto.
  - rewrite Ho; auto.
  - rewrite Ho. intros t' Hn L N O. split; [apply NLs; auto|]. split; [auto|]. split; [auto|]. rewrite Hrun. split; [auto|].
    split. + intros v [A [B C]]. unfold fresh. rewrite Hh, length_upd. destruct (M v) as [_ [_ [_ [D _]]]]. rewrite D. auto.
    + intros v. destruct (M v) as [A [_ [B _]]]. auto.
  - intros t' n Hn I. unfold incall in *. rewrite Hlog. destruct Hes as [->|[x ->]]; simpl; auto.
  - rewrite Ho; auto.
  - rewrite Hst; auto.
  - intros t' q Hn Hq Lq. split; [auto|]. split; auto. intros v. unfold live. rewrite LV. auto.
  - intros t' v q Hn Hq Wq. split; [|rewrite Hst; intros; auto].
    destruct (M v) as [_ [_ [_ [A B]]]]. split; [auto|]. split; [auto|]. rewrite GW.
    destruct (Nat.eqb v w) eqn:E; simpl; auto. apply Nat.eqb_eq in E. subst v. destruct (Nat.ltb w (length (heap s))); auto.
    eapply Hoth; eauto.
  - rewrite Ho, Hst. intros D. destruct (g_once _ G D). auto.
  - rewrite Hrun. intros R. apply AD. apply (g_run _ G); auto.
  - rewrite Ho, Hrun. intros N D R v. destruct (M v) as [_ [_ [_ [A _]]]]. rewrite A. apply (g_nostart _ G); auto. apply NLs; auto.
  - rewrite Hw. intros o. rewrite (g_cnt _ G). rewrite Hh.
    destruct (Nat.lt_ge_cases w (length (heap s))) as [L|L].
    + pose proof (cnt_upd o (heap s) w f L) as C. destruct (Mf (getw (heap s) w)) as [_ [A [_ [B D]]]].
      unfold bo, livew in C. rewrite A, B, D in C. lia.
    + rewrite upd_out; auto.
  - intros v Lv. unfold live in Lv. rewrite LV in Lv. rewrite GW.
    destruct (Nat.eqb v w) eqn:E; simpl; [|apply (g_flag _ G); auto]. apply Nat.eqb_eq in E. subst v.
    destruct (Nat.ltb w (length (heap s))); [|apply (g_flag _ G); auto]. apply Hfl; auto.
  - intros v. destruct (M v) as [_ [_ [_ [A B]]]]. rewrite A, B. apply (g_retst _ G).
  - rewrite Hr. eapply desc_ext; [|apply (g_regsorted _ G)]. intros; apply OD.
  - rewrite Hr. apply G.
  - rewrite Hr. apply G.
  - rewrite Hr, Hh, length_upd. intros n v Hin. destruct (M v) as [A _]. rewrite A. apply (g_regwf _ G); auto.
  - intros v Lv. unfold live in Lv. rewrite LV in Lv. apply OW. apply (g_livereg _ G); auto.
  - intros v c n o Hin. apply LOGS in Hin. destruct (M v) as [A [B [_ [C _]]]]. rewrite A, B, C. apply (g_l1 _ G _ _ _ _ Hin).
  - intros v. destruct (M v) as [_ [_ [_ [_ B]]]]. rewrite B, Hlog. intros R. apply returned_in_app. apply (g_l2 _ G); auto.
  - rewrite Hlog, Ho. intros Hs. apply (g_l4 _ G). destruct Hes as [->|[x ->]]; simpl in Hs; auto.
Qed.

(* ---- cancel ---- *)
Definition fcancel (x : worker) : worker :=
  mkW (w_name x) (w_order x) (w_kind x) (w_tid x) (w_started x) (w_flag x) true (w_returned x).
Lemma minor_fcancel : minor fcancel.
Proof. intros x. simpl. auto 6. Qed.

Lemma st_cancel d w r pv p : thr s t p -> late p = true -> sdact p = true -> wpc p = None -> holds p = false ->
  (live s w -> forall v, live s v -> ord (heap s) v <= ord (heap s) w) ->
  tinv (set_pc (cancel_worker s w) t (SD4 d r pv)) t (SD4 d r pv) ->
  ginv (set_pc (cancel_worker s w) t (SD4 d r pv)).
Proof.
  intros Ht Lp Sp Wp Hp Hord Hti.
  apply (ginv_minor _ p (SD4 d r pv) w fcancel [EvCancel w] Ht); try reflexivity; auto.
  - right. eauto.
  - simpl. rewrite (cancel_ok_lemma _ G w Hord). apply (g_hist _ G).
  - apply minor_fcancel.
  - intros L. simpl. apply (g_flag _ G); auto.
  - intros L. eapply lock_not_holder; eauto.
Qed.

Lemma walk_minor w f td pv : minor f -> walk s td pv -> walk (set_heap s (upd (heap s) w f)) td pv.
Proof.
  intros Mf [W1 [W2 W3]].
  assert (K : keeps f) by (intros x; destruct (Mf x) as [A [B [C _]]]; auto).
  unfold walk. simpl. repeat split.
  - apply desc_upd; auto.
  - intros v Lv. rewrite ord_upd; auto. apply W2. unfold live, gw in *. simpl in Lv. rewrite getw_upd in Lv.
    destruct (_ && _); auto. unfold livew in *. destruct (Mf (getw (heap s) v)) as [_ [_ [_ [A B]]]]. rewrite A, B in Lv. auto.
  - intros v Hv. rewrite ord_upd; auto.
Qed.

Lemma st_SD4c d w r pv : thr s t (SD4 d (w :: r) pv) -> w_flag (gw s w) = false ->
  ginv (set_pc (cancel_worker s w) t (SD4 (d ++ [w]) r pv)).
Proof.
  intros Ht Hf. pose proof (g_tinv _ G _ _ Ht) as Hi. simpl in Hi. destruct Hi as [O [S W]].
  assert (NL : live s w -> False).
  { intros L. apply (g_flag _ G) in L. congruence. }
  apply (st_cancel _ _ _ _ (SD4 d (w :: r) pv)); auto.
  - intros L. destruct (NL L).
  - simpl. split; [auto|]. split; [auto|].
    apply (walk_minor w fcancel) in W; [|apply minor_fcancel]. destruct W as [W1 [W2 W3]]. 
    split; [eapply desc_tail; eauto|]. split.
    + intros v Lv. destruct (W2 v Lv) as [[A|A]|A]; auto. subst v. exfalso. apply NL.
      unfold live, gw in *. simpl in Lv. rewrite getw_upd in Lv. destruct (_ && _); auto.
    + intros v Hv. apply W3. simpl; auto.
Qed.

Lemma st_SD6 d w r pv : thr s t (SD6 d (w :: r) pv) ->
  ginv (set_pc (cancel_worker s w) t (SD4 (d ++ [w]) r pv)).
Proof.
  intros Ht. pose proof (g_tinv _ G _ _ Ht) as Hi. simpl in Hi. destruct Hi as [O [S [W Hpv]]].
  apply (st_cancel _ _ _ _ (SD6 d (w :: r) pv)); auto.
  - intros L v Lv. destruct W as [W1 [W2 W3]]. destruct (W2 v Lv) as [A|A]; [|lia]. eapply desc_head; eauto.
  - simpl. split; [auto|]. split; [auto|].
    apply (walk_minor w fcancel) in W; [|apply minor_fcancel]. destruct W as [W1 [W2 W3]]. 
    split; [eapply desc_tail; eauto|]. split.
    + intros v Lv. destruct (W2 v Lv) as [[A|A]|A]; auto. subst v. right.
      specialize (W3 w (or_introl eq_refl)). simpl in W3 |- *. fold fcancel. rewrite ord_upd in W3 |- *; try (intros x; simpl; auto). lia.
    + intros v Hv. apply W3. simpl; auto.
Qed.
(* ---- worker goroutine ---- *)
Definition funflag (x : worker) : worker :=
  mkW (w_name x) (w_order x) (w_kind x) (w_tid x) (w_started x) false (w_cancelled x) (w_returned x).

Lemma wpc_other p w t' q : thr s t p -> wpc p = Some w -> t' <> t -> thr s t' q -> wpc q = Some w -> False.
Proof. intros Ht Wp Hn Hq Wq. apply Hn. eapply (g_wuniq _ G); eauto. Qed.

Lemma st_WU w : thr s t (WU w) ->
  ginv (set_pc (set_heap s (upd (heap s) w funflag)) t Fin).
Proof.
  intros Ht. pose proof (g_tinv _ G _ _ Ht) as Hi. simpl in Hi. destruct Hi as [R F].
  apply (ginv_minor _ (WU w) Fin w funflag [] Ht); try reflexivity; simpl; auto.
  - apply (g_hist _ G).
  - intros x. simpl. auto 6.
  - intros L. unfold live, livew in L. rewrite R in L. rewrite andb_false_r in L. discriminate.
  - intros t' q Hn Hq Wq. exfalso. eapply (wpc_other (WU w)); eauto. reflexivity.
  - intros L. eapply lock_not_holder; eauto.
Qed.

Lemma st_WCa w : thr s t (WC w) -> lock_free s = true -> stopped s = true -> ginv (set_pc s t (WU w)).
Proof.
  intros Ht Hl Hs. pose proof (g_tinv _ G _ _ Ht) as Hi. simpl in Hi. destruct Hi as [R [F _]].
  fr G Ht (WC w) (WU w) (@nil event).
Qed.

Lemma name_owner v w : owns s v -> owns s w -> w_name (gw s v) = w_name (gw s w) -> v = w.
Proof. unfold owns. intros A B E. rewrite E in A. congruence. Qed.

Lemma remove_wf n :
  desc (heap s) (map snd (reg_remove n (reg s))) /\ NoDup (map fst (reg_remove n (reg s))) /\
  NoDup (map snd (reg_remove n (reg s))) /\
  (forall m v, In (m, v) (reg_remove n (reg s)) -> (v < length (heap s))%nat /\ w_name (gw s v) = m).
Proof.
  split; [apply desc_remove; apply G|]. split; [apply remove_nodup_fst; apply G|]. split; [apply remove_nodup_snd; apply G|].
  intros m v Hin. apply remove_incl in Hin. apply (g_regwf _ G); auto.
Qed.

Lemma st_WCb w : thr s t (WC w) -> lock_free s = true -> stopped s = false ->
  ginv (set_pc (set_reg s (reg_remove (w_name (getw (heap s) w)) (reg s))) t (WU w)).
Proof.
  intros Ht Hl Hs. apply lockfree_none in Hl. pose proof (g_tinv _ G _ _ Ht) as Hi. simpl in Hi. destruct Hi as [R [F Ow]].
  specialize (Ow Hs). destruct (unstopped _ G Hs) as [NLt OD].
  assert (OW : forall v, v <> w -> owns s v -> reg_find (w_name (gw s v)) (reg_remove (w_name (gw s w)) (reg s)) = Some v).
  { intros v Hv Ov. rewrite find_remove_other; auto. intros E. apply Hv. symmetry in E. eapply name_owner; eauto. }
  destruct (remove_wf (w_name (gw s w))) as [RW1 [RW2 [RW3 RW4]]].
  gg G Ht (WC w) (WU w).
  - intros t' v q Hn Hq Wq. split; [apply samew_refl|]. intros _ Ov. apply OW; auto.
    intros ->. eapply (wpc_other (WC w)); eauto. reflexivity.
  - intros N. apply (g_nostart _ G). eapply (nolate_back _ _ (WC w) (WU w)); eauto.
  - intros v Lv. apply OW; [|apply (g_livereg _ G); auto].
    intros ->. unfold live, livew in Lv. change (gw _ w) with (gw s w) in Lv. rewrite R, andb_false_r in Lv. discriminate.
Qed.
Definition fret (x : worker) : worker :=
  mkW (w_name x) (w_order x) (w_kind x) (w_tid x) (w_started x) (w_flag x) (w_cancelled x) true.
Lemma keeps_fret : keeps fret.
Proof. intros x; simpl; auto. Qed.

Lemma st_WB w : thr s t (WB w) ->
  ginv (add_log (set_pc (set_wg (set_heap s (upd (heap s) w fret)) (wgmap s) (wg_done (w_order (getw (heap s) w)) (wgcnt s))) t (WC w)) (EvReturn w)).
Proof.
  intros Ht. pose proof (g_tinv _ G _ _ Ht) as Hi. simpl in Hi. destruct Hi as [L [F Ow]].
  pose proof (live_lt _ _ L) as Lt.
  set (s' := add_log _ _).
  assert (GW : forall v, gw s' v = if Nat.eqb v w then fret (gw s v) else gw s v).
  { intros v. unfold gw, s'. simpl. rewrite getw_upd. apply Nat.ltb_lt in Lt. rewrite Lt, andb_true_r. reflexivity. }
  assert (GWo : forall v, v <> w -> gw s' v = gw s v).
  { intros v Hv. rewrite GW. apply Nat.eqb_neq in Hv. rewrite Hv. reflexivity. }
  assert (GWw : gw s' w = fret (gw s w)).
  { rewrite GW, Nat.eqb_refl. reflexivity. }
  assert (ST : forall v, w_started (gw s' v) = w_started (gw s v)).
  { intros v. rewrite GW. destruct (Nat.eqb v w); auto. }
  assert (NM : forall v, w_name (gw s' v) = w_name (gw s v) /\ w_order (gw s' v) = w_order (gw s v) /\ w_tid (gw s' v) = w_tid (gw s v)).
  { intros v. rewrite GW. destruct (Nat.eqb v w); auto. }
  assert (RT : forall v, w_returned (gw s v) = true -> w_returned (gw s' v) = true).
  { intros v. rewrite GW. destruct (Nat.eqb v w); auto. }
  assert (LV : forall v, live s' v -> live s v /\ v <> w).
  { intros v. unfold live. rewrite GW. destruct (Nat.eqb v w) eqn:E.
    - unfold livew. simpl. rewrite andb_false_r. discriminate.
    - apply Nat.eqb_neq in E. auto. }
  assert (AD : alldone s -> alldone s').
  { intros A v. unfold started. rewrite ST. intros Sv. apply RT. apply A; auto. }
  assert (OD : forall v, ord (heap s') v = ord (heap s) v).
  { intros v. unfold ord. apply (NM v). }
  assert (OWN : forall v, owns s v -> owns s' v).
  { intros v. unfold owns. rewrite (proj1 (NM v)). auto. }
  assert (LEN : length (heap s') = length (heap s)) by (unfold s'; simpl; apply length_upd).
  gg G Ht (WB w) (WC w).
  - intros t' Hn Lk N O. split; [unfold nolate, s'; simpl; apply nolateL_upd; auto|]. split; [auto|]. split; [auto|]. split; [auto|].
    split. + intros v [A [B C]]. unfold fresh. rewrite LEN, ST. auto.
    + intros v. destruct (NM v) as [A [B C]]. auto.
  - intros t' q Hn Hq Lq. split; [exact OD|]. split; [|exact AD]. intros v Lv. apply LV; auto.
  - intros t' v q Hn Hq Wq. assert (v <> w). { intros ->. eapply (wpc_other (WB w)); eauto. reflexivity. }
    rewrite GWo; auto. split; [apply samew_refl|]. intros _. apply OWN.
  - rewrite GWw. simpl. split; [auto|]. split; [auto|]. intros Hs. apply OWN; auto.
  - intros D. destruct (g_once _ G D). auto.
  - intros R. apply AD. apply (g_run _ G); auto.
  - intros N O R v. rewrite ST. apply (g_nostart _ G); auto. eapply (nolate_back _ _ (WB w) (WC w)); eauto.
  - intros o. rewrite wg_get_done, (g_cnt _ G). pose proof (cnt_upd o (heap s) w fret Lt) as C.
    unfold live, gw in L. unfold bo in C. rewrite L in C. unfold livew at 1 in C. simpl in C. rewrite andb_false_r in C. simpl in C.
    rewrite Z.eqb_sym. destruct (w_order (getw (heap s) w) =? o); simpl in C; lia.
  - intros v Lv. destruct (LV v Lv) as [A B]. rewrite GWo; auto. apply (g_flag _ G); auto.
  - intros v. rewrite ST. rewrite GW. destruct (Nat.eqb v w) eqn:E; [|apply (g_retst _ G)].
    apply Nat.eqb_eq in E. subst v. intros _. unfold live, livew in L. apply andb_true_iff in L. apply L.
  - apply desc_upd. apply keeps_fret. apply G.
  - intros n v Hin. rewrite length_upd, (proj1 (NM v)). apply (g_regwf _ G); auto.
  - intros v Lv. destruct (LV v Lv) as [A B]. apply OWN. apply (g_livereg _ G); auto.
  - intros v c n o [H|H]; [discriminate|]. destruct (NM v) as [A [B C]]. rewrite ST, A, B. apply (g_l1 _ G _ _ _ _ H).
  - intros v. rewrite GW. destruct (Nat.eqb v w) eqn:E.
    + rewrite Nat.eqb_sym, E. auto.
    + intros R. rewrite (g_l2 _ G _ R). apply orb_true_r.
Qed.
(* ---- BackgroundWorker ---- *)
Lemma holder_only t' : lock s = Some t -> t' <> t -> lock s = Some t' -> False.
Proof. intros. congruence. Qed.

Lemma wthread_flag t' q w : thr s t' q -> wpc q = Some w -> w_flag (gw s w) = true /\ w_started (gw s w) = true.
Proof.
  intros Hq Wq. pose proof (g_tinv _ G _ _ Hq) as Hi. destruct q; simpl in Wq; try discriminate; inversion Wq; subst; simpl in Hi.
  - destruct Hi as [A [B _]]. split; auto. unfold live, livew in A. apply andb_true_iff in A. apply A.
  - destruct Hi as [A [B _]]. split; auto. apply (g_retst _ G); auto.
  - destruct Hi as [A B]. split; auto. apply (g_retst _ G); auto.
Qed.

Lemma st_BW4b n o k ex : thr s t (BW4 n o k ex) -> w_flag (gw s ex) = false ->
  ginv (set_pc (set_reg s (reg_remove n (reg s))) t (BW5 n o k)).
Proof.
  intros Ht Hf. pose proof (g_tinv _ G _ _ Ht) as Hi. simpl in Hi. destruct Hi as [[Lk [N O]] [I Fx]].
  destruct (remove_wf n) as [RW1 [RW2 [RW3 RW4]]].
  assert (NLx : live s ex -> False). { intros L. apply (g_flag _ G) in L. congruence. }
  assert (OW : forall v, v <> ex -> owns s v -> reg_find (w_name (gw s v)) (reg_remove n (reg s)) = Some v).
  { intros v Hv Ov. rewrite find_remove_other; auto. intros E. apply Hv. unfold owns in Ov. rewrite <- E in Ov. congruence. }
  gg G Ht (BW4 n o k ex) (BW5 n o k).
  - intros t' v q Hn Hq Wq. split; [apply samew_refl|]. intros _ Ov. apply OW; auto.
    intros ->. destruct (wthread_flag _ _ _ Hq Wq). congruence.
  - split; [eapply insec_move; eauto; repeat split; auto|]. split; [exact I|]. apply find_remove_same. apply G.
  - intros N'. apply (g_nostart _ G); auto.
  - intros v Lv. apply OW; [|apply (g_livereg _ G); auto]. intros ->. auto.
Qed.
Lemma started_lt v : w_started (gw s v) = true -> (v < length (heap s))%nat.
Proof.
  unfold gw. intros H. destruct (Nat.lt_ge_cases v (length (heap s))); auto. rewrite getw_out in H; auto. discriminate.
Qed.

Section BW5.
Variables (s3 : st) (n : nat) (o : Z) (k : kind).
Let x := mkW n o k t false false false false.
Let W := length (heap s).
Hypothesis Ht : thr s t (BW5 n o k).
Hypothesis Hh : heap s3 = heap s ++ [x].
Hypothesis Hr : reg s3 = reg_insert (heap s ++ [x]) (n, W) (reg s).
Hypothesis Hw : wgcnt s3 = wgcnt s.
Hypothesis Ho : once s3 = once s.
Hypothesis Hrun : running s3 = running s.
Hypothesis Hst : stopped s3 = stopped s.
Hypothesis Hlk : lock s3 = lock s.
Hypothesis Hth : threads s3 = threads s.
Hypothesis Hlog : log s3 = log s.

Lemma bw5_old v : (v < W)%nat -> gw s3 v = gw s v.
Proof. intros L. unfold gw. rewrite Hh. apply getw_app_old; auto. Qed.
Lemma bw5_new : gw s3 W = x.
Proof. unfold gw. rewrite Hh. apply getw_app_new. Qed.
Lemma bw5_cases v : (v < W)%nat /\ gw s3 v = gw s v \/ v = W /\ gw s3 v = x /\ gw s v = dflt_w \/ gw s3 v = dflt_w /\ gw s v = dflt_w.
Proof.
  destruct (Nat.lt_trichotomy v W) as [L|[L|L]].
  - left. split; auto. apply bw5_old; auto.
  - right. left. subst v. split; auto. split. apply bw5_new. unfold gw. apply getw_out. unfold W. lia.
  - right. right. unfold gw. rewrite Hh. split; apply getw_out; rewrite ?app_length; simpl; unfold W in L; lia.
Qed.
Lemma bw5_st v : w_started (gw s3 v) = w_started (gw s v) /\ w_returned (gw s3 v) = w_returned (gw s v).
Proof. destruct (bw5_cases v) as [[_ ->]|[[_ [-> ->]]|[-> ->]]]; auto. Qed.
Lemma bw5_live v : live s3 v -> live s v /\ (v < W)%nat /\ gw s3 v = gw s v.
Proof.
  unfold live, livew. destruct (bw5_st v) as [-> ->]. intros L. split; auto.
  assert (v < W)%nat. { apply started_lt. apply andb_true_iff in L. apply L. }
  split; auto. apply bw5_old; auto.
Qed.
Lemma bw5_ord v : (v < W)%nat -> ord (heap s3) v = ord (heap s) v.
Proof. intros L. unfold ord. change (getw (heap s3) v) with (gw s3 v). rewrite bw5_old; auto. Qed.
Lemma bw5_owns v : (v < W)%nat -> owns s v -> owns s3 v.
Proof.
  intros L Ov. unfold owns. rewrite bw5_old; auto. rewrite Hr.
  pose proof (g_tinv _ G _ _ Ht) as Hi. simpl in Hi. destruct Hi as [_ [_ Fn]].
  rewrite find_insert_other; auto. intros E. unfold owns in Ov. rewrite <- E in Ov. congruence.
Qed.
Lemma bw5_regin m v : In (m, v) (reg s) -> (v < W)%nat /\ w_name (gw s v) = m.
Proof. apply (g_regwf _ G). Qed.

Lemma bw5_common p' : 
  tinv (set_pc s3 t p') t p' -> holds p' = true -> sdact p' = false -> wpc p' = None -> late p' = false ->
  ginv (set_pc s3 t p').
Proof.
  intros Hti Hp1 Hp2 Hp3 Hp4.
  pose proof (g_tinv _ G _ _ Ht) as Hi. simpl in Hi. destruct Hi as [[Lk [N O]] [I Fn]].
  assert (GE : forall v, gw (set_pc s3 t p') v = gw s3 v) by reflexivity.
  assert (LE : forall v, live (set_pc s3 t p') v = live s3 v) by reflexivity.
  assert (RIN : forall v, In v (map snd (reg s)) -> (v < W)%nat).
  { intros v Hv. apply in_map_iff in Hv. destruct Hv as [[m v'] [E Hin]]. simpl in E. subst v'. apply (bw5_regin _ _ Hin). }
  gg G Ht (BW5 n o k) p'.
  - intros t' m Hn Hi. unfold incall in *. simpl. rewrite Hlog. auto.
  - intros t' q Hn Hq Lq. exfalso. exact (nolateL_has _ _ _ N Hq Lq).
  - intros t' v q Hn Hq Wq. destruct (wthread_flag _ _ _ Hq Wq) as [_ Sv]. apply started_lt in Sv.
    rewrite GE, bw5_old; auto. split; [apply samew_refl|]. intros _. apply bw5_owns; auto.
  - rewrite Hrun. intros R v. unfold started. rewrite GE. destruct (bw5_st v) as [-> ->]. apply (g_run _ G R).
  - rewrite Ho, Hrun. intros _ _ R v. rewrite GE. destruct (bw5_st v) as [-> _]. apply (g_nostart _ G); auto.
  - intros o0. rewrite Hw, Hh, cnt_app, (g_cnt _ G). unfold bo, livew. simpl. lia.
  - intros v. rewrite LE, GE. intros Lv. destruct (bw5_live _ Lv) as [A [B ->]]. apply (g_flag _ G); auto.
  - intros v. rewrite GE. destruct (bw5_st v) as [-> ->]. apply (g_retst _ G).
  - rewrite Hh, Hr. apply desc_insert. eapply desc_ext; [|apply (g_regsorted _ G)].
    intros v Hv. unfold ord. rewrite getw_app_old; auto.
  - rewrite Hr. apply (insert_nodup_gen fst); [simpl; apply find_none_notin; auto|apply G].
  - rewrite Hr. apply (insert_nodup_gen snd); [simpl; intros Hin; apply RIN in Hin; lia|apply G].
  - rewrite Hr, Hh, app_length. simpl. intros m v Hin. apply insert_in in Hin. rewrite GE. destruct Hin as [E|Hin].
    + inversion E; subst. rewrite bw5_new. simpl. split; auto. unfold W. lia.
    + destruct (bw5_regin _ _ Hin) as [A B]. rewrite bw5_old; auto. split; auto. unfold W in A. lia.
  - intros v. rewrite LE. intros Lv. destruct (bw5_live _ Lv) as [A [B C]]. apply bw5_owns; auto. apply (g_livereg _ G); auto.
  - rewrite Hlog. intros v c m o0 Hin. rewrite GE. destruct (g_l1 _ G _ _ _ _ Hin) as [A B]. rewrite bw5_old; auto. apply started_lt; auto.
  - intros v. rewrite GE, Hlog. destruct (bw5_st v) as [_ ->]. apply (g_l2 _ G).
  - rewrite Hlog, Ho. apply (g_l4 _ G).
  - rewrite Hlog. apply (g_hist _ G).
Qed.
Lemma bw5_insec p' : late p' = false -> insec_ok (set_pc s3 t p') t.
Proof.
  intros Lp. pose proof (g_tinv _ G _ _ Ht) as Hi. simpl in Hi. destruct Hi as [[Lk [N O]] [I Fn]].
  unfold insec_ok, nolate. simpl. rewrite Hlk, Ho, Hth. repeat split; auto. apply nolateL_upd; auto.
Qed.
Lemma bw5_incall p' : incall (set_pc s3 t p') t n.
Proof.
  pose proof (g_tinv _ G _ _ Ht) as Hi. simpl in Hi. destruct Hi as [_ [I _]].
  unfold incall in *. simpl. rewrite Hlog. auto.
Qed.

Lemma st_BW5a : running s = true -> ginv (set_pc s3 t (BW6 W)).
Proof.
  intros R. apply bw5_common; auto. simpl.
  pose proof (g_tinv _ G _ _ Ht) as Hi. simpl in Hi. destruct Hi as [_ [_ Fn]].
  assert (GE : gw (set_pc s3 t (BW6 W)) W = x) by (apply bw5_new).
  rewrite GE. simpl.
  split; [apply bw5_insec; auto|]. split; [apply bw5_incall|]. split; [congruence|]. split; [|reflexivity].
  unfold fresh, owns. rewrite GE. simpl. rewrite Hh, Hr, app_length. simpl. split; [unfold W; lia|]. split; [auto|].
  apply find_insert_same; auto.
Qed.

Lemma upd_upd {A} (l : list A) i f g : upd (upd l i f) i g = upd l i (fun a => g (f a)).
Proof. revert i; induction l; intros [|i]; simpl; auto. rewrite IHl. reflexivity. Qed.

Lemma noname_live v : reg_find n (reg s) = None -> live s v -> w_name (gw s v) <> n.
Proof. intros Fn Lv E. apply (g_livereg _ G) in Lv. unfold owns in Lv. rewrite E in Lv. congruence. Qed.

Lemma st_BW5b : running s = false -> ginv (bw_ret s3 t ROk).
Proof.
  intros R.
  pose proof (g_tinv _ G _ _ Ht) as Hi. simpl in Hi. destruct Hi as [[Lk [N O]] [[I1 I2] Fn]].
  assert (G1 : ginv (set_pc s3 t (BW3 n o k))).
  { apply bw5_common; auto. simpl. split; [apply bw5_insec; auto|apply bw5_incall]. }
  assert (T1 : thr (set_pc s3 t (BW3 n o k)) t (BW3 n o k)).
  { unfold thr. simpl. rewrite Hth. eapply thr_upd_self; eauto. }
  assert (E : bw_ret s3 t ROk = bw_ret (set_pc s3 t (BW3 n o k)) t ROk).
  { unfold bw_ret, bw_fin, set_pc, set_lock, add_log. simpl. rewrite upd_upd. reflexivity. }
  rewrite E.
  apply (ginv_frame _ _ _ (BW3 n o k) Fin [EvBW t ROk] G1 T1); try reflexivity; simpl; auto; try (intros; discriminate).
  - right. right. rewrite Hlk. auto.
  - repeat constructor.
  - rewrite Hlog, I1, I2. simpl. rewrite (g_hist _ G), andb_true_r.
    apply (name_free_old _ G [] t n). intros v Lv. apply noname_live; auto.
Qed.
End BW5.

Lemma st_BW5 n o k s' : thr s t (BW5 n o k) ->
  (if cleared s then Some (crash s) else
        let w := length (heap s) in
        let s1 := if mem_z o (wgmap s) then s else set_wg s (o :: wgmap s) (wgcnt s) in
        let s2 := set_heap s1 (heap s1 ++ [mkW n o k t false false false false]) in
        let s3 := set_reg s2 (reg_insert (heap s2) (n, w) (reg s2)) in
        if running s3 then Some (set_pc s3 t (BW6 w)) else Some (bw_ret s3 t ROk)) = Some s' -> ginv s'.
Proof.
  intros Ht H. destruct (cleared s). { inversion H; subst. apply st_crash; auto. }
  cbv zeta in H. destruct (mem_z o (wgmap s)); simpl in H; destruct (running s) eqn:R; inversion H; subst; clear H.
  - apply (st_BW5a _ n o k); auto.
  - apply (st_BW5b _ n o k); auto.
  - apply (st_BW5a _ n o k); auto.
  - apply (st_BW5b _ n o k); auto.
Qed.

(* ---- Start ---- *)
Lemma st_ST3b run : thr s t (ST3 run) -> running s = false ->
  ginv (set_pc (set_running s true) t (ST4 run (map snd (reg s)))).
Proof.
  intros Ht R. pose proof (g_tinv _ G _ _ Ht) as Hi. simpl in Hi. destruct Hi as [Lk [N O]].
  gg G Ht (ST3 run) (ST4 run (map snd (reg s))).
  split; [eapply insec_move; eauto; repeat split; auto|]. split; [auto|]. split; [apply G|].
  intros w Hw. apply in_map_iff in Hw. destruct Hw as [[m w'] [E Hin]]. simpl in E. subst w'.
  destruct (g_regwf _ G _ _ Hin) as [A B]. unfold fresh, owns. simpl. split; [auto|]. split; [apply (g_nostart _ G); auto|].
  unfold gw in *. simpl. rewrite B. apply in_find_some; auto. apply G.
Qed.

(* the general preservation lemma for a step that spawns the goroutine of worker w *)
Lemma ginv_gen_sp s' p p' w :
  thr s t p -> threads s' = upd (threads s) t (fun _ => p') ++ [WB w] ->
  ((lock s' = lock s /\ (lock s = Some t -> holds p' = true)) \/
   (lock s = None /\ lock s' = Some t /\ holds p' = true) \/ (lock s = Some t /\ lock s' = None)) ->
  (once s' = OFree -> once s = OFree) ->
  (sdact p' = true -> sdact p = true \/ (once s = OFree /\ once s' <> OFree)) ->
  wpc p' = None ->
  (forall t0 q, thr s t0 q -> wpc q <> Some w) ->
  (forall t', t' <> t -> lock s = Some t' -> nolate s -> once s <> ODone ->
     nolate s' /\ once s' <> ODone /\ reg s' = reg s /\ (running s = true -> running s' = true) /\
     (forall w, fresh s w -> fresh s' w) /\ (forall w, w_name (gw s' w) = w_name (gw s w) /\ w_tid (gw s' w) = w_tid (gw s w))) ->
  (forall t' n, t' <> t -> incall s t' n -> incall s' t' n) ->
  (forall t' q, t' <> t -> thr s t' q -> sdact q = true -> once s = OBusy -> once s' = OBusy) ->
  (stopped s = true -> stopped s' = true) ->
  (forall t' q, t' <> t -> thr s t' q -> late q = true ->
     (forall v, ord (heap s') v = ord (heap s) v) /\ (forall v, live s' v -> live s v) /\ (alldone s -> alldone s')) ->
  (forall t' w q, t' <> t -> thr s t' q -> wpc q = Some w ->
     samew (gw s' w) (gw s w) /\ (stopped s' = false -> owns s w -> owns s' w)) ->
  tinv s' t p' ->
  tinv s' (length (threads s)) (WB w) ->
  (once s' = ODone -> stopped s' = true /\ alldone s') ->
  (running s' = false -> alldone s') ->
  (nolate s' -> once s' <> ODone -> running s' = false -> forall v, w_started (gw s' v) = false) ->
  (forall o, wg_get o (wgcnt s') = cnt o (heap s')) ->
  (forall v, live s' v -> w_flag (gw s' v) = true) ->
  (forall v, w_returned (gw s' v) = true -> w_started (gw s' v) = true) ->
  desc (heap s') (map snd (reg s')) -> NoDup (map fst (reg s')) -> NoDup (map snd (reg s')) ->
  (forall n w, In (n, w) (reg s') -> (w < length (heap s'))%nat /\ w_name (gw s' w) = n) ->
  (forall v, live s' v -> owns s' v) ->
  (forall v c n o, In (EvStart v c n o) (log s') -> w_started (gw s' v) = true /\ w_name (gw s' v) = n /\ w_order (gw s' v) = o) ->
  (forall v, w_returned (gw s' v) = true -> returned_in (log s') v = true) ->
  (shut_in (log s') = true -> once s' = ODone) ->
  hist_ok (log s') = true ->
  ginv s'.
Proof.
  intros Ht Hth Hlk Hof Hsd Hwp Hnw O1 O2 O3 O4 O5 O6 Hti Htw F1 F2 F3 F4 F5 F6 F7 F8 F9 F10 F11 F12 F13 F14 F15.
  unfold thr in Ht.
  assert (LT : (t < length (threads s))%nat) by (apply nth_error_Some; congruence).
  constructor; auto; unfold thr; rewrite ?Hth.
  - intros t0 L0.
    assert (exists q, nth_error (upd (threads s) t (fun _ => p')) t0 = Some q /\ holds q = true).
    { apply (lock_upd (threads s) (lock s) (lock s') t p p' Ht (g_lock _ G)); [|exact L0].
      destruct Hlk as [[A B]|[[A [B C]]|[A B]]]; [left|right; left|right; right]; auto. }
    destruct H as [q [Hq Hh]]. exists q. split; auto. rewrite nth_error_app1; auto. apply nth_error_Some. congruence.
  - intros Hf t0 q Hq0. apply thr_upd_snoc in Hq0. destruct Hq0 as [[-> ->]|[[_ Hq0]|[_ ->]]]; auto.
    + destruct (sdact p') eqn:E; auto. destruct (Hsd eq_refl) as [A|[A B]]; [|congruence].
      rewrite <- (g_oncefree _ G (Hof Hf) _ _ Ht). symmetry; auto.
    + eapply (g_oncefree _ G); eauto.
  - intros t1 t2 p1 p2 H1 H2 S1 S2.
    assert (K : sdact p' = true -> sdact p = true \/ forall t0 q, nth_error (threads s) t0 = Some q -> sdact q = false).
    { intros S. destruct (Hsd S) as [A|[A B]]; auto. right. apply (g_oncefree _ G A). }
    apply thr_upd_snoc in H1. apply thr_upd_snoc in H2.
    destruct H1 as [[-> ->]|[[N1 H1]|[-> ->]]], H2 as [[-> ->]|[[N2 H2]|[-> ->]]]; auto; try discriminate.
    + destruct (K S1) as [A|A]. eapply (g_sduniq _ G); eauto. rewrite (A _ _ H2) in S2. discriminate.
    + destruct (K S2) as [A|A]. eapply (g_sduniq _ G); eauto. rewrite (A _ _ H1) in S1. discriminate.
    + eapply (g_sduniq _ G); eauto.
  - eapply wuniq_spawn; eauto. apply G.
  - intros t0 q Hq0. apply thr_upd_snoc in Hq0. destruct Hq0 as [[-> ->]|[[Hne Hq0]|[-> ->]]]; auto.
    eapply (others_gen s s' t); eauto.
    + intros t' Hn L. destruct Hlk as [[A B]|[[A [B C]]|[A B]]]; congruence.
    + apply (g_tinv _ G); auto.
Qed.

Definition fstart (x : worker) : worker :=
  mkW (w_name x) (w_order x) (w_kind x) (w_tid x) true true (w_cancelled x) false.
Lemma upd_app2 {A} (l x : list A) i f : (i < length l)%nat -> upd (l ++ x) i f = upd l i f ++ x.
Proof. revert i; induction l; intros [|i] H; simpl in *; try lia; auto. rewrite IHl; auto. lia. Qed.

Lemma st_start p p' w : thr s t p -> insec_ok s t -> running s = true -> fresh s w ->
  holds p' = true -> sdact p' = false -> wpc p' = None -> late p' = false ->
  tinv (set_pc (start_worker s w) t p') t p' -> ginv (set_pc (start_worker s w) t p').
Proof.
  intros Ht [Lk [N O]] R [Lt [NS Ow]] Hp1 Hp2 Hp3 Hp4 Hti.
  assert (TL : (t < length (threads s))%nat) by (apply nth_error_Some; unfold thr in Ht; congruence).
  set (s' := set_pc (start_worker s w) t p') in *.
  assert (GW : forall v, gw s' v = if Nat.eqb v w then fstart (gw s v) else gw s v).
  { intros v. unfold gw, s'. simpl. rewrite getw_upd. apply Nat.ltb_lt in Lt. rewrite Lt, andb_true_r. reflexivity. }
  assert (GWo : forall v, v <> w -> gw s' v = gw s v).
  { intros v Hv. rewrite GW. apply Nat.eqb_neq in Hv. rewrite Hv. reflexivity. }
  assert (GWw : gw s' w = fstart (gw s w)).
  { rewrite GW, Nat.eqb_refl. reflexivity. }
  assert (NM : forall v, w_name (gw s' v) = w_name (gw s v) /\ w_order (gw s' v) = w_order (gw s v) /\ w_tid (gw s' v) = w_tid (gw s v)).
  { intros v. rewrite GW. destruct (Nat.eqb v w); auto. }
  assert (LV : forall v, live s' v -> v = w \/ (v <> w /\ live s v)).
  { intros v. destruct (Nat.eq_dec v w); auto. unfold live. rewrite GWo; auto. }
  assert (OD : forall v, ord (heap s') v = ord (heap s) v).
  { intros v. unfold ord. apply (NM v). }
  assert (OWN : forall v, owns s v -> owns s' v).
  { intros v. unfold owns. rewrite (proj1 (NM v)). auto. }
  assert (LEN : length (heap s') = length (heap s)) by (unfold s'; simpl; apply length_upd).
  assert (NW : forall t0 q, thr s t0 q -> wpc q <> Some w).
  { intros t0 q Hq Wq. destruct (wthread_flag _ _ _ Hq Wq). congruence. }
  assert (LOG : log s' = EvStart w (w_tid (gw s w)) (w_name (gw s w)) (w_order (gw s w)) :: log s) by reflexivity.
  apply (ginv_gen_sp s' p p' w Ht); try (unfold s'; simpl; reflexivity); try solve [apply G]; auto.
  - unfold s'. simpl. apply upd_app2; auto.
  - rewrite Hp2. discriminate.
  - intros t' Hn L. congruence.
  - intros t' q Hn Hq Lq. exfalso. exact (nolateL_has _ _ _ N Hq Lq).
  - intros t' v q Hn Hq Wq. assert (v <> w). { intros ->. eapply NW; eauto. }
    rewrite GWo; auto. split; [apply samew_refl|]. intros _. apply OWN.
  - simpl. unfold live. rewrite GWw. simpl. auto.
  - intros D. exfalso. apply O. exact D.
  - intros R'. change (running s') with (running s) in R'. congruence.
  - intros _ _ R'. change (running s') with (running s) in R'. congruence.
  - intros o. change (wgcnt s') with (wg_add (w_order (gw s w)) (wgcnt s)).
    change (heap s') with (upd (heap s) w fstart).
    rewrite wg_get_add, (g_cnt _ G). pose proof (cnt_upd o (heap s) w fstart Lt) as C.
    unfold gw in NS. unfold bo, livew in C. rewrite NS in C. simpl in C. unfold gw.
    destruct (w_order (getw (heap s) w) =? o) eqn:E; rewrite Z.eqb_sym, E; simpl in C; lia.
  - intros v Lv. destruct (LV v Lv) as [->|[A B]]. rewrite GWw; auto. rewrite GWo; auto. apply (g_flag _ G); auto.
  - intros v. rewrite GW. destruct (Nat.eqb v w); simpl; auto. apply (g_retst _ G).
  - change (reg s') with (reg s). change (heap s') with (upd (heap s) w fstart). apply desc_upd. intros x; simpl; auto. apply G.
  - change (reg s') with (reg s). intros n v Hin. rewrite LEN, (proj1 (NM v)). apply (g_regwf _ G); auto.
  - intros v Lv. destruct (LV v Lv) as [->|[A B]]; apply OWN; auto. apply (g_livereg _ G); auto.
  - rewrite LOG. intros v c n o [E|Hin].
    + inversion E; subst. rewrite GWw. simpl. auto.
    + destruct (NM v) as [A [B C]]. rewrite A, B. destruct (g_l1 _ G _ _ _ _ Hin) as [D F]. split; auto.
      rewrite GW. destruct (Nat.eqb v w); auto.
  - intros v. rewrite LOG, GW. destruct (Nat.eqb v w) eqn:E; simpl; [discriminate|]. intros Rv. apply (g_l2 _ G); auto.
  - rewrite LOG. simpl. rewrite (noshut _ G O). simpl. apply (g_hist _ G).
Qed.

Lemma start_gw w p' v : (w < length (heap s))%nat ->
  gw (set_pc (start_worker s w) t p') v = if Nat.eqb v w then fstart (gw s v) else gw s v.
Proof.
  intros Lt. unfold gw. simpl. rewrite getw_upd. apply Nat.ltb_lt in Lt. rewrite Lt, andb_true_r. reflexivity.
Qed.
Lemma start_insec w p p' : thr s t p -> insec_ok s t -> late p' = false -> insec_ok (set_pc (start_worker s w) t p') t.
Proof.
  intros Ht [Lk [N O]] Lp. unfold insec_ok, nolate. simpl. split; [auto|]. split; [|auto].
  rewrite upd_app2. apply nolateL_snoc. apply nolateL_upd; auto.
  apply nth_error_Some; unfold thr in Ht; congruence.
Qed.
Lemma start_fresh w p' v : fresh s w -> fresh s v -> v <> w -> fresh (set_pc (start_worker s w) t p') v.
Proof.
  intros [Lt _] [A [B C]] Hn. unfold fresh, owns. rewrite start_gw; auto. apply Nat.eqb_neq in Hn. rewrite Hn.
  simpl. rewrite length_upd. auto.
Qed.

Lemma st_ST4b run w r : thr s t (ST4 run (w :: r)) -> ginv (set_pc (start_worker s w) t (ST4 run r)).
Proof.
  intros Ht. pose proof (g_tinv _ G _ _ Ht) as Hi. simpl in Hi. destruct Hi as [I [R [ND F]]].
  inversion ND; subst.
  apply (st_start (ST4 run (w :: r))); auto; try (apply F; simpl; auto; fail).
  simpl. split; [eapply start_insec; eauto|]. split; [auto|]. split; [auto|].
  intros v Hv. apply start_fresh; auto. intros ->. auto.
Qed.

Lemma st_BW6 w : thr s t (BW6 w) -> ginv (bw_ret (start_worker s w) t ROk).
Proof.
  intros Ht. pose proof (g_tinv _ G _ _ Ht) as Hi. simpl in Hi. destruct Hi as [I [[I1 I2] [R [F Tw]]]].
  set (n := w_name (gw s w)) in *.
  assert (G1 : ginv (set_pc (start_worker s w) t (BW3 n 0 KFree))).
  { apply (st_start (BW6 w)); auto. simpl. split; [eapply start_insec; eauto|]. unfold incall. simpl. auto. }
  assert (T1 : thr (set_pc (start_worker s w) t (BW3 n 0 KFree)) t (BW3 n 0 KFree)).
  { unfold thr. simpl. rewrite upd_app2. rewrite nth_error_app1. eapply thr_upd_self; eauto.
    rewrite length_upd. apply nth_error_Some; unfold thr in Ht; congruence. apply nth_error_Some; unfold thr in Ht; congruence. }
  assert (E : bw_ret (start_worker s w) t ROk = bw_ret (set_pc (start_worker s w) t (BW3 n 0 KFree)) t ROk).
  { unfold bw_ret, bw_fin, set_pc, set_lock, add_log. simpl. rewrite upd_upd. reflexivity. }
  rewrite E. destruct I as [Lk [N O]]. destruct F as [Lt [NS Ow]].
  apply (ginv_frame _ _ _ (BW3 n 0 KFree) Fin [EvBW t ROk] G1 T1); try reflexivity; simpl; auto; try (intros; discriminate).
  - repeat constructor.
  - rewrite I1, I2, (noshut _ G O), (g_hist _ G). simpl. rewrite andb_true_r. fold (gw s w). fold n.
    unfold name_free. cbn [forallb]. rewrite Tw, !Nat.eqb_refl. simpl.
    apply (name_free_old _ G [EvStart w t n (w_order (gw s w))] t n). intros v Lv E'.
    assert (v = w). { apply name_owner; auto. apply (g_livereg _ G); auto. }
    subst v. unfold live, livew in Lv. rewrite NS in Lv. discriminate.
Qed.
End Steps2.
