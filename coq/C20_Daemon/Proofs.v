(* C20 - theorems over all schedules (from the skeleton invariant), structural lemma for equal orders,
   refutation witnesses for the pinned code (D20a, D20c) and for Run (D20b). *)
From Coq Require Import ZArith List Bool Lia.
From Verif.C20_Daemon Require Import Model Base Inv Frame Skel.
Import ListNotations.
Open Scope Z_scope.

(* a pool of API calls that have not begun *)
Definition entry (p : pc) : Prop :=
  match p with BW0 _ _ _ | ST0 _ | SD0 => True | _ => False end.

Lemma ginvA_init pool : Forall entry pool -> ginvA (init pool).
Proof.
  intros H. rewrite Forall_forall in H.
  assert (E : forall t p, thr (init pool) t p -> entry p).
  { unfold thr; simpl. intros t p Hp. apply H. eapply nth_error_In; eauto. }
  constructor; simpl; try discriminate; auto.
  - intros _ t p Hp. apply E in Hp. destruct p; simpl in *; tauto.
  - intros t1 t2 p1 p2 H1 _ S1. apply E in H1. destruct p1; simpl in *; try tauto; discriminate.
  - intros t p Hp. apply E in Hp. destruct p; simpl in *; tauto.
Qed.

Lemma ginvA_run sch : forall s, ginvA s -> ginvA (run fixed sch s).
Proof.
  induction sch as [|[t ch] sch IH]; simpl; auto. intros s G. apply IH.
  unfold step_or_skip. simpl. destruct (step fixed s t ch) eqn:E; auto. eapply skel_step; eauto.
Qed.

Theorem skel_reachable pool sch : Forall entry pool -> ginvA (run fixed sch (init pool)).
Proof. intros. apply ginvA_run. apply ginvA_init; auto. Qed.

(* After shutdown: in every history of the fixed configuration no worker starts and no BackgroundWorker call
   returns nil once some stopOnce.Do(shutdown) (ShutdownAndWait) has returned. *)
Theorem after_shutdown pool sch : Forall entry pool -> skel_ok (log (run fixed sch (init pool))) = true.
Proof. intros H. apply (a_ok _ (skel_reachable pool sch H)). Qed.

Definition in_critical (p : pc) : bool :=
  match p with BW3 _ _ _ | BW4 _ _ _ _ | BW5 _ _ _ | BW6 _ | ST3 _ | ST4 _ _ => true | _ => false end.

Theorem after_shutdown_state pool sch : Forall entry pool ->
  let s := run fixed sch (init pool) in
  once s = ODone ->
  stopped s = true /\ forall t p, thr s t p -> in_critical p = false.
Proof.
  intros H s Hd. pose proof (skel_reachable pool sch H) as G. fold s in G. split.
  - apply (a_once _ G); auto.
  - intros t p Hp. pose proof (a_tinv _ G _ _ Hp) as Hi.
    destruct p; simpl in *; auto; destruct Hi as [_ [_ Hn]]; congruence.
Qed.

(* with the stopped flag set, a BackgroundWorker call that begins is refused and Start starts nothing *)
Lemma refused_when_stopped s t n o k ch :
  crashed s = false -> stopped s = true -> thr s t (BW0 n o k) ->
  exists s', step fixed s t ch = Some s' /\ log s' = EvBW t RStopped :: EvBegin t n :: log s /\ heap s' = heap s /\ reg s' = reg s.
Proof.
  unfold thr, step. intros -> Hs ->. cbv zeta. simpl. rewrite Hs. eexists. split; [reflexivity|]. simpl. auto.
Qed.

(* equal shutdown orders: the walker never waits between two workers of the same order *)
Lemma equal_orders_no_wait s t d w r prev ch :
  crashed s = false -> thr s t (SD4 d (w :: r) prev) -> ord (heap s) w = prev ->
  exists s', step fixed s t ch = Some s' /\
    (thr s' t (SD6 d (w :: r) prev) \/ (thr s' t (SD4 (d ++ [w]) r prev) /\ log s' = EvCancel w :: log s)).
Proof.
  unfold step. intros -> Ht Ho. unfold thr in Ht. rewrite Ht.
  destruct (negb (w_flag (getw (heap s) w))) eqn:F.
  - eexists. split; [reflexivity|]. right. unfold thr; simpl. split; auto.
    rewrite nth_error_upd, Nat.eqb_refl, Ht. reflexivity.
  - rewrite Ho, Z.ltb_irrefl. eexists. split; [reflexivity|]. left. unfold thr; simpl.
    rewrite nth_error_upd, Nat.eqb_refl, Ht. reflexivity.
Qed.
Lemma cancel_step_enabled s t d w r prev ch :
  crashed s = false -> thr s t (SD6 d (w :: r) prev) ->
  exists s', step fixed s t ch = Some s' /\ log s' = EvCancel w :: log s.
Proof. unfold step, thr. intros -> ->. eexists. split; reflexivity. Qed.

(* ---- witnesses ---- *)
Definition rep (n : nat) (t : nat) : list (nat * nat) := repeat (t, O) n.

(* D20a on the pinned code: Start; a (order 1, ignores cancel); b passes the IsStopped check; shutdown snapshots {a},
   cancels a and waits; b is registered and started; a returns; shutdown returns while b runs. *)
Definition d20a_pool : list pc := [ST0 false; BW0 0 1 KFree; BW0 1 0 KOnCancel; SD0].
Definition d20a_sched : list (nat * nat) :=
  rep 4 0 ++ rep 5 1 ++ rep 1 2 ++ rep 7 3 ++ rep 4 2 ++ rep 1 4 ++ rep 4 3.
Lemma refuted_register_race :
  let s := run pinned d20a_sched (init d20a_pool) in
  hist_ok (log s) = false /\ shut_in (log s) = true /\ livew (getw (heap s) 1) = true /\ w_cancelled (getw (heap s) 1) = false.
Proof. vm_compute. auto. Qed.
(* the same schedule on the fixed configuration: b is refused, the history is fine *)
Lemma register_race_fixed :
  let s := run fixed (rep 5 0 ++ rep 6 1 ++ rep 1 2 ++ rep 7 3 ++ rep 4 2 ++ rep 1 4 ++ rep 4 3) (init d20a_pool) in
  hist_ok (log s) = true /\ shut_in (log s) = true /\
  existsb (fun e => match e with EvBW 2 RStopped => true | _ => false end) (log s) = true.
Proof. vm_compute. auto. Qed.

(* D20a, second window: b resumes after clear(): assignment to entry in nil map *)
Definition d20a2_pool : list pc := [ST0 false; BW0 0 0 KOnCancel; SD0].
Lemma refuted_register_crash :
  crashed (run pinned (rep 4 0 ++ rep 1 1 ++ rep 7 2 ++ rep 3 1) (init d20a2_pool)) = true.
Proof. vm_compute. reflexivity. Qed.

(* D20c on the pinned code: a registered; Start passes the IsStopped check; ShutdownAndWait returns (not running);
   Start resumes and starts a after the shutdown returned. *)
Definition d20c_pool : list pc := [BW0 0 0 KOnCancel; ST0 false; SD0].
Definition d20c_sched : list (nat * nat) := rep 4 0 ++ rep 1 1 ++ rep 4 2 ++ rep 3 1.
Lemma refuted_start_race :
  let s := run pinned d20c_sched (init d20c_pool) in
  skel_ok (log s) = false /\ shut_in (log s) = true /\ livew (getw (heap s) 0) = true /\ running s = true /\ stopped s = true.
Proof. vm_compute. auto. Qed.

(* D20b (current code): Run waits on a snapshot of the wait groups *)
Definition d20b_pool : list pc := [BW0 0 1 KFree; ST0 true; BW0 1 0 KOnCancel].
Definition d20b_sched : list (nat * nat) := rep 5 0 ++ rep 7 1 ++ rep 6 2 ++ rep 1 3 ++ rep 2 1.
Lemma refuted_run_early :
  let s := run fixed d20b_sched (init d20b_pool) in
  run_ok (log s) = false /\ livew (getw (heap s) 1) = true /\ hist_ok (log s) = true.
Proof. vm_compute. auto. Qed.

(* non-vacuity: a complete run in which the shutdown returns (once = ODone) *)
Lemma shutdown_completes_example :
  let s := run fixed (rep 5 0 ++ rep 6 1 ++ rep 1 2 ++ rep 7 3 ++ rep 4 2 ++ rep 1 4 ++ rep 4 3) (init d20a_pool) in
  once s = ODone /\ Forall entry d20a_pool.
Proof. vm_compute. split; auto. Qed.
