(* C20 - executable interleaving model of app/daemon/daemon.go (OrderedDaemon).

   Every API call (BackgroundWorker, Start, Run, Shutdown/ShutdownAndWait) and every worker goroutine is a
   thread with a program counter; one [step] is one access to a shared atomic / one lock-protected run of
   plain-data accesses (see notes/C20.md for the step boundaries).  A schedule is a list of (thread, choice).
   [cfg] selects the pinned code or the code after the two fix: commits (2c5e958, 8f0f9a5):
     cfg_bw_recheck  : BackgroundWorker re-checks IsStopped under the lock              (D20a)
     cfg_start_sync  : Start re-checks IsStopped under the lock and shutdown reads the
                       running flag under the read lock                                  (D20c)
   The model of the current code is [fixed]; [pinned] is kept for the refutation witnesses. *)
From Coq Require Import ZArith List Bool Lia.
Import ListNotations.
Open Scope Z_scope.

Record cfg := mkCfg { cfg_bw_recheck : bool; cfg_start_sync : bool }.
Definition fixed := mkCfg true true.
Definition pinned := mkCfg false false.

(* worker body: returns only after its context was cancelled / whenever the scheduler lets it (early, late, never) *)
Inductive kind := KOnCancel | KFree.

Record worker := mkW {
  w_name : nat; w_order : Z; w_kind : kind;
  w_tid : nat;          (* ghost: the BackgroundWorker call that registered it *)
  w_started : bool;     (* ghost: runBackgroundWorker ran for it *)
  w_flag : bool;        (* worker.running *)
  w_cancelled : bool;   (* ctxCancel was called *)
  w_returned : bool     (* ghost: the body returned and wg.Done was called *)
}.
Definition dflt_w := mkW 0 0 KFree 0 false false false false.

Inductive result := ROk | RStopped | RDup | RStillRunning.

Inductive event :=
| EvBegin (t n : nat)            (* BackgroundWorker call t for name n entered *)
| EvBW (t : nat) (r : result)    (* ... and returned r *)
| EvStart (w c n : nat) (o : Z)  (* worker w (registered by call c, name n, order o) started *)
| EvCancel (w : nat)             (* ctxCancel of worker w *)
| EvReturn (w : nat)             (* body of w returned *)
| EvShutRet (t : nat)            (* stopOnce.Do(shutdown) returned in call t (ShutdownAndWait returns here) *)
| EvRunRet (t : nat).            (* Run returned *)

Inductive pc :=
(* BackgroundWorker(name, order) with a body of the given kind *)
| BW0 (n : nat) (o : Z) (k : kind)   (* if d.IsStopped() *)
| BW1 (n : nat) (o : Z) (k : kind)   (* d.lock.Lock() *)
| BW2 (n : nat) (o : Z) (k : kind)   (* re-check (cfg_bw_recheck) *)
| BW3 (n : nat) (o : Z) (k : kind)   (* d.workers[name]; if exists: !d.running.Load() *)
| BW4 (n : nat) (o : Z) (k : kind) (ex : nat)  (* exWorker.running.Load(); removeWorkerFromShutdownOrder *)
| BW5 (n : nat) (o : Z) (k : kind)   (* wait group, d.workers[name] = ..., append + sort; d.IsRunning() *)
| BW6 (w : nat)                      (* runBackgroundWorker; unlock; return nil *)
(* Start (run = false) / Run (run = true) *)
| ST0 (run : bool) | ST1 (run : bool) | ST2 (run : bool) | ST3 (run : bool) | ST4 (run : bool) (todo : list nat)
| RW0 | RW1 (todo : list Z)
(* stopOnce.Do(d.shutdown) *)
| SD0 | SD1 | SD2 | SD3
| SD4 (done todo : list nat) (prev : Z)   (* loop head: worker.running.Load() *)
| SD5 (done todo : list nat) (prev : Z)   (* wgPerSameShutdownOrder[prevPriority].Wait() *)
| SD6 (done todo : list nat) (prev : Z)   (* worker.ctxCancel() *)
| SD7 (prev : Z)                          (* final Wait *)
| SD8 | SD9 | SD10
(* worker goroutine *)
| WB (w : nat) | WC (w : nat) | WU (w : nat)
| Fin.

Inductive once_st := OFree | OBusy | ODone.

Record st := mkSt {
  heap : list worker;          (* worker objects; wid = index; append-only *)
  reg : list (nat * nat);      (* shutdownOrderWorker joined with the workers map: (name, wid), descending order *)
  wgmap : list Z;              (* keys of wgPerSameShutdownOrder *)
  wgcnt : list (Z * nat);      (* the WaitGroup objects (they survive clear()) *)
  cleared : bool;              (* clear() ran: the maps are nil *)
  stopped : bool;
  running : bool;
  once : once_st;
  lock : option nat;           (* writer holding d.lock across steps (readers take it within one step) *)
  threads : list pc;           (* tid = index *)
  log : list event;            (* newest first *)
  crashed : bool               (* a Go panic happened (nil map write / nil wait group) *)
}.

Definition init (pool : list pc) : st :=
  mkSt [] [] [] [] false false false OFree None pool [] false.

(* ---- small helpers ---- *)
Fixpoint upd {A} (l : list A) (i : nat) (f : A -> A) : list A :=
  match l, i with
  | [], _ => []
  | x :: r, O => f x :: r
  | x :: r, S j => x :: upd r j f
  end.

Definition getw (h : list worker) (w : nat) : worker := nth w h dflt_w.
Definition ord (h : list worker) (w : nat) : Z := w_order (getw h w).

Fixpoint wg_get (o : Z) (l : list (Z * nat)) : nat :=
  match l with [] => O | (o', c) :: r => if o =? o' then c else wg_get o r end.
Fixpoint wg_add (o : Z) (l : list (Z * nat)) : list (Z * nat) :=
  match l with [] => [(o, 1%nat)] | (o', c) :: r => if o =? o' then (o', S c) :: r else (o', c) :: wg_add o r end.
Fixpoint wg_done (o : Z) (l : list (Z * nat)) : list (Z * nat) :=
  match l with [] => [] | (o', c) :: r => if o =? o' then (o', pred c) :: r else (o', c) :: wg_done o r end.
Definition mem_z (o : Z) (l : list Z) : bool := existsb (Z.eqb o) l.

Fixpoint reg_find (n : nat) (r : list (nat * nat)) : option nat :=
  match r with [] => None | (n', w) :: r' => if Nat.eqb n n' then Some w else reg_find n r' end.
(* removeWorkerFromShutdownOrder + delete(d.workers, name): first occurrence *)
Fixpoint reg_remove (n : nat) (r : list (nat * nat)) : list (nat * nat) :=
  match r with [] => [] | (n', w) :: r' => if Nat.eqb n n' then r' else (n', w) :: reg_remove n r' end.
(* append + sort.Slice by descending order (insertion sort for <= 12 elements: the new element moves
   left past every strictly smaller order) *)
Fixpoint reg_insert (h : list worker) (e : nat * nat) (r : list (nat * nat)) : list (nat * nat) :=
  match r with
  | [] => [e]
  | x :: r' => if ord h (snd x) <? ord h (snd e) then e :: x :: r' else x :: reg_insert h e r'
  end.

Definition set_pc (s : st) (t : nat) (p : pc) : st :=
  mkSt (heap s) (reg s) (wgmap s) (wgcnt s) (cleared s) (stopped s) (running s) (once s) (lock s)
       (upd (threads s) t (fun _ => p)) (log s) (crashed s).
Definition set_lock (s : st) (l : option nat) : st :=
  mkSt (heap s) (reg s) (wgmap s) (wgcnt s) (cleared s) (stopped s) (running s) (once s) l
       (threads s) (log s) (crashed s).
Definition add_log (s : st) (e : event) : st :=
  mkSt (heap s) (reg s) (wgmap s) (wgcnt s) (cleared s) (stopped s) (running s) (once s) (lock s)
       (threads s) (e :: log s) (crashed s).
Definition set_heap (s : st) (h : list worker) : st :=
  mkSt h (reg s) (wgmap s) (wgcnt s) (cleared s) (stopped s) (running s) (once s) (lock s)
       (threads s) (log s) (crashed s).
Definition set_reg (s : st) (r : list (nat * nat)) : st :=
  mkSt (heap s) r (wgmap s) (wgcnt s) (cleared s) (stopped s) (running s) (once s) (lock s)
       (threads s) (log s) (crashed s).
Definition set_wg (s : st) (m : list Z) (c : list (Z * nat)) : st :=
  mkSt (heap s) (reg s) m c (cleared s) (stopped s) (running s) (once s) (lock s)
       (threads s) (log s) (crashed s).
Definition set_stopped (s : st) : st :=
  mkSt (heap s) (reg s) (wgmap s) (wgcnt s) (cleared s) true (running s) (once s) (lock s)
       (threads s) (log s) (crashed s).
Definition set_running (s : st) (b : bool) : st :=
  mkSt (heap s) (reg s) (wgmap s) (wgcnt s) (cleared s) (stopped s) b (once s) (lock s)
       (threads s) (log s) (crashed s).
Definition set_once (s : st) (o : once_st) : st :=
  mkSt (heap s) (reg s) (wgmap s) (wgcnt s) (cleared s) (stopped s) (running s) o (lock s)
       (threads s) (log s) (crashed s).
Definition do_clear (s : st) : st :=
  mkSt (heap s) [] [] (wgcnt s) true (stopped s) (running s) (once s) (lock s)
       (threads s) (log s) (crashed s).
Definition crash (s : st) : st :=
  mkSt (heap s) (reg s) (wgmap s) (wgcnt s) (cleared s) (stopped s) (running s) (once s) (lock s)
       (threads s) (log s) true.
Definition spawn (s : st) (p : pc) : st :=
  mkSt (heap s) (reg s) (wgmap s) (wgcnt s) (cleared s) (stopped s) (running s) (once s) (lock s)
       (threads s ++ [p]) (log s) (crashed s).

(* runBackgroundWorker: wg.Add(1); worker.running.Store(true); go func() {...} *)
Definition start_worker (s : st) (w : nat) : st :=
  let wk := getw (heap s) w in
  let s1 := set_wg s (wgmap s) (wg_add (w_order wk) (wgcnt s)) in
  let s2 := set_heap s1 (upd (heap s1) w (fun x =>
              mkW (w_name x) (w_order x) (w_kind x) (w_tid x) true true (w_cancelled x) false)) in
  add_log (spawn s2 (WB w)) (EvStart w (w_tid wk) (w_name wk) (w_order wk)).

Definition cancel_worker (s : st) (w : nat) : st :=
  add_log (set_heap s (upd (heap s) w (fun x =>
     mkW (w_name x) (w_order x) (w_kind x) (w_tid x) (w_started x) (w_flag x) true (w_returned x)))) (EvCancel w).

(* return of a BackgroundWorker call: unlock (if held), log, finish *)
Definition bw_fin (s : st) (t : nat) (r : result) : st :=
  add_log (set_pc s t Fin) (EvBW t r).
Definition bw_ret (s : st) (t : nat) (r : result) : st := bw_fin (set_lock s None) t r.

Definition after_start (s : st) (t : nat) (run : bool) : st :=
  set_pc s t (if run then RW0 else Fin).

Fixpoint remove_nth {A} (k : nat) (l : list A) : list A :=
  match l, k with
  | [], _ => []
  | _ :: r, O => r
  | x :: r, S j => x :: remove_nth j r
  end.

Definition lock_free (s : st) : bool := match lock s with None => true | Some _ => false end.

(* ---- one step of thread t (ch: scheduler choice, used by Run's wait order only) ---- *)
Definition step (c : cfg) (s : st) (t : nat) (ch : nat) : option st :=
  if crashed s then None else
  match nth_error (threads s) t with
  | None => None
  | Some p =>
    match p with
    | BW0 n o k =>
        let s := add_log s (EvBegin t n) in
        if stopped s then Some (bw_fin s t RStopped) else Some (set_pc s t (BW1 n o k))
    | BW1 n o k =>
        if lock_free s then Some (set_pc (set_lock s (Some t)) t (if cfg_bw_recheck c then BW2 n o k else BW3 n o k))
        else None
    | BW2 n o k =>
        if stopped s then Some (bw_ret s t RStopped) else Some (set_pc s t (BW3 n o k))
    | BW3 n o k =>
        match reg_find n (reg s) with
        | None => Some (set_pc s t (BW5 n o k))
        | Some ex => if running s then Some (set_pc s t (BW4 n o k ex)) else Some (bw_ret s t RDup)
        end
    | BW4 n o k ex =>
        if w_flag (getw (heap s) ex) then Some (bw_ret s t RStillRunning)
        else Some (set_pc (set_reg s (reg_remove n (reg s))) t (BW5 n o k))
    | BW5 n o k =>
        if cleared s then Some (crash s) else
        let w := length (heap s) in
        let s1 := if mem_z o (wgmap s) then s else set_wg s (o :: wgmap s) (wgcnt s) in
        let s2 := set_heap s1 (heap s1 ++ [mkW n o k t false false false false]) in
        let s3 := set_reg s2 (reg_insert (heap s2) (n, w) (reg s2)) in
        if running s3 then Some (set_pc s3 t (BW6 w)) else Some (bw_ret s3 t ROk)
    | BW6 w => Some (bw_ret (start_worker s w) t ROk)
    | ST0 run =>
        if stopped s then Some (after_start s t run) else Some (set_pc s t (ST1 run))
    | ST1 run =>
        if lock_free s then Some (set_pc (set_lock s (Some t)) t (if cfg_start_sync c then ST2 run else ST3 run))
        else None
    | ST2 run =>
        if stopped s then Some (after_start (set_lock s None) t run) else Some (set_pc s t (ST3 run))
    | ST3 run =>
        if running s then Some (after_start (set_lock s None) t run)
        else Some (set_pc (set_running s true) t (ST4 run (map snd (reg s))))
    | ST4 run todo =>
        match todo with
        | [] => Some (after_start (set_lock s None) t run)
        | w :: r => Some (set_pc (start_worker s w) t (ST4 run r))
        end
    | RW0 => if lock_free s then Some (set_pc s t (RW1 (wgmap s))) else None
    | RW1 todo =>
        match todo with
        | [] => Some (add_log (set_pc s t Fin) (EvRunRet t))
        | _ => match nth_error todo ch with
               | None => None
               | Some o => if Nat.eqb (wg_get o (wgcnt s)) 0 then Some (set_pc s t (RW1 (remove_nth ch todo))) else None
               end
        end
    | SD0 =>
        match once s with
        | OFree => Some (set_pc (set_once s OBusy) t SD1)
        | OBusy => None
        | ODone => Some (add_log (set_pc s t Fin) (EvShutRet t))
        end
    | SD1 => Some (set_pc (set_stopped s) t SD2)
    | SD2 =>
        if cfg_start_sync c && negb (lock_free s) then None
        else if running s then Some (set_pc s t SD3) else Some (set_pc s t SD10)
    | SD3 =>
        if lock_free s then
          match map snd (reg s) with
          | [] => Some (set_pc s t SD8)
          | w :: r => Some (set_pc s t (SD4 [] (w :: r) (ord (heap s) w)))
          end
        else None
    | SD4 done todo prev =>
        match todo with
        | [] => Some (set_pc s t (SD7 prev))
        | w :: r =>
            if negb (w_flag (getw (heap s) w)) then Some (set_pc (cancel_worker s w) t (SD4 (done ++ [w]) r prev))
            else if ord (heap s) w <? prev then Some (set_pc s t (SD5 done todo prev))
            else Some (set_pc s t (SD6 done todo prev))
        end
    | SD5 done todo prev =>
        match todo with
        | [] => None
        | w :: r =>
            if negb (mem_z prev (wgmap s)) then Some (crash s)
            else if Nat.eqb (wg_get prev (wgcnt s)) 0 then Some (set_pc s t (SD6 done todo (ord (heap s) w))) else None
        end
    | SD6 done todo prev =>
        match todo with
        | [] => None
        | w :: r => Some (set_pc (cancel_worker s w) t (SD4 (done ++ [w]) r prev))
        end
    | SD7 prev =>
        if negb (mem_z prev (wgmap s)) then Some (crash s)
        else if Nat.eqb (wg_get prev (wgcnt s)) 0 then Some (set_pc s t SD8) else None
    | SD8 => Some (set_pc (set_running s false) t SD9)
    | SD9 => if lock_free s then Some (set_pc (do_clear s) t SD10) else None
    | SD10 => Some (add_log (set_pc (set_once s ODone) t Fin) (EvShutRet t))
    | WB w =>
        let wk := getw (heap s) w in
        if (match w_kind wk with KFree => true | KOnCancel => w_cancelled wk end) then
          let s1 := set_heap s (upd (heap s) w (fun x =>
                      mkW (w_name x) (w_order x) (w_kind x) (w_tid x) (w_started x) (w_flag x) (w_cancelled x) true)) in
          let s2 := set_wg s1 (wgmap s1) (wg_done (w_order wk) (wgcnt s1)) in
          Some (add_log (set_pc s2 t (WC w)) (EvReturn w))
        else None
    | WC w =>
        if lock_free s then
          if stopped s then Some (set_pc s t (WU w))
          else Some (set_pc (set_reg s (reg_remove (w_name (getw (heap s) w)) (reg s))) t (WU w))
        else None
    | WU w =>
        Some (set_pc (set_heap s (upd (heap s) w (fun x =>
                mkW (w_name x) (w_order x) (w_kind x) (w_tid x) (w_started x) false (w_cancelled x) (w_returned x)))) t Fin)
    | Fin => None
    end
  end.

(* a schedule entry that is not enabled is skipped *)
Definition step_or_skip (c : cfg) (s : st) (tc : nat * nat) : st :=
  match step c s (fst tc) (snd tc) with Some s' => s' | None => s end.
Definition run (c : cfg) (sch : list (nat * nat)) (s : st) : st := fold_left (step_or_skip c) sch s.

(* ---- history predicates over a log (newest first); also evaluated on logs recorded from the Go code ---- *)
Definition started_in (l : list event) (w : nat) : bool :=
  existsb (fun e => match e with EvStart v _ _ _ => Nat.eqb v w | _ => false end) l.
Definition returned_in (l : list event) (w : nat) : bool :=
  existsb (fun e => match e with EvReturn v => Nat.eqb v w | _ => false end) l.
Definition live_in (l : list event) (w : nat) : bool := started_in l w && negb (returned_in l w).
Fixpoint order_in (l : list event) (w : nat) : Z :=
  match l with
  | [] => 0
  | EvStart v _ _ o :: r => if Nat.eqb v w then o else order_in r w
  | _ :: r => order_in r w
  end.
Definition shut_in (l : list event) : bool :=
  existsb (fun e => match e with EvShutRet _ => true | _ => false end) l.

(* cancelling a worker that has not returned: every started worker of a higher order has returned *)
Definition cancel_ok (old : list event) (w : nat) : bool :=
  negb (live_in old w) ||
  forallb (fun e => match e with
                    | EvStart v _ _ o => (o <=? order_in old w) || returned_in old v
                    | _ => true end) old.
(* stopOnce.Do(shutdown) returns: every started worker has returned *)
Definition all_returned (old : list event) : bool :=
  forallb (fun e => match e with EvStart v _ _ _ => returned_in old v | _ => true end) old.
(* name n is free for call t: every started worker of that name registered by another call has returned *)
Definition name_free (old : list event) (t n : nat) : bool :=
  forallb (fun e => match e with
                    | EvStart v c n' _ => negb (Nat.eqb n n') || Nat.eqb c t || returned_in old v
                    | _ => true end) old.
Fixpoint name_of_call (l : list event) (t : nat) : option nat :=
  match l with
  | [] => None
  | EvBegin t' n :: r => if Nat.eqb t t' then Some n else name_of_call r t
  | _ :: r => name_of_call r t
  end.
(* did call t begin after some shutdown had returned? *)
Fixpoint begun_after_shut (l : list event) (t : nat) : bool :=
  match l with
  | [] => false
  | EvBegin t' _ :: r => if Nat.eqb t t' then shut_in r else begun_after_shut r t
  | _ :: r => begun_after_shut r t
  end.

Definition event_ok (old : list event) (e : event) : bool :=
  match e with
  | EvCancel w => cancel_ok old w
  | EvShutRet _ => all_returned old
  | EvStart _ _ _ _ => negb (shut_in old)                    (* nothing starts after a shutdown returned *)
  | EvBW t ROk =>
      negb (begun_after_shut old t) &&                      (* registration after shutdown is refused *)
      match name_of_call old t with Some n => name_free old t n | None => true end   (* a running name is refused *)
  | _ => true
  end.
Fixpoint hist_ok (l : list event) : bool :=
  match l with [] => true | e :: old => event_ok old e && hist_ok old end.

(* Run returns: every started worker has returned (D20b: refuted in general) *)
Fixpoint run_ok (l : list event) : bool :=
  match l with
  | [] => true
  | EvRunRet _ :: old => all_returned old && run_ok old
  | _ :: old => run_ok old
  end.
