(* C20 - the full invariant is inductive; the history predicate hist_ok holds of every reachable log. *)
From Coq Require Import ZArith List Bool Lia Sorting.Sorted.
From Verif.C20_Daemon Require Import Model Base Inv Frame Preserve Hist Preserve2.
Import ListNotations.
Open Scope Z_scope.

Theorem ginv_step s t ch s' : ginv s -> step fixed s t ch = Some s' -> ginv s'.
Proof.
  intros G H. unfold step in H. destruct (crashed s); [discriminate|].
  destruct (nth_error (threads s) t) as [p|] eqn:Ht; [|discriminate].
  change (thr s t p) in Ht.
  destruct p; cbv zeta in H; cbn [cfg_bw_recheck cfg_start_sync fixed andb] in H.
  - (* BW0 *) eapply st_BW0; eauto.
  - (* BW1 *) destruct (lock_free s) eqn:L; inversion H; subst; clear H. eapply st_BW1; eauto.
  - (* BW2 *) destruct (stopped s) eqn:S; inversion H; subst; clear H.
    + eapply st_BW2a; eauto.
    + eapply st_BW2b; eauto.
  - (* BW3 *) eapply st_BW3; eauto.
  - (* BW4 *) destruct (w_flag (getw (heap s) ex)) eqn:F; inversion H; subst; clear H.
    + eapply st_BW4a; eauto.
    + eapply st_BW4b; eauto.
  - (* BW5 *) eapply st_BW5; eauto.
  - (* BW6 *) inversion H; subst; clear H. eapply st_BW6; eauto.
  - (* ST0 *) eapply st_ST0; eauto.
  - (* ST1 *) destruct (lock_free s) eqn:L; inversion H; subst; clear H. eapply st_ST1; eauto.
  - (* ST2 *) destruct (stopped s) eqn:S; inversion H; subst; clear H.
    + eapply (st_unlock_after _ _ G (ST2 run)); eauto.
    + eapply st_ST2b; eauto.
  - (* ST3 *) destruct (running s) eqn:R; inversion H; subst; clear H.
    + eapply (st_unlock_after _ _ G (ST3 run)); eauto.
    + eapply st_ST3b; eauto.
  - (* ST4 *) destruct todo as [|w r]; inversion H; subst; clear H.
    + eapply (st_unlock_after _ _ G (ST4 run [])); eauto.
    + eapply st_ST4b; eauto.
  - (* RW0 *) destruct (lock_free s); inversion H; subst; clear H. eapply st_RW0; eauto.
  - (* RW1 *) destruct todo as [|z r]; [|destruct (nth_error (z :: r) ch); [|discriminate];
      match type of H with (if ?b then _ else _) = _ => destruct b end]; inversion H; subst; clear H.
    + eapply st_RW1a; eauto.
    + eapply st_RW1b; eauto.
  - (* SD0 *) destruct (once s) eqn:O; inversion H; subst; clear H.
    + eapply st_SD0a; eauto.
    + eapply st_SD0b; eauto.
  - (* SD1 *) inversion H; subst; clear H. eapply st_SD1; eauto.
  - (* SD2 *) destruct (lock_free s) eqn:L; simpl in H; [|discriminate]. eapply st_SD2; eauto.
  - (* SD3 *) destruct (lock_free s); [|discriminate]. eapply st_SD3; eauto.
  - (* SD4 *) destruct todo as [|w r].
    + eapply (st_SD4 _ _ G done [] prev); eauto.
    + destruct (w_flag (getw (heap s) w)) eqn:F; simpl in H.
      * eapply (st_SD4 _ _ G done (w :: r) prev); eauto.
      * inversion H; subst; clear H. eapply st_SD4c; eauto.
  - (* SD5 *) destruct todo as [|w r]; [discriminate|].
    destruct (negb (mem_z prev (wgmap s))); [inversion H; subst; apply st_crash; auto|].
    destruct (Nat.eqb (wg_get prev (wgcnt s)) 0) eqn:E; inversion H; subst; clear H.
    apply Nat.eqb_eq in E. eapply st_SD5; eauto.
  - (* SD6 *) destruct todo as [|w r]; inversion H; subst; clear H. eapply st_SD6; eauto.
  - (* SD7 *) destruct (negb (mem_z prev (wgmap s))); [inversion H; subst; apply st_crash; auto|].
    destruct (Nat.eqb (wg_get prev (wgcnt s)) 0) eqn:E; inversion H; subst; clear H.
    apply Nat.eqb_eq in E. eapply st_SD7; eauto.
  - (* SD8 *) inversion H; subst; clear H. eapply st_SD8; eauto.
  - (* SD9 *) destruct (lock_free s) eqn:L; inversion H; subst; clear H. eapply st_SD9; eauto.
  - (* SD10 *) inversion H; subst; clear H. eapply st_SD10; eauto.
  - (* WB *) match type of H with (if ?b then _ else _) = _ => destruct b end; inversion H; subst; clear H.
    eapply st_WB; eauto.
  - (* WC *) destruct (lock_free s) eqn:L; [|discriminate]. destruct (stopped s) eqn:S; inversion H; subst; clear H.
    + eapply st_WCa; eauto.
    + eapply st_WCb; eauto.
  - (* WU *) inversion H; subst; clear H. eapply st_WU; eauto.
  - discriminate.
Qed.

From Verif.C20_Daemon Require Proofs.

Lemma gw_init pool v : gw (init pool) v = dflt_w.
Proof. unfold gw, getw. simpl. destruct v; reflexivity. Qed.

Lemma ginv_init pool : Forall Proofs.entry pool -> ginv (init pool).
Proof.
  intros H. rewrite Forall_forall in H.
  assert (E : forall t p, thr (init pool) t p -> Proofs.entry p).
  { unfold thr; simpl. intros t p Hp. apply H. eapply nth_error_In; eauto. }
  assert (NL : forall v, live (init pool) v -> False).
  { intros v. unfold live. rewrite gw_init. discriminate. }
  constructor; unfold alldone, started; try (intros v; rewrite ?gw_init; simpl; try discriminate; auto; fail);
    simpl; try discriminate; auto.
  - intros _ t p Hp. apply E in Hp. destruct p; simpl in *; tauto.
  - intros t1 t2 p1 p2 H1 _ S1. apply E in H1. destruct p1; simpl in *; try tauto; discriminate.
  - intros _ v. rewrite gw_init. discriminate.
  - intros _ _ _ v. rewrite gw_init. reflexivity.
  - intros v Hv. destruct (NL v Hv).
  - constructor.
  - constructor.
  - constructor.
  - intros n w [].
  - intros v Hv. destruct (NL v Hv).
  - intros t1 t2 p1 p2 w H1 _ S1. apply E in H1. destruct p1; simpl in *; try tauto; discriminate.
  - intros v c n o [].
  - intros t p Hp. apply E in Hp. destruct p; simpl in *; tauto.
Qed.

Lemma ginv_run sch : forall s, ginv s -> ginv (run fixed sch s).
Proof.
  induction sch as [|[t ch] sch IH]; simpl; auto. intros s G. apply IH.
  unfold step_or_skip. simpl. destruct (step fixed s t ch) eqn:E; auto. eapply ginv_step; eauto.
Qed.

Theorem ginv_reachable pool sch : Forall Proofs.entry pool -> ginv (run fixed sch (init pool)).
Proof. intros. apply ginv_run. apply ginv_init; auto. Qed.

(* The full statement: hist_ok of every reachable log *)
Theorem hist_ok_reachable pool sch : Forall Proofs.entry pool -> hist_ok (log (run fixed sch (init pool))) = true.
Proof. intros H. apply (g_hist _ (ginv_reachable pool sch H)). Qed.

(* ---- the clauses of C20 read off the history predicate ---- *)
Lemma hist_ok_split newer e old : hist_ok (newer ++ e :: old) = true -> event_ok old e = true.
Proof.
  induction newer as [|x newer IH]; simpl; intros H; apply andb_true_iff in H; destruct H; auto.
Qed.

Section Clauses.
Variables (pool : list pc) (sch : list (nat * nat)).
Hypothesis Hpool : Forall Proofs.entry pool.
Let l := log (run fixed sch (init pool)).

(* (a) cancel order: when the context of a worker w that has not returned is cancelled, every started worker of a
   strictly higher shutdown order has already returned *)
Theorem order newer w old : l = newer ++ EvCancel w :: old -> live_in old w = true ->
  forall v c n o, In (EvStart v c n o) old -> order_in old w < o -> returned_in old v = true.
Proof.
  intros E Lw v c n o Hin Ho. pose proof (hist_ok_reachable pool sch Hpool) as H. fold l in H. rewrite E in H.
  apply hist_ok_split in H. simpl in H. unfold cancel_ok in H. rewrite Lw in H. simpl in H.
  rewrite forallb_forall in H. specialize (H _ Hin). simpl in H.
  apply orb_true_iff in H. destruct H as [H|H]; auto. apply Z.leb_le in H. lia.
Qed.

(* (b) stopOnce.Do(shutdown) - hence ShutdownAndWait - returns only after every started worker has returned *)
Theorem wait_all newer t old : l = newer ++ EvShutRet t :: old ->
  forall v c n o, In (EvStart v c n o) old -> returned_in old v = true.
Proof.
  intros E v c n o Hin. pose proof (hist_ok_reachable pool sch Hpool) as H. fold l in H. rewrite E in H.
  apply hist_ok_split in H. simpl in H. unfold all_returned in H. rewrite forallb_forall in H. apply (H _ Hin).
Qed.

(* (c) a BackgroundWorker call for name n that returns nil: every started worker of that name registered by another
   call has returned (so a name that is still running is refused) *)
Theorem running_name_refused newer t old n : l = newer ++ EvBW t ROk :: old -> name_of_call old t = Some n ->
  forall v c o, In (EvStart v c n o) old -> c <> t -> returned_in old v = true.
Proof.
  intros E Hn v c o Hin Hc. pose proof (hist_ok_reachable pool sch Hpool) as H. fold l in H. rewrite E in H.
  apply hist_ok_split in H. simpl in H. apply andb_true_iff in H. destruct H as [_ H]. rewrite Hn in H.
  unfold name_free in H. rewrite forallb_forall in H. specialize (H _ Hin). simpl in H.
  rewrite Nat.eqb_refl in H. simpl in H. apply Nat.eqb_neq in Hc. rewrite Hc in H. exact H.
Qed.
End Clauses.

(* state-level readings of the same clauses *)
Theorem order_state pool sch : Forall Proofs.entry pool ->
  let s := run fixed sch (init pool) in
  forall t d w r pv, thr s t (SD6 d (w :: r) pv) ->      (* the walker is about to call w's ctxCancel *)
  forall v, live s v -> ord (heap s) v <= ord (heap s) w.
Proof.
  intros H s t d w r pv Ht v Lv. pose proof (ginv_reachable pool sch H) as G. fold s in G.
  pose proof (g_tinv _ G _ _ Ht) as Hi. simpl in Hi. destruct Hi as [_ [_ [[W1 [W2 W3]] Hpv]]].
  destruct (W2 v Lv) as [A|A]; [|lia]. eapply desc_head; eauto.
Qed.

Theorem wait_all_state pool sch : Forall Proofs.entry pool ->
  let s := run fixed sch (init pool) in
  once s = ODone -> forall v, w_started (gw s v) = true -> w_returned (gw s v) = true.
Proof.
  intros H s Hd. pose proof (ginv_reachable pool sch H) as G. fold s in G. destruct (g_once _ G Hd) as [_ A]. exact A.
Qed.

(* a call that is about to be answered ErrExistingBackgroundWorkerStillRunning / that is about to register name n:
   in the latter case no live worker carries the name *)
Theorem running_name_state pool sch : Forall Proofs.entry pool ->
  let s := run fixed sch (init pool) in
  forall t n o k, thr s t (BW5 n o k) -> forall v, live s v -> w_name (gw s v) <> n.
Proof.
  intros H s t n o k Ht v Lv E. pose proof (ginv_reachable pool sch H) as G. fold s in G.
  pose proof (g_tinv _ G _ _ Ht) as Hi. simpl in Hi. destruct Hi as [_ [_ Fn]].
  apply (g_livereg _ G) in Lv. unfold owns in Lv. rewrite E in Lv. congruence.
Qed.

(* ---- non-vacuity: a schedule with a re-registered name, three workers of orders 5 / 1 / 7, a blocked walker ---- *)
Definition ex_pool : list pc := [BW0 0 5 KFree; BW0 1 1 KOnCancel; ST0 false; SD0; BW0 0 7 KOnCancel].
Definition ex_sched : list (nat * nat) :=
  Proofs.rep 5 0 ++ Proofs.rep 5 1 ++ Proofs.rep 7 2 ++ Proofs.rep 3 5 ++ Proofs.rep 6 4 ++ Proofs.rep 8 3 ++
  Proofs.rep 1 7 ++ Proofs.rep 4 3 ++ Proofs.rep 1 6 ++ Proofs.rep 4 3 ++ Proofs.rep 2 7 ++ Proofs.rep 2 6.
Definition ex_log : list event := log (run fixed ex_sched (init ex_pool)).

Lemma ex_entry : Forall Proofs.entry ex_pool.
Proof. repeat constructor. Qed.

Lemma ex_order :
  let old := [EvReturn 2; EvCancel 2; EvBW 4 ROk; EvStart 2 4 0 7; EvBegin 4 0; EvReturn 0; EvStart 1 1 1 1;
              EvStart 0 0 0 5; EvBW 1 ROk; EvBegin 1 1; EvBW 0 ROk; EvBegin 0 0] in
  ex_log = [EvShutRet 3; EvReturn 1] ++ EvCancel 1 :: old /\ live_in old 1 = true /\
  In (EvStart 2 4 0%nat 7) old /\ order_in old 1 < 7 /\ returned_in old 2 = true.
Proof. vm_compute. intuition. Qed.

Lemma ex_wait_all :
  let old := [EvReturn 1; EvCancel 1; EvReturn 2; EvCancel 2; EvBW 4 ROk; EvStart 2 4 0 7; EvBegin 4 0; EvReturn 0;
              EvStart 1 1 1 1; EvStart 0 0 0 5; EvBW 1 ROk; EvBegin 1 1; EvBW 0 ROk; EvBegin 0 0] in
  ex_log = [] ++ EvShutRet 3 :: old /\ In (EvStart 1 1 1%nat 1) old /\ In (EvStart 2 4 0%nat 7) old /\ In (EvCancel 1) old.
Proof. vm_compute. intuition. Qed.

Lemma ex_running_name :
  let old := [EvStart 2 4 0 7; EvBegin 4 0; EvReturn 0; EvStart 1 1 1 1; EvStart 0 0 0 5; EvBW 1 ROk; EvBegin 1 1;
              EvBW 0 ROk; EvBegin 0 0] in
  ex_log = [EvShutRet 3; EvReturn 1; EvCancel 1; EvReturn 2; EvCancel 2] ++ EvBW 4 ROk :: old /\
  name_of_call old 4 = Some 0%nat /\ In (EvStart 0 0 0%nat 5) old /\ 0%nat <> 4%nat /\ returned_in old 0 = true.
Proof. vm_compute. intuition discriminate. Qed.

(* the refusal itself: the same pool, but the second registration of name 0 arrives while worker 0 is still
   running: it is answered ErrExistingBackgroundWorkerStillRunning *)
Lemma ex_refused :
  let s := run fixed (Proofs.rep 5 0 ++ Proofs.rep 5 1 ++ Proofs.rep 7 2 ++ Proofs.rep 6 4) (init ex_pool) in
  log s = [EvBW 4 RStillRunning; EvBegin 4 0; EvStart 1 1 1 1; EvStart 0 0 0 5; EvBW 1 ROk; EvBegin 1 1; EvBW 0 ROk; EvBegin 0 0].
Proof. vm_compute. reflexivity. Qed.
