(* Correspondence for C20.  Two kinds of cases:
   - CScript: a pool of API calls, a deterministic script (activate a call / let a hooked call make k steps /
     release a free worker body; after each op everything runs to quiescence) and, per op, what the real
     daemon showed (workers whose body was entered / saw its cancel / returned, calls that returned with
     which result).  The model runs the same script and must show the same.
   - CLog: a stamped event history recorded from a free-running execution of the real daemon, with the
     verdict of the Go-side oracle; Coq evaluates [hist_ok] / [run_ok] on it. *)
From Coq Require Import ZArith List Bool.
From Verif.C20_Daemon Require Import Model.
Import ListNotations.

Inductive call := CBW (n : nat) (o : Z) (k : kind) | CStart | CRun | CShut (sync : bool).
Definition pc_of_call (c : call) : pc :=
  match c with CBW n o k => BW0 n o k | CStart => ST0 false | CRun => ST0 true | CShut _ => SD0 end.

Inductive op := OGo (t : nat) | OSteps (t k : nat) | ORelease (t : nat).

Record obs := mkObs { o_starts : list nat; o_cancels : list nat; o_returns : list nat; o_rets : list (nat * nat) }.

Inductive case :=
| CScript (pool : list call) (ops : list op) (seen : list obs)
| CLog (l : list event) (hist_verdict run_verdict : bool).

Definition mem_nat (x : nat) (l : list nat) : bool := existsb (Nat.eqb x) l.
Definition is_worker_pc (p : pc) : bool := match p with WB _ | WC _ | WU _ => true | _ => false end.
Definition is_free_body (s : st) (p : pc) : bool :=
  match p with WB w => match w_kind (getw (heap s) w) with KFree => true | KOnCancel => false end | _ => false end.

Fixpoint pick (c : cfg) (s : st) (active : list nat) (t : nat) (ps : list pc) : option st :=
  match ps with
  | [] => None
  | p :: r =>
      if (is_worker_pc p || mem_nat t active) && negb (is_free_body s p) then
        match step c s t 0 with Some s' => Some s' | None => pick c s active (S t) r end
      else pick c s active (S t) r
  end.
Fixpoint quiesce (c : cfg) (fuel : nat) (s : st) (active : list nat) : st :=
  match fuel with
  | O => s
  | S f => match pick c s active 0 (threads s) with None => s | Some s' => quiesce c f s' active end
  end.

Fixpoint steps (c : cfg) (k : nat) (s : st) (t : nat) : st :=
  match k with O => s | S j => steps c j (step_or_skip c s (t, O)) t end.

Fixpoint find_body (s : st) (t : nat) (i : nat) (ps : list pc) : option nat :=
  match ps with
  | [] => None
  | WB w :: r => if Nat.eqb (w_tid (getw (heap s) w)) t then Some i else find_body s t (S i) r
  | _ :: r => find_body s t (S i) r
  end.

Definition fuel := 400%nat.
Definition do_op (c : cfg) (sa : st * list nat) (o : op) : st * list nat :=
  let '(s, active) := sa in
  match o with
  | OGo t => (quiesce c fuel s (t :: active) , t :: active)
  | OSteps t k => (quiesce c fuel (steps c k s t) active, active)
  | ORelease t =>
      match find_body s t 0 (threads s) with
      | Some i => (quiesce c fuel (step_or_skip c s (i, O)) active, active)
      | None => (s, active)
      end
  end.

(* ---- projection of the new part of the log ---- *)
Fixpoint insert_nat (x : nat) (l : list nat) : list nat :=
  match l with [] => [x] | y :: r => if Nat.leb x y then x :: l else y :: insert_nat x r end.
Definition sort_nat (l : list nat) : list nat := fold_right insert_nat [] l.
Fixpoint insert_pr (x : nat * nat) (l : list (nat * nat)) : list (nat * nat) :=
  match l with [] => [x] | y :: r => if Nat.leb (fst x) (fst y) then x :: l else y :: insert_pr x r end.
Definition sort_pr (l : list (nat * nat)) : list (nat * nat) := fold_right insert_pr [] l.

Definition code (r : result) : nat :=
  match r with ROk => 0 | RStopped => 1 | RDup => 2 | RStillRunning => 3 end%nat.
Definition is_sync (pool : list call) (t : nat) : bool :=
  match nth_error pool t with Some (CShut true) => true | _ => false end.

(* new = the k newest events of l *)
Fixpoint project (pool : list call) (h : list worker) (k : nat) (l : list event) (acc : obs) : obs :=
  match k, l with
  | S j, e :: old =>
      let acc' :=
        match e with
        | EvStart w _ _ _ => mkObs (w_tid (getw h w) :: o_starts acc) (o_cancels acc) (o_returns acc) (o_rets acc)
        | EvCancel w => if live_in old w
                        then mkObs (o_starts acc) (w_tid (getw h w) :: o_cancels acc) (o_returns acc) (o_rets acc)
                        else acc
        | EvReturn w => mkObs (o_starts acc) (o_cancels acc) (w_tid (getw h w) :: o_returns acc) (o_rets acc)
        | EvBW t r => mkObs (o_starts acc) (o_cancels acc) (o_returns acc) ((t, code r) :: o_rets acc)
        | EvShutRet t => if is_sync pool t
                         then mkObs (o_starts acc) (o_cancels acc) (o_returns acc) ((t, 4%nat) :: o_rets acc) else acc
        | EvRunRet t => mkObs (o_starts acc) (o_cancels acc) (o_returns acc) ((t, 5%nat) :: o_rets acc)
        | EvBegin _ _ => acc
        end in
      project pool h j old acc'
  | _, _ => acc
  end.
Definition norm (o : obs) : obs :=
  mkObs (sort_nat (o_starts o)) (sort_nat (o_cancels o)) (sort_nat (o_returns o)) (sort_pr (o_rets o)).

Fixpoint run_script (c : cfg) (pool : list call) (sa : st * list nat) (ops : list op) : list obs :=
  match ops with
  | [] => []
  | o :: r =>
      let sa' := do_op c sa o in
      let k := (length (log (fst sa')) - length (log (fst sa)))%nat in
      norm (project pool (heap (fst sa')) k (log (fst sa')) (mkObs [] [] [] [])) :: run_script c pool sa' r
  end.
Definition model_obs (c : cfg) (pool : list call) (ops : list op) : list obs :=
  run_script c pool (init (map pc_of_call pool), []) ops.

Fixpoint list_eqb {A} (eq : A -> A -> bool) (a b : list A) : bool :=
  match a, b with [] , [] => true | x :: a', y :: b' => eq x y && list_eqb eq a' b' | _, _ => false end.
Definition pr_eqb (a b : nat * nat) : bool := Nat.eqb (fst a) (fst b) && Nat.eqb (snd a) (snd b).
Definition obs_eqb (a b : obs) : bool :=
  list_eqb Nat.eqb (o_starts a) (o_starts b) && list_eqb Nat.eqb (o_cancels a) (o_cancels b) &&
  list_eqb Nat.eqb (o_returns a) (o_returns b) && list_eqb pr_eqb (o_rets a) (o_rets b).

Definition agree (c : case) : bool :=
  match c with
  | CScript pool ops seen => list_eqb obs_eqb (model_obs fixed pool ops) (map norm seen)
  | CLog l hv rv => Bool.eqb (hist_ok l) hv && Bool.eqb (run_ok l) rv
  end.

Fixpoint mismatches_from (i : nat) (cs : list case) : list nat :=
  match cs with
  | [] => []
  | c :: r => if agree c then mismatches_from (S i) r else i :: mismatches_from (S i) r
  end.
Definition mismatches (cs : list case) : list nat := mismatches_from 0 cs.
