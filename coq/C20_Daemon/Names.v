(* C20 - every BackgroundWorker return in a reachable log is preceded by that call's begin event (so the name the
   call registers is determined by the log); used to state the "running name is refused" clause without a side
   premise. *)
From Coq Require Import ZArith List Bool Lia.
From Verif.C20_Daemon Require Import Model Base Inv Frame Preserve Hist Preserve2 Full.
Import ListNotations.
Open Scope Z_scope.

Definition has_name (l : list event) (t : nat) : bool :=
  match name_of_call l t with Some _ => true | None => false end.
Fixpoint begun_ok (l : list event) : bool :=
  match l with
  | [] => true
  | EvBW t _ :: old => has_name old t && begun_ok old
  | _ :: old => begun_ok old
  end.

Lemma begun_step s t ch s' : ginv s -> begun_ok (log s) = true -> step fixed s t ch = Some s' -> begun_ok (log s') = true.
Proof.
  intros G B H. unfold step in H. destruct (crashed s); [discriminate|].
  destruct (nth_error (threads s) t) as [p|] eqn:Ht; [|discriminate].
  change (thr s t p) in Ht. pose proof (g_tinv _ G _ _ Ht) as Hi.
  destruct p; simpl in Hi; cbv zeta in H; cbn [cfg_bw_recheck cfg_start_sync fixed andb] in H;
  repeat match type of H with
         | (if ?b then _ else _) = _ => destruct b
         | match ?x with _ => _ end = _ => destruct x
         end;
  try discriminate; inversion H; subst; clear H; unfold after_start, has_name; simpl; unfold has_name; simpl;
  rewrite ?Nat.eqb_refl; simpl; auto;
  try (unfold incall in Hi; decompose [and] Hi; match goal with I : name_of_call _ _ = Some _ |- _ => rewrite I end; simpl; auto).
  all: try (match goal with r : bool |- _ => destruct r; simpl; auto; fail end).
  all: try (destruct (mem_z o (wgmap s)); simpl; auto;
            unfold incall in Hi; decompose [and] Hi; match goal with I : name_of_call _ _ = Some _ |- _ => rewrite I end; simpl; auto).
Qed.

Lemma begun_run sch : forall s, ginv s -> begun_ok (log s) = true -> begun_ok (log (run fixed sch s)) = true.
Proof.
  induction sch as [|[t ch] sch IH]; simpl; auto. intros s G B.
  unfold step_or_skip. simpl. destruct (step fixed s t ch) eqn:E; auto.
  apply IH. eapply ginv_step; eauto. eapply begun_step; eauto.
Qed.

Lemma begun_split newer t r old : begun_ok (newer ++ EvBW t r :: old) = true -> exists n, name_of_call old t = Some n.
Proof.
  induction newer as [|x newer IH]; simpl.
  - intros H. apply andb_true_iff in H. destruct H as [H _]. unfold has_name in H.
    destruct (name_of_call old t); [eauto|discriminate].
  - destruct x; auto. intros H. apply andb_true_iff in H. destruct H; auto.
Qed.

(* (c), without side premise: a BackgroundWorker call that returns nil has begun with some name n, and every started
   worker of that name registered by another call has returned *)
Theorem running_name_refused_named pool sch : Forall Proofs.entry pool ->
  forall newer t old, log (run fixed sch (init pool)) = newer ++ EvBW t ROk :: old ->
  exists n, name_of_call old t = Some n /\
    forall v c o, In (EvStart v c n o) old -> c <> t -> returned_in old v = true.
Proof.
  intros Hp newer t old E.
  assert (B : begun_ok (log (run fixed sch (init pool))) = true).
  { apply begun_run. apply ginv_init; auto. reflexivity. }
  rewrite E in B. destruct (begun_split _ _ _ _ B) as [n Hn]. exists n. split; auto.
  eapply running_name_refused; eauto.
Qed.
