(* C20 - the inductive invariant of the interleaving model (configuration [fixed]). *)
From Coq Require Import ZArith List Bool Lia Sorting.Sorted.
From Verif.C20_Daemon Require Import Model Base.
Import ListNotations.
Open Scope Z_scope.

Definition gw (s : st) (v : nat) : worker := getw (heap s) v.
Definition started (s : st) v : Prop := w_started (gw s v) = true.
Definition live (s : st) v : Prop := livew (gw s v) = true.
Definition alldone (s : st) : Prop := forall v, started s v -> w_returned (gw s v) = true.

Definition late (p : pc) : bool :=
  match p with SD3 | SD4 _ _ _ | SD5 _ _ _ | SD6 _ _ _ | SD7 _ | SD8 | SD9 | SD10 => true | _ => false end.
Definition sdact (p : pc) : bool := match p with SD1 | SD2 => true | _ => late p end.
Definition holds (p : pc) : bool :=
  match p with
  | BW2 _ _ _ | BW3 _ _ _ | BW4 _ _ _ _ | BW5 _ _ _ | BW6 _ | ST2 _ | ST3 _ | ST4 _ _ => true
  | _ => false
  end.
Definition wpc (p : pc) : option nat := match p with WB w | WC w | WU w => Some w | _ => None end.

Definition thr (s : st) (t : nat) (p : pc) : Prop := nth_error (threads s) t = Some p.
Definition nolateL (l : list pc) : Prop := forall t p, nth_error l t = Some p -> late p = false.
Definition nolate (s : st) : Prop := nolateL (threads s).

Definition insec_ok (s : st) (t : nat) : Prop := lock s = Some t /\ nolate s /\ once s <> ODone.
Definition walk (s : st) (td : list nat) (pv : Z) : Prop :=
  desc (heap s) td /\ (forall v, live s v -> In v td \/ ord (heap s) v = pv) /\ (forall v, In v td -> ord (heap s) v <= pv).
Definition owns (s : st) (w : nat) : Prop := reg_find (w_name (gw s w)) (reg s) = Some w.
Definition fresh (s : st) (w : nat) : Prop := (w < length (heap s))%nat /\ w_started (gw s w) = false /\ owns s w.
Definition incall (s : st) (t n : nat) : Prop :=
  begun_after_shut (log s) t = false /\ name_of_call (log s) t = Some n.

Definition tinv (s : st) (t : nat) (p : pc) : Prop :=
  match p with
  | BW0 _ _ _ => True
  | BW1 n _ _ => incall s t n
  | BW2 n _ _ => lock s = Some t /\ incall s t n
  | BW3 n _ _ => insec_ok s t /\ incall s t n
  | BW4 n _ _ ex => insec_ok s t /\ incall s t n /\ reg_find n (reg s) = Some ex
  | BW5 n _ _ => insec_ok s t /\ incall s t n /\ reg_find n (reg s) = None
  | BW6 w => insec_ok s t /\ incall s t (w_name (gw s w)) /\ running s = true /\ fresh s w /\ w_tid (gw s w) = t
  | ST0 _ | ST1 _ => True
  | ST2 _ => lock s = Some t
  | ST3 _ => insec_ok s t
  | ST4 _ todo => insec_ok s t /\ running s = true /\ NoDup todo /\ (forall w, In w todo -> fresh s w)
  | RW0 | RW1 _ => True
  | SD0 => True
  | SD1 => once s = OBusy
  | SD2 | SD3 => once s = OBusy /\ stopped s = true
  | SD4 _ td pv | SD5 _ td pv => once s = OBusy /\ stopped s = true /\ walk s td pv
  | SD6 _ td pv => once s = OBusy /\ stopped s = true /\ walk s td pv /\
                   match td with w :: _ => pv <= ord (heap s) w | [] => True end
  | SD7 pv => once s = OBusy /\ stopped s = true /\ (forall v, live s v -> ord (heap s) v = pv)
  | SD8 | SD9 | SD10 => once s = OBusy /\ stopped s = true /\ alldone s
  | WB w => live s w /\ w_flag (gw s w) = true /\ (stopped s = false -> owns s w)
  | WC w => w_returned (gw s w) = true /\ w_flag (gw s w) = true /\ (stopped s = false -> owns s w)
  | WU w => w_returned (gw s w) = true /\ w_flag (gw s w) = true
  | Fin => True
  end.

Record ginv (s : st) : Prop := mkG {
  g_lock : forall t, lock s = Some t -> exists p, thr s t p /\ holds p = true;
  g_once : once s = ODone -> stopped s = true /\ alldone s;
  g_oncefree : once s = OFree -> forall t p, thr s t p -> sdact p = false;
  g_sduniq : forall t1 t2 p1 p2, thr s t1 p1 -> thr s t2 p2 -> sdact p1 = true -> sdact p2 = true -> t1 = t2;
  g_run : running s = false -> alldone s;
  g_nostart : nolate s -> once s <> ODone -> running s = false -> forall v, w_started (gw s v) = false;
  g_cnt : forall o, wg_get o (wgcnt s) = cnt o (heap s);
  g_flag : forall v, live s v -> w_flag (gw s v) = true;
  g_retst : forall v, w_returned (gw s v) = true -> w_started (gw s v) = true;
  g_regsorted : desc (heap s) (map snd (reg s));
  g_regnd1 : NoDup (map fst (reg s));
  g_regnd2 : NoDup (map snd (reg s));
  g_regwf : forall n w, In (n, w) (reg s) -> (w < length (heap s))%nat /\ w_name (gw s w) = n;
  g_livereg : forall v, live s v -> owns s v;
  g_wuniq : forall t1 t2 p1 p2 w, thr s t1 p1 -> thr s t2 p2 -> wpc p1 = Some w -> wpc p2 = Some w -> t1 = t2;
  g_l1 : forall v c n o, In (EvStart v c n o) (log s) ->
         w_started (gw s v) = true /\ w_name (gw s v) = n /\ w_order (gw s v) = o;
  g_l2 : forall v, w_returned (gw s v) = true -> returned_in (log s) v = true;
  g_l4 : shut_in (log s) = true -> once s = ODone;
  g_hist : hist_ok (log s) = true;
  g_tinv : forall t p, thr s t p -> tinv s t p
}.

(* ---- thread-list lemmas ---- *)
Lemma thr_upd (l : list pc) t p' t' q :
  nth_error (upd l t (fun _ => p')) t' = Some q ->
  (t' = t /\ q = p') \/ (t' <> t /\ nth_error l t' = Some q).
Proof.
  rewrite nth_error_upd. destruct (Nat.eqb t' t) eqn:E.
  - apply Nat.eqb_eq in E. destruct (nth_error l t'); simpl; intros H; inversion H; auto.
  - apply Nat.eqb_neq in E. auto.
Qed.
Lemma thr_upd_snoc (l : list pc) t p' x t' q :
  nth_error (upd l t (fun _ => p') ++ [x]) t' = Some q ->
  (t' = t /\ q = p') \/ (t' <> t /\ nth_error l t' = Some q) \/ (t' = length l /\ q = x).
Proof.
  intros H. apply nth_error_app_snoc in H. destruct H as [H|[H1 H2]].
  - apply thr_upd in H. tauto.
  - rewrite length_upd in H1. auto.
Qed.
Lemma nolateL_upd l t p' : nolateL l -> late p' = false -> nolateL (upd l t (fun _ => p')).
Proof. intros H Hp t' q Hq. apply thr_upd in Hq. destruct Hq as [[_ ->]|[_ Hq]]; eauto. Qed.
Lemma nolateL_snoc l w : nolateL l -> nolateL (l ++ [WB w]).
Proof. intros H t' q Hq. apply nth_error_app_snoc in Hq. destruct Hq as [Hq|[_ ->]]; eauto. Qed.
Lemma nolateL_has l t p : nolateL l -> nth_error l t = Some p -> late p = true -> False.
Proof. intros H H1 H2. rewrite (H _ _ H1) in H2. discriminate. Qed.

(* ---- log lemmas ---- *)
Lemma incall_cons s_log e t n :
  (forall m, e <> EvBegin t m) ->
  begun_after_shut s_log t = false /\ name_of_call s_log t = Some n ->
  begun_after_shut (e :: s_log) t = false /\ name_of_call (e :: s_log) t = Some n.
Proof.
  intros He [H1 H2]. destruct e; simpl; auto.
  destruct (Nat.eqb t t0) eqn:E; auto. apply Nat.eqb_eq in E. subst. exfalso. eapply He; eauto.
Qed.

(* worker-record updates used by the model keep name, order and registering call *)
Definition keeps (f : worker -> worker) : Prop :=
  forall x, w_name (f x) = w_name x /\ w_order (f x) = w_order x /\ w_tid (f x) = w_tid x.
Lemma ord_upd h i f v : keeps f -> ord (upd h i f) v = ord h v.
Proof. intros K. unfold ord. rewrite getw_upd. destruct (_ && _); auto. apply K. Qed.
Lemma name_upd h i f v : keeps f -> w_name (getw (upd h i f) v) = w_name (getw h v).
Proof. intros K. rewrite getw_upd. destruct (_ && _); auto. apply K. Qed.
Lemma desc_upd h i f l : keeps f -> desc h l -> desc (upd h i f) l.
Proof. intros K. apply desc_ext. intros. apply ord_upd; auto. Qed.
