(* C20 - frame lemmas: how the thread-indexed parts of the invariant survive a step of another thread. *)
From Coq Require Import ZArith List Bool Lia Sorting.Sorted.
From Verif.C20_Daemon Require Import Model Base Inv.
Import ListNotations.
Open Scope Z_scope.

Ltac unf := unfold insec_ok, walk, owns, fresh, incall, alldone, started, live, nolate, thr, gw in *.

(* uniqueness / lock-holder facts under a pc update of thread t *)
Lemma lock_upd (l : list pc) lk lk' t p p' :
  nth_error l t = Some p ->
  (forall t0, lk = Some t0 -> exists q, nth_error l t0 = Some q /\ holds q = true) ->
  ((lk' = lk /\ (lk = Some t -> holds p' = true)) \/ (lk' = Some t /\ holds p' = true) \/ lk' = None) ->
  forall t0, lk' = Some t0 -> exists q, nth_error (upd l t (fun _ => p')) t0 = Some q /\ holds q = true.
Proof.
  intros Ht H Hc t0 H0. rewrite nth_error_upd.
  destruct Hc as [[E Hh]|[[E Hh]|E]]; subst lk'; try discriminate.
  - destruct (Nat.eqb t0 t) eqn:E.
    + apply Nat.eqb_eq in E; subst. rewrite Ht. simpl. eauto.
    + auto.
  - inversion H0; subst. rewrite Nat.eqb_refl, Ht. simpl. eauto.
Qed.

Lemma sduniq_upd (l : list pc) t p p' :
  nth_error l t = Some p ->
  (forall t1 t2 p1 p2, nth_error l t1 = Some p1 -> nth_error l t2 = Some p2 -> sdact p1 = true -> sdact p2 = true -> t1 = t2) ->
  (sdact p' = true -> sdact p = true \/ forall t0 q, nth_error l t0 = Some q -> sdact q = false) ->
  forall t1 t2 p1 p2, nth_error (upd l t (fun _ => p')) t1 = Some p1 -> nth_error (upd l t (fun _ => p')) t2 = Some p2 ->
     sdact p1 = true -> sdact p2 = true -> t1 = t2.
Proof.
  intros Ht U Hc t1 t2 p1 p2 H1 H2 S1 S2.
  apply thr_upd in H1. apply thr_upd in H2.
  destruct H1 as [[-> ->]|[N1 H1]], H2 as [[-> ->]|[N2 H2]]; auto.
  - destruct (Hc S1) as [Hp|Hn]. eapply U; eauto. rewrite (Hn _ _ H2) in S2. discriminate.
  - destruct (Hc S2) as [Hp|Hn]. eapply U; eauto. rewrite (Hn _ _ H1) in S1. discriminate.
  - eapply U; eauto.
Qed.

Lemma wuniq_upd (l : list pc) t p p' :
  nth_error l t = Some p ->
  (forall t1 t2 p1 p2 w, nth_error l t1 = Some p1 -> nth_error l t2 = Some p2 -> wpc p1 = Some w -> wpc p2 = Some w -> t1 = t2) ->
  (wpc p' = None \/ wpc p' = wpc p) ->
  forall t1 t2 p1 p2 w, nth_error (upd l t (fun _ => p')) t1 = Some p1 -> nth_error (upd l t (fun _ => p')) t2 = Some p2 ->
     wpc p1 = Some w -> wpc p2 = Some w -> t1 = t2.
Proof.
  intros Ht U Hc t1 t2 p1 p2 w H1 H2 S1 S2.
  apply thr_upd in H1. apply thr_upd in H2.
  destruct H1 as [[-> ->]|[N1 H1]], H2 as [[-> ->]|[N2 H2]]; auto.
  - destruct Hc as [Hc|Hc]; [congruence|]. rewrite Hc in S1. eapply U; eauto.
  - destruct Hc as [Hc|Hc]; [congruence|]. rewrite Hc in S2. eapply U; eauto.
  - eapply U; eauto.
Qed.

Lemma wuniq_spawn (l : list pc) t p p' w :
  nth_error l t = Some p ->
  (forall t1 t2 p1 p2 w, nth_error l t1 = Some p1 -> nth_error l t2 = Some p2 -> wpc p1 = Some w -> wpc p2 = Some w -> t1 = t2) ->
  wpc p' = None ->
  (forall t0 q, nth_error l t0 = Some q -> wpc q <> Some w) ->
  forall t1 t2 p1 p2 w0, nth_error (upd l t (fun _ => p') ++ [WB w]) t1 = Some p1 ->
     nth_error (upd l t (fun _ => p') ++ [WB w]) t2 = Some p2 -> wpc p1 = Some w0 -> wpc p2 = Some w0 -> t1 = t2.
Proof.
  intros Ht U Hc Hn t1 t2 p1 p2 w0 H1 H2 S1 S2.
  apply thr_upd_snoc in H1. apply thr_upd_snoc in H2.
  destruct H1 as [[-> ->]|[[N1 H1]|[-> ->]]], H2 as [[-> ->]|[[N2 H2]|[-> ->]]]; auto; try congruence.
  - eapply U; eauto.
  - simpl in S2. inversion S2; subst. exfalso. eapply Hn; eauto.
  - simpl in S1. inversion S1; subst. exfalso. eapply Hn; eauto.
Qed.

(* A step of thread t that leaves heap, reg, once, running, stopped alone. *)
Definition quiet (t : nat) (e : event) : Prop :=
  match e with
  | EvStart _ _ _ _ | EvReturn _ | EvShutRet _ | EvCancel _ => False
  | EvBegin t' _ => t' = t
  | _ => True
  end.

Lemma incall_app es l t n : Forall (fun e => forall m, e <> EvBegin t m) es ->
  begun_after_shut l t = false /\ name_of_call l t = Some n ->
  begun_after_shut (es ++ l) t = false /\ name_of_call (es ++ l) t = Some n.
Proof. induction 1; simpl; auto. intros. apply incall_cons; auto. Qed.

Lemma others_frame s s' t p' es :
  heap s' = heap s -> reg s' = reg s -> once s' = once s -> running s' = running s -> stopped s' = stopped s ->
  threads s' = upd (threads s) t (fun _ => p') ->
  (forall t', t' <> t -> lock s = Some t' -> lock s' = Some t') ->
  (forall t', t' <> t -> lock s = Some t' -> nolate s -> nolate s') ->
  log s' = es ++ log s -> Forall (quiet t) es ->
  forall t' q, t' <> t -> thr s t' q -> tinv s t' q -> tinv s' t' q.
Proof.
  intros Hh Hr Ho Hrun Hst Hth Hlk Hnl Hlog Hq' t' q Hne Hq Hi.
  assert (IC : forall n, incall s t' n -> incall s' t' n).
  { intros n Hn. unfold incall in *. rewrite Hlog. apply incall_app; auto.
    eapply Forall_impl; [|exact Hq']. intros e He m ->. simpl in He. auto. }
  assert (IS : insec_ok s t' -> insec_ok s' t').
  { unfold insec_ok. intros [L [N O]]. rewrite Ho. repeat split; auto. eapply Hnl; eauto. }
  assert (FR : forall w, fresh s w -> fresh s' w).
  { intros w. unfold fresh, owns, gw. rewrite Hh, Hr. auto. }
  destruct q; simpl in *; unfold walk, alldone, started, live, owns, gw in *; rewrite ?Hh, ?Hr, ?Ho, ?Hrun, ?Hst; intuition.
Qed.

(* what a worker goroutine's own invariant reads of its worker object *)
Definition samew (x y : worker) : Prop :=
  w_started x = w_started y /\ w_returned x = w_returned y /\ w_flag x = w_flag y.
Lemma samew_refl x : samew x x.
Proof. unfold samew; auto. Qed.

(* General rely lemma for a step of thread t without spawn: what each class of other threads needs. *)
Lemma others_gen s s' t :
  (forall t', t' <> t -> lock s = Some t' -> lock s' = Some t') ->
  (forall t', t' <> t -> lock s = Some t' -> nolate s -> once s <> ODone ->
     nolate s' /\ once s' <> ODone /\ reg s' = reg s /\ (running s = true -> running s' = true) /\
     (forall w, fresh s w -> fresh s' w) /\ (forall w, w_name (gw s' w) = w_name (gw s w) /\ w_tid (gw s' w) = w_tid (gw s w))) ->
  (forall t' n, t' <> t -> incall s t' n -> incall s' t' n) ->
  (forall t' q, t' <> t -> thr s t' q -> sdact q = true -> once s = OBusy -> once s' = OBusy) ->
  (stopped s = true -> stopped s' = true) ->
  (forall t' q, t' <> t -> thr s t' q -> late q = true ->
     (forall v, ord (heap s') v = ord (heap s) v) /\ (forall v, live s' v -> live s v) /\ (alldone s -> alldone s')) ->
  (forall t' w q, t' <> t -> thr s t' q -> wpc q = Some w ->
     samew (gw s' w) (gw s w) /\ (stopped s' = false -> owns s w -> owns s' w)) ->
  forall t' q, t' <> t -> thr s t' q -> tinv s t' q -> tinv s' t' q.
Proof.
  intros Hlk Hsec Hic Hsd Hst Hlate Hw t' q Hne Hq Hi.
  assert (IS : insec_ok s t' -> insec_ok s' t' /\ reg s' = reg s /\ (running s = true -> running s' = true) /\
     (forall w, fresh s w -> fresh s' w) /\ (forall w, w_name (gw s' w) = w_name (gw s w) /\ w_tid (gw s' w) = w_tid (gw s w))).
  { unfold insec_ok. intros [L [N O]]. destruct (Hsec _ Hne L N O) as [A [B [C [D [E F]]]]].
    exact (conj (conj (Hlk _ Hne L) (conj A B)) (conj C (conj D (conj E F)))). }
  assert (WK : late q = true -> forall td pv, walk s td pv -> walk s' td pv).
  { intros Lq td pv [W1 [W2 W3]]. destruct (Hlate _ _ Hne Hq Lq) as [A [B C]]. repeat split.
    - eapply desc_ext; [|exact W1]. intros; apply A.
    - intros v Hv. rewrite A. apply W2. apply B. exact Hv.
    - intros v Hv. rewrite A. auto. }
  destruct q; simpl in Hi |- *.
  - exact I.
  - eapply Hic; eauto.
  - destruct Hi; split; eauto.
  - destruct Hi as [A B]. destruct (IS A) as [A' _]. split; eauto.
  - destruct Hi as [A [B C]]. destruct (IS A) as [A' [R _]]. rewrite R. split; [exact A'|]. split; [eauto|exact C].
  - destruct Hi as [A [B C]]. destruct (IS A) as [A' [R _]]. rewrite R. split; [exact A'|]. split; [eauto|exact C].
  - destruct Hi as [A [B [C [D E]]]]. destruct (IS A) as [A' [R [Ru [F N]]]]. rewrite (proj1 (N w)), (proj2 (N w)).
    split; [exact A'|]. split; [eauto|]. split; [auto|]. split; [apply F; auto|exact E].
  - exact I.
  - exact I.
  - eauto.
  - destruct (IS Hi) as [A' _]. auto.
  - destruct Hi as [A [B [C D]]]. destruct (IS A) as [A' [R [Ru [F N]]]].
    split; [exact A'|]. split; [auto|]. split; [auto|]. intros w Hw'. apply F; auto.
  - exact I.
  - exact I.
  - exact I.
  - eapply Hsd; eauto.
  - destruct Hi; split; [eapply Hsd; eauto|auto].
  - destruct Hi; split; [eapply Hsd; eauto|auto].
  - destruct Hi as [A [B C]]. split; [eapply Hsd; eauto|]. split; [auto|]. apply WK; auto.
  - destruct Hi as [A [B C]]. split; [eapply Hsd; eauto|]. split; [auto|]. apply WK; auto.
  - destruct Hi as [A [B [C D]]]. split; [eapply Hsd; eauto|]. split; [auto|]. split; [apply WK; auto|].
    destruct todo; auto. destruct (Hlate _ _ Hne Hq eq_refl) as [E _]. rewrite E. auto.
  - destruct Hi as [A [B C]]. destruct (Hlate _ _ Hne Hq eq_refl) as [E [F _]].
    split; [eapply Hsd; eauto|]. split; [auto|]. intros v Hv. rewrite E. auto.
  - destruct Hi as [A [B C]]. destruct (Hlate _ _ Hne Hq eq_refl) as [E [F K]].
    split; [eapply Hsd; eauto|]. split; auto.
  - destruct Hi as [A [B C]]. destruct (Hlate _ _ Hne Hq eq_refl) as [E [F K]].
    split; [eapply Hsd; eauto|]. split; auto.
  - destruct Hi as [A [B C]]. destruct (Hlate _ _ Hne Hq eq_refl) as [E [F K]].
    split; [eapply Hsd; eauto|]. split; auto.
  - destruct Hi as [A [B C]]. destruct (Hw _ w _ Hne Hq eq_refl) as [[E1 [E2 E3]] F]. unfold live, livew in *. rewrite E1, E2, E3.
    split; [exact A|]. split; [exact B|].
    intros S'. apply F; auto. apply C. destruct (stopped s) eqn:Es; auto. rewrite (Hst eq_refl) in S'. discriminate.
  - destruct Hi as [A [B C]]. destruct (Hw _ w _ Hne Hq eq_refl) as [[E1 [E2 E3]] F]. rewrite E2, E3.
    split; [exact A|]. split; [exact B|].
    intros S'. apply F; auto. apply C. destruct (stopped s) eqn:Es; auto. rewrite (Hst eq_refl) in S'. discriminate.
  - destruct Hi as [A B]. destruct (Hw _ w _ Hne Hq eq_refl) as [[E1 [E2 E3]] F]. rewrite E2, E3. auto.
  - exact I.
Qed.
