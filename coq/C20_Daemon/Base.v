(* C20 - list / wait-group / registry lemmas used by the invariant proof. *)
From Coq Require Import ZArith List Bool Lia Sorting.Sorted.
From Verif.C20_Daemon Require Import Model.
Import ListNotations.
Open Scope Z_scope.

(* ---- upd / nth ---- *)
Lemma length_upd {A} (l : list A) i f : length (upd l i f) = length l.
Proof. revert i; induction l; destruct i; simpl; auto. Qed.

Lemma nth_error_upd {A} (l : list A) i f j :
  nth_error (upd l i f) j = if Nat.eqb j i then option_map f (nth_error l j) else nth_error l j.
Proof.
  revert i j; induction l; intros [|i] [|j]; simpl; auto.
  destruct (Nat.eqb j i); auto.
Qed.

Lemma nth_upd {A} (l : list A) i f j d :
  nth j (upd l i f) d = if Nat.eqb j i && Nat.ltb i (length l) then f (nth j l d) else nth j l d.
Proof.
  revert i j; induction l; intros [|i] [|j]; simpl; auto.
  - destruct (Nat.eqb j i); auto.
  - rewrite IHl. reflexivity.
Qed.

Lemma getw_upd h i f v :
  getw (upd h i f) v = if Nat.eqb v i && Nat.ltb i (length h) then f (getw h v) else getw h v.
Proof. unfold getw. apply nth_upd. Qed.

Lemma getw_app_old h x v : (v < length h)%nat -> getw (h ++ [x]) v = getw h v.
Proof. intros. unfold getw. apply app_nth1; auto. Qed.
Lemma getw_app_new h x : getw (h ++ [x]) (length h) = x.
Proof. unfold getw. rewrite app_nth2, Nat.sub_diag; auto. Qed.
Lemma getw_out h v : (length h <= v)%nat -> getw h v = dflt_w.
Proof. intros. unfold getw. apply nth_overflow; auto. Qed.

Lemma nth_error_app_snoc {A} (l : list A) x j q :
  nth_error (l ++ [x]) j = Some q -> nth_error l j = Some q \/ (j = length l /\ q = x).
Proof.
  intros H. destruct (Nat.lt_ge_cases j (length l)).
  - rewrite nth_error_app1 in H; auto.
  - rewrite nth_error_app2 in H; auto. right.
    destruct (j - length l)%nat eqn:E; simpl in H.
    + inversion H; split; auto; lia.
    + destruct n; discriminate.
Qed.
Lemma nth_error_snoc_old {A} (l : list A) x j q : nth_error l j = Some q -> nth_error (l ++ [x]) j = Some q.
Proof. intros. rewrite nth_error_app1; auto. apply nth_error_Some. congruence. Qed.

(* ---- wait groups ---- *)
Lemma wg_get_add o o' l : wg_get o (wg_add o' l) = if o =? o' then S (wg_get o l) else wg_get o l.
Proof.
  induction l as [|[a c] l IH]; simpl.
  - destruct (o =? o'); auto.
  - destruct (o' =? a) eqn:E1; simpl.
    + apply Z.eqb_eq in E1; subst. destruct (o =? a); auto.
    + destruct (o =? a) eqn:E2; auto.
      apply Z.eqb_eq in E2; subst. rewrite Z.eqb_sym, E1. reflexivity.
Qed.
Lemma wg_get_done o o' l : wg_get o (wg_done o' l) = if o =? o' then pred (wg_get o l) else wg_get o l.
Proof.
  induction l as [|[a c] l IH]; simpl.
  - destruct (o =? o'); auto.
  - destruct (o' =? a) eqn:E1; simpl.
    + apply Z.eqb_eq in E1; subst. destruct (o =? a); auto.
    + destruct (o =? a) eqn:E2; auto.
      apply Z.eqb_eq in E2; subst. rewrite Z.eqb_sym, E1. reflexivity.
Qed.

(* ---- counting live workers of an order ---- *)
Definition livew (w : worker) : bool := w_started w && negb (w_returned w).
Definition bo (o : Z) (w : worker) : bool := livew w && (w_order w =? o).
Definition cnt (o : Z) (h : list worker) : nat := length (filter (bo o) h).
Definition b2n (b : bool) : nat := if b then 1%nat else 0%nat.

Lemma cnt_app o h x : cnt o (h ++ [x]) = (cnt o h + b2n (bo o x))%nat.
Proof. unfold cnt. rewrite filter_app, app_length. simpl. destruct (bo o x); auto. Qed.

Lemma cnt_upd o h i f : (i < length h)%nat ->
  (cnt o (upd h i f) + b2n (bo o (getw h i)) = cnt o h + b2n (bo o (f (getw h i))))%nat.
Proof.
  unfold cnt. revert i; induction h as [|a h IH]; intros i Hi; simpl in *; [lia|].
  destruct i; simpl.
  - unfold getw; simpl. destruct (bo o a); destruct (bo o (f a)); simpl; lia.
  - specialize (IH i ltac:(lia)). unfold getw in *; simpl. destruct (bo o a); simpl; lia.
Qed.

Lemma cnt_zero o h v : cnt o h = O -> (v < length h)%nat -> livew (getw h v) = true -> w_order (getw h v) = o -> False.
Proof.
  unfold cnt. intros H Hv Hl Ho.
  assert (In (getw h v) (filter (bo o) h)).
  { apply filter_In. split. apply nth_In; auto. unfold bo. rewrite Hl. simpl. apply Z.eqb_eq; auto. }
  destruct (filter _ h); simpl in *; [auto|discriminate].
Qed.

(* ---- registry ---- *)
Lemma find_remove_other n n' r : n <> n' -> reg_find n' (reg_remove n r) = reg_find n' r.
Proof.
  intros Hn. induction r as [|[a w] r IH]; simpl; auto.
  destruct (Nat.eqb n a) eqn:E.
  - apply Nat.eqb_eq in E; subst. destruct (Nat.eqb n' a) eqn:E2; auto. apply Nat.eqb_eq in E2; congruence.
  - simpl. rewrite IH. reflexivity.
Qed.
Lemma find_none_notin n r : reg_find n r = None -> ~ In n (map fst r).
Proof.
  induction r as [|[a w] r IH]; simpl; auto.
  destruct (Nat.eqb n a) eqn:E; [discriminate|]. apply Nat.eqb_neq in E. intros H [H1|H1]; [congruence|].
  apply IH; auto.
Qed.
Lemma notin_find_none n r : ~ In n (map fst r) -> reg_find n r = None.
Proof.
  induction r as [|[a w] r IH]; simpl; auto. intros H.
  destruct (Nat.eqb n a) eqn:E. apply Nat.eqb_eq in E; subst; tauto. apply IH; tauto.
Qed.
Lemma find_remove_same n r : NoDup (map fst r) -> reg_find n (reg_remove n r) = None.
Proof.
  induction r as [|[a w] r IH]; simpl; auto. intros H. inversion H; subst.
  destruct (Nat.eqb n a) eqn:E.
  - apply Nat.eqb_eq in E; subst. apply notin_find_none; auto.
  - simpl. rewrite E. auto.
Qed.
Lemma find_some_in n r w : reg_find n r = Some w -> In (n, w) r.
Proof.
  induction r as [|[a v] r IH]; simpl; [discriminate|].
  destruct (Nat.eqb n a) eqn:E; intros H.
  - apply Nat.eqb_eq in E; inversion H; subst; auto.
  - auto.
Qed.
Lemma in_find_some n w r : NoDup (map fst r) -> In (n, w) r -> reg_find n r = Some w.
Proof.
  induction r as [|[a v] r IH]; simpl; [tauto|]. intros H [H1|H1]; inversion H; subst.
  - inversion H1; subst. rewrite Nat.eqb_refl. auto.
  - destruct (Nat.eqb n a) eqn:E; auto. apply Nat.eqb_eq in E; subst.
    exfalso. apply H3. change a with (fst (a, w)). apply in_map; auto.
Qed.
Lemma remove_incl n r x : In x (reg_remove n r) -> In x r.
Proof.
  induction r as [|[a v] r IH]; simpl; auto. destruct (Nat.eqb n a); simpl; intuition.
Qed.
Lemma remove_nodup_fst n r : NoDup (map fst r) -> NoDup (map fst (reg_remove n r)).
Proof.
  induction r as [|[a v] r IH]; simpl; auto. intros H; inversion H; subst.
  destruct (Nat.eqb n a); simpl; auto. constructor; auto.
  intros Hin. apply H2. apply in_map_iff in Hin. destruct Hin as [[x y] [Hx Hy]]. simpl in Hx; subst.
  apply remove_incl in Hy. change a with (fst (a, y)). apply in_map; auto.
Qed.
Lemma remove_nodup_snd n r : NoDup (map snd r) -> NoDup (map snd (reg_remove n r)).
Proof.
  induction r as [|[a v] r IH]; simpl; auto. intros H; inversion H; subst.
  destruct (Nat.eqb n a); simpl; auto. constructor; auto.
  intros Hin. apply H2. apply in_map_iff in Hin. destruct Hin as [[x y] [Hx Hy]]. simpl in Hx; subst.
  apply remove_incl in Hy. change v with (snd (x, v)). apply in_map; auto.
Qed.

Lemma insert_in h e r x : In x (reg_insert h e r) <-> x = e \/ In x r.
Proof.
  induction r as [|a r IH]; simpl; [intuition|].
  destruct (ord h (snd a) <? ord h (snd e)); simpl; rewrite ?IH; intuition.
Qed.
Lemma insert_nodup_gen {B} (g : nat * nat -> B) h e r :
  ~ In (g e) (map g r) -> NoDup (map g r) -> NoDup (map g (reg_insert h e r)).
Proof.
  induction r as [|a r IH]; simpl; intros Hn Hd.
  - constructor; auto.
  - inversion Hd; subst. destruct (ord h (snd a) <? ord h (snd e)); simpl.
    + constructor; auto.
    + constructor; [|apply IH; auto].
      intros Hin. apply in_map_iff in Hin. destruct Hin as [x [Hx Hi]]. apply insert_in in Hi.
      destruct Hi; subst. apply Hn; auto. apply H1. rewrite <- Hx. apply in_map; auto.
Qed.
Lemma find_insert_same h n w r : reg_find n r = None -> reg_find n (reg_insert h (n, w) r) = Some w.
Proof.
  induction r as [|[a v] r IH]; simpl; intros H.
  - rewrite Nat.eqb_refl; auto.
  - destruct (Nat.eqb n a) eqn:E; [discriminate|].
    destruct (ord h v <? ord h w); simpl; rewrite ?Nat.eqb_refl, ?E; auto.
Qed.
Lemma find_insert_other h n n' w r : n <> n' -> reg_find n' (reg_insert h (n, w) r) = reg_find n' r.
Proof.
  intros Hn. induction r as [|[a v] r IH]; simpl.
  - destruct (Nat.eqb n' n) eqn:E; auto. apply Nat.eqb_eq in E; congruence.
  - destruct (ord h v <? ord h w); simpl.
    + destruct (Nat.eqb n' n) eqn:E; auto. apply Nat.eqb_eq in E; congruence.
    + rewrite IH. reflexivity.
Qed.

(* descending order of a list of worker ids *)
Definition desc (h : list worker) (l : list nat) : Prop := StronglySorted (fun a b => ord h b <= ord h a) l.

Lemma desc_ext h h' l : (forall v, In v l -> ord h' v = ord h v) -> desc h l -> desc h' l.
Proof.
  unfold desc. induction l; intros He Hs; constructor; inversion Hs; subst.
  - apply IHl; auto. intros; apply He; simpl; auto.
  - rewrite Forall_forall in *. intros x Hx. rewrite !He; simpl; auto.
Qed.
Lemma desc_remove h n r : desc h (map snd r) -> desc h (map snd (reg_remove n r)).
Proof.
  unfold desc. induction r as [|[a v] r IH]; simpl; auto. intros H; inversion H; subst.
  destruct (Nat.eqb n a); simpl; auto. constructor; auto.
  rewrite Forall_forall in *. intros x Hx. apply H3.
  apply in_map_iff in Hx. destruct Hx as [[p q] [Hp Hq]]. simpl in Hp; subst. apply remove_incl in Hq.
  change x with (snd (p, x)). apply in_map; auto.
Qed.
Lemma desc_insert h e r : desc h (map snd r) -> desc h (map snd (reg_insert h e r)).
Proof.
  unfold desc. induction r as [|a r IH]; simpl; intros H.
  - constructor; auto.
  - inversion H; subst. destruct (ord h (snd a) <? ord h (snd e)) eqn:E; simpl.
    + apply Z.ltb_lt in E. constructor; auto. constructor.
      * lia.
      * rewrite Forall_forall in *. intros x Hx. specialize (H3 x Hx). lia.
    + apply Z.ltb_ge in E. constructor; auto.
      rewrite Forall_forall in *. intros x Hx.
      apply in_map_iff in Hx. destruct Hx as [y [Hy Hi]]. apply insert_in in Hi. destruct Hi; subst; auto.
      apply H3. apply in_map; auto.
Qed.
Lemma desc_head h w r v : desc h (w :: r) -> In v (w :: r) -> ord h v <= ord h w.
Proof.
  unfold desc. intros H Hin. inversion H; subst. destruct Hin; subst. lia.
  rewrite Forall_forall in H3. auto.
Qed.
Lemma desc_tail h w r : desc h (w :: r) -> desc h r.
Proof. unfold desc. intros H; inversion H; auto. Qed.

(* ---- log predicates ---- *)
Lemma started_in_In l w : started_in l w = true -> exists c n, In (EvStart w c n (order_in l w)) l.
Proof.
  induction l as [|e l IH]; simpl; [discriminate|].
  destruct e as [? ?|? ?|v c n o|?|?|?|?]; simpl; try (intros H; destruct (IH H) as [c' [m Hm]]; eauto).
  destruct (Nat.eqb v w) eqn:E; simpl.
  - apply Nat.eqb_eq in E; subst. eauto.
  - intros H; destruct (IH H) as [c' [m Hm]]; eauto.
Qed.
Lemma returned_in_cons e l w :
  returned_in (e :: l) w = (match e with EvReturn v => Nat.eqb v w | _ => false end) || returned_in l w.
Proof. reflexivity. Qed.
