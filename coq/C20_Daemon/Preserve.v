(* C20 - the invariant is preserved by every step of the fixed configuration. *)
From Coq Require Import ZArith List Bool Lia Sorting.Sorted.
From Verif.C20_Daemon Require Import Model Base Inv Frame.
Import ListNotations.
Open Scope Z_scope.

Lemma quiet_not_start t es v c n o l : Forall (quiet t) es -> In (EvStart v c n o) (es ++ l) -> In (EvStart v c n o) l.
Proof.
  intros H Hin. apply in_app_or in Hin. destruct Hin; auto.
  rewrite Forall_forall in H. apply H in H0. simpl in H0. tauto.
Qed.
Lemma quiet_shut t es l : Forall (quiet t) es -> shut_in (es ++ l) = true -> shut_in l = true.
Proof.
  unfold shut_in. rewrite existsb_app. intros H Hs. apply orb_true_iff in Hs. destruct Hs; auto.
  apply existsb_exists in H0. destruct H0 as [e [He1 He2]]. rewrite Forall_forall in H. apply H in He1.
  destruct e; simpl in *; try discriminate; tauto.
Qed.
Lemma returned_in_app es l v : returned_in l v = true -> returned_in (es ++ l) v = true.
Proof. unfold returned_in. rewrite existsb_app. intros ->. apply orb_true_r. Qed.

Lemma thr_upd_self (l : list pc) t p p' : nth_error l t = Some p -> nth_error (upd l t (fun _ => p')) t = Some p'.
Proof. intros H. rewrite nth_error_upd, Nat.eqb_refl, H. reflexivity. Qed.
Lemma thr_upd_other (l : list pc) t p' t' q : t' <> t -> nth_error l t' = Some q -> nth_error (upd l t (fun _ => p')) t' = Some q.
Proof. intros H H1. rewrite nth_error_upd. apply Nat.eqb_neq in H. rewrite H. auto. Qed.

Lemma nolate_back (l : list pc) t p p' :
  nth_error l t = Some p -> (late p = true -> late p' = true) -> nolateL (upd l t (fun _ => p')) -> nolateL l.
Proof.
  intros Ht Hl N t0 q Hq. destruct (Nat.eq_dec t0 t).
  - subst. rewrite Ht in Hq. inversion Hq; subst. destruct (late q) eqn:E; auto.
    rewrite (N t p' (thr_upd_self _ _ _ _ Ht)) in Hl. symmetry. auto.
  - eapply N. apply thr_upd_other; eauto.
Qed.

Lemma ginv_frame s s' t p p' es :
  ginv s -> thr s t p ->
  heap s' = heap s -> reg s' = reg s -> wgcnt s' = wgcnt s -> once s' = once s ->
  running s' = running s -> stopped s' = stopped s ->
  threads s' = upd (threads s) t (fun _ => p') ->
  ((lock s' = lock s /\ (lock s = Some t -> holds p' = true)) \/
   (lock s = None /\ lock s' = Some t /\ holds p' = true) \/ (lock s = Some t /\ lock s' = None)) ->
  (late p = true -> late p' = true) ->
  (late p' = true -> late p = true \/ lock s = None) ->
  (sdact p' = true -> sdact p = true) ->
  (wpc p' = None \/ wpc p' = wpc p) ->
  log s' = es ++ log s -> Forall (quiet t) es -> hist_ok (log s') = true ->
  tinv s' t p' ->
  ginv s'.
Proof.
  intros G Ht Hh Hr Hw Ho Hrun Hst Hth Hlk Hl1 Hl2 Hsd Hwp Hlog Hq Hhist Hti.
  unfold thr in Ht.
  constructor; unfold thr, alldone, started, live, owns, nolate, gw; rewrite ?Hh, ?Hr, ?Hw, ?Ho, ?Hrun, ?Hst, ?Hth.
  - eapply lock_upd; eauto. apply G.
    destruct Hlk as [[A B]|[[A [B C]]|[A B]]]; [left|right; left|right; right]; auto.
  - apply G.
  - intros Hf t0 q Hq0. apply thr_upd in Hq0. destruct Hq0 as [[-> ->]|[_ Hq0]].
    + destruct (sdact p') eqn:E; auto. rewrite <- (g_oncefree _ G Hf _ _ Ht). symmetry; auto.
    + eapply (g_oncefree _ G); eauto.
  - eapply sduniq_upd; eauto. apply G.
  - apply G.
  - intros N. apply (g_nostart _ G). eapply nolate_back; eauto.
  - apply G.
  - apply G.
  - apply G.
  - apply G.
  - apply G.
  - apply G.
  - apply G.
  - apply G.
  - eapply wuniq_upd; eauto. apply G.
  - rewrite Hlog. intros v c n o Hin. eapply (g_l1 _ G). eapply quiet_not_start; eauto.
  - rewrite Hlog. intros v Hv. apply returned_in_app. apply (g_l2 _ G); auto.
  - rewrite Hlog. intros Hs. apply (g_l4 _ G). eapply quiet_shut; eauto.
  - auto.
  - intros t0 q Hq0. apply thr_upd in Hq0. destruct Hq0 as [[-> ->]|[Hne Hq0]]; auto.
    eapply others_frame; eauto.
    + intros t' Hn L. destruct Hlk as [[A B]|[[A [B C]]|[A B]]]; congruence.
    + intros t' Hn L N. unfold nolate. rewrite Hth. destruct (late p') eqn:E.
      * destruct (Hl2 eq_refl) as [Hp|Hp]; [|congruence]. exfalso. exact (nolateL_has _ _ _ N Ht Hp).
      * apply nolateL_upd; auto.
    + apply (g_tinv _ G); auto.
Qed.

Lemma ginv_gen s s' t p p' :
  ginv s -> thr s t p -> threads s' = upd (threads s) t (fun _ => p') ->
  ((lock s' = lock s /\ (lock s = Some t -> holds p' = true)) \/
   (lock s = None /\ lock s' = Some t /\ holds p' = true) \/ (lock s = Some t /\ lock s' = None)) ->
  (once s' = OFree -> once s = OFree) ->
  (sdact p' = true -> sdact p = true \/ (once s = OFree /\ once s' <> OFree)) ->
  (wpc p' = None \/ wpc p' = wpc p) ->
  (forall t', t' <> t -> lock s = Some t' -> nolate s -> once s <> ODone ->
     nolate s' /\ once s' <> ODone /\ reg s' = reg s /\ (running s = true -> running s' = true) /\
     (forall w, fresh s w -> fresh s' w) /\ (forall w, w_name (gw s' w) = w_name (gw s w) /\ w_tid (gw s' w) = w_tid (gw s w))) ->
  (forall t' n, t' <> t -> incall s t' n -> incall s' t' n) ->
  (forall t' q, t' <> t -> thr s t' q -> sdact q = true -> once s = OBusy -> once s' = OBusy) ->
  (stopped s = true -> stopped s' = true) ->
  (forall t' q, t' <> t -> thr s t' q -> late q = true ->
     (forall v, ord (heap s') v = ord (heap s) v) /\ (forall v, live s' v -> live s v) /\ (alldone s -> alldone s')) ->
  (forall t' w q, t' <> t -> thr s t' q -> wpc q = Some w ->
     samew (gw s' w) (gw s w) /\ (stopped s' = false -> owns s w -> owns s' w)) ->
  tinv s' t p' ->
  (once s' = ODone -> stopped s' = true /\ alldone s') ->
  (running s' = false -> alldone s') ->
  (nolate s' -> once s' <> ODone -> running s' = false -> forall v, w_started (gw s' v) = false) ->
  (forall o, wg_get o (wgcnt s') = cnt o (heap s')) ->
  (forall v, live s' v -> w_flag (gw s' v) = true) ->
  (forall v, w_returned (gw s' v) = true -> w_started (gw s' v) = true) ->
  desc (heap s') (map snd (reg s')) -> NoDup (map fst (reg s')) -> NoDup (map snd (reg s')) ->
  (forall n w, In (n, w) (reg s') -> (w < length (heap s'))%nat /\ w_name (gw s' w) = n) ->
  (forall v, live s' v -> owns s' v) ->
  (forall v c n o, In (EvStart v c n o) (log s') -> w_started (gw s' v) = true /\ w_name (gw s' v) = n /\ w_order (gw s' v) = o) ->
  (forall v, w_returned (gw s' v) = true -> returned_in (log s') v = true) ->
  (shut_in (log s') = true -> once s' = ODone) ->
  hist_ok (log s') = true ->
  ginv s'.
Proof.
  intros G Ht Hth Hlk Hof Hsd Hwp O1 O2 O3 O4 O5 O6 Hti F1 F2 F3 F4 F5 F6 F7 F8 F9 F10 F11 F12 F13 F14 F15.
  unfold thr in Ht.
  constructor; auto; unfold thr; rewrite ?Hth.
  - eapply lock_upd; eauto. apply G.
    destruct Hlk as [[A B]|[[A [B C]]|[A B]]]; [left|right; left|right; right]; auto.
  - intros Hf t0 q Hq0. apply thr_upd in Hq0. destruct Hq0 as [[-> ->]|[_ Hq0]].
    + destruct (sdact p') eqn:E; auto. destruct (Hsd eq_refl) as [A|[A B]]; [|congruence].
      rewrite <- (g_oncefree _ G (Hof Hf) _ _ Ht). symmetry; auto.
    + eapply (g_oncefree _ G); eauto.
  - eapply sduniq_upd; eauto. apply G. intros S. destruct (Hsd S) as [A|[A B]]; auto. right. apply (g_oncefree _ G A).
  - eapply wuniq_upd; eauto. apply G.
  - intros t0 q Hq0. apply thr_upd in Hq0. destruct Hq0 as [[-> ->]|[Hne Hq0]]; auto.
    eapply (others_gen s s' t); eauto.
    + intros t' Hn L. destruct Hlk as [[A B]|[[A [B C]]|[A B]]]; congruence.
    + apply (g_tinv _ G); auto.
Qed.

Lemma lock_not_holder s t p : ginv s -> thr s t p -> holds p = false -> lock s = Some t -> False.
Proof.
  intros G Ht Hh L. destruct (g_lock _ G _ L) as [q [Hq Hq']]. unfold thr in *. congruence.
Qed.

Ltac fr G Ht p p' es :=
  apply (ginv_frame _ _ _ p p' es G Ht); try reflexivity; simpl;
  try solve [auto | intros; discriminate | constructor; simpl; auto | repeat constructor; simpl; auto
            | apply G | rewrite (g_hist _ G); reflexivity
            | left; split; auto; let L := fresh in intros L; exfalso; eapply lock_not_holder; eauto ].

Lemma hist_cons e l : event_ok l e = true -> hist_ok l = true -> hist_ok (e :: l) = true.
Proof. simpl. intros -> ->. reflexivity. Qed.


Ltac gg G Ht p p' :=
  apply (ginv_gen _ _ _ p p' G Ht); try reflexivity; try solve [apply G]; simpl;
  try solve [auto | intros; discriminate | intros; congruence | intros; split; [apply samew_refl|auto]
            | left; split; auto; let L := fresh in intros L; exfalso; eapply lock_not_holder; eauto ].

Ltac o1_same :=
  let t' := fresh "t'" in let Hn := fresh in let L := fresh in let N := fresh in let O := fresh in
  intros t' Hn L N O; split; [try (apply nolateL_upd; auto)|]; split; [auto|]; split; [reflexivity|];
  split; [auto|]; split; [let w := fresh in let F := fresh in intros w F; exact F|split; reflexivity].

Section Steps.
Variables (s : st) (t : nat).
Hypothesis G : ginv s.

Lemma st_BW0 n o k s' : thr s t (BW0 n o k) ->
  (let s1 := add_log s (EvBegin t n) in
   if stopped s1 then Some (bw_fin s1 t RStopped) else Some (set_pc s1 t (BW1 n o k))) = Some s' -> ginv s'.
Proof.
  intros Ht H. simpl in H. destruct (stopped s) eqn:Es; inversion H; subst; clear H.
  - fr G Ht (BW0 n o k) Fin [EvBW t RStopped; EvBegin t n].
  - fr G Ht (BW0 n o k) (BW1 n o k) [EvBegin t n].
    unfold incall. simpl. rewrite Nat.eqb_refl. split; auto.
    destruct (shut_in (log s)) eqn:E; auto. apply (g_l4 _ G) in E. apply (g_once _ G) in E. destruct E; congruence.
Qed.

Lemma lockfree_none : lock_free s = true -> lock s = None.
Proof. unfold lock_free. destruct (lock s); auto; discriminate. Qed.

Lemma unstopped : stopped s = false -> nolate s /\ once s <> ODone.
Proof.
  intros Hs. split.
  - intros t0 q Hq. destruct (late q) eqn:E; auto. pose proof (g_tinv _ G _ _ Hq) as Hi.
    destruct q; simpl in E; try discriminate; simpl in Hi; intuition congruence.
  - intros Ho. apply (g_once _ G) in Ho. destruct Ho; congruence.
Qed.

Lemma live_lt v : live s v -> (v < length (heap s))%nat.
Proof.
  unfold live, gw. intros H. destruct (Nat.lt_ge_cases v (length (heap s))); auto.
  rewrite getw_out in H; auto. discriminate.
Qed.

Lemma notlive_done v : livew (gw s v) = false -> w_started (gw s v) = true -> w_returned (gw s v) = true.
Proof. unfold livew. intros H1 H2. rewrite H2 in H1. simpl in H1. destruct (w_returned (gw s v)); auto. Qed.

Lemma st_BW1 n o k : thr s t (BW1 n o k) -> lock_free s = true ->
  ginv (set_pc (set_lock s (Some t)) t (BW2 n o k)).
Proof.
  intros Ht Hl. apply lockfree_none in Hl. pose proof (g_tinv _ G _ _ Ht) as Hi. simpl in Hi.
  fr G Ht (BW1 n o k) (BW2 n o k) (@nil event).
Qed.

Lemma st_BW2a n o k : thr s t (BW2 n o k) -> ginv (bw_ret s t RStopped).
Proof.
  intros Ht. pose proof (g_tinv _ G _ _ Ht) as Hi. simpl in Hi. destruct Hi as [L I].
  fr G Ht (BW2 n o k) Fin [EvBW t RStopped].
Qed.

Lemma insec_move p p' : thr s t p -> insec_ok s t -> late p' = false ->
  insec_ok (set_pc s t p') t.
Proof.
  intros Ht [A [B C]] Hl. unfold insec_ok, nolate. simpl. repeat split; auto. apply nolateL_upd; auto.
Qed.

Lemma st_BW2b n o k : thr s t (BW2 n o k) -> stopped s = false -> ginv (set_pc s t (BW3 n o k)).
Proof.
  intros Ht Hs. pose proof (g_tinv _ G _ _ Ht) as Hi. simpl in Hi. destruct Hi as [L I].
  destruct (unstopped Hs) as [N O].
  fr G Ht (BW2 n o k) (BW3 n o k) (@nil event).
  - split; auto. eapply insec_move; eauto. repeat split; auto.
Qed.

Lemma st_BW3 n o k s' : thr s t (BW3 n o k) ->
  match reg_find n (reg s) with
  | None => Some (set_pc s t (BW5 n o k))
  | Some ex => if running s then Some (set_pc s t (BW4 n o k ex)) else Some (bw_ret s t RDup)
  end = Some s' -> ginv s'.
Proof.
  intros Ht H. pose proof (g_tinv _ G _ _ Ht) as Hi. simpl in Hi. destruct Hi as [[L [N O]] I].
  destruct (reg_find n (reg s)) eqn:E; [destruct (running s) eqn:R|]; inversion H; subst; clear H.
  - fr G Ht (BW3 n o k) (BW4 n o k n0) (@nil event).
    split; [eapply insec_move; eauto; repeat split; auto|]. split; auto.
  - fr G Ht (BW3 n o k) Fin [EvBW t RDup].
  - fr G Ht (BW3 n o k) (BW5 n o k) (@nil event).
    split; [eapply insec_move; eauto; repeat split; auto|]. split; auto.
Qed.

Lemma st_BW4a n o k ex : thr s t (BW4 n o k ex) -> ginv (bw_ret s t RStillRunning).
Proof.
  intros Ht. pose proof (g_tinv _ G _ _ Ht) as Hi. simpl in Hi. destruct Hi as [[L [N O]] I].
  fr G Ht (BW4 n o k ex) Fin [EvBW t RStillRunning].
Qed.

Lemma st_ST0 run s' : thr s t (ST0 run) ->
  (if stopped s then Some (after_start s t run) else Some (set_pc s t (ST1 run))) = Some s' -> ginv s'.
Proof.
  intros Ht H.
  assert (NL : lock s = Some t -> False) by (intros L; eapply lock_not_holder; eauto).
  destruct (stopped s); inversion H; subst; clear H.
  - unfold after_start. destruct run.
    + fr G Ht (ST0 true) RW0 (@nil event).
    + fr G Ht (ST0 false) Fin (@nil event).
  - fr G Ht (ST0 run) (ST1 run) (@nil event).
Qed.

Lemma st_ST1 run : thr s t (ST1 run) -> lock_free s = true -> ginv (set_pc (set_lock s (Some t)) t (ST2 run)).
Proof.
  intros Ht Hl. apply lockfree_none in Hl.
  fr G Ht (ST1 run) (ST2 run) (@nil event).
Qed.

Lemma st_unlock_after p run : thr s t p -> holds p = true -> late p = false -> sdact p = false -> wpc p = None ->
  ginv (after_start (set_lock s None) t run).
Proof.
  intros Ht Hh Hl Hs Hw. pose proof (g_tinv _ G _ _ Ht) as Hi.
  assert (L : lock s = Some t) by (destruct p; simpl in Hh; try discriminate; simpl in Hi; unfold insec_ok in *; intuition).
  unfold after_start. destruct run.
  - apply (ginv_frame _ _ _ p RW0 (@nil event) G Ht); try reflexivity; simpl; auto; try (intros; discriminate); try (intros; congruence); try apply G.
  - apply (ginv_frame _ _ _ p Fin (@nil event) G Ht); try reflexivity; simpl; auto; try (intros; discriminate); try (intros; congruence); try apply G.
Qed.

Lemma st_ST2b run : thr s t (ST2 run) -> stopped s = false -> ginv (set_pc s t (ST3 run)).
Proof.
  intros Ht Hs. pose proof (g_tinv _ G _ _ Ht) as Hi. simpl in Hi.
  destruct (unstopped Hs) as [N O].
  fr G Ht (ST2 run) (ST3 run) (@nil event).
  - eapply insec_move; eauto. repeat split; auto.
Qed.

Lemma st_RW0 : thr s t RW0 -> ginv (set_pc s t (RW1 (wgmap s))).
Proof.
  intros Ht.
  fr G Ht RW0 (RW1 (wgmap s)) (@nil event).
Qed.

Lemma st_RW1a todo : thr s t (RW1 todo) -> ginv (add_log (set_pc s t Fin) (EvRunRet t)).
Proof.
  intros Ht.
  fr G Ht (RW1 todo) Fin [EvRunRet t].
Qed.

Lemma st_RW1b todo todo' : thr s t (RW1 todo) -> ginv (set_pc s t (RW1 todo')).
Proof.
  intros Ht.
  fr G Ht (RW1 todo) (RW1 todo') (@nil event).
Qed.

Lemma st_crash : ginv (crash s).
Proof. destruct G. constructor; auto. Qed.

Lemma st_SD2 s' : thr s t SD2 -> lock_free s = true ->
  (if running s then Some (set_pc s t SD3) else Some (set_pc s t SD10)) = Some s' -> ginv s'.
Proof.
  intros Ht Hl H. apply lockfree_none in Hl. pose proof (g_tinv _ G _ _ Ht) as Hi. simpl in Hi.
  destruct (running s) eqn:R; inversion H; subst; clear H.
  - fr G Ht SD2 SD3 (@nil event).
  - fr G Ht SD2 SD10 (@nil event).
    destruct Hi. repeat split; auto. apply (g_run _ G); auto.
Qed.

Lemma st_SD3 s' : thr s t SD3 ->
  match map snd (reg s) with
  | [] => Some (set_pc s t SD8)
  | w :: r => Some (set_pc s t (SD4 [] (w :: r) (ord (heap s) w)))
  end = Some s' -> ginv s'.
Proof.
  intros Ht H. pose proof (g_tinv _ G _ _ Ht) as Hi. simpl in Hi. destruct Hi as [O S].
  assert (LR : forall v, live s v -> In v (map snd (reg s))).
  { intros v Hv. apply (g_livereg _ G) in Hv. unfold owns in Hv. apply find_some_in in Hv.
    change v with (snd (w_name (gw s v), v)). apply in_map; auto. }
  destruct (map snd (reg s)) eqn:E; inversion H; subst; clear H.
  - fr G Ht SD3 SD8 (@nil event). repeat split; auto.
    intros v Hv. apply notlive_done; auto. destruct (livew (gw s v)) eqn:L; auto. destruct (LR v L).
  - fr G Ht SD3 (SD4 [] (n :: l) (ord (heap s) n)) (@nil event).
    assert (D : desc (heap s) (n :: l)) by (rewrite <- E; apply G).
    split; [auto|]. split; [auto|]. split; [exact D|]. split.
    + intros v Hv. left. apply LR; auto.
    + intros v Hv. eapply desc_head; eauto.
Qed.

Lemma st_SD4 d td pv s' : thr s t (SD4 d td pv) ->
  match td with
  | [] => Some (set_pc s t (SD7 pv))
  | w :: r => if ord (heap s) w <? pv then Some (set_pc s t (SD5 d td pv)) else Some (set_pc s t (SD6 d td pv))
  end = Some s' -> ginv s'.
Proof.
  intros Ht H. pose proof (g_tinv _ G _ _ Ht) as Hi. simpl in Hi. destruct Hi as [O [S W]].
  destruct td as [|w r]; [|destruct (ord (heap s) w <? pv) eqn:E]; inversion H; subst; clear H.
  - fr G Ht (SD4 d [] pv) (SD7 pv) (@nil event). repeat split; auto.
    intros v Hv. destruct W as [_ [W2 _]]. destruct (W2 v Hv) as [[]|]; auto.
  - fr G Ht (SD4 d (w :: r) pv) (SD5 d (w :: r) pv) (@nil event).
  - fr G Ht (SD4 d (w :: r) pv) (SD6 d (w :: r) pv) (@nil event). repeat split; auto; try apply W.
    apply Z.ltb_ge in E. auto.
Qed.

Lemma st_SD5 d w r pv : thr s t (SD5 d (w :: r) pv) -> wg_get pv (wgcnt s) = O ->
  ginv (set_pc s t (SD6 d (w :: r) (ord (heap s) w))).
Proof.
  intros Ht Hz. pose proof (g_tinv _ G _ _ Ht) as Hi. simpl in Hi. destruct Hi as [O [S [W1 [W2 W3]]]].
  fr G Ht (SD5 d (w :: r) pv) (SD6 d (w :: r) (ord (heap s) w)) (@nil event).
  repeat split; auto; try lia.
  - intros v Hv. destruct (W2 v Hv) as [A|A]; auto. exfalso.
    rewrite (g_cnt _ G) in Hz. eapply cnt_zero; eauto. apply live_lt; auto.
  - intros v Hv. eapply desc_head; eauto.
Qed.

Lemma st_SD7 pv : thr s t (SD7 pv) -> wg_get pv (wgcnt s) = O -> ginv (set_pc s t SD8).
Proof.
  intros Ht Hz. pose proof (g_tinv _ G _ _ Ht) as Hi. simpl in Hi. destruct Hi as [O [S W]].
  fr G Ht (SD7 pv) SD8 (@nil event).
  repeat split; auto. intros v Hv. apply notlive_done; auto.
  destruct (livew (gw s v)) eqn:L; auto. exfalso.
  rewrite (g_cnt _ G) in Hz. eapply cnt_zero; eauto. apply live_lt; auto.
Qed.

Lemma nolate_step p p' : thr s t p -> (late p = true -> late p' = true) -> nolate (set_pc s t p') -> nolate s.
Proof. intros Ht H N. eapply nolate_back; eauto. Qed.

Lemma st_SD1 : thr s t SD1 -> ginv (set_pc (set_stopped s) t SD2).
Proof.
  intros Ht. pose proof (g_tinv _ G _ _ Ht) as Hi. simpl in Hi.
  gg G Ht SD1 SD2.
  - o1_same.
  - intros N. apply (g_nostart _ G). eapply (nolate_back _ _ SD1 SD2); eauto.
Qed.
End Steps.
