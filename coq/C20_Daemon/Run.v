(* C20 - Run returns only after every started worker has returned, under the explicit guard that no worker is
   started while a Run call is waiting on its snapshot of the wait groups (the known finding D20b is exactly a
   start after that snapshot). *)
From Coq Require Import ZArith List Bool Lia Sorting.Sorted.
From Verif.C20_Daemon Require Import Model Base Inv Frame Preserve Hist Preserve2 Full.
Import ListNotations.
Open Scope Z_scope.

Definition is_rw1 (p : pc) : bool := match p with RW1 _ => true | _ => false end.
Definition is_start (p : pc) : bool := match p with BW6 _ | ST4 _ (_ :: _) => true | _ => false end.
(* thread t may move in s: it does not start a worker while some Run call holds a snapshot *)
Definition guard_ok (s : st) (t : nat) : bool :=
  negb (existsb is_rw1 (threads s)) ||
  match nth_error (threads s) t with Some p => negb (is_start p) | None => true end.
Fixpoint run_guard (sch : list (nat * nat)) (s : st) : bool :=
  match sch with
  | [] => true
  | tc :: r => guard_ok s (fst tc) && run_guard r (step_or_skip fixed s tc)
  end.

Record rinv (s : st) : Prop := mkR {
  r_reg : forall n w, In (n, w) (reg s) -> mem_z (ord (heap s) w) (wgmap s) = true;
  r_rw : forall t todo, thr s t (RW1 todo) -> forall v, live s v -> In (ord (heap s) v) todo;
  r_ok : run_ok (log s) = true
}.

Lemma run_ok_app es l : (forall t, ~ In (EvRunRet t) es) -> run_ok (es ++ l) = run_ok l.
Proof.
  induction es as [|e es IH]; simpl; auto. intros H. destruct e; try (apply IH; intros t0 Hin; apply (H t0); auto).
  exfalso. apply (H t). auto.
Qed.

Lemma no_rw1 s : existsb is_rw1 (threads s) = false -> forall t todo, thr s t (RW1 todo) -> False.
Proof.
  intros H t todo Ht. assert (existsb is_rw1 (threads s) = true); [|congruence].
  apply existsb_exists. exists (RW1 todo). split; auto. eapply nth_error_In; eauto.
Qed.

Lemma rinv_gen s s' t p p' extra es :
  ginv s -> rinv s -> thr s t p -> threads s' = upd (threads s) t (fun _ => p') ++ extra ->
  is_rw1 p' = false -> (forall q, In q extra -> is_rw1 q = false) ->
  (forall v, (v < length (heap s))%nat -> ord (heap s') v = ord (heap s) v) ->
  ((forall v, live s' v -> live s v) \/ (forall t' todo, thr s t' (RW1 todo) -> False)) ->
  (forall n w, In (n, w) (reg s') -> In (n, w) (reg s) \/ mem_z (ord (heap s') w) (wgmap s') = true) ->
  ((forall o, mem_z o (wgmap s) = true -> mem_z o (wgmap s') = true) \/ reg s' = []) ->
  log s' = es ++ log s -> (forall t, ~ In (EvRunRet t) es) -> rinv s'.
Proof.
  intros G R Ht Hth Hp' Hex Hord Hlive Hreg Hwg Hlog Hes.
  constructor.
  - intros n w Hin. destruct (Hreg n w Hin) as [A|A]; auto.
    destruct Hwg as [Hwg|Hwg]; [|rewrite Hwg in Hin; destruct Hin].
    apply Hwg. rewrite Hord. apply (r_reg _ R n w A). apply (g_regwf _ G _ _ A).
  - intros t' todo Ht' v Lv. unfold thr in Ht'. rewrite Hth in Ht'.
    assert (OLD : t' <> t /\ thr s t' (RW1 todo)).
    { destruct (Nat.lt_ge_cases t' (length (upd (threads s) t (fun _ => p')))) as [L|L].
      - rewrite nth_error_app1 in Ht'; auto. apply thr_upd in Ht'. destruct Ht' as [[_ E]|Ht']; auto.
        subst p'. discriminate.
      - rewrite nth_error_app2 in Ht'; auto. apply nth_error_In in Ht'. apply Hex in Ht'. discriminate. }
    destruct OLD as [Hn Hq]. destruct Hlive as [Hl|Hl]; [|destruct (Hl _ _ Hq)].
    apply Hl in Lv. rewrite Hord. apply (r_rw _ R _ _ Hq); auto. apply live_lt; auto.
  - rewrite Hlog, run_ok_app; auto. apply R.
Qed.

Ltac rg G R Ht p' extra es :=
  apply (rinv_gen _ _ _ _ p' extra es G R Ht);
  [ try solve [simpl; rewrite ?app_nil_r; reflexivity]
  | try reflexivity
  | try solve [intros ? []]
  | try solve [intros; reflexivity]
  | try solve [left; intros ? Lv; exact Lv]
  | try solve [intros ? ? Hin; left; exact Hin]
  | try solve [left; intros ? Ho; exact Ho]
  | try reflexivity
  | try solve [simpl; intuition discriminate] ].

Lemma live_upd_sub s w f v : (forall x, livew (f x) = true -> livew x = true) ->
  livew (getw (upd (heap s) w f) v) = true -> livew (getw (heap s) v) = true.
Proof. intros Hf. rewrite getw_upd. destruct (_ && _); auto. Qed.

Lemma live_app_sub h x v : livew x = false -> livew (getw (h ++ [x]) v) = true -> livew (getw h v) = true.
Proof.
  intros Hx. destruct (Nat.lt_trichotomy v (length h)) as [L|[L|L]].
  - rewrite getw_app_old; auto.
  - subst v. rewrite getw_app_new. congruence.
  - rewrite getw_out. discriminate. rewrite app_length. simpl. lia.
Qed.

(* a step of thread t that leaves heap / registry / wait-group keys alone; covers the Run steps themselves *)
Lemma rinv_self s s' t p p' :
  rinv s -> thr s t p -> heap s' = heap s -> reg s' = reg s -> wgmap s' = wgmap s ->
  threads s' = upd (threads s) t (fun _ => p') ->
  (forall todo, p' = RW1 todo -> forall v, live s v -> In (ord (heap s) v) todo) ->
  run_ok (log s') = true -> rinv s'.
Proof.
  intros R Ht Hh Hr Hw Hth Hp Hok. constructor; auto.
  - rewrite Hh, Hr, Hw. apply R.
  - intros t' todo Ht' v. unfold thr in Ht'. rewrite Hth in Ht'. unfold live, gw. rewrite Hh. apply thr_upd in Ht'.
    destruct Ht' as [[_ E]|[_ Ht']]. apply Hp; auto. apply (r_rw _ R _ _ Ht').
Qed.

Lemma remove_nth_in {A} (l : list A) k x y : nth_error l k = Some y -> In x l -> x <> y -> In x (remove_nth k l).
Proof.
  revert k; induction l as [|a l IH]; intros [|k] Hk Hin Hn; simpl in *; try discriminate; auto.
  - inversion Hk; subst. destruct Hin; congruence.
  - destruct Hin; auto.
Qed.

Theorem rinv_step s t ch s' : ginv s -> rinv s -> guard_ok s t = true -> step fixed s t ch = Some s' -> rinv s'.
Proof.
  intros G R GD H. unfold step in H. destruct (crashed s); [discriminate|].
  unfold guard_ok in GD.
  destruct (nth_error (threads s) t) as [p|] eqn:Ht; [|discriminate].
  change (thr s t p) in Ht.
  destruct p; cbv zeta in H; cbn [cfg_bw_recheck cfg_start_sync fixed andb] in H.
  - (* BW0 *) simpl in H. destruct (stopped s); inversion H; subst; clear H.
    + rg G R Ht Fin (@nil pc) [EvBW t RStopped; EvBegin t n].
    + rg G R Ht (BW1 n o k) (@nil pc) [EvBegin t n].
  - (* BW1 *) destruct (lock_free s) eqn:L; inversion H; subst; clear H. rg G R Ht (BW2 n o k) (@nil pc) (@nil event).
  - (* BW2 *) destruct (stopped s) eqn:S; inversion H; subst; clear H.
    + rg G R Ht Fin (@nil pc) [EvBW t RStopped].
    + rg G R Ht (BW3 n o k) (@nil pc) (@nil event).
  - (* BW3 *) destruct (reg_find n (reg s)); [destruct (running s)|]; inversion H; subst; clear H.
    + rg G R Ht (BW4 n o k n0) (@nil pc) (@nil event).
    + rg G R Ht Fin (@nil pc) [EvBW t RDup].
    + rg G R Ht (BW5 n o k) (@nil pc) (@nil event).
  - (* BW4 *) destruct (w_flag (getw (heap s) ex)) eqn:F; inversion H; subst; clear H.
    + rg G R Ht Fin (@nil pc) [EvBW t RStillRunning].
    + rg G R Ht (BW5 n o k) (@nil pc) (@nil event).
      intros m w Hin. left. simpl in Hin. eapply remove_incl; eauto.
  - (* BW5 *) destruct (cleared s). { inversion H; subst. destruct R; constructor; auto. }
    cbv zeta in H.
    assert (LS : forall m : list Z, forall v, livew (getw (heap s ++ [mkW n o k t false false false false]) v) = true ->
                 livew (getw (heap s) v) = true).
    { intros _ v. apply live_app_sub. reflexivity. }
    destruct (mem_z o (wgmap s)) eqn:M; simpl in H; destruct (running s) eqn:Rn; inversion H; subst; clear H.
    + rg G R Ht (BW6 (length (heap s))) (@nil pc) (@nil event).
      * intros v Lv. simpl. unfold ord. rewrite getw_app_old; auto.
      * left. intros v. apply (LS []).
      * intros m w Hin. simpl in Hin. apply insert_in in Hin. destruct Hin as [E|Hin]; auto. inversion E; subst.
        right. simpl. unfold ord. rewrite getw_app_new. simpl. exact M.
    + rg G R Ht Fin (@nil pc) [EvBW t ROk].
      * intros v Lv. simpl. unfold ord. rewrite getw_app_old; auto.
      * left. intros v. apply (LS []).
      * intros m w Hin. simpl in Hin. apply insert_in in Hin. destruct Hin as [E|Hin]; auto. inversion E; subst.
        right. simpl. unfold ord. rewrite getw_app_new. simpl. exact M.
    + rg G R Ht (BW6 (length (heap s))) (@nil pc) (@nil event).
      * intros v Lv. simpl. unfold ord. rewrite getw_app_old; auto.
      * left. intros v. apply (LS []).
      * intros m w Hin. simpl in Hin. apply insert_in in Hin. destruct Hin as [E|Hin]; auto. inversion E; subst.
        right. simpl. unfold ord. rewrite getw_app_new. simpl. rewrite Z.eqb_refl. reflexivity.
      * left. intros o0 Ho. simpl. rewrite Ho. apply orb_true_r.
    + rg G R Ht Fin (@nil pc) [EvBW t ROk].
      * intros v Lv. simpl. unfold ord. rewrite getw_app_old; auto.
      * left. intros v. apply (LS []).
      * intros m w Hin. simpl in Hin. apply insert_in in Hin. destruct Hin as [E|Hin]; auto. inversion E; subst.
        right. simpl. unfold ord. rewrite getw_app_new. simpl. rewrite Z.eqb_refl. reflexivity.
      * left. intros o0 Ho. simpl. rewrite Ho. apply orb_true_r.
  - (* BW6 *) inversion H; subst; clear H. simpl in GD. rewrite orb_false_r in GD. apply negb_true_iff in GD.
    assert (TL : (t < length (threads s))%nat) by (apply nth_error_Some; unfold thr in Ht; congruence).
    rg G R Ht Fin [WB w] [EvBW t ROk; EvStart w (w_tid (getw (heap s) w)) (w_name (getw (heap s) w)) (w_order (getw (heap s) w))].
    + simpl. apply upd_app2; auto.
    + intros q [<-|[]]. reflexivity.
    + intros v Lv. simpl. apply ord_upd. intros x; simpl; auto.
    + right. apply no_rw1; auto.
  - (* ST0 *) destruct (stopped s); inversion H; subst; clear H.
    + unfold after_start. destruct run. rg G R Ht RW0 (@nil pc) (@nil event). rg G R Ht Fin (@nil pc) (@nil event).
    + rg G R Ht (ST1 run) (@nil pc) (@nil event).
  - (* ST1 *) destruct (lock_free s) eqn:L; inversion H; subst; clear H. rg G R Ht (ST2 run) (@nil pc) (@nil event).
  - (* ST2 *) destruct (stopped s) eqn:S; inversion H; subst; clear H.
    + unfold after_start. destruct run. rg G R Ht RW0 (@nil pc) (@nil event). rg G R Ht Fin (@nil pc) (@nil event).
    + rg G R Ht (ST3 run) (@nil pc) (@nil event).
  - (* ST3 *) destruct (running s) eqn:Rn; inversion H; subst; clear H.
    + unfold after_start. destruct run. rg G R Ht RW0 (@nil pc) (@nil event). rg G R Ht Fin (@nil pc) (@nil event).
    + rg G R Ht (ST4 run (map snd (reg s))) (@nil pc) (@nil event).
  - (* ST4 *) destruct todo as [|w r]; inversion H; subst; clear H.
    + unfold after_start. destruct run. rg G R Ht RW0 (@nil pc) (@nil event). rg G R Ht Fin (@nil pc) (@nil event).
    + simpl in GD. rewrite orb_false_r in GD. apply negb_true_iff in GD.
      assert (TL : (t < length (threads s))%nat) by (apply nth_error_Some; unfold thr in Ht; congruence).
      rg G R Ht (ST4 run r) [WB w] [EvStart w (w_tid (getw (heap s) w)) (w_name (getw (heap s) w)) (w_order (getw (heap s) w))].
      * simpl. apply upd_app2; auto.
      * intros q [<-|[]]. reflexivity.
      * intros v Lv. simpl. apply ord_upd. intros x; simpl; auto.
      * right. apply no_rw1; auto.
  - (* RW0 *) destruct (lock_free s); inversion H; subst; clear H.
    apply (rinv_self s _ t RW0 (RW1 (wgmap s)) R Ht); try reflexivity; [|apply R].
    intros todo E v Lv. inversion E; subst. pose proof (g_livereg _ G _ Lv) as Ov. unfold owns in Ov.
    apply find_some_in in Ov. apply (r_reg _ R) in Ov. unfold mem_z in Ov. apply existsb_exists in Ov.
    destruct Ov as [x [Hx Ex]]. apply Z.eqb_eq in Ex. subst x. exact Hx.
  - (* RW1 *) destruct todo as [|z r].
    + inversion H; subst; clear H.
      apply (rinv_self s _ t (RW1 []) Fin R Ht); try reflexivity; [intros; discriminate|].
      simpl. rewrite (r_ok _ R), andb_true_r. apply (all_returned_ok _ G).
      intros v Sv. apply notlive_done; auto. destruct (livew (gw s v)) eqn:Lv; auto.
      destruct (r_rw _ R _ _ Ht v Lv).
    + destruct (nth_error (z :: r) ch) as [o|] eqn:En; [|discriminate].
      destruct (Nat.eqb (wg_get o (wgcnt s)) 0) eqn:Ez; inversion H; subst; clear H. apply Nat.eqb_eq in Ez.
      apply (rinv_self s _ t (RW1 (z :: r)) (RW1 (remove_nth ch (z :: r))) R Ht); try reflexivity; [|apply R].
      intros todo E v Lv. inversion E; subst. eapply remove_nth_in; eauto. apply (r_rw _ R _ _ Ht v Lv).
      intros Eo. rewrite (g_cnt _ G) in Ez. eapply cnt_zero; eauto. apply live_lt; auto.
  - (* SD0 *) destruct (once s) eqn:O; inversion H; subst; clear H.
    + rg G R Ht SD1 (@nil pc) (@nil event).
    + rg G R Ht Fin (@nil pc) [EvShutRet t].
  - (* SD1 *) inversion H; subst; clear H. rg G R Ht SD2 (@nil pc) (@nil event).
  - (* SD2 *) destruct (lock_free s) eqn:L; simpl in H; [|discriminate].
    destruct (running s); inversion H; subst; clear H.
    + rg G R Ht SD3 (@nil pc) (@nil event).
    + rg G R Ht SD10 (@nil pc) (@nil event).
  - (* SD3 *) destruct (lock_free s); [|discriminate].
    destruct (map snd (reg s)); inversion H; subst; clear H.
    + rg G R Ht SD8 (@nil pc) (@nil event).
    + rg G R Ht (SD4 [] (n :: l) (ord (heap s) n)) (@nil pc) (@nil event).
  - (* SD4 *) destruct todo as [|w r]; [|destruct (negb (w_flag (getw (heap s) w))); [|destruct (ord (heap s) w <? prev)]];
      inversion H; subst; clear H.
    + rg G R Ht (SD7 prev) (@nil pc) (@nil event).
    + rg G R Ht (SD4 (done ++ [w]) r prev) (@nil pc) [EvCancel w].
      * intros v Lv. simpl. apply ord_upd. intros x; simpl; auto.
      * left. intros v. unfold live, gw. simpl. apply live_upd_sub. intros x; auto.
    + rg G R Ht (SD5 done (w :: r) prev) (@nil pc) (@nil event).
    + rg G R Ht (SD6 done (w :: r) prev) (@nil pc) (@nil event).
  - (* SD5 *) destruct todo as [|w r]; [discriminate|].
    destruct (negb (mem_z prev (wgmap s))); [inversion H; subst; destruct R; constructor; auto|].
    destruct (Nat.eqb (wg_get prev (wgcnt s)) 0); inversion H; subst; clear H.
    rg G R Ht (SD6 done (w :: r) (ord (heap s) w)) (@nil pc) (@nil event).
  - (* SD6 *) destruct todo as [|w r]; inversion H; subst; clear H.
    rg G R Ht (SD4 (done ++ [w]) r prev) (@nil pc) [EvCancel w].
    + intros v Lv. simpl. apply ord_upd. intros x; simpl; auto.
    + left. intros v. unfold live, gw. simpl. apply live_upd_sub. intros x; auto.
  - (* SD7 *) destruct (negb (mem_z prev (wgmap s))); [inversion H; subst; destruct R; constructor; auto|].
    destruct (Nat.eqb (wg_get prev (wgcnt s)) 0); inversion H; subst; clear H.
    rg G R Ht SD8 (@nil pc) (@nil event).
  - (* SD8 *) inversion H; subst; clear H. rg G R Ht SD9 (@nil pc) (@nil event).
  - (* SD9 *) destruct (lock_free s); inversion H; subst; clear H. rg G R Ht SD10 (@nil pc) (@nil event).
    + intros ? ? [].
    + right. reflexivity.
  - (* SD10 *) inversion H; subst; clear H. rg G R Ht Fin (@nil pc) [EvShutRet t].
  - (* WB *) match type of H with (if ?b then _ else _) = _ => destruct b end; inversion H; subst; clear H.
    rg G R Ht (WC w) (@nil pc) [EvReturn w].
    + intros v Lv. simpl. apply ord_upd. intros x; simpl; auto.
    + left. intros v. unfold live, gw. simpl. apply live_upd_sub. intros x. unfold livew. simpl. rewrite andb_false_r. discriminate.
  - (* WC *) destruct (lock_free s); [|discriminate]. destruct (stopped s); inversion H; subst; clear H.
    + rg G R Ht (WU w) (@nil pc) (@nil event).
    + rg G R Ht (WU w) (@nil pc) (@nil event).
      intros m v Hin. left. simpl in Hin. eapply remove_incl; eauto.
  - (* WU *) inversion H; subst; clear H. rg G R Ht Fin (@nil pc) (@nil event).
    + intros v Lv. simpl. apply ord_upd. intros x; simpl; auto.
    + left. intros v. unfold live, gw. simpl. apply live_upd_sub. intros x; auto.
  - discriminate.
Qed.

Lemma rinv_init pool : rinv (init pool).
Proof.
  constructor; simpl; auto.
  intros t todo _ v Lv. exfalso. unfold live in Lv. rewrite gw_init in Lv. discriminate.
Qed.

Lemma rinv_run sch : forall s, ginv s -> rinv s -> run_guard sch s = true ->
  ginv (run fixed sch s) /\ rinv (run fixed sch s).
Proof.
  induction sch as [|[t ch] sch IH]; simpl; auto. intros s G R H. apply andb_true_iff in H. destruct H as [H1 H2].
  unfold step_or_skip in *. simpl in *. destruct (step fixed s t ch) eqn:E.
  - apply IH; auto. eapply ginv_step; eauto. eapply rinv_step; eauto.
  - apply IH; auto.
Qed.

(* Run returns only after every started worker has returned, in every schedule in which no worker is started
   while a Run call is waiting on its snapshot of the wait groups *)
Theorem run_guarded pool sch : Forall Proofs.entry pool -> run_guard sch (init pool) = true ->
  run_ok (log (run fixed sch (init pool))) = true.
Proof.
  intros Hp Hg. apply r_ok. apply rinv_run; auto. apply ginv_init; auto. apply rinv_init.
Qed.

Theorem run_guarded_split pool sch : Forall Proofs.entry pool -> run_guard sch (init pool) = true ->
  forall newer t old, log (run fixed sch (init pool)) = newer ++ EvRunRet t :: old ->
  forall v c n o, In (EvStart v c n o) old -> returned_in old v = true.
Proof.
  intros Hp Hg newer t old E v c n o Hin. pose proof (run_guarded pool sch Hp Hg) as H. rewrite E in H.
  clear E. induction newer as [|x newer IH]; simpl in H.
  - apply andb_true_iff in H. destruct H as [H _]. unfold all_returned in H. rewrite forallb_forall in H. apply (H _ Hin).
  - destruct x; auto. apply andb_true_iff in H. destruct H; auto.
Qed.

(* the known finding D20b is excluded by the guard (worker b is started while Run holds its snapshot) *)
Lemma d20b_outside_guard : run_guard Proofs.d20b_sched (init Proofs.d20b_pool) = false.
Proof. vm_compute. reflexivity. Qed.

(* non-vacuity: Run + a worker that returns on cancel + a shutdown; the guard holds, the worker is cancelled,
   Run returns after it returned *)
Definition exr_pool : list pc := [BW0 0 1 KOnCancel; ST0 true; SD0].
Definition exr_sched : list (nat * nat) :=
  Proofs.rep 5 0 ++ Proofs.rep 7 1 ++ Proofs.rep 6 2 ++ Proofs.rep 1 3 ++ Proofs.rep 2 1 ++ Proofs.rep 5 2.
Lemma exr_ok :
  Forall Proofs.entry exr_pool /\ run_guard exr_sched (init exr_pool) = true /\
  log (run fixed exr_sched (init exr_pool)) =
    [EvShutRet 2; EvRunRet 1; EvReturn 0; EvCancel 0; EvStart 0 0 0 1; EvBW 0 ROk; EvBegin 0 0].
Proof. split; [repeat constructor|]. vm_compute. auto. Qed.
