(* C20 - Run returns only after every started worker has returned, under the explicit guard that no worker is
   started while a Run call is waiting on its snapshot of the wait groups (the known finding D20b is exactly a
   start after that snapshot). *)
From Coq Require Import ZArith List Bool Lia Sorting.Sorted.
From Verif.C20_Daemon Require Import Model Base Inv Frame Preserve Hist Preserve2 Full.
Import ListNotations.
Open Scope Z_scope.

Definition is_rw1 (p : pc) : bool := match p with RW1 _ => true | _ => false end.
Definition is_start (p : pc) : bool := match p with BW6 _ | ST4 _ (_ :: _) => true | _ => false end.
(* thread t may move in s: it does not start a worker while some Run call holds a snapshot *)
Definition guard_ok (s : st) (t : nat) : bool :=
  negb (existsb is_rw1 (threads s)) ||
  match nth_error (threads s) t with Some p => negb (is_start p) | None => true end.
Fixpoint run_guard (sch : list (nat * nat)) (s : st) : bool :=
  match sch with
  | [] => true
  | tc :: r => guard_ok s (fst tc) && run_guard r (step_or_skip fixed s tc)
  end.

Record rinv (s : st) : Prop := mkR {
  r_reg : forall n w, In (n, w) (reg s) -> mem_z (ord (heap s) w) (wgmap s) = true;
  r_rw : forall t todo, thr s t (RW1 todo) -> forall v, live s v -> In (ord (heap s) v) todo;
  r_ok : run_ok (log s) = true
}.

Lemma run_ok_app es l : (forall t, ~ In (EvRunRet t) es) -> run_ok (es ++ l) = run_ok l.
Proof.
  induction es as [|e es IH]; simpl; auto. intros H. destruct e; try (apply IH; intros t0 Hin; apply (H t0); auto).
  exfalso. apply (H t). auto.
Qed.

Lemma no_rw1 s : existsb is_rw1 (threads s) = false -> forall t todo, thr s t (RW1 todo) -> False.
Proof.
  intros H t todo Ht. assert (existsb is_rw1 (threads s) = true); [|congruence].
  apply existsb_exists. exists (RW1 todo). split; auto. eapply nth_error_In; eauto.
Qed.

Lemma rinv_gen s s' t p p' extra es :
  ginv s -> rinv s -> thr s t p -> threads s' = upd (threads s) t (fun _ => p') ++ extra ->
  is_rw1 p' = false -> (forall q, In q extra -> is_rw1 q = false) ->
  (forall v, (v < length (heap s))%nat -> ord (heap s') v = ord (heap s) v) ->
  ((forall v, live s' v -> live s v) \/ (forall t' todo, thr s t' (RW1 todo) -> False)) ->
  (forall n w, In (n, w) (reg s') -> In (n, w) (reg s) \/ mem_z (ord (heap s') w) (wgmap s') = true) ->
  ((forall o, mem_z o (wgmap s) = true -> mem_z o (wgmap s') = true) \/ reg s' = []) ->
  log s' = es ++ log s -> (forall t, ~ In (EvRunRet t) es) -> rinv s'.
Proof.
  intros G R Ht Hth Hp' Hex Hord Hlive Hreg Hwg Hlog Hes.
  constructor.
  - intros n w Hin. destruct (Hreg n w Hin) as [A|A]; auto.
    destruct Hwg as [Hwg|Hwg]; [|rewrite Hwg in Hin; destruct Hin].
    apply Hwg. rewrite Hord. apply (r_reg _ R n w A). apply (g_regwf _ G _ _ A).
  - intros t' todo Ht' v Lv. unfold thr in Ht'. rewrite Hth in Ht'.
    assert (OLD : t' <> t /\ thr s t' (RW1 todo)).
    { destruct (Nat.lt_ge_cases t' (length (upd (threads s) t (fun _ => p')))) as [L|L].
      - rewrite nth_error_app1 in Ht'; auto. apply thr_upd in Ht'. destruct Ht' as [[_ E]|Ht']; auto.
        subst p'. discriminate.
      - rewrite nth_error_app2 in Ht'; auto. apply nth_error_In in Ht'. apply Hex in Ht'. discriminate. }
    destruct OLD as [Hn Hq]. destruct Hlive as [Hl|Hl]; [|destruct (Hl _ _ Hq)].
    apply Hl in Lv. rewrite Hord. apply (r_rw _ R _ _ Hq); auto. apply live_lt; auto.
  - rewrite Hlog, run_ok_app; auto. apply R.
Qed.

Ltac rg G R Ht p' extra es :=
  apply (rinv_gen _ _ _ _ p' extra es G R Ht);
  [ try solve [simpl; rewrite ?app_nil_r; reflexivity]
  | try reflexivity
  | try solve [intros ? []]
  | try solve [intros; reflexivity]
  | try solve [left; intros ? Lv; exact Lv]
  | try solve [intros ? ? Hin; left; exact Hin]
  | try solve [left; intros ? Ho; exact Ho]
  | try reflexivity
  | try solve [simpl; intuition discriminate] ].

Lemma live_upd_sub s w f v : (forall x, livew (f x) = true -> livew x = true) ->
  livew (getw (upd (heap s) w f) v) = true -> livew (getw (heap s) v) = true.
Proof. intros Hf. rewrite getw_upd. destruct (_ && _); auto. Qed.

Theorem rinv_step s t ch s' : ginv s -> rinv s -> guard_ok s t = true -> step fixed s t ch = Some s' -> rinv s'.
Proof.
  intros G R GD H. unfold step in H. destruct (crashed s); [discriminate|].
  unfold guard_ok in GD.
  destruct (nth_error (threads s) t) as [p|] eqn:Ht; [|discriminate].
  change (thr s t p) in Ht.
  destruct p; cbv zeta in H; cbn [cfg_bw_recheck cfg_start_sync fixed andb] in H.
  - (* BW0 *) simpl in H. destruct (stopped s); inversion H; subst; clear H.
    + rg G R Ht Fin (@nil pc) [EvBW t RStopped; EvBegin t n].
    + rg G R Ht (BW1 n o k) (@nil pc) [EvBegin t n].
  - (* BW1 *) destruct (lock_free s) eqn:L; inversion H; subst; clear H. rg G R Ht (BW2 n o k) (@nil pc) (@nil event).
  - (* BW2 *) destruct (stopped s) eqn:S; inversion H; subst; clear H.
    + rg G R Ht Fin (@nil pc) [EvBW t RStopped].
    + rg G R Ht (BW3 n o k) (@nil pc) (@nil event).
  - (* BW3 *) destruct (reg_find n (reg s)); [destruct (running s)|]; inversion H; subst; clear H.
    + rg G R Ht (BW4 n o k n0) (@nil pc) (@nil event).
    + rg G R Ht Fin (@nil pc) [EvBW t RDup].
    + rg G R Ht (BW5 n o k) (@nil pc) (@nil event).
  - (* BW4 *) destruct (w_flag (getw (heap s) ex)) eqn:F; inversion H; subst; clear H.
    + rg G R Ht Fin (@nil pc) [EvBW t RStillRunning].
    + rg G R Ht (BW5 n o k) (@nil pc) (@nil event).
      intros m w Hin. left. simpl in Hin. eapply remove_incl; eauto.
  - (* BW5 *) admit.
  - (* BW6 *) admit.
  - admit. - admit. - admit. - admit. - admit. - admit. - admit. - admit. - admit. - admit. - admit. - admit. - admit.
  - admit. - admit. - admit. - admit. - admit. - admit. - admit. - admit.
  - discriminate.
Admitted.
