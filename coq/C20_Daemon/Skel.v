(* C20 - the synchronisation skeleton (lock / stopOnce / stopped flag) is an inductive invariant on its own.
   Consequence for ALL schedules of the fixed configuration: once a stopOnce.Do(shutdown) has returned, no
   worker is started and no BackgroundWorker call returns nil any more. *)
From Coq Require Import ZArith List Bool Lia.
From Verif.C20_Daemon Require Import Model Base Inv Frame.
Import ListNotations.
Open Scope Z_scope.

Definition tinvA (s : st) (t : nat) (p : pc) : Prop :=
  match p with
  | BW2 _ _ _ | ST2 _ => lock s = Some t
  | BW3 _ _ _ | BW4 _ _ _ _ | BW5 _ _ _ | BW6 _ | ST3 _ | ST4 _ _ => insec_ok s t
  | SD1 => once s = OBusy
  | SD2 | SD3 | SD4 _ _ _ | SD5 _ _ _ | SD6 _ _ _ | SD7 _ | SD8 | SD9 | SD10 => once s = OBusy /\ stopped s = true
  | _ => True
  end.

(* nothing starts and no registration succeeds after a shutdown returned *)
Fixpoint skel_ok (l : list event) : bool :=
  match l with
  | [] => true
  | e :: old => (match e with EvStart _ _ _ _ | EvBW _ ROk => negb (shut_in old) | _ => true end) && skel_ok old
  end.

Record ginvA (s : st) : Prop := mkA {
  a_lock : forall t, lock s = Some t -> exists p, thr s t p /\ holds p = true;
  a_once : once s = ODone -> stopped s = true;
  a_oncefree : once s = OFree -> forall t p, thr s t p -> sdact p = false;
  a_sduniq : forall t1 t2 p1 p2, thr s t1 p1 -> thr s t2 p2 -> sdact p1 = true -> sdact p2 = true -> t1 = t2;
  a_l4 : shut_in (log s) = true -> once s = ODone;
  a_ok : skel_ok (log s) = true;
  a_tinv : forall t p, thr s t p -> tinvA s t p
}.

Lemma upd_self (l : list pc) t p p' : nth_error l t = Some p -> nth_error (upd l t (fun _ => p')) t = Some p'.
Proof. intros H. rewrite nth_error_upd, Nat.eqb_refl, H. reflexivity. Qed.

Definition plain (q : pc) : Prop := holds q = false /\ sdact q = false /\ late q = false.

Lemma thr_ext (l : list pc) t p' extra t' q :
  nth_error (upd l t (fun _ => p') ++ extra) t' = Some q ->
  (t' = t /\ q = p') \/ (t' <> t /\ nth_error l t' = Some q) \/ (In q extra /\ (length l <= t')%nat).
Proof.
  intros H. destruct (Nat.lt_ge_cases t' (length (upd l t (fun _ => p')))) as [L|L].
  - rewrite nth_error_app1 in H; auto. apply thr_upd in H. tauto.
  - rewrite nth_error_app2 in H; auto. right. right. split. eapply nth_error_In; eauto. rewrite length_upd in L. auto.
Qed.
Lemma thr_ext_old (l : list pc) t p' extra t' q : t' <> t -> nth_error l t' = Some q ->
  nth_error (upd l t (fun _ => p') ++ extra) t' = Some q.
Proof.
  intros Hn H. rewrite nth_error_app1. rewrite nth_error_upd. apply Nat.eqb_neq in Hn. rewrite Hn. auto.
  rewrite length_upd. apply nth_error_Some. congruence.
Qed.

Lemma skel_gen s s' t p p' extra :
  ginvA s -> thr s t p -> threads s' = upd (threads s) t (fun _ => p') ++ extra -> Forall plain extra ->
  ((lock s' = lock s /\ (lock s = Some t -> holds p' = true)) \/
   (lock s = None /\ lock s' = Some t /\ holds p' = true) \/ (lock s = Some t /\ lock s' = None)) ->
  ((once s' = once s /\ (sdact p' = true -> sdact p = true)) \/
   (once s = OFree /\ once s' = OBusy) \/
   (once s' = ODone /\ sdact p = true /\ late p = true /\ sdact p' = false /\ stopped s = true)) ->
  (stopped s = true -> stopped s' = true) ->
  (late p' = true -> late p = true \/ lock s = None) ->
  (shut_in (log s') = true -> once s' = ODone) ->
  skel_ok (log s') = true ->
  tinvA s' t p' ->
  ginvA s'.
Proof.
  intros G Ht Hth Hex Hlk Hon Hst Hlate Hl4 Hok Hti. unfold thr in Ht.
  assert (LT : (t < length (threads s))%nat) by (apply nth_error_Some; congruence).
  assert (OLD : forall t' q, thr s' t' q -> (t' = t /\ q = p') \/ (t' <> t /\ thr s t' q) \/ plain q).
  { unfold thr. rewrite Hth. intros t' q H. apply thr_ext in H. destruct H as [H|[H|[H _]]]; [left; auto|right; left; auto|right; right].
    rewrite Forall_forall in Hex. auto. }
  constructor; auto.
  - (* lock *)
    intros t0 L0. unfold thr. rewrite Hth.
    assert (exists q, nth_error (upd (threads s) t (fun _ => p')) t0 = Some q /\ holds q = true).
    { apply (lock_upd (threads s) (lock s) (lock s') t p p' Ht (a_lock _ G)); [|exact L0].
      destruct Hlk as [[A B]|[[A [B C]]|[A B]]]; [left|right; left|right; right]; auto. }
    destruct H as [q [Hq Hh]]. exists q. split; auto. rewrite nth_error_app1; auto. apply nth_error_Some. congruence.
  - (* once done -> stopped *)
    intros Hd. destruct Hon as [[A _]|[[_ A]|[_ [_ [_ [_ A]]]]]]; auto; try congruence.
    apply Hst. apply (a_once _ G). congruence.
  - (* once free *)
    intros Hf t0 q Hq. destruct (OLD _ _ Hq) as [[-> ->]|[[Hn Hq']|[_ [Hq' _]]]]; auto.
    + destruct Hon as [[A B]|[[_ A]|[A _]]]; try congruence.
      destruct (sdact p') eqn:E; auto. rewrite <- (a_oncefree _ G (eq_trans (eq_sym A) Hf) _ _ Ht). symmetry; auto.
    + destruct Hon as [[A B]|[[_ A]|[A _]]]; try congruence. eapply (a_oncefree _ G); eauto. congruence.
  - (* uniqueness of the shutdown thread *)
    intros t1 t2 p1 p2 H1 H2 S1 S2.
    assert (K : sdact p' = true -> sdact p = true \/ forall t0 q, thr s t0 q -> sdact q = false).
    { intros S. destruct Hon as [[A B]|[[A B]|[_ [_ [_ [B _]]]]]]; auto; try congruence. right. apply (a_oncefree _ G A). }
    destruct (OLD _ _ H1) as [[-> ->]|[[N1 Q1]|[_ [Q1 _]]]], (OLD _ _ H2) as [[-> ->]|[[N2 Q2]|[_ [Q2 _]]]];
      auto; try congruence.
    + destruct (K S1) as [A|A]. eapply (a_sduniq _ G); eauto. rewrite (A _ _ Q2) in S2. discriminate.
    + destruct (K S2) as [A|A]. eapply (a_sduniq _ G); eauto. rewrite (A _ _ Q1) in S1. discriminate.
    + eapply (a_sduniq _ G); eauto.
  - (* threads *)
    intros t0 q Hq. destruct (OLD _ _ Hq) as [[-> ->]|[[Hn Hq']|[Hh [Hs Hl]]]]; auto.
    2:{ destruct q; simpl in *; try discriminate; auto. }
    pose proof (a_tinv _ G _ _ Hq') as Hi.
    assert (LK : lock s = Some t0 -> lock s' = Some t0).
    { intros L. destruct Hlk as [[A B]|[[A [B C]]|[A B]]]; congruence. }
    assert (IS : insec_ok s t0 -> insec_ok s' t0).
    { unfold insec_ok, nolate. intros [L [N O]]. split; [auto|]. split.
      - rewrite Hth. intros t1 q1 H1. apply thr_ext in H1. destruct H1 as [[-> ->]|[[_ H1]|[H1 _]]]; eauto.
        + destruct (late p') eqn:E; auto. destruct (Hlate eq_refl) as [A|A]; [|congruence].
          exfalso. exact (nolateL_has _ _ _ N Ht A).
        + rewrite Forall_forall in Hex. apply Hex in H1. apply H1.
      - destruct Hon as [[A _]|[[A B]|[A [_ [B _]]]]]; try congruence.
        exfalso. exact (nolateL_has _ _ _ N Ht B). }
    assert (OB : sdact q = true -> once s = OBusy -> once s' = OBusy).
    { intros S O. destruct Hon as [[A _]|[[A B]|[A [B _]]]]; try congruence.
      exfalso. apply Hn. eapply (a_sduniq _ G); eauto. }
    destruct q; simpl in Hi |- *; auto; try (destruct Hi; split; auto).
Qed.

Lemma upd_app {A} (l x : list A) t f : (t < length l)%nat -> upd (l ++ x) t f = upd l t f ++ x.
Proof. revert t; induction l; intros [|t] H; simpl in *; try lia; auto. rewrite IHl; auto. lia. Qed.
Lemma thr_lt s t p : thr s t p -> (t < length (threads s))%nat.
Proof. unfold thr. intros H. apply nth_error_Some. congruence. Qed.

Lemma lockfree_none s : lock_free s = true -> lock s = None.
Proof. unfold lock_free. destruct (lock s); auto; discriminate. Qed.
Lemma not_holder s t p : ginvA s -> thr s t p -> holds p = false -> lock s = Some t -> False.
Proof. intros G Ht Hh L. destruct (a_lock _ G _ L) as [q [Hq Hq']]. unfold thr in *. congruence. Qed.
Lemma unstoppedA s : ginvA s -> stopped s = false -> nolate s /\ once s <> ODone.
Proof.
  intros G Hs. split.
  - intros t0 q Hq. destruct (late q) eqn:E; auto. pose proof (a_tinv _ G _ _ Hq) as Hi.
    destruct q; simpl in E; try discriminate; simpl in Hi; destruct Hi; congruence.
  - intros Ho. apply (a_once _ G) in Ho. congruence.
Qed.
Lemma noshut s : ginvA s -> once s <> ODone -> shut_in (log s) = false.
Proof. intros G H. destruct (shut_in (log s)) eqn:E; auto. exfalso. apply H. apply (a_l4 _ G); auto. Qed.
Lemma insec_keep s s' t : insec_ok s t -> lock s' = lock s -> once s' = once s -> nolate s' -> insec_ok s' t.
Proof. unfold insec_ok. intros [A [B C]] -> -> N. auto. Qed.

(* the generic finishing tactic: G : ginvA s, Ht : thr s t p, Hi : tinvA s t p (simplified) *)
Ltac sk G Ht p p' extra :=
  apply (skel_gen _ _ _ p p' extra G Ht); simpl; rewrite ?app_nil_r;
  try reflexivity;
  try solve [ auto | repeat constructor | intros; discriminate | intros; congruence
            | apply G | rewrite (a_ok _ G); reflexivity
            | left; split; [reflexivity|]; auto; let L := fresh in intros L; exfalso; eapply not_holder; eauto
            | left; split; [reflexivity|]; auto; intros; discriminate ].

Theorem skel_step s t ch s' : ginvA s -> step fixed s t ch = Some s' -> ginvA s'.
Proof.
  intros G H. unfold step in H. destruct (crashed s); [discriminate|].
  destruct (nth_error (threads s) t) as [p|] eqn:Ht; [|discriminate].
  pose proof (a_tinv _ G _ _ Ht) as Hi.
  destruct p; simpl in Hi; cbv zeta in H; cbn [cfg_bw_recheck cfg_start_sync fixed andb] in H.
  - (* BW0 *) simpl in H. destruct (stopped s); inversion H; subst; clear H.
    + sk G Ht (BW0 n o k) Fin (@nil pc).
    + sk G Ht (BW0 n o k) (BW1 n o k) (@nil pc).
  - (* BW1 *) destruct (lock_free s) eqn:L; inversion H; subst; clear H. apply lockfree_none in L.
    sk G Ht (BW1 n o k) (BW2 n o k) (@nil pc).
  - (* BW2 *) destruct (stopped s) eqn:S; inversion H; subst; clear H.
    + sk G Ht (BW2 n o k) Fin (@nil pc).
    + destruct (unstoppedA _ G S) as [N O]. sk G Ht (BW2 n o k) (BW3 n o k) (@nil pc).
      unfold insec_ok, nolate; simpl. repeat split; auto. apply nolateL_upd; auto.
  - (* BW3 *) destruct Hi as [L [N O]].
    destruct (reg_find n (reg s)); [destruct (running s)|]; inversion H; subst; clear H.
    + sk G Ht (BW3 n o k) (BW4 n o k n0) (@nil pc). unfold insec_ok, nolate; simpl. repeat split; auto. apply nolateL_upd; auto.
    + sk G Ht (BW3 n o k) Fin (@nil pc).
    + sk G Ht (BW3 n o k) (BW5 n o k) (@nil pc). unfold insec_ok, nolate; simpl. repeat split; auto. apply nolateL_upd; auto.
  - (* BW4 *) destruct Hi as [L [N O]].
    destruct (w_flag (getw (heap s) ex)); inversion H; subst; clear H.
    + sk G Ht (BW4 n o k ex) Fin (@nil pc).
    + sk G Ht (BW4 n o k ex) (BW5 n o k) (@nil pc). unfold insec_ok, nolate; simpl. repeat split; auto. apply nolateL_upd; auto.
  - (* BW5 *) destruct Hi as [L [N O]]. pose proof (noshut _ G O) as NS.
    destruct (cleared s); [inversion H; subst; destruct G; constructor; auto|].
    destruct (mem_z o (wgmap s)); simpl in H;
    (match type of H with (if ?b then _ else _) = _ => destruct b eqn:R end; inversion H; subst; clear H;
     [ sk G Ht (BW5 n o k) (BW6 (length (heap s))) (@nil pc) | sk G Ht (BW5 n o k) Fin (@nil pc) ]).
    all: try (unfold insec_ok, nolate; simpl; repeat split; auto; apply nolateL_upd; auto).
    all: try (rewrite NS, (a_ok _ G); reflexivity).
  - (* BW6 *) destruct Hi as [L [N O]]. pose proof (noshut _ G O) as NS. inversion H; subst; clear H.
    sk G Ht (BW6 w) Fin [WB w].
    all: try (apply upd_app; eapply thr_lt; eauto).
    all: try solve [repeat constructor].
    all: try solve [rewrite ?NS; simpl; rewrite ?NS, ?(a_ok _ G); auto; apply G].
  - (* ST0 *) destruct (stopped s); inversion H; subst; clear H.
    + unfold after_start. destruct run. sk G Ht (ST0 true) RW0 (@nil pc). sk G Ht (ST0 false) Fin (@nil pc).
    + sk G Ht (ST0 run) (ST1 run) (@nil pc).
  - (* ST1 *) destruct (lock_free s) eqn:L; inversion H; subst; clear H. apply lockfree_none in L.
    sk G Ht (ST1 run) (ST2 run) (@nil pc).
  - (* ST2 *) destruct (stopped s) eqn:S; inversion H; subst; clear H.
    + unfold after_start. destruct run. sk G Ht (ST2 true) RW0 (@nil pc). sk G Ht (ST2 false) Fin (@nil pc).
    + destruct (unstoppedA _ G S) as [N O]. sk G Ht (ST2 run) (ST3 run) (@nil pc).
      unfold insec_ok, nolate; simpl. repeat split; auto. apply nolateL_upd; auto.
  - (* ST3 *) destruct Hi as [L [N O]]. destruct (running s); inversion H; subst; clear H.
    + unfold after_start. destruct run. sk G Ht (ST3 true) RW0 (@nil pc). sk G Ht (ST3 false) Fin (@nil pc).
    + sk G Ht (ST3 run) (ST4 run (map snd (reg s))) (@nil pc).
      unfold insec_ok, nolate; simpl. repeat split; auto. apply nolateL_upd; auto.
  - (* ST4 *) destruct Hi as [L [N O]]. pose proof (noshut _ G O) as NS.
    destruct todo as [|w r]; inversion H; subst; clear H.
    + unfold after_start. destruct run. sk G Ht (ST4 true []) RW0 (@nil pc). sk G Ht (ST4 false []) Fin (@nil pc).
    + sk G Ht (ST4 run (w :: r)) (ST4 run r) [WB w].
      all: try (apply upd_app; eapply thr_lt; eauto).
      all: try solve [repeat constructor].
      all: try solve [rewrite ?NS; simpl; rewrite ?NS, ?(a_ok _ G); auto; apply G].
      all: try (unfold insec_ok, nolate; simpl; repeat split; auto; rewrite upd_app; [|eapply thr_lt; eauto]; apply nolateL_snoc; apply nolateL_upd; auto).
  - (* RW0 *) destruct (lock_free s); inversion H; subst; clear H. sk G Ht RW0 (RW1 (wgmap s)) (@nil pc).
  - (* RW1 *) destruct todo as [|z r]; [|destruct (nth_error (z :: r) ch); [|discriminate];
      match type of H with (if ?b then _ else _) = _ => destruct b end]; inversion H; subst; clear H.
    + sk G Ht (RW1 []) Fin (@nil pc).
    + sk G Ht (RW1 (z :: r)) (RW1 (remove_nth ch (z :: r))) (@nil pc).
  - (* SD0 *) destruct (once s) eqn:O; inversion H; subst; clear H.
    + sk G Ht SD0 SD1 (@nil pc). intros Hs. apply (a_l4 _ G) in Hs. congruence.
    + sk G Ht SD0 Fin (@nil pc).
  - (* SD1 *) inversion H; subst; clear H. sk G Ht SD1 SD2 (@nil pc).
  - (* SD2 *) destruct Hi as [O S]. destruct (lock_free s) eqn:L; simpl in H; [|discriminate]. apply lockfree_none in L.
    destruct (running s); inversion H; subst; clear H.
    + sk G Ht SD2 SD3 (@nil pc).
    + sk G Ht SD2 SD10 (@nil pc).
  - (* SD3 *) destruct Hi as [O S]. destruct (lock_free s); [|discriminate].
    destruct (map snd (reg s)); inversion H; subst; clear H.
    + sk G Ht SD3 SD8 (@nil pc).
    + sk G Ht SD3 (SD4 [] (n :: l) (ord (heap s) n)) (@nil pc).
  - (* SD4 *) destruct Hi as [O S]. destruct todo as [|w r]; [|destruct (negb (w_flag (getw (heap s) w))); [|destruct (ord (heap s) w <? prev)]];
      inversion H; subst; clear H.
    + sk G Ht (SD4 done [] prev) (SD7 prev) (@nil pc).
    + sk G Ht (SD4 done (w :: r) prev) (SD4 (done ++ [w]) r prev) (@nil pc).
    + sk G Ht (SD4 done (w :: r) prev) (SD5 done (w :: r) prev) (@nil pc).
    + sk G Ht (SD4 done (w :: r) prev) (SD6 done (w :: r) prev) (@nil pc).
  - (* SD5 *) destruct Hi as [O S]. destruct todo as [|w r]; [discriminate|].
    destruct (negb (mem_z prev (wgmap s))); [inversion H; subst; destruct G; constructor; auto|].
    destruct (Nat.eqb (wg_get prev (wgcnt s)) 0); inversion H; subst; clear H.
    sk G Ht (SD5 done (w :: r) prev) (SD6 done (w :: r) (ord (heap s) w)) (@nil pc).
  - (* SD6 *) destruct Hi as [O S]. destruct todo as [|w r]; inversion H; subst; clear H.
    sk G Ht (SD6 done (w :: r) prev) (SD4 (done ++ [w]) r prev) (@nil pc).
  - (* SD7 *) destruct Hi as [O S].
    destruct (negb (mem_z prev (wgmap s))); [inversion H; subst; destruct G; constructor; auto|].
    destruct (Nat.eqb (wg_get prev (wgcnt s)) 0); inversion H; subst; clear H.
    sk G Ht (SD7 prev) SD8 (@nil pc).
  - (* SD8 *) destruct Hi as [O S]. inversion H; subst; clear H. sk G Ht SD8 SD9 (@nil pc).
  - (* SD9 *) destruct Hi as [O S]. destruct (lock_free s); inversion H; subst; clear H. sk G Ht SD9 SD10 (@nil pc).
  - (* SD10 *) destruct Hi as [O S]. inversion H; subst; clear H.
    sk G Ht SD10 Fin (@nil pc). right; right; auto.
  - (* WB *) match type of H with (if ?b then _ else _) = _ => destruct b end; inversion H; subst; clear H.
    sk G Ht (WB w) (WC w) (@nil pc).
  - (* WC *) destruct (lock_free s); [|discriminate]. destruct (stopped s); inversion H; subst; clear H.
    + sk G Ht (WC w) (WU w) (@nil pc).
    + sk G Ht (WC w) (WU w) (@nil pc).
  - (* WU *) inversion H; subst; clear H. sk G Ht (WU w) Fin (@nil pc).
  - discriminate.
Qed.
