(* Correspondence for C07: a case is an event history together with what kvstore.Sequence did on it
   (the output of every event and the stored mark after every event). *)
From Coq Require Import NArith List Bool.
From Verif.C07_Seq Require Import Model.
Import ListNotations.
Open Scope N_scope.

Record case := mk { c_hist : list ev; c_obs : list (out * option N) }.

Definition out_eqb (a b : out) : bool :=
  match a, b with
  | ONone, ONone | OErr, OErr | OPanic, OPanic => true
  | ONum x, ONum y => x =? y
  | _, _ => false
  end.

Definition optN_eqb (a b : option N) : bool :=
  match a, b with None, None => true | Some x, Some y => x =? y | _, _ => false end.

Fixpoint agree (s : st) (h : list ev) (obs : list (out * option N)) : bool :=
  match h, obs with
  | [], [] => true
  | e :: r, (o, d) :: obs' =>
      let '(s1, o1) := step s e in
      out_eqb o o1 && optN_eqb d (disk s1) && agree s1 r obs'
  | _, _ => false
  end.

Fixpoint mismatches_from (i : nat) (cs : list case) : list nat :=
  match cs with
  | [] => []
  | c :: r => if agree init (c_hist c) (c_obs c) then mismatches_from (S i) r else i :: mismatches_from (S i) r
  end.

Definition mismatches (cs : list case) : list nat := mismatches_from 0 cs.
