(* C07 - model of kvstore/sequence.go (Sequence over a KVStore key), after the D07 repair.
   The backing store is reduced to the 8-byte big-endian mark under the sequence key
   (disk : option N; None = key absent).  Arithmetic is uint64: every addition wraps mod 2^64,
   and the state records whether any addition wrapped ([wrapped]) so theorems can exclude it. *)
From Coq Require Import NArith List Bool.
Import ListNotations.
Open Scope N_scope.

Definition W : N := 18446744073709551616.   (* 2^64 *)

Record obj := { next : N; reserved : N; interval : N }.

(* store faults injected into one call *)
Inductive fault := NoFault | FailGet | FailSet.

(* where the owning process stops inside Next *)
Inductive crashpt := AfterRead | AfterWrite.

Inductive ev :=
| ENew (i : N)            (* NewSequence(store,key,i): the previous object (if any) is abandoned *)
| ENext (f : fault)       (* Next(); store error f is returned to the caller, the object lives on *)
| ENextCrash (p : crashpt)(* the process stops inside Next at p; the object is gone *)
| ERelease (fails : bool) (* Release(); fails = the store Set returns an error (store untouched) *)
| EAbandon.               (* the object is dropped between calls *)

Inductive out := ONone | ONum (v : N) | OErr | OPanic.

Record st := { disk : option N; live : option obj; returned : list N (* newest first *); wrapped : bool }.

Definition init : st := {| disk := None; live := None; returned := []; wrapped := false |}.

Definition disk_val (d : option N) : N := match d with Some v => v | None => 0 end.

Definition addw (a b : N) : N * bool := ((a + b) mod W, W <=? a + b).

Definition step (s : st) (e : ev) : st * out :=
  match e with
  | ENew i =>
      if i =? 0 then (s, OPanic) else     (* NewSequence panics on interval 0: no object is created *)
      ({| disk := disk s; live := Some {| next := 0; reserved := 0; interval := i |};
          returned := returned s; wrapped := wrapped s |}, ONone)
  | EAbandon => ({| disk := disk s; live := None; returned := returned s; wrapped := wrapped s |}, ONone)
  | ENext f =>
      match live s with
      | None => (s, ONone)
      | Some o =>
          if reserved o <=? next o then
            (* update() *)
            match f with
            | FailGet => (s, OErr)
            | _ =>
                let num := disk_val (disk s) in
                let '(res, w1) := addw num (interval o) in
                match f with
                | FailSet =>
                    ({| disk := disk s; live := Some {| next := num; reserved := reserved o; interval := interval o |};
                        returned := returned s; wrapped := wrapped s |}, OErr)
                | _ =>
                    let '(nx, w2) := addw num 1 in
                    ({| disk := Some res; live := Some {| next := nx; reserved := res; interval := interval o |};
                        returned := num :: returned s; wrapped := wrapped s || w1 || w2 |}, ONum num)
                end
            end
          else
            let '(nx, w2) := addw (next o) 1 in
            ({| disk := disk s; live := Some {| next := nx; reserved := reserved o; interval := interval o |};
                returned := next o :: returned s; wrapped := wrapped s || w2 |}, ONum (next o))
      end
  | ENextCrash p =>
      match live s with
      | None => (s, ONone)
      | Some o =>
          if reserved o <=? next o then
            match p with
            | AfterRead => ({| disk := disk s; live := None; returned := returned s; wrapped := wrapped s |}, ONone)
            | AfterWrite =>
                let '(res, w1) := addw (disk_val (disk s)) (interval o) in
                ({| disk := Some res; live := None; returned := returned s; wrapped := wrapped s || w1 |}, ONone)
            end
          else ({| disk := disk s; live := None; returned := returned s; wrapped := wrapped s |}, ONone)
      end
  | ERelease fails =>
      match live s with
      | None => (s, ONone)
      | Some o =>
          if reserved o <=? next o then (s, ONone)         (* nothing leased: nothing to give back (D07 repair) *)
          else if fails then (s, OErr)
          else ({| disk := Some (next o); live := Some {| next := next o; reserved := next o; interval := interval o |};
                   returned := returned s; wrapped := wrapped s |}, ONone)
      end
  end.

Fixpoint run (s : st) (h : list ev) : st * list out :=
  match h with
  | [] => (s, [])
  | e :: r => let '(s1, o) := step s e in let '(s2, os) := run s1 r in (s2, o :: os)
  end.

(* The pinned (pre-repair) Release, kept to exhibit the defect D07. *)
Definition step_pinned (s : st) (e : ev) : st * out :=
  match e, live s with
  | ERelease false, Some o =>
      ({| disk := Some (next o); live := Some {| next := next o; reserved := next o; interval := interval o |};
          returned := returned s; wrapped := wrapped s |}, ONone)
  | _, _ => step s e
  end.

Fixpoint run_pinned (s : st) (h : list ev) : st :=
  match h with [] => s | e :: r => run_pinned (fst (step_pinned s e)) r end.
