From Coq Require Import NArith List Bool Lia Sorting.Sorted ZifyBool ZifyN.
From Verif.C07_Seq Require Import Model.
Import ListNotations.
Open Scope N_scope.

(* the smallest number that can still be handed out *)
Definition lim (s : st) : N :=
  match live s with
  | Some o => if next o <? reserved o then next o else disk_val (disk s)
  | None => disk_val (disk s)
  end.

Definition obj_ok (d : N) (o : obj) : Prop :=
  reserved o <= d /\ next o <= d /\ 1 <= interval o /\ (next o < reserved o -> d <= next o + interval o).

Definition Inv (s : st) : Prop :=
  (forall v, In v (returned s) -> v < lim s) /\
  StronglySorted (fun a b => b < a) (returned s) /\
  match live s with Some o => obj_ok (disk_val (disk s)) o | None => True end.

Lemma inv_init : Inv init.
Proof. repeat split; simpl; try constructor; intros v []. Qed.

Lemma addw_nowrap a b r w : addw a b = (r, w) -> w = false -> r = a + b.
Proof.
  unfold addw. intros E Hw. inversion E; subst. apply N.leb_gt in H1.
  apply N.mod_small. exact H1.
Qed.

Lemma sorted_cons v l : (forall x, In x l -> x < v) -> StronglySorted (fun a b => b < a) l ->
  StronglySorted (fun a b => b < a) (v :: l).
Proof. intros H S. constructor; [exact S|]. apply Forall_forall. exact H. Qed.

Ltac case_if := match goal with |- context [if ?c then _ else _] => destruct c eqn:? end.

Ltac orb_false :=
  repeat match goal with
  | H : _ || _ = false |- _ => apply orb_false_elim in H; destruct H
  end.

(* One step preserves the invariant as long as no uint64 addition wrapped in it. *)
Lemma step_inv s e : Inv s -> wrapped (fst (step s e)) = false -> Inv (fst (step s e)).
Proof.
  intros [Hlt [Hs Ho]] Hw. unfold Inv, lim in *.
  destruct e as [i | f | p | fails | ]; cbn [step] in *.
  - (* ENew *) destruct (i =? 0) eqn:Ei; cbn in *; [repeat split; assumption|].
    repeat split; try assumption; cbn; try lia.
    intros v Hv. specialize (Hlt v Hv). destruct (live s) as [o|]; [|exact Hlt].
    destruct Ho as (H1 & H2 & H3 & H4). destruct (next o <? reserved o) eqn:E; lia.
  - (* ENext *)
    destruct (live s) as [o|] eqn:El; [|cbn in *; rewrite El; repeat split; assumption].
    destruct Ho as (H1 & H2 & H3 & H4).
    destruct (reserved o <=? next o) eqn:Ex.
    + assert (Hlim : forall v, In v (returned s) -> v < disk_val (disk s)).
      { intros v Hv. specialize (Hlt v Hv). replace (next o <? reserved o) with false in Hlt by lia. exact Hlt. }
      destruct f.
      * (* NoFault *)
        destruct (addw (disk_val (disk s)) (interval o)) as [res w1] eqn:A1.
        destruct (addw (disk_val (disk s)) 1) as [nx w2] eqn:A2.
        cbn in *. orb_false.
        apply addw_nowrap in A1; [|assumption]. apply addw_nowrap in A2; [|assumption]. subst res nx.
        repeat split.
        -- intros v [<-|Hv]; [|specialize (Hlim v Hv)]; case_if; lia.
        -- apply sorted_cons; assumption.
        -- cbn. lia.
        -- cbn. lia.
        -- cbn. lia.
        -- cbn. lia.
      * (* FailGet *) cbn in *. rewrite El. repeat split; try assumption.
      * (* FailSet *)
        destruct (addw (disk_val (disk s)) (interval o)) as [res w1] eqn:A1. cbn in *.
        repeat split; try assumption; cbn; try lia.
        intros v Hv. specialize (Hlim v Hv). case_if; lia.
    + destruct (addw (next o) 1) as [nx w2] eqn:A2. cbn in *. orb_false.
      apply addw_nowrap in A2; [|assumption]. subst nx.
      assert (Hlim : forall v, In v (returned s) -> v < next o).
      { intros v Hv. specialize (Hlt v Hv). replace (next o <? reserved o) with true in Hlt by lia. exact Hlt. }
      repeat split; cbn; try lia.
      * intros v [<-|Hv]; [|specialize (Hlim v Hv)]; case_if; lia.
      * apply sorted_cons; assumption.
  - (* ENextCrash *)
    destruct (live s) as [o|] eqn:El; [|cbn in *; rewrite El; repeat split; assumption].
    destruct Ho as (H1 & H2 & H3 & H4).
    destruct (reserved o <=? next o) eqn:Ex.
    + destruct p.
      * cbn in *. repeat split; try assumption. intros v Hv. specialize (Hlt v Hv).
        replace (next o <? reserved o) with false in Hlt by lia. exact Hlt.
      * destruct (addw (disk_val (disk s)) (interval o)) as [res w1] eqn:A1. cbn in *. orb_false.
        apply addw_nowrap in A1; [|assumption]. subst res.
        repeat split; try assumption. intros v Hv. specialize (Hlt v Hv).
        replace (next o <? reserved o) with false in Hlt by lia. cbn. lia.
    + cbn in *. repeat split; try assumption. intros v Hv. specialize (Hlt v Hv).
      replace (next o <? reserved o) with true in Hlt by lia. lia.
  - (* ERelease *)
    destruct (live s) as [o|] eqn:El; [|cbn in *; rewrite El; repeat split; assumption].
    destruct Ho as (H1 & H2 & H3 & H4).
    destruct (reserved o <=? next o) eqn:Ex; [cbn in *; rewrite El; repeat split; assumption|].
    destruct fails; [cbn in *; rewrite El; repeat split; assumption|].
    cbn in *. repeat split; try assumption; cbn; try lia.
    intros v Hv. specialize (Hlt v Hv). replace (next o <? reserved o) with true in Hlt by lia.
    rewrite N.ltb_irrefl. exact Hlt.
  - (* EAbandon *) cbn in *. repeat split; try assumption.
    intros v Hv. specialize (Hlt v Hv). destruct (live s) as [o|]; [|exact Hlt].
    destruct Ho as (H1 & H2 & H3 & H4). destruct (next o <? reserved o) eqn:E; lia.
Qed.

Lemma wrapped_mono s e : wrapped s = true -> wrapped (fst (step s e)) = true.
Proof.
  intros Hw. destruct e as [i | f | p | fails | ]; cbn [step].
  - destruct (i =? 0); exact Hw.
  - destruct (live s) as [o|]; [|exact Hw]. destruct (reserved o <=? next o).
    + destruct f; try exact Hw.
      destruct (addw _ _) as [res w1]. destruct (addw _ 1) as [nx w2]. cbn. now rewrite Hw.
    + destruct (addw _ _) as [nx w2]. cbn. now rewrite Hw.
  - destruct (live s) as [o|]; [|exact Hw]. destruct (reserved o <=? next o); [|exact Hw].
    destruct p; [exact Hw|]. destruct (addw _ _) as [res w1]. cbn. now rewrite Hw.
  - destruct (live s) as [o|]; [|exact Hw]. destruct (reserved o <=? next o); [exact Hw|].
    destruct fails; exact Hw.
  - exact Hw.
Qed.

Lemma run_wrapped_mono h : forall s, wrapped s = true -> wrapped (fst (run s h)) = true.
Proof.
  induction h as [|e r IH]; intros s Hw; cbn [run]; [exact Hw|].
  destruct (step s e) as [s1 o] eqn:E1. destruct (run s1 r) as [s2 os] eqn:E2. cbn.
  specialize (IH s1). rewrite E2 in IH. apply IH.
  pose proof (wrapped_mono s e Hw) as M. now rewrite E1 in M.
Qed.

Theorem run_inv h : forall s, Inv s -> wrapped (fst (run s h)) = false -> Inv (fst (run s h)).
Proof.
  induction h as [|e r IH]; intros s HI Hw; cbn [run] in *; [exact HI|].
  destruct (step s e) as [s1 o] eqn:E1. destruct (run s1 r) as [s2 os] eqn:E2. cbn in *.
  specialize (IH s1). rewrite E2 in IH. cbn in IH. apply IH; [|exact Hw].
  pose proof (step_inv s e HI) as P. rewrite E1 in P. apply P. cbn.
  destruct (wrapped s1) eqn:W1; [|reflexivity].
  pose proof (run_wrapped_mono r s1 W1) as M. rewrite E2 in M. cbn in M. congruence.
Qed.

(* --- the property: numbers handed out over the whole life of the store are strictly increasing --- *)
Theorem no_reuse (h : list ev) :
  wrapped (fst (run init h)) = false ->
  StronglySorted N.lt (rev (returned (fst (run init h)))).
Proof.
  intros Hw. destruct (run_inv h init inv_init Hw) as [_ [Hs _]].
  revert Hs. generalize (returned (fst (run init h))). intros l Hs.
  induction Hs as [|a l Hs IH Ha]; cbn; [constructor|].
  (* rev l ++ [a]: a is larger than everything in l *)
  clear Hs. revert IH. rewrite Forall_forall in Ha.
  assert (Hall : forall x, In x (rev l) -> x < a) by (intros x Hx; apply Ha; now apply in_rev).
  revert Hall. generalize (rev l). intros m Hall IH.
  induction IH as [|b m Hm IHm Hb]; cbn.
  - constructor; [constructor|constructor].
  - constructor.
    + apply IHm. intros x Hx. apply Hall. now right.
    + apply Forall_app. split; [exact Hb|]. constructor; [|constructor]. apply Hall. now left.
Qed.

(* the outputs of a run are exactly the returned numbers, oldest first *)
Fixpoint nums (os : list out) : list N :=
  match os with [] => [] | ONum v :: r => v :: nums r | _ :: r => nums r end.

Lemma step_returned s e :
  returned (fst (step s e)) = match snd (step s e) with ONum v => v :: returned s | _ => returned s end.
Proof.
  destruct e as [i | f | p | fails | ]; cbn [step].
  - destruct (i =? 0); reflexivity.
  - destruct (live s) as [o|]; [|reflexivity]. destruct (reserved o <=? next o).
    + destruct f; try reflexivity.
    + destruct (addw _ _) as [nx w2]. reflexivity.
  - destruct (live s) as [o|]; [|reflexivity]. destruct (reserved o <=? next o); [|reflexivity].
    destruct p; [reflexivity|]. destruct (addw _ _) as [res w1]. reflexivity.
  - destruct (live s) as [o|]; [|reflexivity]. destruct (reserved o <=? next o); [reflexivity|].
    destruct fails; reflexivity.
  - reflexivity.
Qed.

Lemma run_returned h : forall s, rev (returned (fst (run s h))) = rev (returned s) ++ nums (snd (run s h)).
Proof.
  induction h as [|e r IH]; intros s; cbn [run]; [cbn; now rewrite app_nil_r|].
  destruct (step s e) as [s1 o] eqn:E1. destruct (run s1 r) as [s2 os] eqn:E2. cbn.
  specialize (IH s1). rewrite E2 in IH. cbn in IH. rewrite IH.
  pose proof (step_returned s e) as R. rewrite E1 in R. cbn in R. rewrite R.
  destruct o; cbn; try reflexivity. now rewrite <- app_assoc.
Qed.

Theorem no_reuse_outputs (h : list ev) :
  wrapped (fst (run init h)) = false -> StronglySorted N.lt (nums (snd (run init h))).
Proof.
  intros Hw. pose proof (no_reuse h Hw) as S. now rewrite run_returned in S.
Qed.

(* --- waste bounds --- *)
(* A crash (inside Next at any point, or between calls) of a reachable state advances the
   smallest-still-available number by at most the interval of the crashed object. *)
Theorem crash_waste s o e :
  Inv s -> live s = Some o -> (e = EAbandon \/ exists p, e = ENextCrash p) ->
  wrapped (fst (step s e)) = false ->
  let s' := fst (step s e) in
  live s' = None /\ lim s <= lim s' <= lim s + interval o.
Proof.
  intros [Hlt [Hs Ho]] El He Hw. rewrite El in Ho. destruct Ho as (H1 & H2 & H3 & H4).
  destruct He as [->|[p ->]]; cbn [step] in *.
  - cbn. split; [reflexivity|]. unfold lim. cbn. rewrite El. destruct (next o <? reserved o) eqn:E; lia.
  - rewrite El in *. destruct (reserved o <=? next o) eqn:Ex.
    + destruct p.
      * cbn. split; [reflexivity|]. unfold lim. cbn. rewrite El. replace (next o <? reserved o) with false by lia. lia.
      * destruct (addw (disk_val (disk s)) (interval o)) as [res w1] eqn:A1. cbn in *. orb_false.
        apply addw_nowrap in A1; [|assumption]. subst res.
        split; [reflexivity|]. unfold lim. cbn. rewrite El. replace (next o <? reserved o) with false by lia. lia.
    + cbn. split; [reflexivity|]. unfold lim. cbn. rewrite El. replace (next o <? reserved o) with true by lia. lia.
Qed.

(* A successful Release wastes nothing: the store mark becomes exactly the next unreturned number. *)
Theorem release_no_waste s o :
  Inv s -> live s = Some o -> snd (step s (ERelease false)) = ONone ->
  let s' := fst (step s (ERelease false)) in
  lim s' = lim s /\ (next o < reserved o -> disk s' = Some (lim s)).
Proof.
  intros [Hlt [Hs Ho]] El _. rewrite El in Ho. destruct Ho as (H1 & H2 & H3 & H4).
  cbn [step]. rewrite El. destruct (reserved o <=? next o) eqn:Ex.
  - cbn. split; [reflexivity|lia].
  - cbn. unfold lim. cbn. rewrite El. rewrite N.ltb_irrefl.
    replace (next o <? reserved o) with true by lia. split; [reflexivity|reflexivity].
Qed.

(* after any crash the first number a new object hands out is lim (nothing below it is ever returned again,
   nothing at or above it was returned before) *)
Theorem restart_starts_at_lim s i :
  Inv s -> live s = None -> i <> 0 -> wrapped (fst (run s [ENew i; ENext NoFault])) = false ->
  snd (run s [ENew i; ENext NoFault]) = [ONone; ONum (lim s)].
Proof.
  intros _ El Hi Hw. unfold lim. rewrite El. cbn [run step] in *.
  apply N.eqb_neq in Hi. rewrite Hi in *. cbn [live reserved next N.leb] in *.
  cbn in *. destruct (addw (disk_val (disk s)) i) as [res w1]. destruct (addw (disk_val (disk s)) 1) as [nx w2]. reflexivity.
Qed.

(* --- the defect of the pinned code (D07): Release on an object that never leased rolls the mark back --- *)
Definition d07_history : list ev :=
  [ENew 10; ENext NoFault; EAbandon; ENew 10; ERelease false; EAbandon; ENew 10; ENext NoFault].

Theorem refuted_release_fresh_pinned :
  returned (run_pinned init d07_history) = [0; 0].
Proof. vm_compute. reflexivity. Qed.

Example repaired_release_fresh : nums (snd (run init d07_history)) = [0; 10].
Proof. vm_compute. reflexivity. Qed.

(* non-vacuity: a history with crashes at both points, faults, releases and the suite's own
   interval = MaxUint64 does not wrap *)
Example nowrap_example :
  wrapped (fst (run init [ENew 3; ENext NoFault; ENext FailSet; ENext NoFault; ENextCrash AfterWrite; ENew 9223372036854775808;
                          ERelease false; ENext FailGet; ENext NoFault; ERelease false; EAbandon; ENew 2; ENext NoFault;
                          ENextCrash AfterRead; ENew 1; ENext NoFault; ENext NoFault])) = false.
Proof. vm_compute. reflexivity. Qed.
