(* C02/C01 part "prims" - executable model of the byte-level primitives of serializer/serializer.go
   (the Write.. methods of Serializer, the Read.. methods of Deserializer), typeutils/from_bytes.go and the decode loop of
   ds/serializableorderedmap, as the code is after the fix: commits 2366906 (D01b+D02a).
   Bytes are N (< 256 on every path that comes from Go); numbers and lengths are Z (Go int / uintN / intN);
   every function returns an explicit outcome (Ok / Err class / Panic) and an abstract cost:
   one unit per byte handed to make() and one per loop iteration.  No proofs in this file. *)
From Coq Require Import ZArith NArith List Bool.
Import ListNotations.

(* ---------- outcomes ---------- *)

Inductive eclass :=
| ENotEnough        (* ErrDeserializationNotEnoughData *)
| EBadBool          (* ErrDeserializationInvalidBoolValue *)
| ELenMax           (* ErrDeserializationLengthMaxExceeded *)
| ELenMin           (* ErrDeserializationLengthMinNotReached *)
| ELenInvalid       (* ErrDeserializationLengthInvalid: uint64 length > MaxInt *)
| EArrMin | EArrMax (* ErrArrayValidationMin/MaxElements... *)
| EDup | EOrder     (* ErrArrayValidationViolatesUniqueness / OrderViolatesLexicalOrder *)
| ENotAllConsumed
| ETypeMismatch     (* ErrDeserializationTypeMismatch *)
| EItem             (* error returned by the item deserializer / object callback *)
| ELenRange         (* write side: length does not fit the length prefix *)
| ESliceLong | ESliceShort | EStrLong | EStrShort
| EU256Nil | EU256Neg | EU256Big
(* stream package *)
| EEOF | EUnexpEOF  (* io.EOF / io.ErrUnexpectedEOF *)
| EFault            (* the error returned by the underlying reader *)
| ENegLen           (* stream.ReadBytes called with a negative length *)
| ESizeRange        (* stream.sizeToInt: a uint64 length prefix >= 2^63 does not fit int (c8478d2) *)
| EConsumed         (* callback consumed <> bytes read *)
| EOther.

Inductive res (A : Type) := Ok (a : A) | Err (e : eclass) | Panic.
Arguments Ok {A} a. Arguments Err {A} e. Arguments Panic {A}.

(* ---------- little endian ---------- *)

Fixpoint le_enc (n : nat) (v : N) : list N :=
  match n with O => [] | S k => (v mod 256)%N :: le_enc k (v / 256)%N end.

Fixpoint le_dec (bs : list N) : N :=
  match bs with [] => 0%N | b :: r => (b + 256 * le_dec r)%N end.

Inductive nk := U8 | U16 | U32 | U64 | I8 | I16 | I32 | I64.   (* float32/64 travel as their U32/U64 bit patterns *)

Definition nk_size (k : nk) : nat :=
  match k with U8 | I8 => 1 | U16 | I16 => 2 | U32 | I32 => 4 | U64 | I64 => 8 end.
Definition nk_signed (k : nk) : bool :=
  match k with I8 | I16 | I32 | I64 => true | _ => false end.

Definition full (n : nat) : Z := Z.pow 2 (8 * Z.of_nat n).          (* 2^(8n) *)
Definition half (n : nat) : Z := Z.pow 2 (8 * Z.of_nat n - 1).

(* binary.LittleEndian.UintN, then the Go conversion to the signed type *)
Definition num_of_bytes (k : nk) (bs : list N) : Z :=
  let u := Z.of_N (le_dec bs) in
  if nk_signed k && (half (nk_size k) <=? u)%Z then (u - full (nk_size k))%Z else u.

(* binary.Write of a value of kind k (two's complement) *)
Definition bytes_of_num (k : nk) (v : Z) : list N :=
  le_enc (nk_size k) (Z.to_N (v mod full (nk_size k))).

Definition in_range (k : nk) (v : Z) : Prop :=
  if nk_signed k then (- half (nk_size k) <= v < half (nk_size k))%Z else (0 <= v < full (nk_size k))%Z.

Definition MaxInt64 : Z := 9223372036854775807.
Definition MaxNanoSec : Z := 9223372036.          (* MaxNanoTimestampInt64Seconds *)
Definition Giga : Z := 1000000000.

(* wrap to int64 *)
Definition to_i64 (u : Z) : Z :=
  let m := (u mod full 8)%Z in if (half 8 <=? m)%Z then (m - full 8)%Z else m.

(* ---------- length prefixes ---------- *)

Inductive lpt := L8 | L16 | L32 | L64 | LBad.      (* SeriLengthPrefixType 200..203, anything else *)
Definition lpt_size (l : lpt) : nat := match l with L8 => 1 | L16 => 2 | L32 => 4 | L64 => 8 | LBad => 0 end.

(* ---------- loops with a trip count that comes from the input ----------
   [iter_until p f s] runs the body f at most p times (p a binary positive: a count of 2^32 costs nothing to
   represent) and stops as soon as the body returns [inr]. This is `for i := range count { ...; return on error }`. *)
Fixpoint iter_until {S R : Type} (p : positive) (f : S -> S + R) (s : S) : S + R :=
  match p with
  | xH => f s
  | xO q => match iter_until q f s with inl s' => iter_until q f s' | inr r => inr r end
  | xI q => match f s with
            | inl s0 => match iter_until q f s0 with inl s' => iter_until q f s' | inr r => inr r end
            | inr r => inr r
            end
  end.

(* ---------- Deserializer ---------- *)

Record dst := mkD { rem : list N;             (* d.src[d.offset:] *)
                    off : nat;                (* d.offset *)
                    derr : option eclass }.   (* d.err, class only *)

Definition dinit (b : list N) : dst := mkD b 0 None.
Definition dfail (s : dst) (e : eclass) : dst := mkD (rem s) (off s) (Some e).
Definition dadv (s : dst) (n : nat) : dst := mkD (skipn n (rem s)) (off s + n) (derr s).

Inductive dout :=
| ONone                         (* destination untouched *)
| OBool (b : bool) | ONum (z : Z) | OBytes (bs : list N)
| OSeq (items : list (list N))  (* what the item callback saw, in order *)
| OErrv (e : eclass).           (* error returned by value (ReadPayloadLength, GetObjectType) *)

(* bytes.Compare *)
Fixpoint bcmp (a b : list N) : comparison :=
  match a, b with
  | [], [] => Eq | [], _ :: _ => Lt | _ :: _, [] => Gt
  | x :: a', y :: b' => match N.compare x y with Eq => bcmp a' b' | c => c end
  end.
Definition beqb (a b : list N) : bool := match bcmp a b with Eq => true | _ => false end.

Inductive vmode := VNone | VNoDup | VLex | VLexNoDup.
Record rules := mkRules { rmin : Z; rmax : Z; rmode : vmode }.

(* ArrayRules.CheckBounds *)
Definition check_bounds (r : rules) (count : Z) : option eclass :=
  if (negb (rmin r =? 0) && (count <? rmin r))%Z then Some EArrMin
  else if (negb (rmax r =? 0) && (rmax r <? count))%Z then Some EArrMax else None.

(* state of ElementValidationFunc(): the set of ElementUniqueValidator and prev of the two lexical validators *)
Record vst := mkV { vseen : list (list N); vprev : option (list N) }.
Definition vinit : vst := mkV [] None.

Definition validate (m : vmode) (v : vst) (next : list N) : vst + eclass :=
  match m with
  | VNone => inl v
  | VNoDup => if existsb (beqb next) (vseen v) then inr EDup else inl (mkV (next :: vseen v) (vprev v))
  | VLex => match vprev v with
            | None => inl (mkV (vseen v) (Some next))
            | Some p => match bcmp p next with Gt => inr EOrder | _ => inl (mkV (vseen v) (Some next)) end
            end
  | VLexNoDup => match vprev v with
                 | None => inl (mkV (vseen v) (Some next))
                 | Some p => match bcmp p next with
                             | Gt => inr EOrder | Eq => inr EDup | Lt => inl (mkV (vseen v) (Some next)) end
                 end
  end.

(* item deserializers used by the harness (DeserializeFunc: bytes -> consumed | error) *)
Inductive item := IFixed (k : nat) | IVar | IFail.
Definition item_run (it : item) (b : list N) : res nat :=
  match it with
  | IFixed k => if length b <? k then Err EItem else Ok k
  | IVar => match b with
            | [] => Err EItem
            | l :: _ => let n := S (N.to_nat l) in if length b <? n then Err EItem else Ok n
            end
  | IFail => Err EItem
  end.

(* Serializable objects: a selector (SerializableReadGuardFunc) maps the type code to an object, given by its
   Deserialize function (bytes -> consumed | error), or rejects the code *)
Inductive tden := TDU32 | TDByte | TDNone.           (* TypeDenotationUint32 / Byte / None *)
Definition tden_size (t : tden) : nat := match t with TDU32 => 4 | TDByte => 1 | TDNone => 0 end.
Definition selector : Type := Z -> option (list N -> res nat).
Definition obj_type (t : tden) (b : list N) : Z := Z.of_N (le_dec (firstn (tden_size t) b)).

(* readObject on the bytes b: GetObjectType (needs the whole type denotation), the selector, Deserialize *)
Definition obj_item (t : tden) (sel : selector) (b : list N) : res nat :=
  if length b <? tden_size t then Err ENotEnough
  else match sel (obj_type t b) with None => Err EItem | Some f => f b end.

(* the objects and selector of the harness: type code 0 or 1 = a body of k1 bytes behind the header, 2 = k2 bytes,
   3 = an object whose Deserialize fails, anything else is rejected by the selector *)
Definition hobj (hdr k : nat) (b : list N) : res nat := if length b <? hdr + k then Err ENotEnough else Ok (hdr + k).
Definition hsel (hdr k1 k2 : nat) : selector := fun ty =>
  if ((ty =? 0) || (ty =? 1))%Z then Some (hobj hdr k1)
  else if (ty =? 2)%Z then Some (hobj hdr k2)
  else if (ty =? 3)%Z then Some (fun _ => Err EItem) else None.

Definition MinPayloadByteSize : nat := 5.            (* consts.go: UInt32ByteSize + OneByte *)

Inductive dop :=
| DSkip (n : nat)
| DBool | DByte | DU256
| DNum (k : nk)
| DBytes (n : nat)                      (* ReadBytes / ReadBytesInPlace with a non-negative size *)
| DVar (l : lpt) (mn mx : Z)            (* ReadVariableByteSlice *)
| DString (l : lpt) (mn mx : Z)         (* ReadString *)
| DTime
| DPayloadLen                           (* ReadPayloadLength: returns (value, err), ignores and never sets d.err *)
| DSeq (validation : bool) (l : lpt) (f : list N -> res nat) (r : rules)
| DCheckType (prefix : Z) (u32 : bool)  (* CheckTypePrefix with TypeDenotationUint32 / Byte *)
| DGetType (t : tden)                   (* GetObjectType: returns (value, err), offset and d.err untouched *)
| DObject (t : tden) (sel : selector)   (* ReadObject *)
| DPayload (sel : selector)             (* ReadPayload *)
| DConsumedAll.

Inductive sres := SOk (s : dst) (o : dout) (cost : N) | SPanic.

(* readSliceLength: does not look at d.err; on success the offset moves past the prefix *)
Definition read_slice_length (l : lpt) (s : dst) : res (Z * dst) :=
  match l with
  | LBad => Panic
  | _ => let n := lpt_size l in
         if length (rem s) <? n then Err ENotEnough
         else let v := Z.of_N (le_dec (firstn n (rem s))) in
              match l with
              | L64 => if (MaxInt64 <? v)%Z then Err ELenInvalid else Ok (v, dadv s n)
              | _ => Ok (v, dadv s n)
              end
  end.

Definition len_check (mn mx len : Z) : option eclass :=
  if ((0 <? mx) && (mx <? len))%Z then Some ELenMax
  else if ((0 <? mn) && (len <? mn))%Z then Some ELenMin else None.

(* the loop of ReadSequenceOfObjects; state = (deserializer, validator, items seen (newest first), cost) *)
Definition seq_state : Type := dst * vst * list (list N) * N.
Definition seq_body (validation : bool) (f : list N -> res nat) (m : vmode) (st : seq_state)
  : seq_state + option (seq_state) (* inr None = panic *) :=
  let '(s, v, acc, c) := st in
  match f (rem s) with
  | Panic => inr None
  | Err e => inr (Some (dfail s e, v, acc, (c + 1)%N))
  | Ok n =>
      if length (rem s) <? n then inr None      (* callback broke its contract: slice bounds panic (sooner or later) *)
      else
        let el := firstn n (rem s) in
        let s1 := dadv s n in
        if validation then
          match validate m v el with
          | inl v' => inl (s1, v', el :: acc, (c + 1)%N)
          | inr e => inr (Some (dfail s1 e, v, el :: acc, (c + 1)%N))
          end
        else inl (s1, v, el :: acc, (c + 1)%N)
  end.

Definition dstep (s : dst) (o : dop) : sres :=
  match o with
  | DPayloadLen =>
      if length (rem s) <? 4 then SOk s (OErrv ENotEnough) 0
      else SOk (dadv s 4) (ONum (Z.of_N (le_dec (firstn 4 (rem s))))) 0
  | DGetType t =>
      if length (rem s) <? tden_size t then SOk s (OErrv ENotEnough) 0
      else SOk s (ONum (obj_type t (rem s))) 0
  | _ =>
  match derr s with
  | Some _ => SOk s ONone 0
  | None =>
    match o with
    | DSkip n => if length (rem s) <? n then SOk (dfail s ENotEnough) ONone 0 else SOk (dadv s n) ONone 0
    | DBool =>
        match rem s with
        | [] => SOk (dfail s ENotEnough) ONone 0
        | b :: _ => if (b =? 0)%N then SOk (dadv s 1) (OBool false) 0
                    else if (b =? 1)%N then SOk (dadv s 1) (OBool true) 0
                    else SOk (dfail s EBadBool) ONone 0
        end
    | DByte =>
        match rem s with
        | [] => SOk (dfail s ENotEnough) ONone 0
        | b :: _ => SOk (dadv s 1) (ONum (Z.of_N b)) 0
        end
    | DU256 =>
        if length (rem s) <? 32 then SOk (dfail s ENotEnough) ONone 0
        else SOk (dadv s 32) (ONum (Z.of_N (le_dec (firstn 32 (rem s))))) 64
    | DNum k =>
        let n := nk_size k in
        if length (rem s) <? n then SOk (dfail s ENotEnough) ONone 0
        else SOk (dadv s n) (ONum (num_of_bytes k (firstn n (rem s)))) 0
    | DBytes n =>
        if length (rem s) <? n then SOk (dfail s ENotEnough) ONone 0
        else SOk (dadv s n) (OBytes (firstn n (rem s))) (N.of_nat n)
    | DVar l mn mx =>
        match read_slice_length l s with
        | Panic => SPanic
        | Err e => SOk (dfail s e) ONone 0
        | Ok (len, s1) =>
            match len_check mn mx len with
            | Some e => SOk (dfail s1 e) ONone 0
            | None =>
                if (len =? 0)%Z then SOk s1 (OBytes []) 0
                else if (Z.of_nat (length (rem s1)) <? len)%Z then SOk (dfail s1 ENotEnough) ONone 0
                else let n := Z.to_nat len in SOk (dadv s1 n) (OBytes (firstn n (rem s1))) (Z.to_N len)
            end
        end
    | DString l mn mx =>
        match read_slice_length l s with
        | Panic => SPanic
        | Err e => SOk (dfail s e) ONone 0
        | Ok (len, s1) =>
            match len_check mn mx len with
            | Some e => SOk (dfail s1 e) ONone 0
            | None =>
                if (Z.of_nat (length (rem s1)) <? len)%Z then SOk (dfail s1 ENotEnough) ONone 0
                else let n := Z.to_nat len in SOk (dadv s1 n) (OBytes (firstn n (rem s1))) (Z.to_N len)
            end
        end
    | DTime =>
        if length (rem s) <? 8 then SOk (dfail s ENotEnough) ONone 0
        else let ns := Z.of_N (le_dec (firstn 8 (rem s))) in
             let ns' := if (MaxNanoSec <? ns / Giga)%Z then MaxInt64 else ns in
             SOk (dadv s 8) (ONum (to_i64 ns')) 0
    | DSeq validation l f r =>
        match read_slice_length l s with
        | Panic => SPanic
        | Err e => SOk (dfail s e) (OSeq []) 0
        | Ok (len, s1) =>
            match (if validation then check_bounds r len else None) with
            | Some e => SOk (dfail s1 e) (OSeq []) 0
            | None =>
                match len with
                | Zpos p =>
                    match iter_until p (seq_body validation f (rmode r)) (s1, vinit, [], 0%N) with
                    | inl (s2, _, acc, c) => SOk s2 (OSeq (rev acc)) c
                    | inr (Some (s2, _, acc, c)) => SOk s2 (OSeq (rev acc)) c
                    | inr None => SPanic
                    end
                | _ => SOk s1 (OSeq []) 0
                end
            end
        end
    | DCheckType prefix u32 =>
        let n := if u32 then 4 else 1 in
        if length (rem s) <? n then SOk (dfail s ENotEnough) ONone 0
        else if (Z.of_N (le_dec (firstn n (rem s))) =? (if u32 then prefix else prefix mod 256))%Z
             then SOk (dadv s n) ONone 0 else SOk (dfail s ETypeMismatch) ONone 0
    | DObject t sel =>
        match obj_item t sel (rem s) with
        | Panic => SPanic
        | Err e => SOk (dfail s e) ONone 0
        | Ok n => if length (rem s) <? n then SPanic    (* the object broke its contract: d.offset passes the end *)
                  else SOk (dadv s n) (OBytes (firstn n (rem s))) 0
        end
    | DPayload sel =>
        if length (rem s) <? 4 then SOk (dfail s ENotEnough) ONone 0
        else
          let plen := Z.of_N (le_dec (firstn 4 (rem s))) in
          let s1 := dadv s 4 in
          if (plen =? 0)%Z then SOk s1 ONone 0
          else if length (rem s1) <? MinPayloadByteSize then SOk (dfail s1 ENotEnough) ONone 0
          else if (Z.of_nat (length (rem s1)) <? plen)%Z then SOk (dfail s1 ENotEnough) ONone 0
          else if length (rem s1) <? 4 then SPanic     (* binary.LittleEndian.Uint32(d.src[d.offset:]): index out of range *)
          else match sel (Z.of_N (le_dec (firstn 4 (rem s1)))) with
               | None => SOk (dfail s1 EItem) ONone 0
               | Some f =>
                   match f (rem s1) with
                   | Panic => SPanic
                   | Err e => SOk (dfail s1 e) ONone 0
                   | Ok n => if negb (Z.of_nat n =? plen)%Z then SOk (dfail s1 EOther) ONone 0     (* ErrInvalidBytes *)
                             else SOk (dadv s1 n) (OBytes (firstn n (rem s1))) 0
                   end
               end
    | DConsumedAll =>
        match rem s with [] => SOk s ONone 0 | _ => SOk (dfail s ENotAllConsumed) ONone 0 end
    | DPayloadLen | DGetType _ => SPanic (* unreachable: handled above *)
    end
  end
  end.

(* a Deserializer program: every op's output, the final (offset, error) of Done(), panic flag, total cost *)
Record drun_res := mkRun { r_outs : list dout; r_state : dst; r_panic : bool; r_cost : N }.

Fixpoint drun (s : dst) (ops : list dop) : drun_res :=
  match ops with
  | [] => mkRun [] s false 0
  | o :: r =>
      match dstep s o with
      | SPanic => mkRun [] s true 0
      | SOk s1 out c => let rr := drun s1 r in mkRun (out :: r_outs rr) (r_state rr) (r_panic rr) (c + r_cost rr)%N
      end
  end.

(* ---------- Serializer ---------- *)

Record sst := mkS { sbuf : list N; serr : option eclass }.
Definition sinit : sst := mkS [] None.

Inductive sop :=
| SNum (k : nk) (v : Z) | SBool (b : bool) | SByte (v : N) | SBytes (bs : list N)
| SVar (l : lpt) (bs : list N) (mn mx : Z)        (* WriteVariableByteSlice *)
| SString (l : lpt) (bs : list N) (mn mx : Z)     (* WriteString *)
| SU256 (z : option Z)                            (* nil *big.Int = None *)
| STime (sec nsec : Z)                            (* time.Unix(sec, nsec), 0 <= nsec < 10^9 *)
| SPayloadLen (n : Z).

(* writeSliceLength *)
Definition slice_length_bytes (l : lpt) (n : Z) : res (list N) :=
  match l with
  | L8 => if (255 <? n)%Z then Err ELenRange else Ok (le_enc 1 (Z.to_N n))
  | L16 => if (65535 <? n)%Z then Err ELenRange else Ok (le_enc 2 (Z.to_N n))
  | L32 => if (4294967295 <? n)%Z then Err ELenRange else Ok (le_enc 4 (Z.to_N n))
  | L64 => Ok (le_enc 8 (Z.to_N n))
  | LBad => Panic
  end.

(* TimeToUint64 *)
Definition time_to_u64 (sec nsec : Z) : Z :=
  let nano := to_i64 (sec * Giga + nsec) in      (* Time.UnixNano wraps *)
  if (MaxNanoSec <? sec)%Z then MaxInt64
  else if ((sec <? 0) || (nano <? 0))%Z then 0%Z else nano.

Definition sapp (s : sst) (bs : list N) : sst := mkS (sbuf s ++ bs) (serr s).
Definition sfail (s : sst) (e : eclass) : sst := mkS (sbuf s) (Some e).

Definition var_write (tooLong tooShort : eclass) (l : lpt) (bs : list N) (mn mx : Z) (s : sst) : option sst :=
  let n := Z.of_nat (length bs) in
  if ((0 <? mx) && (mx <? n))%Z then Some (sfail s tooLong)
  else if ((0 <? mn) && (n <? mn))%Z then Some (sfail s tooShort)
  else match slice_length_bytes l n with
       | Panic => None
       | Err e => Some (sfail s e)
       | Ok p => Some (sapp s (p ++ bs))
       end.

(* None = panic *)
Definition sstep (s : sst) (o : sop) : option sst :=
  match serr s with
  | Some _ => Some s
  | None =>
    match o with
    | SNum k v => Some (sapp s (bytes_of_num k v))
    | SBool b => Some (sapp s [if b then 1%N else 0%N])
    | SByte v => Some (sapp s [v])
    | SBytes bs => Some (sapp s bs)
    | SVar l bs mn mx => var_write ESliceLong ESliceShort l bs mn mx s
    | SString l bs mn mx => var_write EStrLong EStrShort l bs mn mx s
    | SU256 None => Some (sfail s EU256Nil)
    | SU256 (Some z) =>
        if (z <? 0)%Z then Some (sfail s EU256Neg)
        else if (full 32 <=? z)%Z then Some (sfail s EU256Big)
        else Some (sapp s (le_enc 32 (Z.to_N z)))
    | STime sec nsec => Some (sapp s (le_enc 8 (Z.to_N (time_to_u64 sec nsec))))
    | SPayloadLen n => Some (sapp s (le_enc 4 (Z.to_N (n mod full 4))))
    end
  end.

Fixpoint srun (s : sst) (ops : list sop) : option sst :=
  match ops with
  | [] => Some s
  | o :: r => match sstep s o with None => None | Some s1 => srun s1 r end
  end.

(* Serialize() *)
Definition serialize (ops : list sop) : res (list N) :=
  match srun sinit ops with
  | None => Panic
  | Some s => match serr s with Some e => Err e | None => Ok (sbuf s) end
  end.

(* ---------- typeutils/from_bytes.go ---------- *)

Definition u64_from_bytes (b : list N) : res (Z * nat) :=
  if length b <? 8 then Err EOther else Ok (Z.of_N (le_dec (firstn 8 b)), 8).
Definition arr32_from_bytes (b : list N) : res (list N * nat) :=
  if length b <? 32 then Err EOther else Ok (firstn 32 b, 32).   (* [32]byte(bytes) takes the first 32 *)

(* ---------- ds/serializableorderedmap Decode for fixed-width unsigned keys and values ----------
   state = (rest of the input, consumed so far, entries in insertion order, cost) *)
Fixpoint om_set (k v : Z) (m : list (Z * Z)) : list (Z * Z) :=
  match m with
  | [] => [(k, v)]
  | (k', v') :: r => if (k =? k')%Z then (k, v) :: r else (k', v') :: om_set k v r
  end.

Definition om_state : Type := list N * nat * list (Z * Z) * N.
Definition om_body (kk vk : nk) (st : om_state) : om_state + (eclass * N) :=
  let '(b, n, m, c) := st in
  if length b <? nk_size kk then inr (ENotEnough, (c + 1)%N) else
  let k := num_of_bytes kk (firstn (nk_size kk) b) in
  let b1 := skipn (nk_size kk) b in
  if length b1 <? nk_size vk then inr (ENotEnough, (c + 1)%N) else
  let v := num_of_bytes vk (firstn (nk_size vk) b1) in
  inl (skipn (nk_size vk) b1, n + nk_size kk + nk_size vk, om_set k v m, (c + 1)%N).

(* result: entries and bytesRead (0 on error, like the code), cost *)
Definition om_decode (kk vk : nk) (b : list N) : res (list (Z * Z) * nat) * N :=
  if length b <? 4 then (Err ENotEnough, 0%N) else
  match Z.of_N (le_dec (firstn 4 b)) with
  | Zpos p =>
      match iter_until p (om_body kk vk) (skipn 4 b, 4, [], 0%N) with
      | inl (_, n, m, c) => (Ok (m, n), c)
      | inr (e, c) => (Err e, c)
      end
  | _ => (Ok ([], 4), 0%N)
  end.
