(* C01/C02 part "stream" - executable model of serializer/stream (read.go, write.go, byte_buffer.go) after the
   fix: commits 93eaa3d (D01c: io.ReadFull), 251eda6 (D02c: negative sizes rejected, no allocation by the prefix alone)
   and c8478d2 (ReadBytes: exact allocation up to 1 MiB, above that a 1 MiB buffer that doubles only when it is full;
   sizeToInt: a length prefix that does not fit int is an error).
   An io.Reader is (remaining data, script of events): every Read call with a non-empty buffer of p bytes pops one
   event and returns min(p, chunk, remaining) bytes (Give chunk), ceil(p/2) bytes (Half = iotest.HalfReader) or the
   reader's own error (Fault); when the script is exhausted the reader behaves like bytes.Reader.  At end of data a
   Read returns io.EOF.  No proofs in this file. *)
From Coq Require Import ZArith NArith List Bool.
From Verif.C02_Prims Require Import Model.
Import ListNotations.

Inductive ev := Give (p : positive) | Half | Fault.
Record reader := mkR { rdata : list N; revs : list ev }.
Inductive rerr := RNil | REOF | RFault.

(* min(n, p) in O(min(n, p)) steps: the buffer of a Read call can be 2^20 bytes long (ReadBytes), the chunk of a
   scripted reader 2^40; neither is ever converted to the other's number type *)
Fixpoint min_np (n : nat) (p : positive) : nat :=
  match n with
  | O => O
  | S n' => match p with xH => 1 | _ => S (min_np n' (Pos.pred p)) end
  end.

(* bytes handed out by one Read call with a buffer of [want] > 0 bytes on non-empty data: at least 1, at most want *)
Definition chunk_of (e : ev) (want : nat) : nat :=
  match e with
  | Give p => min_np want p
  | Half => (want + 1) / 2
  | Fault => 0
  end.

(* io.ReadFull(r, buf) with len(buf) = want: (bytes obtained, reader afterwards, last error of the underlying reader).
   RNil iff the buffer was filled. *)
Fixpoint read_full (want : nat) (d : list N) (es : list ev) : list N * reader * rerr :=
  match want with
  | O => ([], mkR d es, RNil)                       (* ReadAtLeast does not call Read at all *)
  | _ =>
    match es with
    | [] =>
        match d with
        | [] => ([], mkR [] [], REOF)
        | _ => let got := firstn want d in
               (got, mkR (skipn want d) [], if length got <? want then REOF else RNil)
        end
    | Fault :: es' => ([], mkR d es', RFault)
    | e :: es' =>
        match d with
        | [] => ([], mkR [] es', REOF)
        | _ => let k := chunk_of e want in
               let got := firstn k d in
               let '(g2, r2, er) := read_full (want - length got) (skipn k d) es' in
               (got ++ g2, r2, er)
        end
    end
  end.

(* what io.ReadFull / binary.Read report when the buffer was not filled *)
Definition io_err (got : list N) (e : rerr) : eclass :=
  match e with
  | RFault => EFault
  | _ => match got with [] => EEOF | _ => EUnexpEOF end
  end.

Definition rres (A : Type) : Type := res A * reader * N.   (* outcome, reader afterwards, cost *)

(* binary.Read's make([]byte, n) + io.ReadFull *)
Definition read_fixed (n : nat) (r : reader) : rres (list N) :=
  let '(got, r', e) := read_full n (rdata r) (revs r) in
  match e with
  | RNil => (Ok got, r', N.of_nat n)
  | _ => (Err (io_err got e), r', N.of_nat n)
  end.

Inductive sval := SVNum (z : Z) | SVBool (b : bool) | SVBytes (bs : list N) | SVList (l : list (list N)).

(* the type parameter of stream.Read[T] / stream.Write[T] *)
Inductive tk := TNum (k : nk) | TBool | TArr (n : nat).     (* n = 32, 36, 38 *)
Definition tk_size (t : tk) : nat := match t with TNum k => nk_size k | TBool => 1 | TArr n => n end.
Definition tk_decode (t : tk) (bs : list N) : sval :=
  match t with
  | TNum k => SVNum (num_of_bytes k bs)
  | TBool => SVBool (negb (hd 0%N bs =? 0)%N)
  | TArr _ => SVBytes bs
  end.

Definition read_t (t : tk) (r : reader) : rres sval :=
  match read_fixed (tk_size t) r with
  | (Ok bs, r', c) => (Ok (tk_decode t bs), r', c)
  | (Err e, r', c) => (Err e, r', c)
  | (Panic, r', c) => (Panic, r', c)
  end.

(* readFixedSize + sizeToInt: a prefix that does not fit int (a uint64 prefix >= 2^63) is an error, for every helper
   that reads a size prefix; the size is therefore a natural number *)
Definition read_fixed_size (l : lpt) (r : reader) : rres N :=
  match l with
  | LBad => (Panic, r, 0%N)
  | _ => match read_fixed (lpt_size l) r with
         | (Ok bs, r', c) => let v := le_dec bs in
                             if (Z.to_N MaxInt64 <? v)%N then (Err ESizeRange, r', c) else (Ok v, r', c)
         | (Err e, r', c) => (Err e, r', c)
         | (Panic, r', c) => (Panic, r', c)
         end
  end.

Definition PREALLOC : Z := 1048576.      (* readBytesPreallocLimit = 1 << 20 *)

(* the loop of ReadBytes: [cap] = len(readBytes), [acc] = readBytes[:received], [c] = everything handed to make so far.
   Every round fills the rest of the buffer with one io.ReadFull; a full buffer that is still shorter than [len] is
   replaced by one of received + min(received, len - received) bytes.
   Running out of fuel is reported as Panic (the theorems show it never happens). *)
Fixpoint read_bytes_loop (fuel : nat) (len cap : Z) (acc : list N) (r : reader) (c : N) : rres (list N) :=
  let '(got, r', e) := read_full (Z.to_nat (cap - Z.of_nat (length acc))) (rdata r) (revs r) in
  let acc' := acc ++ got in
  match e with
  | RNil =>
      let received := Z.of_nat (length acc') in
      if (received =? len)%Z then (Ok acc', r', c) else
      match fuel with
      | O => (Panic, r', c)
      | S f => let cap' := (received + Z.min received (len - received))%Z in
               read_bytes_loop f len cap' acc' r' (c + Z.to_N cap')%N
      end
  | _ => (Err (io_err acc' e), r', c)
  end.

Definition read_bytes (len : Z) (r : reader) : rres (list N) :=
  if (len <? 0)%Z then (Err ENegLen, r, 0%N)
  else let cap := Z.min len PREALLOC in
       read_bytes_loop (S (length (rdata r))) len cap [] r (Z.to_N cap).

Definition read_bytes_with_size (l : lpt) (r : reader) : rres (list N) :=
  match read_fixed_size l r with
  | (Ok size, r', c) =>
      if (size =? 0)%N then (Ok [], r', c)
      else let '(x, r2, c2) := read_bytes (Z.of_N size) r' in (x, r2, (c + c2)%N)
  | (Err e, r', c) => (Err e, r', c)
  | (Panic, r', c) => (Panic, r', c)
  end.

(* objectFromBytesFunc callbacks used by the harness: the two of typeutils plus synthetic ones *)
Inductive cb := CbU64 | CbArr32 | CbTake (k : nat) | CbFail.
Definition cb_run (f : cb) (b : list N) : res (sval * nat) :=
  match f with
  | CbU64 => match u64_from_bytes b with Ok (v, n) => Ok (SVNum v, n) | Err e => Err e | Panic => Panic end
  | CbArr32 => match arr32_from_bytes b with Ok (v, n) => Ok (SVBytes v, n) | Err e => Err e | Panic => Panic end
  | CbTake k => if length b <? k then Err EItem else Ok (SVBytes (firstn k b), k)
  | CbFail => Err EItem
  end.

Definition read_object (fixedLen : Z) (f : cb) (r : reader) : rres sval :=
  match read_bytes fixedLen r with
  | (Ok bs, r', c) =>
      match cb_run f bs with
      | Ok (v, n) => if n =? length bs then (Ok v, r', c) else (Err EConsumed, r', c)
      | Err e => (Err e, r', c)
      | Panic => (Panic, r', c)
      end
  | (Err e, r', c) => (Err e, r', c)
  | (Panic, r', c) => (Panic, r', c)
  end.

Definition read_object_with_size (l : lpt) (f : cb) (r : reader) : rres sval :=
  match read_fixed_size l r with
  | (Ok size, r', c) => let '(x, r2, c2) := read_object (Z.of_N size) f r' in (x, r2, (c + c2)%N)
  | (Err e, r', c) => (Err e, r', c)
  | (Panic, r', c) => (Panic, r', c)
  end.

(* ReadCollection with a callback that reads one element of k bytes with ReadBytes;
   state = (reader, elements newest first, cost) *)
Definition coll_state : Type := reader * list (list N) * N.
Definition coll_body (k : nat) (st : coll_state) : coll_state + (option eclass * reader * list (list N) * N) :=
  let '(r, acc, c) := st in
  match read_bytes (Z.of_nat k) r with
  | (Ok bs, r', c1) => inl (r', bs :: acc, (c + 1 + c1)%N)
  | (Err e, r', c1) => inr (Some e, r', acc, (c + 1 + c1)%N)
  | (Panic, r', c1) => inr (None, r', acc, (c + 1 + c1)%N)
  end.

Definition read_collection (l : lpt) (k : nat) (r : reader) : rres sval :=
  match read_fixed_size l r with
  | (Ok (Npos p), r', c) =>
      match iter_until p (coll_body k) (r', [], c) with
      | inl (r2, acc, c2) => (Ok (SVList (rev acc)), r2, c2)
      | inr (Some e, r2, _, c2) => (Err e, r2, c2)
      | inr (None, r2, _, c2) => (Panic, r2, c2)
      end
  | (Ok N0, r', c) => (Ok (SVList []), r', c)          (* count 0 (a count >= 2^63 is an error of readFixedSize) *)
  | (Err e, r', c) => (Err e, r', c)
  | (Panic, r', c) => (Panic, r', c)
  end.

(* PeekSize on a seekable reader: reads the prefix and seeks back (only on success) *)
Definition peek_size (l : lpt) (r : reader) : rres N :=
  match read_fixed_size l r with
  | (Ok v, r', c) => (Ok v, mkR (rdata r) (revs r'), c)
  | x => x
  end.

Inductive rop :=
| RT (t : tk) | RBytes (len : Z) | RBytesSize (l : lpt) | RObject (len : Z) (f : cb) | RObjectSize (l : lpt) (f : cb)
| RCollection (l : lpt) (k : nat) | RPeek (l : lpt).

Definition lift {A} (f : A -> sval) (x : rres A) : rres sval :=
  match x with
  | (Ok a, r, c) => (Ok (f a), r, c)
  | (Err e, r, c) => (Err e, r, c)
  | (Panic, r, c) => (Panic, r, c)
  end.

Definition rop_run (o : rop) (r : reader) : rres sval :=
  match o with
  | RT t => read_t t r
  | RBytes len => lift SVBytes (read_bytes len r)
  | RBytesSize l => lift SVBytes (read_bytes_with_size l r)
  | RObject len f => read_object len f r
  | RObjectSize l f => read_object_with_size l f r
  | RCollection l k => read_collection l k r
  | RPeek l => lift (fun n => SVNum (Z.of_N n)) (peek_size l r)
  end.

(* ---------- write side ---------- *)

(* stream.ByteBuffer: contents and write position *)
Record bb := mkB { bbuf : list N; bpos : nat }.
Definition bb_write (b : bb) (p : list N) : bb :=
  let buf1 := bbuf b ++ repeat 0%N (bpos b - length (bbuf b)) in
  mkB (firstn (bpos b) buf1 ++ p ++ skipn (bpos b + length p) buf1) (bpos b + length p).
Definition bb_goto (b : bb) (pos : nat) : bb := mkB (bbuf b) pos.

Definition tk_encode (t : tk) (v : sval) : list N :=
  match t, v with
  | TNum k, SVNum z => bytes_of_num k z
  | TBool, SVBool b => [if b then 1%N else 0%N]
  | TArr _, SVBytes bs => bs
  | _, _ => []
  end.

(* objectToBytesFunc callbacks *)
Inductive wcb := WcbU64 (v : Z) | WcbArr32 (bs : list N) | WcbRaw (bs : list N) | WcbFail.
Definition wcb_run (f : wcb) : res (list N) :=
  match f with
  | WcbU64 v => Ok (le_enc 8 (Z.to_N v))
  | WcbArr32 bs => Ok bs
  | WcbRaw bs => Ok bs
  | WcbFail => Err EItem
  end.

Inductive wop :=
| WT (t : tk) (v : sval) | WBytes (bs : list N) | WBytesSize (l : lpt) (bs : list N)
| WObject (f : wcb) | WObjectSize (l : lpt) (f : wcb)
| WCollection (l : lpt) (elems : list (list N)) (count : Z).   (* the callback writes elems and reports count *)

Definition with_size (l : lpt) (bs : list N) : res (list N) :=
  match slice_length_bytes l (Z.of_nat (length bs)) with
  | Ok p => Ok (p ++ bs) | Err e => Err e | Panic => Panic
  end.

(* every helper writes into a ByteBuffer b; the result is the buffer afterwards *)
Definition wop_run (o : wop) (b : bb) : res bb :=
  match o with
  | WT t v => Ok (bb_write b (tk_encode t v))
  | WBytes bs => Ok (bb_write b bs)
  | WBytesSize l bs => match with_size l bs with Ok x => Ok (bb_write b x) | Err e => Err e | Panic => Panic end
  | WObject f => match wcb_run f with Ok x => Ok (bb_write b x) | Err e => Err e | Panic => Panic end
  | WObjectSize l f =>
      match wcb_run f with
      | Ok x => match with_size l x with Ok y => Ok (bb_write b y) | Err e => Err e | Panic => Panic end
      | Err e => Err e | Panic => Panic
      end
  | WCollection l elems count =>
      let start := bpos b in
      match slice_length_bytes l 0 with
      | Ok z =>
          let b1 := fold_left bb_write elems (bb_write b z) in
          let stop := bpos b1 in
          match slice_length_bytes l count with
          | Ok p => Ok (bb_goto (bb_write (bb_goto b1 start) p) stop)
          | Err e => Err e | Panic => Panic
          end
      | Err e => Err e | Panic => Panic
      end
  end.
