(* Deserializer primitives: total, never past the end of the input, cost follows the bytes consumed. *)
From Coq Require Import ZArith NArith List Bool Lia.
From Verif.C02_Prims Require Import Model ProofsLE.
Import ListNotations.

(* ---- loops ---- *)
Lemma iter_until_inv : forall {S R : Type} (P : S -> Prop) (Q : R -> Prop) (f : S -> S + R),
  (forall s, P s -> match f s with inl s' => P s' | inr r => Q r end) ->
  forall p s, P s -> match iter_until p f s with inl s' => P s' | inr r => Q r end.
Proof.
  intros S R P Q f Hf. induction p as [q IH|q IH|]; intros s Hs; cbn [iter_until].
  - pose proof (Hf s Hs) as H0. destruct (f s) as [s0|r]; [|exact H0].
    pose proof (IH s0 H0) as H1. destruct (iter_until q f s0) as [s1|r]; [|exact H1].
    apply IH; exact H1.
  - pose proof (IH s Hs) as H1. destruct (iter_until q f s) as [s1|r]; [|exact H1].
    apply IH; exact H1.
  - apply Hf; exact Hs.
Qed.

Definition total (s : dst) : nat := off s + length (rem s).

Definition item_ok (f : list N -> res nat) : Prop :=
  forall b, f b <> Panic /\ forall n, f b = Ok n -> (n <= length b)%nat.
Definition consuming (f : list N -> res nat) : Prop := forall b n, f b = Ok n -> (1 <= n)%nat.

(* every object the selector can hand out keeps the Deserialize contract *)
Definition sel_ok (sel : selector) : Prop := forall ty f, sel ty = Some f -> item_ok f.

Definition wf_op (o : dop) : Prop :=
  match o with
  | DVar l _ _ | DString l _ _ => l <> LBad
  | DSeq _ l f _ => l <> LBad /\ item_ok f
  | DObject _ sel | DPayload sel => sel_ok sel
  | _ => True
  end.

(* readObject as the item deserializer of ReadSliceOfObjects keeps the contract when the objects do *)
Lemma obj_item_ok : forall t sel, sel_ok sel -> item_ok (obj_item t sel).
Proof.
  intros t sel Hs b. unfold obj_item.
  destruct (length b <? tden_size t); [split; [discriminate | intros n Hn; discriminate]|].
  destruct (sel (obj_type t b)) as [f|] eqn:E; [exact (Hs _ _ E b) | split; [discriminate | intros n Hn; discriminate]].
Qed.
Definition guarded (o : dop) : Prop := match o with DSeq _ _ f _ => consuming f | _ => True end.

Lemma total_dadv : forall s n, (n <= length (rem s))%nat -> total (dadv s n) = total s /\ off (dadv s n) = (off s + n)%nat.
Proof. intros. unfold total, dadv. cbn [off rem]. rewrite skipn_length. lia. Qed.

Lemma total_dfail : forall s e, total (dfail s e) = total s /\ off (dfail s e) = off s.
Proof. intros. unfold total, dfail. cbn. lia. Qed.

Lemma read_slice_length_spec : forall l s, l <> LBad ->
  (exists e, read_slice_length l s = Err e) \/
  (exists v, read_slice_length l s = Ok (v, dadv s (lpt_size l)) /\ (lpt_size l <= length (rem s))%nat /\ (0 <= v)%Z).
Proof.
  intros l s Hl. unfold read_slice_length.
  destruct l; try congruence;
  (match goal with |- context [length (rem s) <? ?n] => destruct (Nat.ltb_spec (length (rem s)) n) end;
   [left; eexists; reflexivity|]).
  1-3: right; eexists; split; [reflexivity | split; [assumption | apply N2Z.is_nonneg]].
  destruct (Z.ltb_spec MaxInt64 (Z.of_N (le_dec (firstn (lpt_size L64) (rem s))))).
  - left; eexists; reflexivity.
  - right; eexists; split; [reflexivity | split; [assumption | apply N2Z.is_nonneg]].
Qed.

(* the sequence loop keeps the invariant *)
Lemma seq_body_inv : forall validation f m T o0 (st : seq_state), item_ok f ->
  (let '(s, _, _, c) := st in total s = T /\ (o0 <= off s)%nat /\ (consuming f -> (c <= N.of_nat (off s - o0))%N)) ->
  match seq_body validation f m st with
  | inl (s, _, _, c) => total s = T /\ (o0 <= off s)%nat /\ (consuming f -> (c <= N.of_nat (off s - o0))%N)
  | inr None => False
  | inr (Some (s, _, _, c)) => total s = T /\ (o0 <= off s)%nat /\ (consuming f -> (c <= N.of_nat (off s - o0) + 1)%N)
  end.
Proof.
  intros validation f m T o0 [[[s v] acc] c] Hok (HT & Ho & Hc). unfold seq_body.
  destruct (Hok (rem s)) as [Hnp Hle].
  destruct (f (rem s)) as [n|e|] eqn:E; [|cbn; repeat split; auto; intros; specialize (Hc H); lia | congruence].
  specialize (Hle n eq_refl).
  destruct (Nat.ltb_spec (length (rem s)) n); [lia|].
  destruct (total_dadv s n ltac:(lia)) as [Ht Hoff].
  assert (Hcost : consuming f -> (c + 1 <= N.of_nat (off (dadv s n) - o0))%N).
  { intros Hcons. specialize (Hc Hcons). specialize (Hcons _ _ E). rewrite Hoff. lia. }
  destruct validation.
  - destruct (validate m v (firstn n (rem s))).
    + repeat split; try lia; auto.
    + cbn [dfail off rem]. unfold total in *. cbn [dfail off rem dadv] in *.
      repeat split; try lia. intros Hcons. specialize (Hcost Hcons). lia.
  - repeat split; try lia; auto.
Qed.

Theorem dstep_safe : forall s o, wf_op o ->
  exists s' out c, dstep s o = SOk s' out c /\ total s' = total s /\ (off s <= off s')%nat /\
                   (guarded o -> (c <= N.of_nat (off s' - off s) + 64)%N).
Proof.
  intros s o Hwf.
  assert (Hkeep : exists s' out c, SOk s ONone 0 = SOk s' out c /\ total s' = total s /\ (off s <= off s')%nat /\
                   (guarded o -> (c <= N.of_nat (off s' - off s) + 64)%N)).
  { do 3 eexists. split; [reflexivity|]. repeat split; lia. }
  assert (Hfail : forall e out, exists s' out' c, SOk (dfail s e) out 0 = SOk s' out' c /\ total s' = total s /\ (off s <= off s')%nat /\
                   (guarded o -> (c <= N.of_nat (off s' - off s) + 64)%N)).
  { intros. do 3 eexists. split; [reflexivity|]. destruct (total_dfail s e). repeat split; lia. }
  assert (Hadv : forall n out (c : N), (n <= length (rem s))%nat -> (c <= N.of_nat n + 64)%N ->
                   exists s' out' c', SOk (dadv s n) out c = SOk s' out' c' /\ total s' = total s /\ (off s <= off s')%nat /\
                   (guarded o -> (c' <= N.of_nat (off s' - off s) + 64)%N)).
  { intros n out c Hn Hc. do 3 eexists. split; [reflexivity|]. destruct (total_dadv s n Hn) as [? ->]. repeat split; lia. }
  destruct o; cbn [dstep].
  all: try (destruct (derr s); [exact Hkeep|]).
  - (* DSkip *) destruct (Nat.ltb_spec (length (rem s)) n); [apply Hfail | apply Hadv; lia].
  - (* DBool *) destruct (rem s) as [|b r] eqn:Er; [apply Hfail|].
    destruct (b =? 0)%N; [apply Hadv; try rewrite Er; cbn; lia|].
    destruct (b =? 1)%N; [apply Hadv; try rewrite Er; cbn; lia | apply Hfail].
  - (* DByte *) destruct (rem s) as [|b r] eqn:Er; [apply Hfail | apply Hadv; try rewrite Er; cbn; lia].
  - (* DU256 *) destruct (Nat.ltb_spec (length (rem s)) 32); [apply Hfail | apply Hadv; lia].
  - (* DNum *) destruct (Nat.ltb_spec (length (rem s)) (nk_size k)); [apply Hfail | apply Hadv; lia].
  - (* DBytes *) destruct (Nat.ltb_spec (length (rem s)) n); [apply Hfail | apply Hadv; lia].
  - (* DVar *) cbn in Hwf.
    destruct (read_slice_length_spec l s Hwf) as [[e ->]|(v & -> & Hl & Hv)]; [apply Hfail|].
    destruct (total_dadv s (lpt_size l) Hl) as [Ht Ho].
    destruct (len_check mn mx v).
    { do 3 eexists. split; [reflexivity|]. destruct (total_dfail (dadv s (lpt_size l)) e). repeat split; lia. }
    destruct (Z.eqb_spec v 0).
    { do 3 eexists. split; [reflexivity|]. repeat split; lia. }
    destruct (Z.ltb_spec (Z.of_nat (length (rem (dadv s (lpt_size l))))) v).
    { do 3 eexists. split; [reflexivity|]. destruct (total_dfail (dadv s (lpt_size l)) ENotEnough). repeat split; lia. }
    do 3 eexists. split; [reflexivity|].
    destruct (total_dadv (dadv s (lpt_size l)) (Z.to_nat v) ltac:(lia)) as [Ht2 Ho2]. repeat split; lia.
  - (* DString *) cbn in Hwf.
    destruct (read_slice_length_spec l s Hwf) as [[e ->]|(v & -> & Hl & Hv)]; [apply Hfail|].
    destruct (total_dadv s (lpt_size l) Hl) as [Ht Ho].
    destruct (len_check mn mx v).
    { do 3 eexists. split; [reflexivity|]. destruct (total_dfail (dadv s (lpt_size l)) e). repeat split; lia. }
    destruct (Z.ltb_spec (Z.of_nat (length (rem (dadv s (lpt_size l))))) v).
    { do 3 eexists. split; [reflexivity|]. destruct (total_dfail (dadv s (lpt_size l)) ENotEnough). repeat split; lia. }
    do 3 eexists. split; [reflexivity|].
    destruct (total_dadv (dadv s (lpt_size l)) (Z.to_nat v) ltac:(lia)) as [Ht2 Ho2]. repeat split; lia.
  - (* DTime *) destruct (Nat.ltb_spec (length (rem s)) 8); [apply Hfail | apply Hadv; lia].
  - (* DPayloadLen *) destruct (Nat.ltb_spec (length (rem s)) 4).
    + do 3 eexists. split; [reflexivity|]. repeat split; lia.
    + apply Hadv; lia.
  - (* DSeq *) cbn in Hwf. destruct Hwf as [Hl Hok].
    destruct (read_slice_length_spec l s Hl) as [[e ->]|(v & -> & Hlen & Hv)]; [apply Hfail|].
    destruct (total_dadv s (lpt_size l) Hlen) as [Ht Ho].
    set (s1 := dadv s (lpt_size l)) in *.
    destruct (if validation then check_bounds r v else None).
    { do 3 eexists. split; [reflexivity|]. destruct (total_dfail s1 e). repeat split; lia. }
    destruct v as [|p|p]; [do 3 eexists; split; [reflexivity|]; repeat split; lia | | lia].
    pose proof (iter_until_inv
      (fun st : seq_state => let '(s2, _, _, c) := st in total s2 = total s /\ (off s1 <= off s2)%nat /\ (consuming f -> (c <= N.of_nat (off s2 - off s1))%N))
      (fun r : option seq_state => match r with None => False | Some (s2, _, _, c) => total s2 = total s /\ (off s1 <= off s2)%nat /\ (consuming f -> (c <= N.of_nat (off s2 - off s1) + 1)%N) end)
      (seq_body validation f (rmode r))) as Hinv.
    specialize (Hinv (fun st H => seq_body_inv validation f (rmode r) (total s) (off s1) st Hok H) p (s1, vinit, [], 0%N)).
    cbv beta iota in Hinv. specialize (Hinv ltac:(repeat split; lia)).
    destruct (iter_until p (seq_body validation f (rmode r)) (s1, vinit, [], 0%N)) as [[[[s2 v2] acc2] c2]|[[[[s2 v2] acc2] c2]|]];
      [| |contradiction].
    + destruct Hinv as (H1 & H2 & H3). do 3 eexists. split; [reflexivity|]. repeat split; try lia.
      cbn [guarded]. intros Hg. specialize (H3 Hg). lia.
    + destruct Hinv as (H1 & H2 & H3). do 3 eexists. split; [reflexivity|]. repeat split; try lia.
      cbn [guarded]. intros Hg. specialize (H3 Hg). lia.
  - (* DCheckType *)
    destruct (Nat.ltb_spec (length (rem s)) (if u32 then 4 else 1)%nat); [apply Hfail|].
    destruct (Z.eqb _ _); [apply Hadv; destruct u32; lia | apply Hfail].
  - (* DGetType *)
    destruct (length (rem s) <? tden_size t); do 3 eexists; (split; [reflexivity|]); repeat split; lia.
  - (* DObject *) cbn in Hwf.
    destruct (obj_item_ok t sel Hwf (rem s)) as [Hnp Hle].
    destruct (obj_item t sel (rem s)) as [n|e|]; [|apply Hfail|congruence].
    specialize (Hle n eq_refl). destruct (Nat.ltb_spec (length (rem s)) n); [lia|]. apply Hadv; lia.
  - (* DPayload *) cbn in Hwf.
    destruct (Nat.ltb_spec (length (rem s)) 4); [apply Hfail|]. cbv zeta.
    destruct (total_dadv s 4 ltac:(lia)) as [Ht Ho].
    set (s1 := dadv s 4) in *.
    assert (Hf1 : forall e, exists s' out c, SOk (dfail s1 e) ONone 0 = SOk s' out c /\ total s' = total s /\ (off s <= off s')%nat /\
                   (guarded (DPayload sel) -> (c <= N.of_nat (off s' - off s) + 64)%N)).
    { intros e. do 3 eexists. split; [reflexivity|]. destruct (total_dfail s1 e). repeat split; lia. }
    destruct (Z.eqb_spec (Z.of_N (le_dec (firstn 4 (rem s)))) 0).
    { do 3 eexists. split; [reflexivity|]. repeat split; lia. }
    destruct (Nat.ltb_spec (length (rem s1)) MinPayloadByteSize) as [|Hmin]; [apply Hf1|].
    destruct (Z.ltb_spec (Z.of_nat (length (rem s1))) (Z.of_N (le_dec (firstn 4 (rem s))))); [apply Hf1|].
    (* the min-size guard is what makes the payload type readable *)
    destruct (Nat.ltb_spec (length (rem s1)) 4); [unfold MinPayloadByteSize in Hmin; lia|].
    destruct (sel (Z.of_N (le_dec (firstn 4 (rem s1))))) as [f|] eqn:Esel; [|apply Hf1].
    destruct (Hwf _ _ Esel (rem s1)) as [Hnp Hle].
    destruct (f (rem s1)) as [m|e|]; [|apply Hf1|congruence].
    specialize (Hle m eq_refl).
    destruct (negb (Z.of_nat m =? Z.of_N (le_dec (firstn 4 (rem s))))%Z); [apply Hf1|].
    do 3 eexists. split; [reflexivity|].
    destruct (total_dadv s1 m Hle) as [Ht2 Ho2]. repeat split; lia.
  - (* DConsumedAll *) destruct (rem s); [exact Hkeep | apply Hfail].
Qed.

Definition wf_prog (ops : list dop) : Prop := Forall wf_op ops.
Definition guarded_prog (ops : list dop) : Prop := Forall guarded ops.

(* a whole program: no panic, Done() never reports more than was supplied, and the total cost is at most
   the bytes consumed plus 64 per primitive *)
Theorem drun_safe : forall ops s, wf_prog ops ->
  r_panic (drun s ops) = false /\ total (r_state (drun s ops)) = total s /\ (off s <= off (r_state (drun s ops)))%nat /\
  (guarded_prog ops ->
   (r_cost (drun s ops) <= N.of_nat (off (r_state (drun s ops)) - off s) + 64 * N.of_nat (length ops))%N).
Proof.
  induction ops as [|o ops IH]; intros s Hwf; cbn [drun].
  - cbn. repeat split; lia.
  - inversion Hwf as [|? ? Ho Hops]; subst.
    destruct (dstep_safe s o Ho) as (s1 & out & c & -> & Ht & Hoff & Hc).
    destruct (IH s1 Hops) as (Hp & Ht2 & Hoff2 & Hc2). cbn [r_panic r_state r_cost length].
    split; [exact Hp|]. split; [congruence|]. split; [lia|].
    intros Hg. inversion Hg; subst. specialize (Hc H1). specialize (Hc2 H2). lia.
Qed.

Corollary drun_consumed : forall ops b, wf_prog ops ->
  r_panic (drun (dinit b) ops) = false /\ (off (r_state (drun (dinit b) ops)) <= length b)%nat.
Proof.
  intros ops b Hwf. destruct (drun_safe ops (dinit b) Hwf) as (Hp & Ht & Ho & _).
  split; auto. unfold total in Ht. cbn [dinit off rem] in Ht. lia.
Qed.

Corollary drun_cost : forall ops b, wf_prog ops -> guarded_prog ops ->
  (r_cost (drun (dinit b) ops) <= N.of_nat (length b) + 64 * N.of_nat (length ops))%N.
Proof.
  intros ops b Hwf Hg. destruct (drun_safe ops (dinit b) Hwf) as (Hp & Ht & Ho & Hc).
  specialize (Hc Hg). unfold total in Ht. cbn [dinit off rem] in *. lia.
Qed.

(* the item deserializers of the harness satisfy the contract; all but the zero-size one consume *)
Lemma item_run_ok : forall it, item_ok (item_run it).
Proof.
  intros it b. destruct it as [k| |]; cbn [item_run].
  - destruct (Nat.ltb_spec (length b) k); split; try discriminate; intros n Hn; inversion Hn; lia.
  - destruct b as [|l b']; [split; [discriminate | intros n Hn; discriminate]|].
    destruct (Nat.ltb_spec (length (l :: b')) (S (N.to_nat l))); split; try discriminate; intros n Hn; inversion Hn; lia.
  - split; [discriminate | intros n Hn; discriminate].
Qed.

Lemma item_run_consuming : forall it, it <> IFixed 0 -> consuming (item_run it).
Proof.
  intros it Hit b n. destruct it as [k| |]; cbn [item_run].
  - destruct (length b <? k); intros H; inversion H. destruct n; [congruence | lia].
  - destruct b; [discriminate|]. destruct (length (n0 :: b) <? S (N.to_nat n0)); intros H; inversion H; lia.
  - discriminate.
Qed.

(* the objects and the selector of the harness *)
Lemma hobj_ok : forall hdr k, item_ok (hobj hdr k).
Proof.
  intros hdr k b. unfold hobj. destruct (Nat.ltb_spec (length b) (hdr + k)); split; try discriminate;
    intros n Hn; inversion Hn; lia.
Qed.
Lemma hsel_ok : forall hdr k1 k2, sel_ok (hsel hdr k1 k2).
Proof.
  intros hdr k1 k2 ty f. unfold hsel.
  destruct ((ty =? 0) || (ty =? 1))%Z; [intros H; inversion H; apply hobj_ok|].
  destruct (ty =? 2)%Z; [intros H; inversion H; apply hobj_ok|].
  destruct (ty =? 3)%Z; [|discriminate].
  intros H; inversion H. intros b. split; [discriminate | intros n Hn; discriminate].
Qed.
Lemma hobj_consuming : forall hdr k, (1 <= hdr + k)%nat -> consuming (hobj hdr k).
Proof. intros hdr k H b n. unfold hobj. destruct (length b <? hdr + k); intros E; inversion E; lia. Qed.
Lemma obj_item_consuming : forall t sel, (forall ty f, sel ty = Some f -> consuming f) -> consuming (obj_item t sel).
Proof.
  intros t sel Hs b n. unfold obj_item. destruct (length b <? tden_size t); [discriminate|].
  destruct (sel (obj_type t b)) as [f|] eqn:E; [apply (Hs _ _ E) | discriminate].
Qed.

(* D02d: with zero-size items the loop runs prefix-many times on a 2-byte input *)
Definition d02d_input : list N := [255; 255]%N.
Definition d02d_op : dop := DSeq false L16 (item_run (IFixed 0)) (mkRules 0 0 VNone).
Lemma refuted_zero_size_items :
  wf_op d02d_op /\ r_cost (drun (dinit d02d_input) [d02d_op]) = 65535%N /\
  ~ (r_cost (drun (dinit d02d_input) [d02d_op]) <= N.of_nat (length d02d_input) + 64 * 1)%N.
Proof.
  split; [split; [discriminate | apply item_run_ok]|].
  assert (E : r_cost (drun (dinit d02d_input) [d02d_op]) = 65535%N) by (vm_compute; reflexivity).
  split; [exact E|]. rewrite E. cbn. lia.
Qed.

(* the pinned ReadVariableByteSlice (before 2366906): make([]byte, sliceLength) came before both checks *)
Definition dvar_cost_pinned (l : lpt) (s : dst) : N :=
  match read_slice_length l s with Ok (len, _) => Z.to_N len | _ => 0%N end.
Lemma refuted_pinned_var_alloc :
  dvar_cost_pinned L32 (dinit [255; 255; 255; 63; 1; 2]%N) = 1073741823%N /\
  (exists s' o c, dstep (dinit [255; 255; 255; 63; 1; 2]%N) (DVar L32 0 10) = SOk s' o c /\ c = 0%N /\ derr s' = Some ELenMax).
Proof. split; [vm_compute; reflexivity|]. do 3 eexists. vm_compute. repeat split. Qed.
