(* Little-endian encode/decode are inverse for every width. *)
From Coq Require Import ZArith NArith List Bool Lia.
From Verif.C02_Prims Require Import Model.
Import ListNotations.

Lemma le_enc_length : forall n v, length (le_enc n v) = n.
Proof. induction n; intros; cbn [le_enc length]; auto. Qed.

Lemma le_enc_bytes : forall n v, Forall (fun b => (b < 256)%N) (le_enc n v).
Proof.
  induction n; intros; cbn [le_enc]; constructor; auto.
  apply N.mod_lt. discriminate.
Qed.

Lemma le_dec_enc : forall n v, (v < 2 ^ (8 * N.of_nat n))%N -> le_dec (le_enc n v) = v.
Proof.
  induction n; intros v Hv.
  - cbn in *. lia.
  - cbn [le_enc le_dec].
    rewrite IHn.
    + pose proof (N.div_mod v 256). lia.
    + replace (8 * N.of_nat (S n))%N with (8 + 8 * N.of_nat n)%N in Hv by lia.
      rewrite N.pow_add_r in Hv. change (2 ^ 8)%N with 256%N in Hv.
      apply N.div_lt_upper_bound; [discriminate | exact Hv].
Qed.

Lemma le_dec_bound : forall bs, Forall (fun b => (b < 256)%N) bs -> (le_dec bs < 2 ^ (8 * N.of_nat (length bs)))%N.
Proof.
  induction 1; cbn [le_dec length].
  - cbn. lia.
  - replace (8 * N.of_nat (S (length l)))%N with (8 + 8 * N.of_nat (length l))%N by lia.
    rewrite N.pow_add_r. change (2 ^ 8)%N with 256%N. lia.
Qed.

Lemma le_enc_dec : forall bs, Forall (fun b => (b < 256)%N) bs -> le_enc (length bs) (le_dec bs) = bs.
Proof.
  induction 1; cbn [le_dec length le_enc]; auto.
  f_equal.
  - rewrite (N.mul_comm 256), N.mod_add by discriminate. apply N.mod_small; auto.
  - rewrite (N.mul_comm 256), N.div_add by discriminate.
    rewrite (N.div_small x 256) by auto. rewrite N.add_0_l. exact IHForall.
Qed.

(* numbers of every kind *)
Lemma full_pos : forall n, (0 < full n)%Z.
Proof. intros. unfold full. apply Z.pow_pos_nonneg; lia. Qed.

Lemma full_half : forall n, (0 < n)%nat -> full n = (2 * half n)%Z.
Proof.
  intros. unfold full, half.
  replace (8 * Z.of_nat n)%Z with (1 + (8 * Z.of_nat n - 1))%Z at 1 by lia.
  rewrite Z.pow_add_r by lia. reflexivity.
Qed.

Lemma full_N : forall n, full n = Z.of_N (2 ^ (8 * N.of_nat n)).
Proof. intros. unfold full. rewrite N2Z.inj_pow, N2Z.inj_mul, nat_N_Z. reflexivity. Qed.

Lemma nk_size_pos : forall k, (0 < nk_size k)%nat.
Proof. destruct k; cbn; lia. Qed.

Theorem num_roundtrip : forall k v, in_range k v -> num_of_bytes k (bytes_of_num k v) = v.
Proof.
  intros k v Hr. unfold num_of_bytes, bytes_of_num.
  pose proof (full_pos (nk_size k)) as Hf.
  pose proof (full_half (nk_size k) (nk_size_pos k)) as Hh.
  pose proof (Z.mod_pos_bound v (full (nk_size k)) Hf) as Hm.
  rewrite le_dec_enc.
  2:{ apply N2Z.inj_lt. rewrite Z2N.id by lia. rewrite <- full_N. lia. }
  rewrite Z2N.id by lia.
  unfold in_range in Hr. destruct (nk_signed k); cbn [andb].
  - destruct (Z_lt_dec v 0).
    + assert (v mod full (nk_size k) = v + full (nk_size k))%Z as ->.
      { symmetry. apply Z.mod_unique with (q := (-1)%Z); lia. }
      destruct (Z.leb_spec (half (nk_size k)) (v + full (nk_size k))); lia.
    + rewrite Z.mod_small by lia.
      destruct (Z.leb_spec (half (nk_size k)) v); lia.
  - apply Z.mod_small. lia.
Qed.

Lemma bytes_of_num_length : forall k v, length (bytes_of_num k v) = nk_size k.
Proof. intros. apply le_enc_length. Qed.

(* the decoded number is always inside the kind's range, whatever the bytes *)
Theorem num_of_bytes_range : forall k bs,
  Forall (fun b => (b < 256)%N) bs -> length bs = nk_size k -> in_range k (num_of_bytes k bs).
Proof.
  intros k bs Hb Hl. unfold num_of_bytes, in_range.
  pose proof (le_dec_bound bs Hb) as Hd. rewrite Hl in Hd.
  apply N2Z.inj_lt in Hd. rewrite <- full_N in Hd.
  pose proof (N2Z.is_nonneg (le_dec bs)).
  pose proof (full_half (nk_size k) (nk_size_pos k)).
  destruct (nk_signed k); cbn [andb]; [| lia].
  destruct (Z.leb_spec (half (nk_size k)) (Z.of_N (le_dec bs))); lia.
Qed.

(* and re-encoding it gives the bytes back (decode is injective on well-formed input) *)
Theorem num_bytes_roundtrip : forall k bs,
  Forall (fun b => (b < 256)%N) bs -> length bs = nk_size k -> bytes_of_num k (num_of_bytes k bs) = bs.
Proof.
  intros k bs Hb Hl. unfold num_of_bytes, bytes_of_num.
  pose proof (le_dec_bound bs Hb) as Hd. rewrite Hl in Hd.
  apply N2Z.inj_lt in Hd. rewrite <- full_N in Hd.
  pose proof (N2Z.is_nonneg (le_dec bs)).
  pose proof (full_pos (nk_size k)).
  assert ((if nk_signed k && (half (nk_size k) <=? Z.of_N (le_dec bs))%Z
           then (Z.of_N (le_dec bs) - full (nk_size k))%Z else Z.of_N (le_dec bs)) mod full (nk_size k)
          = Z.of_N (le_dec bs))%Z as ->.
  { destruct (nk_signed k && _).
    - symmetry. apply Z.mod_unique with (q := (-1)%Z); lia.
    - apply Z.mod_small. lia. }
  rewrite N2Z.id. rewrite <- Hl. apply le_enc_dec. exact Hb.
Qed.
