(* Write/Read pairs: Serializer -> Deserializer primitives and stream helpers, for every chunking. *)
From Coq Require Import ZArith NArith List Bool Lia.
From Verif.C02_Prims Require Import Model Stream ProofsLE ProofsStream.
Import ListNotations.

Lemma firstn_app_exact : forall (a b : list N), firstn (length a) (a ++ b) = a.
Proof. intros. rewrite firstn_app, Nat.sub_diag, firstn_all, firstn_O, app_nil_r. reflexivity. Qed.
Lemma skipn_app_exact : forall (a b : list N), skipn (length a) (a ++ b) = b.
Proof. intros. rewrite skipn_app, Nat.sub_diag, skipn_all. reflexivity. Qed.
Lemma ltb_app_false : forall (a b : list N), (length (a ++ b) <? length a) = false.
Proof. intros. apply Nat.ltb_ge. rewrite app_length. lia. Qed.

(* ---- Serializer / Deserializer ---- *)
Theorem des_num_roundtrip : forall k v rest o, in_range k v ->
  dstep (mkD (bytes_of_num k v ++ rest) o None) (DNum k) = SOk (mkD rest (o + nk_size k) None) (ONum v) 0.
Proof.
  intros k v rest o Hr. cbn [dstep derr rem].
  pose proof (num_roundtrip k v Hr) as Hnum. pose proof (bytes_of_num_length k v) as Hlen.
  remember (bytes_of_num k v) as bs. rewrite <- Hlen.
  rewrite ltb_app_false, firstn_app_exact.
  unfold dadv. cbn [rem off derr]. rewrite skipn_app_exact, Hnum. reflexivity.
Qed.

Theorem des_bool_roundtrip : forall (b : bool) rest o,
  dstep (mkD ((if b then 1%N else 0%N) :: rest) o None) DBool = SOk (mkD rest (o + 1) None) (OBool b) 0.
Proof. intros [] rest o; reflexivity. Qed.

Theorem des_bytes_roundtrip : forall bs rest o,
  dstep (mkD (bs ++ rest) o None) (DBytes (length bs)) =
  SOk (mkD rest (o + length bs) None) (OBytes bs) (N.of_nat (length bs)).
Proof.
  intros. cbn [dstep derr rem]. rewrite ltb_app_false, firstn_app_exact.
  unfold dadv. cbn [rem off derr]. rewrite skipn_app_exact. reflexivity.
Qed.

Lemma slice_length_bytes_ok : forall l n p, (0 <= n)%Z -> (n <= MaxInt64)%Z -> slice_length_bytes l n = Ok p ->
  p = le_enc (lpt_size l) (Z.to_N n) /\ (Z.to_N n < 2 ^ (8 * N.of_nat (lpt_size l)))%N /\ l <> LBad.
Proof.
  intros l n p Hn Hmax H. unfold slice_length_bytes in H. unfold MaxInt64 in Hmax.
  destruct l; cbn [lpt_size].
  - destruct (Z.ltb_spec 255 n); inversion H; subst. repeat split; [|discriminate]. change (2 ^ (8 * N.of_nat 1))%N with 256%N. lia.
  - destruct (Z.ltb_spec 65535 n); inversion H; subst. repeat split; [|discriminate]. change (2 ^ (8 * N.of_nat 2))%N with 65536%N. lia.
  - destruct (Z.ltb_spec 4294967295 n); inversion H; subst. repeat split; [|discriminate]. change (2 ^ (8 * N.of_nat 4))%N with 4294967296%N. lia.
  - inversion H; subst. repeat split; [|discriminate]. change (2 ^ (8 * N.of_nat 8))%N with 18446744073709551616%N. lia.
  - discriminate.
Qed.

Lemma read_slice_length_roundtrip : forall l n p rest o, (0 <= n)%Z -> (n <= MaxInt64)%Z ->
  slice_length_bytes l n = Ok p ->
  read_slice_length l (mkD (p ++ rest) o None) = Ok (n, mkD rest (o + lpt_size l) None).
Proof.
  intros l n p rest o Hn Hmax H.
  destruct (slice_length_bytes_ok l n p Hn Hmax H) as (-> & Hlt & Hl).
  pose proof (le_enc_length (lpt_size l) (Z.to_N n)) as Hlen.
  pose proof (le_dec_enc (lpt_size l) (Z.to_N n) Hlt) as Hdec.
  remember (le_enc (lpt_size l) (Z.to_N n)) as pp.
  unfold read_slice_length, dadv. cbn [rem off derr].
  destruct l; try congruence; cbn [lpt_size] in *; rewrite <- Hlen;
    rewrite ltb_app_false, firstn_app_exact, skipn_app_exact, Hdec, Z2N.id by lia; try reflexivity.
  destruct (Z.ltb_spec MaxInt64 n); [lia | reflexivity].
Qed.

(* WriteVariableByteSlice -> ReadVariableByteSlice and WriteString -> ReadString *)
Theorem des_var_roundtrip : forall l bs mn mx p rest o,
  (Z.of_nat (length bs) <= MaxInt64)%Z ->
  slice_length_bytes l (Z.of_nat (length bs)) = Ok p ->
  len_check mn mx (Z.of_nat (length bs)) = None ->
  exists c,
  dstep (mkD (p ++ bs ++ rest) o None) (DVar l mn mx) = SOk (mkD rest (o + lpt_size l + length bs) None) (OBytes bs) c /\
  dstep (mkD (p ++ bs ++ rest) o None) (DString l mn mx) = SOk (mkD rest (o + lpt_size l + length bs) None) (OBytes bs) c.
Proof.
  intros l bs mn mx p rest o Hmax Hp Hchk.
  pose proof (read_slice_length_roundtrip l (Z.of_nat (length bs)) p (bs ++ rest) o (Nat2Z.is_nonneg _) Hmax Hp) as Hr.
  cbn [dstep derr]. rewrite Hr, Hchk. cbn [rem].
  assert (Hlt : (Z.of_nat (length (bs ++ rest)) <? Z.of_nat (length bs))%Z = false).
  { apply Z.ltb_ge. rewrite app_length. lia. }
  rewrite Hlt, Nat2Z.id. unfold dadv. cbn [rem off derr]. rewrite firstn_app_exact, skipn_app_exact.
  destruct (Z.eqb_spec (Z.of_nat (length bs)) 0) as [E|E].
  - assert (bs = []) by (destruct bs; [reflexivity | cbn in E; lia]). subst bs. cbn [app length].
    exists 0%N. rewrite Nat.add_0_r. split; reflexivity.
  - eexists. split; reflexivity.
Qed.

(* ---- stream: typed values and length-prefixed bytes, for every fault-free script ---- *)
Definition typed (t : tk) (v : sval) : Prop :=
  match t, v with
  | TNum k, SVNum z => in_range k z
  | TBool, SVBool _ => True
  | TArr n, SVBytes bs => length bs = n
  | _, _ => False
  end.

Lemma tk_encode_length : forall t v, typed t v -> length (tk_encode t v) = tk_size t.
Proof.
  intros [k| |n] [z|b|bs|l] H; cbn in H; try contradiction; cbn [tk_encode tk_size].
  - apply bytes_of_num_length. - reflexivity. - exact H.
Qed.

Lemma tk_decode_encode : forall t v, typed t v -> tk_decode t (tk_encode t v) = v.
Proof.
  intros [k| |n] [z|b|bs|l] H; cbn in H; try contradiction; cbn [tk_encode tk_decode].
  - now rewrite num_roundtrip. - destruct b; reflexivity. - reflexivity.
Qed.

Lemma read_fixed_roundtrip : forall bs rest es, fault_free es ->
  exists es', fault_free es' /\
    read_fixed (length bs) (mkR (bs ++ rest) es) = (Ok bs, mkR rest es', N.of_nat (length bs)).
Proof.
  intros bs rest es Hff. unfold read_fixed. cbn [rdata revs].
  destruct (read_full_ok es (length bs) (bs ++ rest) Hff) as (es' & Hff' & ->).
  { rewrite app_length. lia. }
  exists es'. split; auto. now rewrite firstn_app_exact, skipn_app_exact.
Qed.

Theorem read_t_roundtrip : forall t v rest es, typed t v -> fault_free es ->
  exists es' c, fault_free es' /\ read_t t (mkR (tk_encode t v ++ rest) es) = (Ok v, mkR rest es', c).
Proof.
  intros t v rest es Ht Hff. unfold read_t.
  destruct (read_fixed_roundtrip (tk_encode t v) rest es Hff) as (es' & Hff' & H).
  rewrite (tk_encode_length t v Ht) in H. rewrite H, tk_decode_encode by assumption.
  exists es'. eexists. split; [assumption | reflexivity].
Qed.

Lemma to_i64_small : forall n, (0 <= n <= MaxInt64)%Z -> to_i64 n = n.
Proof.
  intros n Hn. unfold to_i64, MaxInt64 in *.
  change (full 8) with 18446744073709551616%Z. change (half 8) with 9223372036854775808%Z.
  rewrite Z.mod_small by lia. destruct (Z.leb_spec 9223372036854775808 n); lia.
Qed.

Theorem read_bytes_with_size_roundtrip : forall l bs w rest es,
  (Z.of_nat (length bs) <= MaxInt64)%Z -> with_size l bs = Ok w -> fault_free es ->
  exists es' c, fault_free es' /\ read_bytes_with_size l (mkR (w ++ rest) es) = (Ok bs, mkR rest es', c).
Proof.
  intros l bs w rest es Hmax Hw Hff. unfold with_size in Hw.
  destruct (slice_length_bytes l (Z.of_nat (length bs))) as [p| |] eqn:Hp; inversion Hw; subst w; clear Hw.
  destruct (slice_length_bytes_ok l (Z.of_nat (length bs)) p (Nat2Z.is_nonneg _) Hmax Hp) as (-> & Hlt & Hl).
  assert (Hlen : length (le_enc (lpt_size l) (Z.to_N (Z.of_nat (length bs)))) = lpt_size l) by apply le_enc_length.
  unfold read_bytes_with_size, read_fixed_size. rewrite <- app_assoc.
  destruct (read_fixed_roundtrip (le_enc (lpt_size l) (Z.to_N (Z.of_nat (length bs)))) (bs ++ rest) es Hff) as (es1 & Hff1 & H).
  rewrite Hlen in H.
  assert (Hfit : (Z.to_N MaxInt64 <? Z.to_N (Z.of_nat (length bs)))%N = false).
  { apply N.ltb_ge. unfold MaxInt64 in *. lia. }
  destruct l; try congruence; rewrite H, le_dec_enc by exact Hlt; cbv zeta; rewrite Hfit.
  all: destruct (N.eqb_spec (Z.to_N (Z.of_nat (length bs))) 0) as [E|E];
    [ assert (bs = []) by (destruct bs; [reflexivity | cbn [length] in E; lia]); subst bs; cbn [app];
      exists es1; eexists; split; [assumption | reflexivity]
    | rewrite Z2N.id by lia;
      destruct (read_bytes_roundtrip bs rest es1 Hff1) as (es2 & c2 & Hff2 & ->);
      exists es2; eexists; split; [assumption | reflexivity] ].
Qed.

(* ---- WriteCollection / ReadCollection ---- *)

(* iter_until (binary trip count) is plain iteration with early exit *)
Fixpoint iter_nat {S R : Type} (n : nat) (f : S -> S + R) (s : S) : S + R :=
  match n with
  | O => inl s
  | Datatypes.S m => match f s with inl s' => iter_nat m f s' | inr r => inr r end
  end.

Lemma iter_nat_add : forall {S R : Type} (f : S -> S + R) a b s,
  iter_nat (a + b) f s = match iter_nat a f s with inl s' => iter_nat b f s' | inr r => inr r end.
Proof.
  intros S R f. induction a as [|a IH]; intros b s; [reflexivity|]. cbn [plus iter_nat].
  destruct (f s); [apply IH | reflexivity].
Qed.

Lemma iter_until_nat : forall {S R : Type} (f : S -> S + R) p s, iter_until p f s = iter_nat (Pos.to_nat p) f s.
Proof.
  intros S R f. induction p as [q IH|q IH|]; intros s; cbn [iter_until].
  - rewrite Pos2Nat.inj_xI. cbn [iter_nat]. destruct (f s) as [s0|r]; [|reflexivity].
    replace (2 * Pos.to_nat q)%nat with (Pos.to_nat q + Pos.to_nat q)%nat by lia.
    rewrite iter_nat_add, <- IH. destruct (iter_until q f s0); [apply IH | reflexivity].
  - rewrite Pos2Nat.inj_xO. replace (2 * Pos.to_nat q)%nat with (Pos.to_nat q + Pos.to_nat q)%nat by lia.
    rewrite iter_nat_add, <- IH. destruct (iter_until q f s); [apply IH | reflexivity].
  - rewrite Pos2Nat.inj_1. cbn [iter_nat]. destruct (f s); reflexivity.
Qed.

(* the read callback (ReadBytes of k bytes) walks over the elements, whatever the chunking *)
Lemma coll_body_iter : forall k elems rest es acc c, Forall (fun e => length e = k) elems -> fault_free es ->
  exists es' c', fault_free es' /\
    iter_nat (length elems) (coll_body k) (mkR (concat elems ++ rest) es, acc, c) = inl (mkR rest es', rev elems ++ acc, c').
Proof.
  intros k. induction elems as [|e elems IH]; intros rest es acc c Hk Hff.
  - exists es, c. split; [assumption | reflexivity].
  - inversion Hk as [|? ? He Hks]; subst. cbn [length iter_nat concat]. unfold coll_body at 1.
    rewrite <- app_assoc.
    destruct (read_bytes_roundtrip e (concat elems ++ rest) es Hff) as (es1 & c1 & Hff1 & ->).
    destruct (IH rest es1 (e :: acc) (c + 1 + c1)%N Hks Hff1) as (es2 & c2 & Hff2 & ->).
    exists es2, c2. split; [assumption|]. cbn [rev]. now rewrite <- app_assoc.
Qed.

Definition at_end (b : bb) : Prop := bpos b = length (bbuf b).

Lemma bb_write_end : forall b p, at_end b -> bb_write b p = mkB (bbuf b ++ p) (length (bbuf b) + length p).
Proof.
  intros [buf pos] p H. unfold at_end in H. cbn [bbuf bpos] in H. subst pos. unfold bb_write. cbn [bbuf bpos].
  rewrite Nat.sub_diag. cbn [repeat]. rewrite app_nil_r, firstn_all, skipn_all2 by lia. now rewrite app_nil_r.
Qed.

Lemma fold_write_end : forall elems b, at_end b ->
  fold_left bb_write elems b = mkB (bbuf b ++ concat elems) (length (bbuf b) + length (concat elems)).
Proof.
  induction elems as [|e elems IH]; intros b H; cbn [fold_left concat].
  - rewrite app_nil_r. cbn [length]. rewrite Nat.add_0_r. destruct b as [buf pos]. unfold at_end in H. cbn in *. now subst.
  - rewrite bb_write_end by assumption. rewrite IH by (unfold at_end; cbn [bbuf bpos]; now rewrite app_length).
    cbn [bbuf]. rewrite <- app_assoc, !app_length. f_equal. lia.
Qed.

(* WriteCollection at the end of a buffer (the placeholder is written, the elements follow, the count is patched in):
   exactly prefix(count) ++ elements is appended, also for the empty collection, and the position is the end again *)
Lemma write_collection_end : forall l elems count b b', at_end b -> (0 <= count <= MaxInt64)%Z ->
  wop_run (WCollection l elems count) b = Ok b' ->
  exists p, slice_length_bytes l count = Ok p /\ b' = mkB (bbuf b ++ p ++ concat elems) (length (bbuf b ++ p ++ concat elems)).
Proof.
  intros l elems count b b' Hend Hc H. cbn [wop_run] in H.
  destruct (slice_length_bytes l 0) as [z| |] eqn:Hz; try discriminate.
  destruct (slice_length_bytes l count) as [p| |] eqn:Hp; try discriminate.
  destruct (slice_length_bytes_ok l 0 z ltac:(lia) ltac:(unfold MaxInt64; lia) Hz) as (-> & _ & _).
  destruct (slice_length_bytes_ok l count p ltac:(lia) ltac:(lia) Hp) as (-> & _ & _).
  exists (le_enc (lpt_size l) (Z.to_N count)). split; [reflexivity|].
  pose proof (le_enc_length (lpt_size l) (Z.to_N 0)) as Lz. pose proof (le_enc_length (lpt_size l) (Z.to_N count)) as Lp.
  set (z := le_enc (lpt_size l) (Z.to_N 0)) in *. set (p := le_enc (lpt_size l) (Z.to_N count)) in *.
  cbv zeta in H. rewrite (bb_write_end b z Hend) in H.
  rewrite fold_write_end in H by (unfold at_end; cbn [bbuf bpos]; now rewrite app_length).
  cbn [bbuf bpos] in H. inversion H; subst b'; clear H.
  unfold bb_goto, bb_write. cbn [bbuf bpos]. unfold at_end in Hend. rewrite Hend.
  set (pre := bbuf b) in *. set (body := concat elems) in *.
  replace (length pre - length ((pre ++ z) ++ body))%nat with 0%nat by (rewrite !app_length; lia).
  cbn [repeat]. rewrite app_nil_r, <- app_assoc.
  rewrite firstn_app, Nat.sub_diag, firstn_all, firstn_O, app_nil_r.
  rewrite skipn_app. rewrite skipn_all2 by lia. cbn [app].
  replace (length pre + length p - length pre)%nat with (length z) by lia.
  rewrite skipn_app, skipn_all, Nat.sub_diag. cbn [app skipn].
  f_equal. rewrite !app_length. lia.
Qed.

(* ... and ReadCollection (elements of k bytes read with ReadBytes) gives the elements back under every fault-free
   chunking, consuming exactly what was written *)
Theorem collection_roundtrip : forall l k elems b b' rest es,
  at_end b -> Forall (fun e => length e = k) elems -> (Z.of_nat (length elems) <= MaxInt64)%Z ->
  wop_run (WCollection l elems (Z.of_nat (length elems))) b = Ok b' -> fault_free es ->
  exists w, b' = mkB (bbuf b ++ w) (length (bbuf b ++ w)) /\
    exists es' c, fault_free es' /\ read_collection l k (mkR (w ++ rest) es) = (Ok (SVList elems), mkR rest es', c).
Proof.
  intros l k elems b b' rest es Hend Hk Hmax Hw Hff.
  assert (Hrange : (0 <= Z.of_nat (length elems) <= MaxInt64)%Z) by lia.
  destruct (write_collection_end l elems (Z.of_nat (length elems)) b b' Hend Hrange Hw) as (p & Hp & ->).
  exists (p ++ concat elems). split; [reflexivity|].
  destruct (slice_length_bytes_ok l _ p (Nat2Z.is_nonneg _) Hmax Hp) as (-> & Hlt & Hl).
  assert (Hlen : length (le_enc (lpt_size l) (Z.to_N (Z.of_nat (length elems)))) = lpt_size l) by apply le_enc_length.
  unfold read_collection, read_fixed_size. rewrite <- app_assoc.
  destruct (read_fixed_roundtrip (le_enc (lpt_size l) (Z.to_N (Z.of_nat (length elems)))) (concat elems ++ rest) es Hff)
    as (es1 & Hff1 & H).
  rewrite Hlen in H.
  assert (Hfit : (Z.to_N MaxInt64 <? Z.to_N (Z.of_nat (length elems)))%N = false).
  { apply N.ltb_ge. unfold MaxInt64 in *. lia. }
  destruct l; try congruence; rewrite H, le_dec_enc by exact Hlt; cbv zeta; rewrite Hfit.
  all: destruct (Z.to_N (Z.of_nat (length elems))) as [|q] eqn:Eq;
    [ assert (elems = []) by (destruct elems; [reflexivity | cbn [length] in Eq; lia]); subst elems; cbn [concat app];
      exists es1; eexists; split; [assumption | reflexivity]
    | rewrite iter_until_nat;
      replace (Pos.to_nat q) with (length elems) by lia;
      match goal with |- context [iter_nat _ _ (_, _, ?c0)] =>
        destruct (coll_body_iter k elems rest es1 [] c0 Hk Hff1) as (es2 & c2 & Hff2 & ->) end;
      exists es2, c2; split; [assumption|]; now rewrite app_nil_r, rev_involutive ].
Qed.

(* ---- the pinned ReadBytes (before 93eaa3d / 251eda6): make first, one Read call ---- *)
Definition read_once (want : nat) (r : reader) : list N :=
  match revs r with e :: _ => firstn (chunk_of e want) (rdata r) | [] => firstn want (rdata r) end.
Definition read_bytes_pinned (len : Z) (r : reader) : res (list N) * Z (* bytes handed to make *) :=
  if (len <? 0)%Z then (Panic, 0%Z)                       (* makeslice: len out of range *)
  else let got := read_once (Z.to_nat len) r in
       (if length got =? Z.to_nat len then Ok got else Err EOther, len).

Definition hello : list N := [104; 101; 108; 108; 111; 32; 119; 111; 114; 108; 100]%N.

Lemma refuted_pinned_single_read :
  fst (read_bytes_pinned 11 (mkR hello (repeat (Give 1) 19))) = Err EOther /\
  fst (fst (read_bytes 11 (mkR hello (repeat (Give 1) 19)))) = Ok hello.
Proof. split; vm_compute; reflexivity. Qed.

Lemma refuted_pinned_negative_size : forall r, fst (read_bytes_pinned (-1) r) = Panic.
Proof. reflexivity. Qed.

Lemma refuted_pinned_alloc_follows_prefix : forall len r, (0 <= len)%Z -> snd (read_bytes_pinned len r) = len.
Proof. intros len r H. unfold read_bytes_pinned. destruct (Z.ltb_spec len 0); [lia | reflexivity]. Qed.
