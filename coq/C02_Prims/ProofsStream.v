(* Stream helpers: io.ReadFull over any script; chunk independence for fault-free scripts; ReadBytes. *)
From Coq Require Import ZArith NArith List Bool Lia.
From Verif.C02_Prims Require Import Model Stream ProofsLE.
Import ListNotations.

Definition fault_free (es : list ev) : Prop := Forall (fun e => e <> Fault) es.

Lemma min_np_spec : forall n p, min_np n p = Nat.min n (Pos.to_nat p).
Proof.
  induction n as [|n IH]; intros p; [reflexivity|]. cbn [min_np].
  destruct (Pos.eq_dec p 1) as [->|Hp]; [rewrite Pos2Nat.inj_1; destruct n; reflexivity|].
  assert (Hs : Pos.to_nat p = S (Pos.to_nat (Pos.pred p))).
  { rewrite Pos2Nat.inj_pred by lia. pose proof (Pos2Nat.is_pos p). lia. }
  replace (match p with xH => 1%nat | _ => S (min_np n (Pos.pred p)) end) with (S (min_np n (Pos.pred p)))
    by (destruct p; congruence).
  rewrite IH, Hs. reflexivity.
Qed.

Lemma chunk_of_bounds : forall e want, e <> Fault -> (0 < want)%nat -> (1 <= chunk_of e want <= want)%nat.
Proof.
  intros e want He Hw. destruct e as [p| |]; [| |congruence]; cbn [chunk_of].
  - rewrite min_np_spec. pose proof (Pos2Nat.is_pos p). lia.
  - split.
    + apply Nat.div_le_lower_bound; lia.
    + apply Nat.div_le_upper_bound; lia.
Qed.

Lemma my_skipn_skipn : forall a b (l : list N), skipn a (skipn b l) = skipn (b + a) l.
Proof.
  intros a b. induction b as [|b IH]; intros l; [reflexivity|].
  destruct l as [|x l]; cbn [skipn plus]; [apply skipn_nil | apply IH].
Qed.

Lemma read_full_0 : forall d es, read_full 0 d es = ([], mkR d es, RNil).
Proof. destruct es; reflexivity. Qed.

Lemma read_full_unfold : forall want d es, want <> 0%nat ->
  read_full want d es =
    match es with
    | [] =>
        match d with
        | [] => ([], mkR [] [], REOF)
        | _ => let got := firstn want d in
               (got, mkR (skipn want d) [], if length got <? want then REOF else RNil)
        end
    | Fault :: es' => ([], mkR d es', RFault)
    | e :: es' =>
        match d with
        | [] => ([], mkR [] es', REOF)
        | _ => let k := chunk_of e want in
               let got := firstn k d in
               let '(g2, r2, er) := read_full (want - length got) (skipn k d) es' in
               (got ++ g2, r2, er)
        end
    end.
Proof. intros want d es H. destruct want; [congruence|]. destruct es; reflexivity. Qed.

(* one chunked Read followed by the rest of io.ReadFull *)
Lemma read_full_step : forall e es want d, e <> Fault -> want <> 0%nat -> d <> [] ->
  read_full want d (e :: es) =
    let k := chunk_of e want in
    let '(g2, r2, er) := read_full (want - length (firstn k d)) (skipn k d) es in
    (firstn k d ++ g2, r2, er).
Proof.
  intros e es want d He Hw Hd. rewrite read_full_unfold by auto.
  destruct e; try congruence; destruct d; try congruence; reflexivity.
Qed.

(* ---- facts that hold for every script (faults included) ---- *)
Lemma read_full_spec : forall es want d got r e,
  read_full want d es = (got, r, e) ->
  got = firstn (length got) d /\ rdata r = skipn (length got) d /\ (length got <= want)%nat /\
  (e = RNil <-> length got = want).
Proof.
  induction es as [|ev es IH]; intros want d got r e H.
  - destruct (Nat.eq_dec want 0) as [->|Hw].
    { rewrite read_full_0 in H. inversion H; subst. cbn. intuition. }
    rewrite read_full_unfold in H by auto. destruct d as [|x d'].
    + inversion H; subst. cbn. intuition; try discriminate; lia.
    + remember (x :: d') as d. cbv zeta in H. inversion H; subst got r e; clear H.
      rewrite firstn_length. cbn [rdata].
      destruct (Nat.ltb_spec (Nat.min want (length d)) want).
      * rewrite Nat.min_r by lia. rewrite firstn_all. rewrite (firstn_all2 d) by lia.
        repeat split; try lia; try discriminate. rewrite skipn_all. rewrite skipn_all2; auto. lia.
      * rewrite Nat.min_l by lia. repeat split; auto; lia.
  - destruct (Nat.eq_dec want 0) as [->|Hw].
    { rewrite read_full_0 in H. inversion H; subst. cbn. intuition. }
    destruct (list_eq_dec N.eq_dec d []) as [->|Hd].
    { rewrite read_full_unfold in H by auto.
      destruct ev; inversion H; subst; cbn; intuition; try discriminate; lia. }
    destruct ev as [p| |].
    3:{ rewrite read_full_unfold in H by auto. inversion H; subst. cbn. intuition; try discriminate; lia. }
    all: rewrite read_full_step in H by (auto; discriminate); cbv zeta in H.
    all: match type of H with context [chunk_of ?e ?w] => set (k := chunk_of e w) in *;
           assert (1 <= k <= w)%nat by (apply chunk_of_bounds; [discriminate | lia]) end.
    all: destruct (read_full (want - length (firstn k d)) (skipn k d) es) as [[g2 r2] er] eqn:E;
         inversion H; subst got r e; clear H;
         apply IH in E; destruct E as (Eg & Er & El & Ee);
         rewrite app_length, firstn_length in *;
         set (m := Nat.min k (length d)) in *;
         assert (Hm : firstn k d = firstn m d) by
           (unfold m; destruct (Nat.le_ge_cases k (length d)); [rewrite Nat.min_l by lia; auto|];
            rewrite Nat.min_r by lia; rewrite firstn_all; apply firstn_all2; lia);
         assert (Hs : skipn k d = skipn m d) by
           (unfold m; destruct (Nat.le_ge_cases k (length d)); [rewrite Nat.min_l by lia; auto|];
            rewrite Nat.min_r by lia; rewrite skipn_all; apply skipn_all2; lia);
         rewrite Hs in *; repeat split;
         [ rewrite Hm; rewrite Eg at 1;
           rewrite <- (firstn_skipn m (firstn (m + length g2) d));
           rewrite firstn_firstn, Nat.min_l by lia;
           f_equal; rewrite skipn_firstn_comm; f_equal; lia
         | rewrite Er; rewrite my_skipn_skipn; f_equal; lia
         | lia
         | intros ->; assert (length g2 = want - m)%nat by (apply Ee; reflexivity); lia
         | intros; apply Ee; lia ].
Qed.

Lemma my_firstn_add : forall a b (l : list N), firstn (a + b) l = firstn a l ++ firstn b (skipn a l).
Proof.
  induction a as [|a IH]; intros b l; [reflexivity|].
  destruct l as [|x l]; cbn [plus firstn skipn app]; [now rewrite firstn_nil | f_equal; apply IH].
Qed.

(* ---- chunk independence: a fault-free script never changes what io.ReadFull delivers ---- *)
Lemma read_full_ok : forall es want d, fault_free es -> (want <= length d)%nat ->
  exists es', fault_free es' /\ read_full want d es = (firstn want d, mkR (skipn want d) es', RNil).
Proof.
  induction es as [|e es IH]; intros want d Hff Hlen.
  - exists []. split; [constructor|].
    destruct (Nat.eq_dec want 0) as [->|Hw]; [now rewrite read_full_0|].
    rewrite read_full_unfold by auto. destruct d as [|x d']; [cbn in Hlen; lia|].
    remember (x :: d') as d. cbv zeta. rewrite firstn_length, Nat.min_l by lia.
    rewrite Nat.ltb_irrefl. reflexivity.
  - destruct (Nat.eq_dec want 0) as [->|Hw].
    { exists (e :: es). split; [exact Hff | apply read_full_0]. }
    inversion Hff as [|? ? He Hes]; subst.
    assert (d <> []) by (destruct d; [cbn in Hlen; lia | discriminate]).
    rewrite read_full_step by auto. cbv zeta.
    pose proof (chunk_of_bounds e want He ltac:(lia)) as Hk.
    set (k := chunk_of e want) in *.
    assert (Hfl : length (firstn k d) = k) by (rewrite firstn_length; lia).
    rewrite Hfl.
    destruct (IH (want - k)%nat (skipn k d) Hes) as (es' & Hff' & ->).
    { rewrite skipn_length. lia. }
    exists es'. split; auto.
    rewrite my_skipn_skipn. replace (k + (want - k))%nat with want by lia.
    f_equal. f_equal. replace want with (k + (want - k))%nat at 2 by lia. now rewrite my_firstn_add.
Qed.

(* ---- ReadBytes (c8478d2: exact allocation up to 1 MiB, then a buffer that doubles when it is full) ---- *)
Lemma read_bytes_loop_eq : forall fuel len cap acc r c,
  read_bytes_loop fuel len cap acc r c =
    let '(got, r', e) := read_full (Z.to_nat (cap - Z.of_nat (length acc))) (rdata r) (revs r) in
    let acc' := acc ++ got in
    match e with
    | RNil =>
        let received := Z.of_nat (length acc') in
        if (received =? len)%Z then (Ok acc', r', c) else
        match fuel with
        | O => (Panic, r', c)
        | S f => let cap' := (received + Z.min received (len - received))%Z in
                 read_bytes_loop f len cap' acc' r' (c + Z.to_N cap')%N
        end
    | _ => (Err (io_err acc' e), r', c)
    end.
Proof. destruct fuel; reflexivity. Qed.

Lemma PREALLOC_val : PREALLOC = 1048576%Z. Proof. reflexivity. Qed.
Global Opaque PREALLOC.

(* loop invariant: the buffer holds what was received, is never longer than requested, and is either not yet full
   or already as long as requested *)
Definition buf_ok (len cap : Z) (acc : list N) : Prop :=
  (Z.of_nat (length acc) <= cap <= len)%Z /\ (Z.of_nat (length acc) < cap \/ cap = len)%Z.

(* fault-free script, enough data: exactly the next [len - |acc|] bytes, whatever the chunking *)
Lemma read_bytes_loop_ok : forall fuel len cap acc d es c,
  fault_free es -> buf_ok len cap acc ->
  (len - Z.of_nat (length acc) <= Z.of_nat (length d))%Z -> (length d < fuel)%nat ->
  exists es' c', fault_free es' /\
    read_bytes_loop fuel len cap acc (mkR d es) c =
      (Ok (acc ++ firstn (Z.to_nat (len - Z.of_nat (length acc))) d),
       mkR (skipn (Z.to_nat (len - Z.of_nat (length acc))) d) es', c').
Proof.
  induction fuel as [|f IH]; intros len cap acc d es c Hff [Hcap Hprog] Hneed Hfuel; [lia|].
  rewrite read_bytes_loop_eq. cbn [rdata revs].
  set (h := Z.of_nat (length acc)) in *.
  set (want := Z.to_nat (cap - h)).
  destruct (read_full_ok es want d Hff ltac:(lia)) as (es1 & Hff1 & ->). cbv zeta.
  assert (Hl1 : length (firstn want d) = want) by (rewrite firstn_length; lia).
  assert (Hrec : Z.of_nat (length (acc ++ firstn want d)) = cap) by (rewrite app_length, Hl1; lia).
  rewrite Hrec.
  destruct (Z.eqb_spec cap len) as [->|Hne].
  - exists es1, c. split; [assumption|]. fold want. reflexivity.
  - assert (h < cap)%Z by lia.
    set (cap' := (cap + Z.min cap (len - cap))%Z).
    destruct (IH len cap' (acc ++ firstn want d) (skipn want d) es1 (c + Z.to_N cap')%N Hff1)
      as (es2 & c2 & Hff2 & ->).
    + unfold buf_ok. rewrite Hrec. unfold cap'. lia.
    + rewrite Hrec, skipn_length. lia.
    + rewrite skipn_length. lia.
    + exists es2, c2. split; [assumption|]. rewrite Hrec.
      replace (Z.to_nat (len - cap)) with (Z.to_nat (len - h) - want)%nat by lia.
      rewrite my_skipn_skipn, <- app_assoc, <- my_firstn_add.
      replace (want + (Z.to_nat (len - h) - want))%nat with (Z.to_nat (len - h)) by lia. reflexivity.
Qed.

Theorem read_bytes_roundtrip : forall bs rest es, fault_free es ->
  exists es' c, fault_free es' /\
    read_bytes (Z.of_nat (length bs)) (mkR (bs ++ rest) es) = (Ok bs, mkR rest es', c).
Proof.
  intros bs rest es Hff. unfold read_bytes.
  destruct (Z.ltb_spec (Z.of_nat (length bs)) 0); [lia|].
  cbn [rdata]. pose proof PREALLOC_val as HP.
  destruct (read_bytes_loop_ok (S (length (bs ++ rest))) (Z.of_nat (length bs))
              (Z.min (Z.of_nat (length bs)) PREALLOC) [] (bs ++ rest) es
              (Z.to_N (Z.min (Z.of_nat (length bs)) PREALLOC)) Hff)
    as (es' & c' & Hff' & ->); cbn [length]; try lia.
  { unfold buf_ok. cbn [length]. lia. }
  { rewrite app_length. lia. }
  exists es', c'. split; auto.
  rewrite Z.sub_0_r, Nat2Z.id. cbn [app].
  rewrite firstn_app, Nat.sub_diag, firstn_all, firstn_O, app_nil_r.
  rewrite skipn_app, Nat.sub_diag, skipn_all. reflexivity.
Qed.

(* every script, every length: total (the fuel never runs out), consumes a prefix of the data, and everything handed
   to make after entry is at most 4 x the bytes received after entry: a buffer is replaced only when it is full, the
   new one is at most twice as long, and a buffer that is not the final one was at least half empty when it was made *)
Lemma read_bytes_loop_gen : forall fuel len cap acc d es c x r' c',
  (length d < fuel)%nat -> buf_ok len cap acc ->
  (cap = len \/ 2 * Z.of_nat (length acc) <= cap)%Z ->
  read_bytes_loop fuel len cap acc (mkR d es) c = (x, r', c') ->
  x <> Panic /\
  exists n, (n <= length d)%nat /\ rdata r' = skipn n d /\ (c' <= c + 4 * N.of_nat n)%N /\
            (forall bs, x = Ok bs -> bs = acc ++ firstn n d /\ Z.of_nat (length bs) = len).
Proof.
  induction fuel as [|f IH]; intros len cap acc d es c x r' c' Hfuel [Hcap Hprog] Hhalf H; [lia|].
  rewrite read_bytes_loop_eq in H. cbn [rdata revs] in H.
  set (h := Z.of_nat (length acc)) in *.
  destruct (read_full (Z.to_nat (cap - h)) d es) as [[got r1] e] eqn:E.
  apply read_full_spec in E. destruct E as (Eg & Er & El & Ee).
  destruct r1 as [d1 es1]. cbn [rdata] in Er. subst d1. cbv zeta in H.
  assert (Hgd : (length got <= length d)%nat) by (rewrite Eg, firstn_length; lia).
  destruct e.
  - assert (Hg : length got = Z.to_nat (cap - h)) by (apply Ee; reflexivity).
    assert (Hrec : Z.of_nat (length (acc ++ got)) = cap) by (rewrite app_length, Hg; lia).
    rewrite Hrec in H.
    destruct (Z.eqb_spec cap len) as [->|Hne].
    + inversion H; subst x r' c'. split; [discriminate|]. exists (length got). cbn [rdata].
      split; [lia|]. split; [reflexivity|]. split; [lia|].
      intros bs Hx. inversion Hx; subst bs. split; [now rewrite <- Eg | exact Hrec].
    + assert (h < cap)%Z by lia.
      set (cap' := (cap + Z.min cap (len - cap))%Z) in *.
      apply IH in H.
      * destruct H as (Hnp & n & Hn & Hr & Hc & Hbs). split; [exact Hnp|].
        rewrite skipn_length in Hn.
        exists (length got + n)%nat.
        split; [lia|]. split; [rewrite Hr, my_skipn_skipn; reflexivity|].
        split; [unfold cap' in Hc; lia|].
        intros bs Hx. apply Hbs in Hx. destruct Hx as [-> Hlen]. split; [|exact Hlen].
        rewrite <- app_assoc. f_equal. rewrite my_firstn_add. f_equal. exact Eg.
      * rewrite skipn_length. lia.
      * unfold buf_ok. rewrite Hrec. unfold cap'. lia.
      * rewrite Hrec. unfold cap'. lia.
  - inversion H; subst. split; [discriminate|]. exists (length got). cbn [rdata].
    repeat split; try lia; intros; discriminate.
  - inversion H; subst. split; [discriminate|]. exists (length got). cbn [rdata].
    repeat split; try lia; intros; discriminate.
Qed.

(* ReadBytes: no panic; a prefix of n <= available bytes is consumed; everything handed to make is at most the
   up-front buffer min(len, 1 MiB) plus 4 x the bytes received; a success delivers exactly those n = len bytes *)
Theorem read_bytes_total : forall len r x r' c,
  read_bytes len r = (x, r', c) ->
  x <> Panic /\
  exists n, (n <= length (rdata r))%nat /\ rdata r' = skipn n (rdata r) /\
            (c <= 4 * N.of_nat n + 1048576)%N /\ (c <= 4 * N.of_nat n + Z.to_N len)%N /\
            (forall bs, x = Ok bs -> bs = firstn n (rdata r) /\ Z.of_nat (length bs) = len).
Proof.
  intros len [d es] x r' c H. unfold read_bytes in H. cbn [rdata] in *.
  destruct (Z.ltb_spec len 0).
  - inversion H; subst. split; [discriminate|]. exists 0%nat. cbn. repeat split; try lia; intros; discriminate.
  - pose proof PREALLOC_val as HP.
    apply read_bytes_loop_gen in H; [|lia|unfold buf_ok; cbn [length]; lia|cbn [length]; lia].
    destruct H as (Hnp & n & Hn & Hr & Hc & Hbs).
    split; auto. exists n. split; [lia|]. split; [auto|]. split; [lia|]. split; [lia|].
    intros bs Hx. apply Hbs in Hx. destruct Hx as [-> Hlen]. split; [reflexivity | exact Hlen].
Qed.

(* up to the threshold the allocation is exact: one make of [len] bytes, whatever arrives *)
Theorem read_bytes_exact_alloc : forall len r x r' c,
  (0 <= len <= 1048576)%Z -> read_bytes len r = (x, r', c) -> c = Z.to_N len.
Proof.
  intros len [d es] x r' c Hlen H. unfold read_bytes in H. cbn [rdata] in H.
  destruct (Z.ltb_spec len 0); [lia|]. pose proof PREALLOC_val as HP.
  replace (Z.min len PREALLOC) with len in H by lia.
  rewrite read_bytes_loop_eq in H. cbn [rdata revs length] in H.
  destruct (read_full (Z.to_nat (len - Z.of_nat 0)) d es) as [[got r1] e] eqn:E.
  apply read_full_spec in E. destruct E as (_ & _ & _ & Ee). cbv zeta in H. cbn [app] in H.
  destruct e; try (inversion H; reflexivity).
  assert (Hg : length got = Z.to_nat (len - Z.of_nat 0)) by (apply Ee; reflexivity).
  replace (Z.of_nat (length got)) with len in H by lia.
  rewrite Z.eqb_refl in H. inversion H; reflexivity.
Qed.

(* readFixedSize + sizeToInt (c8478d2): a size that is handed to ReadBytes / ReadCollection / the caller of PeekSize
   fits int; a uint64 prefix >= 2^63 is the error ESizeRange for every helper *)
Lemma read_fixed_size_fits : forall l r v r' c,
  read_fixed_size l r = (Ok v, r', c) -> (Z.of_N v <= MaxInt64)%Z.
Proof.
  intros l r v r' c H. unfold read_fixed_size in H.
  destruct l; try discriminate;
    (destruct (read_fixed _ r) as [[[bs|e|] r1] c1]; try discriminate; cbv zeta in H;
     destruct (N.ltb_spec (Z.to_N MaxInt64) (le_dec bs)) as [Hlt|Hge]; try discriminate;
     inversion H; subst v; unfold MaxInt64 in *; lia).
Qed.

Lemma size_prefix_too_big : forall l r bs r1 c1,
  l <> LBad -> read_fixed (lpt_size l) r = (Ok bs, r1, c1) -> (MaxInt64 < Z.of_N (le_dec bs))%Z ->
  read_fixed_size l r = (Err ESizeRange, r1, c1) /\
  peek_size l r = (Err ESizeRange, r1, c1) /\
  (forall k, read_collection l k r = (Err ESizeRange, r1, c1)) /\
  read_bytes_with_size l r = (Err ESizeRange, r1, c1) /\
  (forall f, read_object_with_size l f r = (Err ESizeRange, r1, c1)).
Proof.
  intros l r bs r1 c1 Hl Hr Hbig.
  assert (Hs : read_fixed_size l r = (Err ESizeRange, r1, c1)).
  { unfold read_fixed_size. destruct l; try congruence; rewrite Hr; cbv zeta;
      (destruct (N.ltb_spec (Z.to_N MaxInt64) (le_dec bs)); [reflexivity | unfold MaxInt64 in *; lia]). }
  split; [exact Hs|].
  unfold peek_size, read_collection, read_bytes_with_size, read_object_with_size. rewrite Hs. repeat split.
Qed.
