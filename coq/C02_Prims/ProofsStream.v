(* Stream helpers: io.ReadFull over any script; chunk independence for fault-free scripts; ReadBytes. *)
From Coq Require Import ZArith NArith List Bool Lia.
From Verif.C02_Prims Require Import Model Stream ProofsLE.
Import ListNotations.

Definition fault_free (es : list ev) : Prop := Forall (fun e => e <> Fault) es.

Lemma chunk_of_bounds : forall e want, e <> Fault -> (0 < want)%nat -> (1 <= chunk_of e want <= want)%nat.
Proof.
  intros e want He Hw. destruct e as [p| |]; [| |congruence]; cbn [chunk_of].
  - rewrite N2Nat.inj_min, Nat2N.id.
    assert (0 < N.to_nat (N.pos p))%nat by lia. lia.
  - split.
    + apply Nat.div_le_lower_bound; lia.
    + apply Nat.div_le_upper_bound; lia.
Qed.

Lemma my_skipn_skipn : forall a b (l : list N), skipn a (skipn b l) = skipn (b + a) l.
Proof.
  intros a b. induction b as [|b IH]; intros l; [reflexivity|].
  destruct l as [|x l]; cbn [skipn plus]; [apply skipn_nil | apply IH].
Qed.

Lemma read_full_0 : forall d es, read_full 0 d es = ([], mkR d es, RNil).
Proof. destruct es; reflexivity. Qed.

Lemma read_full_unfold : forall want d es, want <> 0%nat ->
  read_full want d es =
    match es with
    | [] =>
        match d with
        | [] => ([], mkR [] [], REOF)
        | _ => let got := firstn want d in
               (got, mkR (skipn want d) [], if length got <? want then REOF else RNil)
        end
    | Fault :: es' => ([], mkR d es', RFault)
    | e :: es' =>
        match d with
        | [] => ([], mkR [] es', REOF)
        | _ => let k := chunk_of e want in
               let got := firstn k d in
               let '(g2, r2, er) := read_full (want - length got) (skipn k d) es' in
               (got ++ g2, r2, er)
        end
    end.
Proof. intros want d es H. destruct want; [congruence|]. destruct es; reflexivity. Qed.

(* one chunked Read followed by the rest of io.ReadFull *)
Lemma read_full_step : forall e es want d, e <> Fault -> want <> 0%nat -> d <> [] ->
  read_full want d (e :: es) =
    let k := chunk_of e want in
    let '(g2, r2, er) := read_full (want - length (firstn k d)) (skipn k d) es in
    (firstn k d ++ g2, r2, er).
Proof.
  intros e es want d He Hw Hd. rewrite read_full_unfold by auto.
  destruct e; try congruence; destruct d; try congruence; reflexivity.
Qed.

(* ---- facts that hold for every script (faults included) ---- *)
Lemma read_full_spec : forall es want d got r e,
  read_full want d es = (got, r, e) ->
  got = firstn (length got) d /\ rdata r = skipn (length got) d /\ (length got <= want)%nat /\
  (e = RNil <-> length got = want).
Proof.
  induction es as [|ev es IH]; intros want d got r e H.
  - destruct (Nat.eq_dec want 0) as [->|Hw].
    { rewrite read_full_0 in H. inversion H; subst. cbn. intuition. }
    rewrite read_full_unfold in H by auto. destruct d as [|x d'].
    + inversion H; subst. cbn. intuition; try discriminate; lia.
    + remember (x :: d') as d. cbv zeta in H. inversion H; subst got r e; clear H.
      rewrite firstn_length. cbn [rdata].
      destruct (Nat.ltb_spec (Nat.min want (length d)) want).
      * rewrite Nat.min_r by lia. rewrite firstn_all. rewrite (firstn_all2 d) by lia.
        repeat split; try lia; try discriminate. rewrite skipn_all. rewrite skipn_all2; auto. lia.
      * rewrite Nat.min_l by lia. repeat split; auto; lia.
  - destruct (Nat.eq_dec want 0) as [->|Hw].
    { rewrite read_full_0 in H. inversion H; subst. cbn. intuition. }
    destruct (list_eq_dec N.eq_dec d []) as [->|Hd].
    { rewrite read_full_unfold in H by auto.
      destruct ev; inversion H; subst; cbn; intuition; try discriminate; lia. }
    destruct ev as [p| |].
    3:{ rewrite read_full_unfold in H by auto. inversion H; subst. cbn. intuition; try discriminate; lia. }
    all: rewrite read_full_step in H by (auto; discriminate); cbv zeta in H.
    all: match type of H with context [chunk_of ?e ?w] => set (k := chunk_of e w) in *;
           assert (1 <= k <= w)%nat by (apply chunk_of_bounds; [discriminate | lia]) end.
    all: destruct (read_full (want - length (firstn k d)) (skipn k d) es) as [[g2 r2] er] eqn:E;
         inversion H; subst got r e; clear H;
         apply IH in E; destruct E as (Eg & Er & El & Ee);
         rewrite app_length, firstn_length in *;
         set (m := Nat.min k (length d)) in *;
         assert (Hm : firstn k d = firstn m d) by
           (unfold m; destruct (Nat.le_ge_cases k (length d)); [rewrite Nat.min_l by lia; auto|];
            rewrite Nat.min_r by lia; rewrite firstn_all; apply firstn_all2; lia);
         assert (Hs : skipn k d = skipn m d) by
           (unfold m; destruct (Nat.le_ge_cases k (length d)); [rewrite Nat.min_l by lia; auto|];
            rewrite Nat.min_r by lia; rewrite skipn_all; apply skipn_all2; lia);
         rewrite Hs in *; repeat split;
         [ rewrite Hm; rewrite Eg at 1;
           rewrite <- (firstn_skipn m (firstn (m + length g2) d));
           rewrite firstn_firstn, Nat.min_l by lia;
           f_equal; rewrite skipn_firstn_comm; f_equal; lia
         | rewrite Er; rewrite my_skipn_skipn; f_equal; lia
         | lia
         | intros ->; assert (length g2 = want - m)%nat by (apply Ee; reflexivity); lia
         | intros; apply Ee; lia ].
Qed.

Lemma my_firstn_add : forall a b (l : list N), firstn (a + b) l = firstn a l ++ firstn b (skipn a l).
Proof.
  induction a as [|a IH]; intros b l; [reflexivity|].
  destruct l as [|x l]; cbn [plus firstn skipn app]; [now rewrite firstn_nil | f_equal; apply IH].
Qed.

(* ---- chunk independence: a fault-free script never changes what io.ReadFull delivers ---- *)
Lemma read_full_ok : forall es want d, fault_free es -> (want <= length d)%nat ->
  exists es', fault_free es' /\ read_full want d es = (firstn want d, mkR (skipn want d) es', RNil).
Proof.
  induction es as [|e es IH]; intros want d Hff Hlen.
  - exists []. split; [constructor|].
    destruct (Nat.eq_dec want 0) as [->|Hw]; [now rewrite read_full_0|].
    rewrite read_full_unfold by auto. destruct d as [|x d']; [cbn in Hlen; lia|].
    remember (x :: d') as d. cbv zeta. rewrite firstn_length, Nat.min_l by lia.
    rewrite Nat.ltb_irrefl. reflexivity.
  - destruct (Nat.eq_dec want 0) as [->|Hw].
    { exists (e :: es). split; [exact Hff | apply read_full_0]. }
    inversion Hff as [|? ? He Hes]; subst.
    assert (d <> []) by (destruct d; [cbn in Hlen; lia | discriminate]).
    rewrite read_full_step by auto. cbv zeta.
    pose proof (chunk_of_bounds e want He ltac:(lia)) as Hk.
    set (k := chunk_of e want) in *.
    assert (Hfl : length (firstn k d) = k) by (rewrite firstn_length; lia).
    rewrite Hfl.
    destruct (IH (want - k)%nat (skipn k d) Hes) as (es' & Hff' & ->).
    { rewrite skipn_length. lia. }
    exists es'. split; auto.
    rewrite my_skipn_skipn. replace (k + (want - k))%nat with want by lia.
    f_equal. f_equal. replace want with (k + (want - k))%nat at 2 by lia. now rewrite my_firstn_add.
Qed.

(* ---- ReadBytes ---- *)
Lemma read_bytes_loop_eq : forall fuel len acc r c,
  read_bytes_loop fuel len acc r c =
    let have := Z.of_nat (length acc) in
    if (len <=? have)%Z then (Ok acc, r, c) else
    match fuel with
    | O => (Panic, r, c)
    | S f =>
        let chunk := Z.min (len - have) CHUNK in
        let c' := (c + Z.to_N chunk)%N in
        let '(got, r', e) := read_full (Z.to_nat chunk) (rdata r) (revs r) in
        match e with
        | RNil => read_bytes_loop f len (acc ++ got) r' c'
        | _ => (Err (io_err (acc ++ got) e), r', c')
        end
    end.
Proof. destruct fuel; reflexivity. Qed.

Lemma CHUNK_val : CHUNK = 4096%Z. Proof. reflexivity. Qed.
Global Opaque CHUNK.

(* fault-free script, enough data: exactly the next [len - |acc|] bytes, whatever the chunking *)
Lemma read_bytes_loop_ok : forall fuel len acc d es c,
  fault_free es -> (Z.of_nat (length acc) <= len)%Z ->
  (len - Z.of_nat (length acc) <= Z.of_nat (length d))%Z -> (length d < fuel)%nat ->
  exists es' c', fault_free es' /\
    read_bytes_loop fuel len acc (mkR d es) c =
      (Ok (acc ++ firstn (Z.to_nat (len - Z.of_nat (length acc))) d),
       mkR (skipn (Z.to_nat (len - Z.of_nat (length acc))) d) es', c').
Proof.
  induction fuel as [|f IH]; intros len acc d es c Hff Hacc Hneed Hfuel; [lia|].
  rewrite read_bytes_loop_eq. cbv zeta.
  destruct (Z.leb_spec len (Z.of_nat (length acc))) as [Hle|Hlt].
  - replace (len - Z.of_nat (length acc))%Z with 0%Z by lia. cbn [Z.to_nat firstn skipn].
    rewrite app_nil_r. exists es, c. auto.
  - cbn [rdata revs].
    pose proof CHUNK_val as HC.
    set (need := (len - Z.of_nat (length acc))%Z) in *.
    set (ch := Z.min need CHUNK).
    assert (1 <= ch <= need)%Z by lia.
    destruct (read_full_ok es (Z.to_nat ch) d Hff ltac:(lia)) as (es1 & Hff1 & ->).
    assert (Hl1 : length (firstn (Z.to_nat ch) d) = Z.to_nat ch) by (rewrite firstn_length; lia).
    destruct (IH len (acc ++ firstn (Z.to_nat ch) d) (skipn (Z.to_nat ch) d) es1 (c + Z.to_N ch)%N Hff1)
      as (es2 & c2 & Hff2 & ->).
    + rewrite app_length, Hl1. lia.
    + rewrite app_length, Hl1, skipn_length. lia.
    + rewrite skipn_length. lia.
    + exists es2, c2. split; auto.
      rewrite app_length, Hl1.
      replace (Z.to_nat (len - Z.of_nat (length acc + Z.to_nat ch))) with (Z.to_nat need - Z.to_nat ch)%nat by lia.
      rewrite my_skipn_skipn, <- app_assoc, <- my_firstn_add.
      replace (Z.to_nat ch + (Z.to_nat need - Z.to_nat ch))%nat with (Z.to_nat need) by lia. reflexivity.
Qed.

Theorem read_bytes_roundtrip : forall bs rest es, fault_free es ->
  exists es' c, fault_free es' /\
    read_bytes (Z.of_nat (length bs)) (mkR (bs ++ rest) es) = (Ok bs, mkR rest es', c).
Proof.
  intros bs rest es Hff. unfold read_bytes.
  destruct (Z.ltb_spec (Z.of_nat (length bs)) 0); [lia|].
  cbn [rdata].
  destruct (read_bytes_loop_ok (S (length (bs ++ rest))) (Z.of_nat (length bs)) [] (bs ++ rest) es 0%N Hff)
    as (es' & c' & Hff' & ->); cbn [length]; try lia.
  { rewrite app_length. lia. }
  exists es', c'. split; auto.
  rewrite Z.sub_0_r, Nat2Z.id. cbn [app].
  rewrite firstn_app, Nat.sub_diag, firstn_all, firstn_O, app_nil_r.
  rewrite skipn_app, Nat.sub_diag, skipn_all. reflexivity.
Qed.

(* every script, every length: total (the fuel never runs out), consumes a prefix of the data, and the
   allocation (cost) is at most the data actually received plus one chunk *)
Lemma read_bytes_loop_gen : forall fuel len acc d es c x r' c',
  (length d < fuel)%nat ->
  read_bytes_loop fuel len acc (mkR d es) c = (x, r', c') ->
  x <> Panic /\
  exists n, (n <= length d)%nat /\ rdata r' = skipn n d /\ (c' <= c + N.of_nat n + 4096)%N /\
            (forall bs, x = Ok bs -> bs = acc ++ firstn n d /\ Z.of_nat (length bs) = Z.max len (Z.of_nat (length acc))).
Proof.
  induction fuel as [|f IH]; intros len acc d es c x r' c' Hfuel H; [lia|].
  rewrite read_bytes_loop_eq in H. cbv zeta in H.
  destruct (Z.leb_spec len (Z.of_nat (length acc))) as [Hle|Hlt].
  - inversion H; subst. split; [discriminate|]. exists 0%nat. cbn [skipn firstn rdata].
    split; [lia|]. split; [reflexivity|]. split; [lia|].
    intros bs Hx. inversion Hx; subst. rewrite app_nil_r. split; [reflexivity | lia].
  - cbn [rdata revs] in H. pose proof CHUNK_val as HC.
    set (ch := Z.min (len - Z.of_nat (length acc)) CHUNK) in *.
    assert (1 <= ch <= 4096)%Z by lia.
    destruct (read_full (Z.to_nat ch) d es) as [[got r1] e] eqn:E.
    apply read_full_spec in E. destruct E as (Eg & Er & El & Ee).
    destruct r1 as [d1 es1]. cbn [rdata] in Er. subst d1.
    destruct e.
    + assert (Hg : length got = Z.to_nat ch) by (apply Ee; reflexivity).
      assert (length got <= length d)%nat.
      { rewrite Eg, firstn_length. lia. }
      assert (Hgd : length got = Nat.min (length got) (length d)) by lia.
      apply IH in H. 2:{ rewrite skipn_length. lia. }
      destruct H as (Hnp & n & Hn & Hr & Hc & Hbs). split; auto.
      rewrite skipn_length in Hn.
      exists (length got + n)%nat.
      split; [lia|]. split; [rewrite Hr, my_skipn_skipn; reflexivity|]. split; [lia|].
      intros bs Hx. apply Hbs in Hx. destruct Hx as [-> Hlen]. split.
      * rewrite <- app_assoc. f_equal. rewrite my_firstn_add. f_equal. exact Eg.
      * rewrite Hlen. rewrite app_length. lia.
    + inversion H; subst. split; [discriminate|]. exists (length got). cbn [rdata].
      assert (length got <= length d)%nat by (rewrite Eg, firstn_length; lia).
      repeat split; try lia; intros; discriminate.
    + inversion H; subst. split; [discriminate|]. exists (length got). cbn [rdata].
      assert (length got <= length d)%nat by (rewrite Eg, firstn_length; lia).
      repeat split; try lia; intros; discriminate.
Qed.

Theorem read_bytes_total : forall len r x r' c,
  read_bytes len r = (x, r', c) ->
  x <> Panic /\
  exists n, (n <= length (rdata r))%nat /\ rdata r' = skipn n (rdata r) /\ (c <= N.of_nat n + 4096)%N /\
            (forall bs, x = Ok bs -> bs = firstn n (rdata r) /\ Z.of_nat (length bs) = len).
Proof.
  intros len [d es] x r' c H. unfold read_bytes in H. cbn [rdata] in *.
  destruct (Z.ltb_spec len 0).
  - inversion H; subst. split; [discriminate|]. exists 0%nat. cbn. repeat split; try lia; intros; discriminate.
  - apply read_bytes_loop_gen in H; [|lia]. destruct H as (Hnp & n & Hn & Hr & Hc & Hbs).
    split; auto. exists n. split; [lia|]. split; [auto|]. split; [lia|].
    intros bs Hx. apply Hbs in Hx. destruct Hx as [-> Hlen]. split; [reflexivity|].
    rewrite Hlen. cbn [length]. lia.
Qed.
