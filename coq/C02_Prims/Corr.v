(* Correspondence for the parts c02prims / c01stream: a case is one call (or a short program of calls) of the real
   code together with everything observed: outputs, error classes, consumed bytes, panic flag and the
   runtime.MemStats.TotalAlloc delta of the call, which must stay below A0 + A1 * (abstract cost of the model)
   (stream reads: alloc_ok_stream, which does not multiply whole buffers by A1). *)
From Coq Require Import ZArith NArith List Bool.
From Verif.C02_Prims Require Import Model Stream.
Import ListNotations.

Definition A0 : N := 65536.
Definition A1 : N := 64.

Definition eclass_id (e : eclass) : N :=
  match e with
  | ENotEnough => 1 | EBadBool => 2 | ELenMax => 3 | ELenMin => 4 | ELenInvalid => 5 | EArrMin => 6 | EArrMax => 7
  | EDup => 8 | EOrder => 9 | ENotAllConsumed => 10 | ETypeMismatch => 11 | EItem => 12 | ELenRange => 26
  | ESliceLong => 14 | ESliceShort => 15 | EStrLong => 16 | EStrShort => 17 | EU256Nil => 18 | EU256Neg => 19
  | EU256Big => 20 | EEOF => 21 | EUnexpEOF => 22 | EFault => 23 | ENegLen => 26 | ESizeRange => 26 | EConsumed => 26 | EOther => 26
  end%N.
(* ELenRange, ENegLen, ESizeRange, EConsumed are plain ierrors.Errorf errors without a sentinel: the harness sees them as EOther *)
Definition eclass_eqb (a b : eclass) : bool := (eclass_id a =? eclass_id b)%N.

Definition opt_eqb {A} (f : A -> A -> bool) (a b : option A) : bool :=
  match a, b with None, None => true | Some x, Some y => f x y | _, _ => false end.
Fixpoint list_eqb {A} (f : A -> A -> bool) (a b : list A) : bool :=
  match a, b with [], [] => true | x :: a', y :: b' => f x y && list_eqb f a' b' | _, _ => false end.
Definition res_eqb {A} (f : A -> A -> bool) (a b : res A) : bool :=
  match a, b with Ok x, Ok y => f x y | Err x, Err y => eclass_eqb x y | Panic, Panic => true | _, _ => false end.
Definition bytes_eqb := list_eqb N.eqb.

Definition dout_eqb (a b : dout) : bool :=
  match a, b with
  | ONone, ONone => true
  | OBool x, OBool y => Bool.eqb x y
  | ONum x, ONum y => (x =? y)%Z
  | OBytes x, OBytes y => bytes_eqb x y
  | OSeq x, OSeq y => list_eqb bytes_eqb x y
  | OErrv x, OErrv y => eclass_eqb x y
  | _, _ => false
  end.

Definition sval_eqb (a b : sval) : bool :=
  match a, b with
  | SVNum x, SVNum y => (x =? y)%Z
  | SVBool x, SVBool y => Bool.eqb x y
  | SVBytes x, SVBytes y => bytes_eqb x y
  | SVList x, SVList y => list_eqb bytes_eqb x y
  | _, _ => false
  end.

Definition pairZ_eqb (a b : Z * Z) : bool := ((fst a =? fst b) && (snd a =? snd b))%Z.

Inductive case :=
| CDes (input : list N) (ops : list dop) (outs : list dout) (foff : nat) (ferr : option eclass) (panicked : bool) (alloc : N)
| CSer (ops : list sop) (result : res (list N))
| CRead (d : list N) (evs : list ev) (o : rop) (result : res sval) (consumed : nat) (alloc : N)
| CWrite (pre : list N) (o : wop) (result : res (list N))
| CWriteEnd (pre : list N) (o : wop) (result : res (list N))   (* the helper's write is the LAST one: no sentinel *)
| COMap (kk vk : nk) (input : list N) (result : res (list (Z * Z) * nat)) (alloc : N)
| CFrom (arr : bool) (input : list N) (result : res (sval * nat)).

Definition alloc_ok (alloc cost : N) : bool := (alloc <=? A0 + A1 * cost)%N.

(* stream reads: the abstract cost of ReadBytes contains whole buffers (up to 1 MiB up front, then doubling, c8478d2), and
   a buffer of n bytes costs the allocator n plus size-class / page rounding (<= 1/8), not 64 n; the factor A1 stays for
   the small costs (loop iterations, tiny makes, the harness's own bookkeeping per element), capped at 4096 units.
   A length field of 2^30 backed by 3 bytes: cost 2^20, bound 64 KiB + 256 KiB + 1.125 MiB.
   From 1 MiB on the cost is dominated by buffers the code really makes, each of which TotalAlloc counts in full: the
   measured allocation must also be AT LEAST the cost (minus 4096 for the unit costs), so a different growth policy
   (one big buffer, factor 3, factor 1.5 ...) shows as a mismatch in either direction. *)
Definition alloc_ok_stream (alloc cost : N) : bool :=
  (alloc <=? A0 + A1 * N.min cost 4096 + cost + cost / 8)%N &&
  ((cost <? 1048576) || (cost <=? alloc + 4096))%N.

(* large inputs are written as [pat n] = [0; 1; ...; 250; 0; 1; ...] (n bytes, period 251: not a divisor of any
   buffer size of ReadBytes), so that a case with 2^20 bytes stays a short term *)
Definition pat_step (st : N * list N) : N * list N :=
  let '(x, acc) := st in ((if (x =? 0)%N then 250 else N.pred x)%N, x :: acc).
Definition pat (n : N) : list N :=
  match n with
  | N0 => []
  | _ => snd (N.iter n pat_step ((N.pred n) mod 251, []))%N
  end.

Definition agree (c : case) : bool :=
  match c with
  | CDes input ops outs foff ferr panicked alloc =>
      let r := drun (dinit input) ops in
      Bool.eqb (r_panic r) panicked && list_eqb dout_eqb (r_outs r) outs &&
      (if panicked then true
       else (off (r_state r) =? foff) && opt_eqb eclass_eqb (derr (r_state r)) ferr && alloc_ok alloc (r_cost r))
  | CSer ops result => res_eqb bytes_eqb (serialize ops) result
  | CRead d evs o result consumed alloc =>
      let '(x, r', cost) := rop_run o (mkR d evs) in
      res_eqb sval_eqb x result && (length d - length (rdata r') =? consumed) &&
      (match x with Panic => true | _ => alloc_ok_stream alloc cost end)
  | CWrite pre o result =>
      res_eqb bytes_eqb (match wop_run o (mkB pre (length pre)) with Ok b => Ok (bbuf (bb_write b [238%N])) | Err e => Err e | Panic => Panic end) result
      (* the harness writes one sentinel byte after the helper returns: the final write position is observed too *)
  | CWriteEnd pre o result =>
      res_eqb bytes_eqb (match wop_run o (mkB pre (length pre)) with Ok b => Ok (bbuf b) | Err e => Err e | Panic => Panic end) result
      (* Bytes() right after the helper: what a reader of the finished stream gets when nothing else is written *)
  | COMap kk vk input result alloc =>
      let '(x, cost) := om_decode kk vk input in
      res_eqb (fun a b => list_eqb pairZ_eqb (fst a) (fst b) && (snd a =? snd b)) x result && alloc_ok alloc cost
  | CFrom arr input result =>
      res_eqb (fun a b => sval_eqb (fst a) (fst b) && (snd a =? snd b))
              (cb_run (if arr then CbArr32 else CbU64) input) result
  end.

Fixpoint mismatches_from (i : nat) (cs : list case) : list nat :=
  match cs with
  | [] => []
  | c :: r => if agree c then mismatches_from (S i) r else i :: mismatches_from (S i) r
  end.

Definition mismatches (cs : list case) : list nat := mismatches_from 0 cs.
