(* C06 - model of kvstore/typedstore.go (TypedStore[K,V]: stateless encode/decode wrapper around a KVStore).
   The KVStore below is an association list of raw entries kept sorted by key (what mapdb's Iterate shows:
   prefix filter, keys sorted bytewise, ascending or descending).  As in Model.v every codec call and every
   store call consumes one position of the fault script. *)
From Coq Require Import NArith List Bool.
From Verif.C06_Typed Require Import Model.
Import ListNotations.

Fixpoint bcmp (a b : bytes) : comparison :=
  match a, b with
  | [], [] => Eq
  | [], _ => Lt
  | _, [] => Gt
  | x :: a', y :: b' => match N.compare x y with Eq => bcmp a' b' | c => c end
  end.

Definition beqb (a b : bytes) : bool := match bcmp a b with Eq => true | _ => false end.

Fixpoint has_prefix (p k : bytes) : bool :=
  match p, k with
  | [], _ => true
  | _, [] => false
  | x :: p', y :: k' => N.eqb x y && has_prefix p' k'
  end.

Definition store := list (bytes * bytes).

Fixpoint find (k : bytes) (l : store) : option bytes :=
  match l with
  | [] => None
  | (k', v) :: r => if beqb k k' then Some v else find k r
  end.

Fixpoint ins (k v : bytes) (l : store) : store :=
  match l with
  | [] => [(k, v)]
  | (k', v') :: r =>
      match bcmp k k' with
      | Lt => (k, v) :: l
      | Eq => (k, v) :: r
      | Gt => (k', v') :: ins k v r
      end
  end.

Definition del (k : bytes) (l : store) : store := filter (fun e => negb (beqb k (fst e))) l.
Definition delprefix (p : bytes) (l : store) : store := filter (fun e => negb (has_prefix p (fst e))) l.

(* the entries kv.Iterate(prefix, _, direction) walks over, in order *)
Definition entries (p : bytes) (backward : bool) (l : store) : store :=
  let m := filter (fun e => has_prefix p (fst e)) l in if backward then rev m else m.

Section TypedStore.
Variables K V : Type.
Variable encK : K -> option bytes.
Variable decK : bytes -> option K.
Variable encV : V -> option bytes.
Variable decV : bytes -> option V.

Inductive sop :=
| SGet (k : K) | SHas (k : K) | SSet (k : K) (v : V) | SDelete (k : K)
| SIterate (prefix : bytes) (backward : bool) (limit : nat)      (* the callback stops after [limit] entries *)
| SIterateKeys (prefix : bytes) (backward : bool) (limit : nat)
| SDeletePrefix (prefix : bytes) | SClear
| SRawSet (k v : bytes).                                         (* a write below the typed view (no codec, no fault) *)

Inductive sres :=
| SVal (v : V) | SBool (b : bool) | SOk | SErr (e : eclass)
| SList (l : list (K * V)) (e : option eclass)                   (* what the callback saw, and the returned error *)
| SKeys (l : list K) (e : option eclass).

Record sout := mkSOut { sst : store; spos : nat; sresult : sres }.

(* keyToBytes at position p, then [k] with the encoded key at position S p *)
Definition with_key (sc : script) (s : store) (p : nat) (key : K) (k : bytes -> sout) : sout :=
  if sc p then mkSOut s (S p) (SErr EFault)
  else match encK key with
  | None => mkSOut s (S p) (SErr EEncode)
  | Some kb => k kb
  end.

(* the callback passed to kv.Iterate, run over the snapshot [es]; n = entries delivered so far (reversed in acc) *)
Fixpoint walk (sc : script) (es : store) (p : nat) (acc : list (K * V)) (limit : nat) : nat * list (K * V) * option eclass :=
  match es with
  | [] => (p, rev acc, None)
  | (kb, vb) :: r =>
      if sc p then (S p, rev acc, Some EFault)                   (* bytesToKey fails *)
      else match decK kb with
      | None => (S p, rev acc, Some EDecode)
      | Some k =>
          if sc (S p) then (S (S p), rev acc, Some EFault)       (* bytesToValue fails *)
          else match decV vb with
          | None => (S (S p), rev acc, Some EDecode)
          | Some v =>
              let acc' := (k, v) :: acc in
              if Nat.ltb (length acc') limit then walk sc r (S (S p)) acc' limit
              else (S (S p), rev acc', None)                     (* callback returned false *)
          end
      end
  end.

Fixpoint walk_keys (sc : script) (es : store) (p : nat) (acc : list K) (limit : nat) : nat * list K * option eclass :=
  match es with
  | [] => (p, rev acc, None)
  | (kb, _) :: r =>
      if sc p then (S p, rev acc, Some EFault)
      else match decK kb with
      | None => (S p, rev acc, Some EDecode)
      | Some k =>
          let acc' := k :: acc in
          if Nat.ltb (length acc') limit then walk_keys sc r (S p) acc' limit
          else (S p, rev acc', None)
      end
  end.

Definition sstep (sc : script) (s : store) (p : nat) (o : sop) : sout :=
  match o with
  | SGet key =>
      with_key sc s p key (fun kb =>
        if sc (S p) then mkSOut s (S (S p)) (SErr EFault)                       (* kv.Get *)
        else match find kb s with
        | None => mkSOut s (S (S p)) (SErr ENotFound)
        | Some vb =>
            if sc (S (S p)) then mkSOut s (S (S (S p))) (SErr EFault)           (* bytesToValue *)
            else match decV vb with
            | None => mkSOut s (S (S (S p))) (SErr EDecode)
            | Some v => mkSOut s (S (S (S p))) (SVal v)
            end
        end)
  | SHas key =>
      with_key sc s p key (fun kb =>
        if sc (S p) then mkSOut s (S (S p)) (SErr EFault)                       (* kv.Has *)
        else mkSOut s (S (S p)) (SBool (is_some (find kb s))))
  | SSet key v =>
      with_key sc s p key (fun kb =>
        if sc (S p) then mkSOut s (S (S p)) (SErr EFault)                       (* valueToBytes *)
        else match encV v with
        | None => mkSOut s (S (S p)) (SErr EEncode)
        | Some vb =>
            if sc (S (S p)) then mkSOut s (S (S (S p))) (SErr EFault)           (* kv.Set *)
            else mkSOut (ins kb vb s) (S (S (S p))) SOk
        end)
  | SDelete key =>
      with_key sc s p key (fun kb =>
        if sc (S p) then mkSOut s (S (S p)) (SErr EFault)                       (* kv.Delete *)
        else mkSOut (del kb s) (S (S p)) SOk)
  | SIterate pre bw limit =>
      if sc p then mkSOut s (S p) (SList [] (Some EFault))                      (* kv.Iterate *)
      else let '(p', l, e) := walk sc (entries pre bw s) (S p) [] limit in mkSOut s p' (SList l e)
  | SIterateKeys pre bw limit =>
      if sc p then mkSOut s (S p) (SKeys [] (Some EFault))                      (* kv.IterateKeys *)
      else let '(p', l, e) := walk_keys sc (entries pre bw s) (S p) [] limit in mkSOut s p' (SKeys l e)
  | SDeletePrefix pre =>
      if sc p then mkSOut s (S p) (SErr EFault) else mkSOut (delprefix pre s) (S p) SOk
  | SClear =>
      if sc p then mkSOut s (S p) (SErr EFault) else mkSOut [] (S p) SOk
  | SRawSet k v => mkSOut (ins k v s) p SOk
  end.

Fixpoint srun (sc : script) (s : store) (p : nat) (h : list sop) : list (sop * sout) :=
  match h with
  | [] => []
  | o :: r => let x := sstep sc s p o in (o, x) :: srun sc (sst x) (spos x) r
  end.

Fixpoint sfinal (s : store) (t : list (sop * sout)) : store :=
  match t with [] => s | (_, x) :: t' => sfinal (sst x) t' end.

(* did the call report an error to the caller? *)
Definition is_err (r : sres) : bool :=
  match r with SErr _ | SList _ (Some _) | SKeys _ (Some _) => true | _ => false end.

Definition is_fault (r : sres) : bool :=
  match r with SErr EFault | SList _ (Some EFault) | SKeys _ (Some EFault) => true | _ => false end.

(* the write to raw key kb a completed call performed, judged from (op, result) *)
Definition swritten (kb : bytes) (o : sop) (r : sres) : option (option bytes) :=
  match o, r with
  | SSet key v, SOk => match encK key with Some kb' => if beqb kb kb' then Some (encV v) else None | None => None end
  | SDelete key, SOk => match encK key with Some kb' => if beqb kb kb' then Some None else None | None => None end
  | SDeletePrefix pre, SOk => if has_prefix pre kb then Some None else None
  | SClear, SOk => Some None
  | SRawSet k v, _ => if beqb kb k then Some (Some v) else None
  | _, _ => None
  end.

Fixpoint slast_written (kb : bytes) (r : option bytes) (t : list (sop * sout)) : option bytes :=
  match t with
  | [] => r
  | (o, x) :: t' => slast_written kb (match swritten kb o (sresult x) with Some r' => r' | None => r end) t'
  end.

End TypedStore.

Arguments SGet {K V}. Arguments SHas {K V}. Arguments SSet {K V}. Arguments SDelete {K V}.
Arguments SIterate {K V}. Arguments SIterateKeys {K V}. Arguments SDeletePrefix {K V}. Arguments SClear {K V}.
Arguments SRawSet {K V}.
Arguments SVal {K V}. Arguments SBool {K V}. Arguments SOk {K V}. Arguments SErr {K V}.
Arguments SList {K V}. Arguments SKeys {K V}.
Arguments mkSOut {K V}. Arguments sst {K V}. Arguments spos {K V}. Arguments sresult {K V}.
Arguments is_err {K V}. Arguments is_fault {K V}.
