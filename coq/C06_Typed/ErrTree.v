(* C06 - error classification.  TypedValue decides what an error MEANS with ierrors.Is (= errors.Is):
     kv.Get error      : ErrKeyNotFound IN the tree          -> the key is absent      (else: a failure)
     computeFunc error : ErrTypedValueNotChanged IN the tree -> keep the current value (else: a failure)
   The model (Model.v) works on classes: the fault script says "this call fails", the callback result is
   CNew / CNotChanged / CFail.  This file makes the abstraction from concrete Go errors to those classes explicit:
   an error is a TREE (leaf = an error value identified by a number; one child = Unwrap() error; several children =
   Unwrap() []error, as built by Join / Chain / Wrapf with an error argument / several %w), [contains] is errors.Is
   for leaf targets (depth-first, pre-order), [first_tag] is errors.As for the harness' custom leaf type.
   Proved for ALL trees: a sentinel is found wherever it sits ([contains_plug]); the class of an error depends only on
   the set of its leaves ([contains_leaves]); inside a context without sentinels an error means what it means bare
   ([class_plug]); every shape the harness uses is such a context ([shape_is_context], [shape_class]).
   The premise "ierrors.Is = contains" is checked on the code by the harness (subcommand errs): trees built through
   every ierrors constructor, ierrors.Is / As compared with the standard library, with a reference walk and with
   [contains] / [first_tag] here (cases CErr / CShape). *)
From Coq Require Import Arith List Bool Lia.
From Verif.C06_Typed Require Import Model.
Import ListNotations.

Inductive etree := ELeaf (id : nat) | EWrap (e : etree) | EMulti (l : list etree).

(* leaf numbering of the harness (errs.go) *)
Definition id_not_found := 0.     (* kvstore.ErrKeyNotFound *)
Definition id_not_changed := 1.   (* kvstore.ErrTypedValueNotChanged *)
Definition id_injected := 2.
Definition id_malformed := 3.
Definition id_unencodable := 4.
Definition id_compute := 5.
Definition id_noise := 6.         (* some other error *)
Definition id_look_not_found := 7.    (* an error with the TEXT of ErrKeyNotFound *)
Definition id_look_not_changed := 8.  (* an error with the TEXT of ErrTypedValueNotChanged *)
Definition is_sentinel (t : nat) : bool := t <? 6.
Definition is_tag (t : nat) : bool := (9 <=? t) && (t <=? 11).   (* leaves of the custom type (errors.As) *)

(* errors.Is(e, leaf t) *)
Fixpoint contains (t : nat) (e : etree) : bool :=
  match e with
  | ELeaf i => Nat.eqb t i
  | EWrap e' => contains t e'
  | EMulti l => (fix any (l : list etree) : bool := match l with [] => false | x :: r => contains t x || any r end) l
  end.

Definition contains_any (t : nat) (l : list etree) : bool := existsb (contains t) l.

Lemma contains_multi : forall t l, contains t (EMulti l) = contains_any t l.
Proof. intros t l; simpl; induction l as [|x r IH]; simpl; [reflexivity | now rewrite IH]. Qed.

(* errors.As(e, *tagErr): first leaf of the custom type, depth-first pre-order *)
Fixpoint first_tag (e : etree) : option nat :=
  match e with
  | ELeaf i => if is_tag i then Some i else None
  | EWrap e' => first_tag e'
  | EMulti l => (fix go (l : list etree) : option nat :=
                   match l with [] => None | x :: r => match first_tag x with Some i => Some i | None => go r end end) l
  end.

Fixpoint leaves (e : etree) : list nat :=
  match e with
  | ELeaf i => [i]
  | EWrap e' => leaves e'
  | EMulti l => (fix go (l : list etree) : list nat := match l with [] => [] | x :: r => leaves x ++ go r end) l
  end.

Definition leaves_all (l : list etree) : list nat := flat_map leaves l.

Lemma leaves_multi : forall l, leaves (EMulti l) = leaves_all l.
Proof. intros l; simpl; induction l as [|x r IH]; simpl; [reflexivity | now rewrite IH]. Qed.

(* induction principle for the nested type *)
Section etree_ind2.
  Variable P : etree -> Prop.
  Hypothesis Hleaf : forall i, P (ELeaf i).
  Hypothesis Hwrap : forall e, P e -> P (EWrap e).
  Hypothesis Hmulti : forall l, Forall P l -> P (EMulti l).
  Fixpoint etree_ind2 (e : etree) : P e :=
    match e with
    | ELeaf i => Hleaf i
    | EWrap e' => Hwrap e' (etree_ind2 e')
    | EMulti l => Hmulti l ((fix go (l : list etree) : Forall P l :=
                               match l with [] => Forall_nil P | x :: r => Forall_cons x (etree_ind2 x) (go r) end) l)
    end.
End etree_ind2.

(* the meaning of an error depends only on WHICH leaves are in the tree *)
Lemma contains_leaves : forall t e, contains t e = existsb (Nat.eqb t) (leaves e).
Proof.
  intros t e; induction e as [i | e IH | l IH] using etree_ind2.
  - simpl; now rewrite orb_false_r.
  - exact IH.
  - rewrite contains_multi, leaves_multi; unfold contains_any, leaves_all.
    induction IH as [|x r Hx _ IHr]; simpl; [reflexivity|].
    now rewrite existsb_app, Hx, IHr.
Qed.

Lemma contains_In : forall t e, contains t e = true <-> In t (leaves e).
Proof.
  intros t e; rewrite contains_leaves, existsb_exists; split.
  - intros [x [Hin Heq]]; apply Nat.eqb_eq in Heq; now subst.
  - intros H; exists t; split; [exact H | apply Nat.eqb_refl].
Qed.

(* ---- contexts: a tree with one hole ---- *)
Inductive ctx := CHole | CWrap (c : ctx) | CMulti (before : list etree) (c : ctx) (after : list etree).

Fixpoint plug (c : ctx) (e : etree) : etree :=
  match c with
  | CHole => e
  | CWrap c' => EWrap (plug c' e)
  | CMulti b c' a => EMulti (b ++ plug c' e :: a)
  end.

Lemma contains_any_app : forall t a b, contains_any t (a ++ b) = contains_any t a || contains_any t b.
Proof. intros; unfold contains_any; apply existsb_app. Qed.

(* errors.Is finds a sentinel wherever it sits in the tree *)
Theorem contains_plug : forall c e t, contains t e = true -> contains t (plug c e) = true.
Proof.
  induction c as [|c IH|b c IH a]; intros e t H; simpl plug.
  - exact H.
  - simpl; now apply IH.
  - rewrite contains_multi, contains_any_app; simpl; rewrite (IH _ _ H); simpl; apply orb_true_r.
Qed.

(* a context none of whose side trees holds a sentinel *)
Fixpoint ctx_clean (c : ctx) : Prop :=
  match c with
  | CHole => True
  | CWrap c' => ctx_clean c'
  | CMulti b c' a => (forall t x, is_sentinel t = true -> In x (b ++ a) -> contains t x = false) /\ ctx_clean c'
  end.

Lemma contains_any_false : forall t l, (forall x, In x l -> contains t x = false) -> contains_any t l = false.
Proof.
  intros t l H; unfold contains_any; induction l as [|x r IH]; simpl; [reflexivity|].
  rewrite (H x (or_introl eq_refl)); simpl; apply IH; intros y Hy; apply H; now right.
Qed.

(* inside a clean context an error means exactly what it means bare: the class does not depend on the shape *)
Theorem class_plug : forall c e t, ctx_clean c -> is_sentinel t = true -> contains t (plug c e) = contains t e.
Proof.
  induction c as [|c IH|b c IH a]; intros e t Hc Ht; simpl plug.
  - reflexivity.
  - simpl; now apply IH.
  - destruct Hc as [Hside Hc]. rewrite contains_multi, contains_any_app; simpl.
    rewrite (IH _ _ Hc Ht).
    rewrite (contains_any_false t b), (contains_any_false t a); simpl.
    + now rewrite orb_false_r.
    + intros x Hx; apply Hside; [exact Ht | apply in_or_app; now right].
    + intros x Hx; apply Hside; [exact Ht | apply in_or_app; now left].
Qed.

(* ---- the shapes of the harness (errs.go shapeNode), as contexts ---- *)
Definition noise := ELeaf id_noise.

Definition shape_ctx (sh : nat) : ctx :=
  match sh with
  | 1 | 2 | 3 | 4 | 18 => CWrap CHole
  | 5 => CWrap (CWrap CHole)
  | 6 | 8 | 14 => CMulti [] CHole [noise]
  | 7 | 9 | 13 => CMulti [noise] CHole []
  | 10 => CMulti [] (CMulti [noise] CHole []) [noise]
  | 11 => CMulti [EWrap noise] CHole []
  | 12 => CMulti [] CHole [EWrap noise]
  | 15 => CWrap (CMulti [noise] (CWrap (CMulti [noise] CHole [])) [])
  | 16 => CMulti [] CHole []
  | 17 => CMulti [] CHole [ELeaf id_look_not_found; ELeaf id_look_not_changed]
  | _ => CHole
  end.

Definition shape_apply (sh : nat) (e : etree) : etree := plug (shape_ctx sh) e.

Definition is_tree_shape (sh : nat) : bool := (6 <=? sh) && (sh <=? 17).

Lemma shape_is_context : forall sh, ctx_clean (shape_ctx sh).
Proof.
  intros sh. do 19 (destruct sh as [|sh]; [simpl; repeat split; try tauto;
    intros t x Ht Hin; simpl in Hin;
    repeat (destruct Hin as [<-|Hin]; [simpl; unfold is_sentinel in Ht; apply Nat.ltb_lt in Ht;
      unfold id_noise, id_look_not_found, id_look_not_changed; apply Nat.eqb_neq; lia|]); contradiction |]).
  simpl; exact I.
Qed.

Theorem shape_class : forall sh e t, is_sentinel t = true -> contains t (shape_apply sh e) = contains t e.
Proof. intros; unfold shape_apply; apply class_plug; [apply shape_is_context | assumption]. Qed.

(* ---- abstraction: from the Go error to what the model is told ---- *)

(* what kv.Get's error means to TypedValue.Get / Compute *)
Inductive get_err := GNotFound | GFailure.
Definition abs_get (e : etree) : get_err := if contains id_not_found e then GNotFound else GFailure.

(* what the compute function's (value, error) means to TypedValue.Compute: the model's cres *)
Definition abs_cb {V} (v : V) (err : option etree) : cres V :=
  match err with
  | None => CNew v
  | Some e => if contains id_not_changed e then CNotChanged else CFail
  end.

(* the class the harness reports for a returned error (main.go class): first match in this order *)
Definition classify (e : etree) : eclass :=
  if contains id_not_found e then ENotFound
  else if contains id_injected e then EFault
  else if contains id_malformed e then EDecode
  else if contains id_unencodable e then EEncode
  else if contains id_compute e then ECompute
  else EOther.

Theorem abs_get_shape : forall sh e, abs_get (shape_apply sh e) = abs_get e.
Proof. intros; unfold abs_get; now rewrite shape_class. Qed.

Theorem abs_cb_shape : forall V (v : V) sh e, abs_cb v (Some (shape_apply sh e)) = abs_cb v (Some e).
Proof. intros; unfold abs_cb; now rewrite shape_class. Qed.

Theorem classify_shape : forall sh e, classify (shape_apply sh e) = classify e.
Proof. intros; unfold classify; now rewrite !shape_class. Qed.

(* whatever TypedValue wraps around an error it passes on (ierrors.Wrap = one more CWrap; any clean context)
   the caller classifies it as the original *)
Theorem classify_plug : forall c e, ctx_clean c -> classify (plug c e) = classify e.
Proof. intros; unfold classify; now rewrite !class_plug. Qed.

(* concrete meanings: the sentinel in every shape, and a fault / a failing callback next to errors that only
   LOOK like the sentinels *)
Corollary not_changed_any_shape : forall V (v : V) sh, abs_cb v (Some (shape_apply sh (ELeaf id_not_changed))) = CNotChanged.
Proof. intros; now rewrite abs_cb_shape. Qed.
Corollary compute_failure_any_shape : forall V (v : V) sh, abs_cb v (Some (shape_apply sh (ELeaf id_compute))) = CFail.
Proof. intros; now rewrite abs_cb_shape. Qed.
Corollary not_found_any_shape : forall sh, abs_get (shape_apply sh (ELeaf id_not_found)) = GNotFound.
Proof. intros; now rewrite abs_get_shape. Qed.
Corollary fault_any_shape : forall sh, abs_get (shape_apply sh (ELeaf id_injected)) = GFailure.
Proof. intros; now rewrite abs_get_shape. Qed.

(* non-vacuity / regression: Wrapf(ErrKeyNotFound, "shard 3: %w", limit) and Join(ErrTypedValueNotChanged, limit)
   (seed C06-m10); a single-chain walk (pre-Go-1.20 errors.Is) does not find them *)
Fixpoint contains_chain_only (t : nat) (e : etree) : bool :=
  match e with ELeaf i => Nat.eqb t i | EWrap e' => contains_chain_only t e' | EMulti _ => false end.

Example tree_shapes_nontrivial :
  shape_apply 11 (ELeaf id_not_found) = EMulti [EWrap noise; ELeaf id_not_found] /\
  contains id_not_found (shape_apply 11 (ELeaf id_not_found)) = true /\
  contains_chain_only id_not_found (shape_apply 11 (ELeaf id_not_found)) = false /\
  abs_cb 0 (Some (shape_apply 6 (ELeaf id_not_changed))) = CNotChanged /\
  contains_chain_only id_not_changed (shape_apply 6 (ELeaf id_not_changed)) = false /\
  abs_get (shape_apply 17 (ELeaf id_injected)) = GFailure /\
  first_tag (EMulti [EWrap noise; EMulti [ELeaf 10; ELeaf 9]; ELeaf 11]) = Some 10.
Proof. repeat split. Qed.
