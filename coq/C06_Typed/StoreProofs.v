(* C06 - proofs about the TypedStore model: failure atomicity / faults reported for every op incl. iteration,
   per-raw-key last-written over all histories x fault scripts, Set-then-Get, iteration delivers the decoded
   entries in store order up to the stop point. *)
From Coq Require Import NArith List Bool Lia Arith.
From Verif.C06_Typed Require Import Model StoreModel Proofs.
Import ListNotations.

Lemma bcmp_eq : forall a b, bcmp a b = Eq <-> a = b.
Proof.
  induction a as [|x a IH]; destruct b as [|y b]; cbn; try (split; intros; congruence).
  destruct (N.compare x y) eqn:E.
  - apply N.compare_eq_iff in E. subst. rewrite IH. split; intros; congruence.
  - split; [discriminate|]. intros H; inversion H; subst. rewrite N.compare_refl in E. discriminate.
  - split; [discriminate|]. intros H; inversion H; subst. rewrite N.compare_refl in E. discriminate.
Qed.

Lemma beqb_iff : forall a b, beqb a b = true <-> a = b.
Proof. intros. unfold beqb. rewrite <- bcmp_eq. destruct (bcmp a b); split; congruence. Qed.

Lemma beqb_refl : forall a, beqb a a = true.
Proof. intros. apply beqb_iff. reflexivity. Qed.

Lemma beqb_sym : forall a b, beqb a b = beqb b a.
Proof.
  intros. destruct (beqb a b) eqn:E, (beqb b a) eqn:F; auto.
  - apply beqb_iff in E. subst. rewrite beqb_refl in F. discriminate.
  - apply beqb_iff in F. subst. rewrite beqb_refl in E. discriminate.
Qed.

Lemma find_ins : forall k v l k', find k' (ins k v l) = if beqb k' k then Some v else find k' l.
Proof.
  intros k v l k'. induction l as [|[k0 v0] r IH]; cbn.
  - destruct (beqb k' k); reflexivity.
  - destruct (bcmp k k0) eqn:C; cbn.
    + apply bcmp_eq in C. subst. destruct (beqb k' k0); reflexivity.
    + destruct (beqb k' k) eqn:E; auto.
    + destruct (beqb k' k0) eqn:F.
      * destruct (beqb k' k) eqn:E; auto. apply beqb_iff in F, E. subst.
        assert (bcmp k0 k0 = Eq) by now apply bcmp_eq. congruence.
      * exact IH.
Qed.

Lemma find_filter : forall (keep : bytes -> bool) l k,
  find k (filter (fun e => keep (fst e)) l) = if keep k then find k l else None.
Proof.
  intros keep l k. induction l as [|[k0 v0] r IH]; cbn.
  - destruct (keep k); reflexivity.
  - destruct (keep k0) eqn:K; cbn.
    + destruct (beqb k k0) eqn:E.
      * apply beqb_iff in E. subst. now rewrite K.
      * exact IH.
    + rewrite IH. destruct (beqb k k0) eqn:E; auto. apply beqb_iff in E. subst. now rewrite K.
Qed.

Lemma find_del : forall k l k', find k' (del k l) = if beqb k' k then None else find k' l.
Proof.
  intros. unfold del. rewrite (find_filter (fun x => negb (beqb k x))). rewrite (beqb_sym k k').
  destruct (beqb k' k); reflexivity.
Qed.

Lemma find_delprefix : forall p l k, find k (delprefix p l) = if has_prefix p k then None else find k l.
Proof.
  intros. unfold delprefix. rewrite (find_filter (fun x => negb (has_prefix p x))).
  destruct (has_prefix p k); reflexivity.
Qed.

Section StoreProofs.
Variables K V : Type.
Variable encK : K -> option bytes.
Variable decK : bytes -> option K.
Variable encV : V -> option bytes.
Variable decV : bytes -> option V.
Hypothesis decK_encK : forall k b, encK k = Some b -> decK b = Some k.
Hypothesis decV_encV : forall v b, encV v = Some b -> decV b = Some v.

Notation sstep := (sstep K V encK decK encV decV).
Notation srun := (srun K V encK decK encV decV).
Notation walk := (walk K V decK decV).
Notation walk_keys := (walk_keys K decK).

Ltac brk :=
  repeat match goal with
  | |- context [match ?x with _ => _ end] => destruct x eqn:?
  | H : context [match ?x with _ => _ end] |- _ => destruct x eqn:?
  end.

(* ---------- iteration ---------- *)
Lemma faulted_ext : forall sc p q q', faulted sc p q -> q <= q' -> faulted sc p q'.
Proof. intros sc p q q' [i [H E]] L. exists i. split; [lia | exact E]. Qed.

Lemma faulted_head : forall sc p q, sc p = false -> faulted sc p q -> faulted sc (S p) q.
Proof.
  intros sc p q F [i [H E]]. exists i. split; [|exact E].
  destruct (Nat.eq_dec i p); [subst; congruence | lia].
Qed.

Lemma walk_faults : forall sc es p acc limit p' l e,
  walk sc es p acc limit = (p', l, e) ->
  p <= p' /\ (faulted sc p p' <-> e = Some EFault) /\ (e <> None -> e = Some EFault \/ e = Some EDecode).
Proof.
  intros sc es. induction es as [|[kb vb] r IH]; intros p acc limit p' l e W; cbn [StoreModel.walk StoreModel.walk_keys] in W.
  - inversion W; subst. split; [lia|]. split; [|congruence]. split; [intros [i [H _]]; lia | discriminate].
  - destruct (sc p) eqn:F1.
    { inversion W; subst. split; [lia|]. split; [|auto]. split; auto. intros _. exists p. split; [lia|auto]. }
    destruct (decK kb) as [k|].
    2:{ inversion W; subst. split; [lia|]. split; [|auto]. split; [|discriminate].
        intros [i [H E]]. assert (i = p) by lia. subst. congruence. }
    destruct (sc (S p)) eqn:F2.
    { inversion W; subst. split; [lia|]. split; [|auto]. split; auto. intros _. exists (S p). split; [lia|auto]. }
    destruct (decV vb) as [v|].
    2:{ inversion W; subst. split; [lia|]. split; [|auto]. split; [|discriminate].
        intros [i [H E]]. assert (i = p \/ i = S p) as [|] by lia; subst; congruence. }
    destruct (Nat.ltb (length ((k, v) :: acc)) limit).
    + apply IH in W. destruct W as [L [FE D]]. split; [lia|]. split; [|exact D].
      rewrite <- FE. split.
      * intros H. apply faulted_head; [exact F2|]. apply faulted_head; [exact F1 | exact H].
      * intros [i [H E]]. exists i. split; [lia | exact E].
    + inversion W; subst. split; [lia|]. split; [|congruence]. split; [|discriminate].
      intros [i [H E]]. assert (i = p \/ i = S p) as [|] by lia; subst; congruence.
Qed.

Lemma walk_keys_faults : forall sc es p acc limit p' l e,
  walk_keys sc es p acc limit = (p', l, e) ->
  p <= p' /\ (faulted sc p p' <-> e = Some EFault) /\ (e <> None -> e = Some EFault \/ e = Some EDecode).
Proof.
  intros sc es. induction es as [|[kb vb] r IH]; intros p acc limit p' l e W; cbn [StoreModel.walk StoreModel.walk_keys] in W.
  - inversion W; subst. split; [lia|]. split; [|congruence]. split; [intros [i [H _]]; lia | discriminate].
  - destruct (sc p) eqn:F1.
    { inversion W; subst. split; [lia|]. split; [|auto]. split; auto. intros _. exists p. split; [lia|auto]. }
    destruct (decK kb) as [k|].
    2:{ inversion W; subst. split; [lia|]. split; [|auto]. split; [|discriminate].
        intros [i [H E]]. assert (i = p) by lia. subst. congruence. }
    destruct (Nat.ltb (length (k :: acc)) limit).
    + apply IH in W. destruct W as [L [FE D]]. split; [lia|]. split; [|exact D].
      rewrite <- FE. split.
      * intros H. apply faulted_head; [exact F1 | exact H].
      * intros [i [H E]]. exists i. split; [lia | exact E].
    + inversion W; subst. split; [lia|]. split; [|congruence]. split; [|discriminate].
      intros [i [H E]]. assert (i = p) by lia. subst. congruence.
Qed.

(* what the callback saw is the decoding of an initial segment of the walked entries, in order; when the
   walk ends without error it covered all entries unless the callback stopped it (limit reached) *)
Definition decodes (x : K * V) (e : bytes * bytes) : Prop := decK (fst e) = Some (fst x) /\ decV (snd e) = Some (snd x).

Lemma walk_delivers : forall sc es p acc limit p' l e,
  walk sc es p acc limit = (p', l, e) ->
  exists l', l = rev acc ++ l' /\ Forall2 decodes l' (firstn (length l') es) /\ length l' <= length es /\
             (e = None -> length l' = length es \/ limit <= length l) /\
             (e <> None -> length l' < length es).
Proof.
  intros sc es. induction es as [|[kb vb] r IH]; intros p acc limit p' l e W; cbn [StoreModel.walk StoreModel.walk_keys] in W.
  - inversion W; subst. exists []. rewrite app_nil_r. cbn. repeat split; auto; congruence.
  - assert (STOP : forall p0 e0, (p0, rev acc, Some e0) = (p', l, e) ->
        exists l', l = rev acc ++ l' /\ Forall2 decodes l' (firstn (length l') ((kb, vb) :: r)) /\
                   length l' <= length ((kb, vb) :: r) /\
                   (e = None -> length l' = length ((kb, vb) :: r) \/ limit <= length l) /\
                   (e <> None -> length l' < length ((kb, vb) :: r))).
    { intros p0 e0 H. inversion H; subst. exists []. rewrite app_nil_r. cbn. repeat split; auto; try lia; discriminate. }
    destruct (sc p); [eapply STOP; eauto|].
    destruct (decK kb) as [k|] eqn:DK; [|eapply STOP; eauto].
    destruct (sc (S p)); [eapply STOP; eauto|].
    destruct (decV vb) as [v|] eqn:DV; [|eapply STOP; eauto].
    destruct (Nat.ltb (length ((k, v) :: acc)) limit) eqn:LT.
    + apply IH in W. destruct W as [l' [E1 [E2 [E3 [E4 E5]]]]]. exists ((k, v) :: l').
      cbn [rev] in E1. rewrite <- app_assoc in E1. cbn in E1. split; [exact E1|]. cbn [length firstn].
      split; [constructor; [split; assumption | exact E2]|]. split; [lia|]. split.
      * intros H. destruct (E4 H); [left; lia | right; assumption].
      * intros H. specialize (E5 H). lia.
    + inversion W; subst. exists [(k, v)]. cbn [rev length firstn]. split; [reflexivity|].
      split; [constructor; [split; assumption | constructor]|]. split; [lia|]. split; [|congruence].
      intros _. right. apply Nat.ltb_ge in LT. rewrite app_length, rev_length. cbn in *. lia.
Qed.

(* ---------- one call ---------- *)
Ltac fl :=
  match goal with H : ?sc ?i = true |- faulted ?sc _ _ => exists i; split; [lia | exact H] end.

Ltac nfl :=
  let i := fresh "i" in let Hi := fresh "Hi" in let Hs := fresh "Hs" in
  intros [i [Hi Hs]];
  repeat match goal with
  | H : ?sc ?j = false |- _ => destruct (Nat.eq_dec i j); [subst; congruence | clear H]
  end; lia.

(* failure atomicity and faithful fault reporting, every TypedStore op *)
Lemma sstep_failure_atomic : forall sc s p o,
  let x := sstep sc s p o in
  p <= spos x /\
  (faulted sc p (spos x) <-> is_fault (sresult x) = true) /\
  (is_err (sresult x) = true -> sst x = s).
Proof.
  intros sc s p o. destruct o; cbn zeta; unfold StoreModel.sstep, with_key.
  1-4,7-9: brk; cbn [sst spos sresult is_fault is_err]; (split; [lia|]); (split; [|try reflexivity; try discriminate]);
       (split; [try (intros; reflexivity); try nfl | try (intros; fl); try discriminate]).
  - destruct (sc p) eqn:F; cbn [sst spos sresult is_fault is_err].
    + split; [lia|]. split; [|reflexivity]. split; [reflexivity | intros; fl].
    + destruct (StoreModel.walk K V decK decV sc (entries prefix backward s) (S p) [] limit) as [[p' l] e] eqn:W.
      cbn [sst spos sresult]. apply walk_faults in W. destruct W as [L [FE D]].
      split; [lia|]. split; [|reflexivity].
      assert (X : is_fault (@SList K V l e) = true <-> e = Some EFault).
      { destruct e as [[]|]; cbn; split; congruence. }
      rewrite X, <- FE. split.
      * intros H. apply faulted_head; assumption.
      * intros [i [H E]]. exists i. split; [lia | exact E].
  - destruct (sc p) eqn:F; cbn [sst spos sresult is_fault is_err].
    + split; [lia|]. split; [|reflexivity]. split; [reflexivity | intros; fl].
    + destruct (StoreModel.walk_keys K decK sc (entries prefix backward s) (S p) [] limit) as [[p' l] e] eqn:W.
      cbn [sst spos sresult]. apply walk_keys_faults in W. destruct W as [L [FE D]].
      split; [lia|]. split; [|reflexivity].
      assert (X : is_fault (@SKeys K V l e) = true <-> e = Some EFault).
      { destruct e as [[]|]; cbn; split; congruence. }
      rewrite X, <- FE. split.
      * intros H. apply faulted_head; assumption.
      * intros [i [H E]]. exists i. split; [lia | exact E].
Qed.

(* every raw key holds what the call visibly wrote to it, else what it held (all ops, all fault scripts) *)
Lemma sstep_pointwise : forall sc s p o kb,
  find kb (sst (sstep sc s p o)) =
  match swritten K V encK encV kb o (sresult (sstep sc s p o)) with Some r' => r' | None => find kb s end.
Proof.
  intros sc s p o kb. destruct o; unfold StoreModel.sstep, with_key, swritten.
  1-4,7-9: brk; cbn [sst spos sresult] in *; try reflexivity; try discriminate;
    repeat match goal with H : Some _ = Some _ |- _ => inversion H; subst; clear H end;
    rewrite ?find_ins, ?find_del, ?find_delprefix;
    repeat match goal with H : ?x = _ |- context [?x] => rewrite H end; try reflexivity; try congruence.
  - destruct (sc p); [reflexivity|].
    destruct (StoreModel.walk K V decK decV sc (entries prefix backward s) (S p) [] limit) as [[p' l] e]. reflexivity.
  - destruct (sc p); [reflexivity|].
    destruct (StoreModel.walk_keys K decK sc (entries prefix backward s) (S p) [] limit) as [[p' l] e]. reflexivity.
Qed.

Theorem srun_last_written : forall h sc s p kb,
  find kb (sfinal K V s (srun sc s p h)) = slast_written K V encK encV kb (find kb s) (srun sc s p h).
Proof.
  induction h as [|o h IH]; intros sc s p kb; cbn; [reflexivity|].
  rewrite IH. rewrite <- sstep_pointwise. reflexivity.
Qed.

Fixpoint strace_atomic (sc : script) (s : store) (p : nat) (t : list (sop K V * sout K V)) : Prop :=
  match t with
  | [] => True
  | (o, x) :: t' =>
      p <= spos x /\
      (faulted sc p (spos x) <-> is_fault (sresult x) = true) /\
      (is_err (sresult x) = true -> sst x = s) /\
      strace_atomic sc (sst x) (spos x) t'
  end.

Theorem srun_failure_atomic : forall h sc s p, strace_atomic sc s p (srun sc s p h).
Proof.
  induction h as [|o h IH]; intros sc s p; cbn; [exact I|].
  destruct (sstep_failure_atomic sc s p o) as [A [B C]]. auto.
Qed.

(* Get reads the raw key under the codec *)
Lemma sget_reads_raw : forall sc s p k, ~ faulted sc p (spos (sstep sc s p (SGet k))) ->
  sresult (sstep sc s p (SGet k)) =
  match encK k with
  | None => SErr EEncode
  | Some kb => match find kb s with
               | None => SErr ENotFound
               | Some vb => match decV vb with Some v => SVal v | None => SErr EDecode end
               end
  end.
Proof.
  intros sc s p k. unfold StoreModel.sstep, with_key. brk; cbn [sst spos sresult]; intros N; try reflexivity;
    exfalso; apply N; fl.
Qed.

Theorem sset_then_get : forall sc s p k v sc' p',
  sresult (sstep sc s p (SSet k v)) = SOk -> (forall i, sc' i = false) ->
  sresult (sstep sc' (sst (sstep sc s p (SSet k v))) p' (SGet k)) = SVal v.
Proof.
  intros sc s p k v sc' p' R NF.
  rewrite sget_reads_raw by (apply no_faults_not_faulted; exact NF).
  destruct (encK k) as [kb|] eqn:EK.
  - rewrite sstep_pointwise, R. unfold swritten. rewrite EK, beqb_refl.
    unfold StoreModel.sstep, with_key in R. rewrite EK in R.
    destruct (encV v) as [vb|] eqn:EV; [|brk; discriminate].
    now rewrite (decV_encV _ _ EV).
  - unfold StoreModel.sstep, with_key in R. rewrite EK in R. brk; discriminate.
Qed.

Theorem siterate_delivers : forall sc s p pre bw limit l e,
  sresult (sstep sc s p (SIterate pre bw limit)) = SList l e ->
  Forall2 decodes l (firstn (length l) (entries pre bw s)) /\
  (e = None -> length l = length (entries pre bw s) \/ limit <= length l) /\
  (e = Some EDecode -> length l < length (entries pre bw s)).
Proof.
  intros sc s p pre bw limit l e. unfold StoreModel.sstep. destruct (sc p).
  - cbn. intros H; inversion H; subst. cbn. repeat split; [constructor | discriminate | discriminate].
  - destruct (StoreModel.walk K V decK decV sc (entries pre bw s) (S p) [] limit) as [[p' l0] e0] eqn:W.
    cbn. intros H; inversion H; subst. apply walk_delivers in W. destruct W as [l' [E1 [E2 [E3 [E4 E5]]]]].
    cbn in E1. subst l'. repeat split; auto. intros D. apply E5. congruence.
Qed.

End StoreProofs.
