(* Correspondence for C06.  Concrete codecs used by the harness:
     values  V = uint16 : 2 bytes big endian, 0xFFFF is not encodable (the codec itself reports an error),
                          decoding needs >= 2 bytes and ignores the rest;
     keys    K = uint8  : 2 bytes (high nibble, low nibble), 0xFF is not encodable,
                          decoding needs exactly 2 bytes, both < 16.
   A case is an initial raw store, a fault script, a history and what the real code did at every step
   (result class + value, callback arguments, raw bytes afterwards, number of codec/store calls so far).
   [shapes]: how the k-th error handed to the code under test was presented (bare / wrapped / inside an error tree:
   ErrTree.shape_apply).  The model works on classes, and the class of an error does not depend on its shape
   (ErrTree.abs_get_shape, abs_cb_shape, classify_shape), so the expected observations are computed without
   looking at the shapes: an implementation whose behaviour depends on the shape disagrees with the model.
   CErr / CShape tie ErrTree.contains / first_tag (= what the theorems call errors.Is / errors.As) to ierrors.Is / As:
   an error tree built through the ierrors constructors, what ierrors.Is answered for each of the 12 leaves and which
   leaf ierrors.As found. *)
From Coq Require Import NArith List Bool.
From Verif.C06_Typed Require Import Model StoreModel ErrTree.
Import ListNotations.
Open Scope N_scope.

Definition encV (v : N) : option bytes := if v =? 65535 then None else Some [v / 256; v mod 256].
Definition decV (b : bytes) : option N := match b with h :: l :: _ => Some (h * 256 + l) | _ => None end.
Definition encK (k : N) : option bytes := if k =? 255 then None else Some [k / 16; k mod 16].
Definition decK (b : bytes) : option N :=
  match b with [h; l] => if (h <? 16) && (l <? 16) then Some (h * 16 + l) else None | _ => None end.

(* compute callbacks the harness uses *)
Inductive cfun := FConst (v : N) | FIncr | FKeep | FFail | FInitOrKeep (v : N) | FFailIfExists.

Definition interp (c : cfun) (cur : N) (ex : bool) : cres N :=
  match c with
  | FConst v => CNew v
  | FIncr => CNew ((cur + 1) mod 65536)
  | FKeep => CNotChanged
  | FFail => CFail
  | FInitOrKeep v => if ex then CNotChanged else CNew v
  | FFailIfExists => if ex then CFail else CNew 1
  end.

Inductive top := TGet | THas | TSet (v : N) | TDelete | TCompute (c : cfun).

Definition to_op (o : top) : op N :=
  match o with
  | TGet => Get | THas => Has | TSet v => Set_ v | TDelete => Delete | TCompute c => Compute (interp c)
  end.

Definition script_of (l : list bool) : script := fun i => nth i l false.

(* observation after one TypedValue call *)
Record tobs := mkTObs { o_res : res N; o_cb : option (N * bool); o_raw : option bytes; o_pos : nat }.
Record sobs := mkSObs { so_res : sres N N; so_store : store; so_pos : nat }.

Inductive case :=
| CTV (init : option bytes) (faults : list bool) (shapes : list nat) (h : list top) (obs : list tobs)
| CTS (init : store) (faults : list bool) (shapes : list nat) (h : list (sop N N)) (obs : list sobs)
| CErr (t : etree) (is_obs : list bool) (as_obs : option nat)
| CShape (sh leaf : nat) (is_obs : list bool) (as_obs : option nat).

(* ---- equality on observations ---- *)
Definition ecl_eqb (a b : eclass) : bool :=
  match a, b with
  | ENotFound, ENotFound | EFault, EFault | EDecode, EDecode | EEncode, EEncode | ECompute, ECompute | EOther, EOther => true
  | _, _ => false
  end.

Definition opt_eqb {A} (f : A -> A -> bool) (a b : option A) : bool :=
  match a, b with None, None => true | Some x, Some y => f x y | _, _ => false end.

Fixpoint list_eqb {A} (f : A -> A -> bool) (a b : list A) : bool :=
  match a, b with [], [] => true | x :: a', y :: b' => f x y && list_eqb f a' b' | _, _ => false end.

Definition bytes_eqb : bytes -> bytes -> bool := list_eqb N.eqb.
Definition pair_eqb {A B} (f : A -> A -> bool) (g : B -> B -> bool) (a b : A * B) : bool :=
  f (fst a) (fst b) && g (snd a) (snd b).

Definition res_eqb (a b : res N) : bool :=
  match a, b with
  | RVal x, RVal y => x =? y
  | RBool x, RBool y => Bool.eqb x y
  | ROk, ROk | RPanic, RPanic => true
  | RErr x, RErr y => ecl_eqb x y
  | _, _ => false
  end.

Definition sres_eqb (a b : sres N N) : bool :=
  match a, b with
  | SVal x, SVal y => x =? y
  | SBool x, SBool y => Bool.eqb x y
  | SOk, SOk => true
  | SErr x, SErr y => ecl_eqb x y
  | SList l e, SList l' e' => list_eqb (pair_eqb N.eqb N.eqb) l l' && opt_eqb ecl_eqb e e'
  | SKeys l e, SKeys l' e' => list_eqb N.eqb l l' && opt_eqb ecl_eqb e e'
  | _, _ => false
  end.

Definition step_tv (sc : script) (s : tv N) (p : nat) (o : top) : outcome N :=
  step N 0 encV decV sc s p (to_op o).

Fixpoint agree_tv (sc : script) (s : tv N) (p : nat) (h : list top) (obs : list tobs) : bool :=
  match h, obs with
  | [], [] => true
  | o :: r, x :: obs' =>
      let y := step_tv sc s p o in
      res_eqb (o_res x) (result y) && opt_eqb (pair_eqb N.eqb Bool.eqb) (o_cb x) (cb y)
      && opt_eqb bytes_eqb (o_raw x) (raw (st y)) && Nat.eqb (o_pos x) (pos y)
      && agree_tv sc (st y) (pos y) r obs'
  | _, _ => false
  end.

Fixpoint agree_ts (sc : script) (s : store) (p : nat) (h : list (sop N N)) (obs : list sobs) : bool :=
  match h, obs with
  | [], [] => true
  | o :: r, x :: obs' =>
      let y := sstep N N encK decK encV decV sc s p o in
      sres_eqb (so_res x) (sresult y) && list_eqb (pair_eqb bytes_eqb bytes_eqb) (so_store x) (sst y)
      && Nat.eqb (so_pos x) (spos y)
      && agree_ts sc (sst y) (spos y) r obs'
  | _, _ => false
  end.

(* the 12 leaves of the harness: ierrors.Is(tree, leaf i) for i = 0..11, ierrors.As(tree, *tagErr) *)
Definition agree_err (t : etree) (is_obs : list bool) (as_obs : option nat) : bool :=
  list_eqb Bool.eqb (map (fun i => contains i t) (seq 0 12)) is_obs && opt_eqb Nat.eqb (first_tag t) as_obs.

Definition agree (c : case) : bool :=
  match c with
  | CTV init f _ h obs => agree_tv (script_of f) (fresh init) 0 h obs
  | CTS init f _ h obs => agree_ts (script_of f) init 0 h obs
  | CErr t io ao => agree_err t io ao
  | CShape sh l io ao => agree_err (shape_apply sh (ELeaf l)) io ao
  end.

Fixpoint mismatches_from (i : nat) (cs : list case) : list nat :=
  match cs with
  | [] => []
  | c :: r => if agree c then mismatches_from (S i) r else i :: mismatches_from (S i) r
  end.

Definition mismatches (cs : list case) : list nat := mismatches_from 0 cs.
