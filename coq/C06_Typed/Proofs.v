(* C06 - proofs about the TypedValue model: cache coherence (invariant over all histories x fault scripts),
   transparency w.r.t. the raw key under the codec, failure atomicity, last-written, no panic,
   two-phase Get/Has, no lost update; and the D06 witness on the pinned Compute. *)
From Coq Require Import NArith List Bool Lia Arith.
From Verif.C06_Typed Require Import Model.
Import ListNotations.

(* a call that ran from script position p to q consumed a fault *)
Definition faulted (sc : script) (p q : nat) : Prop := exists i, p <= i < q /\ sc i = true.

Section Proofs.
Variable V : Type.
Variable zero : V.
Variable enc : V -> option bytes.
Variable dec : bytes -> option V.
Hypothesis dec_enc : forall v b, enc v = Some b -> dec b = Some v.

Notation step := (step V zero enc dec).
Notation run := (run V zero enc dec).
Notation spec := (spec V zero enc dec).
Notation tv := (tv V).
Notation outcome := (outcome V).

(* the caches agree with the raw bytes; a cached value implies cached presence (keeps Compute from panicking) *)
Definition coherent (s : tv) : Prop :=
  (forall b, hc s = Some b -> b = is_some (raw s)) /\
  (forall v, vc s = Some v -> (exists b, raw s = Some b /\ dec b = Some v) /\ hc s = Some true).

Lemma coherent_fresh : forall r, coherent (fresh r).
Proof. intros r; split; cbn; intros; discriminate. Qed.

Ltac brk :=
  repeat match goal with
  | |- context [match ?x with _ => _ end] => destruct x eqn:?
  | H : context [match ?x with _ => _ end] |- _ => destruct x eqn:?
  end.

Ltac unf := unfold step, get, get_fast, get_slow, has, has_fast, has_slow, set, delete, compute, compute_gen,
                   compute_tail, fail in *.

Ltac coh_use :=
  match goal with
  | C : coherent ?s |- _ =>
      let C1 := fresh "C1" in let C2 := fresh "C2" in destruct C as [C1 C2];
      repeat match goal with
      | H : hc s = Some ?b |- _ => let E := fresh "E" in pose proof (C1 _ H) as E; revert H
      end; intros;
      repeat match goal with
      | H : vc s = Some ?v |- _ => let E := fresh "E" in pose proof (C2 _ H) as E; revert H
      end; intros
  end.

(* ---------- coherence is an invariant ---------- *)
Lemma step_coherent : forall sc s p o, coherent s -> coherent (st (step sc s p o)).
Proof.
  intros sc s p o C. destruct s as [r v h]. destruct C as [C1 C2]. cbn in C1, C2.
  destruct o; unf; cbn [raw vc hc] in *; brk; cbn [st raw vc hc];
    try (split; cbn [raw vc hc]; assumption);
    split; cbn [raw vc hc]; intros; 
    repeat match goal with H : Some _ = Some _ |- _ => inversion H; subst; clear H end;
    try discriminate; auto;
    try (repeat split; try congruence; eauto; fail);
    match goal with
    | H : ?v = Some _, C2 : forall _, ?v = Some _ -> _ |- _ =>
        destruct (C2 _ H) as [[? [? ?]] ?]; subst; cbn in *; try discriminate; eauto
    end.
Qed.

(* ---------- one call: either it consumed a fault, reports EFault and changed nothing,
              or it consumed none and did exactly what the raw key under the codec does ---------- *)
Definition step_ok (sc : script) (s : tv) (p : nat) (o : op V) (x : outcome) : Prop :=
  p <= pos x /\
  ((faulted sc p (pos x) /\ result x = RErr EFault /\ st x = s) \/
   (~ faulted sc p (pos x) /\ (result x, raw (st x), cb x) = spec (raw s) o)).

Ltac fl :=
  match goal with H : ?sc ?i = true |- faulted ?sc _ _ => exists i; split; [lia | exact H] end.

Ltac nfl :=
  let i := fresh "i" in let Hi := fresh "Hi" in let Hs := fresh "Hs" in
  intros [i [Hi Hs]];
  repeat match goal with
  | H : ?sc ?j = false |- _ => destruct (Nat.eq_dec i j); [subst; congruence | clear H]
  end; lia.

Ltac rw_all :=
  repeat match goal with
  | H : ?x = _ |- context [?x] => rewrite H
  end.

Ltac norm_coh r v h :=
  match goal with
  | C : coherent _ |- _ =>
      let C1 := fresh "C1" in let C2 := fresh "C2" in
      destruct C as [C1 C2]; cbn in C1, C2;
      destruct v as [?v0|];
      [ let b := fresh "b" in let E1 := fresh "E" in let E2 := fresh "E" in let E3 := fresh "E" in
        destruct (C2 _ eq_refl) as [[b [E1 E2]] E3]; subst r; subst h; clear C1 C2
      | clear C2; destruct h as [[|]|];
        [ specialize (C1 _ eq_refl); destruct r; cbn in C1; [clear C1 | discriminate]
        | specialize (C1 _ eq_refl); destruct r; cbn in C1; [discriminate | clear C1]
        | clear C1 ] ]
  end.

Lemma step_transparent : forall sc s p o, coherent s -> step_ok sc s p o (step sc s p o).
Proof.
  intros sc s p o C. destruct s as [r v h]. norm_coh r v h;
  destruct o; unfold step_ok; unf; cbn [raw vc hc]; brk; cbn [st pos result cb raw vc hc];
  (split; [lia |]);
  first [ left; split; [fl | split; reflexivity]
        | right; split; [nfl | unfold Model.spec; cbn [is_some]; rw_all; reflexivity] ].
Qed.

Lemma spec_err_keeps_raw : forall r o e r' c, spec r o = (RErr e, r', c) -> r' = r.
Proof.
  intros r o e r' c. destruct o; unfold Model.spec; brk; intros H; inversion H; subst; auto.
Qed.

Lemma spec_never_fault_or_panic : forall r o r' c,
  spec r o <> (RErr EFault, r', c) /\ spec r o <> (RPanic, r', c) /\ spec r o <> (RErr EOther, r', c).
Proof.
  intros r o r' c. destruct o; unfold Model.spec; brk; repeat split; intros H; inversion H.
Qed.

(* failure atomicity: a call that hits a fault reports it and leaves raw bytes and both caches unchanged *)
Lemma step_failure_atomic : forall sc s p o, coherent s ->
  faulted sc p (pos (step sc s p o)) ->
  result (step sc s p o) = RErr EFault /\ st (step sc s p o) = s.
Proof.
  intros sc s p o C F. destruct (step_transparent sc s p o C) as [_ [[_ H] | [N _]]]; [exact H | contradiction].
Qed.

(* faults are not invented: EFault is reported only when a call position of this call was faulty *)
Lemma step_fault_reported : forall sc s p o, coherent s ->
  result (step sc s p o) = RErr EFault -> faulted sc p (pos (step sc s p o)).
Proof.
  intros sc s p o C R. destruct (step_transparent sc s p o C) as [_ [[F _] | [_ E]]]; [exact F |].
  rewrite R in E. symmetry in E. destruct (spec_never_fault_or_panic (raw s) o (raw (st (step sc s p o))) (cb (step sc s p o))) as [N _].
  contradiction.
Qed.

(* every error leaves the raw bytes alone *)
Lemma step_error_keeps_raw : forall sc s p o e, coherent s ->
  result (step sc s p o) = RErr e -> raw (st (step sc s p o)) = raw s.
Proof.
  intros sc s p o e C R. destruct (step_transparent sc s p o C) as [_ [[_ [_ E]] | [_ E]]].
  - now rewrite E.
  - rewrite R in E. symmetry in E. eapply spec_err_keeps_raw; eauto.
Qed.

(* ... and, except for a Get that learns that the key is absent, the caches too *)
Lemma step_error_keeps_state : forall sc s p o e, coherent s ->
  result (step sc s p o) = RErr e -> e <> ENotFound -> st (step sc s p o) = s.
Proof.
  intros sc s p o e C. destruct s as [r v h]. norm_coh r v h;
  destruct o; unf; cbn [raw vc hc]; brk; cbn [st pos result cb raw vc hc]; intros R N;
  try reflexivity; try discriminate; inversion R; subst; congruence.
Qed.

Lemma step_no_panic : forall sc s p o, coherent s -> result (step sc s p o) <> RPanic.
Proof.
  intros sc s p o C R. destruct (step_transparent sc s p o C) as [_ [[_ [E _]] | [_ E]]].
  - congruence.
  - rewrite R in E. symmetry in E.
    destruct (spec_never_fault_or_panic (raw s) o (raw (st (step sc s p o))) (cb (step sc s p o))) as [_ [N _]].
    contradiction.
Qed.

(* the raw bytes after a call are what the call visibly wrote, else what they were *)
Lemma step_written : forall sc s p o, coherent s ->
  raw (st (step sc s p o)) =
  match written V enc o (step sc s p o) with Some r' => r' | None => raw s end.
Proof.
  intros sc s p o C. destruct s as [r v h]. norm_coh r v h;
  destruct o; unfold written; unf; cbn [raw vc hc]; brk; cbn [st pos result cb raw vc hc] in *;
  try reflexivity; try congruence;
  repeat match goal with H : (_, _) = (_, _) |- _ => inversion H; subst; clear H end;
  repeat match goal with H : Some _ = Some _ |- _ => inversion H; subst; clear H end;
  try congruence.
Qed.

(* ---------- all histories ---------- *)

(* judged on observables only: results, callback arguments, raw bytes after each call *)
Fixpoint trace_ok (sc : script) (r : option bytes) (p : nat) (t : list (op V * outcome)) : Prop :=
  match t with
  | [] => True
  | (o, x) :: t' =>
      p <= pos x /\
      ((faulted sc p (pos x) /\ result x = RErr EFault /\ raw (st x) = r) \/
       (~ faulted sc p (pos x) /\ (result x, raw (st x), cb x) = spec r o)) /\
      trace_ok sc (raw (st x)) (pos x) t'
  end.

Fixpoint all_coherent (t : list (op V * outcome)) : Prop :=
  match t with [] => True | (_, x) :: t' => coherent (st x) /\ all_coherent t' end.

Theorem run_coherent : forall h sc s p, coherent s -> all_coherent (run sc s p h).
Proof.
  induction h as [|o h IH]; intros sc s p C; cbn; [exact I|].
  split; [apply step_coherent; exact C | apply IH; apply step_coherent; exact C].
Qed.

Theorem run_transparent : forall h sc s p, coherent s -> trace_ok sc (raw s) p (run sc s p h).
Proof.
  induction h as [|o h IH]; intros sc s p C; cbn; [exact I|].
  destruct (step_transparent sc s p o C) as [L D]. split; [exact L|]. split.
  - destruct D as [[F [R E]] | [N E]]; [left; rewrite E; auto | right; auto].
  - apply IH. apply step_coherent; exact C.
Qed.

(* per-call failure atomicity along every history: state before each call = state after when it faulted *)
Fixpoint trace_atomic (sc : script) (s : tv) (p : nat) (t : list (op V * outcome)) : Prop :=
  match t with
  | [] => True
  | (o, x) :: t' =>
      (faulted sc p (pos x) -> result x = RErr EFault /\ st x = s) /\
      (forall e, result x = RErr e -> raw (st x) = raw s /\ (e <> ENotFound -> st x = s)) /\
      (result x = RErr EFault -> faulted sc p (pos x)) /\
      result x <> RPanic /\
      trace_atomic sc (st x) (pos x) t'
  end.

Theorem run_failure_atomic : forall h sc s p, coherent s -> trace_atomic sc s p (run sc s p h).
Proof.
  induction h as [|o h IH]; intros sc s p C; cbn; [exact I|].
  split; [apply step_failure_atomic; exact C|].
  split; [intros e R; split; [eapply step_error_keeps_raw; eauto | intros N; eapply step_error_keeps_state; eauto]|].
  split; [apply step_fault_reported; exact C|].
  split; [apply step_no_panic; exact C|].
  apply IH. apply step_coherent; exact C.
Qed.

Theorem run_last_written : forall h sc s p, coherent s ->
  raw (fst (final V s p (run sc s p h))) = last_written V enc (raw s) (run sc s p h).
Proof.
  induction h as [|o h IH]; intros sc s p C; cbn; [reflexivity|].
  rewrite IH by (apply step_coherent; exact C). rewrite <- step_written by exact C. reflexivity.
Qed.

(* ---------- two-phase Get / Has (double-checked locking) ----------
   Phase 1 runs under the read lock on the state s1 it finds; if the caches cannot answer, the call
   re-acquires the write lock and runs phase 2 on the state s2 it finds then (other callers may have
   run in between).  Writers hold the write lock for their whole call, so every phase is an atomic step. *)
Definition get_two_phase (sc : script) (s1 s2 : tv) (p : nat) : outcome :=
  match get_fast V s1 with Some r => mkOut s1 p r None | None => get_slow V dec sc s2 p end.

Definition has_two_phase (sc : script) (s1 s2 : tv) (p : nat) : outcome :=
  match has_fast V s1 with Some r => mkOut s1 p r None | None => has_slow V sc s2 p end.

Lemma get_slow_is_get : forall sc s p, get_slow V dec sc s p = get V dec sc s p.
Proof. intros. unfold get, get_fast, get_slow. brk; reflexivity. Qed.

Lemma has_slow_is_has : forall sc s p, has_slow V sc s p = has V sc s p.
Proof. intros. unfold has, has_fast, has_slow. brk; reflexivity. Qed.

(* the call equals ONE atomic Get: at phase 1 (then it changes nothing) or at phase 2 *)
Theorem get_two_phase_atomic : forall sc s1 s2 p,
  (get_fast V s1 <> None /\ get_two_phase sc s1 s2 p = get V dec sc s1 p /\ st (get V dec sc s1 p) = s1) \/
  (get_fast V s1 = None /\ get_two_phase sc s1 s2 p = get V dec sc s2 p).
Proof.
  intros. unfold get_two_phase. destruct (get_fast V s1) eqn:E.
  - left. split; [discriminate|]. unfold get. rewrite E. auto.
  - right. split; [reflexivity | apply get_slow_is_get].
Qed.

Theorem has_two_phase_atomic : forall sc s1 s2 p,
  (has_fast V s1 <> None /\ has_two_phase sc s1 s2 p = has V sc s1 p /\ st (has V sc s1 p) = s1) \/
  (has_fast V s1 = None /\ has_two_phase sc s1 s2 p = has V sc s2 p).
Proof.
  intros. unfold has_two_phase. destruct (has_fast V s1) eqn:E.
  - left. split; [discriminate|]. unfold has. rewrite E. auto.
  - right. split; [reflexivity | apply has_slow_is_has].
Qed.

(* ---------- no lost update ----------
   Calls are atomic steps, so any interleaving of the Compute(g) calls of any number of callers is a
   sequence of n such calls: without faults the i-th call returns g^(i) of the initial value and the
   raw key ends as the encoding of g^n. *)
Definition bump (g : V -> V) : V -> bool -> cres V := fun cur _ => CNew (g cur).

Fixpoint bump_results (g : V -> V) (cur : V) (n : nat) : list (res V) :=
  match n with 0 => [] | S k => RVal (g cur) :: bump_results g (g cur) k end.

Definition holds (r : option bytes) (c : V) : Prop :=
  (r = None /\ c = zero) \/ (exists b, r = Some b /\ dec b = Some c).

Lemma no_faults_not_faulted : forall sc p q, (forall i, sc i = false) -> ~ faulted sc p q.
Proof. intros sc p q H [i [_ E]]. rewrite H in E. discriminate. Qed.

Lemma iter_shift : forall (g : V -> V) n c, Nat.iter n g (g c) = g (Nat.iter n g c).
Proof. intros g n c. induction n as [|n IH]; [reflexivity | simpl; f_equal; exact IH]. Qed.

Lemma run_cons : forall sc s p o h,
  run sc s p (o :: h) = (o, step sc s p o) :: run sc (st (step sc s p o)) (pos (step sc s p o)) h.
Proof. reflexivity. Qed.

Theorem no_lost_update : forall g n sc s p c,
  coherent s -> (forall i, sc i = false) -> (forall v, enc v <> None) -> holds (raw s) c ->
  map (fun e => result (snd e)) (run sc s p (repeat (Compute (bump g)) n)) = bump_results g c n /\
  exists b, raw (fst (final V s p (run sc s p (repeat (Compute (bump g)) n)))) = b /\ holds b (Nat.iter n g c).
Proof.
  intros g n. induction n as [|n IH]; intros sc s p c C NF TOT H.
  - cbn. split; [reflexivity|]. eauto.
  - cbn [repeat]. rewrite run_cons.
    pose proof (step_transparent sc s p (Compute (bump g)) C) as T.
    pose proof (step_coherent sc s p (Compute (bump g)) C) as Cx.
    remember (step sc s p (Compute (bump g))) as x eqn:Hx. clear Hx.
    destruct T as [_ [[F _] | [_ E]]]; [exfalso; eapply no_faults_not_faulted; eauto|].
    assert (S1 : result x = RVal (g c) /\ holds (raw (st x)) (g c)).
    { unfold Model.spec, bump in E. destruct (enc (g c)) as [b'|] eqn:EE; [|exfalso; eapply TOT; eauto].
      destruct H as [[Hr Hc] | [b [Hr Hd]]]; subst; rewrite ?Hr, ?Hd, ?EE in E; injection E as E1 E2 E3;
        (split; [exact E1 | right; exists b'; split; [exact E2 | eapply dec_enc; eauto]]). }
    destruct S1 as [R1 H1].
    destruct (IH sc (st x) (pos x) (g c) Cx NF TOT H1) as [IH1 [b [IH2 IH3]]].
    cbn [map snd bump_results final]. split; [rewrite R1; f_equal; exact IH1|].
    exists b. split; [exact IH2|]. change (Nat.iter (S n) g c) with (g (Nat.iter n g c)). rewrite <- iter_shift. exact IH3.
Qed.

End Proofs.
