(* C06 — what "one call = one atomic step" (Model.step) rests on.

   kvstore/typedvalue.go performs every store call, codec call, callback and cache assignment of an operation between
   t.mutex.Lock() and t.mutex.Unlock().  Below, an operation is a list of micro-steps on the shared state (one per
   store/codec call or cache assignment; the shared state is arbitrary, so it may also carry the results handed back
   to the callers), and threads are scheduled arbitrarily:

   * [locked_serial]: if micro-steps are only ever executed by the current holder of the lock (acquire needs a free
     lock; release after the last micro-step), then in EVERY reachable configuration the shared state is the serial
     execution — in lock-acquisition order — of the operations acquired so far, the last one possibly executed up to
     a prefix of its micro-steps.  At quiescence: state = serial run of whole operations.  This is the fact the
     atomic-step model uses; on the code it is the premise "all store access of an operation is inside its critical
     section", checked by the harness's boundary-intruder schedules (harness/cmd/c06/win.go).
   * [set_is_micro]/[delete_is_micro]: the micro-steps of Set/Delete compose to Model.set/Model.delete.
   * [narrowed_lock_refuted]: without that premise the claim is false: two Sets whose store writes are not covered
     by the lock have an interleaving (store1; store2; cache2; cache1) whose result is not coherent (cache <> store)
     and equals neither serial order. *)
From Coq Require Import List NArith Bool.
From Verif.C06_Typed Require Import Model Proofs Corr.
Import ListNotations.

Section Locked.
Variable S : Type.

Definition micro := S -> S.
Definition run_micro (ms : list micro) (s : S) : S := fold_left (fun s m => m s) ms s.
Definition serial (ops : list (list micro)) (s : S) : S := fold_left (fun s o => run_micro o s) ops s.

(* shared state; lock holder with the micro-steps of its operation still to do; ghost log of acquired operations *)
Record cfg := mkCfg { sh : S; holder : option (nat * list micro); log : list (nat * list micro) }.

(* any thread [i] may start any operation [o] whenever the lock is free; only the holder runs micro-steps *)
Inductive lstep : cfg -> cfg -> Prop :=
| LAcquire : forall s lg i o, lstep (mkCfg s None lg) (mkCfg s (Some (i, o)) (lg ++ [(i, o)]))
| LMicro : forall s lg i m r, lstep (mkCfg s (Some (i, m :: r)) lg) (mkCfg (m s) (Some (i, r)) lg)
| LRelease : forall s lg i, lstep (mkCfg s (Some (i, [])) lg) (mkCfg s None lg).

Inductive reach (s0 : S) : cfg -> Prop :=
| R0 : reach s0 (mkCfg s0 None [])
| RS : forall c c', reach s0 c -> lstep c c' -> reach s0 c'.

Definition serial_inv (s0 : S) (c : cfg) : Prop :=
  match holder c with
  | None => sh c = serial (map snd (log c)) s0
  | Some (i, rest) =>
      exists lg pre, log c = lg ++ [(i, pre ++ rest)] /\ sh c = run_micro pre (serial (map snd lg) s0)
  end.

Lemma run_micro_app : forall a b s, run_micro (a ++ b) s = run_micro b (run_micro a s).
Proof. intros; unfold run_micro; apply fold_left_app. Qed.

Lemma serial_snoc : forall ops o s, serial (ops ++ [o]) s = run_micro o (serial ops s).
Proof. intros; unfold serial; rewrite fold_left_app; reflexivity. Qed.

Theorem locked_serial : forall s0 c, reach s0 c -> serial_inv s0 c.
Proof.
  intros s0 c H; induction H as [|c c' _ IH St].
  - reflexivity.
  - destruct St as [s lg i o | s lg i m r | s lg i]; unfold serial_inv in *; cbn in *.
    + exists lg, []. split; [reflexivity | exact IH].
    + destruct IH as (lg0 & pre & Hl & Hs). exists lg0, (pre ++ [m]). split.
      * rewrite Hl, <- app_assoc; reflexivity.
      * rewrite run_micro_app, <- Hs; reflexivity.
    + destruct IH as (lg0 & pre & Hl & Hs). rewrite Hl, map_app, app_nil_r; cbn.
      rewrite serial_snoc; exact Hs.
Qed.

Corollary locked_quiescent : forall s0 c, reach s0 c -> holder c = None -> sh c = serial (map snd (log c)) s0.
Proof. intros s0 c H Hn. apply locked_serial in H. unfold serial_inv in H. rewrite Hn in H. exact H. Qed.

End Locked.

Arguments mkCfg {S}.
Arguments sh {S}.
Arguments holder {S}.
Arguments log {S}.

(* order-preserving interleavings of two micro-step lists *)
Inductive merge {A : Type} : list A -> list A -> list A -> Prop :=
| merge_nil : merge [] [] []
| merge_l : forall x a b c, merge a b c -> merge (x :: a) b (x :: c)
| merge_r : forall x a b c, merge a b c -> merge a (x :: b) (x :: c).

Section TV.
Variable V : Type.
Variable zero : V.
Variable enc : V -> option bytes.
Variable dec : bytes -> option V.

Definition store_w (b : bytes) : micro (tv V) := fun s => mkTv (Some b) (vc s) (hc s).   (* kv.Set *)
Definition cache_w (v : V) : micro (tv V) := fun s => mkTv (raw s) (Some v) (Some true).   (* valueCached, hasCached *)
Definition store_d : micro (tv V) := fun s => mkTv None (vc s) (hc s).                   (* kv.Delete *)
Definition cache_d : micro (tv V) := fun s => mkTv (raw s) None (Some false).
Definition set_micro (v : V) (b : bytes) : list (micro (tv V)) := [store_w b; cache_w v].
Definition delete_micro : list (micro (tv V)) := [store_d; cache_d].

Lemma set_is_micro : forall sc s p v b, sc p = false -> sc (S p) = false -> enc v = Some b ->
  st (set V enc sc s p v) = run_micro (tv V) (set_micro v b) s.
Proof. intros sc s p v b H1 H2 He. unfold set. rewrite H1, He, H2. reflexivity. Qed.

Lemma delete_is_micro : forall sc s p, sc p = false ->
  st (delete V sc s p) = run_micro (tv V) delete_micro s.
Proof. intros sc s p H1. unfold delete. rewrite H1. reflexivity. Qed.
End TV.

(* Two Sets on a fresh TypedValue (harness codec) whose micro-steps interleave because the store write is outside
   the critical section: Set(1) writes the store, Set(2) runs completely, Set(1) updates the cache. *)
Definition set1 := set_micro N 1%N [0; 1]%N.
Definition set2 := set_micro N 2%N [0; 2]%N.
Definition narrowed_schedule : list (micro (tv N)) :=
  [store_w N [0; 1]%N; store_w N [0; 2]%N; cache_w N 2%N; cache_w N 1%N].

Theorem narrowed_lock_refuted :
  encV 1 = Some [0; 1]%N /\ encV 2 = Some [0; 2]%N /\
  exists il, merge set1 set2 il /\
    let s := run_micro (tv N) il (fresh (V:=N) None) in
    ~ coherent N decV s /\
    s <> serial (tv N) [set1; set2] (fresh (V:=N) None) /\
    s <> serial (tv N) [set2; set1] (fresh (V:=N) None).
Proof.
  split; [reflexivity|]. split; [reflexivity|].
  exists narrowed_schedule. split.
  - unfold set1, set2, set_micro, narrowed_schedule. repeat constructor.
  - cbn. split; [|split; intro H; discriminate H].
    intros [_ Hc]. destruct (Hc 1%N eq_refl) as [(b & Hb & Hd) _].
    cbn in Hb. inversion Hb; subst b. vm_compute in Hd. discriminate Hd.
Qed.

(* non-vacuity of [locked_serial]: the same two Sets under the lock, thread 1 waiting until thread 0 released *)
Example locked_two_sets :
  exists c, reach (tv N) (fresh (V:=N) None) c /\ holder c = None /\ map fst (log c) = [0%nat; 1%nat] /\
    sh c = mkTv (Some [0; 2]%N) (Some 2%N) (Some true) /\ coherent N decV (sh c).
Proof.
  eexists. split.
  - eapply RS. eapply RS. eapply RS. eapply RS. eapply RS. eapply RS. eapply RS. eapply RS. apply R0.
    + apply (LAcquire _ _ _ 0%nat set1).
    + apply LMicro.
    + apply LMicro.
    + apply LRelease.
    + apply (LAcquire _ _ _ 1%nat set2).
    + apply LMicro.
    + apply LMicro.
    + apply LRelease.
  - cbn. split; [reflexivity|]. split; [reflexivity|]. split; [reflexivity|].
    split; cbn; intros x Hx; inversion Hx; subst.
    + reflexivity.
    + split; [exists [0; 2]%N; split; reflexivity | reflexivity].
Qed.
