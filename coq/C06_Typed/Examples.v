(* C06 - concrete instances: the harness codecs satisfy the codec premise, the D06 witness on the pinned
   Compute, its regression on the repaired Compute, and non-trivial states/histories satisfying the
   hypotheses of the guarded theorems (non-vacuity). *)
From Coq Require Import NArith List Bool Lia.
From Verif.C06_Typed Require Import Model StoreModel Corr Proofs StoreProofs.
Import ListNotations.
Open Scope N_scope.

Lemma decV_encV : forall v b, encV v = Some b -> decV b = Some v.
Proof.
  intros v b. unfold encV, decV. destruct (v =? 65535); [discriminate|]. intros H; inversion H; subst.
  f_equal. rewrite N.mul_comm. symmetry. apply N.div_mod. discriminate.
Qed.

Lemma decK_encK : forall k b, encK k = Some b -> k < 256 -> decK b = Some k.
Proof.
  intros k b. unfold encK, decK. destruct (k =? 255); [discriminate|]. intros H L; inversion H; subst.
  assert (k / 16 < 16) by (apply N.div_lt_upper_bound; lia).
  assert (k mod 16 < 16) by (apply N.mod_lt; discriminate).
  destruct (N.ltb_spec (k / 16) 16); [|lia]. destruct (N.ltb_spec (k mod 16) 16); [|lia]. cbn.
  f_equal. rewrite N.mul_comm. symmetry. apply N.div_mod. discriminate.
Qed.

Definition nofault : script := fun _ => false.

(* ---- D06: Set(7); Compute(-> 0xFFFF) where encoding 0xFFFF fails ---- *)
Definition d06_pre : tv N := st (step N 0 encV decV nofault (fresh None) 0 (Set_ 7)).
Definition d06_pinned : outcome N := compute_pinned N 0 encV decV nofault d06_pre 2 (fun _ _ => CNew 65535).
Definition d06_fixed : outcome N := step N 0 encV decV nofault d06_pre 2 (Compute (fun _ _ => CNew 65535)).

(* before the repair: the failed encode is reported as success, the raw key holds the failed codec's
   (empty) bytes and the cache holds 65535: not failure-atomic, not coherent, not transparent *)
Theorem refuted_compute_encode_pinned :
  raw d06_pre = Some [0; 7] /\ encV 65535 = None /\
  result d06_pinned = RVal 65535 /\ raw (st d06_pinned) = Some [] /\ vc (st d06_pinned) = Some 65535 /\
  result (step N 0 encV decV nofault (st d06_pinned) (pos d06_pinned) Get) = RVal 65535 /\
  decV [] = None.
Proof. vm_compute. repeat split; reflexivity. Qed.

(* after the repair *)
Example d06_regression : result d06_fixed = RErr EEncode /\ st d06_fixed = d06_pre.
Proof. vm_compute. split; reflexivity. Qed.

(* ---- non-vacuity ---- *)
Example coherent_nontrivial : coherent N decV (mkTv (Some [0; 7; 9]) (Some 7) (Some true)).
Proof.
  split; cbn; intros.
  - inversion H; reflexivity.
  - inversion H; subst. split; [exists [0; 7; 9]; split; reflexivity | reflexivity].
Qed.

(* a history with an injected fault, an own codec failure, a failing callback and successful writes *)
Definition ex_script : script := script_of [false; false; false; false; true].
Definition ex_hist : list (op N) :=
  [Set_ 7; Compute (interp FIncr); Get; Compute (interp (FConst 65535)); Compute (interp FFail); Delete; Get].
Example ex_hist_results :
  map (fun e => result (snd e)) (run N 0 encV decV ex_script (fresh None) 0 ex_hist) =
  [ROk; RErr EFault; RVal 7; RErr EEncode; RErr ECompute; ROk; RErr ENotFound].
Proof. vm_compute. reflexivity. Qed.

(* no_lost_update needs a codec that encodes every value: one-byte identity codec *)
Definition enc1 (v : N) : option bytes := Some [v].
Definition dec1 (b : bytes) : option N := match b with [v] => Some v | _ => None end.
Example nlu_nontrivial :
  (forall v b, enc1 v = Some b -> dec1 b = Some v) /\ (forall v, enc1 v <> None) /\
  coherent N dec1 (fresh (Some [5])) /\ holds N 0 dec1 (raw (fresh (V:=N) (Some [5]))) 5 /\
  map (fun e => result (snd e)) (run N 0 enc1 dec1 nofault (fresh (Some [5])) 0 (repeat (Compute (bump N N.succ)) 3))
  = [RVal 6; RVal 7; RVal 8].
Proof.
  split; [intros v b H; inversion H; reflexivity|]. split; [discriminate|].
  split; [apply coherent_fresh|]. split; [right; exists [5]; split; reflexivity | vm_compute; reflexivity].
Qed.

(* TypedStore: a Set that succeeds, an iteration that stops on an undecodable raw entry *)
Example ts_nontrivial :
  let x := sstep N N encK decK encV decV nofault [] 0 (SSet 17 3) in
  sresult x = SOk /\
  sresult (sstep N N encK decK encV decV nofault (ins [1; 16] [0; 1] (sst x)) 3 (SIterate [1] false 100))
  = SList [(17, 3)] (Some EDecode).
Proof. vm_compute. split; reflexivity. Qed.
