(* C06 - model of kvstore/typedvalue.go (TypedValue[V] over one raw key), after the D06 repair.
   The backing store is reduced to the bytes under the value's key (raw : option bytes; None = absent).
   Every codec call (vToBytes / bytesToV) and every store call (kv.Get/Has/Set/Delete) consumes one
   position of a fault script (script : nat -> bool, position counter threaded through the ops):
   [true] = this call returns an (injected) error without doing anything.  Codecs may also fail by
   themselves (enc v = None, dec b = None).  The compute callback is an arbitrary function
   V -> bool -> cres.  Everything is transcribed branch by branch, including the precedence of
   `!exists && t.hasCached == nil || *t.hasCached` (a nil dereference when hasCached == nil and a value
   is cached: RPanic, proved unreachable). *)
From Coq Require Import NArith List Bool.
Import ListNotations.

Definition bytes := list N.

(* error classes seen by the caller (errors.Is on the returned error) *)
(* EOther: any other error; the model never produces it (the harness reports it when it sees one) *)
Inductive eclass := ENotFound | EFault | EDecode | EEncode | ECompute | EOther.

Definition script := nat -> bool.

Section TypedValue.
Variable V : Type.
Variable zero : V.                      (* Go zero value of V *)
Variable enc : V -> option bytes.       (* vToBytes; None = the codec itself reports an error *)
Variable dec : bytes -> option V.       (* bytesToV *)

(* what the compute callback returns: (v,nil) | (_,ErrTypedValueNotChanged) | (_,other error) *)
Inductive cres := CNew (v : V) | CNotChanged | CFail.

Inductive res := RVal (v : V) | RBool (b : bool) | ROk | RErr (e : eclass) | RPanic.

Inductive op := Get | Has | Set_ (v : V) | Delete | Compute (f : V -> bool -> cres).

Record tv := mkTv { raw : option bytes; vc : option V (* valueCached *); hc : option bool (* hasCached *) }.

(* state after the call, script position after the call, what the caller got,
   and the arguments the compute callback was invoked with (None = not invoked) *)
Record outcome := mkOut { st : tv; pos : nat; result : res; cb : option (V * bool) }.

Definition is_some {A} (o : option A) : bool := match o with Some _ => true | None => false end.

Definition fail (s : tv) (p : nat) (e : eclass) : outcome := mkOut s p (RErr e) None.

(* ---- Get: fast path under RLock, slow path under Lock (re-checks the caches) ---- *)

Definition get_fast (s : tv) : option res :=
  match hc s with
  | Some false => Some (RErr ENotFound)
  | _ => match vc s with Some v => Some (RVal v) | None => None end
  end.

Definition get_slow (sc : script) (s : tv) (p : nat) : outcome :=
  match hc s with
  | Some false => fail s p ENotFound
  | _ =>
    match vc s with
    | Some v => mkOut s p (RVal v) None
    | None =>
        if sc p then fail s (S p) EFault                      (* kv.Get fails *)
        else match raw s with
        | None => fail (mkTv (raw s) (vc s) (Some false)) (S p) ENotFound
        | Some b =>
            if sc (S p) then fail s (S (S p)) EFault          (* bytesToV fails *)
            else match dec b with
            | None => fail s (S (S p)) EDecode
            | Some v => mkOut (mkTv (raw s) (Some v) (Some true)) (S (S p)) (RVal v) None
            end
        end
    end
  end.

Definition get (sc : script) (s : tv) (p : nat) : outcome :=
  match get_fast s with
  | Some r => mkOut s p r None
  | None => get_slow sc s p
  end.

(* ---- Has ---- *)
Definition has_fast (s : tv) : option res :=
  match hc s with Some b => Some (RBool b) | None => None end.

Definition has_slow (sc : script) (s : tv) (p : nat) : outcome :=
  match hc s with
  | Some b => mkOut s p (RBool b) None
  | None =>
      if sc p then fail s (S p) EFault                        (* kv.Has fails *)
      else let b := is_some (raw s) in mkOut (mkTv (raw s) (vc s) (Some b)) (S p) (RBool b) None
  end.

Definition has (sc : script) (s : tv) (p : nat) : outcome :=
  match has_fast s with
  | Some r => mkOut s p r None
  | None => has_slow sc s p
  end.

(* ---- Set / Delete ---- *)
Definition set (sc : script) (s : tv) (p : nat) (v : V) : outcome :=
  if sc p then fail s (S p) EFault                            (* vToBytes fails *)
  else match enc v with
  | None => fail s (S p) EEncode
  | Some b =>
      if sc (S p) then fail s (S (S p)) EFault                (* kv.Set fails *)
      else mkOut (mkTv (Some b) (Some v) (Some true)) (S (S p)) ROk None
  end.

Definition delete (sc : script) (s : tv) (p : nat) : outcome :=
  if sc p then fail s (S p) EFault                            (* kv.Delete fails *)
  else mkOut (mkTv None None (Some false)) (S p) ROk None.

(* ---- Compute ---- *)

(* second half: callback, encode, store.  [pinned] = the code before the D06 repair, where the encode
   error was not looked at and kv.Set ran with whatever the failing codec returned (nil -> empty). *)
Definition compute_tail (pinned : bool) (sc : script) (s : tv) (p : nat) (f : V -> bool -> cres)
           (cur : V) (ex : bool) : outcome :=
  match f cur ex with
  | CNotChanged => mkOut s p (RVal cur) (Some (cur, ex))
  | CFail => mkOut s p (RErr ECompute) (Some (cur, ex))
  | CNew v =>
      let store b p' :=
        if sc p' then mkOut s (S p') (RErr EFault) (Some (cur, ex))        (* kv.Set fails *)
        else mkOut (mkTv (Some b) (Some v) (Some true)) (S p') (RVal v) (Some (cur, ex)) in
      if sc p then                                                           (* vToBytes fails *)
        (if pinned then store [] (S p) else mkOut s (S p) (RErr EFault) (Some (cur, ex)))
      else match enc v with
      | None => if pinned then store [] (S p) else mkOut s (S p) (RErr EEncode) (Some (cur, ex))
      | Some b => store b (S p)
      end
  end.

Definition compute_gen (pinned : bool) (sc : script) (s : tv) (p : nat) (f : V -> bool -> cres) : outcome :=
  let '(cur, ex) := match vc s with Some v => (v, true) | None => (zero, false) end in
  let reread :=
    if sc p then fail s (S p) EFault                                         (* kv.Get fails *)
    else match raw s with
    | None => compute_tail pinned sc s (S p) f cur ex                        (* ErrKeyNotFound: keep cur/exists *)
    | Some b =>
        if sc (S p) then fail s (S (S p)) EFault                             (* bytesToV fails *)
        else match dec b with
        | None => fail s (S (S p)) EDecode
        | Some v => compute_tail pinned sc s (S (S p)) f v true
        end
    end in
  (* !exists && hasCached == nil || *hasCached *)
  match hc s with
  | None => if ex then mkOut s p RPanic None else reread
  | Some true => reread
  | Some false => compute_tail pinned sc s p f cur ex
  end.

Definition compute := compute_gen false.
Definition compute_pinned := compute_gen true.

Definition step (sc : script) (s : tv) (p : nat) (o : op) : outcome :=
  match o with
  | Get => get sc s p
  | Has => has sc s p
  | Set_ v => set sc s p v
  | Delete => delete sc s p
  | Compute f => compute sc s p f
  end.

(* a history: list of ops; the trace records (op, outcome) *)
Fixpoint run (sc : script) (s : tv) (p : nat) (h : list op) : list (op * outcome) :=
  match h with
  | [] => []
  | o :: r => let x := step sc s p o in (o, x) :: run sc (st x) (pos x) r
  end.

Fixpoint final (s : tv) (p : nat) (t : list (op * outcome)) : tv * nat :=
  match t with [] => (s, p) | (_, x) :: t' => final (st x) (pos x) t' end.

Definition fresh (r : option bytes) : tv := mkTv r None None.   (* NewTypedValue over a store holding r *)

(* ---- specification side: the raw key under the codec, no cache, no faults ---- *)

Definition spec (r : option bytes) (o : op) : res * option bytes * option (V * bool) :=
  match o with
  | Get => match r with
           | None => (RErr ENotFound, r, None)
           | Some b => match dec b with Some v => (RVal v, r, None) | None => (RErr EDecode, r, None) end
           end
  | Has => (RBool (is_some r), r, None)
  | Set_ v => match enc v with Some b => (ROk, Some b, None) | None => (RErr EEncode, r, None) end
  | Delete => (ROk, None, None)
  | Compute f =>
      let go cur ex :=
        match f cur ex with
        | CNotChanged => (RVal cur, r, Some (cur, ex))
        | CFail => (RErr ECompute, r, Some (cur, ex))
        | CNew v => match enc v with
                    | Some b => (RVal v, Some b, Some (cur, ex))
                    | None => (RErr EEncode, r, Some (cur, ex))
                    end
        end in
      match r with
      | None => go zero false
      | Some b => match dec b with Some v => go v true | None => (RErr EDecode, r, None) end
      end
  end.

(* the write a completed call performed, judged from outside (op, result, callback arguments):
   Some r' = the raw key was set to r' *)
Definition written (o : op) (x : outcome) : option (option bytes) :=
  match o, result x with
  | Set_ v, ROk => Some (enc v)
  | Delete, ROk => Some None
  | Compute f, RVal _ =>
      match cb x with
      | Some (cur, ex) => match f cur ex with CNew v => Some (enc v) | _ => None end
      | None => None
      end
  | _, _ => None
  end.

Fixpoint last_written (r : option bytes) (t : list (op * outcome)) : option bytes :=
  match t with
  | [] => r
  | (o, x) :: t' => last_written (match written o x with Some r' => r' | None => r end) t'
  end.

End TypedValue.

Arguments RVal {V}. Arguments RBool {V}. Arguments ROk {V}. Arguments RErr {V}. Arguments RPanic {V}.
Arguments CNew {V}. Arguments CNotChanged {V}. Arguments CFail {V}.
Arguments Get {V}. Arguments Has {V}. Arguments Set_ {V}. Arguments Delete {V}. Arguments Compute {V}.
Arguments mkTv {V}. Arguments raw {V}. Arguments vc {V}. Arguments hc {V}.
Arguments mkOut {V}. Arguments st {V}. Arguments pos {V}. Arguments result {V}. Arguments cb {V}.
Arguments fresh {V}.
