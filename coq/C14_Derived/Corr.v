(* Correspondence for C14: a case is a history of API calls on one derived value together with what the real
   code showed after every call; the model is stepped in lockstep and every observation compared. *)
From Coq Require Import ZArith NArith List Bool.
From Verif.C14_Derived Require Import Model ModelDVI ModelEVR.
Import ListNotations.

Fixpoint list_eqb {A} (eqb : A -> A -> bool) (a b : list A) : bool :=
  match a, b with
  | [], [] => true
  | x :: r, y :: q => eqb x y && list_eqb eqb r q
  | _, _ => false
  end.
Definition opt_eqb {A} (eqb : A -> A -> bool) (a b : option A) : bool :=
  match a, b with None, None => true | Some x, Some y => eqb x y | _, _ => false end.
Definition ln_eqb := list_eqb N.eqb.

Inductive case :=
| CDV (f : DV.fn) (ins0 : list Z) (init : Z) (d0 : Z) (h : list DV.op) (o : list (Z * Z))
| CSN (bs : list (list N)) (h : list SN.op) (o : list (list (list N) * list N * option (list N)))
| CCT (c : CT.cond) (ins0 : list Z) (h : list CT.op) (o : list Z)
| CSS (tb : bool) (h : list SS.op) (o : list (list N * list N * N * N))
| CEV (h : list EV.op) (o : list (N * list bool))
| CWG (h : list WG.op) (o : list (list N * bool))
(* a forced schedule of writers on the two inputs of a DerivedVariable2 (+ inheriting variable): the harness held the
   writers at callback boundaries, the schedule lists the model steps in the order the real code was made to take
   them; o = (input1, input2, derived, inheriting) after all writers returned *)
(* EvictionState with re-entrant handlers: top-level calls whose event handlers are scripts of calls back into the
   state; o = per call (LastEvictedSlot, triggered per handed-out event in hand-out order, log of the handlers) *)
| CEVR (h : list EVR.act) (o : list (N * list bool * list N))
| CDVI (f : DV.fn) (a b : Z) (progs : list (list (bool * Z))) (sched : list nat) (o : Z * Z * Z * Z).

Definition zz_eqb (a b : Z * Z) := Z.eqb (fst a) (fst b) && Z.eqb (snd a) (snd b).
Definition sn_eqb (a b : list (list N) * list N * option (list N)) :=
  let '(b1, d1, r1) := a in let '(b2, d2, r2) := b in
  list_eqb ln_eqb b1 b2 && ln_eqb d1 d2 && opt_eqb ln_eqb r1 r2.
Definition ss_eqb (a b : list N * list N * N * N) :=
  let '(b1, s1, h1, l1) := a in let '(b2, s2, h2, l2) := b in
  ln_eqb b1 b2 && ln_eqb s1 s2 && N.eqb h1 h2 && N.eqb l1 l2.
Definition ev_eqb (a b : N * list bool) := N.eqb (fst a) (fst b) && list_eqb Bool.eqb (snd a) (snd b).
Definition evr_eqb (a : option (N * list bool * list N)) (b : N * list bool * list N) :=
  match a with
  | None => false
  | Some (l1, t1, g1) => let '(l2, t2, g2) := b in N.eqb l1 l2 && list_eqb Bool.eqb t1 t2 && ln_eqb g1 g2
  end.
Fixpoint list_eqb2 {A B} (eqb : A -> B -> bool) (a : list A) (b : list B) : bool :=
  match a, b with
  | [], [] => true
  | x :: r, y :: q => eqb x y && list_eqb2 eqb r q
  | _, _ => false
  end.
Definition wg_eqb (a b : list N * bool) := ln_eqb (fst a) (fst b) && Bool.eqb (snd a) (snd b).

Definition agree (c : case) : bool :=
  match c with
  | CDV f xs i d0 h o => let s := DV.init f xs i in Z.eqb (DV.d s) d0 && list_eqb zz_eqb (DV.trace s h) o
  | CSN bs h o => list_eqb sn_eqb (SN.trace (SN.init bs) h) o
  | CCT c xs h o => list_eqb Z.eqb (CT.trace (CT.init c xs) h) o
  | CSS tb h o => list_eqb ss_eqb (SS.trace (SS.init tb) h) o
  | CEV h o => list_eqb ev_eqb (EV.trace EV.init h) o
  | CWG h o => list_eqb wg_eqb (WG.trace WG.init h) o
  | CEVR h o => list_eqb2 evr_eqb (EVR.trace EVR.init h) o
  | CDVI f a b progs sched o =>
      let g := fun x y => DV.apply_fn f 0 [x; y] in
      let s := DVI.run false g (DVI.init g a b progs) sched in
      let '(o1, o2, od, ot) := o in
      DVI.quiescent s && Z.eqb (DVI.in1 s) o1 && Z.eqb (DVI.in2 s) o2 && Z.eqb (DVI.d s) od && Z.eqb (DVI.t s) ot
  end.

Fixpoint mismatches_from (i : nat) (cs : list case) : list nat :=
  match cs with
  | [] => []
  | c :: r => if agree c then mismatches_from (S i) r else i :: mismatches_from (S i) r
  end.
Definition mismatches (cs : list case) : list nat := mismatches_from 0 cs.
