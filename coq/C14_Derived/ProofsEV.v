(* C14 (6): EvictionState - the triggered events are exactly those of slots <= last evicted slot. All histories. *)
From Coq Require Import ZArith NArith List Bool Lia.
From Verif.C14_Derived Require Import Model.
Import ListNotations.
Import EV.
Open Scope N_scope.

Definition tr_of (s : st) (id : nat) : bool := existsb (Nat.eqb id) (tr s).

Lemma existsb_eqb_in : forall id l, existsb (Nat.eqb id) l = true <-> In id l.
Proof.
  intros. rewrite existsb_exists. split.
  - intros (x & Hx & E). apply Nat.eqb_eq in E. subst; auto.
  - intros H. exists id. split; auto. apply Nat.eqb_refl.
Qed.

Lemma lookup_in : forall m k v, lookup k m = Some v -> In (k, v) m.
Proof.
  induction m as [|[k0 v0] m]; simpl; intros; [discriminate|].
  destruct (k0 =? k) eqn:E.
  - inversion H; subst. apply N.eqb_eq in E. subst. auto.
  - right. auto.
Qed.
Lemma lookup_none : forall m k, lookup k m = None -> ~ In k (map fst m).
Proof.
  induction m as [|[k0 v0] m]; simpl; intros; auto.
  destruct (k0 =? k) eqn:E; [discriminate|]. apply N.eqb_neq in E.
  intros [H1|H1]; [congruence|]. eapply IHm; eauto.
Qed.
Lemma lookup_app_some : forall m k v x, lookup k m = Some v -> lookup k (m ++ x) = Some v.
Proof.
  induction m as [|[k0 v0] m]; simpl; intros; [discriminate|]. destruct (k0 =? k); auto.
Qed.
Lemma lookup_app_none : forall m k v, lookup k m = None -> lookup k (m ++ [(k, v)]) = Some v.
Proof.
  induction m as [|[k0 v0] m]; simpl; intros.
  - rewrite N.eqb_refl. auto.
  - destruct (k0 =? k); [discriminate|auto].
Qed.
Lemma lookup_filter : forall (p : N * nat -> bool) m k,
  (forall v, p (k, v) = true) -> lookup k (filter p m) = lookup k m.
Proof.
  induction m as [|[k0 v0] m]; simpl; intros; auto.
  destruct (k0 =? k) eqn:E.
  - apply N.eqb_eq in E. subst. rewrite H. simpl. rewrite N.eqb_refl. auto.
  - destruct (p (k0, v0)); simpl; [rewrite E|]; auto.
Qed.
Lemma nodup_snd_inj : forall (m : list (N * nat)) k k' v,
  NoDup (map snd m) -> In (k, v) m -> In (k', v) m -> k = k'.
Proof.
  induction m as [|[k0 v0] m]; simpl; intros k k' v Hn H1 H2; [tauto|].
  inversion Hn; subst.
  destruct H1 as [H1|H1], H2 as [H2|H2].
  - congruence.
  - inversion H1; subst. exfalso. apply H3. apply in_map_iff. exists (k', v). auto.
  - inversion H2; subst. exfalso. apply H3. apply in_map_iff. exists (k, v). auto.
  - eauto.
Qed.
Lemma nodup_map_filter : forall {A B} (f : A -> B) (p : A -> bool) l, NoDup (map f l) -> NoDup (map f (filter p l)).
Proof.
  induction l; simpl; intros; auto. inversion H; subst. destruct (p a); simpl; auto.
  constructor; auto. intros Hin. apply H2. apply in_map_iff in Hin. destruct Hin as (x & E & Hx).
  apply filter_In in Hx. apply in_map_iff. exists x. tauto.
Qed.

Record Inv (s : st) : Prop := {
  i_evs : forall k id, In (k, id) (evs s) -> after_last (last s) k = true /\ (id < nev s)%nat /\ tr_of s id = false;
  i_keys : NoDup (map fst (evs s));
  i_ids : NoDup (map snd (evs s));
  i_tr : forall id, In id (tr s) -> (id < nev s)%nat;
  i_handles : forall slot hd, In (slot, hd) (handles s) ->
     match hd with
     | None => after_last (last s) slot = false
     | Some id => (id < nev s)%nat /\
                  (if after_last (last s) slot then lookup slot (evs s) = Some id else tr_of s id = true)
     end }.

Lemma init_inv : Inv init.
Proof. constructor; simpl; intros; try tauto; constructor. Qed.

Lemma start_le : forall l k, after_last l k = true -> (match l with None => 0 | Some x => x + 1 end) <= k.
Proof. intros [x|] k H; simpl in *; [apply N.ltb_lt in H|]; lia. Qed.

Lemma step_inv : forall s o, Inv s -> Inv (step s o).
Proof.
  intros s o I. destruct I as [I1 I2 I3 I4 I5]. destruct o as [slot|slot]; simpl.
  - (* EvictionEvent *)
    destruct (after_last (last s) slot) eqn:Ea.
    + destruct (lookup slot (evs s)) as [id|] eqn:El.
      * constructor; simpl; auto.
        intros sl hd Hin. apply in_app_or in Hin. destruct Hin as [Hin|[Hin|[]]]; [exact (I5 _ _ Hin)|].
        inversion Hin; subst. apply lookup_in in El as Hin2. destruct (I1 _ _ Hin2) as (_ & Hlt & _).
        split; auto. rewrite Ea. auto.
      * assert (Hfresh : tr_of s (nev s) = false).
        { unfold tr_of. destruct (existsb (Nat.eqb (nev s)) (tr s)) eqn:E; auto.
          apply existsb_eqb_in in E. apply I4 in E. lia. }
        constructor; simpl.
        -- intros k id Hin. apply in_app_or in Hin. destruct Hin as [Hin|[Hin|[]]].
           ++ destruct (I1 _ _ Hin) as (A & B & C). repeat split; auto.
           ++ inversion Hin; subst. repeat split; auto.
        -- rewrite map_app. simpl. apply NoDup_app_remove_r with (l' := []) || idtac.
           apply (NoDup_Add (a := slot) (l := map fst (evs s))).
           ++ clear. induction (map fst (evs s)); simpl; constructor; auto.
           ++ split; auto. apply lookup_none; auto.
        -- rewrite map_app. simpl.
           apply (NoDup_Add (a := nev s) (l := map snd (evs s))).
           ++ clear. induction (map snd (evs s)); simpl; constructor; auto.
           ++ split; auto. intros Hin. apply in_map_iff in Hin. destruct Hin as ([k v] & E & Hin). simpl in E. subst.
              destruct (I1 _ _ Hin) as (_ & B & _). lia.
        -- intros id Hin. apply I4 in Hin. lia.
        -- intros sl hd Hin. apply in_app_or in Hin. destruct Hin as [Hin|[Hin|[]]].
           ++ specialize (I5 _ _ Hin). destruct hd as [id|]; auto. destruct I5 as [A B]. split; [lia|].
              destruct (after_last (last s) sl); auto. apply lookup_app_some; auto.
           ++ inversion Hin; subst. split; [lia|]. rewrite Ea. apply lookup_app_none; auto.
    + constructor; simpl; auto.
      intros sl hd Hin. apply in_app_or in Hin. destruct Hin as [Hin|[Hin|[]]]; [exact (I5 _ _ Hin)|].
      inversion Hin; subst. auto.
  - (* Evict *)
    destruct (after_last (last s) slot) eqn:Ea; [|constructor; auto].
    set (start := match last s with None => 0 | Some x => x + 1 end).
    assert (Hr : forall k id, In (k, id) (evs s) -> in_range start slot (k, id) = (k <=? slot)).
    { intros k id Hin. destruct (I1 _ _ Hin) as (A & _ & _). apply start_le in A. fold start in A.
      unfold in_range. simpl. apply N.leb_le in A. rewrite A. auto. }
    assert (Hold : forall sl, after_last (last s) sl = false -> after_last (Some slot) sl = false).
    { intros sl H. destruct (last s) as [x|]; simpl in *; [|discriminate].
      apply N.ltb_ge in H. apply N.ltb_lt in Ea. apply N.ltb_ge. lia. }
    constructor; simpl.
    + intros k id Hin. apply filter_In in Hin. destruct Hin as [Hin Hf].
      destruct (I1 _ _ Hin) as (A & B & C). rewrite (Hr _ _ Hin) in Hf.
      apply negb_true_iff in Hf. apply N.leb_gt in Hf.
      split; [apply N.ltb_lt; auto|]. split; auto.
      unfold tr_of in *. simpl. rewrite existsb_app. rewrite C. rewrite orb_false_r.
      destruct (existsb (Nat.eqb id) (map snd (filter (in_range start slot) (evs s)))) eqn:E; auto.
      apply existsb_eqb_in in E. apply in_map_iff in E. destruct E as ([k' v] & E & Hin'). simpl in E. subst v.
      apply filter_In in Hin'. destruct Hin' as [Hin' Hf'].
      assert (k = k') by (eapply nodup_snd_inj; eauto). subst k'.
      rewrite (Hr _ _ Hin) in Hf'. apply N.leb_le in Hf'. lia.
    + apply nodup_map_filter; auto.
    + apply nodup_map_filter; auto.
    + intros id Hin. apply in_app_or in Hin. destruct Hin as [Hin|Hin]; auto.
      apply in_map_iff in Hin. destruct Hin as ([k v] & E & Hin). simpl in E. subst v.
      apply filter_In in Hin. destruct Hin as [Hin _]. apply (I1 _ _ Hin).
    + intros sl hd Hin. specialize (I5 _ _ Hin). destruct hd as [id|]; [|apply Hold; auto].
      destruct I5 as [A B]. split; auto.
      destruct (after_last (last s) sl) eqn:Es.
      * destruct (slot <? sl) eqn:E; simpl; try rewrite E.
        -- rewrite lookup_filter; auto. intros v. unfold in_range. simpl.
           apply N.ltb_lt in E. apply negb_true_iff. apply andb_false_iff. right. apply N.leb_gt. auto.
        -- unfold tr_of. simpl. rewrite existsb_app. apply orb_true_iff. left.
           apply existsb_eqb_in. apply in_map_iff. exists (sl, id). split; auto.
           apply lookup_in in B. apply filter_In. split; auto. rewrite (Hr _ _ B).
           apply N.ltb_ge in E. apply N.leb_le. auto.
      * pose proof (Hold _ Es) as Hs. simpl in Hs. rewrite Hs. unfold tr_of in *. simpl. rewrite existsb_app. rewrite B. apply orb_true_r.
Qed.

Lemma run_inv : forall h s, Inv s -> Inv (run s h).
Proof. induction h; intros; simpl; auto. unfold run in *; simpl. apply IHh. apply step_inv; auto. Qed.

(* every event ever handed out for a slot is triggered iff that slot is at or below the last evicted slot
   (nothing evicted yet: none is), after ANY history of EvictionEvent / Evict calls *)
Theorem ev_triggered_iff_evicted : forall h, let s := run init h in
  forall slot hd, In (slot, hd) (handles s) ->
  triggered s hd = match last s with None => false | Some l => slot <=? l end.
Proof.
  intros h s slot hd Hin. destruct (run_inv h _ init_inv) as [I1 _ _ _ I5]. fold s in I1, I5.
  specialize (I5 _ _ Hin).
  assert (E : forall b, after_last (last s) slot = b -> match last s with None => false | Some l => slot <=? l end = negb b).
  { intros b Hb. destruct (last s) as [l|]; simpl in *; subst b; auto.
    destruct (l <? slot) eqn:E1; simpl.
    - apply N.ltb_lt in E1. apply N.leb_gt. auto.
    - apply N.ltb_ge in E1. apply N.leb_le. auto. }
  destruct hd as [id|]; simpl.
  - destruct I5 as [_ B]. destruct (after_last (last s) slot) eqn:Ea; rewrite (E _ eq_refl); simpl.
    + apply lookup_in in B. apply (I1 _ _ B).
    + exact B.
  - rewrite (E _ I5). auto.
Qed.

(* the events still stored are exactly those of slots above the last evicted one, none of them triggered *)
Theorem ev_stored_untriggered : forall h, let s := run init h in
  forall k id, In (k, id) (evs s) -> after_last (last s) k = true /\ triggered s (Some id) = false.
Proof.
  intros h s k id Hin. destruct (run_inv h _ init_inv) as [I1 _ _ _ _]. destruct (I1 _ _ Hin) as (A & _ & C). auto.
Qed.

Example ev_nonvacuous :
  let s := run init [OEvent 0; OEvent 3; OEvent 3; OEvict 0; OEvent 0; OEvent 1; OEvict 2; OEvict 1; OEvent 2; OEvent 4] in
  last s = Some 2 /\ map (fun h => triggered s (snd h)) (handles s) = [true; false; false; true; true; true; false].
Proof. vm_compute. auto. Qed.
