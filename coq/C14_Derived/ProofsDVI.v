(* C14: proofs about the interleaving model of DerivedVariable2 (ModelDVI.v): for ALL schedules of ANY writer
   programs, at quiescence d = compute(input1, input2) and the inheriting variable equals d; no deadlock; the
   variant that reads the other input before entering Compute is refuted by an explicit schedule. *)
From Coq Require Import ZArith List Bool Lia Arith.
From Verif.C14_Derived Require Import ModelDVI.
Import ListNotations.
Import DVI.
Open Scope Z_scope.

Definition pcof (l : list thread) (k : nat) : pc :=
  match nth_error l k with Some th => now th | None => Idle end.

Lemma nth_error_set_thread : forall l k x j,
  nth_error (set_thread k x l) j =
  if Nat.eqb j k then match nth_error l k with Some _ => Some x | None => None end else nth_error l j.
Proof.
  induction l as [|y l IH]; intros k x j.
  - destruct k, j; cbn; try reflexivity; destruct (Nat.eqb j k); reflexivity.
  - destruct k, j; cbn; try reflexivity. apply IH.
Qed.

Lemma pcof_set : forall l k th p r j, nth_error l k = Some th ->
  pcof (set_thread k (mkt p r) l) j = if Nat.eqb j k then p else pcof l j.
Proof.
  intros. unfold pcof. rewrite nth_error_set_thread, H. destruct (Nat.eqb j k); reflexivity.
Qed.

Definition pc_input (p : pc) : option bool :=
  match p with
  | Idle => None
  | PUpd i _ | PRead0 i _ | PLockD i _ _ | PRead i _ | PWrite i _ _ | PNotify i _ | PUnlockD i | PUnlockI i => Some i
  end.
Definition holds_d (p : pc) : bool :=
  match p with PRead _ _ | PWrite _ _ _ | PNotify _ _ | PUnlockD _ => true | _ => false end.
(* a recompute that will still read the other input inside the critical section *)
Definition fresh (p : pc) : bool :=
  match p with PLockD _ _ None | PRead _ _ => true | _ => false end.

Section Inv.
Variable f : Z -> Z -> Z.

Definition F (s : st) : Z := f (in1 s) (in2 s).

Record Inv (s : st) : Prop := {
  LI : forall i k, lockI s i = Some k <-> pc_input (pcof (threads s) k) = Some i;
  LD : forall k, md s = Some k <-> holds_d (pcof (threads s) k) = true;
  V : forall k, match pcof (threads s) k with
                | PLockD i v None | PRead i v | PWrite i v _ => inp s i = v
                | PRead0 _ _ | PLockD _ _ (Some _) => False
                | _ => True
                end;
  C : (forall k, fresh (pcof (threads s) k) = false) ->
      match md s with
      | None => d s = F s
      | Some k => match pcof (threads s) k with
                  | PWrite i v r => compute_at f i v r = F s
                  | PNotify _ _ | PUnlockD _ => d s = F s
                  | _ => True
                  end
      end;
  T : match md s with
      | None => t s = d s
      | Some k => match pcof (threads s) k with PNotify _ x => x = d s | _ => t s = d s end
      end }.

Lemma pcof_init : forall progs k, pcof (map (fun p => mkt Idle p) progs) k = Idle.
Proof.
  intros. unfold pcof. rewrite nth_error_map. destruct (nth_error progs k); reflexivity.
Qed.

Lemma inv_init : forall a b progs, Inv (init f a b progs).
Proof.
  intros. constructor; cbn [init threads md d t in1 in2 F]; intros; try rewrite pcof_init; cbn; try reflexivity.
  - destruct i; cbn; split; discriminate.
  - split; discriminate.
Qed.

Lemma nofresh_back : forall l k th, nth_error l k = Some th -> forall p r, fresh (now th) = false ->
  (forall j, fresh (pcof (set_thread k (mkt p r) l) j) = false) -> forall j, fresh (pcof l j) = false.
Proof.
  intros l k th E p r Fr H j. specialize (H j). rewrite (pcof_set _ _ _ _ _ _ E) in H.
  destruct (Nat.eqb_spec j k) as [EQ|NE]; [subst j|exact H]. unfold pcof. rewrite E. exact Fr.
Qed.

Ltac use_inv LI0 LD0 V0 PK k k' :=
  pose proof (LI0 true k') as LIt'; pose proof (LI0 false k') as LIf';
  pose proof (LI0 true k) as LIt; pose proof (LI0 false k) as LIf;
  pose proof (LD0 k') as LD'; pose proof (LD0 k) as LDk;
  pose proof (V0 k') as V'; pose proof (V0 k) as Vk;
  rewrite PK in LIt, LIf, LDk, Vk.

Ltac fin := cbn in *; intuition (try congruence).

(* the three structural parts are solved uniformly *)
Ltac t_LI LI0 LD0 V0 PK k E := let i' := fresh "i'" in let k' := fresh "k'" in
  intros i' k'; use_inv LI0 LD0 V0 PK k k'; cbn; rewrite (pcof_set _ _ _ _ _ _ E);
  destruct (Nat.eqb_spec k' k); try subst k'; destruct i'; fin.
Ltac t_LD LI0 LD0 V0 PK k E := let k' := fresh "k'" in
  intros k'; use_inv LI0 LD0 V0 PK k k'; cbn; rewrite (pcof_set _ _ _ _ _ _ E);
  destruct (Nat.eqb_spec k' k); try subst k'; fin.
Ltac t_V LI0 LD0 V0 PK k E s := let k' := fresh "k'" in
  intros k'; use_inv LI0 LD0 V0 PK k k'; cbn; rewrite (pcof_set _ _ _ _ _ _ E);
  destruct (Nat.eqb_spec k' k); [subst k'; fin|];
  let j := fresh "j" in
  destruct (pcof (threads s) k') as [|j ?|j ?|j ? [?|]|j ?|j ? ?|j ?|j|j]; try destruct j; fin.
Ltac t_CT LD0 PK k E s := cbn; unfold F in *; cbn; pose proof (LD0 k) as LDk; rewrite PK in LDk;
  let h := fresh "h" in let M := fresh "M" in
  destruct (md s) as [h|] eqn:M;
  [try rewrite (pcof_set _ _ _ _ _ _ E); destruct (Nat.eqb_spec h k); [try subst h|] |]; fin.
Ltac t_struct LI0 LD0 V0 PK k E s :=
  constructor; [t_LI LI0 LD0 V0 PK k E|t_LD LI0 LD0 V0 PK k E|t_V LI0 LD0 V0 PK k E s| |].

Lemma inv_step : forall s k, Inv s -> Inv (step false f s k).
Proof.
  intros s k HI. pose proof HI as [LI0 LD0 V0 C0 T0]. unfold step.
  destruct (nth_error (threads s) k) as [th|] eqn:E; [|exact HI].
  assert (PK : pcof (threads s) k = now th) by (unfold pcof; rewrite E; reflexivity).
  pose proof (nofresh_back _ _ _ E) as NB.
  destruct (now th) as [|i v|i v|i v r|i v|i v r|i x|i|i] eqn:N.
  - (* Idle *) destruct (rest th) as [|[i v] r] eqn:R; [exact HI|].
    destruct (lockI s i) eqn:L; [exact HI|].
    destruct i; t_struct LI0 LD0 V0 PK k E s.
    all: try (intros NF; cbn in NF; specialize (C0 (NB _ _ eq_refl NF))).
    all: t_CT LD0 PK k E s.
  - (* PUpd *) destruct (inp s i =? v) eqn:Q.
    + destruct i; t_struct LI0 LD0 V0 PK k E s.
      all: try (intros NF; cbn in NF; specialize (C0 (NB _ _ eq_refl NF))).
      all: t_CT LD0 PK k E s.
    + destruct i; t_struct LI0 LD0 V0 PK k E s.
      all: try (intros NF; specialize (NF k); cbn in NF; rewrite (pcof_set _ _ _ _ _ _ E), Nat.eqb_refl in NF; discriminate).
      all: t_CT LD0 PK k E s.
  - (* PRead0 *) exfalso. pose proof (V0 k) as Vk. rewrite PK in Vk. exact Vk.
  - (* PLockD *) destruct r as [r|]; [exfalso; pose proof (V0 k) as Vk; rewrite PK in Vk; exact Vk|].
    destruct (md s) eqn:M; [exact HI|].
    destruct i; t_struct LI0 LD0 V0 PK k E s.
    all: try (intros NF; specialize (NF k); cbn in NF; rewrite (pcof_set _ _ _ _ _ _ E), Nat.eqb_refl in NF; discriminate).
    all: cbn; rewrite (pcof_set _ _ _ _ _ _ E), Nat.eqb_refl; exact T0.
  - (* PRead *)
    assert (MK : md s = Some k) by (apply LD0; rewrite PK; reflexivity).
    pose proof (V0 k) as VK. rewrite PK in VK. rewrite MK, PK in T0.
    destruct i; t_struct LI0 LD0 V0 PK k E s.
    all: try intros _; cbn; rewrite MK, (pcof_set _ _ _ _ _ _ E), Nat.eqb_refl; try exact T0.
    all: unfold F; cbn in *; rewrite VK; reflexivity.
  - (* PWrite *)
    assert (MK : md s = Some k) by (apply LD0; rewrite PK; reflexivity).
    rewrite MK, PK in T0, C0.
    destruct (compute_at f i v r =? d s) eqn:Q.
    + apply Z.eqb_eq in Q.
      destruct i; t_struct LI0 LD0 V0 PK k E s.
      all: try (intros NF; cbn in NF; specialize (C0 (NB _ _ eq_refl NF))).
      all: cbn; rewrite MK, (pcof_set _ _ _ _ _ _ E), Nat.eqb_refl; try exact T0.
      all: unfold F in *; cbn in *; congruence.
    + destruct i; t_struct LI0 LD0 V0 PK k E s.
      all: try (intros NF; cbn in NF; specialize (C0 (NB _ _ eq_refl NF))).
      all: cbn; rewrite MK, (pcof_set _ _ _ _ _ _ E), Nat.eqb_refl; try reflexivity.
      all: unfold F in *; cbn in *; congruence.
  - (* PNotify *)
    assert (MK : md s = Some k) by (apply LD0; rewrite PK; reflexivity).
    rewrite MK, PK in T0, C0.
    destruct i; t_struct LI0 LD0 V0 PK k E s.
    all: try (intros NF; cbn in NF; specialize (C0 (NB _ _ eq_refl NF))).
    all: cbn; rewrite MK, (pcof_set _ _ _ _ _ _ E), Nat.eqb_refl; try exact T0.
    all: unfold F in *; cbn in *; congruence.
  - (* PUnlockD *)
    assert (MK : md s = Some k) by (apply LD0; rewrite PK; reflexivity).
    rewrite MK, PK in T0, C0.
    destruct i; t_struct LI0 LD0 V0 PK k E s.
    all: try (intros NF; cbn in NF; specialize (C0 (NB _ _ eq_refl NF))).
    all: cbn; try exact T0.
    all: unfold F in *; cbn in *; congruence.
  - (* PUnlockI *)
    destruct i; t_struct LI0 LD0 V0 PK k E s.
    all: try (intros NF; cbn in NF; specialize (C0 (NB _ _ eq_refl NF))).
    all: t_CT LD0 PK k E s.
Qed.

Lemma inv_run : forall sched s, Inv s -> Inv (run false f s sched).
Proof.
  unfold run. induction sched as [|k sched IH]; intros s HI; cbn; [exact HI|]. apply IH, inv_step, HI.
Qed.

Lemma quiescent_idle : forall s, quiescent s = true -> forall k, pcof (threads s) k = Idle.
Proof.
  intros s Q k. unfold pcof. destruct (nth_error (threads s) k) as [th|] eqn:E; [|reflexivity].
  unfold quiescent in Q. rewrite forallb_forall in Q. specialize (Q th (nth_error_In _ _ E)).
  unfold finished in Q. destruct (now th); try discriminate. reflexivity.
Qed.

Lemma inv_quiescent : forall s, Inv s -> quiescent s = true -> d s = f (in1 s) (in2 s) /\ t s = d s.
Proof.
  intros s [LI0 LD0 V0 C0 T0] Q. pose proof (quiescent_idle s Q) as ID.
  assert (M : md s = None).
  { destruct (md s) as [h|] eqn:M; [|reflexivity]. pose proof (proj1 (LD0 h) eq_refl) as H. rewrite ID in H. discriminate. }
  rewrite M in C0, T0. split; [|exact T0]. apply C0. intros k. rewrite ID. reflexivity.
Qed.

(* ---- main theorem: every schedule of every set of writer programs *)
Theorem dvi_converges : forall a b progs sched,
  let s := run false f (init f a b progs) sched in
  quiescent s = true -> d s = f (in1 s) (in2 s) /\ t s = d s.
Proof.
  intros a b progs sched s Q. apply inv_quiescent; [|exact Q]. apply inv_run, inv_init.
Qed.

(* ---- no deadlock: in every reachable state that is not quiescent some thread can take a step *)
Lemma enabled_nonidle : forall s h, md s = None -> pcof (threads s) h <> Idle -> enabled s h = true.
Proof.
  intros s h M NI. unfold enabled, pcof in *. destruct (nth_error (threads s) h) as [th|]; [|congruence].
  destruct (now th); try reflexivity; [congruence|rewrite M; reflexivity].
Qed.

Lemma inv_enabled : forall s, Inv s -> quiescent s = false -> exists k, enabled s k = true.
Proof.
  intros s [LI0 LD0 V0 C0 T0] Q.
  destruct (md s) as [h|] eqn:M.
  - exists h. pose proof (proj1 (LD0 h) eq_refl) as H. unfold enabled, pcof in *.
    destruct (nth_error (threads s) h) as [th|]; [|discriminate]. destruct (now th); try discriminate; reflexivity.
  - unfold quiescent in Q.
    assert (EX : exists th, In th (threads s) /\ finished th = false).
    { clear -Q. induction (threads s) as [|x l IH]; cbn in Q; [discriminate|].
      destruct (finished x) eqn:Fx; [destruct (IH Q) as [th [I1 I2]]; exists th; split; [right|]; assumption|].
      exists x. split; [left; reflexivity|assumption]. }
    destruct EX as [th [I1 Fi]]. apply In_nth_error in I1. destruct I1 as [k E].
    destruct (now th) eqn:N.
    + unfold finished in Fi. rewrite N in Fi. destruct (rest th) as [|[i v] r] eqn:R; [discriminate|].
      destruct (lockI s i) as [h|] eqn:L.
      * exists h. apply enabled_nonidle; [exact M|]. apply LI0 in L. intros X. rewrite X in L. discriminate.
      * exists k. unfold enabled. rewrite E, N, R, L. reflexivity.
    + exists k. apply enabled_nonidle; [exact M|]. unfold pcof. rewrite E, N. discriminate.
    + exists k. apply enabled_nonidle; [exact M|]. unfold pcof. rewrite E, N. discriminate.
    + exists k. apply enabled_nonidle; [exact M|]. unfold pcof. rewrite E, N. discriminate.
    + exists k. apply enabled_nonidle; [exact M|]. unfold pcof. rewrite E, N. discriminate.
    + exists k. apply enabled_nonidle; [exact M|]. unfold pcof. rewrite E, N. discriminate.
    + exists k. apply enabled_nonidle; [exact M|]. unfold pcof. rewrite E, N. discriminate.
    + exists k. apply enabled_nonidle; [exact M|]. unfold pcof. rewrite E, N. discriminate.
    + exists k. apply enabled_nonidle; [exact M|]. unfold pcof. rewrite E, N. discriminate.
Qed.

End Inv.

(* an enabled step makes progress: the number of steps still to be taken decreases (either variant) *)
Lemma left_set_thread : forall l k th x, nth_error l k = Some th ->
  (fold_right (fun th n => thread_left th + n) 0 (set_thread k x l) + thread_left th =
   fold_right (fun th n => thread_left th + n) 0 l + thread_left x)%nat.
Proof.
  induction l as [|y l IH]; intros k th x E; destruct k; cbn in *; try discriminate.
  - injection E as ->. lia.
  - specialize (IH _ _ x E). lia.
Qed.

Lemma enabled_progress : forall early f s k, enabled s k = true -> (left (step early f s k) < left s)%nat.
Proof.
  intros early f s k En. unfold enabled in En. unfold step.
  destruct (nth_error (threads s) k) as [th|] eqn:E; [|discriminate].
  assert (TL : thread_left th = (pc_left (now th) + 8 * length (rest th))%nat) by reflexivity.
  assert (G : forall s' p r, threads s' = threads s -> (pc_left p + 8 * length r < thread_left th)%nat ->
              (left (set_pc s' k p r) < left s)%nat).
  { intros s' p r TS Lt. unfold left. cbn. rewrite TS.
    pose proof (left_set_thread _ _ _ (mkt p r) E) as H. change (thread_left (mkt p r)) with (pc_left p + 8 * length r)%nat in H. lia. }
  destruct (now th) as [|i v|i v|i v r|i v|i v r|i x|i|i] eqn:N.
  - destruct (rest th) as [|[i v] r] eqn:R; [discriminate|]. destruct (lockI s i); [discriminate|].
    apply G; [destruct i; reflexivity|]. rewrite TL. cbn. lia.
  - destruct (inp s i =? v); apply G; try (destruct i; reflexivity); rewrite TL; destruct early; cbn; lia.
  - apply G; [reflexivity|]. rewrite TL. cbn. lia.
  - destruct (md s); [discriminate|]. apply G; [reflexivity|]. rewrite TL. destruct r; cbn; lia.
  - apply G; [reflexivity|]. rewrite TL. cbn. lia.
  - destruct (compute_at f i v r =? d s); apply G; try reflexivity; rewrite TL; cbn; lia.
  - apply G; [reflexivity|]. rewrite TL. cbn. lia.
  - apply G; [reflexivity|]. rewrite TL. cbn. lia.
  - apply G; [destruct i; reflexivity|]. rewrite TL. cbn. lia.
Qed.

(* from every reachable state the writers can all return: no combination of writes deadlocks *)
Theorem dvi_no_deadlock : forall f a b progs sched,
  let s := run false f (init f a b progs) sched in
  (quiescent s = false -> exists k, enabled s k = true /\ (left (step false f s k) < left s)%nat) /\
  exists more, quiescent (run false f s more) = true.
Proof.
  intros f a b progs sched s.
  assert (HI : Inv f s) by (apply inv_run, inv_init).
  split.
  - intros Q. destruct (inv_enabled f s HI Q) as [k En]. exists k. split; [exact En|apply enabled_progress, En].
  - clearbody s. remember (left s) as n eqn:Hn. revert s HI Hn.
    induction n as [n IH] using lt_wf_ind. intros s HI Hn.
    destruct (quiescent s) eqn:Q; [exists []; exact Q|].
    destruct (inv_enabled f s HI Q) as [k En].
    pose proof (enabled_progress false f s k En) as Lt.
    destruct (IH (left (step false f s k)) ltac:(lia) (step false f s k) (inv_step f s k HI) eq_refl) as [more Qm].
    exists (k :: more). exact Qm.
Qed.

(* ---- the variant that reads the other input BEFORE entering d.Compute (class of seed C14-m1) is refuted:
        writer 0 sets input1 := 1 and reads input2 = 0, writer 1 sets input2 := 1 and recomputes (11),
        writer 0 then stores compute(1, 0) = 10 *)
Definition f10 (a b : Z) : Z := 10 * a + b.
Definition early_progs : list (list (bool * Z)) := [[(false, 1)]; [(true, 1)]].
Definition early_sched : list nat := [0; 0; 0; 1; 1; 1; 1; 1; 1; 1; 1; 0; 0; 0; 0; 0]%nat.

Theorem dvi_refuted_early_read :
  let s := run true f10 (init f10 0 0 early_progs) early_sched in
  quiescent s = true /\ in1 s = 1 /\ in2 s = 1 /\ d s = 10 /\ t s = 10 /\ d s <> f10 (in1 s) (in2 s).
Proof. vm_compute. repeat split; try reflexivity. discriminate. Qed.

(* non-vacuity: the same two writers, writer 0 stopped inside the critical section while writer 1 runs into the lock *)
Example dvi_nonvacuous :
  let s := run false f10 (init f10 0 0 early_progs) [0; 0; 0; 1; 1; 1; 1; 0; 0; 1; 0; 0; 0; 1; 1; 1; 1; 1; 1]%nat in
  quiescent s = true /\ in1 s = 1 /\ in2 s = 1 /\ d s = 11 /\ t s = 11.
Proof. vm_compute. repeat split; reflexivity. Qed.
