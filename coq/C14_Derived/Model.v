(* C14 - executable models of the derived reactive values of /repo/ds/reactive.
   Lower-layer interface taken as an explicit model assumption (it is property C13, built elsewhere):
   a subscriber of a Variable/Set receives every change exactly once, in order, synchronously inside the
   writer's call (sequential callback semantics).  One model step = one top-level API call run to completion,
   including every nested callback.  No proofs in this file. *)
From Coq Require Import ZArith NArith List Bool.
Import ListNotations.

(* ------------------------------------------------------------------------------------------------ *)
(* insertion-ordered sets (ds.Set = OrderedMap keys) and set mutations                               *)
(* ------------------------------------------------------------------------------------------------ *)
Definition mem (e : N) (l : list N) : bool := existsb (N.eqb e) l.
Definition sadd (e : N) (l : list N) : list N := if mem e l then l else l ++ [e].
Definition sdel (e : N) (l : list N) : list N := filter (fun x => negb (N.eqb x e)) l.

Definition mut := (list N * list N)%type.          (* (added, deleted), each in iteration order *)
Definition mut_empty (m : mut) : bool := match m with ([], []) => true | _ => false end.

(* ds.set.apply: adds first, then deletes; reports what really changed *)
Fixpoint adds_app (es l : list N) : list N * list N :=
  match es with
  | [] => (l, [])
  | e :: r => if mem e l then adds_app r l
              else let '(l', a) := adds_app r (l ++ [e]) in (l', e :: a)
  end.
Fixpoint dels_app (es l : list N) : list N * list N :=
  match es with
  | [] => (l, [])
  | e :: r => if mem e l then let '(l', d) := dels_app r (sdel e l) in (l', e :: d)
              else dels_app r l
  end.
Definition set_apply (l : list N) (m : mut) : list N * mut :=
  let '(l1, a) := adds_app (fst m) l in
  let '(l2, d) := dels_app (snd m) l1 in
  (l2, (a, d)).

(* operations of a reactive Set (set_impl.go); the result is the new content and the mutation handed to the
   subscribers (None = the callbacks are not invoked) *)
Inductive sop :=
| SAdd (e : N) | SDelete (e : N) | SAddAll (es : list N) | SDeleteAll (es : list N)
| SApply (a d : list N) | SReplace (es : list N).

Definition sop_mut (o : sop) : mut :=
  match o with
  | SAdd e => ([e], []) | SDelete e => ([], [e]) | SAddAll es => (es, []) | SDeleteAll es => ([], es)
  | SApply a d => (a, d) | SReplace _ => ([], [])
  end.

Definition rset_step (l : list N) (o : sop) : list N * option mut :=
  match o with
  | SReplace es =>
      (* reactive replace after fix 0e0e80f: added = new \ previous (order of new), deleted = previous \ new
         (order of previous); the callbacks are invoked even when both are empty *)
      (es, Some (filter (fun e => negb (mem e l)) es, filter (fun e => negb (mem e es)) l))
  | _ =>
      let m := sop_mut o in
      if mut_empty m then (l, None)
      else let '(l', ap) := set_apply l m in
           if mut_empty ap then (l', None) else (l', Some ap)
  end.

(* ds.SetArithmetic (ds/set_impl.go:364-408), threshold 1 *)
Definition cupd (c : N -> Z) (e : N) (v : Z) : N -> Z := fun x => if N.eqb x e then v else c x.

Record arith := { ac : N -> Z; aA : list N; aD : list N }.   (* counts, collected added, collected deleted *)

Definition collect_inc (s : arith) (e : N) : arith :=
  let v := (ac s e + 1)%Z in
  let c := cupd (ac s) e v in
  if (v =? 1)%Z then
    if mem e (aD s) then {| ac := c; aA := aA s; aD := sdel e (aD s) |}
    else {| ac := c; aA := sadd e (aA s); aD := aD s |}
  else {| ac := c; aA := aA s; aD := aD s |}.
Definition collect_dec (s : arith) (e : N) : arith :=
  let v := (ac s e - 1)%Z in
  let c := cupd (ac s) e v in
  if (v =? 0)%Z then
    if mem e (aA s) then {| ac := c; aA := sdel e (aA s); aD := aD s |}
    else {| ac := c; aA := aA s; aD := sadd e (aD s) |}
  else {| ac := c; aA := aA s; aD := aD s |}.
Definition arith_add (c : N -> Z) (m : mut) : (N -> Z) * mut :=
  let s1 := fold_left collect_inc (fst m) {| ac := c; aA := []; aD := [] |} in
  let s2 := fold_left collect_dec (snd m) s1 in
  (ac s2, (aA s2, aD s2)).
Definition arith_sub (c : N -> Z) (m : mut) : (N -> Z) * mut :=
  let s1 := fold_left collect_dec (fst m) {| ac := c; aA := []; aD := [] |} in
  let s2 := fold_left collect_inc (snd m) s1 in
  (ac s2, (aA s2, aD s2)).

(* ------------------------------------------------------------------------------------------------ *)
(* (1) DerivedVariable1..4 (variable.go:116-187), InheritFrom (variable_impl.go:82-86)               *)
(* ------------------------------------------------------------------------------------------------ *)
Module DV.
Open Scope Z_scope.

Inductive fn := FSum | FMax | FLin | FParity | FFirst | FAcc.

Definition sumZ (l : list Z) : Z := fold_right Z.add 0 l.
Definition apply_fn (f : fn) (cur : Z) (xs : list Z) : Z :=
  match f with
  | FSum => sumZ xs
  | FMax => fold_right Z.max 0 xs
  | FLin => fold_left (fun acc x => 3 * acc + x) xs 0
  | FParity => (sumZ xs) mod 2
  | FFirst => hd 0 xs
  | FAcc => cur + sumZ xs            (* depends on the current value: outside the convergence theorem *)
  end.
Definition pure_fn (f : fn) : bool := match f with FAcc => false | _ => true end.

(* inputs x_0..x_{n-1} -> derived variable d -> variable t with t.InheritFrom(d) *)
Record st := mk { f : fn; ins : list Z; d : Z; dsub : bool; t : Z; tsub : nat;
                  ddirty : bool;   (* ghost: d was written directly (it is a Variable) *)
                  tdirty : bool }. (* ghost: t was written directly since the last InheritFrom *)

Inductive op :=
| OSetIn (i : nat) (v : Z)   (* inputs[i].Set(v) *)
| OUnsub                     (* d.Unsubscribe() (sync.Once) *)
| OSetD (v : Z)              (* d.Set(v): direct write to the derived variable *)
| OInherit                   (* t.InheritFrom(d) *)
| OUnInherit                 (* call the most recent unsubscribe function of t *)
| OSetT (v : Z).

Fixpoint set_nth (i : nat) (v : Z) (l : list Z) : list Z :=
  match l, i with
  | [], _ => []
  | _ :: r, O => v :: r
  | x :: r, S j => x :: set_nth j v r
  end.

(* d.Compute(new): callbacks (t's inheritance) only when the value changes *)
Definition set_d (s : st) (v : Z) : st :=
  if v =? d s then s
  else mk (f s) (ins s) v (dsub s) (if (0 <? Z.of_nat (tsub s)) then v else t s) (tsub s) (ddirty s) (tdirty s).

Fixpoint iter_re (n : nat) (f : fn) (cur : Z) (xs : list Z) : Z :=
  match n with O => cur | S k => iter_re k f (apply_fn f cur xs) xs end.

(* NewDerivedVariableN(compute, inputs..., initial): Init(initial), then one OnUpdate(…, true) per input, each
   of which recomputes immediately *)
Definition init (f : fn) (xs : list Z) (i : Z) : st :=
  mk f xs (iter_re (length xs) f i xs) true 0 0 false false.

Definition step (s : st) (o : op) : st :=
  match o with
  | OSetIn i v =>
      match nth_error (ins s) i with
      | None => s
      | Some old =>
          if v =? old then s
          else let s1 := mk (f s) (set_nth i v (ins s)) (d s) (dsub s) (t s) (tsub s) (ddirty s) (tdirty s) in
               if dsub s then set_d s1 (apply_fn (f s) (d s1) (ins s1)) else s1
      end
  | OUnsub => mk (f s) (ins s) (d s) false (t s) (tsub s) (ddirty s) (tdirty s)
  | OSetD v => let s1 := set_d s v in mk (f s1) (ins s1) (d s1) (dsub s1) (t s1) (tsub s1) true (tdirty s1)
  | OInherit => mk (f s) (ins s) (d s) (dsub s) (d s) (S (tsub s)) (ddirty s) false
  | OUnInherit => mk (f s) (ins s) (d s) (dsub s) (t s) (pred (tsub s)) (ddirty s) (tdirty s)
  | OSetT v => mk (f s) (ins s) (d s) (dsub s) v (tsub s) (ddirty s) true
  end.

Definition run (s : st) (h : list op) : st := fold_left step h s.
Definition obs (s : st) : Z * Z := (d s, t s).
Fixpoint trace (s : st) (h : list op) : list (Z * Z) :=
  match h with [] => [] | o :: r => let s' := step s o in obs s' :: trace s' r end.
End DV.

(* ------------------------------------------------------------------------------------------------ *)
(* (2) DerivedSet.InheritFrom (set_impl.go:283-331) and SubtractReactive (set_impl.go:204-224)        *)
(* ------------------------------------------------------------------------------------------------ *)
Module SN.

Record sub := mksub { src : nat; shadow : list N; active : bool; unsubs : nat }.
Record rsub := mkr { rsrc : nat; roth : list nat; rcnt : N -> Z; rval : list N }.
Record st := mk { bases : list (list N);        (* the base reactive sets *)
                  dval : list N; dcnt : N -> Z; subs : list sub;   (* the DerivedSet *)
                  rs : option rsub;             (* result of bases[rsrc].SubtractReactive(bases[roth]...) *)
                  ddirty : bool }.              (* ghost: the derived set was written directly *)

Inductive op :=
| OBase (i : nat) (o : sop)        (* bases[i].<o> *)
| OInherit (i : nat)               (* d.InheritFrom(bases[i]) *)
| OUnsub (j : nat)                 (* call the unsubscribe function returned by the j-th InheritFrom *)
| ODirect (o : sop)                (* d.<o>: direct write to the derived set *)
| OMkSub (i : nat) (others : list nat).   (* r := bases[i].SubtractReactive(bases[others]...) (replaces r) *)

Definition init (bs : list (list N)) : st := mk bs [] (fun _ => 0%Z) [] None false.

(* derivedSet.inheritMutations + applyInheritedMutations *)
Definition inherit (c : N -> Z) (v : list N) (m : mut) : (N -> Z) * list N :=
  let '(c', im) := arith_add c m in (c', fst (set_apply v im)).

(* deliver the mutation m of base i to the subscriptions of the derived set, in registration order *)
Fixpoint deliver (i : nat) (m : mut) (ss : list sub) (c : N -> Z) (v : list N) : list sub * (N -> Z) * list N :=
  match ss with
  | [] => ([], c, v)
  | s :: r =>
      if Nat.eqb (src s) i && active s then
        let '(sh, ap) := set_apply (shadow s) m in
        let '(c1, v1) := inherit c v ap in
        let '(r', c2, v2) := deliver i m r c1 v1 in
        (mksub (src s) sh true (unsubs s) :: r', c2, v2)
      else let '(r', c2, v2) := deliver i m r c v in (s :: r', c2, v2)
  end.

(* SubtractReactive: the source callback adds, every occurrence of i among the others subtracts *)
Definition rapply (r : rsub) (cm : (N -> Z) * mut) : rsub :=
  mkr (rsrc r) (roth r) (fst cm) (fst (set_apply (rval r) (snd cm))).
Definition rdeliver (i : nat) (m : mut) (r : rsub) : rsub :=
  let r1 := if Nat.eqb (rsrc r) i then rapply r (arith_add (rcnt r) m) else r in
  fold_left (fun r o => if Nat.eqb o i then rapply r (arith_sub (rcnt r) m) else r) (roth r) r1.

Fixpoint set_nth {A} (i : nat) (v : A) (l : list A) : list A :=
  match l, i with
  | [], _ => []
  | _ :: r, O => v :: r
  | x :: r, S j => x :: set_nth j v r
  end.

Definition initial_mut (l : list N) : option mut := match l with [] => None | _ => Some (l, []) end.

Definition step (s : st) (o : op) : st :=
  match o with
  | OBase i bo =>
      match nth_error (bases s) i with
      | None => s
      | Some l =>
          let '(l', om) := rset_step l bo in
          let bs := set_nth i l' (bases s) in
          match om with
          | None => mk bs (dval s) (dcnt s) (subs s) (rs s) (ddirty s)
          | Some m =>
              let '(ss, c, v) := deliver i m (subs s) (dcnt s) (dval s) in
              mk bs v c ss (option_map (rdeliver i m) (rs s)) (ddirty s)
          end
      end
  | OInherit i =>
      match nth_error (bases s) i with
      | None => s
      | Some l =>
          (* OnUpdate without the initial-zero flag: the callback runs at once iff the source is non-empty *)
          match initial_mut l with
          | None => mk (bases s) (dval s) (dcnt s) (subs s ++ [mksub i [] true 0]) (rs s) (ddirty s)
          | Some m =>
              let '(sh, ap) := set_apply [] m in
              let '(c1, v1) := inherit (dcnt s) (dval s) ap in
              mk (bases s) v1 c1 (subs s ++ [mksub i sh true 0]) (rs s) (ddirty s)
          end
      end
  | OUnsub j =>
      match nth_error (subs s) j with
      | None => s
      | Some sb =>
          (* lo.Batch(unsubscribeFromSource, removeSourceElements): the second closure subtracts the shadow set
             again on every call (it is not cleared) *)
          let '(c1, v1) := inherit (dcnt s) (dval s) ([], shadow sb) in
          mk (bases s) v1 c1 (set_nth j (mksub (src sb) (shadow sb) false (S (unsubs sb))) (subs s)) (rs s) (ddirty s)
      end
  | ODirect bo =>
      let '(l', _) := rset_step (dval s) bo in mk (bases s) l' (dcnt s) (subs s) (rs s) true
  | OMkSub i others =>
      match nth_error (bases s) i with
      | None => s
      | Some l =>
          let r0 := mkr i [] (fun _ => 0%Z) [] in
          let r1 := match initial_mut l with None => r0 | Some m => rapply r0 (arith_add (rcnt r0) m) end in
          let r2 := fold_left (fun r o =>
                       match nth_error (bases s) o with
                       | None => r
                       | Some lo =>
                           let r' := mkr (rsrc r) (roth r ++ [o]) (rcnt r) (rval r) in
                           match initial_mut lo with None => r' | Some m => rapply r' (arith_sub (rcnt r') m) end
                       end) others r1 in
          mk (bases s) (dval s) (dcnt s) (subs s) (Some r2) (ddirty s)
      end
  end.

Definition run (s : st) (h : list op) : st := fold_left step h s.
Definition obs (s : st) : list (list N) * list N * option (list N) := (bases s, dval s, option_map rval (rs s)).
Fixpoint trace (s : st) (h : list op) :=
  match h with [] => [] | o :: r => let s' := step s o in obs s' :: trace s' r end.
End SN.

(* ------------------------------------------------------------------------------------------------ *)
(* (3) Counter.Monitor (counter_impl.go:27-45)                                                        *)
(* ------------------------------------------------------------------------------------------------ *)
Module CT.
Open Scope Z_scope.
Inductive cond := CNonZero | CPos | CEven.
Definition holds (c : cond) (v : Z) : bool :=
  match c with CNonZero => negb (v =? 0) | CPos => 0 <? v | CEven => Z.even v end.

Record mon := mkmon { inp : nat; was : bool; act : bool }.
Record st := mk { cnd : cond; ins : list Z; mons : list mon; cnt : Z; dirty : bool }.

Inductive op :=
| OSetIn (i : nat) (v : Z) | OMonitor (i : nat) | OUnmon (j : nat) | OSetC (v : Z).

Definition init (c : cond) (xs : list Z) : st := mk c xs [] 0 false.

(* the callback of one monitor on a new input value *)
Definition fire (c : cond) (m : mon) (v : Z) (k : Z) : mon * Z :=
  let now := holds c v in
  if Bool.eqb now (was m) then (m, k)
  else (mkmon (inp m) now (act m), if now then k + 1 else k - 1).

Fixpoint fire_all (c : cond) (i : nat) (v : Z) (ms : list mon) (k : Z) : list mon * Z :=
  match ms with
  | [] => ([], k)
  | m :: r =>
      if Nat.eqb (inp m) i && act m then
        let '(m', k1) := fire c m v k in
        let '(r', k2) := fire_all c i v r k1 in (m' :: r', k2)
      else let '(r', k2) := fire_all c i v r k in (m :: r', k2)
  end.

Fixpoint set_nthm (j : nat) (m : mon) (l : list mon) : list mon :=
  match l, j with
  | [], _ => []
  | _ :: r, O => m :: r
  | x :: r, S k => x :: set_nthm k m r
  end.

Definition step (s : st) (o : op) : st :=
  match o with
  | OSetIn i v =>
      match nth_error (ins s) i with
      | None => s
      | Some old =>
          if v =? old then s
          else let '(ms, k) := fire_all (cnd s) i v (mons s) (cnt s) in
               mk (cnd s) (DV.set_nth i v (ins s)) ms k (dirty s)
      end
  | OMonitor i =>
      match nth_error (ins s) i with
      | None => s
      | Some v => let '(m, k) := fire (cnd s) (mkmon i false true) v (cnt s) in
                  mk (cnd s) (ins s) (mons s ++ [m]) k (dirty s)
      end
  | OUnmon j =>
      match nth_error (mons s) j with
      | None => s
      | Some m => mk (cnd s) (ins s) (set_nthm j (mkmon (inp m) (was m) false) (mons s)) (cnt s) (dirty s)
      end
  | OSetC v => mk (cnd s) (ins s) (mons s) v true
  end.

Definition run (s : st) (h : list op) : st := fold_left step h s.
Fixpoint trace (s : st) (h : list op) : list Z :=
  match h with [] => [] | o :: r => let s' := step s o in cnt s' :: trace s' r end.

(* the defining function *)
Definition spec_count (c : cond) (xs : list Z) (ms : list mon) : Z :=
  Z.of_nat (length (filter (fun m => if act m then holds c (nth (inp m) xs 0) else was m) ms)).
End CT.

(* ------------------------------------------------------------------------------------------------ *)
(* (4) SortedSet (sorted_set_impl.go)                                                                 *)
(* ------------------------------------------------------------------------------------------------ *)
Module SS.
Open Scope Z_scope.

(* one *sortedSetElement; the slice sortedElements is the list of these records, the map `elements` is the
   lookup by el in that list (a record is in the map iff it is in the slice) *)
Record rec := mkrec { el : N; w : Z; idx : nat }.

Record st := mk { tb : bool;              (* ElementType has a Less method (tie-break by element) *)
                  base : list N;          (* the embedded reactive Set *)
                  wv : N -> Z;            (* the weight variables weightVariable(e) *)
                  sorted : list rec;      (* sortedElements: heaviest first *)
                  hv : N; lv : N }.       (* heaviestElement / lightestElement (0 = zero value) *)

(* swap's condition: left.weight < right.weight, or equal and left.element.Less(right.element) *)
Definition lt (tb : bool) (l r : rec) : bool :=
  (w l <? w r) || ((w l =? w r) && tb && (el l <? el r)%N).

Fixpoint find (e : N) (l : list rec) : option rec :=
  match l with [] => None | r :: t => if (el r =? e)%N then Some r else find e t end.

Fixpoint set_at (i : nat) (x : rec) (l : list rec) : list rec :=
  match l, i with
  | [], _ => []
  | _ :: r, O => x :: r
  | y :: r, S j => y :: set_at j x r
  end.

(* swap(left, right) when the condition holds: the slice entries at left.index and right.index are exchanged
   and the two index fields are exchanged *)
Definition do_swap (l : list rec) (a b : rec) : list rec :=
  set_at (idx b) (mkrec (el a) (w a) (idx b)) (set_at (idx a) (mkrec (el b) (w b) (idx a)) l).

(* first loop of updatePosition: for ; element.index != 0; moved = true { if !swap(sorted[index-1], element) break } *)
Fixpoint bubble_left (fuel : nat) (tb : bool) (l : list rec) (e : N) (moved : bool) : list rec * bool :=
  match fuel with
  | O => (l, moved)
  | S k =>
      match find e l with
      | None => (l, moved)
      | Some x =>
          match idx x with
          | O => (l, moved)
          | S j =>
              match nth_error l j with
              | None => (l, moved)
              | Some a => if lt tb a x then bubble_left k tb (do_swap l a x) e true else (l, moved)
              end
          end
      end
  end.

(* second loop: for ; element.index != len-1; moved = true { if !swap(element, sorted[index+1]) break } *)
Fixpoint bubble_right (fuel : nat) (tb : bool) (l : list rec) (e : N) (moved : bool) : list rec * bool :=
  match fuel with
  | O => (l, moved)
  | S k =>
      match find e l with
      | None => (l, moved)
      | Some x =>
          if Nat.eqb (S (idx x)) (length l) then (l, moved)
          else match nth_error l (S (idx x)) with
               | None => (l, moved)
               | Some b => if lt tb x b then bubble_right k tb (do_swap l x b) e true else (l, moved)
               end
      end
  end.

Definition el_at (l : list rec) (i : nat) : N := match nth_error l i with Some r => el r | None => 0%N end.

(* updatePosition(element) including the deferred heaviest/lightest update *)
Definition update_position (s : st) (e : N) : st :=
  match find e (sorted s) with
  | None => s
  | Some x0 =>
      let from := idx x0 in
      let n := length (sorted s) in
      let '(l1, m1) := bubble_left n (tb s) (sorted s) e false in
      let '(l2, moved) := if m1 then (l1, m1) else bubble_right n (tb s) l1 e false in
      let now := match find e l2 with Some x => idx x | None => from end in
      let h := if moved && Nat.eqb from 0 then el_at l2 0
               else if Nat.eqb now 0 then e else hv s in
      let lg := if moved && Nat.eqb (S from) (length l2) then el_at l2 (length l2 - 1)
                else if Nat.eqb (S now) (length l2) then e else lv s in
      mk (tb s) (base s) (wv s) l2 h lg
  end.

Fixpoint set_weight (e : N) (v : Z) (l : list rec) : list rec :=
  match l with
  | [] => []
  | r :: t => if (el r =? e)%N then mkrec (el r) v (idx r) :: t else r :: set_weight e v t
  end.

(* the weight callback: listElement.weight = newWeight; updatePosition(listElement) *)
Definition on_weight (s : st) (e : N) (v : Z) : st :=
  update_position (mk (tb s) (base s) (wv s) (set_weight e v (sorted s)) (hv s) (lv s)) e.

(* addSorted: GetOrCreate appends a zero-weight record at the end, then OnUpdate(…, true) fires at once *)
Definition add_sorted (s : st) (e : N) : st :=
  match find e (sorted s) with
  | Some _ => s
  | None =>
      let s1 := mk (tb s) (base s) (wv s) (sorted s ++ [mkrec e 0 (length (sorted s))]) (hv s) (lv s) in
      on_weight s1 e (wv s e)
  end.

Definition dec_idx (r : rec) : rec := mkrec (el r) (w r) (pred (idx r)).

(* deleteSorted *)
Definition delete_sorted (s : st) (e : N) : st :=
  match find e (sorted s) with
  | None => s
  | Some x =>
      let di := idx x in
      let l := firstn di (sorted s) ++ map dec_idx (skipn (S di) (sorted s)) in
      let h := if Nat.eqb di 0 then el_at l 0 else hv s in
      let lg := if Nat.eqb di (length l) then el_at l (length l - 1) else lv s in
      mk (tb s) (base s) (wv s) l h lg
  end.

Inductive op :=
| OSet (o : sop)             (* s.<o> on the embedded Set *)
| OWeight (e : N) (v : Z).   (* weightVariable(e).Set(v) *)

Definition init (tb : bool) : st := mk tb [] (fun _ => 0) [] 0%N 0%N.

Definition step (s : st) (o : op) : st :=
  match o with
  | OSet bo =>
      let '(l', om) := rset_step (base s) bo in
      let s1 := mk (tb s) l' (wv s) (sorted s) (hv s) (lv s) in
      match om with
      | None => s1
      | Some m => fold_left delete_sorted (snd m) (fold_left add_sorted (fst m) s1)
      end
  | OWeight e v =>
      let s1 := mk (tb s) (base s) (cupd (wv s) e v) (sorted s) (hv s) (lv s) in
      if v =? wv s e then s
      else match find e (sorted s) with
           | None => s1
           | Some _ => on_weight s1 e v
           end
  end.

Definition run (s : st) (h : list op) : st := fold_left step h s.
Definition obs (s : st) : list N * list N * N * N := (base s, map el (sorted s), hv s, lv s).
Fixpoint trace (s : st) (h : list op) :=
  match h with [] => [] | o :: r => let s' := step s o in obs s' :: trace s' r end.
End SS.

(* ------------------------------------------------------------------------------------------------ *)
(* (6) EvictionState (eviction_state_impl.go)                                                         *)
(* ------------------------------------------------------------------------------------------------ *)
Module EV.
Open Scope N_scope.

(* events are numbered in creation order; handle None = the package-level pre-triggered evictedSlotEvent;
   evs = the map evictionEvents (slot -> event), tr = the events that were triggered *)
Record st := mk { last : option N; evs : list (N * nat); nev : nat; tr : list nat; handles : list (N * option nat) }.

Inductive op := OEvent (slot : N) | OEvict (slot : N).

Definition init : st := mk None [] 0 [] [].

Fixpoint lookup (slot : N) (m : list (N * nat)) : option nat :=
  match m with [] => None | (k, v) :: r => if k =? slot then Some v else lookup slot r end.

Definition after_last (l : option N) (slot : N) : bool :=
  match l with None => true | Some x => x <? slot end.

Definition in_range (start slot : N) (kv : N * nat) : bool := (start <=? fst kv) && (fst kv <=? slot).

Definition step (s : st) (o : op) : st :=
  match o with
  | OEvent slot =>
      if after_last (last s) slot then
        match lookup slot (evs s) with
        | Some id => mk (last s) (evs s) (nev s) (tr s) (handles s ++ [(slot, Some id)])
        | None => mk (last s) (evs s ++ [(slot, nev s)]) (S (nev s)) (tr s) (handles s ++ [(slot, Some (nev s))])
        end
      else mk (last s) (evs s) (nev s) (tr s) (handles s ++ [(slot, None)])
  | OEvict slot =>
      if after_last (last s) slot then
        (* for i := lastEvicted+1 (or 0); i <= slot; i++: trigger and delete the stored event of slot i *)
        let start := match last s with None => 0 | Some x => x + 1 end in
        mk (Some slot) (filter (fun kv => negb (in_range start slot kv)) (evs s)) (nev s)
           (map snd (filter (in_range start slot) (evs s)) ++ tr s) (handles s)
      else s
  end.

Definition triggered (s : st) (h : option nat) : bool :=
  match h with None => true | Some id => existsb (Nat.eqb id) (tr s) end.

Definition run (s : st) (h : list op) : st := fold_left step h s.
Definition obs (s : st) : N * list bool :=
  (match last s with None => 0 | Some x => x end, map (fun h => triggered s (snd h)) (handles s)).
Fixpoint trace (s : st) (h : list op) :=
  match h with [] => [] | o :: r => let s' := step s o in obs s' :: trace s' r end.
End EV.

(* ------------------------------------------------------------------------------------------------ *)
(* (5) WaitGroup, sequential calls (wait_group_impl.go:38-57)                                         *)
(* ------------------------------------------------------------------------------------------------ *)
Module WG.
Open Scope Z_scope.
Record st := mk { pending : list N; counter : Z; trig : bool }.
Inductive op := OAdd (es : list N) | ODone (es : list N).
Definition init : st := mk [] 0 false.

(* Add: the counter is raised by len(elements) first, then corrected for every element already pending;
   after the repair of D14c the correction triggers when it brings the counter to 0 *)
Definition add1 (s : st) (e : N) : st :=
  if mem e (pending s) then
    let c := counter s - 1 in mk (pending s) c (trig s || (c =? 0))
  else mk (pending s ++ [e]) (counter s) (trig s).
Definition done1 (s : st) (e : N) : st :=
  if mem e (pending s) then
    let c := counter s - 1 in mk (sdel e (pending s)) c (trig s || (c =? 0))
  else s.
Definition step (s : st) (o : op) : st :=
  match o with
  | OAdd es => fold_left add1 es (mk (pending s) (counter s + Z.of_nat (length es)) (trig s))
  | ODone es => fold_left done1 es s
  end.
Definition run (s : st) (h : list op) : st := fold_left step h s.
Definition obs (s : st) : list N * bool := (pending s, trig s).
Fixpoint trace (s : st) (h : list op) :=
  match h with [] => [] | o :: r => let s' := step s o in obs s' :: trace s' r end.
End WG.

(* ------------------------------------------------------------------------------------------------ *)
(* (5') WaitGroup under interleaving: every access to the atomic counter / the pending set is one step *)
(* ------------------------------------------------------------------------------------------------ *)
Module WGI.
Open Scope Z_scope.

Inductive call := CAdd (es : list N) | CDone (es : list N).
(* a call in progress: the elements still to process and whether the counter decrement is still owed *)
Inductive cur := Idle | InAdd (es : list N) (corr : bool) | InDone (es : list N) (dec : bool).
Record thread := mkt { now : cur; rest : list call }.

Record st := mk { pending : list N; counter : Z; trig : bool; threads : list thread;
                  ever : bool;        (* ghost: an element was inserted at some time *)
                  emptied : bool }.   (* ghost: a Done removed the last pending element at some time *)

Definition init (progs : list (list call)) : st :=
  mk [] 0 false (map (fun p => mkt Idle p) progs) false false.

Fixpoint set_thread (i : nat) (t : thread) (l : list thread) : list thread :=
  match l, i with
  | [], _ => []
  | _ :: r, O => t :: r
  | x :: r, S j => x :: set_thread j t r
  end.

(* `fixed` = the code after commit 2702b2b (the correction in Add triggers when it reaches 0) *)
Definition step (fixed : bool) (s : st) (i : nat) : st :=
  match nth_error (threads s) i with
  | None => s
  | Some t =>
      let upd p c tr t' ev em := mk p c tr (set_thread i t' (threads s)) ev em in
      match now t with
      | InAdd es true =>                      (* w.pendingElementsCounter.Add(-1) in Add *)
          let c := counter s - 1 in
          upd (pending s) c (trig s || (fixed && (c =? 0))) (mkt (InAdd es false) (rest t)) (ever s) (emptied s)
      | InDone es true =>                     (* w.pendingElementsCounter.Add(-1) == 0 -> Trigger in Done *)
          let c := counter s - 1 in
          upd (pending s) c (trig s || (c =? 0)) (mkt (InDone es false) (rest t)) (ever s) (emptied s)
      | InAdd (e :: es) false =>              (* w.pendingElements.Add(e) *)
          if mem e (pending s)
          then upd (pending s) (counter s) (trig s) (mkt (InAdd es true) (rest t)) (ever s) (emptied s)
          else upd (pending s ++ [e]) (counter s) (trig s) (mkt (InAdd es false) (rest t)) true (emptied s)
      | InDone (e :: es) false =>             (* w.pendingElements.Delete(e) *)
          if mem e (pending s)
          then let p := sdel e (pending s) in
               upd p (counter s) (trig s) (mkt (InDone es true) (rest t)) (ever s)
                   (emptied s || match p with [] => true | _ => false end)
          else upd (pending s) (counter s) (trig s) (mkt (InDone es false) (rest t)) (ever s) (emptied s)
      | _ =>                                  (* the call returned (or none started): start the next one *)
          match rest t with
          | [] => upd (pending s) (counter s) (trig s) (mkt Idle []) (ever s) (emptied s)
          | CAdd es :: r =>                   (* w.pendingElementsCounter.Add(len(elements)) *)
              upd (pending s) (counter s + Z.of_nat (length es)) (trig s) (mkt (InAdd es false) r) (ever s) (emptied s)
          | CDone es :: r => upd (pending s) (counter s) (trig s) (mkt (InDone es false) r) (ever s) (emptied s)
          end
      end
  end.

Definition run (fixed : bool) (s : st) (sched : list nat) : st := fold_left (step fixed) sched s.

Definition finished (t : thread) : bool :=
  match now t, rest t with
  | Idle, [] | InAdd [] false, [] | InDone [] false, [] => true
  | _, _ => false
  end.
Definition quiescent (s : st) : bool := forallb finished (threads s).
End WGI.

(* ------------------------------------------------------------------------------------------------ *)
(* (7) lock skeletons: threads are sequences of Lock / Unlock on numbered mutexes                     *)
(* ------------------------------------------------------------------------------------------------ *)
Module LK.
Inductive act := Lk (l : nat) | Ul (l : nat).
Definition prog := list act.

(* a state is the vector of program counters; who holds a mutex follows from the executed prefixes *)
Definition holds_in (p : prog) (pc : nat) (l : nat) : bool :=
  let pre := firstn pc p in
  Nat.ltb (length (filter (fun a => match a with Ul x => Nat.eqb x l | _ => false end) pre))
          (length (filter (fun a => match a with Lk x => Nat.eqb x l | _ => false end) pre)).

Fixpoint held (ps : list prog) (pcs : list nat) (l : nat) : bool :=
  match ps, pcs with
  | p :: pr, c :: cr => holds_in p c l || held pr cr l
  | _, _ => false
  end.

Fixpoint set_pc (i : nat) (v : nat) (l : list nat) : list nat :=
  match l, i with
  | [], _ => []
  | _ :: r, O => v :: r
  | x :: r, S j => x :: set_pc j v r
  end.

(* can thread i take its next step? *)
Definition enabled (ps : list prog) (pcs : list nat) (i : nat) : bool :=
  match nth_error ps i, nth_error pcs i with
  | Some p, Some c =>
      match nth_error p c with
      | None => false
      | Some (Lk l) => negb (held ps pcs l)
      | Some (Ul _) => true
      end
  | _, _ => false
  end.
Definition step (ps : list prog) (pcs : list nat) (i : nat) : list nat :=
  if enabled ps pcs i then set_pc i (S (nth i pcs 0)) pcs else pcs.
Definition run (ps : list prog) (pcs : list nat) (sched : list nat) : list nat := fold_left (step ps) sched pcs.

Definition unfinished (ps : list prog) (pcs : list nat) (i : nat) : bool :=
  match nth_error ps i, nth_error pcs i with
  | Some p, Some c => Nat.ltb c (length p)
  | _, _ => false
  end.
(* deadlock: somebody is not done and nobody can move *)
Definition deadlocked (ps : list prog) (pcs : list nat) : bool :=
  let ids := seq 0 (length ps) in
  existsb (unfinished ps pcs) ids && negb (existsb (enabled ps pcs) ids).

(* mutexes: 0 = mutex of the embedded reactive Set, 1 = sortedSet.mutex, 2 = execution lock of the weight callback of
   element 1, 3 = update-order mutex of weight(1), 4 = update-order mutex of heaviestElement,
   5 = update-order mutex of weight(2), 6 = execution lock of the weight callback of element 2 *)
(* s.Delete(1) as pinned: deleteSorted unsubscribes (takes 2) while holding 1 *)
Definition delete_pinned : prog := [Lk 0; Lk 1; Lk 2; Ul 2; Lk 4; Ul 4; Ul 1; Ul 0].
(* s.Delete(1) after commit 3f79633: unsubscribes after releasing 1 *)
Definition delete_fixed : prog := [Lk 0; Lk 1; Lk 4; Ul 4; Ul 1; Lk 2; Ul 2; Ul 0].
(* weightVariable(1).Set(w): Compute takes 3, the callback's execution lock 2, the callback takes 1, updatePosition
   sets heaviestElement (4) *)
Definition weight1 : prog := [Lk 3; Lk 2; Lk 1; Lk 4; Ul 4; Ul 1; Ul 2; Ul 3].
Definition weight2 : prog := [Lk 5; Lk 6; Lk 1; Lk 4; Ul 4; Ul 1; Ul 6; Ul 5].
(* s.Add(3) : set mutex, sortedSet.mutex, initial weight callback under its own fresh execution lock (not shared) *)
Definition add3 : prog := [Lk 0; Lk 1; Lk 4; Ul 4; Ul 1; Ul 0].

Definition sys_pinned : list prog := [delete_pinned; weight1; weight2].
Definition sys_fixed : list prog := [delete_fixed; weight1; weight2].
Definition sys_fixed_add : list prog := [delete_fixed; weight1; add3].
End LK.
