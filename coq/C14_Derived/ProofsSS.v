(* C14 - SortedSet (Module SS of Model.v): the slice stays sorted by the current weights, holds exactly the
   elements of the embedded set, index fields = positions, heaviest/lightest variables = ends of the slice.
   All theorems are for every history (induction over the run); no guard on the history is needed. *)
From Coq Require Import ZArith NArith List Bool Lia Sorting Permutation.
From Verif.C14_Derived Require Import Model.
Import ListNotations.

Set Implicit Arguments.

(* ------------------------------------------------------------------------------------------------ *)
(* the order                                                                                          *)
(* ------------------------------------------------------------------------------------------------ *)
Definition elt (tb : bool) (wv : N -> Z) (a b : N) : bool :=
  (wv a <? wv b)%Z || ((wv a =? wv b)%Z && tb && (a <? b)%N).

(* (element, recorded weight) *)
Notation pr := (N * Z)%type.
Definition plt (tb : bool) (a b : pr) : bool :=
  (snd a <? snd b)%Z || ((snd a =? snd b)%Z && tb && (fst a <? fst b)%N).
Definition pge (tb : bool) (a b : pr) : Prop := plt tb a b = false.

Ltac plt_solve :=
  unfold plt in *;
  repeat match goal with
         | |- context [(?a <? ?b)%Z] => destruct (Z.ltb_spec a b)
         | H : context [(?a <? ?b)%Z] |- _ => destruct (Z.ltb_spec a b)
         | |- context [(?a =? ?b)%Z] => destruct (Z.eqb_spec a b)
         | H : context [(?a =? ?b)%Z] |- _ => destruct (Z.eqb_spec a b)
         | |- context [(?a <? ?b)%N] => destruct (N.ltb_spec a b)
         | H : context [(?a <? ?b)%N] |- _ => destruct (N.ltb_spec a b)
         end;
  cbn in *; try reflexivity; try discriminate; try lia.

Lemma plt_asym tb a b : plt tb a b = true -> plt tb b a = false.
Proof. destruct tb; plt_solve. Qed.
Lemma plt_trans tb a b c : plt tb a b = true -> plt tb b c = true -> plt tb a c = true.
Proof. destruct tb; plt_solve. Qed.
Lemma pge_trans tb a b c : pge tb a b -> pge tb b c -> pge tb a c.
Proof. unfold pge; destruct tb; plt_solve. Qed.
Lemma plt_pge_l tb a b c : plt tb a b = true -> pge tb a c -> pge tb b c.
Proof. unfold pge; destruct tb; plt_solve. Qed.

(* the same facts on elements, for any fixed assignment of weights (both tie-break modes) *)
Lemma elt_asym tb wv a b : elt tb wv a b = true -> elt tb wv b a = false.
Proof. apply (plt_asym tb (a, wv a) (b, wv b)). Qed.
Lemma elt_trans tb wv a b c : elt tb wv a b = true -> elt tb wv b c = true -> elt tb wv a c = true.
Proof. apply (plt_trans tb (a, wv a) (b, wv b) (c, wv c)). Qed.
Lemma elt_ge_trans tb wv a b c :
  elt tb wv a b = false -> elt tb wv b c = false -> elt tb wv a c = false.
Proof. apply (@pge_trans tb (a, wv a) (b, wv b) (c, wv c)). Qed.
Lemma elt_ge_total tb wv a b : elt tb wv a b = false \/ elt tb wv b a = false.
Proof. destruct (elt tb wv a b) eqn:E; [right; eapply elt_asym; eauto | now left]. Qed.

(* ------------------------------------------------------------------------------------------------ *)
(* StronglySorted over appends                                                                        *)
(* ------------------------------------------------------------------------------------------------ *)
Section SSorted.
Variable A : Type.
Variable P : A -> A -> Prop.

Lemma ssorted_app (l1 l2 : list A) :
  StronglySorted P (l1 ++ l2) <->
  StronglySorted P l1 /\ StronglySorted P l2 /\ (forall a b, In a l1 -> In b l2 -> P a b).
Proof.
  induction l1 as [|x l1 IH]; cbn.
  - split; [intros H; repeat split; [constructor | assumption | contradiction] | tauto].
  - split.
    + intros H; inversion H as [|? ? Hs Hf]; subst. apply IH in Hs as (H1 & H2 & H3).
      rewrite Forall_app in Hf. destruct Hf as [Hf1 Hf2].
      repeat split; [constructor; assumption | assumption |].
      intros a b [->|Ha] Hb; [rewrite Forall_forall in Hf2; auto | auto].
    + intros (H1 & H2 & H3). inversion H1; subst. constructor.
      * apply IH; repeat split; auto.
      * rewrite Forall_app; split; [assumption | rewrite Forall_forall; auto].
Qed.

Lemma ssorted_mid (l1 l2 : list A) (x : A) :
  StronglySorted P (l1 ++ x :: l2) <->
  StronglySorted P (l1 ++ l2) /\ (forall a, In a l1 -> P a x) /\ (forall b, In b l2 -> P x b).
Proof.
  rewrite !ssorted_app. split.
  - intros (H1 & H2 & H3). inversion H2 as [|? ? Hs Hf]; subst. rewrite Forall_forall in Hf.
    repeat split; auto; intros; apply H3; cbn; auto.
  - intros ((H1 & H2 & H3) & H4 & H5). repeat split; auto.
    + constructor; [assumption | rewrite Forall_forall; assumption].
    + intros a b Ha [<-|Hb]; auto.
Qed.
End SSorted.

(* ------------------------------------------------------------------------------------------------ *)
(* hd / last helpers                                                                                  *)
(* ------------------------------------------------------------------------------------------------ *)
Definition hdE (ps : list pr) : N := hd 0%N (map fst ps).
Definition lastE (ps : list pr) : N := last (map fst ps) 0%N.

Lemma last_app_cons (A : Type) (l : list A) (x : A) (m : list A) (d : A) :
  last (l ++ x :: m) d = last (x :: m) d.
Proof.
  induction l as [|a l IH]; [reflexivity|].
  rewrite <- IH. cbn [app].
  destruct (l ++ x :: m) eqn:E; [destruct l; discriminate | reflexivity].
Qed.

Lemma lastE_app_cons A x B : lastE (A ++ x :: B) = lastE (x :: B).
Proof. unfold lastE. rewrite map_app. cbn [map]. apply last_app_cons. Qed.
Lemma lastE_snoc A x : lastE (A ++ [x]) = fst x.
Proof. rewrite lastE_app_cons. reflexivity. Qed.
Lemma lastE_cons_cons a b B : lastE (a :: b :: B) = lastE (b :: B).
Proof. reflexivity. Qed.
Lemma hdE_app_cons a A B : hdE ((a :: A) ++ B) = fst a.
Proof. reflexivity. Qed.

(* ------------------------------------------------------------------------------------------------ *)
(* records with index fields = positions                                                              *)
(* ------------------------------------------------------------------------------------------------ *)
Fixpoint mkl (k : nat) (ps : list pr) : list SS.rec :=
  match ps with [] => [] | p :: t => SS.mkrec (fst p) (snd p) k :: mkl (S k) t end.

Lemma mkl_app k A B : mkl k (A ++ B) = mkl k A ++ mkl (k + length A) B.
Proof.
  revert k; induction A as [|a A IH]; intros k; cbn.
  - now rewrite Nat.add_0_r.
  - rewrite IH. now rewrite Nat.add_succ_r.
Qed.
Lemma mkl_length k ps : length (mkl k ps) = length ps.
Proof. revert k; induction ps; intros; cbn; auto. Qed.
Lemma map_el_mkl k ps : map SS.el (mkl k ps) = map fst ps.
Proof. revert k; induction ps; intros; cbn; f_equal; auto. Qed.

Lemma find_mkl_notin e k ps : ~ In e (map fst ps) -> SS.find e (mkl k ps) = None.
Proof.
  revert k; induction ps as [|p ps IH]; intros k H; cbn; [reflexivity|].
  destruct (N.eqb_spec (fst p) e) as [E|E]; [exfalso; apply H; cbn; auto|].
  apply IH. intros C; apply H; cbn; auto.
Qed.
Lemma find_mkl_in_k k L x R :
  ~ In (fst x) (map fst L) ->
  SS.find (fst x) (mkl k (L ++ x :: R)) = Some (SS.mkrec (fst x) (snd x) (k + length L)).
Proof.
  revert k; induction L as [|a L IH]; intros k H; cbn.
  - rewrite N.eqb_refl, Nat.add_0_r. reflexivity.
  - destruct (N.eqb_spec (fst a) (fst x)) as [E|E]; [exfalso; apply H; cbn; auto|].
    rewrite IH, Nat.add_succ_r; [reflexivity|]. intros C; apply H; cbn; auto.
Qed.
Lemma find_mkl_in L x R :
  ~ In (fst x) (map fst L) ->
  SS.find (fst x) (mkl 0 (L ++ x :: R)) = Some (SS.mkrec (fst x) (snd x) (length L)).
Proof. apply find_mkl_in_k. Qed.
Lemma find_mkl_some e k ps r : SS.find e (mkl k ps) = Some r -> In e (map fst ps).
Proof.
  revert k; induction ps as [|p ps IH]; intros k; cbn; [discriminate|].
  destruct (N.eqb_spec (fst p) e); [auto | intros H; right; eauto].
Qed.

Lemma nth_error_mkl_k k L x R :
  nth_error (mkl k (L ++ x :: R)) (length L) = Some (SS.mkrec (fst x) (snd x) (k + length L)).
Proof.
  revert k; induction L as [|a L IH]; intros k; cbn.
  - now rewrite Nat.add_0_r.
  - rewrite IH, Nat.add_succ_r. reflexivity.
Qed.
Lemma nth_error_mkl L x R :
  nth_error (mkl 0 (L ++ x :: R)) (length L) = Some (SS.mkrec (fst x) (snd x) (length L)).
Proof. apply nth_error_mkl_k. Qed.

Lemma set_at_app (A : list SS.rec) y z B : SS.set_at (length A) y (A ++ z :: B) = A ++ y :: B.
Proof. induction A as [|a A IH]; cbn; [reflexivity | now rewrite IH]. Qed.

Lemma set_at_app' (A : list SS.rec) n y z B :
  n = length A -> SS.set_at n y (A ++ z :: B) = A ++ y :: B.
Proof. intros ->; apply set_at_app. Qed.

Lemma do_swap_mkl L a x R :
  SS.do_swap (mkl 0 (L ++ a :: x :: R))
             (SS.mkrec (fst a) (snd a) (length L)) (SS.mkrec (fst x) (snd x) (S (length L)))
  = mkl 0 (L ++ x :: a :: R).
Proof.
  unfold SS.do_swap. cbn [SS.idx SS.el SS.w].
  rewrite !mkl_app. cbn [mkl Nat.add].
  rewrite set_at_app' by (now rewrite mkl_length).
  change (mkl 0 L ++ ?p :: ?q :: ?r) with (mkl 0 L ++ [p] ++ q :: r).
  rewrite app_assoc.
  rewrite set_at_app' by (rewrite app_length, mkl_length; cbn; lia).
  rewrite <- app_assoc. reflexivity.
Qed.

Lemma lt_mk tb a i x j :
  SS.lt tb (SS.mkrec (fst a) (snd a) i) (SS.mkrec (fst x) (snd x) j) = plt tb a x.
Proof. reflexivity. Qed.

(* ------------------------------------------------------------------------------------------------ *)
(* the two loops of updatePosition, one iteration at a time                                           *)
(* ------------------------------------------------------------------------------------------------ *)
Lemma bubble_left_stop0 k tb x R moved :
  SS.bubble_left (S k) tb (mkl 0 (x :: R)) (fst x) moved = (mkl 0 (x :: R), moved).
Proof. cbn. rewrite N.eqb_refl. reflexivity. Qed.

Lemma bubble_left_step k tb P a x R moved :
  ~ In (fst x) (map fst (P ++ [a])) -> plt tb a x = true ->
  SS.bubble_left (S k) tb (mkl 0 (P ++ a :: x :: R)) (fst x) moved
  = SS.bubble_left k tb (mkl 0 (P ++ x :: a :: R)) (fst x) true.
Proof.
  intros Hn Hlt. cbn [SS.bubble_left].
  replace (P ++ a :: x :: R) with ((P ++ [a]) ++ x :: R) at 1 by (now rewrite <- app_assoc).
  rewrite find_mkl_in by assumption. cbn [SS.idx].
  rewrite app_length, Nat.add_1_r.
  rewrite nth_error_mkl, lt_mk, Hlt, do_swap_mkl. reflexivity.
Qed.

Lemma bubble_left_stop k tb P a x R moved :
  ~ In (fst x) (map fst (P ++ [a])) -> plt tb a x = false ->
  SS.bubble_left (S k) tb (mkl 0 (P ++ a :: x :: R)) (fst x) moved = (mkl 0 (P ++ a :: x :: R), moved).
Proof.
  intros Hn Hlt. cbn [SS.bubble_left].
  replace (P ++ a :: x :: R) with ((P ++ [a]) ++ x :: R) at 1 by (now rewrite <- app_assoc).
  rewrite find_mkl_in by assumption. cbn [SS.idx].
  rewrite app_length, Nat.add_1_r.
  rewrite nth_error_mkl, lt_mk, Hlt. reflexivity.
Qed.

Lemma bubble_right_stop_end k tb P x moved :
  ~ In (fst x) (map fst P) ->
  SS.bubble_right (S k) tb (mkl 0 (P ++ [x])) (fst x) moved = (mkl 0 (P ++ [x]), moved).
Proof.
  intros Hn. cbn [SS.bubble_right]. rewrite find_mkl_in by assumption. cbn [SS.idx].
  rewrite mkl_length, app_length, Nat.add_1_r, Nat.eqb_refl. reflexivity.
Qed.

Lemma nth_error_mkl_S P x b R :
  nth_error (mkl 0 (P ++ x :: b :: R)) (S (length P)) = Some (SS.mkrec (fst b) (snd b) (S (length P))).
Proof.
  replace (P ++ x :: b :: R) with ((P ++ [x]) ++ b :: R) by (now rewrite <- app_assoc).
  replace (S (length P)) with (length (P ++ [x])) by (rewrite app_length; cbn; lia).
  apply nth_error_mkl.
Qed.

Lemma bubble_right_step k tb P x b R moved :
  ~ In (fst x) (map fst P) -> plt tb x b = true ->
  SS.bubble_right (S k) tb (mkl 0 (P ++ x :: b :: R)) (fst x) moved
  = SS.bubble_right k tb (mkl 0 (P ++ b :: x :: R)) (fst x) true.
Proof.
  intros Hn Hlt. cbn [SS.bubble_right]. rewrite find_mkl_in by assumption. cbn [SS.idx].
  rewrite (proj2 (Nat.eqb_neq _ _)) by (rewrite mkl_length, app_length; cbn [length]; lia).
  rewrite nth_error_mkl_S, lt_mk, Hlt, do_swap_mkl. reflexivity.
Qed.

Lemma bubble_right_stop k tb P x b R moved :
  ~ In (fst x) (map fst P) -> plt tb x b = false ->
  SS.bubble_right (S k) tb (mkl 0 (P ++ x :: b :: R)) (fst x) moved = (mkl 0 (P ++ x :: b :: R), moved).
Proof.
  intros Hn Hlt. cbn [SS.bubble_right]. rewrite find_mkl_in by assumption. cbn [SS.idx].
  rewrite (proj2 (Nat.eqb_neq _ _)) by (rewrite mkl_length, app_length; cbn [length]; lia).
  rewrite nth_error_mkl_S, lt_mk, Hlt. reflexivity.
Qed.

Definition null (A : Type) (l : list A) : bool := match l with [] => true | _ => false end.

(* the whole first loop: x travels left over the maximal run L2 of entries that are lighter than x *)
Lemma bubble_left_mkl tb x L2 : forall L1 R moved fuel,
  ~ In (fst x) (map fst (L1 ++ L2)) ->
  Forall (fun a => plt tb a x = true) L2 ->
  (L1 = [] \/ exists L1' a, L1 = L1' ++ [a] /\ plt tb a x = false) ->
  length L2 < fuel ->
  SS.bubble_left fuel tb (mkl 0 (L1 ++ L2 ++ x :: R)) (fst x) moved
  = (mkl 0 (L1 ++ x :: L2 ++ R), moved || negb (null L2)).
Proof.
  induction L2 as [|a L2 IH] using rev_ind; intros L1 R moved fuel Hn Hall Hstop Hfuel.
  - destruct fuel as [|k]; [cbn in Hfuel; lia|]. cbn [app null negb]. rewrite orb_false_r.
    destruct Hstop as [->|(L1' & a & -> & Ha)].
    + apply bubble_left_stop0.
    + rewrite <- !app_assoc. cbn [app]. apply bubble_left_stop; [|assumption].
      now rewrite app_nil_r in Hn.
  - destruct fuel as [|k]; [cbn in Hfuel; lia|].
    rewrite app_length in Hfuel. cbn in Hfuel.
    apply Forall_app in Hall as [Hall Ha]. inversion Ha as [|? ? Hax _]; subst.
    rewrite <- app_assoc. cbn [app]. rewrite app_assoc.
    rewrite bubble_left_step; [| now rewrite <- app_assoc | assumption].
    rewrite <- app_assoc. rewrite (IH L1 (a :: R) true k); try assumption; try lia.
    + rewrite <- app_assoc. cbn [app]. f_equal. destruct L2; cbn; now rewrite orb_true_r.
    + intros C; apply Hn. rewrite app_assoc, map_app, in_app_iff. now left.
Qed.

Lemma bubble_right_mkl tb x R1 : forall P R2 moved fuel,
  ~ In (fst x) (map fst (P ++ R1)) ->
  Forall (fun b => plt tb x b = true) R1 ->
  (R2 = [] \/ exists b R2', R2 = b :: R2' /\ plt tb x b = false) ->
  length R1 < fuel ->
  SS.bubble_right fuel tb (mkl 0 (P ++ x :: R1 ++ R2)) (fst x) moved
  = (mkl 0 (P ++ R1 ++ x :: R2), moved || negb (null R1)).
Proof.
  induction R1 as [|b R1 IH]; intros P R2 moved fuel Hn Hall Hstop Hfuel.
  - destruct fuel as [|k]; [cbn in Hfuel; lia|]. cbn [app null negb]. rewrite orb_false_r.
    rewrite app_nil_r in Hn.
    destruct Hstop as [->|(b & R2' & -> & Hb)].
    + now apply bubble_right_stop_end.
    + now apply bubble_right_stop.
  - destruct fuel as [|k]; [cbn in Hfuel; lia|]. cbn in Hfuel.
    inversion Hall as [|? ? Hxb Hall']; subst. cbn [app].
    rewrite bubble_right_step; [| | assumption].
    + replace (P ++ b :: x :: R1 ++ R2) with ((P ++ [b]) ++ x :: R1 ++ R2) by (now rewrite <- app_assoc).
      rewrite (IH (P ++ [b]) R2 true k); try assumption; try lia.
      * rewrite <- app_assoc. cbn [app null negb]. now rewrite orb_true_r.
      * now rewrite <- app_assoc.
    + intros C; apply Hn. rewrite map_app, in_app_iff. now left.
Qed.

(* the maximal runs *)
Lemma split_left tb x (L : list pr) :
  exists L1 L2, L = L1 ++ L2 /\ Forall (fun a => plt tb a x = true) L2 /\
                (L1 = [] \/ exists L1' a, L1 = L1' ++ [a] /\ plt tb a x = false).
Proof.
  induction L as [|a L IH] using rev_ind.
  - exists [], []. repeat split; auto.
  - destruct (plt tb a x) eqn:E.
    + destruct IH as (L1 & L2 & -> & Hall & Hs). exists L1, (L2 ++ [a]).
      repeat split; [now rewrite app_assoc | apply Forall_app; split; auto | assumption].
    + exists (L ++ [a]), []. repeat split; [now rewrite app_nil_r | constructor | right; eauto].
Qed.

Lemma split_right tb x (R : list pr) :
  exists R1 R2, R = R1 ++ R2 /\ Forall (fun b => plt tb x b = true) R1 /\
                (R2 = [] \/ exists b R2', R2 = b :: R2' /\ plt tb x b = false).
Proof.
  induction R as [|b R IH].
  - exists [], []. repeat split; auto.
  - destruct (plt tb x b) eqn:E.
    + destruct IH as (R1 & R2 & -> & Hall & Hs). exists (b :: R1), R2. repeat split; auto.
    + exists [], (b :: R). repeat split; [constructor | right; eauto].
Qed.

Lemma el_at_0 l : SS.el_at l 0 = hd 0%N (map SS.el l).
Proof. destruct l; reflexivity. Qed.
Lemma el_at_last l : SS.el_at l (length l - 1) = last (map SS.el l) 0%N.
Proof.
  induction l as [|a l IH]; [reflexivity|].
  destruct l as [|b l]; [reflexivity|].
  cbn [length map]. replace (S (S (length l)) - 1) with (S (length l)) by lia.
  change (last (SS.el a :: SS.el b :: map SS.el l) 0%N) with (last (map SS.el (b :: l)) 0%N).
  rewrite <- IH. cbn [length]. replace (S (length l) - 1) with (length l) by lia. reflexivity.
Qed.
Lemma el_at_0_mkl ps : SS.el_at (mkl 0 ps) 0 = hdE ps.
Proof. rewrite el_at_0, map_el_mkl. reflexivity. Qed.
Lemma el_at_last_mkl ps n : n = length ps -> SS.el_at (mkl 0 ps) (n - 1) = lastE ps.
Proof. intros ->. rewrite <- (mkl_length 0 ps), el_at_last, map_el_mkl. reflexivity. Qed.

(* insertion keeps the slice sorted *)
Lemma all_ge_left tb x L1 M :
  StronglySorted (pge tb) (L1 ++ M) ->
  (L1 = [] \/ exists L1' a, L1 = L1' ++ [a] /\ plt tb a x = false) ->
  forall a, In a L1 -> pge tb a x.
Proof.
  intros Hs [->|(L1' & a0 & -> & Ha0)] a Ha; [contradiction|].
  apply ssorted_app in Hs as (Hs & _ & _). apply ssorted_app in Hs as (_ & _ & Hs).
  apply in_app_iff in Ha as [Ha|[<-|[]]]; [|exact Ha0].
  eapply pge_trans; [apply Hs; [exact Ha | now left] | exact Ha0].
Qed.

Lemma sorted_insert_left tb x L1 L2 R :
  StronglySorted (pge tb) (L1 ++ L2 ++ R) ->
  Forall (fun a => plt tb a x = true) L2 ->
  (L1 = [] \/ exists L1' a, L1 = L1' ++ [a] /\ plt tb a x = false) ->
  L2 <> [] ->
  StronglySorted (pge tb) (L1 ++ x :: L2 ++ R).
Proof.
  intros Hs Hall Hstop Hne. apply ssorted_mid. split; [assumption|]. split.
  - eapply all_ge_left; eassumption.
  - rewrite Forall_forall in Hall. intros b Hb. apply in_app_iff in Hb as [Hb|Hb].
    + apply plt_asym. auto.
    + destruct L2 as [|c L2]; [congruence|].
      apply ssorted_app in Hs as (_ & Hs & _). apply ssorted_app in Hs as (_ & _ & Hs).
      eapply plt_pge_l; [apply (Hall c); now left | apply Hs; [now left | assumption]].
Qed.

Lemma sorted_insert_right tb x L R1 R2 :
  StronglySorted (pge tb) (L ++ R1 ++ R2) ->
  (forall a, In a L -> pge tb a x) ->
  Forall (fun b => plt tb x b = true) R1 ->
  (R2 = [] \/ exists b R2', R2 = b :: R2' /\ plt tb x b = false) ->
  StronglySorted (pge tb) (L ++ R1 ++ x :: R2).
Proof.
  intros Hs HL Hall Hstop. rewrite app_assoc. apply ssorted_mid. rewrite <- app_assoc.
  split; [assumption|]. split.
  - rewrite Forall_forall in Hall. intros a Ha. apply in_app_iff in Ha as [Ha|Ha]; [auto|].
    apply plt_asym; auto.
  - destruct Hstop as [->|(b0 & R2' & -> & Hb0)]; [intros ? []|].
    intros b [<-|Hb]; [exact Hb0|].
    rewrite app_assoc in Hs. apply ssorted_app in Hs as (_ & Hs & _). inversion Hs as [|? ? _ Hf]; subst.
    rewrite Forall_forall in Hf. eapply pge_trans; [exact Hb0 | auto].
Qed.

Ltac eqb_cases :=
  repeat match goal with |- context [Nat.eqb ?a ?b] => destruct (Nat.eqb_spec a b) end.

Lemma update_position_mkl s L x R :
  SS.sorted s = mkl 0 (L ++ x :: R) ->
  NoDup (map fst (L ++ x :: R)) ->
  StronglySorted (pge (SS.tb s)) (L ++ R) ->
  (L = [] \/ SS.hv s = hdE L) -> (R = [] \/ SS.lv s = lastE R) ->
  exists ps', SS.update_position s (fst x)
              = SS.mk (SS.tb s) (SS.base s) (SS.wv s) (mkl 0 ps') (hdE ps') (lastE ps')
     /\ Permutation ps' (L ++ x :: R) /\ StronglySorted (pge (SS.tb s)) ps'.
Proof.
  intros Hs Hnd Hso Hh Hl.
  assert (HnLR : ~ In (fst x) (map fst (L ++ R))).
  { rewrite map_app in Hnd. cbn [map] in Hnd. apply NoDup_remove_2 in Hnd. now rewrite map_app. }
  unfold SS.update_position. rewrite Hs.
  rewrite find_mkl_in by (intros C; apply HnLR; rewrite map_app, in_app_iff; now left).
  cbn [SS.idx]. rewrite mkl_length.
  destruct (split_left (SS.tb s) x L) as (L1 & L2 & -> & HL2 & HL1).
  rewrite <- (app_assoc L1 L2 (x :: R)).
  rewrite (@bubble_left_mkl (SS.tb s) x L2 L1 R false).
  2:{ intros C; apply HnLR; rewrite map_app, in_app_iff; now left. }
  2,3: assumption.
  2:{ rewrite !app_length; cbn [length]; lia. }
  destruct L2 as [|c L2].
  - cbn [null negb orb app].
    destruct (split_right (SS.tb s) x R) as (R1 & R2 & -> & HR1 & HR2).
    rewrite app_nil_r in *.
    rewrite (@bubble_right_mkl (SS.tb s) x R1 L1 R2 false).
    2:{ intros C; apply HnLR. rewrite !map_app, !in_app_iff in *. tauto. }
    2,3: assumption.
    2:{ rewrite !app_length; cbn [length]; rewrite app_length; lia. }
    exists (L1 ++ R1 ++ x :: R2). split; [|split].
    + rewrite (app_assoc L1 R1 (x :: R2)).
      rewrite find_mkl_in by (intros C; apply HnLR; rewrite !map_app, !in_app_iff in *; tauto).
      cbn [SS.idx]. rewrite el_at_0_mkl, mkl_length, el_at_last_mkl by reflexivity.
      f_equal.
      * destruct L1 as [|a L1]; destruct R1 as [|b R1];
          cbn [null negb orb andb app length Nat.eqb]; try reflexivity;
          (destruct Hh as [Hh|Hh]; [discriminate|]; rewrite Hh; reflexivity).
      * destruct R1 as [|b R1]; destruct R2 as [|b2 R2]; cbn [null negb orb andb];
          repeat (rewrite app_length; cbn [length]); eqb_cases; try lia;
          try (symmetry; apply lastE_snoc);
          (destruct Hl as [Hl|Hl]; [discriminate|]; rewrite Hl, !lastE_app_cons; reflexivity).
    + apply Permutation_app_head. symmetry. apply Permutation_middle.
    + apply sorted_insert_right; try assumption. eapply all_ge_left; eassumption.
  - cbn [null negb orb].
    exists (L1 ++ x :: (c :: L2) ++ R). split; [|split].
    + rewrite find_mkl_in by (intros C; apply HnLR; rewrite !map_app, !in_app_iff in *; tauto).
      cbn [SS.idx]. rewrite el_at_0_mkl, mkl_length, el_at_last_mkl by reflexivity.
      f_equal.
      * destruct L1 as [|a L1]; cbn [andb app length Nat.eqb]; try reflexivity.
        destruct Hh as [Hh|Hh]; [discriminate|]; rewrite Hh; reflexivity.
      * cbn [andb]. destruct R as [|r R]; repeat (rewrite app_length; cbn [length]);
          eqb_cases; try lia; try reflexivity.
        destruct Hl as [Hl|Hl]; [discriminate|]. rewrite Hl, lastE_app_cons.
        change (x :: (c :: L2) ++ r :: R) with ((x :: c :: L2) ++ r :: R).
        rewrite lastE_app_cons. reflexivity.
    + apply Permutation_app_head. apply Permutation_middle.
    + apply sorted_insert_left; try assumption; [now rewrite <- app_assoc in Hso | discriminate].
Qed.

(* ------------------------------------------------------------------------------------------------ *)
(* the invariant, on (element, weight) pairs                                                          *)
(* ------------------------------------------------------------------------------------------------ *)
Record PInv (s : SS.st) (ps : list pr) : Prop := {
  p_eq : SS.sorted s = mkl 0 ps;
  p_nodup : NoDup (map fst ps);
  p_weight : forall p, In p ps -> snd p = SS.wv s (fst p);
  p_ord : StronglySorted (pge (SS.tb s)) ps;
  p_hv : SS.hv s = hdE ps;
  p_lv : SS.lv s = lastE ps }.

Definition same_env (s s' : SS.st) : Prop :=
  SS.tb s' = SS.tb s /\ SS.base s' = SS.base s /\ SS.wv s' = SS.wv s.

Lemma set_weight_mkl e v v0 L R : forall k,
  ~ In e (map fst L) ->
  SS.set_weight e v (mkl k (L ++ (e, v0) :: R)) = mkl k (L ++ (e, v) :: R).
Proof.
  induction L as [|a L IH]; intros k Hn; cbn.
  - now rewrite N.eqb_refl.
  - destruct (N.eqb_spec (fst a) e) as [E|E]; [exfalso; apply Hn; cbn; auto|].
    rewrite IH; [reflexivity | intros C; apply Hn; cbn; auto].
Qed.

Lemma in_map_fst_split e (ps : list pr) :
  In e (map fst ps) -> exists L v R, ps = L ++ (e, v) :: R.
Proof.
  intros H. apply in_map_iff in H as ([e' v] & <- & H). apply in_split in H as (L & R & ->).
  exists L, v, R. reflexivity.
Qed.

Lemma hdE_mid L x R : hdE (L ++ x :: R) = match L with [] => fst x | _ => hdE L end.
Proof. destruct L; reflexivity. Qed.
Lemma lastE_mid L x R : lastE (L ++ x :: R) = match R with [] => fst x | _ => lastE R end.
Proof. rewrite lastE_app_cons. destruct R; reflexivity. Qed.

Lemma on_weight_ok s L e v0 v R :
  SS.sorted s = mkl 0 (L ++ (e, v0) :: R) ->
  NoDup (map fst (L ++ (e, v0) :: R)) ->
  (forall p, In p (L ++ R) -> snd p = SS.wv s (fst p)) ->
  v = SS.wv s e ->
  StronglySorted (pge (SS.tb s)) (L ++ R) ->
  (L = [] \/ SS.hv s = hdE L) -> (R = [] \/ SS.lv s = lastE R) ->
  exists ps', PInv (SS.on_weight s e v) ps' /\ same_env s (SS.on_weight s e v) /\
              Permutation (map fst ps') (map fst (L ++ (e, v0) :: R)).
Proof.
  intros Hs Hnd Hw Hv Hso Hh Hl.
  assert (HnL : ~ In e (map fst L)).
  { rewrite map_app in Hnd. cbn [map fst] in Hnd. apply NoDup_remove_2 in Hnd.
    intros C; apply Hnd, in_app_iff; now left. }
  unfold SS.on_weight. rewrite Hs, set_weight_mkl by assumption.
  set (s' := SS.mk _ _ _ _ _ _).
  destruct (@update_position_mkl s' L (e, v) R) as (ps' & Heq & Hperm & Hsorted); try assumption.
  - reflexivity.
  - rewrite map_app in *. exact Hnd.
  - cbn [fst] in Heq. rewrite Heq. exists ps'. subst s'. cbn [SS.tb SS.base SS.wv] in *.
    split; [|split].
    + constructor; cbn [SS.sorted SS.tb SS.wv SS.hv SS.lv]; try reflexivity; try assumption.
      * eapply Permutation_NoDup; [apply Permutation_map, Permutation_sym, Hperm|].
        rewrite map_app in *. exact Hnd.
      * intros p Hp. eapply Permutation_in in Hp; [|exact Hperm].
        apply in_app_iff in Hp as [Hp|[<-|Hp]]; [apply Hw, in_app_iff; auto | exact Hv | apply Hw, in_app_iff; auto].
    + repeat split.
    + apply Permutation_map with (f := fst) in Hperm. rewrite map_app in Hperm |- *. exact Hperm.
Qed.

Lemma find_mkl_none e k ps : SS.find e (mkl k ps) = None -> ~ In e (map fst ps).
Proof.
  revert k; induction ps as [|p ps IH]; intros k; cbn; [tauto|].
  destruct (N.eqb_spec (fst p) e) as [E|E]; [discriminate|].
  intros H [C|C]; [congruence | eapply IH; eauto].
Qed.

Lemma add_sorted_ok s ps e :
  PInv s ps ->
  exists ps', PInv (SS.add_sorted s e) ps' /\ same_env s (SS.add_sorted s e) /\
              (forall x, In x (map fst ps') <-> x = e \/ In x (map fst ps)).
Proof.
  intros HI. destruct HI as [Heq Hnd Hw Hso Hh Hl] eqn:HI'. clear HI'. unfold SS.add_sorted. rewrite Heq.
  destruct (SS.find e (mkl 0 ps)) as [r|] eqn:F.
  - exists ps. split; [constructor; assumption|]. split; [repeat split|].
    intros x; split; [auto|]. intros [->|H]; [eapply find_mkl_some; eauto | exact H].
  - apply find_mkl_none in F.
    set (s1 := SS.mk _ _ _ _ _ _).
    destruct (@on_weight_ok s1 ps e 0%Z (SS.wv s e) []) as (ps' & HP & (E1 & E2 & E3) & Hperm).
    + subst s1; cbn [SS.sorted]. rewrite mkl_length, mkl_app. reflexivity.
    + rewrite map_app. cbn [map fst]. eapply Permutation_NoDup; [apply Permutation_cons_append|].
      constructor; assumption.
    + rewrite app_nil_r. exact Hw.
    + reflexivity.
    + rewrite app_nil_r. exact Hso.
    + right. exact Hh.
    + now left.
    + exists ps'. split; [exact HP|]. split; [repeat split; assumption|].
      intros x. split; intros H.
      * eapply Permutation_in in H; [|exact Hperm]. rewrite map_app, in_app_iff in H. cbn in H.
        destruct H as [H|[H|[]]]; auto.
      * eapply Permutation_in; [apply Permutation_sym, Hperm|]. rewrite map_app, in_app_iff. cbn.
        destruct H as [->|H]; auto.
Qed.

Lemma firstn_mkl L M : forall k, firstn (length L) (mkl k (L ++ M)) = mkl k L.
Proof. induction L as [|a L IH]; intros k; cbn; [reflexivity | now rewrite IH]. Qed.
Lemma skipn_mkl L x R : forall k, skipn (S (length L)) (mkl k (L ++ x :: R)) = mkl (S (k + length L)) R.
Proof.
  induction L as [|a L IH]; intros k.
  - cbn. now rewrite Nat.add_0_r.
  - change (skipn (S (length L)) (mkl (S k) (L ++ x :: R)) = mkl (S (k + S (length L))) R).
    rewrite IH. now rewrite Nat.add_succ_r.
Qed.
Lemma map_dec_idx_mkl R : forall k, map SS.dec_idx (mkl (S k) R) = mkl k R.
Proof. induction R as [|a R IH]; intros k; cbn; [reflexivity | now rewrite IH]. Qed.

Lemma find_mkl_in' L e v R :
  ~ In e (map fst L) ->
  SS.find e (mkl 0 (L ++ (e, v) :: R)) = Some (SS.mkrec e v (length L)).
Proof. exact (@find_mkl_in L (e, v) R). Qed.

Lemma delete_sorted_ok s ps e :
  PInv s ps ->
  exists ps', PInv (SS.delete_sorted s e) ps' /\ same_env s (SS.delete_sorted s e) /\
              (forall x, In x (map fst ps') <-> In x (map fst ps) /\ x <> e).
Proof.
  intros HI. destruct HI as [Heq Hnd Hw Hso Hh Hl] eqn:HI'. clear HI'. unfold SS.delete_sorted. rewrite Heq.
  destruct (in_dec N.eq_dec e (map fst ps)) as [F|F].
  - apply in_map_fst_split in F as (L & v & R & ->).
    assert (HnLR : ~ In e (map fst (L ++ R))).
    { rewrite map_app in Hnd. cbn [map fst] in Hnd. apply NoDup_remove_2 in Hnd. now rewrite map_app. }
    rewrite (@find_mkl_in' L e v R) by (intros C; apply HnLR; rewrite map_app, in_app_iff; now left).
    cbn [SS.idx]. rewrite firstn_mkl, skipn_mkl, map_dec_idx_mkl. cbn [Nat.add].
    replace (mkl 0 L ++ mkl (length L) R) with (mkl 0 (L ++ R)) by (now rewrite mkl_app).
    rewrite el_at_0_mkl, mkl_length, el_at_last_mkl by reflexivity.
    exists (L ++ R). split; [|split; [repeat split|]].
    + apply ssorted_mid in Hso as (Hso & _ & _).
      constructor; cbn [SS.sorted SS.tb SS.wv SS.hv SS.lv]; try reflexivity; try assumption.
      * rewrite map_app in *. cbn [map] in Hnd. eapply NoDup_remove_1; eassumption.
      * intros p Hp. apply Hw. rewrite in_app_iff in *. cbn. tauto.
      * rewrite Hh, hdE_mid. destruct L; reflexivity.
      * rewrite Hl, lastE_mid, app_length. destruct R as [|r R]; cbn [length].
        -- rewrite Nat.add_0_r, Nat.eqb_refl. reflexivity.
        -- destruct (Nat.eqb_spec (length L) (length L + S (length R))); [lia|].
           rewrite lastE_app_cons. reflexivity.
    + intros x. rewrite !map_app, !in_app_iff in *. cbn [map fst In]. split.
      * intros H. split; [tauto|]. intros ->. apply HnLR. tauto.
      * intros [[H|[H|H]] Hne]; [tauto | congruence | tauto].
  - rewrite find_mkl_notin by assumption. exists ps. split; [constructor; assumption|]. split; [repeat split|].
    intros x; split; [|tauto]. intros H; split; [exact H | intros ->; auto].
Qed.

(* ------------------------------------------------------------------------------------------------ *)
(* the OnUpdate callback: Range(addSorted) then Range(deleteSorted)                                   *)
(* ------------------------------------------------------------------------------------------------ *)
Lemma same_env_trans s1 s2 s3 : same_env s1 s2 -> same_env s2 s3 -> same_env s1 s3.
Proof. unfold same_env. intros (A & B & C) (D & E & F). repeat split; congruence. Qed.

Lemma fold_add_ok es : forall s ps,
  PInv s ps ->
  exists ps', PInv (fold_left SS.add_sorted es s) ps' /\ same_env s (fold_left SS.add_sorted es s) /\
              (forall x, In x (map fst ps') <-> In x es \/ In x (map fst ps)).
Proof.
  induction es as [|e es IH]; intros s ps HP; cbn [fold_left].
  - exists ps. split; [assumption|]. split; [repeat split|]. intros x; cbn; tauto.
  - destruct (add_sorted_ok e HP) as (ps1 & HP1 & HE1 & HI1).
    destruct (IH _ _ HP1) as (ps2 & HP2 & HE2 & HI2).
    exists ps2. split; [assumption|]. split; [eapply same_env_trans; eassumption|].
    intros x. rewrite HI2, HI1. cbn [In]. intuition congruence.
Qed.

Lemma fold_del_ok ds : forall s ps,
  PInv s ps ->
  exists ps', PInv (fold_left SS.delete_sorted ds s) ps' /\ same_env s (fold_left SS.delete_sorted ds s) /\
              (forall x, In x (map fst ps') <-> In x (map fst ps) /\ ~ In x ds).
Proof.
  induction ds as [|e ds IH]; intros s ps HP; cbn [fold_left].
  - exists ps. split; [assumption|]. split; [repeat split|]. intros x; cbn; tauto.
  - destruct (delete_sorted_ok e HP) as (ps1 & HP1 & HE1 & HI1).
    destruct (IH _ _ HP1) as (ps2 & HP2 & HE2 & HI2).
    exists ps2. split; [assumption|]. split; [eapply same_env_trans; eassumption|].
    intros x. rewrite HI2, HI1. cbn [In]. intuition congruence.
Qed.

(* ------------------------------------------------------------------------------------------------ *)
(* the embedded reactive set: the mutation handed to the callback is a true diff                      *)
(* ------------------------------------------------------------------------------------------------ *)
Lemma mem_In e l : mem e l = true <-> In e l.
Proof.
  unfold mem. rewrite existsb_exists. split.
  - intros (x & Hx & E). apply N.eqb_eq in E. now subst.
  - intros H. exists e. split; [assumption | apply N.eqb_refl].
Qed.
Lemma mem_nIn e l : mem e l = false <-> ~ In e l.
Proof. rewrite <- mem_In. destruct (mem e l); intuition congruence. Qed.

Lemma In_sdel x e l : In x (sdel e l) <-> In x l /\ x <> e.
Proof.
  unfold sdel. rewrite filter_In. destruct (N.eqb_spec x e); cbn; intuition congruence.
Qed.

Lemma adds_app_spec es : forall l l1 a,
  adds_app es l = (l1, a) -> forall x, In x l1 <-> In x a \/ In x l.
Proof.
  induction es as [|e es IH]; intros l l1 a H x; cbn in H.
  - inversion H; subst. cbn; tauto.
  - destruct (mem e l) eqn:M; [eapply IH; eauto|].
    destruct (adds_app es (l ++ [e])) as [l' a'] eqn:E. inversion H; subst.
    rewrite (IH _ _ _ E x), in_app_iff. cbn. intuition congruence.
Qed.

Lemma dels_app_spec es : forall l l2 d,
  dels_app es l = (l2, d) -> forall x, In x l2 <-> In x l /\ ~ In x d.
Proof.
  induction es as [|e es IH]; intros l l2 d H x; cbn in H.
  - inversion H; subst. cbn; tauto.
  - destruct (mem e l) eqn:M; [|eapply IH; eauto].
    destruct (dels_app es (sdel e l)) as [l' d'] eqn:E. inversion H; subst.
    rewrite (IH _ _ _ E x), In_sdel. cbn. intuition congruence.
Qed.

Lemma set_apply_spec l m l' a d :
  set_apply l m = (l', (a, d)) -> forall x, In x l' <-> (In x a \/ In x l) /\ ~ In x d.
Proof.
  unfold set_apply. destruct (adds_app (fst m) l) as [l1 a1] eqn:EA.
  destruct (dels_app (snd m) l1) as [l2 d1] eqn:ED. intros H; inversion H; subst. intros x.
  rewrite (dels_app_spec _ _ ED x), (adds_app_spec _ _ EA x). tauto.
Qed.

Lemma mut_empty_true m : mut_empty m = true -> m = ([], []).
Proof. destruct m as [[|? ?] [|? ?]]; cbn; congruence. Qed.

Lemma rset_step_spec l o l' om :
  rset_step l o = (l', om) ->
  match om with
  | None => forall x, In x l' <-> In x l
  | Some (a, d) => forall x, In x l' <-> (In x a \/ In x l) /\ ~ In x d
  end.
Proof.
  assert (G : forall m, (if mut_empty m then (l, None)
                         else let '(l', ap) := set_apply l m in
                              if mut_empty ap then (l', None) else (l', Some ap)) = (l', om) ->
              match om with
              | None => forall x, In x l' <-> In x l
              | Some (a, d) => forall x, In x l' <-> (In x a \/ In x l) /\ ~ In x d
              end).
  { intros m. destruct (mut_empty m); [intros H; inversion H; subst; tauto|].
    destruct (set_apply l m) as [l2 [a d]] eqn:E. pose proof (set_apply_spec _ _ E) as S.
    destruct (mut_empty (a, d)) eqn:ME; intros H; inversion H; subst; [|exact S].
    apply mut_empty_true in ME. inversion ME; subst. intros x. rewrite S. cbn. tauto. }
  destruct o;
    match goal with |- rset_step _ ?o = _ -> _ => try exact (G (sop_mut o)) end.
  cbn. intros H; inversion H; subst. clear H G. intros x. rewrite !filter_In.
  destruct (mem x l) eqn:M1; [apply mem_In in M1 | apply mem_nIn in M1];
    (destruct (mem x l') eqn:M2; [apply mem_In in M2 | apply mem_nIn in M2]);
    cbn [negb]; intuition (try congruence).
Qed.

(* ------------------------------------------------------------------------------------------------ *)
(* one step, then the run                                                                             *)
(* ------------------------------------------------------------------------------------------------ *)
Definition FInv (s : SS.st) : Prop :=
  exists ps, PInv s ps /\ forall e, In e (map fst ps) <-> In e (SS.base s).

Lemma PInv_set_base s ps l' :
  PInv s ps -> PInv (SS.mk (SS.tb s) l' (SS.wv s) (SS.sorted s) (SS.hv s) (SS.lv s)) ps.
Proof. intros []; constructor; assumption. Qed.

Lemma step_ok s o : FInv s -> FInv (SS.step s o) /\ SS.tb (SS.step s o) = SS.tb s.
Proof.
  intros (ps & HP & HE). destruct o as [bo|e v]; cbn [SS.step].
  - destruct (rset_step (SS.base s) bo) as [l' om] eqn:E. apply rset_step_spec in E.
    pose proof (PInv_set_base l' HP) as HP1.
    destruct om as [[a d]|].
    + cbn [fst snd]. destruct (fold_add_ok a HP1) as (ps2 & HP2 & HE2 & HI2).
      destruct (fold_del_ok d HP2) as (ps3 & HP3 & HE3 & HI3).
      destruct (same_env_trans HE2 HE3) as (T & B & W). cbn [SS.tb SS.base SS.wv] in T, B, W.
      split; [|exact T].
      exists ps3. split; [assumption|]. intros x. rewrite HI3, HI2, B, E, HE. tauto.
    + split; [|reflexivity]. exists ps. split; [assumption|]. intros x. cbn [SS.base]. rewrite E, HE; tauto.
  - destruct (v =? SS.wv s e)%Z eqn:EV; [split; [exists ps; auto | reflexivity]|].
    destruct (in_dec N.eq_dec e (map fst ps)) as [F|F].
    + destruct (in_map_fst_split _ _ F) as (L & v0 & R & ->).
      pose proof (p_nodup HP) as Hnd.
      assert (HnLR : ~ In e (map fst (L ++ R))).
      { rewrite map_app in Hnd. cbn [map fst] in Hnd. apply NoDup_remove_2 in Hnd. now rewrite map_app. }
      rewrite (p_eq HP).
      rewrite (@find_mkl_in' L e v0 R) by (intros C; apply HnLR; rewrite map_app, in_app_iff; now left).
      rewrite <- (p_eq HP).
      set (s1 := SS.mk _ _ _ _ _ _).
      destruct (@on_weight_ok s1 L e v0 v R) as (ps' & HP' & (T & B & W) & Hperm).
      * exact (p_eq HP).
      * exact Hnd.
      * intros p Hp. subst s1; cbn [SS.wv]. unfold cupd.
        destruct (N.eqb_spec (fst p) e) as [Ee|Ee].
        -- exfalso. apply HnLR. rewrite <- Ee. now apply in_map.
        -- apply (p_weight HP). rewrite in_app_iff in *. cbn. tauto.
      * subst s1; cbn [SS.wv]. unfold cupd. now rewrite N.eqb_refl.
      * pose proof (p_ord HP) as Hso. apply ssorted_mid in Hso as (Hso & _ & _). exact Hso.
      * destruct L; [now left | right]. subst s1; cbn [SS.hv]. rewrite (p_hv HP). reflexivity.
      * destruct R; [now left | right]. subst s1; cbn [SS.lv]. rewrite (p_lv HP), lastE_mid. reflexivity.
      * split; [|exact T]. exists ps'. split; [assumption|]. intros x. rewrite B. subst s1; cbn [SS.base].
        rewrite <- HE. split; intros H.
        -- eapply Permutation_in; [exact Hperm | exact H].
        -- eapply Permutation_in; [apply Permutation_sym, Hperm | exact H].
    + rewrite (p_eq HP), find_mkl_notin by assumption. split; [|reflexivity].
      exists ps. split; [|exact HE]. destruct HP as [Heq Hnd Hw Hso Hh Hl].
      constructor; cbn [SS.sorted SS.tb SS.wv SS.hv SS.lv]; try assumption; try reflexivity.
      intros p Hp. unfold cupd. destruct (N.eqb_spec (fst p) e) as [Ee|Ee].
      * exfalso. apply F. rewrite <- Ee. now apply in_map.
      * auto.
Qed.

Lemma init_ok tb : FInv (SS.init tb).
Proof.
  exists []. split; [|cbn; tauto].
  constructor; cbn; try reflexivity; try constructor; try contradiction.
Qed.

Lemma run_ok h : forall s, FInv s -> FInv (SS.run s h) /\ SS.tb (SS.run s h) = SS.tb s.
Proof.
  unfold SS.run. induction h as [|o h IH]; intros s HF; cbn [fold_left]; [auto|].
  destruct (step_ok o HF) as (HF1 & T1). destruct (IH _ HF1) as (HF2 & T2).
  split; [assumption | congruence].
Qed.

(* ------------------------------------------------------------------------------------------------ *)
(* back to records                                                                                    *)
(* ------------------------------------------------------------------------------------------------ *)
Lemma nth_error_mkl_idx ps : forall k i r, nth_error (mkl k ps) i = Some r -> SS.idx r = k + i.
Proof.
  induction ps as [|p ps IH]; intros k i r H; destruct i; cbn in H; try discriminate.
  - inversion H; subst. cbn. lia.
  - apply IH in H. lia.
Qed.

Lemma in_mkl ps : forall k r, In r (mkl k ps) -> exists p, In p ps /\ SS.el r = fst p /\ SS.w r = snd p.
Proof.
  induction ps as [|p ps IH]; intros k r H; cbn in H; [contradiction|].
  destruct H as [<-|H].
  - exists p. cbn. auto.
  - apply IH in H as (q & Hq & E1 & E2). exists q. cbn. auto.
Qed.

Lemma elt_plt tb wv (p q : pr) :
  snd p = wv (fst p) -> snd q = wv (fst q) -> elt tb wv (fst p) (fst q) = plt tb p q.
Proof. intros Hp Hq. unfold elt, plt. now rewrite Hp, Hq. Qed.

Lemma sorted_elements tb wv (ps : list pr) :
  (forall p, In p ps -> snd p = wv (fst p)) ->
  StronglySorted (pge tb) ps ->
  StronglySorted (fun a b => elt tb wv a b = false) (map fst ps).
Proof.
  intros Hw Hs. induction Hs as [|p ps Hs IH Hf]; cbn [map]; constructor.
  - apply IH. intros q Hq. apply Hw. now right.
  - rewrite Forall_forall in *. intros b Hb. apply in_map_iff in Hb as (q & <- & Hq).
    rewrite elt_plt; [apply Hf, Hq | apply Hw; now left | apply Hw; now right].
Qed.

Unset Implicit Arguments.

Record Inv (s : SS.st) : Prop := {
  inv_idx    : forall i r, nth_error (SS.sorted s) i = Some r -> SS.idx r = i;
  inv_nodup  : NoDup (map SS.el (SS.sorted s));
  inv_elems  : forall e, In e (map SS.el (SS.sorted s)) <-> In e (SS.base s);
  inv_weight : forall r, In r (SS.sorted s) -> SS.w r = SS.wv s (SS.el r);
  inv_sorted : StronglySorted (fun a b => elt (SS.tb s) (SS.wv s) a b = false) (map SS.el (SS.sorted s));
  inv_hv     : SS.hv s = hd 0%N (map SS.el (SS.sorted s));
  inv_lv     : SS.lv s = last (map SS.el (SS.sorted s)) 0%N }.

Lemma FInv_Inv s : FInv s -> Inv s.
Proof.
  intros (ps & [Heq Hnd Hw Hso Hh Hl] & HE). constructor; rewrite ?Heq, ?map_el_mkl; try assumption.
  - intros i r H. apply nth_error_mkl_idx in H. exact H.
  - intros r H. apply in_mkl in H as (p & Hp & -> & ->). now apply Hw.
  - now apply sorted_elements.
Qed.

(* ------------------------------------------------------------------------------------------------ *)
(* main theorems: for every history, with no guard on it                                             *)
(* ------------------------------------------------------------------------------------------------ *)
(* no guard on the history is needed (list arguments may even contain repetitions); wf_hist is kept only so
   that a client may state `wf_hist h -> ...` and discharge it with wf_hist_all *)
Definition wf_hist (h : list SS.op) : Prop := True.
Lemma wf_hist_all h : wf_hist h.
Proof. exact I. Qed.

Lemma ss_tb_run : forall tb h, SS.tb (SS.run (SS.init tb) h) = tb.
Proof. intros tb h. exact (proj2 (run_ok h (init_ok tb))). Qed.

Theorem ss_inv_run : forall tb h, Inv (SS.run (SS.init tb) h).
Proof. intros tb h. apply FInv_Inv. exact (proj1 (run_ok h (init_ok tb))). Qed.

Theorem ss_sorted_by_current_weight : forall tb h, let s := SS.run (SS.init tb) h in
  StronglySorted (fun a b => elt tb (SS.wv s) a b = false) (map SS.el (SS.sorted s)).
Proof.
  intros tb h s. pose proof (inv_sorted _ (ss_inv_run tb h)) as H. fold s in H.
  unfold s in H at 1. rewrite ss_tb_run in H. exact H.
Qed.

Theorem ss_same_elements : forall tb h, let s := SS.run (SS.init tb) h in
  NoDup (map SS.el (SS.sorted s)) /\ forall e, In e (map SS.el (SS.sorted s)) <-> In e (SS.base s).
Proof. intros tb h s. split; [apply inv_nodup | apply inv_elems]; apply ss_inv_run. Qed.

Theorem ss_ends : forall tb h, let s := SS.run (SS.init tb) h in
  SS.hv s = hd 0%N (map SS.el (SS.sorted s)) /\ SS.lv s = last (map SS.el (SS.sorted s)) 0%N.
Proof. intros tb h s. split; [apply inv_hv | apply inv_lv]; apply ss_inv_run. Qed.

Theorem ss_indices : forall tb h, let s := SS.run (SS.init tb) h in
  forall i r, nth_error (SS.sorted s) i = Some r -> SS.idx r = i.
Proof. intros tb h s. apply inv_idx, ss_inv_run. Qed.


(* ------------------------------------------------------------------------------------------------ *)
(* Inv is inductive: it holds initially and every single operation preserves it from ANY state that   *)
(* satisfies it (not only from reachable ones)                                                        *)
(* ------------------------------------------------------------------------------------------------ *)
Definition prs (l : list SS.rec) : list pr := map (fun r => (SS.el r, SS.w r)) l.

Lemma mkl_prs l : forall k,
  (forall i r, nth_error l i = Some r -> SS.idx r = k + i) -> l = mkl k (prs l).
Proof.
  induction l as [|a l IH]; intros k H; cbn; [reflexivity|]. f_equal.
  - destruct a as [e w i]. cbn. f_equal. specialize (H 0 _ eq_refl). cbn in H. lia.
  - apply IH. intros i r Hr. specialize (H (S i) r Hr). lia.
Qed.

Lemma map_fst_prs l : map fst (prs l) = map SS.el l.
Proof. unfold prs. rewrite map_map. reflexivity. Qed.

Lemma sorted_pairs tb wv l :
  (forall r, In r l -> SS.w r = wv (SS.el r)) ->
  StronglySorted (fun a b => elt tb wv a b = false) (map SS.el l) ->
  StronglySorted (pge tb) (prs l).
Proof.
  induction l as [|a l IH]; intros Hw Hs; cbn; [constructor|].
  cbn [map] in Hs. inversion Hs as [|? ? Hs' Hf]; subst. constructor.
  - apply IH; [intros r Hr; apply Hw; now right | assumption].
  - rewrite Forall_forall in *. intros q Hq. unfold prs in Hq. apply in_map_iff in Hq as (r & <- & Hr).
    unfold pge. rewrite <- (@elt_plt tb wv (SS.el a, SS.w a) (SS.el r, SS.w r)); cbn [fst snd].
    + apply Hf. now apply in_map.
    + apply Hw. now left.
    + apply Hw. now right.
Qed.

Lemma Inv_FInv s : Inv s -> FInv s.
Proof.
  intros [Hi Hn He Hw Hs Hh Hl]. exists (prs (SS.sorted s)). split.
  - constructor; rewrite ?map_fst_prs; try assumption.
    + apply mkl_prs. exact Hi.
    + intros p Hp. unfold prs in Hp. apply in_map_iff in Hp as (r & <- & Hr). cbn. now apply Hw.
    + now apply sorted_pairs with (wv := SS.wv s).
    + unfold hdE. now rewrite map_fst_prs.
    + unfold lastE. now rewrite map_fst_prs.
  - intros e. rewrite map_fst_prs. apply He.
Qed.

Theorem ss_inv_init : forall tb, Inv (SS.init tb).
Proof. intros tb. apply FInv_Inv, init_ok. Qed.

Theorem ss_inv_step : forall s o, Inv s -> Inv (SS.step s o).
Proof. intros s o H. apply FInv_Inv. exact (proj1 (@step_ok s o (@Inv_FInv s H))). Qed.

Theorem ss_tb_step : forall s o, Inv s -> SS.tb (SS.step s o) = SS.tb s.
Proof. intros s o H. exact (proj2 (@step_ok s o (@Inv_FInv s H))). Qed.

(* ------------------------------------------------------------------------------------------------ *)
(* non-vacuity: a 12-step history (its list arguments even contain repetitions) reaching 4 elements   *)
(* with a three-way tie in weights; both tie-break modes                                              *)
(* ------------------------------------------------------------------------------------------------ *)
Definition ex_hist : list SS.op :=
  [SS.OSet (SAdd 1%N); SS.OSet (SAdd 2%N); SS.OWeight 1%N 5%Z; SS.OSet (SAddAll [3%N; 4%N; 3%N]);
   SS.OWeight 3%N 5%Z; SS.OWeight 2%N 7%Z; SS.OSet (SDelete 4%N); SS.OWeight 4%N 9%Z;
   SS.OSet (SApply [5%N; 6%N; 5%N] [6%N; 2%N; 6%N]); SS.OSet (SReplace [1%N; 3%N; 5%N; 7%N; 3%N]);
   SS.OWeight 7%N 5%Z; SS.OWeight 5%N (-2)%Z].

Example ss_example_wf : wf_hist ex_hist /\ length ex_hist = 12.
Proof. split; [exact I | reflexivity]. Qed.

Example ss_example_less :
  let s := SS.run (SS.init true) ex_hist in
  map (fun r => (SS.el r, SS.w r, SS.idx r)) (SS.sorted s)
    = [(7%N, 5%Z, 0); (3%N, 5%Z, 1); (1%N, 5%Z, 2); (5%N, (-2)%Z, 3)]
  /\ SS.hv s = 7%N /\ SS.lv s = 5%N.
Proof. vm_compute. repeat split. Qed.

Example ss_example_noless :
  let s := SS.run (SS.init false) ex_hist in
  map (fun r => (SS.el r, SS.w r, SS.idx r)) (SS.sorted s)
    = [(1%N, 5%Z, 0); (3%N, 5%Z, 1); (7%N, 5%Z, 2); (5%N, (-2)%Z, 3)]
  /\ SS.hv s = 1%N /\ SS.lv s = 5%N.
Proof. vm_compute. repeat split. Qed.

(* guarded forms (the guard is trivially true), for clients that state the theorems with `wf_hist h ->` *)
Corollary ss_inv_run_wf : forall tb h, wf_hist h -> Inv (SS.run (SS.init tb) h).
Proof. intros tb h _. apply ss_inv_run. Qed.
