(* C14 (3): Counter = number of monitored inputs that satisfy the condition - all histories. *)
From Coq Require Import ZArith NArith List Bool Lia.
From Verif.C14_Derived Require Import Model.
Import ListNotations.
Import CT.
Open Scope Z_scope.

Definition b2z (b : bool) : Z := if b then 1 else 0.
Fixpoint cntw (ms : list mon) : Z := match ms with [] => 0 | m :: r => b2z (was m) + cntw r end.

Lemma cntw_filter : forall ms, cntw ms = Z.of_nat (length (filter was ms)).
Proof. induction ms; simpl; auto. destruct (was a); simpl b2z; simpl length; lia. Qed.

Lemma cntw_app : forall a b, cntw (a ++ b) = cntw a + cntw b.
Proof. induction a; simpl; intros; auto. rewrite IHa. lia. Qed.

Definition g (c : cond) (i : nat) (v : Z) (m : mon) : mon :=
  if Nat.eqb (inp m) i && act m then mkmon (inp m) (holds c v) (act m) else m.

Lemma fire_spec : forall c m v k,
  fire c m v k = (mkmon (inp m) (holds c v) (act m), k + b2z (holds c v) - b2z (was m)).
Proof.
  intros c [i w a] v k. unfold fire. simpl.
  destruct (holds c v), w; simpl; f_equal; lia.
Qed.

Lemma fire_all_spec : forall c i v ms k,
  fire_all c i v ms k = (map (g c i v) ms, k + cntw (map (g c i v) ms) - cntw ms).
Proof.
  induction ms; intros k; simpl.
  - f_equal. lia.
  - unfold g at 1 3. destruct (Nat.eqb (inp a) i && act a) eqn:E.
    + rewrite fire_spec. rewrite IHms. simpl. f_equal. lia.
    + rewrite IHms. f_equal. lia.
Qed.

Definition Inv (s : st) : Prop :=
  (dirty s = false -> cnt s = cntw (mons s)) /\
  (forall m, In m (mons s) -> act m = true -> was m = holds (cnd s) (nth (inp m) (ins s) 0)).

Lemma nth_set_nth_other : forall l i j v, i <> j -> nth j (DV.set_nth i v l) 0 = nth j l 0.
Proof.
  induction l; intros; destruct i, j; simpl; auto; try congruence.
Qed.
Lemma nth_set_nth_same : forall l i v, (i < length l)%nat -> nth i (DV.set_nth i v l) 0 = v.
Proof. induction l; intros; simpl in *; [lia|]. destruct i; simpl; auto. apply IHl. lia. Qed.

Lemma set_nthm_in : forall l j m x, In x (set_nthm j m l) -> x = m \/ In x l.
Proof.
  induction l; intros; destruct j; simpl in *; try tauto.
  - destruct H; auto.
  - destruct H; auto. apply IHl in H. tauto.
Qed.

Lemma cntw_set_nthm : forall l j m m', nth_error l j = Some m -> was m' = was m -> cntw (set_nthm j m' l) = cntw l.
Proof.
  induction l; intros; destruct j; simpl in *; try discriminate.
  - inversion H; subst. rewrite H0. auto.
  - rewrite (IHl _ _ _ H H0). auto.
Qed.

Lemma step_cnd : forall s o, cnd (step s o) = cnd s.
Proof.
  intros s o; destruct o; simpl; auto.
  - destruct (nth_error (ins s) i); auto. destruct (v =? z); auto.
    destruct (fire_all (cnd s) i v (mons s) (cnt s)); auto.
  - destruct (nth_error (ins s) i); auto. destruct (fire _ _ _ _); auto.
  - destruct (nth_error (mons s) j); auto.
Qed.

Lemma step_inv : forall s o, Inv s -> Inv (step s o).
Proof.
  intros s o [Hc Hw]. destruct o; simpl.
  - destruct (nth_error (ins s) i) as [old|] eqn:En; [|split; auto].
    destruct (v =? old); [split; auto|].
    rewrite fire_all_spec. split; simpl.
    + intros Hd. rewrite (Hc Hd). lia.
    + intros m Hin Ha. apply in_map_iff in Hin. destruct Hin as (m0 & Hg & Hin0).
      assert (Hlen : (i < length (ins s))%nat) by (apply nth_error_Some; congruence).
      unfold g in Hg. destruct (Nat.eqb (inp m0) i && act m0) eqn:E.
      * subst m. simpl in *. apply andb_prop in E. destruct E as [E1 _]. apply Nat.eqb_eq in E1.
        rewrite E1. rewrite nth_set_nth_same; auto.
      * subst m0. rewrite Ha in E. rewrite andb_true_r in E. apply Nat.eqb_neq in E.
        rewrite nth_set_nth_other; auto.
  - destruct (nth_error (ins s) i) as [v|] eqn:En; [|split; auto].
    rewrite fire_spec. split; simpl.
    + intros Hd. rewrite cntw_app. simpl. rewrite (Hc Hd). lia.
    + intros m Hin Ha. apply in_app_or in Hin. destruct Hin as [Hin|[Hm|[]]]; auto.
      subst m. simpl. f_equal. symmetry. apply nth_error_nth. auto.
  - destruct (nth_error (mons s) j) as [m|] eqn:En; [|split; auto].
    split; simpl.
    + intros Hd. rewrite (cntw_set_nthm _ _ m); auto.
    + intros x Hin Ha. apply set_nthm_in in Hin. destruct Hin as [Hx|Hin]; auto.
      subst x. simpl in Ha. discriminate.
  - split; simpl; auto. intros H; discriminate.
Qed.

Lemma run_inv : forall h s, Inv s -> Inv (run s h).
Proof. induction h; intros; simpl; auto. unfold run in *; simpl. apply IHh. apply step_inv; auto. Qed.
Lemma run_cnd : forall h s, cnd (run s h) = cnd s.
Proof. induction h; intros; simpl; auto. unfold run in *; simpl. rewrite IHh. apply step_cnd. Qed.

Lemma init_inv : forall c xs, Inv (init c xs).
Proof. intros; split; simpl; auto. intros m []. Qed.

Lemma spec_count_cntw : forall c xs ms,
  (forall m, In m ms -> act m = true -> was m = holds c (nth (inp m) xs 0)) ->
  spec_count c xs ms = cntw ms.
Proof.
  intros c xs ms H. unfold spec_count. induction ms; simpl; auto.
  assert (Ha := H a (or_introl eq_refl)).
  assert (IH := IHms (fun m Hm => H m (or_intror Hm))).
  destruct (act a) eqn:Ea.
  - rewrite <- (Ha eq_refl). destruct (was a); simpl b2z; simpl length; lia.
  - destruct (was a); simpl b2z; simpl length; lia.
Qed.

(* the counter equals the defining function after ANY history without direct writes to the counter variable:
   every monitored (still subscribed) input counts iff it currently satisfies the condition; an unsubscribed monitor
   keeps the contribution it had when it was unsubscribed (Monitor's unsubscribe does not retract it) *)
Theorem ct_count : forall c xs h, let s := run (init c xs) h in
  dirty s = false -> cnt s = spec_count c (ins s) (mons s).
Proof.
  intros c xs h s Hd. destruct (run_inv h _ (init_inv c xs)) as [Hc Hw]. fold s in Hc, Hw.
  rewrite (Hc Hd). symmetry. apply spec_count_cntw. intros m Hin Ha.
  rewrite (Hw m Hin Ha). unfold s. rewrite run_cnd. reflexivity.
Qed.

(* with every monitor still subscribed this is literally the number of monitored inputs satisfying the condition *)
Corollary ct_count_all_active : forall c xs h, let s := run (init c xs) h in
  dirty s = false -> forallb act (mons s) = true ->
  cnt s = Z.of_nat (length (filter (fun m => holds c (nth (inp m) (ins s) 0)) (mons s))).
Proof.
  intros c xs h s Hd Ha. unfold s in *. rewrite (ct_count c xs h Hd). unfold spec_count.
  f_equal. f_equal. apply filter_ext_in. intros m Hin.
  rewrite forallb_forall in Ha. rewrite (Ha m Hin). reflexivity.
Qed.

Example ct_nonvacuous :
  let s := run (init CPos [0; 3; -1]) [OMonitor 0; OMonitor 1; OMonitor 1; OSetIn 0 2; OSetIn 1 0; OMonitor 2; OSetIn 2 5; OSetIn 1 4] in
  dirty s = false /\ forallb act (mons s) = true /\ cnt s = 4.
Proof. vm_compute. auto. Qed.
