(* C14 (7): lock skeletons of SortedSet. The pinned skeleton (D14b) deadlocks on an explicit schedule; the skeleton
   after commit 3f79633 cannot deadlock on ANY schedule (inductive invariant checked over the finite state space). *)
From Coq Require Import Arith List Bool Lia.
From Verif.C14_Derived Require Import Model.
Import ListNotations.
Import LK.

(* T0 = Delete(1) takes the set mutex and sortedSet.mutex; T1 = weight(1).Set takes its update-order mutex and the
   execution lock of 1's callback; T2 = weight(2).Set likewise; now T0 wants the execution lock, T1 and T2 want
   sortedSet.mutex *)
Definition d14b_sched : list nat := [0; 0; 1; 1; 2; 2].

Theorem lk_refuted_sortedset_deadlock_pinned :
  deadlocked sys_pinned (run sys_pinned [0; 0; 0] d14b_sched) = true.
Proof. vm_compute. reflexivity. Qed.

(* ---- the repaired skeleton: no schedule deadlocks ---- *)
Definition nlocks := 7.
Definition count_holders (ps : list prog) (pcs : list nat) (l : nat) : nat :=
  length (filter (fun pc => holds_in (fst pc) (snd pc) l) (combine ps pcs)).
Definition consistent (ps : list prog) (pcs : list nat) : bool :=
  forallb (fun l => Nat.leb (count_holders ps pcs l) 1) (seq 0 nlocks).

Fixpoint all_states (ps : list prog) : list (list nat) :=
  match ps with
  | [] => [[]]
  | p :: r => flat_map (fun c => map (cons c) (all_states r)) (seq 0 (S (length p)))
  end.

Fixpoint leqb (a b : list nat) : bool :=
  match a, b with
  | [], [] => true
  | x :: r, y :: q => Nat.eqb x y && leqb r q
  | _, _ => false
  end.
Lemma leqb_eq : forall a b, leqb a b = true -> a = b.
Proof.
  induction a; destruct b; simpl; intros; try discriminate; auto.
  apply andb_prop in H. destruct H. apply Nat.eqb_eq in H. f_equal; auto.
Qed.

Definition good (ps : list prog) (pcs : list nat) : bool :=
  consistent ps pcs && existsb (leqb pcs) (all_states ps).

Definition closed (ps : list prog) : bool :=
  forallb (fun s => implb (consistent ps s)
                      (negb (deadlocked ps s) &&
                       forallb (fun t => good ps (step ps s t)) (seq 0 (length ps))))
          (all_states ps).

Lemma closed_fixed : closed sys_fixed = true.
Proof. vm_compute. reflexivity. Qed.

Lemma step_out_of_range : forall ps pcs t, length ps <= t -> step ps pcs t = pcs.
Proof.
  intros. unfold step, enabled. destruct (nth_error ps t) eqn:E; auto.
  apply nth_error_None in H. congruence.
Qed.

Lemma good_step : forall ps, closed ps = true -> forall s t, good ps s = true ->
  good ps (step ps s t) = true /\ deadlocked ps s = false.
Proof.
  intros ps Hc s t Hg. unfold good in Hg. apply andb_prop in Hg. destruct Hg as [Hcons Hin].
  apply existsb_exists in Hin. destruct Hin as (s' & Hin & E). apply leqb_eq in E. subst s'.
  unfold closed in Hc. rewrite forallb_forall in Hc. specialize (Hc _ Hin). rewrite Hcons in Hc. simpl in Hc.
  apply andb_prop in Hc. destruct Hc as [Hd Hs]. apply negb_true_iff in Hd. split; auto.
  destruct (le_lt_dec (length ps) t) as [Hle|Hlt].
  - rewrite step_out_of_range; auto. unfold good. rewrite Hcons. simpl.
    apply existsb_exists. exists s. split; auto. clear. induction s; simpl; auto. rewrite Nat.eqb_refl. auto.
  - rewrite forallb_forall in Hs. apply Hs. apply in_seq. lia.
Qed.

Lemma run_good : forall ps, closed ps = true -> forall sched s, good ps s = true -> good ps (run ps s sched) = true.
Proof.
  intros ps Hc. induction sched; intros; simpl; auto. unfold run in *. simpl. apply IHsched.
  apply (good_step ps Hc); auto.
Qed.

(* Delete(1) || weight(1).Set || weight(2).Set on the repaired code: for every schedule, the state reached is
   not a deadlock (whoever is not finished, somebody can move) *)
Theorem lk_sortedset_fixed_deadlock_free : forall sched,
  deadlocked sys_fixed (run sys_fixed [0; 0; 0] sched) = false.
Proof.
  intros sched.
  assert (G0 : good sys_fixed [0; 0; 0] = true) by (vm_compute; reflexivity).
  pose proof (run_good sys_fixed closed_fixed sched _ G0) as G.
  apply (good_step sys_fixed closed_fixed _ 0 G).
Qed.

Theorem lk_sortedset_fixed_mutual_exclusion : forall sched,
  consistent sys_fixed (run sys_fixed [0; 0; 0] sched) = true.
Proof.
  intros sched.
  assert (G0 : good sys_fixed [0; 0; 0] = true) by (vm_compute; reflexivity).
  pose proof (run_good sys_fixed closed_fixed sched _ G0) as G.
  unfold good in G. apply andb_prop in G. tauto.
Qed.

(* Delete(1) || weight(1).Set || Add(3) *)
Lemma closed_fixed_add : closed sys_fixed_add = true.
Proof. vm_compute. reflexivity. Qed.
Theorem lk_sortedset_fixed_add_deadlock_free : forall sched,
  deadlocked sys_fixed_add (run sys_fixed_add [0; 0; 0] sched) = false.
Proof.
  intros sched.
  assert (G0 : good sys_fixed_add [0; 0; 0] = true) by (vm_compute; reflexivity).
  pose proof (run_good sys_fixed_add closed_fixed_add sched _ G0) as G.
  apply (good_step sys_fixed_add closed_fixed_add _ 0 G).
Qed.

(* the same check fails for the pinned skeleton, as it must *)
Example closed_pinned_fails : closed sys_pinned = false.
Proof. vm_compute. reflexivity. Qed.
