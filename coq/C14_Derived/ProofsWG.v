(* C14 (5): WaitGroup under ALL interleavings of its atomic steps: it triggers only when the pending set became empty
   after being non-empty, and once everybody returned with an empty set it has triggered.  The pinned code (before
   2702b2b) is refuted by an explicit 3-thread schedule (D14c). *)
From Coq Require Import ZArith NArith List Bool Lia.
From Verif.C14_Derived Require Import Model.
Import ListNotations.
Import WGI.
Open Scope Z_scope.

Definition b2z (b : bool) : Z := if b then 1 else 0.
Definition owed (t : thread) : Z :=
  match now t with
  | Idle => 0
  | InAdd es b => Z.of_nat (length es) + b2z b
  | InDone _ b => b2z b
  end.
Fixpoint sum_owed (ts : list thread) : Z := match ts with [] => 0 | t :: r => owed t + sum_owed r end.
Definition busy (t : thread) : bool :=
  match now t with InAdd _ true | InDone _ true => true | _ => false end.

Lemma owed_nonneg : forall t, 0 <= owed t.
Proof. intros [[|es b|es b] r]; unfold owed; simpl; try destruct b; simpl; lia. Qed.
Lemma sum_owed_nonneg : forall ts, 0 <= sum_owed ts.
Proof. induction ts; simpl; [lia|]. pose proof (owed_nonneg a). lia. Qed.

Lemma sum_owed_set : forall ts i t t', nth_error ts i = Some t ->
  sum_owed (set_thread i t' ts) = sum_owed ts - owed t + owed t'.
Proof.
  induction ts; intros i t t' H; destruct i; simpl in *; try discriminate.
  - inversion H; subst. lia.
  - rewrite (IHts _ _ _ H). lia.
Qed.
Lemma in_set_thread : forall ts i t' x, In x (set_thread i t' ts) -> x = t' \/ In x ts.
Proof.
  induction ts; intros i t' x H; destruct i; simpl in *; try tauto.
  - destruct H; auto.
  - destruct H; auto. apply IHts in H. tauto.
Qed.

Record Inv (s : st) : Prop := {
  i_count : counter s = Z.of_nat (length (pending s)) + sum_owed (threads s);
  i_pend : pending s <> [] -> ever s = true;
  i_busy : forall t, In t (threads s) -> busy t = true -> ever s = true;
  i_ever : ever s = true -> pending s <> [] \/ emptied s = true;
  i_live : ever s = true -> 0 < counter s \/ trig s = true;
  i_trig : trig s = true -> emptied s = true;
  i_empt : emptied s = true -> ever s = true;
  i_nodup : NoDup (pending s) }.

Lemma init_inv : forall progs, Inv (init progs).
Proof.
  intros progs. constructor; simpl; try congruence; try tauto; try constructor.
  - induction progs; simpl; auto.
  - intros t Hin. apply in_map_iff in Hin. destruct Hin as (p & E & _). subst t. simpl. discriminate.
Qed.

Lemma mem_in : forall e l, mem e l = true -> In e l.
Proof.
  intros e l H. unfold mem in H. apply existsb_exists in H. destruct H as (x & Hx & E).
  apply N.eqb_eq in E. subst. auto.
Qed.

Lemma in_mem : forall e l, In e l -> mem e l = true.
Proof. intros. unfold mem. apply existsb_exists. exists e. split; auto. apply N.eqb_refl. Qed.
Lemma sdel_notin : forall e l, ~ In e l -> sdel e l = l.
Proof.
  induction l; simpl; intros; auto. destruct (a =? e)%N eqn:E.
  - apply N.eqb_eq in E. subst. tauto.
  - simpl. rewrite IHl; auto.
Qed.
Lemma sdel_length : forall e l, NoDup l -> In e l -> (length (sdel e l) + 1 = length l)%nat.
Proof.
  induction l; simpl; intros Hn Hin; [tauto|]. inversion Hn; subst.
  destruct (a =? e)%N eqn:E; simpl.
  - apply N.eqb_eq in E. subst. rewrite sdel_notin; auto. lia.
  - apply N.eqb_neq in E. destruct Hin; [congruence|]. rewrite <- (IHl H2 H). lia.
Qed.
Lemma sdel_nodup : forall e l, NoDup l -> NoDup (sdel e l).
Proof. intros. unfold sdel. apply NoDup_filter. auto. Qed.
Lemma nodup_snoc : forall (e : N) l, NoDup l -> mem e l = false -> NoDup (l ++ [e]).
Proof.
  intros e l Hn Hm. apply NoDup_app_remove_r with (l' := []) || idtac.
  apply (NoDup_Add (a := e) (l := l)).
  - clear. induction l; simpl; constructor; auto.
  - split; auto. intros Hin. apply in_mem in Hin. congruence.
Qed.

Ltac t_count Hsum := solve [rewrite Hsum; cbn [owed now b2z length]; try rewrite app_length; cbn [length]; lia].
Ltac t_busy Hset B := solve [intros x Hx Hb; apply Hset in Hx; destruct Hx as [Hx|Hx]; [subst x; try discriminate; eauto|eauto]].
Ltac t_sum Hsum i s :=
  match goal with |- context [set_thread i ?t' (threads s)] =>
    let Hs := fresh "Hs" in pose proof (Hsum t') as Hs; cbn [owed now b2z length] in Hs;
    pose proof (sum_owed_nonneg (set_thread i t' (threads s))) end.

Lemma step_inv : forall s i, Inv s -> Inv (step true s i).
Proof.
  intros s i I. unfold step. destruct (nth_error (threads s) i) as [t|] eqn:En; auto.
  destruct I as [J P B E L T M ND].
  assert (Hin : In t (threads s)) by (eapply nth_error_In; eauto).
  pose proof (sum_owed_nonneg (threads s)) as Hnn.
  destruct t as [nw rs]. simpl now. simpl rest.
  assert (Hsum := fun t' => sum_owed_set (threads s) i _ t' En).
  assert (Hset := fun t' x => in_set_thread (threads s) i t' x).
  assert (Hstart : forall nw0, owed (mkt nw0 rs) = 0 -> In (mkt nw0 rs) (threads s) -> nth_error (threads s) i = Some (mkt nw0 rs) ->
     Inv match rs with
         | [] => mk (pending s) (counter s) (trig s) (set_thread i (mkt Idle []) (threads s)) (ever s) (emptied s)
         | CAdd es :: r => mk (pending s) (counter s + Z.of_nat (length es)) (trig s) (set_thread i (mkt (InAdd es false) r) (threads s)) (ever s) (emptied s)
         | CDone es :: r => mk (pending s) (counter s) (trig s) (set_thread i (mkt (InDone es false) r) (threads s)) (ever s) (emptied s)
         end).
  { intros nw0 H0 Hin0 En0. assert (Hsum0 := fun t' => sum_owed_set (threads s) i _ t' En0).
    destruct rs as [|[es|es] r]; constructor; simpl; auto;
      try solve [rewrite Hsum0, H0; unfold owed; simpl; lia];
      try t_busy Hset B.
    intros Hev. destruct (L Hev); auto. left. lia. }
  assert (Hdecr : forall t' tr', owed (mkt nw rs) = owed t' + 1 -> busy (mkt nw rs) = true -> busy t' = false ->
     tr' = (trig s || (counter s - 1 =? 0)) ->
     Inv (mk (pending s) (counter s - 1) tr' (set_thread i t' (threads s)) (ever s) (emptied s))).
  { intros t' tr' Ho Hb Hb' Htr. subst tr'.
    assert (Hev : ever s = true) by (apply (B _ Hin); auto).
    pose proof (Hsum t') as Hs. pose proof (sum_owed_nonneg (set_thread i t' (threads s))).
    constructor; simpl; auto; try lia.
    intros Ht. apply orb_true_iff in Ht. destruct Ht as [Ht|Ht]; auto.
      apply Z.eqb_eq in Ht. destruct (E Hev) as [Hp|]; auto. exfalso. apply Hp.
      destruct (pending s); auto. simpl length in J. lia. }
  destruct nw as [|es b|es b].
  - apply (Hstart Idle); auto.
  - destruct b.
    + assert (Hx := Hdecr (mkt (InAdd es false) rs) (trig s || (true && (counter s - 1 =? 0)))).
      destruct es; apply Hx; auto; unfold owed; simpl; lia.
    + destruct es as [|e es]; [apply (Hstart (InAdd [] false)); auto|].
      destruct (mem e (pending s)) eqn:Em.
      * assert (Hev : ever s = true) by (apply P; apply mem_in in Em; destruct (pending s); [inversion Em|congruence]).
        constructor; simpl; auto; try t_count Hsum; try t_busy Hset B.
      * constructor; simpl; auto; try t_count Hsum; try t_busy Hset B.
        -- intros _. left. destruct (pending s); simpl; congruence.
        -- intros _. left. pose proof (Hsum (mkt (InAdd es false) rs)) as Hs; cbn [owed now b2z length] in Hs.
           pose proof (sum_owed_nonneg (set_thread i (mkt (InAdd es false) rs) (threads s))). lia.
        -- apply nodup_snoc; auto.
  - destruct b.
    + assert (Hx := Hdecr (mkt (InDone es false) rs) (trig s || (counter s - 1 =? 0))).
      destruct es; apply Hx; auto; unfold owed; simpl; lia.
    + destruct es as [|e es]; [apply (Hstart (InDone [] false)); auto|].
      destruct (mem e (pending s)) eqn:Em.
      * assert (Hne : pending s <> []) by (apply mem_in in Em; destruct (pending s); [inversion Em|congruence]).
        assert (Hev : ever s = true) by auto.
        pose proof (sdel_length e (pending s) ND (mem_in _ _ Em)) as Hlen.
        constructor; simpl; auto; try t_count Hsum; try t_busy Hset B.
        all: try solve [intros _; destruct (sdel e (pending s)); [right; apply orb_true_r | left; congruence]].
        all: try solve [intros Ht; apply T in Ht; rewrite Ht; auto].
        all: try solve [apply sdel_nodup; auto].
        all: try solve [intros _; auto].
      * constructor; simpl; auto; try t_count Hsum; try t_busy Hset B.
Qed.

Lemma run_inv : forall sched s, Inv s -> Inv (run true s sched).
Proof. induction sched; intros; simpl; auto. unfold run in *; simpl. apply IHsched. apply step_inv; auto. Qed.

Lemma quiescent_owed : forall ts, forallb finished ts = true -> sum_owed ts = 0.
Proof.
  induction ts; simpl; intros; auto. apply andb_prop in H. destruct H as [Ha Hr]. rewrite (IHts Hr).
  destruct a as [[|[|e es] [|]|[|e es] [|]] [|c r]]; simpl in Ha; try discriminate; reflexivity.
Qed.

(* safety, every schedule of every set of Add/Done programs: the group is triggered only if a Done removed the last
   pending element at some earlier moment (the set became empty after being non-empty) *)
Theorem wg_trigger_sound : forall progs sched,
  let s := run true (init progs) sched in trig s = true -> emptied s = true.
Proof. intros progs sched s. apply (run_inv sched _ (init_inv progs)). Qed.

(* the trigger happens at a moment when nothing is pending and no call is between its counter accesses *)
Theorem wg_trigger_moment : forall progs sched i,
  let s := run true (init progs) sched in
  trig s = false -> trig (step true s i) = true ->
  pending (step true s i) = [] /\ sum_owed (threads (step true s i)) = 0.
Proof.
  intros progs sched i s H0 H1.
  pose proof (run_inv sched _ (init_inv progs)) as I. fold s in I.
  pose proof (step_inv s i I) as I'. destruct I' as [J' _ _ _ _ _ _ _].
  assert (Hc : counter (step true s i) = 0).
  { unfold step in *. destruct (nth_error (threads s) i) as [[nw rs]|]; [|congruence].
    cbn [now rest] in *.
    destruct nw as [|es [|]|es [|]]; try destruct es; try destruct rs as [|[?|?] ?]; cbn [trig counter] in *;
      try congruence; try (destruct (mem _ (pending s)); cbn [trig] in *; congruence);
      rewrite H0 in H1; simpl in H1; apply Z.eqb_eq in H1; auto. }
  pose proof (sum_owed_nonneg (threads (step true s i))).
  rewrite Hc in J'. split; [|lia].
  destruct (pending (step true s i)); auto. simpl length in J'. lia.
Qed.

(* liveness at quiescence, every schedule: when every call has returned and the pending set is empty after having been
   non-empty, the group has triggered (so Wait returns) *)
Theorem wg_trigger_complete : forall progs sched,
  let s := run true (init progs) sched in
  quiescent s = true -> pending s = [] -> ever s = true -> trig s = true.
Proof.
  intros progs sched s Hq Hp He.
  destruct (run_inv sched _ (init_inv progs)) as [J _ _ _ L _ _ _]. fold s in J, L.
  rewrite Hp in J. rewrite (quiescent_owed _ Hq) in J. simpl in J.
  destruct (L He); auto. lia.
Qed.

Corollary wg_trigger_iff : forall progs sched,
  let s := run true (init progs) sched in
  quiescent s = true -> pending s = [] -> (trig s = true <-> emptied s = true).
Proof.
  intros progs sched s Hq Hp. split.
  - apply wg_trigger_sound.
  - intros He. apply wg_trigger_complete; auto.
    destruct (run_inv sched _ (init_inv progs)) as [_ _ _ _ _ _ M _]. apply M. auto.
Qed.

(* D14c on the pinned code (fixed = false): T0 adds 1; T1 = Add(1) sees 1 pending; T2 = Done(1) runs completely;
   T1 corrects the counter to 0 without triggering.  Everybody returned, the set is empty after having been
   non-empty, the group is not triggered. *)
Definition d14c_progs : list (list call) := [[CAdd [1%N]]; [CAdd [1%N]]; [CDone [1%N]]].
Definition d14c_sched : list nat := [0; 0; 1; 1; 2; 2; 2; 1]%nat.

Theorem wg_refuted_dup_pinned :
  let s := run false (init d14c_progs) d14c_sched in
  quiescent s = true /\ pending s = [] /\ emptied s = true /\ counter s = 0 /\ trig s = false.
Proof. vm_compute. repeat split; reflexivity. Qed.

(* the same schedule on the repaired code triggers *)
Example wg_dup_fixed :
  let s := run true (init d14c_progs) d14c_sched in
  quiescent s = true /\ pending s = [] /\ emptied s = true /\ trig s = true.
Proof. vm_compute. repeat split; reflexivity. Qed.
