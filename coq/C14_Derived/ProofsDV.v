(* C14 (1): DerivedVariable1..4 / InheritFrom converge to compute(inputs) - all histories. *)
From Coq Require Import ZArith NArith List Bool Lia.
From Verif.C14_Derived Require Import Model.
Import ListNotations.
Import DV.
Open Scope Z_scope.

Lemma pure_ignores_cur : forall f c c' xs, pure_fn f = true -> apply_fn f c xs = apply_fn f c' xs.
Proof. intros f c c' xs H. destruct f; simpl in *; try reflexivity; discriminate. Qed.

(* the invariant: while d is subscribed and never written directly it equals compute(inputs);
   while t inherits and was not written directly since, it equals d *)
Definition Inv (s : st) : Prop :=
  (ddirty s = false -> dsub s = true -> d s = apply_fn (f s) 0 (ins s)) /\
  (tdirty s = false -> (0 < tsub s)%nat -> t s = d s).

Lemma set_d_fields : forall s v,
  f (set_d s v) = f s /\ ins (set_d s v) = ins s /\ d (set_d s v) = v /\ dsub (set_d s v) = dsub s /\
  tsub (set_d s v) = tsub s /\ ddirty (set_d s v) = ddirty s /\ tdirty (set_d s v) = tdirty s.
Proof.
  intros s v. unfold set_d. destruct (v =? d s) eqn:E.
  - apply Z.eqb_eq in E. subst. repeat split; reflexivity.
  - simpl. repeat split; reflexivity.
Qed.

Lemma set_d_t : forall s v, (tdirty s = false -> (0 < tsub s)%nat -> t s = d s) ->
  tdirty s = false -> (0 < tsub s)%nat -> t (set_d s v) = v.
Proof.
  intros s v H Hd Hs. unfold set_d. destruct (v =? d s) eqn:E.
  - apply Z.eqb_eq in E. rewrite (H Hd Hs). auto.
  - simpl. destruct (0 <? Z.of_nat (tsub s)) eqn:E2; auto. apply Z.ltb_ge in E2. lia.
Qed.

Lemma step_f : forall s o, f (step s o) = f s.
Proof.
  intros s o. destruct o; simpl; auto.
  - destruct (nth_error (ins s) i); auto. destruct (v =? z); auto.
    destruct (dsub s); auto. exact (proj1 (set_d_fields _ _)).
  - exact (proj1 (set_d_fields _ _)).
Qed.

Lemma step_inv : forall s o, pure_fn (f s) = true -> Inv s -> Inv (step s o).
Proof.
  intros s o Hp [Hd Ht]. destruct o; simpl.
  - (* OSetIn *)
    destruct (nth_error (ins s) i) as [old|]; [|split; auto].
    destruct (v =? old); [split; auto|].
    destruct (dsub s) eqn:Eds.
    + match goal with |- Inv (set_d ?s1 ?v1) => pose proof (set_d_fields s1 v1) as F; set (S1 := s1) in *; set (V1 := v1) in * end.
      destruct F as (F1 & F2 & F3 & F4 & F5 & F6 & F7).
      split.
      * intros _ _. rewrite F3, F1, F2. unfold V1, S1. simpl. apply pure_ignores_cur. exact Hp.
      * intros H1 H2. rewrite F7 in H1. rewrite F5 in H2. rewrite F3.
        apply set_d_t; auto.
    + split; simpl; auto. intros _ H; discriminate.
  - (* OUnsub *) split; simpl; auto. intros _ H; discriminate.
  - (* OSetD *) pose proof (set_d_fields s v) as (F1 & F2 & F3 & F4 & F5 & F6 & F7).
    split; simpl.
    + intros H; discriminate.
    + intros H1 H2. rewrite F7 in H1. rewrite F5 in H2. rewrite F3. apply set_d_t; auto.
  - (* OInherit *) split; simpl; auto.
  - (* OUnInherit *) split; simpl; auto. intros H1 H2. apply Ht; auto. lia.
  - (* OSetT *) split; simpl; auto. intros H; discriminate.
Qed.

Lemma run_f : forall h s, f (run s h) = f s.
Proof. induction h; simpl; intros; auto. unfold run in *. simpl. rewrite IHh. apply step_f. Qed.

Lemma run_inv : forall h s, pure_fn (f s) = true -> Inv s -> Inv (run s h).
Proof.
  induction h; intros s Hp Hi; simpl; auto.
  unfold run in *. simpl. apply IHh. rewrite step_f; auto. apply step_inv; auto.
Qed.

Lemma iter_re_pure : forall n f c xs, pure_fn f = true -> (0 < n)%nat -> iter_re n f c xs = apply_fn f 0 xs.
Proof.
  induction n; intros; [lia|]. simpl. destruct n.
  - simpl. apply pure_ignores_cur; auto.
  - rewrite IHn; auto. lia.
Qed.

Lemma init_inv : forall f xs i, pure_fn f = true -> xs <> [] -> Inv (init f xs i).
Proof.
  intros f0 xs i Hp Hx. split; simpl.
  - intros _ _. apply iter_re_pure; auto. destruct xs; [congruence|simpl; lia].
  - intros _ H. lia.
Qed.

(* the derived variable equals compute(current inputs) after ANY history, as long as it is still subscribed and
   nobody wrote to it directly *)
Theorem dv_converges : forall f0 xs i h, pure_fn f0 = true -> xs <> [] ->
  let s := run (init f0 xs i) h in
  ddirty s = false -> dsub s = true -> d s = apply_fn f0 0 (ins s).
Proof.
  intros f0 xs i h Hp Hx s H1 H2.
  pose proof (run_inv h (init f0 xs i) Hp (init_inv f0 xs i Hp Hx)) as [Hd _].
  fold s in Hd. rewrite (Hd H1 H2). unfold s. rewrite run_f. reflexivity.
Qed.

(* InheritFrom copies its source *)
Theorem dv_inherit_copies : forall f0 xs i h, pure_fn f0 = true -> xs <> [] ->
  let s := run (init f0 xs i) h in
  tdirty s = false -> (0 < tsub s)%nat -> t s = d s.
Proof.
  intros f0 xs i h Hp Hx s H1 H2.
  pose proof (run_inv h (init f0 xs i) Hp (init_inv f0 xs i Hp Hx)) as [_ Ht]. apply Ht; auto.
Qed.

(* the two-level chain inputs -> d -> t *)
Corollary dv_chain : forall f0 xs i h, pure_fn f0 = true -> xs <> [] ->
  let s := run (init f0 xs i) h in
  ddirty s = false -> dsub s = true -> tdirty s = false -> (0 < tsub s)%nat -> t s = apply_fn f0 0 (ins s).
Proof.
  intros. subst s. rewrite dv_inherit_copies; auto. apply dv_converges; auto.
Qed.

(* non-vacuity: a history that satisfies every guard and changes the derived value several times *)
Example dv_nonvacuous :
  let s := run (init FLin [1; 2; 0] 7) [OInherit; OSetIn 0 5; OSetIn 2 (-3); OSetT 4; OInherit; OSetIn 1 1; OUnInherit; OSetIn 0 0] in
  ddirty s = false /\ dsub s = true /\ tdirty s = false /\ (0 < tsub s)%nat /\ d s = 0 /\ t s = 0 /\ ins s = [0; 1; -3].
Proof. vm_compute. repeat split; auto. Qed.

(* the guard "compute ignores the current value" is necessary: the accumulator function depends on how often the
   code recomputed *)
Example dv_acc_history_dependent :
  d (run (init FAcc [1] 0) [OSetIn 0 2; OSetIn 0 1]) = 4 /\ apply_fn FAcc 0 [1] = 1.
Proof. vm_compute. auto. Qed.
