(* C14, interleaving model of NewDerivedVariable2 (ds/reactive/variable.go:124-138, variable_impl.go:43-62, 111-123)
   with an inheriting variable t (t.InheritFrom(d)).

   Shared state: the two inputs, the derived value d, the inheriting value t, the update-order mutex of each input
   (m1, m2), the update-order mutex of the derived variable (md = "the Compute lock").  A writer thread runs a
   program of calls  input_i.Set(v);  one call is the following sequence of atomic steps (Go statement in brackets):

     Idle      -> PUpd      [input_i.updateOrderMutex.Lock()]                 blocks while another writer of input_i holds it
     PUpd      -> PLockD    [updateValue: input_i.value = v]                  or -> PUnlockI when the value is unchanged (no callbacks)
     PLockD    -> PRead     [callback of d's subscription: d.Compute -> d.updateOrderMutex.Lock()]   blocks while held
     PRead     -> PWrite r  [inside the compute closure: r = other.Get()]
     PWrite r  -> PNotify x [d.value = x = compute(v, r)]                     or -> PUnlockD when x equals d (no callbacks)
     PNotify x -> PUnlockD  [callback of t.InheritFrom(d): t.Set(x)]
     PUnlockD  -> PUnlockI  [d.updateOrderMutex.Unlock()]
     PUnlockI  -> Idle      [input_i.updateOrderMutex.Unlock()]

   `early = true` is the variant in which the callback reads the other input BEFORE entering d.Compute
   (PUpd -> PRead0 -> PLockD (Some r) -> PWrite r): the class of change of seed C14-m1.

   Abstractions: the value mutexes (RWMutex around single reads/writes) make each read/write atomic and are not
   modelled separately; t.Set is one step (t is only written by the holder of md); compute does not depend on the
   current value (guard of the property); a step of a blocked thread leaves the state unchanged. *)
From Coq Require Import ZArith List Bool.
Import ListNotations.

Module DVI.
Open Scope Z_scope.

(* an input is named by a bool: false = input1, true = input2 *)
Inductive pc :=
| Idle
| PUpd (i : bool) (v : Z)
| PRead0 (i : bool) (v : Z)
| PLockD (i : bool) (v : Z) (r : option Z)
| PRead (i : bool) (v : Z)
| PWrite (i : bool) (v r : Z)
| PNotify (i : bool) (x : Z)
| PUnlockD (i : bool)
| PUnlockI (i : bool).

Record thread := mkt { now : pc; rest : list (bool * Z) }.

Record st := mk { in1 : Z; in2 : Z; d : Z; t : Z;
                  m1 : option nat; m2 : option nat; md : option nat;   (* holder of each mutex *)
                  threads : list thread }.

Definition init (f : Z -> Z -> Z) (a b : Z) (progs : list (list (bool * Z))) : st :=
  mk a b (f a b) (f a b) None None None (map (fun p => mkt Idle p) progs).

Fixpoint set_thread (k : nat) (x : thread) (l : list thread) : list thread :=
  match l, k with
  | [], _ => []
  | _ :: r, O => x :: r
  | y :: r, S j => y :: set_thread j x r
  end.

Definition inp (s : st) (i : bool) : Z := if i then in2 s else in1 s.
Definition lockI (s : st) (i : bool) : option nat := if i then m2 s else m1 s.
(* compute(input1, input2) as seen from the callback of input i: v = the new value of input i, r = the other input *)
Definition compute_at (f : Z -> Z -> Z) (i : bool) (v r : Z) : Z := if i then f r v else f v r.

Definition set_in (s : st) (i : bool) (v : Z) : st :=
  if i then mk (in1 s) v (d s) (t s) (m1 s) (m2 s) (md s) (threads s)
  else mk v (in2 s) (d s) (t s) (m1 s) (m2 s) (md s) (threads s).
Definition set_lockI (s : st) (i : bool) (o : option nat) : st :=
  if i then mk (in1 s) (in2 s) (d s) (t s) (m1 s) o (md s) (threads s)
  else mk (in1 s) (in2 s) (d s) (t s) o (m2 s) (md s) (threads s).
Definition set_md (s : st) (o : option nat) : st := mk (in1 s) (in2 s) (d s) (t s) (m1 s) (m2 s) o (threads s).
Definition set_d (s : st) (x : Z) : st := mk (in1 s) (in2 s) x (t s) (m1 s) (m2 s) (md s) (threads s).
Definition set_t (s : st) (x : Z) : st := mk (in1 s) (in2 s) (d s) x (m1 s) (m2 s) (md s) (threads s).
Definition set_pc (s : st) (k : nat) (p : pc) (r : list (bool * Z)) : st :=
  mk (in1 s) (in2 s) (d s) (t s) (m1 s) (m2 s) (md s) (set_thread k (mkt p r) (threads s)).

Definition step (early : bool) (f : Z -> Z -> Z) (s : st) (k : nat) : st :=
  match nth_error (threads s) k with
  | None => s
  | Some th =>
      let go s' p := set_pc s' k p (rest th) in
      match now th with
      | Idle =>
          match rest th with
          | [] => s
          | (i, v) :: r =>
              match lockI s i with
              | Some _ => s                                         (* blocked on input_i.updateOrderMutex *)
              | None => set_pc (set_lockI s i (Some k)) k (PUpd i v) r
              end
          end
      | PUpd i v =>
          if inp s i =? v then go s (PUnlockI i)                     (* unchanged: no callbacks *)
          else go (set_in s i v) (if early then PRead0 i v else PLockD i v None)
      | PRead0 i v => go s (PLockD i v (Some (inp s (negb i))))      (* early variant: stale read possible *)
      | PLockD i v r =>
          match md s with
          | Some _ => s                                             (* blocked on d.updateOrderMutex *)
          | None => go (set_md s (Some k)) (match r with Some r => PWrite i v r | None => PRead i v end)
          end
      | PRead i v => go s (PWrite i v (inp s (negb i)))
      | PWrite i v r =>
          let x := compute_at f i v r in
          if x =? d s then go s (PUnlockD i) else go (set_d s x) (PNotify i x)
      | PNotify i x => go (set_t s x) (PUnlockD i)
      | PUnlockD i => go (set_md s None) (PUnlockI i)
      | PUnlockI i => go (set_lockI s i None) Idle
      end
  end.

Definition run (early : bool) (f : Z -> Z -> Z) (s : st) (sched : list nat) : st := fold_left (step early f) sched s.

Definition finished (th : thread) : bool :=
  match now th, rest th with Idle, [] => true | _, _ => false end.
Definition quiescent (s : st) : bool := forallb finished (threads s).

(* a step of thread k changes the state (the thread exists, has work left and is not blocked on a mutex) *)
Definition enabled (s : st) (k : nat) : bool :=
  match nth_error (threads s) k with
  | None => false
  | Some th =>
      match now th with
      | Idle => match rest th with [] => false | (i, _) :: _ => match lockI s i with None => true | Some _ => false end end
      | PLockD _ _ _ => match md s with None => true | Some _ => false end
      | _ => true
      end
  end.

(* number of steps still to be taken (at most 8 per call) *)
Definition pc_left (p : pc) : nat :=
  match p with
  | Idle => 0 | PUpd _ _ => 7 | PRead0 _ _ => 6 | PLockD _ _ None => 6 | PLockD _ _ (Some _) => 5
  | PRead _ _ => 5 | PWrite _ _ _ => 4 | PNotify _ _ => 3 | PUnlockD _ => 2 | PUnlockI _ => 1
  end%nat.
Definition thread_left (th : thread) : nat := (pc_left (now th) + 8 * length (rest th))%nat.
Definition left (s : st) : nat := fold_right (fun th n => (thread_left th + n)%nat) 0%nat (threads s).

End DVI.
