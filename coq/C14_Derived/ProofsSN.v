(* C14 - proofs about Module SN (DerivedSet.InheritFrom union semantics, SubtractReactive) *)
From Coq Require Import ZArith NArith List Bool Lia.
From Verif.C14_Derived Require Import Model.
Import ListNotations.
Open Scope Z_scope.

(* ---------------------------------------------------------------- basic list facts *)
Lemma mem_In e l : mem e l = true <-> In e l.
Proof.
  unfold mem. rewrite existsb_exists. split.
  - intros [x [H1 H2]]. apply N.eqb_eq in H2. subst; auto.
  - intros; exists e; split; auto. apply N.eqb_refl.
Qed.
Lemma mem_nIn e l : mem e l = false <-> ~ In e l.
Proof. rewrite <- mem_In. destruct (mem e l); split; intros; try congruence; intuition congruence. Qed.

Definition b2z (b : bool) : Z := if b then 1 else 0.
Fixpoint occ (e : N) (l : list N) : Z :=
  match l with [] => 0 | x :: r => (if N.eqb x e then 1 else 0) + occ e r end.

Lemma occ_nonneg e l : 0 <= occ e l.
Proof. induction l; simpl; [lia|]. destruct (N.eqb a e); lia. Qed.
Lemma occ_notin e l : ~ In e l -> occ e l = 0.
Proof.
  induction l; simpl; intros; auto. destruct (N.eqb_spec a e); [exfalso; auto|]. rewrite IHl; auto.
Qed.
Lemma occ_nodup e l : NoDup l -> occ e l = b2z (mem e l).
Proof.
  induction 1; simpl; auto. unfold mem in *. simpl.
  destruct (N.eqb_spec x e).
  - subst. rewrite N.eqb_refl. simpl. rewrite occ_notin; auto.
  - destruct (N.eqb_spec e x); [congruence|]. simpl. rewrite IHNoDup. reflexivity.
Qed.
Lemma occ_app e l1 l2 : occ e (l1 ++ l2) = occ e l1 + occ e l2.
Proof. induction l1; simpl; auto. rewrite IHl1. lia. Qed.

Lemma In_sadd x e l : In x (sadd e l) <-> In x l \/ x = e.
Proof.
  unfold sadd. destruct (mem e l) eqn:E.
  - apply mem_In in E. split; auto. intros [H|H]; subst; auto.
  - rewrite in_app_iff. simpl. intuition.
Qed.
Lemma In_sdel x e l : In x (sdel e l) <-> In x l /\ x <> e.
Proof.
  unfold sdel. rewrite filter_In. destruct (N.eqb_spec x e); simpl; intuition congruence.
Qed.
Lemma NoDup_snoc (e : N) l : NoDup l -> ~ In e l -> NoDup (l ++ [e]).
Proof.
  induction 1; simpl; intros.
  - constructor; auto. constructor.
  - constructor. rewrite in_app_iff. simpl. intuition. apply IHNoDup. intuition.
Qed.
Lemma NoDup_sadd e l : NoDup l -> NoDup (sadd e l).
Proof. unfold sadd. destruct (mem e l) eqn:E; auto. intros. apply NoDup_snoc; auto. apply mem_nIn; auto. Qed.
Lemma NoDup_sdel e l : NoDup l -> NoDup (sdel e l).
Proof. unfold sdel. apply NoDup_filter. Qed.

Lemma In_dec_N (e : N) l : In e l \/ ~ In e l.
Proof. destruct (in_dec N.eq_dec e l); auto. Qed.

(* ---------------------------------------------------------------- adds_app / dels_app / set_apply *)
Lemma adds_app_spec es : forall l l' a, adds_app es l = (l', a) ->
  (NoDup l -> NoDup l') /\ NoDup a /\ (forall e, In e l' <-> In e l \/ In e es) /\
  (forall e, In e a <-> In e es /\ ~ In e l).
Proof.
  induction es as [|x r IH]; simpl; intros l l' a H.
  - inversion H; subst. split; [|split; [|split]]; auto; try constructor; simpl; intuition.
  - destruct (mem x l) eqn:E.
    + apply mem_In in E. destruct (IH _ _ _ H) as (A & B & C & D).
      split; [|split; [|split]]; auto.
      * intros e. rewrite C. intuition (subst; tauto).
      * intros e. rewrite D. intuition (subst; tauto).
    + apply mem_nIn in E. destruct (adds_app r (l ++ [x])) as [l1 a1] eqn:R.
      inversion H; subst. destruct (IH _ _ _ R) as (A & B & C & D).
      split; [|split; [|split]].
      * intros. apply A. apply NoDup_snoc; auto.
      * constructor; auto. rewrite D. rewrite in_app_iff. simpl. intuition.
      * intros e. rewrite C, in_app_iff. simpl. intuition.
      * intros e. simpl. rewrite D, in_app_iff. simpl.
        destruct (N.eq_dec x e); [subst|]; intuition.
Qed.

Lemma dels_app_spec es : forall l l' d, dels_app es l = (l', d) ->
  (NoDup l -> NoDup l') /\ NoDup d /\ (forall e, In e l' <-> In e l /\ ~ In e es) /\
  (forall e, In e d <-> In e es /\ In e l).
Proof.
  induction es as [|x r IH]; simpl; intros l l' d H.
  - inversion H; subst. split; [|split; [|split]]; auto; try constructor; simpl; intuition.
  - destruct (mem x l) eqn:E.
    + apply mem_In in E. destruct (dels_app r (sdel x l)) as [l1 d1] eqn:R.
      inversion H; subst. destruct (IH _ _ _ R) as (A & B & C & D).
      split; [|split; [|split]].
      * intros. apply A. apply NoDup_sdel; auto.
      * constructor; auto. rewrite D, In_sdel. intuition.
      * intros e. rewrite C, In_sdel. intuition.
      * intros e. simpl. rewrite D, In_sdel.
        destruct (N.eq_dec x e); [subst|]; intuition.
    + apply mem_nIn in E. destruct (IH _ _ _ H) as (A & B & C & D).
      split; [|split; [|split]]; auto.
      * intros e. rewrite C. intuition (subst; tauto).
      * intros e. rewrite D. intuition (subst; tauto).
Qed.

Ltac memIn := repeat match goal with
  | H : mem _ _ = true |- _ => apply mem_In in H
  | H : mem _ _ = false |- _ => apply mem_nIn in H end.

Definition mrel (l : list N) (m : mut) (l' : list N) : Prop :=
  forall e, In e l' <-> (In e l \/ In e (fst m)) /\ ~ In e (snd m).

Lemma set_apply_spec l m l' ap : set_apply l m = (l', ap) ->
  (NoDup l -> NoDup l') /\ NoDup (fst ap) /\ NoDup (snd ap) /\ mrel l m l' /\
  (forall e, In e (fst ap) <-> In e (fst m) /\ ~ In e l) /\
  (forall e, In e (snd ap) <-> In e (snd m) /\ (In e l \/ In e (fst m))).
Proof.
  unfold set_apply. destruct (adds_app (fst m) l) as [l1 a] eqn:A.
  destruct (dels_app (snd m) l1) as [l2 d] eqn:D.
  intros H; inversion H; subst. simpl.
  destruct (adds_app_spec _ _ _ _ A) as (A1&A2&A3&A4).
  destruct (dels_app_spec _ _ _ _ D) as (D1&D2&D3&D4).
  split; [auto|]. split; [auto|]. split; [auto|]. split; [|split].
  - intros e. rewrite D3, A3. tauto.
  - auto.
  - intros e. rewrite D4, A3. tauto.
Qed.

Lemma set_apply_delta l m l' ap : set_apply l m = (l', ap) ->
  forall e, b2z (mem e l') = b2z (mem e l) + occ e (fst ap) - occ e (snd ap).
Proof.
  intros H e. destruct (set_apply_spec _ _ _ _ H) as (S1&S2&S3&S4&S5&S6).
  rewrite (occ_nodup _ _ S2), (occ_nodup _ _ S3).
  specialize (S4 e). specialize (S5 e). specialize (S6 e).
  destruct (mem e l') eqn:E1; destruct (mem e l) eqn:E2; destruct (mem e (fst ap)) eqn:E3;
  destruct (mem e (snd ap)) eqn:E4; simpl; try lia; exfalso; memIn; tauto.
Qed.

(* ---------------------------------------------------------------- SetArithmetic *)
Ltac fin := intuition (try lia; try congruence); try (match goal with H : _ |- _ => apply H; lia end).
Definition arith_inv (c0 : N -> Z) (s : arith) : Prop :=
  NoDup (aA s) /\ NoDup (aD s) /\
  (forall e, In e (aA s) <-> ~ c0 e >= 1 /\ ac s e >= 1) /\
  (forall e, In e (aD s) <-> c0 e >= 1 /\ ~ ac s e >= 1).

Lemma collect_inc_inv c0 s x : arith_inv c0 s -> arith_inv c0 (collect_inc s x).
Proof.
  intros (A&B&C&D). unfold collect_inc.
  pose proof (C x) as Cx. pose proof (D x) as Dx.
  destruct (Z.eqb_spec (ac s x + 1) 1).
  - destruct (mem x (aD s)) eqn:E; memIn; unfold arith_inv; simpl.
    + split; auto. split; [apply NoDup_sdel; auto|].
      split; intros y; pose proof (C y); pose proof (D y); destruct (Z_ge_dec (c0 y) 1), (Z_ge_dec (ac s y) 1); rewrite ?In_sdel; unfold cupd;
        destruct (N.eqb_spec y x); subst; fin.
    + split; [apply NoDup_sadd; auto|]. split; auto.
      split; intros y; pose proof (C y); pose proof (D y); destruct (Z_ge_dec (c0 y) 1), (Z_ge_dec (ac s y) 1); rewrite ?In_sadd; unfold cupd;
        destruct (N.eqb_spec y x); subst; fin.
  - unfold arith_inv; simpl. split; auto. split; auto.
    split; intros y; pose proof (C y); pose proof (D y); destruct (Z_ge_dec (c0 y) 1), (Z_ge_dec (ac s y) 1); unfold cupd;
        destruct (N.eqb_spec y x); subst; fin.
Qed.

Lemma collect_dec_inv c0 s x : arith_inv c0 s -> arith_inv c0 (collect_dec s x).
Proof.
  intros (A&B&C&D). unfold collect_dec.
  pose proof (C x) as Cx. pose proof (D x) as Dx.
  destruct (Z.eqb_spec (ac s x - 1) 0).
  - destruct (mem x (aA s)) eqn:E; memIn; unfold arith_inv; simpl.
    + split; [apply NoDup_sdel; auto|]. split; auto.
      split; intros y; pose proof (C y); pose proof (D y); destruct (Z_ge_dec (c0 y) 1), (Z_ge_dec (ac s y) 1); rewrite ?In_sdel; unfold cupd;
        destruct (N.eqb_spec y x); subst; fin.
    + split; auto. split; [apply NoDup_sadd; auto|].
      split; intros y; pose proof (C y); pose proof (D y); destruct (Z_ge_dec (c0 y) 1), (Z_ge_dec (ac s y) 1); rewrite ?In_sadd; unfold cupd;
        destruct (N.eqb_spec y x); subst; fin.
  - unfold arith_inv; simpl. split; auto. split; auto.
    split; intros y; pose proof (C y); pose proof (D y); destruct (Z_ge_dec (c0 y) 1), (Z_ge_dec (ac s y) 1); unfold cupd;
        destruct (N.eqb_spec y x); subst; fin.
Qed.

Lemma collect_inc_ac s x e : ac (collect_inc s x) e = ac s e + (if N.eqb x e then 1 else 0).
Proof.
  unfold collect_inc. destruct (_ =? 1); [destruct (mem x (aD s))|]; simpl; unfold cupd;
  destruct (N.eqb_spec e x), (N.eqb_spec x e); subst; try congruence; lia.
Qed.
Lemma collect_dec_ac s x e : ac (collect_dec s x) e = ac s e - (if N.eqb x e then 1 else 0).
Proof.
  unfold collect_dec. destruct (_ =? 0); [destruct (mem x (aA s))|]; simpl; unfold cupd;
  destruct (N.eqb_spec e x), (N.eqb_spec x e); subst; try congruence; lia.
Qed.

Lemma fold_inc l : forall c0 s, arith_inv c0 s ->
  arith_inv c0 (fold_left collect_inc l s) /\
  forall e, ac (fold_left collect_inc l s) e = ac s e + occ e l.
Proof.
  induction l as [|x r IH]; simpl; intros c0 s H.
  - split; auto. intros; lia.
  - destruct (IH c0 _ (collect_inc_inv _ _ x H)) as [I1 I2]. split; auto.
    intros e. rewrite I2, collect_inc_ac. lia.
Qed.
Lemma fold_dec l : forall c0 s, arith_inv c0 s ->
  arith_inv c0 (fold_left collect_dec l s) /\
  forall e, ac (fold_left collect_dec l s) e = ac s e - occ e l.
Proof.
  induction l as [|x r IH]; simpl; intros c0 s H.
  - split; auto. intros; lia.
  - destruct (IH c0 _ (collect_dec_inv _ _ x H)) as [I1 I2]. split; auto.
    intros e. rewrite I2, collect_dec_ac. lia.
Qed.

Lemma arith_inv_init c : arith_inv c {| ac := c; aA := []; aD := [] |}.
Proof. unfold arith_inv; simpl. split; [constructor|]. split; [constructor|]. split; intros; tauto. Qed.

Definition crossing (c c' : N -> Z) (im : mut) : Prop :=
  (forall e, In e (fst im) <-> ~ c e >= 1 /\ c' e >= 1) /\
  (forall e, In e (snd im) <-> c e >= 1 /\ ~ c' e >= 1).

Lemma arith_add_spec c m c' im : arith_add c m = (c', im) ->
  (forall e, c' e = c e + occ e (fst m) - occ e (snd m)) /\ crossing c c' im.
Proof.
  unfold arith_add. intros H; inversion H; subst; clear H.
  destruct (fold_inc (fst m) _ _ (arith_inv_init c)) as [I1 I2].
  destruct (fold_dec (snd m) _ _ I1) as [(J1&J2&J3&J4) J5]. simpl in *.
  split. intros e. rewrite J5, I2. reflexivity.
  split; simpl; auto.
Qed.
Lemma arith_sub_spec c m c' im : arith_sub c m = (c', im) ->
  (forall e, c' e = c e - occ e (fst m) + occ e (snd m)) /\ crossing c c' im.
Proof.
  unfold arith_sub. intros H; inversion H; subst; clear H.
  destruct (fold_dec (fst m) _ _ (arith_inv_init c)) as [I1 I2].
  destruct (fold_inc (snd m) _ _ I1) as [(J1&J2&J3&J4) J5]. simpl in *.
  split. intros e. rewrite J5, I2. reflexivity.
  split; simpl; auto.
Qed.

Definition cs_ok (c : N -> Z) (v : list N) : Prop := NoDup v /\ forall e, In e v <-> c e >= 1.

Lemma apply_cs c v c' im : cs_ok c v -> crossing c c' im -> cs_ok c' (fst (set_apply v im)).
Proof.
  intros [N1 N2] [X1 X2]. destruct (set_apply v im) as [v' ap] eqn:E. simpl.
  destruct (set_apply_spec _ _ _ _ E) as (S1&_&_&S4&_).
  split; auto. intros e. rewrite (S4 e), X1, X2, N2.
  destruct (Z_ge_dec (c e) 1), (Z_ge_dec (c' e) 1); tauto.
Qed.

Lemma inherit_spec c v m c' v' : SN.inherit c v m = (c', v') ->
  (forall e, c' e = c e + occ e (fst m) - occ e (snd m)) /\ (cs_ok c v -> cs_ok c' v').
Proof.
  unfold SN.inherit. destruct (arith_add c m) as [c1 im] eqn:E. intros H; inversion H; subst.
  destruct (arith_add_spec _ _ _ _ E). split; auto. intros. eapply apply_cs; eauto.
Qed.

(* ---------------------------------------------------------------- rset_step *)
Lemma adds_app_nil es : forall l l', adds_app es l = (l', []) -> l' = l.
Proof.
  induction es; simpl; intros l l' H. inversion H; auto.
  destruct (mem a l); [eauto|]. destruct (adds_app es (l ++ [a])); inversion H.
Qed.
Lemma dels_app_nil es : forall l l', dels_app es l = (l', []) -> l' = l.
Proof.
  induction es; simpl; intros l l' H. inversion H; auto.
  destruct (mem a l); [|eauto]. destruct (dels_app es (sdel a l)); inversion H.
Qed.
Lemma mut_empty_true m : mut_empty m = true -> m = ([], []).
Proof. destruct m as [[|] [|]]; simpl; congruence. Qed.

Definition wf_sop (o : sop) : Prop :=
  match o with SAddAll es | SDeleteAll es | SReplace es => NoDup es | SApply a d => NoDup a /\ NoDup d | _ => True end.
Definition wf_op (o : SN.op) : Prop :=
  match o with SN.OBase _ bo | SN.ODirect bo => wf_sop bo | _ => True end.
Definition wf_bases (bs : list (list N)) : Prop := Forall (@NoDup N) bs.

Definition delta (l : list N) (m : mut) (l' : list N) : Prop :=
  forall e, b2z (mem e l') = b2z (mem e l) + occ e (fst m) - occ e (snd m).

Definition step_post (l : list N) (om : option mut) (l' : list N) : Prop :=
  match om with None => l' = l | Some m => mrel l m l' /\ delta l m l' end.

Lemma rset_generic l m l' om :
  (if mut_empty m then (l, None)
   else let '(l', ap) := set_apply l m in if mut_empty ap then (l', None) else (l', Some ap)) = (l', om) ->
  NoDup l -> NoDup l' /\ step_post l om l'.
Proof.
  destruct (mut_empty m). { intros H; inversion H; subst; simpl; auto. }
  destruct (set_apply l m) as [l1 ap] eqn:E.
  destruct (set_apply_spec _ _ _ _ E) as (S1&S2&S3&S4&S5&S6).
  pose proof (set_apply_delta _ _ _ _ E) as DL.
  destruct (mut_empty ap) eqn:ME; intros H ND; inversion H; subst; simpl; split; auto.
  - apply mut_empty_true in ME. subst ap. unfold set_apply in E.
    destruct (adds_app (fst m) l) as [x a] eqn:A. destruct (dels_app (snd m) x) as [y d] eqn:D.
    inversion E; subst. apply dels_app_nil in D. apply adds_app_nil in A. congruence.
  - split; auto. intros e. rewrite (S4 e), (S5 e), (S6 e). destruct (In_dec_N e l); tauto.
Qed.

Lemma rset_step_spec l o l' om : rset_step l o = (l', om) -> NoDup l -> wf_sop o ->
  NoDup l' /\ step_post l om l'.
Proof.
  destruct o; try (match goal with |- rset_step _ ?o = _ -> _ => intros H ND _; apply (rset_generic l (sop_mut o) l' om); [exact H | exact ND] end; fail).
  simpl. intros H ND W. inversion H; subst; clear H. split; auto. unfold step_post.
  assert (F1 : forall e, In e (filter (fun e => negb (mem e l)) l') <-> In e l' /\ ~ In e l).
  { intros. rewrite filter_In, negb_true_iff, mem_nIn. tauto. }
  assert (F2 : forall e, In e (filter (fun e => negb (mem e l')) l) <-> In e l /\ ~ In e l').
  { intros. rewrite filter_In, negb_true_iff, mem_nIn. tauto. }
  split.
  - intros e. simpl. rewrite F1, F2. destruct (In_dec_N e l), (In_dec_N e l'); tauto.
  - intros e. simpl. rewrite !occ_nodup by (apply NoDup_filter; auto).
    specialize (F1 e). specialize (F2 e).
    destruct (mem e l') eqn:E1; destruct (mem e l) eqn:E2;
    destruct (mem e (filter (fun e => negb (mem e l)) l')) eqn:E3;
    destruct (mem e (filter (fun e => negb (mem e l')) l)) eqn:E4; simpl; try lia; exfalso; memIn; tauto.
Qed.

(* ---------------------------------------------------------------- set_nth *)
Lemma nth_error_set_nth {A} (v : A) : forall l i j x, nth_error l i = Some x ->
  nth_error (SN.set_nth i v l) j = if Nat.eqb j i then Some v else nth_error l j.
Proof.
  induction l; intros [|i] [|j] x H; simpl in *; try congruence; auto. eapply IHl; eauto.
Qed.
Lemma set_nth_same {A} : forall (l : list A) i x, nth_error l i = Some x -> SN.set_nth i x l = l.
Proof. induction l; intros [|i] x H; simpl in *; try congruence. f_equal; auto. Qed.
Lemma Forall_set_nth {A} (P : A -> Prop) v : forall l i, Forall P l -> P v -> Forall P (SN.set_nth i v l).
Proof.
  induction l; intros [|i] H Pv; simpl; auto; inversion H; subst; constructor; auto.
Qed.

(* ---------------------------------------------------------------- SubtractReactive *)
Definition memb (bs : list (list N)) (i : nat) (e : N) : Z :=
  match nth_error bs i with Some l => b2z (mem e l) | None => 0 end.
Fixpoint sumoth (bs : list (list N)) (os : list nat) (e : N) : Z :=
  match os with [] => 0 | o :: r => memb bs o e + sumoth bs r e end.

Lemma memb_range bs i e : 0 <= memb bs i e <= 1.
Proof. unfold memb. destruct (nth_error bs i); [destruct (mem e l)|]; simpl; lia. Qed.
Lemma sumoth_nonneg bs os e : 0 <= sumoth bs os e.
Proof. induction os; simpl; [lia|]. pose proof (memb_range bs a e). lia. Qed.
Lemma sumoth_app bs os o e : sumoth bs (os ++ [o]) e = sumoth bs os e + memb bs o e.
Proof. induction os; simpl; lia. Qed.
Lemma memb_one bs i e : memb bs i e = 1 <-> exists l, nth_error bs i = Some l /\ In e l.
Proof.
  unfold memb. destruct (nth_error bs i) as [l|].
  - destruct (mem e l) eqn:E; memIn; simpl; split; intros H; try lia; eauto.
    destruct H as [l0 [H1 H2]]. inversion H1; subst. tauto.
  - split; [lia|]. intros [l [H _]]; congruence.
Qed.
Lemma sumoth_zero bs os e : sumoth bs os e = 0 <->
  forall o l, In o os -> nth_error bs o = Some l -> ~ In e l.
Proof.
  induction os as [|a r IH]; simpl. { split; auto. }
  pose proof (memb_range bs a e). pose proof (sumoth_nonneg bs r e). split.
  - intros H1 o l [Ho|Ho] Hn Hi.
    + subst. assert (memb bs o e = 1) by (apply memb_one; eauto). lia.
    + assert (Z0 : sumoth bs r e = 0) by lia. destruct IH as [IH1 _]. eapply (IH1 Z0); eauto.
  - intros Hall. assert (sumoth bs r e = 0) by (apply IH; intros; eapply Hall; eauto).
    assert (memb bs a e <> 1). { rewrite memb_one. intros [l [A B]]. eapply Hall; eauto. }
    lia.
Qed.
Lemma memb_set_nth bs i l l' o e : nth_error bs i = Some l ->
  memb (SN.set_nth i l' bs) o e = if Nat.eqb o i then b2z (mem e l') else memb bs o e.
Proof.
  intros H. unfold memb. rewrite (nth_error_set_nth l' bs i o l H). destruct (Nat.eqb o i); auto.
Qed.

Definition r_ok (bs : list (list N)) (r : SN.rsub) : Prop :=
  cs_ok (SN.rcnt r) (SN.rval r) /\
  forall e, SN.rcnt r e = memb bs (SN.rsrc r) e - sumoth bs (SN.roth r) e.

Lemma rapply_add r m : let r' := SN.rapply r (arith_add (SN.rcnt r) m) in
  SN.rsrc r' = SN.rsrc r /\ SN.roth r' = SN.roth r /\
  (forall e, SN.rcnt r' e = SN.rcnt r e + occ e (fst m) - occ e (snd m)) /\
  (cs_ok (SN.rcnt r) (SN.rval r) -> cs_ok (SN.rcnt r') (SN.rval r')).
Proof.
  destruct (arith_add (SN.rcnt r) m) as [c im] eqn:E. destruct (arith_add_spec _ _ _ _ E).
  simpl. repeat split; auto; eapply apply_cs; eauto.
Qed.
Lemma rapply_sub r m : let r' := SN.rapply r (arith_sub (SN.rcnt r) m) in
  SN.rsrc r' = SN.rsrc r /\ SN.roth r' = SN.roth r /\
  (forall e, SN.rcnt r' e = SN.rcnt r e - occ e (fst m) + occ e (snd m)) /\
  (cs_ok (SN.rcnt r) (SN.rval r) -> cs_ok (SN.rcnt r') (SN.rval r')).
Proof.
  destruct (arith_sub (SN.rcnt r) m) as [c im] eqn:E. destruct (arith_sub_spec _ _ _ _ E).
  simpl. repeat split; auto; eapply apply_cs; eauto.
Qed.

Lemma rdeliver_ok bs i l l' m r : nth_error bs i = Some l -> delta l m l' ->
  r_ok bs r -> r_ok (SN.set_nth i l' bs) (SN.rdeliver i m r).
Proof.
  intros Hn DL [C0 R0]. unfold SN.rdeliver.
  set (bs' := SN.set_nth i l' bs).
  set (r1 := if Nat.eqb (SN.rsrc r) i then SN.rapply r (arith_add (SN.rcnt r) m) else r).
  assert (H1 : cs_ok (SN.rcnt r1) (SN.rval r1) /\ SN.rsrc r1 = SN.rsrc r /\ SN.roth r1 = SN.roth r /\
               forall e, SN.rcnt r1 e = SN.rcnt r e + (memb bs' (SN.rsrc r) e - memb bs (SN.rsrc r) e)).
  { unfold r1, bs'. destruct (Nat.eqb_spec (SN.rsrc r) i) as [Ei|Ei].
    - destruct (rapply_add r m) as (A&B&C&D). split; [auto|split; [auto|split; [auto|]]].
      intros e. rewrite C, (memb_set_nth bs i l l' _ e Hn), Ei, Nat.eqb_refl.
      unfold memb. rewrite Hn. rewrite (DL e). lia.
    - split; [auto|split; [auto|split; [auto|]]]. intros e. rewrite (memb_set_nth bs i l l' _ e Hn).
      apply Nat.eqb_neq in Ei. rewrite Ei. lia. }
  destruct H1 as (C1&S1&O1&R1). rewrite <- O1.
  assert (G : forall os r1, cs_ok (SN.rcnt r1) (SN.rval r1) ->
     let r2 := fold_left (fun r o => if Nat.eqb o i then SN.rapply r (arith_sub (SN.rcnt r) m) else r) os r1 in
     cs_ok (SN.rcnt r2) (SN.rval r2) /\ SN.rsrc r2 = SN.rsrc r1 /\ SN.roth r2 = SN.roth r1 /\
     forall e, SN.rcnt r2 e = SN.rcnt r1 e - (sumoth bs' os e - sumoth bs os e)).
  { clear - Hn DL. induction os as [|o os IH]; intros r1 C1; simpl.
    - split; [auto|split; [auto|split; [auto|]]]. intros; lia.
    - destruct (Nat.eqb_spec o i) as [Ei|Ei].
      + destruct (rapply_sub r1 m) as (A&B&C&D).
        destruct (IH _ (D C1)) as (I1&I2&I3&I4). split; [auto|split; [congruence|split; [congruence|]]].
        intros e. rewrite I4, C. unfold bs'. rewrite (memb_set_nth bs i l l' _ e Hn), Ei, Nat.eqb_refl.
        unfold memb. rewrite Hn. rewrite (DL e). lia.
      + destruct (IH _ C1) as (I1&I2&I3&I4). split; [auto|split; [auto|split; [auto|]]].
        intros e. rewrite I4. unfold bs'. rewrite (memb_set_nth bs i l l' _ e Hn).
        apply Nat.eqb_neq in Ei. rewrite Ei. lia. }
  destruct (G (SN.roth r1) r1 C1) as (G1&G2&G3&G4). split; auto.
  intros e. rewrite G4, G2, G3, S1, R1, R0, O1. lia.
Qed.

Lemma initial_mut_spec l : match SN.initial_mut l with None => l = [] | Some m => m = (l, []) end.
Proof. destruct l; simpl; auto. Qed.

Lemma mksub_ok bs i l others : Forall (@NoDup N) bs -> nth_error bs i = Some l ->
  let r0 := SN.mkr i [] (fun _ => 0%Z) [] in
  let r1 := match SN.initial_mut l with None => r0 | Some m => SN.rapply r0 (arith_add (SN.rcnt r0) m) end in
  let r2 := fold_left (fun r o =>
                       match nth_error bs o with
                       | None => r
                       | Some lo =>
                           let r' := SN.mkr (SN.rsrc r) (SN.roth r ++ [o]) (SN.rcnt r) (SN.rval r) in
                           match SN.initial_mut lo with None => r' | Some m => SN.rapply r' (arith_sub (SN.rcnt r') m) end
                       end) others r1 in
  r_ok bs r2.
Proof.
  intros WB Hn r0 r1 r2.
  assert (ND : forall o lo, nth_error bs o = Some lo -> NoDup lo).
  { intros o lo H. eapply Forall_forall in WB; eauto. eapply nth_error_In; eauto. }
  assert (C0 : cs_ok (SN.rcnt r0) (SN.rval r0)).
  { unfold r0; simpl. split; [constructor|]. intros e; simpl. split; [tauto|lia]. }
  assert (K1 : r_ok bs r1).
  { unfold r1. pose proof (initial_mut_spec l) as IM. destruct (SN.initial_mut l) as [m|].
    - subst m. destruct (rapply_add r0 (l, [])) as (A&B&C&D). split; auto.
      intros e. rewrite C, A, B. simpl. unfold memb. rewrite Hn. rewrite occ_nodup by eauto. lia.
    - subst l. split; auto. intros e. simpl. unfold memb. rewrite Hn. simpl. lia. }
  unfold r2. clearbody r1. clear r2 r0 C0. revert r1 K1.
  induction others as [|o os IH]; intros r1 K1; simpl; auto.
  apply IH. destruct (nth_error bs o) as [lo|] eqn:Ho; auto.
  destruct K1 as [C1 R1].
  set (r' := SN.mkr (SN.rsrc r1) (SN.roth r1 ++ [o]) (SN.rcnt r1) (SN.rval r1)).
  assert (K' : forall e, SN.rcnt r' e = memb bs (SN.rsrc r') e - sumoth bs (SN.roth r') e + memb bs o e).
  { intros e. unfold r'; simpl. rewrite sumoth_app, R1. lia. }
  pose proof (initial_mut_spec lo) as IM. destruct (SN.initial_mut lo) as [m|].
  - subst m. destruct (rapply_sub r' (lo, [])) as (A&B&C&D). split; [apply D; exact C1|].
    intros e. rewrite C.
    change (SN.rsrc (SN.rapply r' (arith_sub (SN.rcnt r1) (lo, [])))) with (SN.rsrc r').
    change (SN.roth (SN.rapply r' (arith_sub (SN.rcnt r1) (lo, [])))) with (SN.roth r').
    rewrite K'. simpl.
    assert (Mo : memb bs o e = b2z (mem e lo)) by (unfold memb; rewrite Ho; auto).
    rewrite Mo. rewrite occ_nodup by eauto. lia.
  - subst lo. split; [exact C1|]. intros e. rewrite K'.
    assert (Mo : memb bs o e = 0) by (unfold memb; rewrite Ho; auto).
    rewrite Mo. simpl. lia.
Qed.

Definition invBR (s : SN.st) : Prop :=
  Forall (@NoDup N) (SN.bases s) /\
  match SN.rs s with None => True | Some r => r_ok (SN.bases s) r end.

Lemma step_invBR s o : wf_op o -> invBR s -> invBR (SN.step s o).
Proof.
  intros W [B R]. destruct o; simpl.
  - destruct (nth_error (SN.bases s) i) as [l|] eqn:Hn; [|split; auto].
    destruct (rset_step l o) as [l' om] eqn:RS.
    assert (NDl : NoDup l). { eapply Forall_forall in B; eauto. eapply nth_error_In; eauto. }
    destruct (rset_step_spec _ _ _ _ RS NDl W) as [ND' SP].
    destruct om as [m|]; simpl in SP.
    + destruct (SN.deliver i m (SN.subs s) (SN.dcnt s) (SN.dval s)) as [[ss c] v]. unfold invBR; simpl.
      split. apply Forall_set_nth; auto.
      destruct (SN.rs s) as [r|]; simpl; auto. destruct SP. eapply rdeliver_ok; eauto.
    + subst l'. unfold invBR; simpl. rewrite (set_nth_same _ _ _ Hn). split; auto.
  - destruct (nth_error (SN.bases s) i) as [l|]; [|split; auto].
    destruct (SN.initial_mut l); [|split; auto].
    destruct (set_apply [] m) as [sh ap]. destruct (SN.inherit (SN.dcnt s) (SN.dval s) ap). split; auto.
  - destruct (nth_error (SN.subs s) j) as [sb|]; [|split; auto].
    destruct (SN.inherit (SN.dcnt s) (SN.dval s) ([], SN.shadow sb)). split; auto.
  - destruct (rset_step (SN.dval s) o). split; auto.
  - destruct (nth_error (SN.bases s) i) as [l|] eqn:Hn; [|split; auto].
    unfold invBR; simpl. split; auto. apply mksub_ok; auto.
Qed.

Lemma run_invBR h : forall s, Forall wf_op h -> invBR s -> invBR (SN.run s h).
Proof.
  induction h as [|o h IH]; simpl; intros s W I; auto.
  inversion W; subst. apply IH; auto. apply step_invBR; auto.
Qed.

Theorem sn_subtract : forall bs h, wf_bases bs -> Forall wf_op h ->
  let s := SN.run (SN.init bs) h in
  forall r, SN.rs s = Some r ->
  NoDup (SN.rval r) /\
  forall e, In e (SN.rval r) <->
    (exists l, nth_error (SN.bases s) (SN.rsrc r) = Some l /\ In e l) /\
    (forall o l, In o (SN.roth r) -> nth_error (SN.bases s) o = Some l -> ~ In e l).
Proof.
  intros bs h WB WH s r Hr.
  assert (I : invBR s). { apply run_invBR; auto. split; simpl; auto. }
  destruct I as [_ I]. rewrite Hr in I. destruct I as [[ND C] R]. split; auto.
  intros e. rewrite C, R, <- memb_one, <- sumoth_zero.
  pose proof (memb_range (SN.bases s) (SN.rsrc r) e). pose proof (sumoth_nonneg (SN.bases s) (SN.roth r) e).
  lia.
Qed.

(* ---------------------------------------------------------------- DerivedSet.InheritFrom *)
Definition contrib (sb : SN.sub) (e : N) : Z :=
  if mem e (SN.shadow sb) then 1 - Z.of_nat (SN.unsubs sb) else 0.
Fixpoint sumc (ss : list SN.sub) (e : N) : Z :=
  match ss with [] => 0 | sb :: r => contrib sb e + sumc r e end.

Definition sub_ok (bs : list (list N)) (sb : SN.sub) : Prop :=
  NoDup (SN.shadow sb) /\
  (SN.active sb = true -> SN.unsubs sb = 0%nat /\
     exists l, nth_error bs (SN.src sb) = Some l /\ forall e, In e (SN.shadow sb) <-> In e l) /\
  (SN.active sb = false -> (1 <= SN.unsubs sb)%nat).

Definition invD (s : SN.st) : Prop :=
  Forall (sub_ok (SN.bases s)) (SN.subs s) /\
  (forall e, SN.dcnt s e = sumc (SN.subs s) e) /\
  (SN.ddirty s = false -> cs_ok (SN.dcnt s) (SN.dval s)).

Lemma sumc_app ss sb e : sumc (ss ++ [sb]) e = sumc ss e + contrib sb e.
Proof. induction ss; simpl; lia. Qed.
Lemma sumc_set_nth sb' : forall ss j sb e, nth_error ss j = Some sb ->
  sumc (SN.set_nth j sb' ss) e = sumc ss e - contrib sb e + contrib sb' e.
Proof.
  induction ss; intros [|j] sb e H; simpl in *; try congruence.
  - inversion H; subst. lia.
  - rewrite (IHss _ _ _ H). lia.
Qed.

Lemma deliver_cons i m s r c v : SN.deliver i m (s :: r) c v =
      if Nat.eqb (SN.src s) i && SN.active s then
        let '(sh, ap) := set_apply (SN.shadow s) m in
        let '(c1, v1) := SN.inherit c v ap in
        let '(r', c2, v2) := SN.deliver i m r c1 v1 in
        (SN.mksub (SN.src s) sh true (SN.unsubs s) :: r', c2, v2)
      else let '(r', c2, v2) := SN.deliver i m r c v in (s :: r', c2, v2).
Proof. reflexivity. Qed.

Lemma deliver_ok bs i l l' m : nth_error bs i = Some l -> mrel l m l' ->
  forall ss c v ss' c' v', SN.deliver i m ss c v = (ss', c', v') ->
  Forall (sub_ok bs) ss ->
  Forall (sub_ok (SN.set_nth i l' bs)) ss' /\
  (forall e, c' e - sumc ss' e = c e - sumc ss e) /\
  (cs_ok c v -> cs_ok c' v').
Proof.
  intros Hn MR. induction ss as [|sb r IH]; intros c v ss' c' v' H FA.
  - simpl in H. inversion H; subst. split; auto.
  - rewrite deliver_cons in H. inversion FA as [|? ? OK FA']; subst.
    destruct (Nat.eqb (SN.src sb) i && SN.active sb) eqn:G.
    + apply andb_true_iff in G. destruct G as [G1 G2]. apply Nat.eqb_eq in G1.
      destruct (set_apply (SN.shadow sb) m) as [sh ap] eqn:SA.
      destruct (SN.inherit c v ap) as [c1 v1] eqn:IN.
      destruct (SN.deliver i m r c1 v1) as [[r' c2] v2] eqn:DR.
      injection H as <- <- <-.
      destruct (IH _ _ _ _ _ DR FA') as (I1&I2&I3).
      destruct (inherit_spec _ _ _ _ _ IN) as [J1 J2].
      destruct (set_apply_spec _ _ _ _ SA) as (S1&_&_&S4&_).
      pose proof (set_apply_delta _ _ _ _ SA) as DL.
      destruct OK as (N1&ACT&_). destruct (ACT G2) as (U0&l0&Hl0&EQ).
      rewrite G1, Hn in Hl0. inversion Hl0; subst l0.
      split; [|split].
      * constructor; auto. split; [|split]; simpl; auto; try discriminate.
        intros _. split; auto. exists l'. split.
        { rewrite (nth_error_set_nth l' bs i _ l Hn). rewrite G1, Nat.eqb_refl. auto. }
        intros e. rewrite (S4 e), (MR e), (EQ e). tauto.
      * intros e. cbn [sumc]. specialize (I2 e). specialize (J1 e). specialize (DL e).
        unfold contrib, b2z in *; cbn [SN.shadow SN.unsubs] in *. rewrite U0.
        destruct (mem e sh), (mem e (SN.shadow sb)); cbv iota in *; lia.
      * intros. apply I3, J2; auto.
    + destruct (SN.deliver i m r c v) as [[r' c2] v2] eqn:DR.
      injection H as <- <- <-.
      destruct (IH _ _ _ _ _ DR FA') as (I1&I2&I3).
      split; [|split]; auto.
      * constructor; auto. destruct OK as (N1&ACT&INA). split; [|split]; auto.
        intros A. destruct (ACT A) as (U0&l0&Hl0&EQ). split; auto. exists l0. split; auto.
        rewrite (nth_error_set_nth l' bs i _ l Hn). rewrite A, andb_true_r in G. rewrite G. auto.
      * intros e. simpl. specialize (I2 e). lia.
Qed.

Lemma step_invD s o : wf_op o -> Forall (@NoDup N) (SN.bases s) -> invD s -> invD (SN.step s o).
Proof.
  intros W B (SO&DC&CS). destruct o; cbn [SN.step].
  - destruct (nth_error (SN.bases s) i) as [l|] eqn:Hn; [|split; auto].
    destruct (rset_step l o) as [l' om] eqn:RS.
    assert (NDl : NoDup l). { eapply Forall_forall in B; eauto. eapply nth_error_In; eauto. }
    destruct (rset_step_spec _ _ _ _ RS NDl W) as [ND' SP].
    destruct om as [m|]; simpl in SP.
    + destruct (SN.deliver i m (SN.subs s) (SN.dcnt s) (SN.dval s)) as [[ss c] v] eqn:DE.
      destruct SP as [MR _].
      destruct (deliver_ok _ _ _ _ _ Hn MR _ _ _ _ _ _ DE SO) as (D1&D2&D3).
      unfold invD; simpl. split; [auto|split]; auto.
      intros e. specialize (D2 e). specialize (DC e). lia.
    + subst l'. unfold invD; simpl. rewrite (set_nth_same _ _ _ Hn). split; auto.
  - destruct (nth_error (SN.bases s) i) as [l|] eqn:Hn; [|split; auto].
    assert (NDl : NoDup l). { eapply Forall_forall in B; eauto. eapply nth_error_In; eauto. }
    pose proof (initial_mut_spec l) as IM. destruct (SN.initial_mut l) as [m|].
    + subst m. destruct (set_apply [] (l, [])) as [sh ap] eqn:SA.
      destruct (SN.inherit (SN.dcnt s) (SN.dval s) ap) as [c1 v1] eqn:IN.
      destruct (inherit_spec _ _ _ _ _ IN) as [J1 J2].
      destruct (set_apply_spec _ _ _ _ SA) as (S1&_&_&S4&_).
      pose proof (set_apply_delta _ _ _ _ SA) as DL.
      unfold invD; simpl. split; [|split]; auto.
      * apply Forall_app. split; auto. constructor; auto.
        split; [|split]; simpl; try discriminate. apply S1; constructor.
        intros _. split; auto. exists l. split; auto. intros e. rewrite (S4 e). simpl. tauto.
      * intros e. rewrite sumc_app, J1, DC. specialize (DL e). change (mem e []) with false in DL.
        unfold contrib, b2z in *; cbn [SN.shadow SN.unsubs] in *.
        destruct (mem e sh); cbv iota in *; lia.
    + subst l. unfold invD; simpl. split; [|split]; auto.
      * apply Forall_app. split; auto. constructor; auto.
        split; [|split]; simpl; try discriminate. constructor.
        intros _. split; auto. exists []. split; auto. intros; tauto.
      * intros e. rewrite sumc_app, DC. unfold contrib; simpl. lia.
  - destruct (nth_error (SN.subs s) j) as [sb|] eqn:Hj; [|split; auto].
    destruct (SN.inherit (SN.dcnt s) (SN.dval s) ([], SN.shadow sb)) as [c1 v1] eqn:IN.
    destruct (inherit_spec _ _ _ _ _ IN) as [J1 J2].
    assert (OK : sub_ok (SN.bases s) sb). { eapply Forall_forall in SO; eauto. eapply nth_error_In; eauto. }
    destruct OK as (N1&_&_).
    unfold invD; simpl. split; [|split]; auto.
    + apply Forall_set_nth; auto. split; [|split]; simpl; auto; try discriminate. intros; lia.
    + intros e. rewrite (sumc_set_nth _ _ _ _ e Hj), J1, DC. cbn [fst snd occ]. rewrite (occ_nodup _ _ N1).
      unfold contrib, b2z; cbn [SN.shadow SN.unsubs fst snd occ]. destruct (mem e (SN.shadow sb)); lia.
  - destruct (rset_step (SN.dval s) o). unfold invD; simpl. split; [|split]; auto. discriminate.
  - destruct (nth_error (SN.bases s) i) as [l|] eqn:Hn; split; auto.
Qed.

Lemma run_inv h : forall s, Forall wf_op h -> invBR s -> invD s -> invBR (SN.run s h) /\ invD (SN.run s h).
Proof.
  induction h as [|o h IH]; simpl; intros s W I J; auto.
  inversion W; subst. apply IH; auto. apply step_invBR; auto. apply step_invD; auto. apply I.
Qed.

Lemma sumc_pos ss e : (forall sb, In sb ss -> 0 <= contrib sb e) ->
  (sumc ss e >= 1 <-> exists sb, In sb ss /\ contrib sb e >= 1).
Proof.
  induction ss as [|a r IH]; simpl; intros P.
  - split; [lia|]. intros [sb [[] _]].
  - assert (Pa : 0 <= contrib a e) by (apply P; auto).
    assert (Pr : forall sb, In sb r -> 0 <= contrib sb e) by (intros; apply P; auto).
    specialize (IH Pr).
    assert (Sr : 0 <= sumc r e).
    { clear - Pr. induction r; simpl; [lia|]. assert (0 <= contrib a e) by (apply Pr; simpl; auto).
      assert (0 <= sumc r e) by (apply IHr; intros; apply Pr; simpl; auto). lia. }
    split.
    + intros H. destruct (Z_ge_dec (contrib a e) 1). exists a; auto.
      assert (H' : sumc r e >= 1) by lia. apply IH in H'. destruct H' as [sb [A1 A2]]. exists sb; auto.
    + intros [sb [[A1|A1] A2]]. subst; lia.
      assert (sumc r e >= 1) by (apply IH; exists sb; auto). lia.
Qed.

Theorem sn_union : forall bs h, wf_bases bs -> Forall wf_op h ->
  let s := SN.run (SN.init bs) h in
  SN.ddirty s = false -> Forall (fun sb => (SN.unsubs sb <= 1)%nat) (SN.subs s) ->
  NoDup (SN.dval s) /\
  forall e, In e (SN.dval s) <->
    exists sb l, In sb (SN.subs s) /\ SN.active sb = true /\ nth_error (SN.bases s) (SN.src sb) = Some l /\ In e l.
Proof.
  intros bs h WB WH s DD US.
  assert (I : invBR s /\ invD s).
  { apply run_inv; auto. split; simpl; auto. split; simpl; auto. split; auto.
    intros _. split; [constructor|]. simpl. intros; split; [tauto|lia]. }
  destruct I as [_ (SO&DC&CS)]. destruct (CS DD) as [ND C]. split; auto.
  intros e. rewrite C, DC.
  assert (CB : forall sb, In sb (SN.subs s) ->
     (contrib sb e = 0 \/ contrib sb e = 1) /\
     (contrib sb e >= 1 <-> SN.active sb = true /\ exists l, nth_error (SN.bases s) (SN.src sb) = Some l /\ In e l)).
  { intros sb Hs. pose proof (proj1 (Forall_forall _ _) SO _ Hs) as (N1&ACT&INA).
    pose proof (proj1 (Forall_forall _ _) US _ Hs) as U1. simpl in U1.
    unfold contrib. destruct (SN.active sb) eqn:A.
    - destruct (ACT eq_refl) as (U0&l0&Hl0&EQ). rewrite U0. simpl.
      destruct (mem e (SN.shadow sb)) eqn:M; memIn.
      + split; [lia|]. split; [|lia]. intros _. split; auto. exists l0. split; auto. apply EQ; auto.
      + split; [lia|]. split; [lia|]. intros [_ [l1 [H1 H2]]]. rewrite Hl0 in H1. inversion H1; subst.
        apply EQ in H2. tauto.
    - specialize (INA eq_refl). destruct (mem e (SN.shadow sb)).
      + split; [lia|]. split; [lia|]. intros [? _]; discriminate.
      + split; [lia|]. split; [lia|]. intros [? _]; discriminate. }
  rewrite sumc_pos by (intros sb Hs; destruct (CB sb Hs) as [[?|?] _]; lia).
  split.
  - intros [sb [Hs Hc]]. apply (CB sb Hs) in Hc. destruct Hc as [A [l [H1 H2]]]. exists sb, l. auto.
  - intros [sb [l [Hs [A [H1 H2]]]]]. exists sb. split; auto. apply (CB sb Hs). split; auto. exists l; auto.
Qed.

(* ---------------------------------------------------------------- non-vacuity *)
Definition ex_bs : list (list N) := [[1;2;3]; [2;3;4]; [5]]%N.
Definition ex_h : list SN.op :=
  [SN.OInherit 0; SN.OInherit 1; SN.OMkSub 0 [1%nat]; SN.OBase 0 (SReplace [3;6;7]%N);
   SN.OBase 1 (SDelete 2%N); SN.OUnsub 0; SN.OBase 1 (SAdd 2%N); SN.OBase 0 (SApply [8]%N [8;3]%N);
   SN.OBase 1 (SAddAll [9;6]%N); SN.OInherit 2].

Example sn_nonvacuous :
  wf_bases ex_bs /\ Forall wf_op ex_h /\
  let s := SN.run (SN.init ex_bs) ex_h in
  SN.ddirty s = false /\ Forall (fun sb => (SN.unsubs sb <= 1)%nat) (SN.subs s) /\
  SN.bases s = [[6;7]; [3;4;2;9;6]; [5]]%N /\
  map SN.active (SN.subs s) = [false; true; true] /\
  SN.dval s = [3;4;2;9;6;5]%N /\
  option_map SN.rval (SN.rs s) = Some [7%N].
Proof.
  split; [|split].
  - unfold wf_bases, ex_bs. repeat constructor; simpl; try (intuition congruence); try (intuition discriminate).
  - unfold ex_h. repeat constructor; simpl; try (intuition congruence); try (intuition discriminate).
  - vm_compute. repeat split; auto; repeat constructor.
Qed.
