(* C14 (6'): EvictionState with re-entrant handlers (ModelEVR.v). For every history of top-level calls whose event handlers
   are arbitrary scripts of calls back into the state (reads, re-arming further events with further handlers, nested
   evictions): every call runs to completion (never stuck on e.mutex, the fuel of EVR.call always suffices), and at
   every quiescent point the triggered events are exactly those of slots <= last evicted slot. The variant that
   triggers while holding e.mutex is stuck on a two-call history. *)
From Coq Require Import ZArith NArith List Bool Lia Arith.
From Verif.C14_Derived Require Import Model ModelEVR ProofsEV.
Import ListNotations.
Import EVR.
Open Scope N_scope.

(* ---- the sequential model EV as abstraction: collected-but-not-yet-triggered events count as triggered ---- *)
Definition pend (stk : list item) : list nat :=
  flat_map (fun i => match i with ITrigger id => [id] | _ => [] end) stk.
Definition abs (s : st) (stk : list item) : EV.st :=
  EV.mk (EV.last (base s)) (EV.evs (base s)) (EV.nev (base s)) (pend stk ++ EV.tr (base s)) (EV.handles (base s)).
Definition J (s : st) (stk : list item) : Prop := ProofsEV.Inv (abs s stk).

Lemma pend_app : forall a b, pend (a ++ b) = pend a ++ pend b.
Proof. intros. unfold pend. apply flat_map_app. Qed.
Lemma pend_acts : forall l, pend (map IAct l) = [].
Proof. induction l; simpl; auto. Qed.
Lemma pend_flat : forall (l : list (nat * list act)), pend (flat_map (fun p => map IAct (snd p)) l) = [].
Proof. induction l; simpl; auto. rewrite pend_app, pend_acts, IHl. auto. Qed.
Lemma pend_triggers : forall ids, pend (map ITrigger ids) = ids.
Proof. induction ids; simpl; auto. f_equal. exact IHids. Qed.

Lemma tr_of_equiv : forall a b, (forall id, In id (EV.tr a) <-> In id (EV.tr b)) ->
  forall id, ProofsEV.tr_of a id = ProofsEV.tr_of b id.
Proof.
  intros a b H id. unfold ProofsEV.tr_of.
  destruct (existsb (Nat.eqb id) (EV.tr a)) eqn:Ea; destruct (existsb (Nat.eqb id) (EV.tr b)) eqn:Eb; auto.
  - apply ProofsEV.existsb_eqb_in in Ea. apply H in Ea. apply ProofsEV.existsb_eqb_in in Ea. congruence.
  - apply ProofsEV.existsb_eqb_in in Eb. apply H in Eb. apply ProofsEV.existsb_eqb_in in Eb. congruence.
Qed.

Lemma Inv_equiv : forall a b, EV.last a = EV.last b -> EV.evs a = EV.evs b -> EV.nev a = EV.nev b ->
  EV.handles a = EV.handles b -> (forall id, In id (EV.tr a) <-> In id (EV.tr b)) ->
  ProofsEV.Inv a -> ProofsEV.Inv b.
Proof.
  intros a b H1 H2 H3 H4 H5 [I1 I2 I3 I4 I5].
  pose proof (tr_of_equiv a b H5) as T.
  constructor.
  - intros k id Hin. rewrite <- H2 in Hin. rewrite <- H1, <- H3, <- T. apply I1; auto.
  - rewrite <- H2. auto.
  - rewrite <- H2. auto.
  - intros id Hin. rewrite <- H3. apply I4. apply H5. auto.
  - intros slot hd Hin. rewrite <- H4 in Hin. specialize (I5 _ _ Hin). destruct hd as [id|].
    + rewrite <- H1, <- H2, <- H3, <- T. auto.
    + rewrite <- H1. auto.
Qed.

Lemma in_ins_by_key : forall kv l x, In x (ins_by_key kv l) <-> x = kv \/ In x l.
Proof.
  induction l as [|y l]; simpl; intros.
  - split; intros [H|H]; auto; tauto.
  - destruct (fst kv <=? fst y); simpl.
    + split; intros H; [destruct H as [H|H]; auto|destruct H as [H|H]; auto].
    + rewrite IHl. split; intros H; tauto.
Qed.
Lemma in_sort_by_key : forall l x, In x (sort_by_key l) <-> In x l.
Proof.
  induction l; simpl; intros; [tauto|]. rewrite in_ins_by_key, IHl. split; intros [H|H]; auto.
Qed.
Lemma length_ins_by_key : forall kv l, length (ins_by_key kv l) = S (length l).
Proof. induction l; simpl; auto. destruct (fst kv <=? fst a); simpl; auto. Qed.
Lemma length_sort_by_key : forall l, length (sort_by_key l) = length l.
Proof. induction l; simpl; auto. rewrite length_ins_by_key. auto. Qed.

Lemma abs_event : forall s slot stk,
  EV.step (abs s stk) (EV.OEvent slot) =
  EV.mk (EV.last (EV.step (base s) (EV.OEvent slot))) (EV.evs (EV.step (base s) (EV.OEvent slot)))
        (EV.nev (EV.step (base s) (EV.OEvent slot))) (pend stk ++ EV.tr (EV.step (base s) (EV.OEvent slot)))
        (EV.handles (EV.step (base s) (EV.OEvent slot))).
Proof.
  intros. unfold abs. simpl. destruct (EV.after_last (EV.last (base s)) slot); simpl; auto.
  destruct (EV.lookup slot (EV.evs (base s))); simpl; auto.
Qed.

Local Arguments EV.step : simpl never.

(* every machine step (both variants) keeps the abstraction inside the invariant of the sequential model *)
Lemma step_J : forall ul s i rest s' stk', step ul s i rest = Some (s', stk') -> J s (i :: rest) -> J s' stk'.
Proof.
  intros ul s i rest s' stk' E HJ. unfold J in *.
  destruct i as [a|id|].
  - destruct a as [|n|slot h|slot]; simpl in E.
    + destruct (locked s); [discriminate|]. inversion E; subst. exact HJ.
    + inversion E; subst. exact HJ.
    + destruct (locked s); [discriminate|].
      assert (G : forall hs' lk lg stk2, pend stk2 = pend rest ->
                ProofsEV.Inv (abs (mk (EV.step (base s) (EV.OEvent slot)) hs' lk lg) stk2)).
      { intros hs' lk lg stk2 Hp.
        pose proof (abs_event s slot (IAct (AEvent slot h) :: rest)) as A. simpl pend in A.
        assert (Eq : abs (mk (EV.step (base s) (EV.OEvent slot)) hs' lk lg) stk2 =
                     EV.step (abs s (IAct (AEvent slot h) :: rest)) (EV.OEvent slot)).
        { rewrite A. unfold abs. simpl base. rewrite Hp. reflexivity. }
        rewrite Eq. apply ProofsEV.step_inv. exact HJ. }
      destruct (EV.triggered (EV.step (base s) (EV.OEvent slot)) (handle_for (base s) slot)).
      * inversion E; subst. apply G. rewrite pend_app, pend_acts. auto.
      * destruct (handle_for (base s) slot); inversion E; subst; apply G; auto.
    + destruct (locked s); [discriminate|].
      destruct (EV.after_last (EV.last (base s)) slot) eqn:Ea; [|inversion E; subst; exact HJ].
      set (start := match EV.last (base s) with None => 0 | Some x => x + 1 end) in *.
      pose proof (ProofsEV.step_inv _ (EV.OEvict slot) HJ) as HS.
      unfold abs in HS at 1. unfold EV.step in HS. simpl in HS. rewrite Ea in HS. fold start in HS.
      assert (M : forall x, In x (map snd (sort_by_key (filter (EV.in_range start slot) (EV.evs (base s))))) <->
                            In x (map snd (filter (EV.in_range start slot) (EV.evs (base s))))).
      { intros x. rewrite !in_map_iff. split; intros (y & A & B); exists y; split; auto; apply in_sort_by_key; auto. }
      destruct ul; inversion E; subst; (eapply Inv_equiv; [| | | | |exact HS]); simpl; auto;
        intros x; rewrite pend_app, pend_triggers; simpl; rewrite !in_app_iff; rewrite M; tauto.
  - simpl in E. inversion E; subst. clear E.
    eapply Inv_equiv; [| | | | |exact HJ]; simpl; auto.
    intros x. rewrite pend_app, pend_flat. simpl. rewrite !in_app_iff. simpl. tauto.
  - simpl in E. inversion E; subst. exact HJ.
Qed.

(* ---- progress: the released variant is never stuck and every step consumes work ---- *)
Lemma step_some : forall s i rest, locked s = false -> exists s' stk', step false s i rest = Some (s', stk') /\ locked s' = false.
Proof.
  intros s i rest L. destruct i as [a|id|]; simpl.
  - destruct a as [|n|slot h|slot]; rewrite ?L; simpl.
    + eauto.
    + eexists; eexists; split; [reflexivity|]. auto.
    + destruct (EV.triggered _ _); [eauto|]. destruct (handle_for _ _); eauto.
    + destruct (EV.after_last _ _); eauto.
  - eexists; eexists; split; [reflexivity|]. auto.
  - eauto.
Qed.

Lemma ssize_app : forall a b, ssize (a ++ b) = (ssize a + ssize b)%nat.
Proof. intros. unfold ssize. rewrite map_app, list_sum_app. auto. Qed.
Lemma ssize_acts : forall h, ssize (map IAct h) = list_sum (map asize h).
Proof. induction h; simpl; auto. unfold ssize in *. simpl. rewrite IHh. auto. Qed.
Lemma ssize_triggers : forall ids, ssize (map ITrigger ids) = length ids.
Proof. induction ids; simpl; auto. unfold ssize in *. simpl. rewrite IHids. auto. Qed.
Lemma hsize_app : forall a b, hsize (a ++ b) = (hsize a + hsize b)%nat.
Proof. intros. unfold hsize. rewrite map_app, list_sum_app. auto. Qed.
Lemma hsize_partition : forall (p : nat * list act -> bool) l,
  (hsize (filter p l) + hsize (filter (fun x => negb (p x)) l) = hsize l)%nat.
Proof.
  induction l; simpl; auto. unfold hsize in *. destruct (p a); simpl; lia.
Qed.
Lemma ssize_flat : forall (l : list (nat * list act)), ssize (flat_map (fun p => map IAct (snd p)) l) = hsize l.
Proof.
  induction l; simpl; auto. rewrite ssize_app, ssize_acts, IHl. unfold hsize. simpl. auto.
Qed.
Lemma length_partition : forall {A} (p : A -> bool) l,
  (length (filter p l) + length (filter (fun x => negb (p x)) l) = length l)%nat.
Proof. induction l; simpl; auto. destruct (p a); simpl; lia. Qed.
Lemma evs_len_event : forall b slot, (length (EV.evs (EV.step b (EV.OEvent slot))) <= S (length (EV.evs b)))%nat.
Proof.
  intros. unfold EV.step. destruct (EV.after_last (EV.last b) slot); simpl; auto.
  destruct (EV.lookup slot (EV.evs b)); simpl; auto. rewrite app_length. simpl. lia.
Qed.
Lemma asize_pos : forall a, (1 <= asize a)%nat.
Proof. destruct a; simpl; lia. Qed.

Lemma step_measure : forall s i rest s' stk', locked s = false -> step false s i rest = Some (s', stk') ->
  (msize s' stk' < msize s (i :: rest))%nat.
Proof.
  intros s i rest s' stk' L E. unfold msize. destruct i as [a|id|].
  - destruct a as [|n|slot h|slot]; simpl in E; rewrite ?L in E.
    + inversion E; subst. unfold ssize. simpl. lia.
    + inversion E; subst. unfold ssize. simpl. lia.
    + pose proof (evs_len_event (base s) slot) as Hl.
      assert (S0 : ssize (IAct (AEvent slot h) :: rest) = (2 + list_sum (map asize h) + ssize rest)%nat)
        by (unfold ssize; simpl; lia).
      rewrite S0.
      destruct (EV.triggered _ _).
      * inversion E; subst. simpl base. simpl hs. rewrite ssize_app, ssize_acts. lia.
      * destruct (handle_for _ _); inversion E; subst; simpl base; simpl hs.
        -- rewrite hsize_app. unfold hsize at 2. simpl. lia.
        -- lia.
    + assert (S0 : ssize (IAct (AEvict slot) :: rest) = (1 + ssize rest)%nat) by (unfold ssize; simpl; lia).
      rewrite S0.
      destruct (EV.after_last _ _); inversion E; subst; [|lia].
      simpl base. simpl hs. simpl EV.evs.
      rewrite ssize_app, ssize_triggers, map_length, length_sort_by_key.
      set (start := match EV.last (base s) with None => 0 | Some x => x + 1 end).
      pose proof (length_partition (EV.in_range start slot) (EV.evs (base s))). lia.
  - simpl in E. inversion E; subst. simpl base. simpl hs. simpl EV.evs.
    rewrite ssize_app, ssize_flat.
    pose proof (hsize_partition (fun p => Nat.eqb (fst p) id) (hs s)).
    unfold ssize at 2. simpl. fold (ssize rest). lia.
  - simpl in E. inversion E; subst. unfold ssize. simpl. lia.
Qed.

Lemma exec_done : forall n s stk, locked s = false -> J s stk -> (msize s stk <= n)%nat ->
  exists s', exec false n s stk = Done s' /\ locked s' = false /\ J s' [].
Proof.
  induction n; intros s stk L HJ Hm.
  - destruct stk as [|i rest]; simpl; [eauto|].
    exfalso. unfold msize, ssize in Hm. simpl in Hm.
    assert (1 <= isize i)%nat by (destruct i; simpl; auto using asize_pos). lia.
  - destruct stk as [|i rest]; simpl; [eauto|].
    destruct (step_some s i rest L) as (s1 & stk1 & E & L1). rewrite E.
    apply IHn; auto.
    + eapply step_J; eauto.
    + pose proof (step_measure _ _ _ _ _ L E). lia.
Qed.

Lemma J_call : forall s a, J s [] -> J s [IAct a].
Proof. intros. exact H. Qed.

Lemma call_done : forall s a, locked s = false -> J s [] ->
  exists s', call false s a = Done s' /\ locked s' = false /\ J s' [].
Proof. intros. unfold call. apply exec_done; auto. Qed.

Lemma run_done : forall h s, locked s = false -> J s [] ->
  exists s', run false s h = Done s' /\ locked s' = false /\ J s' [].
Proof.
  induction h as [|a h]; intros s L HJ; simpl; [eauto|].
  destruct (call_done s a L HJ) as (s1 & E & L1 & J1). rewrite E. apply IHh; auto.
Qed.

Lemma J_init : J init [].
Proof. unfold J, abs. simpl. apply ProofsEV.init_inv. Qed.

Lemma abs_nil : forall s, abs s [] = base s.
Proof. intros. unfold abs. simpl. destruct (base s); auto. Qed.

(* (a) every top-level call of every history returns: handlers that read the state, re-arm further events with
   further handlers, or evict further always complete *)
Theorem evr_reentrant_handlers_complete : forall h, exists s, run false init h = Done s /\ locked s = false.
Proof.
  intros h. destruct (run_done h init eq_refl J_init) as (s & E & L & _). eauto.
Qed.

(* never stuck, whatever the fuel: no reachable step of the released variant waits for e.mutex *)
Theorem evr_never_stuck : forall n s stk, locked s = false -> forall s0 k, exec false n s stk <> Stuck s0 k.
Proof.
  induction n; intros s stk L s0 k; destruct stk as [|i rest]; simpl; try discriminate.
  destruct (step_some s i rest L) as (s1 & stk1 & E & L1). rewrite E. apply IHn; auto.
Qed.

Lemma inv_triggered_iff : forall b, ProofsEV.Inv b -> forall slot hd, In (slot, hd) (EV.handles b) ->
  EV.triggered b hd = match EV.last b with None => false | Some l => slot <=? l end.
Proof.
  intros b [I1 _ _ _ I5] slot hd Hin. specialize (I5 _ _ Hin).
  assert (E : forall x, EV.after_last (EV.last b) slot = x ->
              match EV.last b with None => false | Some l => slot <=? l end = negb x).
  { intros x Hx. destruct (EV.last b) as [l|]; simpl in *; subst x; auto.
    destruct (l <? slot) eqn:E1; simpl.
    - apply N.ltb_lt in E1. apply N.leb_gt. auto.
    - apply N.ltb_ge in E1. apply N.leb_le. auto. }
  destruct hd as [id|]; simpl.
  - destruct I5 as [_ B]. destruct (EV.after_last (EV.last b) slot) eqn:Ea; rewrite (E _ eq_refl); simpl.
    + apply ProofsEV.lookup_in in B. apply (I1 _ _ B).
    + exact B.
  - rewrite (E _ I5). auto.
Qed.

(* (b) C14_eviction with re-entrant handlers: after ANY history (handler scripts arbitrary) every event ever handed out -
   to a top-level caller or to a handler - is triggered iff its slot is at or below the last evicted slot *)
Theorem evr_triggered_iff_evicted : forall h s, run false init h = Done s ->
  forall slot hd, In (slot, hd) (EV.handles (base s)) ->
  EV.triggered (base s) hd = match EV.last (base s) with None => false | Some l => slot <=? l end.
Proof.
  intros h s E. destruct (run_done h init eq_refl J_init) as (s1 & E1 & _ & J1).
  rewrite E in E1. inversion E1; subst s1. unfold J in J1. rewrite abs_nil in J1.
  apply inv_triggered_iff; auto.
Qed.

Theorem evr_stored_untriggered : forall h s, run false init h = Done s ->
  forall k id, In (k, id) (EV.evs (base s)) ->
  EV.after_last (EV.last (base s)) k = true /\ EV.triggered (base s) (Some id) = false.
Proof.
  intros h s E k id Hin. destruct (run_done h init eq_refl J_init) as (s1 & E1 & _ & J1).
  rewrite E in E1. inversion E1; subst s1. unfold J in J1. rewrite abs_nil in J1.
  destruct J1 as [I1 _ _ _ _]. destruct (I1 _ _ Hin) as (A & _ & C). auto.
Qed.

(* non-vacuity: the slot-by-slot clean-up chain of the demonstration (handler of slot k reads the frontier and re-arms
   itself for slot k+1), a handler evicting further, a handler on a pre-triggered event *)
Definition chain3 : act := AEvent 1 [ALast; AMark 1; AEvent 2 [ALast; AMark 2; AEvent 3 [ALast; AMark 3; AEvent 4 [ALast; AMark 4]]]].
Example evr_nonvacuous :
  exists s, run false init [chain3; AEvent 7 []; AEvict 0; AEvict 3; AEvent 2 [AEvict 5; ALast]] = Done s /\
  obs s = (5, [true; false; true; true; true; true], [3; 101; 3; 102; 3; 103; 5; 104; 5]).
Proof. eexists. split; vm_compute; reflexivity. Qed.

(* (c) the variant that triggers the collected events while e.mutex is still write-locked: the handler's first call
   into the state (LastEvictedSlot -> RLock) finds the mutex held by its own goroutine: stuck for good *)
Theorem evr_refuted_trigger_under_lock :
  exists s stk, run true init [AEvent 1 [ALast]; AEvict 1] = Stuck s stk /\
                locked s = true /\ hd_error stk = Some (IAct ALast) /\ EV.last (base s) = Some 1.
Proof. eexists. eexists. split; [vm_compute; reflexivity|]. simpl. auto. Qed.

(* the same as lock skeletons (LK): 0 = e.mutex. Evict as seeded = Lock; [handler: RLock .. RUnlock]; Unlock - the
   reader cannot enter while the writer (itself) holds the mutex, so the inner acquisition is exclusive too *)
Definition evict_under_lock : LK.prog := [LK.Lk 0; LK.Lk 0; LK.Ul 0; LK.Ul 0].
Definition evict_released : LK.prog := [LK.Lk 0; LK.Ul 0; LK.Lk 0; LK.Ul 0].
Theorem evr_skeleton_under_lock_stuck : LK.deadlocked [evict_under_lock] (LK.run [evict_under_lock] [0%nat] [0%nat]) = true.
Proof. vm_compute. reflexivity. Qed.
Theorem evr_skeleton_released_completes :
  LK.run [evict_released] [0%nat] [0%nat; 0%nat; 0%nat; 0%nat] = [4%nat] /\
  forallb (fun k => negb (LK.deadlocked [evict_released] (LK.run [evict_released] [0%nat] (repeat 0%nat k)))) (seq 0 5) = true.
Proof. vm_compute. auto. Qed.
