(* C14 (6'): EvictionState with RE-ENTRANT event handlers (eviction_state_impl.go:28-92, event_impl.go).
   A handler registered with EvictionEvent(slot).OnTrigger(...) is a script of calls back into the same EvictionState:
   LastEvictedSlot(), EvictionEvent(slot').OnTrigger(handler') (re-arming), Evict(slot'), and a pure log entry.
   The model is a stack machine: one step = one API call's critical section or one Event.Trigger; Evict is explicitly
   "take e.mutex, advance lastEvictedSlot and collect the stored events in ascending slot order, RELEASE e.mutex, then
   trigger the collected events one by one" (variant ul = false, the code). Variant ul = true keeps e.mutex write-locked
   until the last collected event was triggered; every API call of a handler then needs a mutex its own goroutine
   holds: the machine is stuck (sync.RWMutex is not re-entrant).
   The state embeds the sequential model EV.st (last, stored events, triggered events, handed-out handles). *)
From Coq Require Import ZArith NArith List Bool.
From Verif.C14_Derived Require Import Model.
Import ListNotations.

Module EVR.
Open Scope N_scope.

Inductive act :=
| ALast                                   (* LastEvictedSlot(): RLock, read, RUnlock; the value goes to the log *)
| AMark (n : N)                           (* the handler notes 100+n in the log (no call into the state) *)
| AEvent (slot : N) (h : list act)        (* EvictionEvent(slot) [RLock .. RUnlock], then .OnTrigger(handler h) *)
| AEvict (slot : N).                      (* Evict(slot) *)

(* work left for the running goroutine *)
Inductive item :=
| IAct (a : act)
| ITrigger (id : nat)                     (* slotEvictedEvent.Trigger() of a collected event *)
| IUnlock.                                (* deferred e.mutex.Unlock() of the variant that triggers under the lock *)

Record st := mk {
  base : EV.st;
  hs : list (nat * list act);             (* handlers registered on not yet triggered events, in registration order *)
  locked : bool;                          (* e.mutex is write-locked by the Evict further down the stack *)
  log : list N }.

Definition init : st := mk EV.init [] false [].

Fixpoint ins_by_key (kv : N * nat) (l : list (N * nat)) : list (N * nat) :=
  match l with
  | [] => [kv]
  | x :: r => if fst kv <=? fst x then kv :: l else x :: ins_by_key kv r
  end.
(* for i := start; i <= slot; i++ { if ev, ok := evictionEvents.Get(i) ... }: ascending slot order *)
Definition sort_by_key (l : list (N * nat)) : list (N * nat) := fold_right ins_by_key [] l.

Definition last_or_0 (b : EV.st) : N := match EV.last b with None => 0 | Some x => x end.

Definition handle_for (b : EV.st) (slot : N) : option nat :=
  if EV.after_last (EV.last b) slot then
    Some (match EV.lookup slot (EV.evs b) with Some id => id | None => EV.nev b end)
  else None.

Definition step (ul : bool) (s : st) (i : item) (rest : list item) : option (st * list item) :=
  let b := base s in
  match i with
  | IUnlock => Some (mk b (hs s) false (log s), rest)
  | ITrigger id =>
      (* Event.Trigger: the value becomes true, then the registered handlers run in registration order *)
      let mine := filter (fun p => Nat.eqb (fst p) id) (hs s) in
      let others := filter (fun p => negb (Nat.eqb (fst p) id)) (hs s) in
      Some (mk (EV.mk (EV.last b) (EV.evs b) (EV.nev b) (id :: EV.tr b) (EV.handles b)) others (locked s) (log s),
            flat_map (fun p => map IAct (snd p)) mine ++ rest)
  | IAct (AMark n) => Some (mk b (hs s) (locked s) (log s ++ [100 + n]), rest)
  | IAct a =>
      (* every other action starts by taking e.mutex (RLock or Lock): impossible while this goroutine's own Evict
         holds the write lock *)
      if locked s then None else
      match a with
      | ALast => Some (mk b (hs s) false (log s ++ [last_or_0 b]), rest)
      | AMark _ => Some (s, rest)
      | AEvent slot h =>
          let hd := handle_for b slot in
          let b' := EV.step b (EV.OEvent slot) in
          (* OnTrigger on an already triggered event calls the handler at once *)
          if EV.triggered b' hd then Some (mk b' (hs s) false (log s), map IAct h ++ rest)
          else match hd with
               | Some id => Some (mk b' (hs s ++ [(id, h)]) false (log s), rest)
               | None => Some (mk b' (hs s) false (log s), rest)
               end
      | AEvict slot =>
          if EV.after_last (EV.last b) slot then
            let start := match EV.last b with None => 0 | Some x => x + 1 end in
            let ids := map snd (sort_by_key (filter (EV.in_range start slot) (EV.evs b))) in
            let b' := EV.mk (Some slot) (filter (fun kv => negb (EV.in_range start slot kv)) (EV.evs b)) (EV.nev b)
                            (EV.tr b) (EV.handles b) in
            if ul then Some (mk b' (hs s) true (log s), map ITrigger ids ++ IUnlock :: rest)
            else Some (mk b' (hs s) false (log s), map ITrigger ids ++ rest)
          else Some (s, rest)
      end
  end.

Inductive result := Done (s : st) | Stuck (s : st) (stk : list item) | OutOfFuel.

Fixpoint exec (ul : bool) (fuel : nat) (s : st) (stk : list item) : result :=
  match stk with
  | [] => Done s
  | i :: rest =>
      match fuel with
      | O => OutOfFuel
      | S f => match step ul s i rest with
               | None => Stuck s stk
               | Some (s', stk') => exec ul f s' stk'
               end
      end
  end.

(* the work a state can still cause: scripts on the stack, scripts registered on stored events, stored events *)
Fixpoint asize (a : act) : nat :=
  match a with
  | AEvent _ h => 2 + list_sum (map asize h)
  | _ => 1
  end.
Definition isize (i : item) : nat := match i with IAct a => asize a | _ => 1 end.
Definition ssize (stk : list item) : nat := list_sum (map isize stk).
Definition hsize (l : list (nat * list act)) : nat := list_sum (map (fun p => list_sum (map asize (snd p))) l).
Definition msize (s : st) (stk : list item) : nat := ssize stk + hsize (hs s) + length (EV.evs (base s)).

(* one top-level API call run to completion, handlers included (fuel = the measure; ProofsEVR: it always suffices) *)
Definition call (ul : bool) (s : st) (a : act) : result := exec ul (S (msize s [IAct a])) s [IAct a].

Fixpoint run (ul : bool) (s : st) (h : list act) : result :=
  match h with
  | [] => Done s
  | a :: r => match call ul s a with Done s' => run ul s' r | x => x end
  end.

Definition obs (s : st) : N * list bool * list N :=
  (last_or_0 (base s), map (fun h => EV.triggered (base s) (snd h)) (EV.handles (base s)), log s).

Fixpoint trace (s : st) (h : list act) : list (option (N * list bool * list N)) :=
  match h with
  | [] => []
  | a :: r => match call false s a with
              | Done s' => Some (obs s') :: trace s' r
              | _ => [None]
              end
  end.
End EVR.
