(* C18 - the container/heap operations of Model.v move elements around but never create or lose one:
   counting lemmas for hpush / hpop / hremove (for every predicate p). *)
From Coq Require Import NArith List Bool Arith Lia.
From Verif.C18_Timed Require Import Model.
Import ListNotations.

Definition b2n (b : bool) : nat := if b then 1 else 0.
Definition cnt (p : elem -> bool) (l : list elem) : nat := length (filter p l).

Lemma cnt_nil p : cnt p [] = 0. Proof. reflexivity. Qed.
Lemma cnt_cons p x l : cnt p (x :: l) = b2n (p x) + cnt p l.
Proof. unfold cnt; simpl; destruct (p x); reflexivity. Qed.
Lemma cnt_app p l1 l2 : cnt p (l1 ++ l2) = cnt p l1 + cnt p l2.
Proof. unfold cnt; rewrite filter_app, app_length; reflexivity. Qed.

Lemma upd_length l i x : length (upd l i x) = length l.
Proof. revert i; induction l; intros [|i]; simpl; auto. Qed.

Lemma upd_cnt p l : forall i x, i < length l ->
  cnt p (upd l i x) + b2n (p (nth i l dflt)) = cnt p l + b2n (p x).
Proof.
  induction l; intros [|i] x H; simpl in *; try lia.
  - rewrite !cnt_cons; lia.
  - rewrite !cnt_cons. specialize (IHl i x). lia.
Qed.

Lemma nth_upd l : forall i j x, i < length l ->
  nth j (upd l i x) dflt = if i =? j then x else nth j l dflt.
Proof.
  induction l; intros [|i] [|j] x H; simpl in *; try lia; auto.
  apply IHl; lia.
Qed.

Lemma swap_length l i j : length (swap l i j) = length l.
Proof. unfold swap; rewrite !upd_length; reflexivity. Qed.

Lemma swap_cnt p l i j : i < length l -> j < length l -> cnt p (swap l i j) = cnt p l.
Proof.
  intros Hi Hj. unfold swap.
  pose proof (upd_cnt p l i (nth j l dflt) Hi) as H1.
  assert (Hj' : j < length (upd l i (nth j l dflt))) by (rewrite upd_length; auto).
  pose proof (upd_cnt p _ j (nth i l dflt) Hj') as H2.
  rewrite nth_upd in H2 by auto.
  destruct (i =? j) eqn:E.
  - apply Nat.eqb_eq in E; subst. lia.
  - lia.
Qed.

Lemma nth_swap_other l i j m : i < length l -> j < length l -> m <> i -> m <> j ->
  nth m (swap l i j) dflt = nth m l dflt.
Proof.
  intros Hi Hj Hmi Hmj. unfold swap.
  rewrite nth_upd by (rewrite upd_length; auto).
  destruct (j =? m) eqn:E; [apply Nat.eqb_eq in E; lia|].
  rewrite nth_upd by auto.
  destruct (i =? m) eqn:E2; [apply Nat.eqb_eq in E2; lia|]. reflexivity.
Qed.

Lemma nth_swap_r l i j : i < length l -> j < length l -> nth j (swap l i j) dflt = nth i l dflt.
Proof.
  intros Hi Hj. unfold swap. rewrite nth_upd by (rewrite upd_length; auto).
  rewrite Nat.eqb_refl. reflexivity.
Qed.

Lemma div2_lt j : Nat.div2 j < S j.
Proof. pose proof (Nat.div2_decr j j). lia. Qed.

Lemma up_spec p : forall f h j, j < length h ->
  length (up f h j) = length h /\ cnt p (up f h j) = cnt p h /\
  (forall m, j < m -> nth m (up f h j) dflt = nth m h dflt).
Proof.
  induction f; intros h j Hj; simpl; auto.
  destruct j as [|j']; auto.
  destruct (less _ _); auto.
  pose proof (div2_lt j').
  destruct (IHf (swap h (Nat.div2 j') (S j')) (Nat.div2 j')) as (L & C & N).
  { rewrite swap_length; lia. }
  rewrite swap_length in L. rewrite swap_cnt in C by lia.
  repeat split; auto.
  intros m Hm. rewrite N by lia. apply nth_swap_other; lia.
Qed.

Lemma down_from_spec p : forall f h i n, i < n -> n <= length h ->
  length (fst (down_from f h i n)) = length h /\ cnt p (fst (down_from f h i n)) = cnt p h /\
  (forall m, n <= m -> nth m (fst (down_from f h i n)) dflt = nth m h dflt).
Proof.
  induction f; intros h i n Hi Hn; simpl; auto.
  destruct (n <=? i + (i + 0) + 1) eqn:E; simpl; auto.
  apply Nat.leb_gt in E.
  set (j := if (i + (i + 0) + 1 + 1 <? n) && less (nth (i + (i + 0) + 1 + 1) h dflt) (nth (i + (i + 0) + 1) h dflt)
            then i + (i + 0) + 1 + 1 else i + (i + 0) + 1).
  assert (Hj : i < j /\ j < n).
  { unfold j. destruct (i + (i + 0) + 1 + 1 <? n) eqn:E2; simpl.
    - apply Nat.ltb_lt in E2. destruct (less _ _); lia.
    - lia. }
  destruct (less (nth j h dflt) (nth i h dflt)); simpl; auto.
  destruct (IHf (swap h i j) j n) as (L & C & N); [lia | rewrite swap_length; lia |].
  rewrite swap_length in L. rewrite swap_cnt in C by lia.
  repeat split; auto.
  intros m Hm. rewrite N by lia. apply nth_swap_other; lia.
Qed.

Lemma down_spec p h i n h' b : down h i n = (h', b) -> i < n -> n <= length h ->
  length h' = length h /\ cnt p h' = cnt p h /\ (forall m, n <= m -> nth m h' dflt = nth m h dflt).
Proof.
  unfold down. destruct (down_from (length h) h i n) as [h2 i2] eqn:E. intros H Hi Hn.
  inversion H; subst. pose proof (down_from_spec p (length h) h i n Hi Hn) as S. rewrite E in S. exact S.
Qed.

Lemma down_trivial h i n : n <= i -> down h i n = (h, false).
Proof.
  intros H. unfold down. destruct (length h) eqn:E; simpl.
  - rewrite Nat.ltb_irrefl. reflexivity.
  - destruct (n <=? i + (i + 0) + 1) eqn:E2; [|apply Nat.leb_gt in E2; lia].
    rewrite Nat.ltb_irrefl. reflexivity.
Qed.

(* a list of length n+1 is its first n elements followed by its last *)
Lemma split_last (l : list elem) n : length l = S n -> l = firstn n l ++ [nth n l dflt].
Proof.
  revert n; induction l; intros n H; simpl in *; [lia|].
  destruct n; simpl.
  - destruct l; simpl in *; [reflexivity | lia].
  - f_equal. apply IHl. lia.
Qed.

Lemma cnt_split_last p l n : length l = S n -> cnt p l = cnt p (firstn n l) + b2n (p (nth n l dflt)).
Proof.
  intros H. rewrite (split_last l n H) at 1. rewrite cnt_app, cnt_cons, cnt_nil. lia.
Qed.

Lemma hpush_cnt p h x : cnt p (hpush h x) = cnt p h + b2n (p x).
Proof.
  unfold hpush. destruct (up_spec p (length (h ++ [x])) (h ++ [x]) (length h)) as (_ & C & _).
  { rewrite app_length; simpl; lia. }
  rewrite C, cnt_app, cnt_cons, cnt_nil. lia.
Qed.

Lemma hpush_length h x : length (hpush h x) = S (length h).
Proof.
  unfold hpush. destruct (up_spec (fun _ => true) (length (h ++ [x])) (h ++ [x]) (length h)) as (L & _).
  { rewrite app_length; simpl; lia. }
  rewrite L, app_length; simpl; lia.
Qed.

Lemma hpop_none h : hpop h = None <-> h = [].
Proof.
  split; intros H; [|subst; reflexivity].
  destruct h; auto. unfold hpop in H. destruct (down _ _ _); discriminate.
Qed.

Lemma hpop_cnt p h e h' : hpop h = Some (e, h') -> cnt p h = cnt p h' + b2n (p e).
Proof.
  destruct h as [|a r]; [discriminate|].
  unfold hpop. set (h := a :: r). set (n := length h - 1).
  assert (Hn : length h = S n) by (unfold n, h; simpl; lia).
  destruct (down (swap h 0 n) 0 n) as [h2 b] eqn:E. intros H; inversion H; subst e h'; clear H.
  assert (L2 : length h2 = length h /\ cnt p h2 = cnt p h).
  { destruct n as [|n'].
    - rewrite down_trivial in E by lia. inversion E; subst. rewrite swap_length, swap_cnt by lia. auto.
    - destruct (down_spec p _ _ _ _ _ E) as (L & C & _); [lia | rewrite swap_length; lia |].
      rewrite swap_length in L. rewrite swap_cnt in C by lia. auto. }
  destruct L2 as [L2 C2]. rewrite <- C2. apply cnt_split_last. lia.
Qed.

Lemma hremove_spec p h i e h' : hremove h i = Some (e, h') ->
  cnt p h = cnt p h' + b2n (p e) /\ e = nth i h dflt /\ i < length h /\ S (length h') = length h.
Proof.
  unfold hremove. destruct (length h <=? i) eqn:E; [discriminate|]. apply Nat.leb_gt in E.
  set (n := length h - 1). assert (Hn : length h = S n) by (unfold n; lia).
  set (h2 := if n =? i then h else _). intros H; inversion H; subst e h'; clear H.
  assert (S2 : length h2 = length h /\ cnt p h2 = cnt p h /\ nth n h2 dflt = nth i h dflt).
  { unfold h2. destruct (n =? i) eqn:E2.
    - apply Nat.eqb_eq in E2; subst i. auto.
    - apply Nat.eqb_neq in E2.
      destruct (down (swap h i n) i n) as [h1' moved] eqn:E3.
      destruct (down_spec p _ _ _ _ _ E3) as (L & C & N); [lia | rewrite swap_length; lia |].
      rewrite swap_length in L. rewrite swap_cnt in C by lia.
      assert (Nn : nth n h1' dflt = nth i h dflt).
      { rewrite N by lia. apply nth_swap_r; lia. }
      destruct moved; auto.
      destruct (up_spec p (length h1') h1' i) as (L' & C' & N'); [lia|].
      rewrite L', C', N' by lia. auto. }
  destruct S2 as (L2 & C2 & N2).
  repeat split; auto.
  - rewrite <- C2. apply cnt_split_last. lia.
  - rewrite firstn_length. lia.
Qed.

(* membership from counts *)
Definition optn_eqb (a b : option nat) : bool :=
  match a, b with None, None => true | Some x, Some y => x =? y | _, _ => false end.
Definition elem_eqb (a b : elem) : bool :=
  (eid a =? eid b) && N.eqb (etime a) (etime b) && optn_eqb (ekey a) (ekey b).

Lemma elem_eqb_eq a b : elem_eqb a b = true <-> a = b.
Proof.
  destruct a as [i t k], b as [i' t' k']; unfold elem_eqb; simpl. split.
  - intros H. apply andb_true_iff in H as [H H3]. apply andb_true_iff in H as [H1 H2].
    apply Nat.eqb_eq in H1. apply N.eqb_eq in H2. subst.
    destruct k, k'; simpl in H3; try discriminate; auto. apply Nat.eqb_eq in H3; subst; auto.
  - intros H; inversion H; subst. rewrite Nat.eqb_refl, N.eqb_refl. simpl.
    destruct k'; simpl; auto. apply Nat.eqb_refl.
Qed.

Lemma cnt_pos_in p l : 0 < cnt p l -> exists x, In x l /\ p x = true.
Proof.
  induction l; simpl; [rewrite cnt_nil; lia|]. rewrite cnt_cons. destruct (p a) eqn:E; simpl; intros H.
  - exists a; auto.
  - destruct IHl as (x & Hx & Px); [lia|]. exists x; auto.
Qed.

Lemma in_cnt_pos p l x : In x l -> p x = true -> 0 < cnt p l.
Proof.
  induction l; simpl; [tauto|]. intros [->|H] Px; rewrite cnt_cons.
  - rewrite Px; simpl; lia.
  - specialize (IHl H Px). lia.
Qed.

Lemma in_of_cnt l l' : (forall p, cnt p l' <= cnt p l) -> incl l' l.
Proof.
  intros H x Hx. specialize (H (fun y => elem_eqb y x)).
  assert (0 < cnt (fun y => elem_eqb y x) l').
  { eapply in_cnt_pos; eauto. apply elem_eqb_eq; auto. }
  destruct (cnt_pos_in (fun y => elem_eqb y x) l) as (y & Hy & E); [lia|]. apply elem_eqb_eq in E; subst; auto.
Qed.

Lemma hpop_incl h e h' : hpop h = Some (e, h') -> In e h /\ incl h' h.
Proof.
  intros H. split.
  - pose proof (hpop_cnt (fun y => elem_eqb y e) h e h' H) as C.
    assert (E : elem_eqb e e = true) by (apply elem_eqb_eq; auto). cbv beta in C. rewrite E in C. simpl in C.
    destruct (cnt_pos_in (fun y => elem_eqb y e) h) as (y & Hy & E'); [lia|]. apply elem_eqb_eq in E'; subst; auto.
  - apply in_of_cnt. intros p. rewrite (hpop_cnt p h e h' H). lia.
Qed.

Lemma hremove_incl h i e h' : hremove h i = Some (e, h') -> incl h' h.
Proof.
  intros H. apply in_of_cnt. intros p. destruct (hremove_spec p h i e h' H) as (C & _). lia.
Qed.

Lemma hpush_in h x y : In y (hpush h x) -> y = x \/ In y h.
Proof.
  intros H. pose proof (hpush_cnt (fun z => elem_eqb z y) h x) as C.
  assert (0 < cnt (fun z => elem_eqb z y) (hpush h x)).
  { eapply in_cnt_pos; eauto. apply elem_eqb_eq; auto. }
  cbv beta in C. destruct (elem_eqb x y) eqn:E.
  - apply elem_eqb_eq in E; auto.
  - simpl in C. destruct (cnt_pos_in (fun z => elem_eqb z y) h) as (z & Hz & E'); [lia|]. apply elem_eqb_eq in E'; subst; auto.
Qed.

Lemma index_of_spec e : forall h i, index_of e h = Some i -> i < length h /\ eid (nth i h dflt) = e.
Proof.
  induction h; simpl; intros i H; [discriminate|].
  destruct (eid a =? e) eqn:E.
  - inversion H; subst. apply Nat.eqb_eq in E. simpl; split; [lia | auto].
  - destruct (index_of e h) eqn:E2; simpl in H; [|discriminate]. inversion H; subst.
    destruct (IHh n eq_refl). simpl; split; [lia | auto].
Qed.

Lemma index_of_none e : forall h, index_of e h = None -> forall x, In x h -> eid x <> e.
Proof.
  induction h; simpl; intros H x Hx; [tauto|].
  destruct (eid a =? e) eqn:E; [discriminate|].
  destruct (index_of e h) eqn:E2; simpl in H; [discriminate|].
  destruct Hx as [->|Hx]; [apply Nat.eqb_neq; auto | eapply IHh; eauto].
Qed.
