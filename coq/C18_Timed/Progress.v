(* C18 - "no reachable stuck state with a pending element": whenever an element is in the heap or held by a
   worker that has not decided yet, some worker can take a step (possibly after the clock advanced). *)
From Coq Require Import NArith List Bool Arith Lia.
From Verif.C18_Timed Require Import Model Heap Micro.
Import ListNotations.

Definition can_step (s : st) (ws : wst) : bool :=
  match ws with
  | WIdle | WPopped _ | WPopped2 _ | WDeliv _ | WRun _ => true
  | WParked e | WParked2 e => is_due s e
  | WChosen e => is_due s e || (shut s && fignore s)
  | WWait | WExit => false
  end.

Definition active (w : wst) : bool := match w with WWait | WExit => false | _ => true end.
Definition notexit (w : wst) : bool := match w with WExit => false | _ => true end.
Definition act (ws : list wst) : bool := existsb active ws.
Definition noexit (ws : list wst) : bool := forallb notexit ws.

(* the invariant, on the projections heap / workers / shut / fcancel only *)
Definition PI (n : nat) (h : list elem) (ws : list wst) (sh fc : bool) : Prop :=
  length ws = n /\ (h <> [] -> act ws = true) /\ (sh = false -> noexit ws = true) /\ (sh = true -> fc = true -> h = []).
Definition PIs (n : nat) (s : st) : Prop := PI n (heap s) (workers s) (shut s) (fcancel s).

Lemma wupd_length ws : forall i x, length (wupd ws i x) = length ws.
Proof. induction ws; intros [|i] x; simpl; auto. Qed.

Lemma act_wupd ws : forall i old x, nth_error ws i = Some old -> active x = true -> act (wupd ws i x) = true.
Proof.
  induction ws; intros [|i] old x H A; simpl in *; try discriminate.
  - rewrite A; auto.
  - unfold act in *. simpl. erewrite IHws; eauto. apply orb_true_r.
Qed.

Lemma act_wupd_keep ws : forall i old x, nth_error ws i = Some old -> active old = false -> act ws = true -> act (wupd ws i x) = true.
Proof.
  induction ws; intros [|i] old x H A B; simpl in *; try discriminate.
  - inversion H; subst. unfold act in *; simpl in *. rewrite A in B. simpl in B. rewrite B. apply orb_true_r.
  - unfold act in *; simpl in *. apply orb_true_iff in B as [B|B]; [rewrite B; auto|].
    erewrite IHws; eauto. apply orb_true_r.
Qed.

Lemma noexit_wupd ws : forall i x, noexit ws = true -> notexit x = true -> noexit (wupd ws i x) = true.
Proof.
  unfold noexit. induction ws; intros [|i] x H A; simpl in *; auto.
  - apply andb_true_iff in H as [H1 H2]. rewrite A, H2; auto.
  - apply andb_true_iff in H as [H1 H2]. rewrite H1. simpl. apply IHws; auto.
Qed.

Lemma active_notexit x : active x = true -> notexit x = true.
Proof. destruct x; simpl; auto. Qed.

(* the worker i goes to [new]; the heap becomes h' *)
Lemma pi_upd n h ws sh fc i old new h' :
  PI n h ws sh fc -> nth_error ws i = Some old ->
  (active new = true \/ (h' = [] /\ (new = WExit -> sh = true))) ->
  (h = [] -> h' = []) ->
  PI n h' (wupd ws i new) sh fc.
Proof.
  intros (L & A & E & C) H Hn Hh. repeat split.
  - rewrite wupd_length; auto.
  - intros Hne. destruct Hn as [Hn|[Hn _]]; [eapply act_wupd; eauto | congruence].
  - intros S. apply noexit_wupd; auto. destruct Hn as [Hn|[_ Hn]]; [apply active_notexit; auto|].
    destruct new; simpl; auto. rewrite Hn in S; auto; discriminate.
  - intros S F. apply Hh. auto.
Qed.

Lemma hpop_nil_none e h' : hpop [] <> Some (e, h'). Proof. discriminate. Qed.

Lemma deliver_proj s e : heap (fst (deliver s e)) = heap s /\ workers (fst (deliver s e)) = workers s /\
  shut (fst (deliver s e)) = shut s /\ fcancel (fst (deliver s e)) = fcancel s /\ active (snd (deliver s e)) = true.
Proof. unfold deliver. destruct (recheck s && memb (eid e) (closed s)); simpl; auto. Qed.

Lemma ctx_proj s e : heap (fst (ctx_branch s e)) = heap s /\ workers (fst (ctx_branch s e)) = workers s /\
  shut (fst (ctx_branch s e)) = shut s /\ fcancel (fst (ctx_branch s e)) = fcancel s /\
  (active (snd (ctx_branch s e)) = true \/ (fcancel s = true /\ snd (ctx_branch s e) = WExit)).
Proof.
  unfold ctx_branch. destruct (fcancel s) eqn:F; simpl; [repeat split; auto|].
  destruct (fignore s); simpl; repeat split; auto.
Qed.

Lemma take_proj s e b : (b = BCtx -> shut s = true) ->
  heap (fst (take_branch s e b)) = heap s /\ workers (fst (take_branch s e b)) = workers s /\
  shut (fst (take_branch s e b)) = shut s /\ fcancel (fst (take_branch s e b)) = fcancel s /\
  (active (snd (take_branch s e b)) = true \/ (shut s = true /\ fcancel s = true /\ snd (take_branch s e b) = WExit)).
Proof.
  intros Hb. destruct b; simpl.
  - destruct (ctx_proj s e) as (A & B & C & D & [E|[E1 E2]]); repeat split; auto.
  - repeat split; auto.
  - repeat split; auto.
Qed.

(* generic closing step for worker_step: result = set_workers s1 (wupd (workers s1) i new) *)
Lemma pis_fin n s s1 i old new :
  PIs n s -> nth_error (workers s) i = Some old ->
  heap s1 = heap s -> workers s1 = workers s -> shut s1 = shut s -> fcancel s1 = fcancel s ->
  (active new = true \/ (shut s = true /\ fcancel s = true /\ new = WExit)) ->
  PIs n (set_workers s1 (wupd (workers s1) i new)).
Proof.
  intros P H Eh Ew Es Ef Hn. unfold PIs in *. simpl. rewrite Eh, Ew, Es, Ef.
  eapply pi_upd; eauto.
  destruct Hn as [Hn|(S & F & ->)]; auto. right. split; auto.
  destruct P as (_ & _ & _ & C). auto.
Qed.

Lemma worker_pi n s i c : PIs n s -> PIs n (worker_step s i c).
Proof.
  intros P. unfold worker_step. destruct (nth_error (workers s) i) as [ws|] eqn:H; auto.
  destruct ws; auto.
  - (* WIdle *)
    destruct (hpop (heap s)) as [[e h']|] eqn:Hp; simpl.
    + unfold PIs in *. simpl. eapply pi_upd; eauto. intros Hn. rewrite Hn in Hp. discriminate.
    + apply hpop_none in Hp. unfold PIs in *. simpl. eapply pi_upd; eauto. right. split; auto.
      destruct (shut s); auto; discriminate.
  - (* WPopped *)
    destruct (ready_outer s e) as [|b r] eqn:R.
    + eapply pis_fin; eauto.
    + rewrite <- R. pose proof (nth_mod_in (ready_outer s e) c) as I.
      destruct (ready_outer_sound s e _ (I ltac:(rewrite R; discriminate))) as [Hc _].
      destruct (take_proj s e _ Hc) as (A & B & C & D & E). eapply pis_fin; eauto.
  - (* WParked *)
    destruct (is_due s e); auto. eapply pis_fin; eauto.
  - (* WPopped2 *)
    destruct (ready_inner s e) as [|b r] eqn:R.
    + eapply pis_fin; eauto.
    + rewrite <- R. pose proof (nth_mod_in (ready_inner s e) c) as I.
      destruct (ready_inner_sound s e _ (I ltac:(rewrite R; discriminate))) as [Hc _].
      destruct (take_proj s e (nth (c mod length (ready_inner s e)) (ready_inner s e) BTim)) as (A & B & C & D & E);
        [intros; congruence|]. eapply pis_fin; eauto.
  - (* WParked2 *)
    destruct (is_due s e); auto. eapply pis_fin; eauto.
  - (* WChosen *)
    destruct (is_due s e || (shut s && fignore s)); auto.
    destruct (deliver_proj s e) as (A & B & C & D & E). eapply pis_fin; eauto.
  - (* WDeliv *)
    destruct (ekey e) as [k|]; [destruct (mode s)|]; simpl.
    + eapply (pis_fin n s (emit s _)); eauto.
    + destruct (tget k (tmap s)) as [v|]; [destruct (v =? eid e)|]; simpl.
      * eapply (pis_fin n s (emit (set_tmap s _) _)); eauto.
      * eapply (pis_fin n s (emit s _)); eauto.
      * eapply (pis_fin n s (emit s _)); eauto.
    + eapply (pis_fin n s (emit s _)); eauto.
  - (* WRun *)
    destruct (ekey e) as [k|]; [destruct (mode s)|]; simpl.
    + eapply (pis_fin n s (emit (set_tmap s _) _)); eauto.
    + eapply (pis_fin n s (emit s _)); eauto.
    + eapply (pis_fin n s (emit s _)); eauto.
Qed.

(* ---------- Cancel ---------- *)

Lemma wake_cancel_props e : forall ws,
  length (fst (wake_cancel e ws)) = length ws /\ act (fst (wake_cancel e ws)) = act ws /\
  noexit (fst (wake_cancel e ws)) = noexit ws.
Proof.
  induction ws as [|w r]; simpl; auto.
  destruct (wake_cancel e r) as [r' b]. simpl in IHr. destruct IHr as (L & A & N).
  unfold act, noexit in *.
  destruct w; simpl; try (destruct (eid e0 =? e)); simpl; rewrite ?L, ?A, ?N; auto.
Qed.

Lemma cancel_pi n s e : PIs n s -> PIs n (cancel_elem s e).
Proof.
  intros P. unfold cancel_elem. destruct (nxt s <=? e); auto.
  set (p1 := match index_of e (heap s) with
             | Some i => match hremove (heap s) i with Some (_, h') => (set_heap s h', true) | None => (s, false) end
             | None => (s, false) end).
  assert (S1 : workers (fst p1) = workers s /\ shut (fst p1) = shut s /\ fcancel (fst p1) = fcancel s /\
               (heap s = [] -> heap (fst p1) = []) /\ (heap (fst p1) <> [] -> heap s <> [])).
  { unfold p1. destruct (index_of e (heap s)) eqn:Ix; [destruct (hremove (heap s) n0) as [[x h']|] eqn:R|]; simpl; repeat split; auto.
    - intros Hn. rewrite Hn in Ix. discriminate.
    - intros _ Hn. rewrite Hn in Ix. discriminate. }
  destruct p1 as [s1 removed]. simpl in S1. destruct S1 as (Ew & Es & Ef & Eh1 & Eh2).
  assert (P1 : PIs n s1).
  { unfold PIs in *. rewrite Ew, Es, Ef. destruct P as (L & A & N & C). repeat split; auto. }
  simpl. destruct (memb e (closed s1)); [exact P1|].
  destruct (wake_cancel e (workers s1)) as [ws woke] eqn:W.
  pose proof (wake_cancel_props e (workers s1)) as (L & A & N). rewrite W in *. simpl in *.
  assert (P2 : PI n (heap s1) ws (shut s1) (fcancel s1)).
  { destruct P1 as (L1 & A1 & N1 & C1). repeat split; auto; try congruence.
    - intros Hn. rewrite A; auto.
    - intros Hs. rewrite N; auto. }
  destruct woke; exact P2.
Qed.

(* ---------- Add ---------- *)

Lemma signal_props : forall ws, length (signal ws) = length ws /\ noexit (signal ws) = noexit ws /\
  (act ws = true \/ In WWait ws -> act (signal ws) = true).
Proof.
  unfold act, noexit. induction ws as [|w r]; simpl.
  - repeat split; auto. intros [H|[]]; discriminate.
  - destruct IHr as (L & N & A).
    destruct w; simpl; rewrite ?L, ?N; (split; [reflexivity|split; [reflexivity|]]); auto;
      intros [H|[H|H]]; try discriminate; apply A; auto.
Qed.

Lemma nonexit_some ws : ws <> [] -> noexit ws = true -> act ws = true \/ In WWait ws.
Proof.
  destruct ws as [|w r]; [congruence|]. intros _ H. unfold noexit, act in *. simpl in *.
  apply andb_true_iff in H as [H _]. destruct w; simpl; auto; discriminate.
Qed.

Lemma queue_add_pi n s t k : 0 < n -> PIs n s -> PIs n (fst (queue_add s t k)).
Proof.
  intros Hn P. unfold queue_add. destruct (shut s) eqn:Sh; simpl; auto.
  set (s1 := emit (set_nxt (set_heap s (hpush (heap s) (mkE (nxt s) t k))) (S (nxt s))) (EAdd (nxt s) t k (now s))).
  set (s2 := if (0 <? maxsz s1) && (maxsz s1 <? length (heap s1))
             then match hremove (heap s1) (length (heap s1) - 1) with
                  | Some (d, h') => emit (set_heap s1 h') (EDrop (eid d)) | None => s1 end
             else s1).
  change (PIs n (set_workers s2 (signal (workers s2)))).
  assert (E : workers s2 = workers s /\ shut s2 = false /\ fcancel s2 = fcancel s).
  { unfold s2. destruct ((0 <? maxsz s1) && (maxsz s1 <? length (heap s1))); [|simpl; auto].
    destruct (hremove (heap s1) (length (heap s1) - 1)) as [[d h']|]; simpl; auto. }
  destruct E as (Ew & Es & Ef). clearbody s2. unfold PIs in *. simpl. rewrite Ew, Es, Ef.
  destruct P as (L & A & N & C). rewrite Sh in *. specialize (N eq_refl).
  destruct (signal_props (workers s)) as (L' & N' & A').
  repeat split; try congruence.
  intros _. apply A'. apply nonexit_some; auto. intros Z. rewrite Z in L. simpl in L. lia.
Qed.

Lemma pis_ext n s s' : heap s' = heap s -> workers s' = workers s -> shut s' = shut s -> fcancel s' = fcancel s ->
  PIs n s -> PIs n s'.
Proof. unfold PIs. intros -> -> -> ->. auto. Qed.

Lemma add_pi n s t k : 0 < n -> PIs n s -> PIs n (add_step s t k).
Proof.
  intros Hn P. unfold add_step. destruct k as [key|]; [|apply queue_add_pi; auto].
  set (s1 := match tget key (tmap s) with
             | Some old => set_dead (set_tmap (cancel_elem s old) (tdel key (tmap s))) (old :: dead s)
             | None => s end).
  assert (P1 : PIs n s1).
  { unfold s1. destruct (tget key (tmap s)); auto.
    eapply pis_ext; [| | | |apply (cancel_pi n s n0 P)]; reflexivity. }
  pose proof (queue_add_pi n s1 t (Some key) Hn P1) as Q.
  destruct (queue_add s1 t (Some key)) as [s2 [id|]]; simpl in Q; auto.
Qed.

Lemma tcancel_pi n s k : PIs n s -> PIs n (tcancel_step s k).
Proof.
  intros P. unfold tcancel_step. destruct (tget k (tmap s)) as [e|].
  - eapply pis_ext; [| | | |apply (cancel_pi n s e P)]; reflexivity.
  - eapply pis_ext; [| | | |exact P]; reflexivity.
Qed.

(* ---------- Shutdown ---------- *)

(* after the flags are set: the weaker invariant that survives the wake-ups *)
Definition PW (n : nat) (s : st) : Prop :=
  length (workers s) = n /\ (fcancel s = false -> heap s <> [] -> act (workers s) = true).

Lemma wake_ctx_at_pw n s w h fc : shut s = true ->
  PW n s -> heap s = h -> fcancel s = fc ->
  PW n (wake_ctx_at s w) /\ heap (wake_ctx_at s w) = h /\ fcancel (wake_ctx_at s w) = fc /\ shut (wake_ctx_at s w) = true.
Proof.
  intros Sh (L & A) Eh Ef. unfold wake_ctx_at.
  destruct (nth_error (workers s) w) as [ws|] eqn:H; [|repeat split; auto].
  destruct ws; try (repeat split; auto; fail).
  destruct (ctx_proj s e) as (A1 & B1 & C1 & D1 & E1). simpl. rewrite A1, B1, C1, D1. repeat split; auto.
  - simpl. rewrite wupd_length; auto.
  - simpl. rewrite D1. intros F Hn. destruct E1 as [E1|[E1 _]]; [|congruence]. eapply act_wupd; eauto.
Qed.

Lemma wake_ctx_fold_pw n l : forall s, shut s = true -> PW n s ->
  PW n (fold_left wake_ctx_at l s) /\ heap (fold_left wake_ctx_at l s) = heap s /\
  fcancel (fold_left wake_ctx_at l s) = fcancel s /\ shut (fold_left wake_ctx_at l s) = true.
Proof.
  induction l as [|a l IHl]; intros s Sh P; simpl; [destruct P; repeat split; auto|].
  destruct (wake_ctx_at_pw n s a (heap s) (fcancel s) Sh P eq_refl eq_refl) as (P' & Eh & Ef & Es).
  destruct (IHl _ Es P') as (P'' & Eh' & Ef' & Es'). destruct P''. repeat split; auto; congruence.
Qed.

Lemma broadcast_props : forall ws, length (broadcast ws) = length ws /\ (act ws = true -> act (broadcast ws) = true).
Proof.
  unfold broadcast, act. intros ws. split; [apply map_length|].
  induction ws as [|w r]; simpl; auto. intros H. apply orb_true_iff in H as [H|H].
  - destruct w; simpl in *; auto; discriminate.
  - rewrite IHr; auto. apply orb_true_r.
Qed.

Lemma discard_all_proj h : forall s, workers (discard_all s h) = workers s /\ shut (discard_all s h) = shut s /\ fcancel (discard_all s h) = fcancel s.
Proof. induction h; intros s; simpl; auto. destruct (IHh (emit s (EDiscard (eid a)))) as (A & B & C). auto. Qed.

Lemma shutdown_pi n s fc fi : PIs n s -> PIs n (shutdown_step s fc fi).
Proof.
  intros P. unfold shutdown_step. destruct (shut s) eqn:Sh; auto.
  set (s1 := emit (set_shut s fc fi) (EShutdown fc fi (now s))).
  assert (P1 : PW n s1).
  { destruct P as (L & A & _). split; simpl; auto. }
  destruct (wake_ctx_fold_pw n (seq 0 (length (workers s1))) s1 eq_refl P1) as (P3 & Eh & Ef & Es).
  fold (wake_ctx s1) in *. set (s3 := wake_ctx s1) in *. simpl in Eh, Ef.
  set (s4 := match heap s3 with [] => s3 | h => if fc then set_heap (discard_all s3 h) [] else s3 end).
  assert (P4 : PW n s4 /\ shut s4 = true /\ fcancel s4 = fc /\ (fc = true -> heap s4 = [])).
  { unfold s4. destruct (heap s3) as [|a r] eqn:Hh.
    - repeat split; auto; try apply P3.
    - destruct fc.
      + destruct (discard_all_proj (a :: r) s3) as (A & B & C). simpl in A, B, C.
        unfold PW. simpl. rewrite A, B, C, Ef. destruct P3 as [L3 _]. repeat split; auto; intros; congruence.
      + repeat split; auto; try apply P3. discriminate. }
  destruct P4 as ((L4 & A4) & S4 & F4 & H4).
  assert (F : forall s5, workers s5 = workers s4 \/ workers s5 = broadcast (workers s4) ->
              heap s5 = heap s4 -> shut s5 = true -> fcancel s5 = fc -> PIs n s5).
  { intros s5 Hw Hh Hs Hf. unfold PIs. rewrite Hh, Hs, Hf.
    destruct (broadcast_props (workers s4)) as (Lb & Ab).
    repeat split; try discriminate; auto.
    - destruct Hw as [-> | ->]; congruence.
    - intros Hn. destruct fc; [rewrite H4 in Hn; congruence|].
      destruct Hw as [-> | ->]; [|apply Ab]; apply A4; auto. }
  destruct (heap s3); [|destruct (bcast s4)]; apply F; auto.
Qed.

Lemma step_pi n s l : 0 < n -> PIs n s -> PIs n (step s l).
Proof.
  intros Hn P. destruct l; simpl.
  - eapply pis_ext; [| | | |exact P]; reflexivity.
  - apply add_pi; auto.
  - apply cancel_pi; auto.
  - apply tcancel_pi; auto.
  - apply shutdown_pi; auto.
  - apply worker_pi; auto.
Qed.

Lemma run_pi n ls : forall s, 0 < n -> PIs n s -> PIs n (run s ls).
Proof. induction ls; intros s Hn P; simpl; auto. apply IHls; auto. apply step_pi; auto. Qed.

Lemma init_pi n m md rc bc : PIs n (init n m md rc bc).
Proof.
  unfold PIs, PI, init; simpl. rewrite repeat_length. repeat split; auto; try congruence.
  intros _. induction n; simpl; auto.
Qed.

(* ---------- progress ---------- *)

Lemma act_witness ws : act ws = true -> exists i w, nth_error ws i = Some w /\ active w = true.
Proof.
  induction ws as [|w r]; simpl; [discriminate|]. unfold act; simpl. intros H. apply orb_true_iff in H as [H|H].
  - exists 0, w; auto.
  - destruct (IHr H) as (i & w' & A & B). exists (S i), w'; auto.
Qed.

Lemma wpend_witness ws : wpend ws <> [] -> exists i w, nth_error ws i = Some w /\ wpre w <> [].
Proof.
  induction ws as [|w r]; simpl; [congruence|]. unfold wpend in *; simpl. intros H.
  destruct (wpre w) eqn:E.
  - destruct (IHr H) as (i & w' & A & B). exists (S i), w'; auto.
  - exists 0, w; split; auto. congruence.
Qed.

Lemma active_can_step s w : active w = true ->
  exists d, can_step (step s (LTick d)) w = true.
Proof.
  destruct w; simpl; try discriminate; intros _; try (exists 0%N; reflexivity);
    exists (etime e); unfold is_due; simpl; try apply orb_true_iff; try left; apply N.leb_le; lia.
Qed.

Theorem progress_run w m md rc bc ls :
  0 < w -> let s := run (init w m md rc bc) ls in
  pend s <> [] -> exists d i ws, nth_error (workers s) i = Some ws /\ can_step (step s (LTick d)) ws = true.
Proof.
  intros Hw s Hp. pose proof (run_pi w ls _ Hw (init_pi w m md rc bc)) as P. fold s in P.
  assert (A : exists i x, nth_error (workers s) i = Some x /\ active x = true).
  { unfold pend in Hp. destruct (heap s) eqn:Hh.
    - simpl in Hp. destruct (wpend_witness _ Hp) as (i & x & H1 & H2). exists i, x. split; auto.
      destruct x; simpl in *; congruence.
    - destruct P as (_ & A & _). rewrite Hh in A. apply act_witness. apply A. discriminate. }
  destruct A as (i & x & H1 & H2). destruct (active_can_step s x H2) as [d Hd]. exists d, i, x. auto.
Qed.
