(* Correspondence for C18.
   CScript: a deterministic scenario on a real timed.TaskExecutor (blocking callbacks; times are either
     in the past or far in the future, logical time does not advance).  After every client operation the
     implementation is left to settle; the model runs its workers to quiescence ([settle]).  Compared
     per operation: the return value (Add accepted / Cancel(id)), Queue.Size(), the set of callbacks
     started so far and the set finished so far.
   CWin: a schedule fully controlled through the yield points of runtime/timed (one worker held at a point, client
     operations completed meanwhile), given as the exact label sequence of the model up to the release of the worker;
     the model then lets the clock pass every due time and runs the worker to quiescence.  Compared: the values
     returned by Cancel(id) and the set of callbacks started (= values returned by Poll for a plain Queue).
   CRun: several workers, a label sequence of the model (burst family: every worker steps into waitCond.Wait(), then a
     burst of Adds; preload family: Adds at extreme / equal instants while no worker has been scheduled), then the clock
     passes every ordinary time and the workers run to quiescence; the callbacks in [blocked] never return (gated
     callback, or a consumer that polls once).  Compared: the set of callbacks started; with one worker their order
     (= the heap's order of the abstract instants, ties included).
   CHist: a history recorded from a timing run (monotonic stamps in microseconds) with the verdicts of
     the Go-side oracle; the executable predicates of Model.v are re-evaluated on it. *)
From Coq Require Import NArith List Bool Arith.
From Verif.C18_Timed Require Import Model.
Import ListNotations.

Inductive sop :=
| SAdd (t : N) (k : option nat) (blocking : bool)
| SCancel (e : nat)
| STCancel (k : nat)
| SRelease (e : nat)
| SShutdown (fc fi : bool).

Definition obs := (option bool * nat * list nat * list nat)%type.

Inductive case :=
| CScript (nworkers maxsize : nat) (ops : list sop) (o : list obs)
| CHist (band : N) (l : list ev) (verdict : list bool)
| CWin (ls : list label) (rets : list bool) (started_ : list nat)
| CRun (nworkers : nat) (ls : list label) (blocked : list nat) (tick : N) (ordered : bool) (started_ : list nat).

(* can worker w take a step now?  A running callback that blocks returns only after SRelease. *)
Definition w_enabled (s : st) (blocked : list nat) (ws : wst) : bool :=
  match ws with
  | WIdle | WPopped _ | WPopped2 _ | WDeliv _ => true
  | WParked e | WParked2 e => is_due s e
  | WChosen e => is_due s e || (shut s && fignore s)
  | WRun e => negb (memb (eid e) blocked)
  | WWait | WExit => false
  end.

Fixpoint first_enabled (s : st) (blocked : list nat) (ws : list wst) (i : nat) : option nat :=
  match ws with
  | [] => None
  | w :: r => if w_enabled s blocked w then Some i else first_enabled s blocked r (S i)
  end.

Fixpoint settle (fuel : nat) (blocked : list nat) (s : st) : st :=
  match fuel with
  | O => s
  | S f => match first_enabled s blocked (workers s) 0 with
           | None => s
           | Some w => settle f blocked (step s (LWorker w 0))
           end
  end.

Fixpoint insert (x : nat) (l : list nat) : list nat :=
  match l with [] => [x] | y :: r => if x <=? y then x :: l else y :: insert x r end.
Definition sort (l : list nat) : list nat := fold_right insert [] l.

Definition finished (l : list ev) : list nat :=
  flat_map (fun x => match x with EFinish e => [e] | _ => [] end) l.

Definition observe (ret : option bool) (s : st) : obs :=
  (ret, length (heap s), sort (started (log s)), sort (finished (log s))).

Definition FUEL := 400.

Definition script_step (s : st) (blocked : list nat) (op : sop) : st * list nat * option bool :=
  match op with
  | SAdd t k b =>
      let s' := step s (LAdd t k) in
      let acc := negb (nxt s' =? nxt s) in
      (s', if acc && b then nxt s :: blocked else blocked, Some acc)
  | SCancel e => (step s (LCancel e), blocked, None)
  | STCancel k =>
      let s' := step s (LTCancel k) in
      (s', blocked, match log s' with ETCancel _ r :: _ => Some r | _ => None end)
  | SRelease e => (s, filter (fun x => negb (x =? e)) blocked, None)
  | SShutdown fc fi => (step s (LShutdown fc fi), blocked, None)
  end.

Fixpoint run_script (s : st) (blocked : list nat) (ops : list sop) : list obs :=
  match ops with
  | [] => []
  | op :: r =>
      let '(s1, bl, ret) := script_step s blocked op in
      let s2 := settle FUEL bl s1 in
      observe ret s2 :: run_script s2 bl r
  end.

Definition optb_eqb (a b : option bool) : bool :=
  match a, b with None, None => true | Some x, Some y => Bool.eqb x y | _, _ => false end.
Fixpoint listn_eqb (a b : list nat) : bool :=
  match a, b with [] , [] => true | x :: a', y :: b' => (x =? y) && listn_eqb a' b' | _, _ => false end.
Definition obs_eqb (a b : obs) : bool :=
  let '(r1, n1, s1, f1) := a in let '(r2, n2, s2, f2) := b in
  optb_eqb r1 r2 && (n1 =? n2) && listn_eqb s1 s2 && listn_eqb f1 f2.
Fixpoint obsl_eqb (a b : list obs) : bool :=
  match a, b with [], [] => true | x :: a', y :: b' => obs_eqb x y && obsl_eqb a' b' | _, _ => false end.
Fixpoint boolsl_eqb (a b : list bool) : bool :=
  match a, b with [], [] => true | x :: a', y :: b' => Bool.eqb x y && boolsl_eqb a' b' | _, _ => false end.

(* the scenario clock stands at T0; "past" times are below, "future" times above *)
Definition T0 : N := 1000000%N.

(* the values returned by Cancel(id), oldest first *)
Definition tcancel_rets (l : list ev) : list bool :=
  rev (flat_map (fun x => match x with ETCancel _ r => [r] | _ => [] end) l).

Definition judge (band : N) (l : list ev) : list bool :=
  [never_early l; at_most_once l; cancel_honoured band l; all_delivered l].

Definition agree (c : case) : bool :=
  match c with
  | CScript nw mx ops o =>
      obsl_eqb (run_script (set_now (init nw mx IfOwn true true) T0) [] ops) o
  | CHist band l v => boolsl_eqb (judge band l) v
  | CWin ls rets st_ =>
      let s1 := run (set_now (init 1 0 IfOwn true true) T0) ls in
      let s2 := settle FUEL [] (step s1 (LTick 1000000000%N)) in
      boolsl_eqb (tcancel_rets (log s1)) rets && listn_eqb (sort (started (log s2))) st_
  | CRun nw ls blocked tick ordered st_ =>
      let s1 := run (set_now (init nw 0 IfOwn true true) T0) ls in
      let s2 := settle FUEL blocked (step s1 (LTick tick)) in
      if ordered then listn_eqb (rev (started (log s2))) st_ else listn_eqb (sort (started (log s2))) st_
  end.

Fixpoint mismatches_from (i : nat) (cs : list case) : list nat :=
  match cs with
  | [] => []
  | c :: r => if agree c then mismatches_from (S i) r else i :: mismatches_from (S i) r
  end.

Definition mismatches (cs : list case) : list nat := mismatches_from 0 cs.
