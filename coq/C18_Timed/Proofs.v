From Coq Require Import NArith List Bool Arith Lia.
From Verif.C18_Timed Require Import Model.
Import ListNotations.
