(* C18 - safety theorems for all schedules: never early, at most once, cancel honoured.
   The invariant [Inv] is proved on micro steps (Micro.v) and lifted to [run]. *)
From Coq Require Import NArith List Bool Arith Lia Relations.
From Verif.C18_Timed Require Import Model Heap Micro.
Import ListNotations.

Fixpoint cntD (k : nat) (l : list ev) : nat :=
  match l with
  | [] => 0
  | EDeliver e _ :: r => b2n (e =? k) + cntD k r
  | _ :: r => cntD k r
  end.

Record Inv (s : st) : Prop := {
  i_pend : forall x, In x (pend s) -> eid x < nxt s /\ due_of (eid x) (log s) = Some (etime x);
  i_due : forall e d, due_of e (log s) = Some d -> e < nxt s;
  i_ign : fignore s = true -> exists i, ignore_at (log s) = Some i /\ (i <= now s)%N;
  i_ign2 : forall i, ignore_at (log s) = Some i -> shut s = true;
  i_ne : forall e a, In (EDeliver e a) (log s) ->
         (a <= now s)%N /\ exists d, due_of e (log s) = Some d /\
           ((d <= a)%N \/ exists i, ignore_at (log s) = Some i /\ (i <= a)%N);
  i_once : forall k, cnt (fun x => eid x =? k) (pend s) + cntD k (log s) <= 1;
  i_can : forall e r a, In (ECancel e r a) (log s) -> memb e (closed s) = true /\ (a <= now s)%N /\ e < nxt s;
  i_ord : recheck s = true -> forall e a r c,
          In (EDeliver e a) (log s) -> In (ECancel e r c) (log s) -> (a <= c)%N
}.

(* ---------- small facts ---------- *)

Lemma nonspecial_due e ev l : special ev = false -> due_of e (ev :: l) = due_of e l.
Proof. destruct ev; simpl; auto; discriminate. Qed.
Lemma nonspecial_ign ev l : special ev = false -> ignore_at (ev :: l) = ignore_at l.
Proof. destruct ev; simpl; auto; discriminate. Qed.
Lemma nonspecial_cntD k ev l : special ev = false -> cntD k (ev :: l) = cntD k l.
Proof. destruct ev; simpl; auto; discriminate. Qed.

Lemma shrink_incl s s' : shrink s s' -> incl (pend s') (pend s).
Proof. intros H. apply in_of_cnt. exact H. Qed.

Lemma cnt_zero p l : (forall x, In x l -> p x = false) -> cnt p l = 0.
Proof.
  induction l; intros H; [reflexivity|]. rewrite cnt_cons, (H a (or_introl eq_refl)). simpl.
  apply IHl. intros x Hx. apply H. right; auto.
Qed.

Lemma cntD_pos k l : 0 < cntD k l -> exists a, In (EDeliver k a) l.
Proof.
  induction l as [|ev r]; simpl; [lia|]. destruct ev; try (intros H; destruct (IHr H) as [a Ha]; exists a; auto).
  destruct (e =? k) eqn:E; simpl; intros H.
  - apply Nat.eqb_eq in E; subst. exists at_; auto.
  - destruct (IHr H) as [a Ha]; exists a; auto.
Qed.

Lemma grow_in (l l' : list elem) x :
  (forall p, cnt p l' = cnt p l + b2n (p x)) -> forall y, In y l' -> y = x \/ In y l.
Proof.
  intros H y Hy. specialize (H (fun z => elem_eqb z y)). cbv beta in H.
  assert (0 < cnt (fun z => elem_eqb z y) l') by (eapply in_cnt_pos; eauto; apply elem_eqb_eq; auto).
  destruct (elem_eqb x y) eqn:E.
  - apply elem_eqb_eq in E; auto.
  - simpl in H. destruct (cnt_pos_in (fun z => elem_eqb z y) l) as (z & Hz & E'); [lia|].
    apply elem_eqb_eq in E'; subst; auto.
Qed.

(* ---------- the invariant is preserved by every micro step ---------- *)

Lemma inv_micro s s' : micro s s' -> Inv s -> Inv s'.
Proof.
  intros M I. destruct I as [Ip Id Ig Ig2 Ine Io Ic Ior].
  destruct M as [s s' Hn Hx [Fs [Fi [Fc Fr]]] Cm Sh Hl
                |s s' ev Sp [Hn [Hx [[Fs [Fi [Fc Fr]]] Cm]]] Sh Hl
                |s s' x [Hn [Hx [[Fs [Fi [Fc Fr]]] Cm]]] Hin Hc Hl Hd Hr
                |s s' e r [Hn [Hx [[Fs [Fi [Fc Fr]]] Cm]]] Sh He Hl Hm
                |s s' fc fi Hn Hx Cm Sh S0 S1 Fi Fr Hl
                |s s' x [Hn [Hx [[Fs [Fi [Fc Fr]]] Cm]]] He Hc Hl].
  - (* quiet *)
    constructor; rewrite ?Hl, ?Hx, ?Fs, ?Fi, ?Fr.
    + intros x Hin. apply Ip. apply (shrink_incl _ _ Sh); auto.
    + auto.
    + intros F. destruct (Ig F) as (i & E & L). exists i; split; auto. lia.
    + auto.
    + intros e a H. destruct (Ine e a H) as (L & R). split; auto. lia.
    + intros k. specialize (Io k). specialize (Sh (fun x => eid x =? k)). lia.
    + intros e r a H. destruct (Ic e r a H) as (A & B & C). repeat split; auto. lia.
    + auto.
  - (* non-special event *)
    constructor; rewrite ?Hl, ?Hx, ?Fs, ?Fi, ?Fr, ?Hn.
    + intros x Hin. rewrite nonspecial_due by auto. apply Ip. apply (shrink_incl _ _ Sh); auto.
    + intros e d. rewrite nonspecial_due by auto. apply Id.
    + rewrite nonspecial_ign by auto. auto.
    + rewrite nonspecial_ign by auto. auto.
    + intros e a [H|H]; [subst ev; discriminate|]. rewrite nonspecial_due, nonspecial_ign by auto. auto.
    + intros k. rewrite nonspecial_cntD by auto. specialize (Io k). specialize (Sh (fun x => eid x =? k)). lia.
    + intros e r a [H|H]; [subst ev; discriminate|]. destruct (Ic e r a H) as (A & B & C). auto.
    + intros R e a r c [H|H]; [subst ev; discriminate|]. intros [H'|H']; [subst ev; discriminate|]. eapply Ior; eauto.
  - (* deliver *)
    assert (Inc : incl (pend s') (pend s)).
    { apply in_of_cnt. intros p. specialize (Hc p). lia. }
    destruct (Ip x Hin) as [Lx Dx].
    constructor; rewrite ?Hl, ?Hx, ?Fs, ?Fi, ?Fr, ?Hn.
    + intros y Hy. simpl. apply Ip. apply Inc; auto.
    + intros e d. simpl. apply Id.
    + simpl. auto.
    + simpl. auto.
    + intros e a [H|H].
      * inversion H; subst e a. split; [lia|]. simpl. exists (etime x). split; auto.
        destruct Hd as [Hd|[Hs Hf]].
        -- left. unfold is_due in Hd. apply N.leb_le in Hd. auto.
        -- right. destruct (Ig Hf) as (i & E & L). exists i; auto.
      * simpl. auto.
    + intros k. simpl. specialize (Io k). specialize (Hc (fun y => eid y =? k)). cbv beta in Hc. lia.
    + intros e r a [H|H]; [discriminate|]. destruct (Ic e r a H) as (A & B & C). auto.
    + intros R e a r c [H|H] [H'|H']; try discriminate.
      * inversion H; subst e a. destruct (Ic _ _ _ H') as (A & _). rewrite (Hr R) in A. discriminate.
      * eapply Ior; eauto.
  - (* cancel *)
    constructor; rewrite ?Hl, ?Hx, ?Fs, ?Fi, ?Fr, ?Hn.
    + intros y Hy. simpl. apply Ip. apply (shrink_incl _ _ Sh); auto.
    + intros e0 d. simpl. apply Id.
    + simpl; auto.
    + simpl; auto.
    + intros e0 a [H|H]; [discriminate|]. simpl. auto.
    + intros k. simpl. specialize (Io k). specialize (Sh (fun x => eid x =? k)). lia.
    + intros e0 r0 a [H|H].
      * inversion H; subst. repeat split; auto. lia.
      * destruct (Ic e0 r0 a H) as (A & B & C). auto.
    + intros R e0 a r0 c [H|H] [H'|H']; try discriminate.
      * inversion H'; subst. destruct (Ine _ _ H) as (L & _). auto.
      * eapply Ior; eauto.
  - (* shutdown *)
    constructor; rewrite ?Hl, ?Hx, ?Hn.
    + intros y Hy. simpl. apply Ip. apply (shrink_incl _ _ Sh); auto.
    + intros e d. simpl. apply Id.
    + rewrite Fi. intros ->. simpl. exists (now s). split; auto. lia.
    + intros i _. auto.
    + intros e a [H|H]; [discriminate|]. destruct (Ine e a H) as (L & d & D & [Q|(i & Q & Q')]).
      * split; auto. exists d; simpl; auto.
      * rewrite (Ig2 i Q) in S0. discriminate.
    + intros k. simpl. specialize (Io k). specialize (Sh (fun x => eid x =? k)). lia.
    + intros e r a [H|H]; [discriminate|]. destruct (Ic e r a H) as (A & B & C). auto.
    + rewrite Fr. intros R e a r c [H|H] [H'|H']; try discriminate. eapply Ior; eauto.
  - (* add *)
    assert (Fresh : forall y, In y (pend s) -> (eid x =? eid y) = false).
    { intros y Hy. destruct (Ip y Hy). apply Nat.eqb_neq. lia. }
    constructor; rewrite ?Hl, ?Hx, ?Fs, ?Fi, ?Fr, ?Hn.
    + intros y Hy. destruct (grow_in _ _ _ Hc y Hy) as [->|Hy'].
      * split; [lia|]. simpl. rewrite Nat.eqb_refl. auto.
      * destruct (Ip y Hy'). split; [lia|]. simpl. rewrite (Fresh y Hy'). auto.
    + intros e d. simpl. destruct (eid x =? e) eqn:E.
      * apply Nat.eqb_eq in E. lia.
      * intros H. specialize (Id e d H). lia.
    + simpl; auto.
    + simpl; auto.
    + intros e a [H|H]; [discriminate|]. destruct (Ine e a H) as (L & d & D & Q). split; auto.
      exists d. simpl. specialize (Id e d D). destruct (eid x =? e) eqn:E; [apply Nat.eqb_eq in E; lia|]. auto.
    + intros k. simpl. rewrite Hc. cbv beta. specialize (Io k).
      destruct (eid x =? k) eqn:E; simpl; [|lia].
      apply Nat.eqb_eq in E. subst k.
      assert (cnt (fun y => eid y =? eid x) (pend s) = 0).
      { apply cnt_zero. intros y Hy. rewrite Nat.eqb_sym. auto. }
      assert (cntD (eid x) (log s) = 0).
      { destruct (cntD (eid x) (log s)) eqn:Z; auto.
        destruct (cntD_pos (eid x) (log s)) as [a Ha]; [lia|].
        destruct (Ine _ _ Ha) as (_ & d & D & _). specialize (Id _ _ D). lia. }
      lia.
    + intros e r a [H|H]; [discriminate|]. destruct (Ic e r a H) as (A & B & C). repeat split; auto.
    + intros R e a r c [H|H] [H'|H']; try discriminate. eapply Ior; eauto.
Qed.

Lemma inv_mstar s s' : mstar s s' -> Inv s -> Inv s'.
Proof.
  induction 1; auto. apply inv_micro; auto.
Qed.

Lemma wpend_repeat_idle n : wpend (repeat WIdle n) = [].
Proof. induction n; simpl; auto. Qed.

Lemma inv_init n m md rc bc : Inv (init n m md rc bc).
Proof.
  constructor; unfold init, pend; simpl; try rewrite wpend_repeat_idle; simpl; try tauto; try discriminate.
  intros k. unfold cnt; simpl. lia.
Qed.

Theorem inv_run n m md rc bc ls : Inv (run (init n m md rc bc) ls).
Proof. eapply inv_mstar; [apply run_micro | apply inv_init]. Qed.

(* the configuration is constant *)
Lemma micro_recheck s s' : micro s s' -> recheck s' = recheck s.
Proof.
  intros M. destruct M as [? ? ? ? [? [? [? ?]]] | ? ? ? ? [? [? [[? [? [? ?]]] ?]]] | ? ? ? [? [? [[? [? [? ?]]] ?]]]
    | ? ? ? ? [? [? [[? [? [? ?]]] ?]]] | | ? ? ? [? [? [[? [? [? ?]]] ?]]]]; auto.
Qed.
Lemma mstar_recheck s s' : mstar s s' -> recheck s' = recheck s.
Proof. induction 1; auto; [apply micro_recheck; auto | congruence]. Qed.
Lemma run_recheck n m md rc bc ls : recheck (run (init n m md rc bc) ls) = rc.
Proof. rewrite (mstar_recheck _ _ (run_micro ls _)). reflexivity. Qed.

(* ---------- from the invariant to the executable predicates ---------- *)

Lemma delivered_in l e a : In (e, a) (delivered l) <-> In (EDeliver e a) l.
Proof.
  unfold delivered. rewrite in_flat_map. split.
  - intros (x & Hx & H). destruct x; simpl in H; try tauto. destruct H as [H|[]]. inversion H; subst; auto.
  - intros H. exists (EDeliver e a). split; simpl; auto.
Qed.

Theorem never_early_run n m md rc bc ls : never_early (log (run (init n m md rc bc) ls)) = true.
Proof.
  pose proof (inv_run n m md rc bc ls) as I. set (s := run _ ls) in *.
  unfold never_early. apply forallb_forall. intros [e a] H. apply delivered_in in H.
  destruct (i_ne s I e a H) as (_ & d & D & Q). rewrite D.
  destruct Q as [Q|(i & Q & Q')].
  - apply N.leb_le in Q. rewrite Q. reflexivity.
  - rewrite Q. apply N.leb_le in Q'. rewrite Q'. apply orb_true_r.
Qed.

Lemma cntD_count k l : cntD k l = length (filter (Nat.eqb k) (map fst (delivered l))).
Proof.
  induction l as [|ev r]; simpl; auto. destruct ev; simpl; auto.
  rewrite (Nat.eqb_sym k e). destruct (e =? k); simpl; auto.
Qed.

Lemma nodupb_count m : (forall k, length (filter (Nat.eqb k) m) <= 1) -> nodupb m = true.
Proof.
  induction m as [|x r]; simpl; auto. intros H. apply andb_true_iff. split.
  - apply negb_true_iff. destruct (memb x r) eqn:E; auto.
    unfold memb in E. apply existsb_exists in E as (y & Hy & E'). apply Nat.eqb_eq in E'. subst y.
    specialize (H x). rewrite Nat.eqb_refl in H. simpl in H.
    assert (0 < length (filter (Nat.eqb x) r)).
    { clear -Hy. induction r; simpl in *; [tauto|]. destruct Hy as [->|Hy].
      - rewrite Nat.eqb_refl. simpl. lia.
      - destruct (x =? a); simpl; auto. specialize (IHr Hy). lia. }
    lia.
  - apply IHr. intros k. specialize (H k). destruct (k =? x); simpl in H; lia.
Qed.

Theorem at_most_once_run n m md rc bc ls : at_most_once (log (run (init n m md rc bc) ls)) = true.
Proof.
  pose proof (inv_run n m md rc bc ls) as I. set (s := run _ ls) in *.
  unfold at_most_once. apply nodupb_count. intros k. rewrite <- cntD_count.
  pose proof (i_once s I k). lia.
Qed.

Lemma cancel_at_in e : forall l c, cancel_at e l = Some c -> exists r, In (ECancel e r c) l.
Proof.
  induction l as [|ev l']; simpl; intros c H; [discriminate|].
  destruct ev; try (destruct (IHl' c H) as [r0 Hr]; exists r0; auto).
  destruct (cancel_at e l') as [c'|] eqn:E.
  - inversion H; subst. destruct (IHl' c eq_refl) as [r0 Hr]. exists r0; auto.
  - destruct (e0 =? e) eqn:E2; [|discriminate]. apply Nat.eqb_eq in E2. inversion H; subst. exists removed; auto.
Qed.

(* the repaired Poll: a delivery is never stamped after a completed Cancel of the same element *)
Theorem cancel_honoured_run n m md bc ls : cancel_honoured 0 (log (run (init n m md true bc) ls)) = true.
Proof.
  pose proof (inv_run n m md true bc ls) as I. pose proof (run_recheck n m md true bc ls) as R.
  set (s := run _ ls) in *.
  unfold cancel_honoured. apply forallb_forall. intros [e a] H. apply delivered_in in H.
  destruct (cancel_at e (log s)) as [c|] eqn:E; auto.
  destruct (cancel_at_in e _ _ E) as [r Hr]. apply N.leb_le. rewrite N.add_0_r.
  eapply (i_ord s I R); eauto.
Qed.

(* log order: after a Cancel of e has completed, no step delivers e *)
Lemma log_grows_micro s s' : micro s s' -> exists l, log s' = l ++ log s.
Proof.
  intros M. destruct M; try (eexists [_]; simpl; eassumption). exists []; auto.
Qed.
Lemma log_grows s s' : mstar s s' -> exists l, log s' = l ++ log s.
Proof.
  induction 1.
  - apply log_grows_micro; auto.
  - exists []; auto.
  - destruct IHclos_refl_trans1 as [l1 E1], IHclos_refl_trans2 as [l2 E2]. exists (l2 ++ l1).
    rewrite E2, E1, app_assoc. reflexivity.
Qed.

Lemma no_deliver_after_cancel_micro s s' e :
  micro s s' -> recheck s = true -> memb e (closed s) = true ->
  (exists l, log s' = l ++ log s /\ forall a, ~ In (EDeliver e a) l) /\ memb e (closed s') = true.
Proof.
  intros M R C.
  destruct M as [s s' Hn Hx [Fs [Fi [Fc Fr]]] Cm Sh Hl
                |s s' ev Sp [Hn [Hx [[Fs [Fi [Fc Fr]]] Cm]]] Sh Hl
                |s s' x [Hn [Hx [[Fs [Fi [Fc Fr]]] Cm]]] Hin Hc Hl Hd Hr
                |s s' e0 r [Hn [Hx [[Fs [Fi [Fc Fr]]] Cm]]] Sh He Hl Hm
                |s s' fc fi Hn Hx Cm Sh S0 S1 Fi Fr Hl
                |s s' x [Hn [Hx [[Fs [Fi [Fc Fr]]] Cm]]] He Hc Hl];
    (split; [|apply Cm; auto]).
  - exists []; split; auto.
  - exists [ev]; split; auto. intros a [H|[]]. subst ev. discriminate.
  - exists [EDeliver (eid x) (now s)]; split; auto. intros a [H|[]]. inversion H; subst.
    rewrite (Hr R) in C. discriminate.
  - eexists [_]; split; [exact Hl|]. intros a [H|[]]. discriminate.
  - eexists [_]; split; [exact Hl|]. intros a [H|[]]. discriminate.
  - eexists [_]; split; [exact Hl|]. intros a [H|[]]. discriminate.
Qed.

Theorem cancel_then_never_delivered s s' e :
  recheck s = true -> memb e (closed s) = true -> mstar s s' ->
  exists l, log s' = l ++ log s /\ forall a, ~ In (EDeliver e a) l.
Proof.
  intros R C M. apply clos_rt_rt1n in M. induction M as [s|s s1 s2 M1 M2 IH].
  - exists []; split; auto.
  - destruct (no_deliver_after_cancel_micro s s1 e M1 R C) as [(l1 & E1 & N1) C1].
    destruct IH as (l & E & Nl); auto.
    { rewrite (micro_recheck _ _ M1); auto. }
    exists (l ++ l1). split; [rewrite E, E1, app_assoc; auto|].
    intros a H. apply in_app_or in H as [H|H]; [apply (Nl a H) | apply (N1 a H)].
Qed.
