(* C18 - executable model of runtime/timed (queue.go, executor.go, taskexecutor.go, heapkey.go over
   ds/generalheap + container/heap), after the repairs d167a95 (D18a/b), 3715404 (D18c) and 3675c1d (D18d).

   Logical time [now : N] is advanced by the scheduler ([LTick]).  One label = one atomic step:
   client calls (Add/ExecuteAt, QueueElement.Cancel, TaskExecutor.Cancel, Shutdown) are atomic (they
   run under heapMutex / queuedElementsMutex); a worker (a goroutine looping over Poll(true), as
   Executor.startBackgroundWorkers does) is cut at every point where another goroutine can interleave:
     WIdle    top of Poll's loop (about to take heapMutex)
     WWait    in waitCond.Wait()
     WPopped  popped an element, heapMutex released, not yet in the select     (the D18c window)
     WParked  blocked in the outer select {ctx | cancel | timer}
     WPopped2 ctx was taken without flags, not yet in the inner select
     WParked2 blocked in the inner select {cancel | timer}
     WChosen  a select has taken the timer case (or the ctx case with IgnorePendingTimeouts): Poll is on a return
              path but has not yet re-checked the cancel channel / returned the value.  A Cancel that completes
              here does not wake anybody (the goroutine is no longer in the select); only the re-check sees it.
     WDeliv   Poll returned the value (the wrapper of TaskExecutor is about to take its mutex)
     WRun     the callback is running
     WExit    Poll returned the empty value: the Executor worker left its loop.
   A goroutine parked in a select is woken by the FIRST channel that becomes ready (Go semantics), so
   Cancel/Shutdown resolve parked workers inside their own step; a select entered with several ready
   channels picks one at random: the [choice] of the worker label.
   Config: [mode] = wrapper clean-up of TaskExecutor (Unconditional = pinned code, IfOwn = repaired),
   [recheck] = Poll re-checks the cancel channel before returning a value (false = pinned code),
   [bcast] = Shutdown always broadcasts on the condition variable (false = pinned: only when the heap is empty). *)
From Coq Require Import NArith List Bool Arith.
Import ListNotations.

(* ---------- elements and the heap (array = list, index 0 = root) ---------- *)

Record elem := mkE { eid : nat; etime : N; ekey : option nat }.
Definition dflt : elem := mkE 0 0%N None.

(* generalheap.Heap.Less with HeapKey.CompareTo: strictly earlier *)
Definition less (a b : elem) : bool := N.ltb (etime a) (etime b).

Fixpoint upd (l : list elem) (i : nat) (x : elem) : list elem :=
  match l, i with
  | [], _ => []
  | _ :: r, O => x :: r
  | a :: r, S i' => a :: upd r i' x
  end.

Definition swap (l : list elem) (i j : nat) : list elem :=
  upd (upd l i (nth j l dflt)) j (nth i l dflt).

(* container/heap.up *)
Fixpoint up (fuel : nat) (h : list elem) (j : nat) : list elem :=
  match fuel with
  | O => h
  | S f =>
      match j with
      | O => h                                   (* i = (j-1)/2 = 0 = j: break *)
      | S j' =>
          let i := Nat.div2 j' in
          if less (nth j h dflt) (nth i h dflt) then up f (swap h i j) i else h
      end
  end.

(* container/heap.down(i0, n); returns the array and whether the element moved *)
Fixpoint down_from (fuel : nat) (h : list elem) (i n : nat) : list elem * nat :=
  match fuel with
  | O => (h, i)
  | S f =>
      let j1 := 2 * i + 1 in
      if n <=? j1 then (h, i) else
      let j := if (j1 + 1 <? n) && less (nth (j1 + 1) h dflt) (nth j1 h dflt) then j1 + 1 else j1 in
      if less (nth j h dflt) (nth i h dflt) then down_from f (swap h i j) j n else (h, i)
  end.

Definition down (h : list elem) (i0 n : nat) : list elem * bool :=
  let '(h', i) := down_from (length h) h i0 n in (h', i0 <? i).

(* heap.Push: append, up(len-1) *)
Definition hpush (h : list elem) (x : elem) : list elem :=
  let h' := h ++ [x] in up (length h') h' (length h).

(* heap.Pop: n = len-1; swap(0,n); down(0,n); drop the last slot *)
Definition hpop (h : list elem) : option (elem * list elem) :=
  match h with
  | [] => None
  | _ =>
      let n := length h - 1 in
      let h1 := swap h 0 n in
      let '(h2, _) := down h1 0 n in
      Some (nth n h2 dflt, firstn n h2)
  end.

(* heap.Remove(i) *)
Definition hremove (h : list elem) (i : nat) : option (elem * list elem) :=
  if length h <=? i then None else
  let n := length h - 1 in
  let h2 :=
    if n =? i then h else
    let h1 := swap h i n in
    let '(h1', moved) := down h1 i n in
    if moved then h1' else up (length h1') h1' i in
  Some (nth n h2 dflt, firstn n h2).

(* position of an element id in the array (QueueElement.rawElem.Index(); -1 = None) *)
Fixpoint index_of (e : nat) (h : list elem) : option nat :=
  match h with
  | [] => None
  | x :: r => if eid x =? e then Some 0 else option_map S (index_of e r)
  end.

(* ---------- state ---------- *)

Inductive wst :=
| WIdle | WWait | WPopped (e : elem) | WParked (e : elem) | WPopped2 (e : elem) | WParked2 (e : elem)
| WChosen (e : elem) | WDeliv (e : elem) | WRun (e : elem) | WExit.

Inductive wmode := Unconditional | IfOwn.

(* the log doubles as the recorded history judged by the predicates below (newest first) *)
Inductive ev :=
| EAdd (e : nat) (due : N) (k : option nat) (at_ : N)   (* Add returned the element e *)
| EReject                                               (* Add on a shut-down queue returned nil *)
| EDrop (e : nat)                                       (* removed by the size bound *)
| ECancel (e : nat) (removed : bool) (at_ : N)          (* QueueElement.Cancel completed; removed from the heap? *)
| ETCancel (k : nat) (r : bool)                         (* TaskExecutor.Cancel(k) = r *)
| EShutdown (fc fi : bool) (at_ : N)
| EDiscard (e : nat)                                    (* emptied by CancelPendingElements / Poll returned empty holding e *)
| ESkip (e : nat)                                       (* Poll saw the cancel channel closed: continue *)
| EDeliver (e : nat) (at_ : N)                          (* Poll decided to return the value of e *)
| EStart (e : nat)                                      (* the (user) callback of e starts *)
| ESkipRun (e : nat)                                    (* repaired wrapper: entry gone or replaced, callback not run *)
| EFinish (e : nat).

Record st := mkSt {
  now : N;
  heap : list elem;
  nxt : nat;                    (* next element id = number of accepted Adds *)
  maxsz : nat;                  (* 0 = unbounded *)
  mode : wmode;
  recheck : bool;
  bcast : bool;                 (* Shutdown broadcasts also when the heap is not empty (false = pinned code) *)
  shut : bool; fcancel : bool; fignore : bool;
  closed : list nat;            (* elements whose cancel channel is closed *)
  workers : list wst;
  tmap : list (nat * nat);      (* TaskExecutor.queuedElements: identifier -> element id *)
  dead : list nat;              (* ghost: elements replaced by ExecuteAt or removed by a Cancel(id) = true *)
  log : list ev
}.

Definition init (nworkers maxsize : nat) (m : wmode) (rc bc : bool) : st :=
  mkSt 0 [] 0 maxsize m rc bc false false false [] (repeat WIdle nworkers) [] [] [].

(* record update helpers *)
Definition set_now s v := mkSt v (heap s) (nxt s) (maxsz s) (mode s) (recheck s) (bcast s) (shut s) (fcancel s) (fignore s) (closed s) (workers s) (tmap s) (dead s) (log s).
Definition set_heap s v := mkSt (now s) v (nxt s) (maxsz s) (mode s) (recheck s) (bcast s) (shut s) (fcancel s) (fignore s) (closed s) (workers s) (tmap s) (dead s) (log s).
Definition set_nxt s v := mkSt (now s) (heap s) v (maxsz s) (mode s) (recheck s) (bcast s) (shut s) (fcancel s) (fignore s) (closed s) (workers s) (tmap s) (dead s) (log s).
Definition set_shut s fc fi := mkSt (now s) (heap s) (nxt s) (maxsz s) (mode s) (recheck s) (bcast s) true fc fi (closed s) (workers s) (tmap s) (dead s) (log s).
Definition set_closed s v := mkSt (now s) (heap s) (nxt s) (maxsz s) (mode s) (recheck s) (bcast s) (shut s) (fcancel s) (fignore s) v (workers s) (tmap s) (dead s) (log s).
Definition set_workers s v := mkSt (now s) (heap s) (nxt s) (maxsz s) (mode s) (recheck s) (bcast s) (shut s) (fcancel s) (fignore s) (closed s) v (tmap s) (dead s) (log s).
Definition set_tmap s v := mkSt (now s) (heap s) (nxt s) (maxsz s) (mode s) (recheck s) (bcast s) (shut s) (fcancel s) (fignore s) (closed s) (workers s) v (dead s) (log s).
Definition set_dead s v := mkSt (now s) (heap s) (nxt s) (maxsz s) (mode s) (recheck s) (bcast s) (shut s) (fcancel s) (fignore s) (closed s) (workers s) (tmap s) v (log s).
Definition emit s e := mkSt (now s) (heap s) (nxt s) (maxsz s) (mode s) (recheck s) (bcast s) (shut s) (fcancel s) (fignore s) (closed s) (workers s) (tmap s) (dead s) (e :: log s).

Definition memb (x : nat) (l : list nat) : bool := existsb (Nat.eqb x) l.

Fixpoint tget (k : nat) (m : list (nat * nat)) : option nat :=
  match m with [] => None | (k', v) :: r => if k' =? k then Some v else tget k r end.
Fixpoint tdel (k : nat) (m : list (nat * nat)) : list (nat * nat) :=
  match m with [] => [] | (k', v) :: r => if k' =? k then tdel k r else (k', v) :: tdel k r end.
Definition tset (k v : nat) (m : list (nat * nat)) : list (nat * nat) := (k, v) :: tdel k m.

Fixpoint wupd (l : list wst) (i : nat) (x : wst) : list wst :=
  match l, i with
  | [], _ => []
  | _ :: r, O => x :: r
  | a :: r, S i' => a :: wupd r i' x
  end.

Definition is_due (s : st) (e : elem) : bool := N.leb (etime e) (now s).

(* ---------- Poll's decision to return the value of e (with the repaired re-check) ---------- *)

(* result: the new state and the worker's next control point.  This is the step taken from WChosen: the select
   has chosen the return path earlier, in a separate step. *)
Definition deliver (s : st) (e : elem) : st * wst :=
  if recheck s && memb (eid e) (closed s)
  then (emit s (ESkip (eid e)), WIdle)
  else (emit s (EDeliver (eid e) (now s)), WDeliv e).

(* the ctx.Done() branch of the outer select *)
Definition ctx_branch (s : st) (e : elem) : st * wst :=
  if fcancel s then (emit s (EDiscard (eid e)), WExit)
  else if fignore s then (s, WChosen e)
  else (s, WPopped2 e).

Inductive branch := BCtx | BCan | BTim.

Definition ready_outer (s : st) (e : elem) : list branch :=
  (if shut s then [BCtx] else []) ++ (if memb (eid e) (closed s) then [BCan] else []) ++ (if is_due s e then [BTim] else []).
Definition ready_inner (s : st) (e : elem) : list branch :=
  (if memb (eid e) (closed s) then [BCan] else []) ++ (if is_due s e then [BTim] else []).

Definition take_branch (s : st) (e : elem) (b : branch) : st * wst :=
  match b with
  | BCtx => ctx_branch s e
  | BCan => (emit s (ESkip (eid e)), WIdle)
  | BTim => (s, WChosen e)
  end.

(* ---------- one atomic step of worker w ---------- *)

Definition worker_step (s : st) (w : nat) (choice : nat) : st :=
  let fin (p : st * wst) := set_workers (fst p) (wupd (workers (fst p)) w (snd p)) in
  match nth_error (workers s) w with
  | None => s
  | Some ws =>
    match ws with
    | WIdle =>
        match hpop (heap s) with
        | None => fin (s, if shut s then WExit else WWait)
        | Some (e, h') => fin (set_heap s h', WPopped e)
        end
    | WWait => s
    | WPopped e =>
        match ready_outer s e with
        | [] => fin (s, WParked e)
        | r => fin (take_branch s e (nth (choice mod length r) r BTim))
        end
    | WPopped2 e =>
        match ready_inner s e with
        | [] => fin (s, WParked2 e)
        | r => fin (take_branch s e (nth (choice mod length r) r BTim))
        end
    | WParked e => if is_due s e then fin (s, WChosen e) else s
    | WParked2 e => if is_due s e then fin (s, WChosen e) else s
    | WChosen e =>
        (* the guard is true in every reachable state ([chosen_ok_run], Window.v): a worker gets to WChosen e only
           through a timer case (e is due, and stays due) or the IgnorePendingTimeouts path (the flags stay) *)
        if is_due s e || (shut s && fignore s) then fin (deliver s e) else s
    | WDeliv e =>
        match ekey e, mode s with
        | Some k, IfOwn =>
            match tget k (tmap s) with
            | Some v => if v =? eid e
                        then fin (emit (set_tmap s (tdel k (tmap s))) (EStart (eid e)), WRun e)
                        else fin (emit s (ESkipRun (eid e)), WIdle)
            | None => fin (emit s (ESkipRun (eid e)), WIdle)
            end
        | _, _ => fin (emit s (EStart (eid e)), WRun e)
        end
    | WRun e =>
        match ekey e, mode s with
        | Some k, Unconditional => fin (emit (set_tmap s (tdel k (tmap s))) (EFinish (eid e)), WIdle)
        | _, _ => fin (emit s (EFinish (eid e)), WIdle)
        end
    | WExit => s
    end
  end.

(* ---------- client steps ---------- *)

(* close(cancel) wakes the worker parked on that element: it takes the cancel branch *)
Fixpoint wake_cancel (e : nat) (ws : list wst) : list wst * bool :=
  match ws with
  | [] => ([], false)
  | w :: r =>
      let '(r', b) := wake_cancel e r in
      match w with
      | WParked x | WParked2 x => if eid x =? e then (WIdle :: r', true) else (w :: r', b)
      | _ => (w :: r', b)
      end
  end.

(* QueueElement.Cancel *)
Definition cancel_elem (s : st) (e : nat) : st :=
  if nxt s <=? e then s else
  let '(s1, removed) :=
    match index_of e (heap s) with
    | Some i => match hremove (heap s) i with
                | Some (_, h') => (set_heap s h', true)
                | None => (s, false)
                end
    | None => (s, false)
    end in
  let s2 := emit s1 (ECancel e removed (now s1)) in
  if memb e (closed s2) then s2 else
  let s3 := set_closed s2 (e :: closed s2) in
  let '(ws, woke) := wake_cancel e (workers s3) in
  let s4 := set_workers s3 ws in
  if woke then emit s4 (ESkip e) else s4.

(* waitCond.Signal(): one waiting worker (the first) re-enters Poll's loop *)
Fixpoint signal (ws : list wst) : list wst :=
  match ws with
  | [] => []
  | WWait :: r => WIdle :: r
  | w :: r => w :: signal r
  end.
Definition broadcast (ws : list wst) : list wst := map (fun w => match w with WWait => WIdle | _ => w end) ws.

(* Queue.Add (the shutdown test and the push are one step: see notes, Add/Shutdown check-then-act window) *)
Definition queue_add (s : st) (t : N) (k : option nat) : st * option nat :=
  if shut s then (emit s EReject, None) else
  let id := nxt s in
  let x := mkE id t k in
  let s1 := emit (set_nxt (set_heap s (hpush (heap s) x)) (S id)) (EAdd id t k (now s)) in
  let s2 :=
    if (0 <? maxsz s1) && (maxsz s1 <? length (heap s1)) then
      match hremove (heap s1) (length (heap s1) - 1) with
      | Some (d, h') => emit (set_heap s1 h') (EDrop (eid d))
      | None => s1
      end
    else s1 in
  (set_workers s2 (signal (workers s2)), Some id).

(* Executor.ExecuteAt (k = None) / TaskExecutor.ExecuteAt (k = Some identifier) *)
Definition add_step (s : st) (t : N) (k : option nat) : st :=
  match k with
  | None => fst (queue_add s t None)
  | Some key =>
      let s1 :=
        match tget key (tmap s) with
        | Some old => set_dead (set_tmap (cancel_elem s old) (tdel key (tmap s))) (old :: dead s)
        | None => s
        end in
      match queue_add s1 t (Some key) with
      | (s2, Some id) => set_tmap s2 (tset key id (tmap s2))
      | (s2, None) => s2
      end
  end.

(* TaskExecutor.Cancel *)
Definition tcancel_step (s : st) (key : nat) : st :=
  match tget key (tmap s) with
  | None => emit s (ETCancel key false)
  | Some e =>
      let s1 := cancel_elem s e in
      emit (set_dead (set_tmap s1 (tdel key (tmap s1))) (e :: dead s1)) (ETCancel key true)
  end.

(* ctxCancel() wakes every worker parked in the outer select *)
Definition wake_ctx_at (s : st) (w : nat) : st :=
  match nth_error (workers s) w with
  | Some (WParked e) => let p := ctx_branch s e in set_workers (fst p) (wupd (workers (fst p)) w (snd p))
  | _ => s
  end.
Definition wake_ctx (s : st) : st := fold_left wake_ctx_at (seq 0 (length (workers s))) s.

Fixpoint discard_all (s : st) (h : list elem) : st :=
  match h with [] => s | x :: r => discard_all (emit s (EDiscard (eid x))) r end.

(* Queue.Shutdown (PanicOnModificationsAfterShutdown and DontWaitForShutdown are outside the model) *)
Definition shutdown_step (s : st) (fc fi : bool) : st :=
  if shut s then s else
  let s1 := emit (set_shut s fc fi) (EShutdown fc fi (now s)) in
  let s3 := wake_ctx s1 in
  let s4 := match heap s3 with
            | [] => s3
            | h => if fc then set_heap (discard_all s3 h) [] else s3
            end in
  match heap s3 with
  | [] => set_workers s4 (broadcast (workers s4))
  | _ => if bcast s4 then set_workers s4 (broadcast (workers s4)) else s4
  end.

Inductive label :=
| LTick (d : N)
| LAdd (t : N) (k : option nat)
| LCancel (e : nat)
| LTCancel (k : nat)
| LShutdown (fc fi : bool)
| LWorker (w : nat) (choice : nat).

Definition step (s : st) (l : label) : st :=
  match l with
  | LTick d => set_now s (now s + d)%N
  | LAdd t k => add_step s t k
  | LCancel e => cancel_elem s e
  | LTCancel k => tcancel_step s k
  | LShutdown fc fi => shutdown_step s fc fi
  | LWorker w c => worker_step s w c
  end.

Definition run (s : st) (ls : list label) : st := fold_left step ls s.

(* ---------- executable history predicates (on a log, newest first) ---------- *)

Fixpoint due_of (e : nat) (l : list ev) : option N :=
  match l with
  | [] => None
  | EAdd e' d _ _ :: r => if e' =? e then Some d else due_of e r
  | _ :: r => due_of e r
  end.

(* earliest stamp of a Shutdown with IgnorePendingTimeouts *)
Fixpoint ignore_at (l : list ev) : option N :=
  match l with
  | [] => None
  | EShutdown _ true a :: _ => Some a
  | _ :: r => ignore_at r
  end.

Definition delivered (l : list ev) : list (nat * N) :=
  flat_map (fun x => match x with EDeliver e a => [(e, a)] | _ => [] end) l.

(* never delivered before its scheduled time, unless a Shutdown with IgnorePendingTimeouts preceded *)
Definition never_early (l : list ev) : bool :=
  forallb (fun '(e, a) =>
    match due_of e l with
    | None => false
    | Some d => N.leb d a || match ignore_at l with Some i => N.leb i a | None => false end
    end) (delivered l).

Fixpoint nodupb (l : list nat) : bool :=
  match l with [] => true | x :: r => negb (memb x r) && nodupb r end.

Definition at_most_once (l : list ev) : bool := nodupb (map fst (delivered l)).

(* stamp of the (first completed) Cancel of e *)
Fixpoint cancel_at (e : nat) (l : list ev) : option N :=
  match l with
  | [] => None
  | ECancel e' _ a :: r => match cancel_at e r with Some a' => Some a' | None => if e' =? e then Some a else None end
  | _ :: r => cancel_at e r
  end.

(* a delivery of e is stamped no later than [band] after the completion of Cancel(e) *)
Definition cancel_honoured (band : N) (l : list ev) : bool :=
  forallb (fun '(e, a) =>
    match cancel_at e l with Some c => N.leb a (c + band) | None => true end) (delivered l).

Definition has_final (e : nat) (l : list ev) : bool :=
  existsb (fun x => match x with
                    | EDeliver e' _ | ECancel e' _ _ | EDrop e' | EDiscard e' => e' =? e
                    | _ => false end) l.

(* every accepted element has been delivered, cancelled, dropped by the bound or discarded by the shutdown flag *)
Definition all_delivered (l : list ev) : bool :=
  forallb (fun x => match x with EAdd e _ _ _ => has_final e l | _ => true end) l.

Definition started (l : list ev) : list nat :=
  flat_map (fun x => match x with EStart e => [e] | _ => [] end) l.
