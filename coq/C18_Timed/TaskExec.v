(* C18 - TaskExecutor, inductive part: an invariant over the identifier map, the queue (heap + elements held by
   workers) and the wrapper states, for ALL schedules.
   [TInv false] holds on every run (no guard): a dead task (replaced / removed by Cancel(id) = true) never starts.
   [TInv true] holds on every run whose labels pass [te_ok] (the guard that excludes exactly the three patterns of the
   finding taskexecutor-stale-identifier): tracked <-> pending, at most one pending task per identifier. *)
From Coq Require Import NArith List Bool Arith Lia.
From Verif.C18_Timed Require Import Model Heap Micro.
Import ListNotations.
Local Arguments cnt : simpl never.

(* ---------- definitions used by the statements ---------- *)

(* elements that are queued: in the heap, or held by a worker whose wrapper has not decided yet *)
Definition wq (w : wst) : list elem :=
  match w with WPopped e | WParked e | WPopped2 e | WParked2 e | WChosen e | WDeliv e => [e] | _ => [] end.
Definition wqs (ws : list wst) : list elem := flat_map wq ws.
Definition waiting (s : st) : list elem := heap s ++ wqs (workers s).

(* task e of identifier k is pending: queued and neither replaced nor removed by Cancel(k) *)
Definition pending_task (s : st) (k e : nat) : Prop :=
  exists x, In x (waiting s) /\ eid x = e /\ ekey x = Some k /\ ~ In e (dead s).

Definition tracked (e : nat) (m : list (nat * nat)) : bool := existsb (fun kv => snd kv =? e) m.

(* the guard: the label does not produce one of the three stale-identifier patterns *)
Definition te_ok (s : st) (l : label) : bool :=
  match l with
  | LCancel e => negb (tracked e (tmap s))          (* no Cancel() through the returned *ScheduledTask of a tracked task *)
  | LShutdown fc _ => negb fc || shut s             (* no (effective) Shutdown with CancelPendingElements *)
  | LAdd _ _ => match log (step s l) with EDrop _ :: _ => false | _ => true end   (* the size bound drops nothing *)
  | _ => true
  end.

Fixpoint te_guard (s : st) (ls : list label) : bool :=
  match ls with [] => true | l :: r => te_ok s l && te_guard (step s l) r end.

(* the key under which element e was accepted, from the log *)
Fixpoint kof (e : nat) (l : list ev) : option (option nat) :=
  match l with
  | [] => None
  | EAdd e' _ k _ :: r => if e' =? e then Some k else kof e r
  | _ :: r => kof e r
  end.

Definition neutral (x : ev) : bool := match x with EAdd _ _ _ _ | EStart _ => false | _ => true end.
Definition next (lg lg' : list ev) : Prop := exists l, lg' = l ++ lg /\ forallb neutral l = true.

Definition untracked (e : nat) (m : list (nat * nat)) : Prop := forall k, tget k m <> Some e.
Definition ideq (i : nat) (x : elem) : bool := eid x =? i.

(* ---------- small facts ---------- *)

Lemma next_refl lg : next lg lg. Proof. exists []; auto. Qed.
Lemma next_one lg e : neutral e = true -> next lg (e :: lg).
Proof. intros H. exists [e]; simpl; rewrite H; auto. Qed.
Lemma next_trans a b c : next a b -> next b c -> next a c.
Proof.
  intros (l1 & E1 & N1) (l2 & E2 & N2). exists (l2 ++ l1). rewrite E2, E1, app_assoc. split; auto.
  rewrite forallb_app, N1, N2; auto.
Qed.

Lemma next_kof lg lg' e : next lg lg' -> kof e lg' = kof e lg.
Proof.
  intros (l & -> & N). induction l as [|x l IH]; simpl in *; auto.
  apply andb_true_iff in N as [N1 N2]. destruct x; simpl in *; auto; discriminate.
Qed.
Lemma next_started lg lg' : next lg lg' -> started lg' = started lg.
Proof.
  intros (l & -> & N). induction l as [|x l IH]; simpl in *; auto.
  apply andb_true_iff in N as [N1 N2]. destruct x; simpl in *; auto; discriminate.
Qed.

Lemma tget_tdel_other k k' m : tget k' (tdel k m) = if k =? k' then None else tget k' m.
Proof.
  induction m as [|[a v] r IH]; simpl.
  - destruct (k =? k'); auto.
  - destruct (a =? k) eqn:E.
    + apply Nat.eqb_eq in E; subst a. rewrite IH. destruct (k =? k'); auto.
    + simpl. destruct (a =? k') eqn:E2.
      * apply Nat.eqb_eq in E2; subst a. rewrite Nat.eqb_sym, E. auto.
      * exact IH.
Qed.

Lemma tget_tdel_same k m : tget k (tdel k m) = None.
Proof. rewrite tget_tdel_other, Nat.eqb_refl; auto. Qed.

Lemma tget_tset_other k k' v m : tget k' (tset k v m) = if k =? k' then Some v else tget k' m.
Proof. unfold tset; simpl. rewrite tget_tdel_other. destruct (k =? k'); auto. Qed.

Lemma tget_in k v m : tget k m = Some v -> In (k, v) m.
Proof.
  induction m as [|[a b] r IH]; simpl; [discriminate|]. destruct (a =? k) eqn:E.
  - apply Nat.eqb_eq in E; subst. intros H; inversion H; auto.
  - auto.
Qed.

Lemma tracked_false_untracked e m : tracked e m = false -> untracked e m.
Proof.
  intros H k Hk. apply tget_in in Hk. unfold tracked in H.
  assert (existsb (fun kv => snd kv =? e) m = true); [|congruence].
  apply existsb_exists. exists (k, e). split; auto. simpl. apply Nat.eqb_refl.
Qed.

Lemma untracked_tdel e k m : untracked e m -> untracked e (tdel k m).
Proof. intros U k' H. rewrite tget_tdel_other in H. destruct (k =? k'); [discriminate|]. apply (U k'); auto. Qed.

(* multisets by counting *)
Lemma cnt_split_in (l l' lost : list elem) :
  (forall p, cnt p l = cnt p l' + cnt p lost) -> forall x, In x l -> In x l' \/ In x lost.
Proof.
  intros H x Hx. specialize (H (fun y => elem_eqb y x)).
  assert (0 < cnt (fun y => elem_eqb y x) l) by (eapply in_cnt_pos; eauto; apply elem_eqb_eq; auto).
  destruct (Nat.eq_dec (cnt (fun y => elem_eqb y x) l') 0) as [Z|Z].
  - right. destruct (cnt_pos_in (fun y => elem_eqb y x) lost) as (y & Hy & E); [lia|]. apply elem_eqb_eq in E; subst; auto.
  - left. destruct (cnt_pos_in (fun y => elem_eqb y x) l') as (y & Hy & E); [lia|]. apply elem_eqb_eq in E; subst; auto.
Qed.

Lemma cnt_split_sub (l l' lost : list elem) :
  (forall p, cnt p l = cnt p l' + cnt p lost) -> incl l' l.
Proof. intros H. apply in_of_cnt. intros p. rewrite H. lia. Qed.

Lemma cnt_ideq_zero i l : (forall x, In x l -> eid x <> i) -> cnt (ideq i) l = 0.
Proof.
  induction l; intros H; [reflexivity|]. rewrite cnt_cons. unfold ideq at 1.
  destruct (eid a =? i) eqn:E; [apply Nat.eqb_eq in E; exfalso; apply (H a); simpl; auto|].
  simpl. apply IHl. intros x Hx. apply H; simpl; auto.
Qed.

Lemma cnt_ideq_in i l x : In x l -> eid x = i -> 0 < cnt (ideq i) l.
Proof. intros H E. eapply in_cnt_pos; eauto. unfold ideq. apply Nat.eqb_eq; auto. Qed.

(* the worker w goes from [old] to [new] *)
Lemma wqs_wupd p : forall ws w old new, nth_error ws w = Some old ->
  cnt p (wqs (wupd ws w new)) + cnt p (wq old) = cnt p (wqs ws) + cnt p (wq new).
Proof.
  induction ws; intros [|w] old new H; simpl in *; try discriminate.
  - inversion H; subst. unfold wqs; simpl. rewrite !cnt_app. fold (wqs ws). lia.
  - unfold wqs in *; simpl. rewrite !cnt_app. specialize (IHws w old new H). lia.
Qed.

Lemma waiting_update p s s' w old new :
  nth_error (workers s) w = Some old -> workers s' = wupd (workers s) w new ->
  cnt p (waiting s') + cnt p (wq old) + cnt p (heap s) = cnt p (waiting s) + cnt p (wq new) + cnt p (heap s').
Proof.
  intros H W. unfold waiting. rewrite !cnt_app, W. pose proof (wqs_wupd p _ _ _ new H). lia.
Qed.

(* ---------- the invariant ---------- *)

Record TInv (g : bool) (s : st) : Prop := {
  t_mode : mode s = IfOwn;
  t_add : forall e, kof e (log s) <> None -> e < nxt s;
  t_wait : forall x, In x (waiting s) -> kof (eid x) (log s) = Some (ekey x);
  t_nodup : forall i, cnt (ideq i) (waiting s) <= 1;
  t_trk : forall k e, tget k (tmap s) = Some e -> kof e (log s) = Some (Some k);
  t_dead : forall e, In e (dead s) -> (exists k, kof e (log s) = Some (Some k)) /\ untracked e (tmap s);
  t_start : forall e, In e (started (log s)) -> kof e (log s) <> None /\ untracked e (tmap s);
  t_ds : forall e, In e (dead s) -> ~ In e (started (log s));
  t_cl : forall e, memb e (closed s) = true -> e < nxt s;
  (* guarded part *)
  t_fc : g = true -> fcancel s = false;
  t_closed : g = true -> forall e, memb e (closed s) = true -> untracked e (tmap s);
  t_pend : g = true -> forall k e, tget k (tmap s) = Some e -> exists x, In x (waiting s) /\ eid x = e;
  t_gwait : g = true -> forall x k, In x (waiting s) -> ekey x = Some k ->
            tget k (tmap s) = Some (eid x) \/ In (eid x) (dead s)
}.

(* an identifier maps to at most one element id and vice versa *)
Lemma trk_key_unique g s k k' e : TInv g s -> tget k (tmap s) = Some e -> tget k' (tmap s) = Some e -> k = k'.
Proof.
  intros I H H'. pose proof (t_trk g s I k e H) as A. pose proof (t_trk g s I k' e H') as B. congruence.
Qed.

(* ---------- transfer lemmas ---------- *)

(* elements only leave the queue (lost); the map and the dead set are untouched *)
Lemma tinv_lose g s s' lost :
  TInv g s ->
  mode s' = mode s -> nxt s' = nxt s -> tmap s' = tmap s -> dead s' = dead s ->
  (forall x, memb x (closed s') = true ->
     memb x (closed s) = true \/ (x < nxt s /\ (g = true -> untracked x (tmap s)))) ->
  (g = true -> fcancel s' = false) ->
  next (log s) (log s') ->
  (forall p, cnt p (waiting s) = cnt p (waiting s') + cnt p lost) ->
  (g = true -> forall x, In x lost -> memb (eid x) (closed s) = true \/ untracked (eid x) (tmap s)) ->
  TInv g s'.
Proof.
  intros I Em En Et Ed Hc Hf Hl Hw Hlost.
  pose proof (cnt_split_sub _ _ _ Hw) as Sub.
  constructor; rewrite ?Em, ?En, ?Et, ?Ed.
  - apply I.
  - intros e. rewrite (next_kof _ _ e Hl). apply I.
  - intros x Hx. rewrite (next_kof _ _ _ Hl). apply I. apply Sub; auto.
  - intros i. pose proof (t_nodup g s I i) as H. rewrite Hw in H. lia.
  - intros k e. rewrite (next_kof _ _ _ Hl). apply I.
  - intros e. rewrite (next_kof _ _ _ Hl). apply I.
  - intros e. rewrite (next_kof _ _ _ Hl), (next_started _ _ Hl). apply I.
  - intros e. rewrite (next_started _ _ Hl). apply I.
  - intros e H. destruct (Hc e H) as [H'|[H' _]]; auto. apply (t_cl g s I); auto.
  - auto.
  - intros G e0 H. destruct (Hc e0 H) as [H'|[_ H']]; auto. apply (t_closed g s I); auto.
  - intros G k e0 H. destruct (t_pend g s I G k e0 H) as (x & Hx & Ex).
    destruct (cnt_split_in _ _ _ Hw x Hx) as [Hx'|Hx']; [exists x; auto|].
    exfalso. destruct (Hlost G x Hx') as [C|U].
    + apply (t_closed g s I G (eid x) C k). rewrite Ex; auto.
    + apply (U k). rewrite Ex; auto.
  - intros G x k Hx Hk. apply (t_gwait g s I G); auto.
Qed.

(* the wrapper starts the callback of x (and untracks it when it is keyed) *)
Lemma tinv_start g s s' x :
  TInv g s ->
  mode s' = mode s -> nxt s' = nxt s -> dead s' = dead s -> closed s' = closed s -> fcancel s' = fcancel s ->
  log s' = EStart (eid x) :: log s ->
  (forall p, cnt p (waiting s) = cnt p (waiting s') + b2n (p x)) ->
  match ekey x with
  | Some k => tget k (tmap s) = Some (eid x) /\ tmap s' = tdel k (tmap s)
  | None => tmap s' = tmap s
  end ->
  TInv g s'.
Proof.
  intros I Em En Ed Ec Ef El Hw Hm.
  assert (Hw' : forall p, cnt p (waiting s) = cnt p (waiting s') + cnt p [x]).
  { intros p. rewrite Hw, cnt_cons, cnt_nil. lia. }
  pose proof (cnt_split_sub _ _ _ Hw') as Sub.
  assert (Hx : In x (waiting s)).
  { destruct (cnt_pos_in (fun y => elem_eqb y x) (waiting s)) as (y & Hy & E).
    - rewrite Hw. assert (elem_eqb x x = true) by (apply elem_eqb_eq; auto). rewrite H. simpl. lia.
    - apply elem_eqb_eq in E; subst; auto. }
  pose proof (t_wait g s I x Hx) as Kx.
  assert (Ko : forall e, kof e (log s') = kof e (log s)) by (intros e; rewrite El; reflexivity).
  assert (Ux : untracked (eid x) (tmap s')).
  { intros k' H. destruct (ekey x) as [k|] eqn:K.
    - destruct Hm as [T Hm]. rewrite Hm, tget_tdel_other in H. destruct (k =? k') eqn:E; [discriminate|].
      apply Nat.eqb_neq in E. apply E. eapply trk_key_unique; eauto.
    - rewrite Hm in H. pose proof (t_trk g s I k' _ H). congruence. }
  assert (Um : forall e, untracked e (tmap s) -> untracked e (tmap s')).
  { intros e U. destruct (ekey x); [destruct Hm as [_ ->]; apply untracked_tdel; auto | rewrite Hm; auto]. }
  assert (Tm : forall k e, tget k (tmap s') = Some e -> tget k (tmap s) = Some e /\ e <> eid x).
  { intros k e H. split; [|intros ->; apply (Ux k); auto].
    destruct (ekey x); [destruct Hm as [_ Hm]; rewrite Hm, tget_tdel_other in H; destruct (_ =? k); [discriminate|auto]
                       | rewrite Hm in H; auto]. }
  constructor; rewrite ?Em, ?En, ?Ed, ?Ec, ?Ef.
  - apply I.
  - intros e. rewrite Ko. apply I.
  - intros y Hy. rewrite Ko. apply I. apply Sub; auto.
  - intros i. pose proof (t_nodup g s I i) as H. rewrite Hw in H. lia.
  - intros k e H. rewrite Ko. apply I. apply Tm; auto.
  - intros e H. rewrite Ko. destruct (t_dead g s I e H). split; auto.
  - intros e. rewrite Ko, El. simpl. intros [<-|H].
    + split; auto. congruence.
    + destruct (t_start g s I e H). split; auto.
  - intros e H. rewrite El. simpl. intros [<-|H'].
    + destruct (t_dead g s I _ H) as [[k Kd] U]. destruct (ekey x) as [k'|] eqn:K.
      * destruct Hm as [T _]. apply (U k'); auto.
      * congruence.
    + apply (t_ds g s I e H H').
  - apply I.
  - apply I.
  - intros G e H. apply Um. apply (t_closed g s I G); auto.
  - intros G k e H. destruct (Tm k e H) as [H1 H2]. destruct (t_pend g s I G k e H1) as (y & Hy & Ey).
    destruct (cnt_split_in _ _ _ Hw' y Hy) as [Hy'|[<-|[]]]; [exists y; auto | congruence].
  - intros G y k Hy Hk. destruct (t_gwait g s I G y k (Sub y Hy) Hk) as [T|D]; auto.
    left. destruct (ekey x) as [k0|] eqn:K.
    + destruct Hm as [T0 Hm]. rewrite Hm, tget_tdel_other. destruct (k0 =? k) eqn:E; auto.
      apply Nat.eqb_eq in E; subst k0. exfalso. assert (eid y = eid x) by congruence.
      pose proof (t_nodup g s I (eid x)) as N. rewrite Hw in N. unfold ideq at 2 in N. rewrite Nat.eqb_refl in N. simpl in N.
      pose proof (cnt_ideq_in (eid x) _ y Hy H). lia.
    + rewrite Hm; auto.
Qed.

(* Cancel(k) = true / replacement: the tracked task e of identifier k is cancelled, untracked and marked dead *)
Lemma tinv_kill g s s' k e lost :
  TInv g s -> tget k (tmap s) = Some e ->
  mode s' = mode s -> nxt s' = nxt s -> tmap s' = tdel k (tmap s) -> dead s' = e :: dead s ->
  (forall x, memb x (closed s') = true -> memb x (closed s) = true \/ x = e) ->
  (g = true -> fcancel s' = false) ->
  next (log s) (log s') ->
  (forall p, cnt p (waiting s) = cnt p (waiting s') + cnt p lost) ->
  (forall x, In x lost -> eid x = e) ->
  TInv g s'.
Proof.
  intros I T Em En Et Ed Hc Hf Hl Hw Hlost.
  pose proof (cnt_split_sub _ _ _ Hw) as Sub.
  assert (Ue : untracked e (tdel k (tmap s))).
  { intros k' H. rewrite tget_tdel_other in H. destruct (k =? k') eqn:E; [discriminate|].
    apply Nat.eqb_neq in E. apply E. eapply trk_key_unique; eauto. }
  assert (Le : e < nxt s).
  { apply (t_add g s I). rewrite (t_trk g s I k e T). discriminate. }
  constructor; rewrite ?Em, ?En, ?Et, ?Ed.
  - apply I.
  - intros x. rewrite (next_kof _ _ x Hl). apply I.
  - intros x Hx. rewrite (next_kof _ _ _ Hl). apply I. apply Sub; auto.
  - intros i. pose proof (t_nodup g s I i) as H. rewrite Hw in H. lia.
  - intros k' e' H. rewrite (next_kof _ _ _ Hl). apply I.
    rewrite tget_tdel_other in H. destruct (k =? k'); [discriminate|auto].
  - intros e' [<-|H]; rewrite (next_kof _ _ _ Hl).
    + split; auto. exists k. apply (t_trk g s I); auto.
    + destruct (t_dead g s I e' H). split; auto. apply untracked_tdel; auto.
  - intros e'. rewrite (next_kof _ _ _ Hl), (next_started _ _ Hl). intros H.
    destruct (t_start g s I e' H). split; auto. apply untracked_tdel; auto.
  - intros e'. rewrite (next_started _ _ Hl). intros [<-|H] H'.
    + destruct (t_start g s I e H') as [_ U]. apply (U k); auto.
    + apply (t_ds g s I e' H H').
  - intros x H. destruct (Hc x H) as [H'| ->]; auto. apply (t_cl g s I); auto.
  - auto.
  - intros G x H. destruct (Hc x H) as [H'| ->]; auto. apply untracked_tdel. apply (t_closed g s I G); auto.
  - intros G k' e' H. rewrite tget_tdel_other in H. destruct (k =? k') eqn:E; [discriminate|]. apply Nat.eqb_neq in E.
    destruct (t_pend g s I G k' e' H) as (y & Hy & Ey).
    destruct (cnt_split_in _ _ _ Hw y Hy) as [Hy'|Hy']; [exists y; auto|].
    exfalso. apply E. apply Hlost in Hy'. eapply trk_key_unique; eauto. congruence.
  - intros G y k' Hy Hk. destruct (t_gwait g s I G y k' (Sub y Hy) Hk) as [T'|D].
    + rewrite tget_tdel_other. destruct (k =? k') eqn:E; [|auto].
      apply Nat.eqb_eq in E; subst k'. right. left. congruence.
    + right. right. auto.
Qed.

(* an accepted Add / ExecuteAt of the new element x *)
Lemma tinv_add g s s' x a lost :
  TInv g s -> eid x = nxt s ->
  mode s' = mode s -> nxt s' = S (nxt s) -> dead s' = dead s -> closed s' = closed s -> fcancel s' = fcancel s ->
  next (EAdd (eid x) (etime x) (ekey x) a :: log s) (log s') ->
  (forall p, cnt p (waiting s) + b2n (p x) = cnt p (waiting s') + cnt p lost) ->
  (g = true -> lost = []) ->
  match ekey x with
  | Some k => tget k (tmap s) = None /\ tmap s' = tset k (eid x) (tmap s)
  | None => tmap s' = tmap s
  end ->
  TInv g s'.
Proof.
  intros I Ex Em En Ed Ec Ef Hl Hw Hlost Hm.
  assert (Hw' : forall p, cnt p (x :: waiting s) = cnt p (waiting s') + cnt p lost).
  { intros p. rewrite cnt_cons, <- Hw. lia. }
  pose proof (cnt_split_sub _ _ _ Hw') as Sub.
  assert (Ko : forall e, kof e (log s') = if eid x =? e then Some (ekey x) else kof e (log s)).
  { intros e. rewrite (next_kof _ _ e Hl). reflexivity. }
  assert (Kold : forall e, e < nxt s -> kof e (log s') = kof e (log s)).
  { intros e L. rewrite Ko. destruct (eid x =? e) eqn:E; auto. apply Nat.eqb_eq in E. lia. }
  assert (Wlt : forall y, In y (waiting s) -> eid y < nxt s).
  { intros y Hy. apply (t_add g s I). rewrite (t_wait g s I y Hy). discriminate. }
  assert (Told : forall k e, tget k (tmap s) = Some e -> e < nxt s).
  { intros k e H. apply (t_add g s I). rewrite (t_trk g s I k e H). discriminate. }
  assert (Tm : forall k e, tget k (tmap s') = Some e ->
               (ekey x = Some k /\ e = eid x) \/ (tget k (tmap s) = Some e)).
  { intros k e H. destruct (ekey x) as [k0|]; [|rewrite Hm in H; auto].
    destruct Hm as [_ Hm]. rewrite Hm, tget_tset_other in H. destruct (k0 =? k) eqn:E; auto.
    apply Nat.eqb_eq in E; subst. inversion H; auto. }
  assert (Um : forall e, e < nxt s -> untracked e (tmap s) -> untracked e (tmap s')).
  { intros e L U k H. destruct (Tm k e H) as [[_ ->]|H']; [lia | apply (U k); auto]. }
  constructor; rewrite ?Em, ?En, ?Ed, ?Ec, ?Ef.
  - apply I.
  - intros e. rewrite Ko. destruct (eid x =? e) eqn:E.
    + apply Nat.eqb_eq in E. lia.
    + intros H. pose proof (t_add g s I e H). lia.
  - intros y Hy. destruct (Sub y Hy) as [<-|Hy'].
    + rewrite Ko, Nat.eqb_refl. auto.
    + rewrite Kold by auto. apply I; auto.
  - intros i. pose proof (t_nodup g s I i) as H. specialize (Hw (ideq i)).
    unfold ideq at 2 in Hw. destruct (eid x =? i) eqn:E; simpl in Hw; [|lia].
    apply Nat.eqb_eq in E. rewrite (cnt_ideq_zero i (waiting s)) in Hw; [lia|].
    intros y Hy. specialize (Wlt y Hy). lia.
  - intros k e H. destruct (Tm k e H) as [[K ->]|H'].
    + rewrite Ko, Nat.eqb_refl. congruence.
    + rewrite Kold by eauto. apply I; auto.
  - intros e H. destruct (t_dead g s I e H) as [[k K] U].
    assert (e < nxt s) by (apply (t_add g s I); congruence).
    rewrite Kold by auto. split; eauto.
  - intros e. rewrite (next_started _ _ Hl). simpl. intros H. destruct (t_start g s I e H) as [K U].
    assert (e < nxt s) by (apply (t_add g s I); auto). rewrite Kold by auto. split; auto.
  - intros e. rewrite (next_started _ _ Hl). simpl. apply I.
  - intros e H. pose proof (t_cl g s I e H). lia.
  - apply I.
  - intros G e H. apply Um; [apply (t_cl g s I); auto | apply (t_closed g s I G); auto].
  - intros G k e H. rewrite (Hlost G) in Hw'. destruct (Tm k e H) as [[K ->]|H'].
    + exists x. split; auto. destruct (cnt_split_in _ _ _ Hw' x (or_introl eq_refl)) as [?|[]]; auto.
    + destruct (t_pend g s I G k e H') as (y & Hy & Ey). exists y. split; auto.
      destruct (cnt_split_in _ _ _ Hw' y (or_intror Hy)) as [?|[]]; auto.
  - intros G y k Hy Hk. destruct (Sub y Hy) as [<-|Hy'].
    + left. rewrite Hk in Hm. destruct Hm as [_ ->]. rewrite tget_tset_other, Nat.eqb_refl. auto.
    + destruct (t_gwait g s I G y k Hy' Hk) as [T|D]; auto. left.
      destruct (ekey x) as [k0|]; [|rewrite Hm; auto]. destruct Hm as [N ->]. rewrite tget_tset_other.
      destruct (k0 =? k) eqn:E; auto. apply Nat.eqb_eq in E; subst. congruence.
Qed.

(* ---------- worker steps ---------- *)

Lemma held_waiting s w old x : nth_error (workers s) w = Some old -> In x (wq old) -> In x (waiting s).
Proof.
  intros H Hx. unfold waiting. apply in_or_app; right. unfold wqs. apply in_flat_map. exists old. split; auto.
  eapply nth_error_In; eauto.
Qed.

Lemma tinv_worker g s s' w old new lost :
  TInv g s -> nth_error (workers s) w = Some old -> workers s' = wupd (workers s) w new ->
  mode s' = mode s -> nxt s' = nxt s -> tmap s' = tmap s -> dead s' = dead s -> closed s' = closed s ->
  (g = true -> fcancel s' = false) -> next (log s) (log s') ->
  (forall p, cnt p (heap s) + cnt p (wq old) = cnt p (heap s') + cnt p (wq new) + cnt p lost) ->
  (g = true -> forall x, In x lost -> memb (eid x) (closed s) = true \/ untracked (eid x) (tmap s)) ->
  TInv g s'.
Proof.
  intros I H W Em En Et Ed Ec Hf Hl Hw Hlost. eapply tinv_lose with (lost := lost); eauto.
  - intros x Hx. left. congruence.
  - intros p. pose proof (waiting_update p s s' w old new H W). specialize (Hw p). lia.
Qed.

Ltac wside0 I :=
  eauto; simpl; auto;
  try (apply (t_fc _ _ I)); try apply next_refl; try (apply next_one; reflexivity);
  try (intros p; simpl; rewrite ?cnt_cons, ?cnt_nil; lia).
Ltac wside I Ho :=
  eauto; simpl; auto;
  try (apply (t_fc _ _ I)); try apply next_refl; try (apply next_one; reflexivity);
  try (intros p; rewrite ?Ho; simpl; rewrite ?cnt_cons, ?cnt_nil; lia).

Lemma deliver_t g s w e old :
  TInv g s -> nth_error (workers s) w = Some old -> wq old = [e] ->
  TInv g (upd_w (fst (deliver s e)) w (snd (deliver s e))).
Proof.
  intros I H Ho. unfold deliver. destruct (recheck s && memb (eid e) (closed s)) eqn:E; simpl.
  - eapply tinv_worker with (old := old) (new := WIdle) (lost := [e]); wside I Ho.
    intros G x [<-|[]]. left. apply andb_true_iff in E. tauto.
  - eapply tinv_worker with (old := old) (new := WDeliv e) (lost := []); wside I Ho.
Qed.

Lemma chosen_t g s w e old :
  TInv g s -> nth_error (workers s) w = Some old -> wq old = [e] -> TInv g (upd_w s w (WChosen e)).
Proof.
  intros I H Ho. eapply tinv_worker with (old := old) (new := WChosen e) (lost := []); wside I Ho.
Qed.

Lemma ctx_t g s w e old :
  TInv g s -> nth_error (workers s) w = Some old -> wq old = [e] ->
  TInv g (upd_w (fst (ctx_branch s e)) w (snd (ctx_branch s e))).
Proof.
  intros I H Ho. unfold ctx_branch. destruct (fcancel s) eqn:Fc; simpl.
  - eapply tinv_worker with (old := old) (new := WExit) (lost := [e]); wside I Ho.
    intros G. rewrite (t_fc g s I G) in Fc. discriminate.
  - destruct (fignore s).
    + simpl. apply chosen_t with (old := old); auto.
    + simpl. eapply tinv_worker with (old := old) (new := WPopped2 e) (lost := []); wside I Ho.
Qed.

Lemma take_t g s w e old b :
  TInv g s -> nth_error (workers s) w = Some old -> wq old = [e] ->
  (b = BCan -> memb (eid e) (closed s) = true) ->
  TInv g (upd_w (fst (take_branch s e b)) w (snd (take_branch s e b))).
Proof.
  intros I H Ho Hb. destruct b; simpl.
  - apply ctx_t with (old := old); auto.
  - eapply tinv_worker with (old := old) (new := WIdle) (lost := [e]); wside I Ho.
    intros G x [<-|[]]. left. auto.
  - apply chosen_t with (old := old); auto.
Qed.

Lemma ready_outer_can s e : In BCan (ready_outer s e) -> memb (eid e) (closed s) = true.
Proof.
  unfold ready_outer. intros H. apply in_app_or in H as [H|H]; [|apply in_app_or in H as [H|H]].
  - destruct (shut s); simpl in H; [destruct H as [H|[]]; discriminate | tauto].
  - destruct (memb _ _); auto; simpl in H; tauto.
  - destruct (is_due s e); simpl in H; [destruct H as [H|[]]; discriminate | tauto].
Qed.

Lemma ready_inner_can s e : In BCan (ready_inner s e) -> memb (eid e) (closed s) = true.
Proof.
  unfold ready_inner. intros H. apply in_app_or in H as [H|H].
  - destruct (memb _ _); auto; simpl in H; tauto.
  - destruct (is_due s e); simpl in H; [destruct H as [H|[]]; discriminate | tauto].
Qed.

Lemma worker_t g s w c : TInv g s -> TInv g (worker_step s w c).
Proof.
  intros I. unfold worker_step. destruct (nth_error (workers s) w) as [ws|] eqn:H; auto.
  destruct ws; auto.
  - (* WIdle *)
    destruct (hpop (heap s)) as [[e h']|] eqn:Hp; simpl.
    + eapply tinv_worker with (old := WIdle) (new := WPopped e) (lost := []); wside0 I.
      intros p. rewrite (hpop_cnt p _ _ _ Hp), ?cnt_cons, ?cnt_nil. lia.
    + eapply tinv_worker with (old := WIdle) (new := if shut s then WExit else WWait) (lost := []); wside0 I.
      intros p. destruct (shut s); simpl; rewrite ?cnt_cons, ?cnt_nil; lia.
  - (* WPopped *)
    destruct (ready_outer s e) as [|b r] eqn:R.
    + simpl. eapply tinv_worker with (old := WPopped e) (new := WParked e) (lost := []); wside0 I.
    + rewrite <- R. pose proof (nth_mod_in (ready_outer s e) c) as Hin.
      apply take_t with (old := WPopped e); auto.
      intros Eb. apply ready_outer_can. rewrite <- Eb. apply Hin. rewrite R; discriminate.
  - (* WParked *)
    destruct (is_due s e); auto. apply chosen_t with (old := WParked e); auto.
  - (* WPopped2 *)
    destruct (ready_inner s e) as [|b r] eqn:R.
    + simpl. eapply tinv_worker with (old := WPopped2 e) (new := WParked2 e) (lost := []); wside0 I.
    + rewrite <- R. pose proof (nth_mod_in (ready_inner s e) c) as Hin.
      apply take_t with (old := WPopped2 e); auto.
      intros Eb. apply ready_inner_can. rewrite <- Eb. apply Hin. rewrite R; discriminate.
  - (* WParked2 *)
    destruct (is_due s e); auto. apply chosen_t with (old := WParked2 e); auto.
  - (* WChosen *)
    destruct (is_due s e || (shut s && fignore s)); auto. apply deliver_t with (old := WChosen e); auto.
  - (* WDeliv *)
    assert (He : In e (waiting s)) by (eapply held_waiting; eauto; simpl; auto).
    pose proof (t_wait g s I e He) as Ke.
    rewrite (t_mode g s I). destruct (ekey e) as [k|] eqn:K.
    + destruct (tget k (tmap s)) as [v|] eqn:T; [destruct (v =? eid e) eqn:E|].
      * apply Nat.eqb_eq in E; subst v.
        apply tinv_start with (s := s) (x := e); auto.
        -- intros p. simpl.
           pose proof (waiting_update p s (set_workers (emit (set_tmap s (tdel k (tmap s))) (EStart (eid e)))
                         (wupd (workers s) w (WRun e))) w (WDeliv e) (WRun e) H eq_refl) as P.
           simpl in P. rewrite cnt_cons, cnt_nil in P. simpl. lia.
        -- rewrite K. split; auto.
      * simpl. eapply tinv_worker with (old := WDeliv e) (new := WIdle) (lost := [e]); wside0 I.
        intros G x [<-|[]]. right. intros k' H'. pose proof (t_trk g s I k' _ H') as Q.
        assert (k' = k) by congruence. subst k'. rewrite T in H'. inversion H'; subst. rewrite Nat.eqb_refl in E. discriminate.
      * simpl. eapply tinv_worker with (old := WDeliv e) (new := WIdle) (lost := [e]); wside0 I.
        intros G x [<-|[]]. right. intros k' H'. pose proof (t_trk g s I k' _ H') as Q.
        assert (k' = k) by congruence. subst k'. congruence.
    + apply tinv_start with (s := s) (x := e); auto.
      * intros p. simpl.
        pose proof (waiting_update p s (set_workers (emit s (EStart (eid e))) (wupd (workers s) w (WRun e)))
                      w (WDeliv e) (WRun e) H eq_refl) as P.
        simpl in P. rewrite cnt_cons, cnt_nil in P. simpl. lia.
      * rewrite K. reflexivity.
  - (* WRun *)
    rewrite (t_mode g s I).
    assert (Q : TInv g (set_workers (emit s (EFinish (eid e))) (wupd (workers (emit s (EFinish (eid e)))) w WIdle))).
    { eapply tinv_worker with (old := WRun e) (new := WIdle) (lost := []); wside0 I. }
    destruct (ekey e); exact Q.
Qed.

(* ---------- QueueElement.Cancel ---------- *)

Lemma wake_cancel_split e : forall ws, exists lost,
  (forall p, cnt p (wqs ws) = cnt p (wqs (fst (wake_cancel e ws))) + cnt p lost) /\ (forall x, In x lost -> eid x = e).
Proof.
  induction ws as [|w r IH]; simpl.
  - exists []. split; [intros p; rewrite cnt_nil; lia | intros x []].
  - destruct IH as (lost & Hc & Hl). destruct (wake_cancel e r) as [r' b] eqn:E. simpl in Hc.
    assert (Keep : exists lost0, (forall p, cnt p (wqs (w :: r)) = cnt p (wqs (w :: r')) + cnt p lost0) /\
                                 (forall x, In x lost0 -> eid x = e)).
    { exists lost. split; auto. intros p. unfold wqs in *. simpl. rewrite !cnt_app. rewrite Hc. lia. }
    assert (Wake : forall x, wq w = [x] -> eid x = e ->
                   exists lost0, (forall p, cnt p (wqs (w :: r)) = cnt p (wqs (WIdle :: r')) + cnt p lost0) /\
                                 (forall y, In y lost0 -> eid y = e)).
    { intros x Hx Ex. exists (x :: lost). split.
      - intros p. unfold wqs in *. simpl. rewrite Hx. simpl. rewrite !cnt_cons, Hc. lia.
      - intros y [<-|Hy]; auto. }
    destruct w; simpl; auto.
    + destruct (eid e0 =? e) eqn:Q; simpl; auto. apply Nat.eqb_eq in Q. apply (Wake e0); auto.
    + destruct (eid e0 =? e) eqn:Q; simpl; auto. apply Nat.eqb_eq in Q. apply (Wake e0); auto.
Qed.

Lemma memb_cons x e l : memb x (e :: l) = (x =? e) || memb x l.
Proof. reflexivity. Qed.

Lemma cancel_spec s e : e < nxt s ->
  let s' := cancel_elem s e in
  mode s' = mode s /\ nxt s' = nxt s /\ tmap s' = tmap s /\ dead s' = dead s /\ fcancel s' = fcancel s /\
  shut s' = shut s /\ maxsz s' = maxsz s /\
  (forall x, memb x (closed s') = true -> memb x (closed s) = true \/ x = e) /\
  next (log s) (log s') /\
  exists lost, (forall p, cnt p (waiting s) = cnt p (waiting s') + cnt p lost) /\ (forall x, In x lost -> eid x = e).
Proof.
  intros Lt. unfold cancel_elem. destruct (nxt s <=? e) eqn:Hn; [apply Nat.leb_le in Hn; lia|].
  set (p1 := match index_of e (heap s) with
             | Some i => match hremove (heap s) i with Some (_, h') => (set_heap s h', true) | None => (s, false) end
             | None => (s, false) end).
  assert (S1 : mode (fst p1) = mode s /\ nxt (fst p1) = nxt s /\ tmap (fst p1) = tmap s /\ dead (fst p1) = dead s /\
               fcancel (fst p1) = fcancel s /\ shut (fst p1) = shut s /\ maxsz (fst p1) = maxsz s /\
               closed (fst p1) = closed s /\ log (fst p1) = log s /\ workers (fst p1) = workers s /\
               exists lost1, (forall p, cnt p (heap s) = cnt p (heap (fst p1)) + cnt p lost1) /\
                             (forall x, In x lost1 -> eid x = e)).
  { unfold p1. destruct (index_of e (heap s)) as [i|] eqn:Ix; [destruct (hremove (heap s) i) as [[x h']|] eqn:R|];
      simpl; repeat split; auto; try (exists []; split; [intros p; rewrite cnt_nil; lia | intros y []]).
    exists [x]. destruct (index_of_spec e _ _ Ix) as [_ Ex]. split.
    - intros p. destruct (hremove_spec p _ _ _ _ R) as [C _]. rewrite cnt_cons, cnt_nil. lia.
    - intros y [<-|[]]. destruct (hremove_spec (fun _ => true) _ _ _ _ R) as (_ & -> & _). auto. }
  destruct p1 as [s1 removed]. simpl in S1.
  destruct S1 as (Em & En & Et & Ed & Ef & Es & Ex & Ec & El & Ew & lost1 & Hc1 & Hl1).
  simpl. destruct (memb e (closed s1)) eqn:M.
  - simpl. repeat split; auto.
    + intros x Hx. left. congruence.
    + rewrite El. apply next_one; auto.
    + exists lost1. split; auto. intros p. unfold waiting. simpl. rewrite !cnt_app, Ew, Hc1. lia.
  - destruct (wake_cancel e (workers s1)) as [ws woke] eqn:W.
    destruct (wake_cancel_split e (workers s1)) as (lost2 & Hc2 & Hl2). rewrite W in Hc2. simpl in Hc2.
    assert (Q : forall x, memb x (e :: closed s1) = true -> memb x (closed s) = true \/ x = e).
    { intros x. rewrite memb_cons, Ec. intros H. apply orb_true_iff in H as [H|H]; auto. apply Nat.eqb_eq in H; auto. }
    assert (L : exists lost, (forall p, cnt p (waiting s) = cnt p (heap s1 ++ wqs ws) + cnt p lost) /\
                             (forall x, In x lost -> eid x = e)).
    { exists (lost1 ++ lost2). split.
      - intros p. unfold waiting. rewrite !cnt_app, <- Ew, Hc1, Hc2. lia.
      - intros x Hx. apply in_app_or in Hx as [Hx|Hx]; auto. }
    destruct woke; simpl; repeat split; auto; rewrite El.
    + apply (next_trans _ (ECancel e removed (now s1) :: log s)); apply next_one; auto.
    + apply next_one; auto.
Qed.

(* Cancel() through the returned handle of an element that the map does not track (or any element, without the guard) *)
Lemma cancel_t g s e : TInv g s -> (g = true -> untracked e (tmap s)) -> TInv g (cancel_elem s e).
Proof.
  intros I U. destruct (Nat.lt_ge_cases e (nxt s)) as [Lt|Ge].
  - destruct (cancel_spec s e Lt) as (Em & En & Et & Ed & Ef & Es & Ex & Ec & El & lost & Hc & Hl).
    eapply tinv_lose with (lost := lost); eauto.
    + intros x Hx. destruct (Ec x Hx) as [H| ->]; auto.
    + intros G. rewrite Ef. apply (t_fc g s I G).
    + intros G x Hx. right. rewrite (Hl x Hx). auto.
  - unfold cancel_elem. apply Nat.leb_le in Ge. rewrite Ge. auto.
Qed.

(* the tracked task e of identifier k is cancelled, untracked and marked dead (Cancel(k) = true, replacement) *)
Lemma kill_t g s k e s' :
  TInv g s -> tget k (tmap s) = Some e ->
  mode s' = mode (cancel_elem s e) -> nxt s' = nxt (cancel_elem s e) -> closed s' = closed (cancel_elem s e) ->
  fcancel s' = fcancel (cancel_elem s e) -> next (log (cancel_elem s e)) (log s') ->
  waiting s' = waiting (cancel_elem s e) ->
  tmap s' = tdel k (tmap s) -> dead s' = e :: dead s ->
  TInv g s'.
Proof.
  intros I T Em' En' Ec' Ef' El' Ew' Et' Ed'.
  assert (Lt : e < nxt s). { apply (t_add g s I). rewrite (t_trk g s I k e T). discriminate. }
  destruct (cancel_spec s e Lt) as (Em & En & Et & Ed & Ef & Es & Ex & Ec & El & lost & Hc & Hl).
  eapply tinv_kill with (k := k) (e := e) (lost := lost); eauto; try congruence;
    try (intros x; rewrite Ec'; apply Ec);
    try (intros G; rewrite Ef', Ef; apply (t_fc g s I G));
    try (eapply next_trans; eauto; fail);
    try (intros p; rewrite Ew'; apply Hc).
Qed.

(* ---------- TaskExecutor.Cancel ---------- *)

Lemma tcancel_t g s k : TInv g s -> TInv g (tcancel_step s k).
Proof.
  intros I. unfold tcancel_step. destruct (tget k (tmap s)) as [e|] eqn:T.
  - assert (Lt : e < nxt s). { apply (t_add g s I). rewrite (t_trk g s I k e T). discriminate. }
    destruct (cancel_spec s e Lt) as (Em & En & Et & Ed & _).
    eapply kill_t with (k := k) (e := e); eauto; simpl; auto;
      try (apply next_one; reflexivity); try (rewrite Et; reflexivity); try (rewrite Ed; reflexivity).
  - eapply tinv_lose with (lost := []); wside0 I.
Qed.

(* ---------- Add / ExecuteAt ---------- *)

Lemma signal_wqs : forall ws, wqs (signal ws) = wqs ws.
Proof.
  induction ws as [|w r]; simpl; auto. unfold wqs in *.
  destruct w; simpl; try rewrite IHr; auto.
Qed.

Lemma queue_add_spec s t k : shut s = false ->
  let s' := fst (queue_add s t k) in let x := mkE (nxt s) t k in
  snd (queue_add s t k) = Some (nxt s) /\
  mode s' = mode s /\ nxt s' = S (nxt s) /\ tmap s' = tmap s /\ dead s' = dead s /\ closed s' = closed s /\
  fcancel s' = fcancel s /\
  ((log s' = EAdd (nxt s) t k (now s) :: log s /\ forall p, cnt p (waiting s) + b2n (p x) = cnt p (waiting s')) \/
   (exists d, log s' = EDrop d :: EAdd (nxt s) t k (now s) :: log s /\
              exists lost, forall p, cnt p (waiting s) + b2n (p x) = cnt p (waiting s') + cnt p lost)).
Proof.
  intros Sh. unfold queue_add. rewrite Sh. simpl.
  set (x := mkE (nxt s) t k).
  destruct ((0 <? maxsz s) && (maxsz s <? length (hpush (heap s) x))).
  - destruct (hremove (hpush (heap s) x) (length (hpush (heap s) x) - 1)) as [[d h']|] eqn:R; simpl.
    + repeat split; auto. right. exists (eid d). split; auto. exists [d]. intros p.
      unfold waiting; simpl. rewrite signal_wqs, !cnt_app, cnt_cons, cnt_nil.
      destruct (hremove_spec p _ _ _ _ R) as [C _]. rewrite hpush_cnt in C. lia.
    + repeat split; auto. left. split; auto. intros p.
      unfold waiting; simpl. rewrite signal_wqs, !cnt_app, hpush_cnt. lia.
  - simpl. repeat split; auto. left. split; auto. intros p.
    unfold waiting; simpl. rewrite signal_wqs, !cnt_app, hpush_cnt. lia.
Qed.

Lemma queue_add_shut s t k : shut s = true -> queue_add s t k = (emit s EReject, None).
Proof. intros Sh. unfold queue_add. rewrite Sh. reflexivity. Qed.

Lemma reject_t g s : TInv g s -> TInv g (emit s EReject).
Proof.
  intros I. eapply tinv_lose with (lost := []); wside0 I.
Qed.

(* the state in which ExecuteAt(key, ..) calls Queue.Add: a tracked task of the identifier has been cancelled *)
Definition pre_add (s : st) (key : nat) : st :=
  match tget key (tmap s) with
  | Some old => set_dead (set_tmap (cancel_elem s old) (tdel key (tmap s))) (old :: dead s)
  | None => s
  end.

Lemma pre_add_t g s key : TInv g s -> TInv g (pre_add s key) /\ tget key (tmap (pre_add s key)) = None.
Proof.
  intros I. unfold pre_add. destruct (tget key (tmap s)) as [old|] eqn:T; [|auto].
  split; [|simpl; apply tget_tdel_same].
  eapply kill_t with (k := key) (e := old); eauto; simpl; auto. apply next_refl.
Qed.

Lemma add_t g s t k : TInv g s -> (g = true -> te_ok s (LAdd t k) = true) -> TInv g (add_step s t k).
Proof.
  intros I Hg. unfold te_ok in Hg. cbn [step] in Hg. unfold add_step in *. destruct k as [key|].
  - fold (pre_add s key) in *. destruct (pre_add_t g s key I) as [I1 N1]. set (s1 := pre_add s key) in *. clearbody s1.
    destruct (shut s1) eqn:Sh.
    + rewrite (queue_add_shut _ _ _ Sh) in *. apply reject_t; auto.
    + destruct (queue_add_spec s1 t (Some key) Sh) as (Eo & Em & En & Et & Ed & Ec & Ef & Hcase).
      destruct (queue_add s1 t (Some key)) as [s2 o]. simpl in *. subst o.
      destruct Hcase as [[El Hc]|(d & El & lost & Hc)].
      * eapply tinv_add with (x := mkE (nxt s1) t (Some key)) (a := now s1) (lost := []); eauto; simpl; auto.
        -- rewrite El. apply next_refl.
        -- intros p. rewrite cnt_nil. rewrite Hc. unfold waiting; simpl. lia.
        -- rewrite Et. auto.
      * eapply tinv_add with (x := mkE (nxt s1) t (Some key)) (a := now s1) (lost := lost); eauto; simpl; auto.
        -- rewrite El. apply next_one; auto.
        -- intros G. specialize (Hg G). simpl in Hg. rewrite El in Hg. discriminate.
        -- rewrite Et. auto.
  - destruct (shut s) eqn:Sh.
    + rewrite (queue_add_shut _ _ _ Sh) in *. apply reject_t; auto.
    + destruct (queue_add_spec s t None Sh) as (Eo & Em & En & Et & Ed & Ec & Ef & Hcase).
      destruct (queue_add s t None) as [s2 o]. simpl in *. subst o.
      destruct Hcase as [[El Hc]|(d & El & lost & Hc)].
      * eapply tinv_add with (x := mkE (nxt s) t None) (a := now s) (lost := []); eauto; simpl; auto.
        -- rewrite El. apply next_refl.
        -- intros p. rewrite cnt_nil. rewrite Hc. lia.
      * eapply tinv_add with (x := mkE (nxt s) t None) (a := now s) (lost := lost); eauto; simpl; auto.
        -- rewrite El. apply next_one; auto.
        -- intros G. specialize (Hg G). simpl in Hg. rewrite El in Hg. discriminate.
Qed.

(* ---------- Shutdown ---------- *)

Lemma wake_ctx_at_t g s w : TInv g s -> TInv g (wake_ctx_at s w).
Proof.
  intros I. unfold wake_ctx_at. destruct (nth_error (workers s) w) as [ws|] eqn:H; auto.
  destruct ws; auto. apply (ctx_t g s w e (WParked e)); auto.
Qed.

Lemma wake_ctx_fold_t g l : forall s, TInv g s -> TInv g (fold_left wake_ctx_at l s).
Proof. induction l; intros s I; simpl; auto. apply IHl. apply wake_ctx_at_t; auto. Qed.

Lemma discard_all_spec h : forall s,
  mode (discard_all s h) = mode s /\ nxt (discard_all s h) = nxt s /\ tmap (discard_all s h) = tmap s /\
  dead (discard_all s h) = dead s /\ closed (discard_all s h) = closed s /\ fcancel (discard_all s h) = fcancel s /\
  heap (discard_all s h) = heap s /\ workers (discard_all s h) = workers s /\ next (log s) (log (discard_all s h)).
Proof.
  induction h; intros s; simpl.
  - repeat split; auto. apply next_refl.
  - destruct (IHh (emit s (EDiscard (eid a)))) as (A & B & C & D & E & F & G & H & N). simpl in *.
    repeat split; auto. eapply next_trans; [|exact N]. apply next_one; auto.
Qed.

Lemma broadcast_wqs : forall ws, wqs (broadcast ws) = wqs ws.
Proof.
  induction ws as [|w r]; simpl; auto. unfold wqs in *; simpl. rewrite IHr. destruct w; reflexivity.
Qed.

Lemma broadcast_t g s : TInv g s -> TInv g (set_workers s (broadcast (workers s))).
Proof.
  intros I. eapply tinv_lose with (lost := []); wside0 I.
  intros p. unfold waiting; simpl. rewrite broadcast_wqs, cnt_nil. lia.
Qed.

Lemma shutdown_t g s fc fi : TInv g s -> (g = true -> te_ok s (LShutdown fc fi) = true) -> TInv g (shutdown_step s fc fi).
Proof.
  intros I Hg. unfold shutdown_step. destruct (shut s) eqn:Sh; auto.
  assert (Fc : g = true -> fc = false).
  { intros G. specialize (Hg G). simpl in Hg. rewrite Sh in Hg. destruct fc; auto. }
  set (s1 := emit (set_shut s fc fi) (EShutdown fc fi (now s))).
  assert (I1 : TInv g s1).
  { eapply tinv_lose with (lost := []); wside0 I. }
  assert (I3 : TInv g (wake_ctx s1)) by (apply wake_ctx_fold_t; auto).
  assert (F3 : fcancel (wake_ctx s1) = fc \/ g = false).
  { destruct g; auto. left. rewrite (t_fc _ _ I3 eq_refl). symmetry; auto. }
  set (s3 := wake_ctx s1) in *. clearbody s3.
  set (s4 := match heap s3 with [] => s3 | h => if fc then set_heap (discard_all s3 h) [] else s3 end).
  assert (I4 : TInv g s4).
  { unfold s4. destruct (heap s3) as [|a r] eqn:Hh; auto. destruct fc; auto.
    destruct (discard_all_spec (a :: r) s3) as (A & B & C & D & E & F & G & H & N).
    assert (G0 : g = true -> False) by (intros G0; specialize (Fc G0); discriminate).
    eapply tinv_lose with (lost := heap s3); eauto; try (intros G0'; exfalso; auto; fail).
    - intros x Hx. left. change (closed (set_heap (discard_all s3 (a :: r)) [])) with (closed (discard_all s3 (a :: r))) in Hx.
      rewrite E in Hx. auto.
    - intros p. unfold waiting, set_heap. cbn [heap workers app]. rewrite H, !cnt_app. lia. }
  clearbody s4.
  destruct (heap s3); [|destruct (bcast s4)]; auto; apply broadcast_t; auto.
Qed.

(* ---------- every step, every run ---------- *)

Lemma tick_t g s d : TInv g s -> TInv g (set_now s (now s + d)%N).
Proof. intros I. eapply tinv_lose with (lost := []); wside0 I. Qed.

Lemma step_t g s l : TInv g s -> (g = true -> te_ok s l = true) -> TInv g (step s l).
Proof.
  intros I Hg. destruct l; simpl.
  - apply tick_t; auto.
  - apply add_t; auto.
  - apply cancel_t; auto. intros G. apply tracked_false_untracked. specialize (Hg G). simpl in Hg.
    destruct (tracked e (tmap s)); auto; discriminate.
  - apply tcancel_t; auto.
  - apply shutdown_t; auto.
  - apply worker_t; auto.
Qed.

Lemma wqs_repeat_idle n : wqs (repeat WIdle n) = [].
Proof. induction n; simpl; auto. Qed.

Lemma init_t g n m rc bc : TInv g (init n m IfOwn rc bc).
Proof.
  constructor; unfold init, waiting; simpl; rewrite ?wqs_repeat_idle; simpl; try tauto; try discriminate; auto.
Qed.

Lemma run_t_guarded ls : forall s, TInv true s -> te_guard s ls = true -> TInv true (run s ls).
Proof.
  induction ls as [|l r IH]; intros s I G; simpl in *; auto.
  apply andb_true_iff in G as [G1 G2]. apply IH; auto. apply step_t; auto.
Qed.

Lemma run_t_any ls : forall s, TInv false s -> TInv false (run s ls).
Proof.
  induction ls as [|l r IH]; intros s I; simpl; auto. apply IH. apply step_t; auto. discriminate.
Qed.

(* ---------- the dead set only grows ---------- *)

Lemma worker_dead s w c : dead (worker_step s w c) = dead s.
Proof.
  unfold worker_step, take_branch, ctx_branch, deliver. destruct (nth_error (workers s) w) as [ws|]; auto.
  destruct ws; auto;
    repeat match goal with |- context [match ?x with _ => _ end] => destruct x end; simpl; auto.
Qed.

Lemma cancel_proj s e : tmap (cancel_elem s e) = tmap s /\ dead (cancel_elem s e) = dead s /\
  shut (cancel_elem s e) = shut s /\ nxt (cancel_elem s e) = nxt s.
Proof.
  destruct (Nat.lt_ge_cases e (nxt s)) as [Lt|Ge].
  - destruct (cancel_spec s e Lt) as (Em & En & Et & Ed & Ef & Es & _). auto.
  - unfold cancel_elem. apply Nat.leb_le in Ge. rewrite Ge. auto.
Qed.

Lemma wake_ctx_at_dead s w : dead (wake_ctx_at s w) = dead s.
Proof.
  unfold wake_ctx_at, ctx_branch, deliver. destruct (nth_error (workers s) w) as [ws|]; auto.
  destruct ws; auto;
    repeat match goal with |- context [match ?x with _ => _ end] => destruct x end; simpl; auto.
Qed.

Lemma wake_ctx_fold_dead l : forall s, dead (fold_left wake_ctx_at l s) = dead s.
Proof. induction l; intros s; simpl; auto. rewrite IHl. apply wake_ctx_at_dead. Qed.

Lemma shutdown_dead s fc fi : dead (shutdown_step s fc fi) = dead s.
Proof.
  unfold shutdown_step. destruct (shut s); auto.
  set (s1 := emit (set_shut s fc fi) (EShutdown fc fi (now s))).
  assert (E3 : dead (wake_ctx s1) = dead s) by (unfold wake_ctx; rewrite wake_ctx_fold_dead; reflexivity).
  set (s3 := wake_ctx s1) in *. clearbody s3.
  set (s4 := match heap s3 with [] => s3 | h => if fc then set_heap (discard_all s3 h) [] else s3 end).
  assert (E4 : dead s4 = dead s).
  { unfold s4. destruct (heap s3) as [|a r]; auto. destruct fc; auto.
    destruct (discard_all_spec (a :: r) s3) as (_ & _ & _ & D & _). unfold set_heap; cbn [dead]. congruence. }
  clearbody s4. destruct (heap s3); [|destruct (bcast s4)]; simpl; auto.
Qed.

Lemma queue_add_proj s t k : tmap (fst (queue_add s t k)) = tmap s /\ dead (fst (queue_add s t k)) = dead s.
Proof.
  unfold queue_add. destruct (shut s); simpl; auto.
  destruct ((0 <? maxsz s) && (maxsz s <? length (hpush (heap s) (mkE (nxt s) t k)))); simpl; auto.
  destruct (hremove _ _) as [[d h']|]; simpl; auto.
Qed.

Lemma pre_add_dead s key e : In e (dead s) -> In e (dead (pre_add s key)).
Proof. unfold pre_add. destruct (tget key (tmap s)); simpl; auto. Qed.

Lemma add_step_pre s t key :
  add_step s t (Some key) =
  match queue_add (pre_add s key) t (Some key) with
  | (s2, Some id) => set_tmap s2 (tset key id (tmap s2))
  | (s2, None) => s2
  end.
Proof. reflexivity. Qed.

Lemma add_dead s t k e : In e (dead s) -> In e (dead (add_step s t k)).
Proof.
  intros H. destruct k as [key|].
  - rewrite add_step_pre. pose proof (queue_add_proj (pre_add s key) t (Some key)) as [_ D].
    destruct (queue_add (pre_add s key) t (Some key)) as [s2 [id|]]; simpl in *; rewrite D; apply pre_add_dead; auto.
  - simpl. destruct (queue_add_proj s t None) as [_ D]. rewrite D; auto.
Qed.

Lemma tcancel_dead s k e : In e (dead s) -> In e (dead (tcancel_step s k)).
Proof.
  intros H. unfold tcancel_step. destruct (tget k (tmap s)) as [e0|]; simpl; auto.
  right. destruct (cancel_proj s e0) as (_ & D & _). rewrite D; auto.
Qed.

Lemma step_dead s l e : In e (dead s) -> In e (dead (step s l)).
Proof.
  intros H. destruct l; simpl; auto.
  - apply add_dead; auto.
  - destruct (cancel_proj s e0) as (_ & D & _). rewrite D; auto.
  - apply tcancel_dead; auto.
  - rewrite shutdown_dead; auto.
  - rewrite worker_dead; auto.
Qed.

Lemma run_dead ls : forall s e, In e (dead s) -> In e (dead (run s ls)).
Proof. induction ls; intros s e H; simpl; auto. apply IHls. apply step_dead; auto. Qed.

(* ---------- the theorems ---------- *)

(* ALL schedules, no guard (also with the size bound, CancelPendingElements, direct Cancel()): a task that was
   replaced or removed by Cancel(id) = true never starts, neither before nor after *)
Theorem dead_never_starts w m rc bc ls ls2 e :
  let s := run (init w m IfOwn rc bc) ls in
  In e (dead s) -> ~ In e (started (log (run s ls2))).
Proof.
  intros s H. pose proof (run_t_any ls2 s (run_t_any ls _ (init_t false w m rc bc))) as I.
  apply (t_ds _ _ I). apply run_dead; auto.
Qed.

Theorem guarded_inv w m rc bc ls :
  te_guard (init w m IfOwn rc bc) ls = true -> TInv true (run (init w m IfOwn rc bc) ls).
Proof. intros G. apply run_t_guarded; auto. apply init_t. Qed.

Lemma tracked_iff_pending s k e : TInv true s -> (tget k (tmap s) = Some e <-> pending_task s k e).
Proof.
  intros I. split.
  - intros T. destruct (t_pend _ _ I eq_refl k e T) as (x & Hx & Ex). exists x. repeat split; auto.
    + pose proof (t_wait _ _ I x Hx) as A. pose proof (t_trk _ _ I k e T) as B. rewrite Ex in A. congruence.
    + intros D. destruct (t_dead _ _ I e D) as [_ U]. apply (U k); auto.
  - intros (x & Hx & Ex & Kx & Nd). destruct (t_gwait _ _ I eq_refl x k Hx Kx) as [T|D]; subst; tauto.
Qed.

Lemma pending_unique s k e1 e2 : TInv true s -> pending_task s k e1 -> pending_task s k e2 -> e1 = e2.
Proof.
  intros I H1 H2. apply (tracked_iff_pending s k e1 I) in H1. apply (tracked_iff_pending s k e2 I) in H2. congruence.
Qed.

Lemma tcancel_tmap s k k' : tget k' (tmap (tcancel_step s k)) = if k =? k' then None else tget k' (tmap s).
Proof.
  unfold tcancel_step. destruct (tget k (tmap s)) as [e|] eqn:T; simpl.
  - destruct (cancel_proj s e) as (Et & _). rewrite Et. apply tget_tdel_other.
  - destruct (k =? k') eqn:E; auto. apply Nat.eqb_eq in E; subst; auto.
Qed.

(* Cancel(k) from a reachable guarded state *)
Theorem te_cancel s k : TInv true s ->
  let s' := tcancel_step s k in
  exists r, hd EReject (log s') = ETCancel k r /\
    (r = true <-> exists e, pending_task s k e) /\
    (forall e, pending_task s k e -> In e (dead s')) /\
    (forall e, ~ pending_task s' k e) /\
    (forall k' e, k' <> k -> (pending_task s' k' e <-> pending_task s k' e)).
Proof.
  intros I s'. assert (I' : TInv true s') by (apply tcancel_t; auto).
  exists (match tget k (tmap s) with Some _ => true | None => false end).
  split; [|split; [|split; [|split]]].
  - unfold s', tcancel_step. destruct (tget k (tmap s)); reflexivity.
  - destruct (tget k (tmap s)) as [e|] eqn:T.
    + split; auto. intros _. exists e. apply tracked_iff_pending; auto.
    + split; [discriminate|]. intros [e P]. apply (tracked_iff_pending s k e I) in P. congruence.
  - intros e P. apply (tracked_iff_pending s k e I) in P. unfold s', tcancel_step. rewrite P. simpl. auto.
  - intros e P. apply (tracked_iff_pending s' k e I') in P. unfold s' in P. rewrite tcancel_tmap, Nat.eqb_refl in P. discriminate.
  - intros k' e Hk. rewrite <- (tracked_iff_pending s' k' e I'), <- (tracked_iff_pending s k' e I).
    unfold s'. rewrite tcancel_tmap. apply Nat.eqb_neq in Hk. rewrite Nat.eqb_sym, Hk. tauto.
Qed.

Lemma pre_add_proj s key :
  shut (pre_add s key) = shut s /\ nxt (pre_add s key) = nxt s /\
  (forall k', tget k' (tmap (pre_add s key)) = if key =? k' then None else tget k' (tmap s)) /\
  (forall e, tget key (tmap s) = Some e -> In e (dead (pre_add s key))).
Proof.
  unfold pre_add. destruct (tget key (tmap s)) as [old|] eqn:T; simpl.
  - destruct (cancel_proj s old) as (_ & _ & Es & En). repeat split; auto.
    + intros k'. apply tget_tdel_other.
    + intros e H. inversion H; auto.
  - repeat split; auto.
    + intros k'. destruct (key =? k') eqn:E; auto. apply Nat.eqb_eq in E; subst; auto.
    + discriminate.
Qed.

(* ExecuteAt(k, ..) on a queue that is not shut down, from a reachable guarded state: the new task is the pending
   task of k, the previously pending one is dead, other identifiers are untouched *)
Theorem te_replace s t k : TInv true s -> shut s = false -> te_ok s (LAdd t (Some k)) = true ->
  let s' := add_step s t (Some k) in
  pending_task s' k (nxt s) /\
  (forall e, pending_task s k e -> e < nxt s /\ In e (dead s')) /\
  (forall k' e, k' <> k -> (pending_task s' k' e <-> pending_task s k' e)).
Proof.
  intros I Sh G s'. assert (I' : TInv true s') by (apply add_t; auto).
  destruct (pre_add_proj s k) as (Es & En & Et & Ed).
  assert (Q : (forall k', tget k' (tmap s') = if k =? k' then Some (nxt s) else tget k' (tmap s)) /\
              (forall e, tget k (tmap s) = Some e -> In e (dead s'))).
  { unfold s'. rewrite add_step_pre.
    assert (Sh1 : shut (pre_add s k) = false) by congruence.
    destruct (queue_add_spec (pre_add s k) t (Some k) Sh1) as (Eo & _ & _ & Et2 & Ed2 & _).
    destruct (queue_add (pre_add s k) t (Some k)) as [s2 o]. simpl in *. subst o. simpl. split.
    - intros k'. rewrite Et2, En, tget_tdel_other, Et. destruct (k =? k'); auto.
    - intros e H. rewrite Ed2. auto. }
  destruct Q as [Q1 Q2]. split; [|split].
  - apply tracked_iff_pending; auto. rewrite Q1, Nat.eqb_refl. auto.
  - intros e P. apply (tracked_iff_pending s k e I) in P. split; auto.
    apply (t_add _ _ I). rewrite (t_trk _ _ I k e P). discriminate.
  - intros k' e Hk. rewrite <- (tracked_iff_pending s' k' e I'), <- (tracked_iff_pending s k' e I).
    rewrite Q1. apply Nat.eqb_neq in Hk. rewrite Nat.eqb_sym, Hk. tauto.
Qed.

(* everything together, in the form quoted by Properties/C18.v *)
Theorem task_executor_all : forall w m rc bc ls,
  let s0 := init w m IfOwn rc bc in let s := run s0 ls in
  (forall e ls2, In e (dead s) -> ~ In e (started (log (run s ls2)))) /\
  (te_guard s0 ls = true ->
    (forall k e, tget k (tmap s) = Some e <-> pending_task s k e) /\
    (forall k e1 e2, pending_task s k e1 -> pending_task s k e2 -> e1 = e2) /\
    (forall k, let s' := step s (LTCancel k) in
       exists r, hd EReject (log s') = ETCancel k r /\
         (r = true <-> exists e, pending_task s k e) /\
         (forall e, pending_task s k e -> In e (dead s')) /\
         (forall e, ~ pending_task s' k e) /\
         (forall k' e, k' <> k -> (pending_task s' k' e <-> pending_task s k' e))) /\
    (forall t k, shut s = false -> te_ok s (LAdd t (Some k)) = true ->
       let s' := step s (LAdd t (Some k)) in
       pending_task s' k (nxt s) /\
       (forall e, pending_task s k e -> e < nxt s /\ In e (dead s')) /\
       (forall k' e, k' <> k -> (pending_task s' k' e <-> pending_task s k' e)))).
Proof.
  intros w m rc bc ls s0 s. split.
  - intros e ls2. apply dead_never_starts.
  - intros G. pose proof (guarded_inv w m rc bc ls G) as I. fold s0 in I. fold s in I.
    split; [|split; [|split]].
    + intros k e. apply tracked_iff_pending; auto.
    + intros k e1 e2. apply pending_unique; auto.
    + intros k. apply te_cancel; auto.
    + intros t k. apply te_replace; auto.
Qed.


(* ---------- the guard is exact: each excluded pattern alone breaks "Cancel(id) = true iff a pending task was removed" ---------- *)

Open Scope N_scope.
Definition stale_bound : list label := [LAdd 10 (Some 0%nat); LAdd 20 (Some 1%nat)].        (* size bound 1 drops task 1 *)
Definition stale_direct : list label := [LAdd 10 (Some 1%nat); LCancel 0].                 (* Cancel() via the handle *)
Definition stale_discard : list label := [LAdd 10 (Some 1%nat); LShutdown true false].     (* CancelPendingElements *)
Close Scope N_scope.

Definition stale_case (m : nat) (ls : list label) : Prop :=
  let s0 := init 0 m IfOwn true true in let s := run s0 ls in
  te_guard s0 ls = false /\ te_guard s0 (removelast ls) = true /\
  (forall e, ~ pending_task s 1 e) /\ hd EReject (log (step s (LTCancel 1))) = ETCancel 1 true.

Lemma no_pending_of_waiting s k l : waiting s = l -> forallb (fun x => negb (optn_eqb (ekey x) (Some k))) l = true ->
  forall e, ~ pending_task s k e.
Proof.
  intros W F e (x & Hx & _ & K & _). rewrite W in Hx. rewrite forallb_forall in F. specialize (F x Hx).
  rewrite K in F. simpl in F. rewrite Nat.eqb_refl in F. discriminate.
Qed.

Lemma refuted_stale_identifier : stale_case 1 stale_bound /\ stale_case 0 stale_direct /\ stale_case 0 stale_discard.
Proof.
  split; [|split]; (split; [vm_compute; reflexivity|]); (split; [vm_compute; reflexivity|]);
    (split; [|vm_compute; reflexivity]).
  - apply no_pending_of_waiting with (l := [mkE 0 10%N (Some 0)]); vm_compute; reflexivity.
  - apply no_pending_of_waiting with (l := []); vm_compute; reflexivity.
  - apply no_pending_of_waiting with (l := []); vm_compute; reflexivity.
Qed.

(* non-vacuity: a guarded schedule with a size bound that is never exceeded, a replacement while the old task is
   held by a worker, Cancel(id) = true, Cancel(id) = false, a skipped dead task and a started task *)
Open Scope N_scope.
Definition te_demo : list label :=
  [LAdd 5 (Some 1%nat); LAdd 7 (Some 2%nat); LWorker 0 0; LAdd 9 (Some 1%nat); LTCancel 2; LTCancel 2;
   LTick 10; LWorker 0 0; LWorker 0 0; LWorker 0 0; LWorker 0 0; LWorker 0 0].
Definition te_demo_log : list ev :=
  [EStart 2; EDeliver 2 10; ESkip 0; ETCancel 2 false; ETCancel 2 true; ECancel 1 true 0;
   EAdd 2 9 (Some 1%nat) 0; ECancel 0 false 0; EAdd 1 7 (Some 2%nat) 0; EAdd 0 5 (Some 1%nat) 0].
Close Scope N_scope.

Lemma pending_of_waiting s k x : In x (waiting s) -> ekey x = Some k -> memb (eid x) (dead s) = false ->
  pending_task s k (eid x).
Proof.
  intros Hx K D. exists x. repeat split; auto. intros H. unfold memb in D.
  assert (existsb (Nat.eqb (eid x)) (dead s) = true); [|congruence].
  apply existsb_exists. exists (eid x). split; auto. apply Nat.eqb_refl.
Qed.

Lemma te_demo_guarded :
  let s0 := init 1 2 IfOwn true true in
  te_guard s0 te_demo = true /\
  (let s := run s0 (firstn 4 te_demo) in
     dead s = [0] /\ tmap s = [(1, 2); (2, 1)] /\ pending_task s 1 2 /\ pending_task s 2 1 /\ ~ pending_task s 1 0) /\
  (let s := run s0 te_demo in dead s = [1; 0] /\ started (log s) = [2] /\ log s = te_demo_log) /\
  te_guard s0 [LAdd 5%N (Some 1); LShutdown false true; LShutdown true true] = true.
Proof.
  split; [vm_compute; reflexivity|]. split; [|split; [vm_compute; auto|vm_compute; reflexivity]].
  split; [vm_compute; reflexivity|]. split; [vm_compute; reflexivity|]. split; [|split].
  - apply (pending_of_waiting _ 1 (mkE 2 9%N (Some 1))); vm_compute; auto.
  - apply (pending_of_waiting _ 2 (mkE 1 7%N (Some 2))); vm_compute; auto.
  - intros (x & _ & _ & _ & D). apply D. vm_compute. auto.
Qed.
