(* C18 - every step of the model is a finite sequence of "micro" steps, each of which appends at most one
   event to the log and is described only by its effect on the pending elements, the log, the closed
   cancel channels, the clock and the flags.  The invariants of Proofs.v are proved on micro steps. *)
From Coq Require Import NArith List Bool Arith Lia Relations.
From Verif.C18_Timed Require Import Model Heap.
Import ListNotations.

(* elements for which Poll has not yet decided *)
Definition wpre (w : wst) : list elem :=
  match w with WPopped e | WParked e | WPopped2 e | WParked2 e | WChosen e => [e] | _ => [] end.
Definition wpend (ws : list wst) : list elem := flat_map wpre ws.
Definition pend (s : st) : list elem := heap s ++ wpend (workers s).

Definition special (e : ev) : bool :=
  match e with EAdd _ _ _ _ | ECancel _ _ _ | EShutdown _ _ _ | EDeliver _ _ => true | _ => false end.

Definition shrink (s s' : st) : Prop := forall p, cnt p (pend s') <= cnt p (pend s).
Definition closed_mono (s s' : st) : Prop := forall e, memb e (closed s) = true -> memb e (closed s') = true.
Definition flags_eq (s s' : st) : Prop :=
  shut s' = shut s /\ fignore s' = fignore s /\ fcancel s' = fcancel s /\ recheck s' = recheck s.
Definition frame (s s' : st) : Prop :=
  now s' = now s /\ nxt s' = nxt s /\ flags_eq s s' /\ closed_mono s s'.
(* nxt is the one exception of [frame] for m_add *)
Definition frame_add (s s' : st) : Prop :=
  now s' = now s /\ nxt s' = S (nxt s) /\ flags_eq s s' /\ closed_mono s s'.

Inductive micro : st -> st -> Prop :=
| m_quiet s s' : (now s <= now s')%N -> nxt s' = nxt s -> flags_eq s s' -> closed_mono s s' ->
    shrink s s' -> log s' = log s -> micro s s'
| m_ev s s' e : special e = false -> frame s s' -> shrink s s' -> log s' = e :: log s -> micro s s'
| m_deliver s s' x : frame s s' -> In x (pend s) ->
    (forall p, cnt p (pend s') + b2n (p x) <= cnt p (pend s)) ->
    log s' = EDeliver (eid x) (now s) :: log s ->
    (is_due s x = true \/ (shut s = true /\ fignore s = true)) ->
    (recheck s = true -> memb (eid x) (closed s) = false) -> micro s s'
| m_cancel s s' e r : frame s s' -> shrink s s' -> e < nxt s ->
    log s' = ECancel e r (now s) :: log s -> memb e (closed s') = true -> micro s s'
| m_shutdown s s' fc fi : now s' = now s -> nxt s' = nxt s -> closed_mono s s' -> shrink s s' ->
    shut s = false -> shut s' = true -> fignore s' = fi -> recheck s' = recheck s ->
    log s' = EShutdown fc fi (now s) :: log s -> micro s s'
| m_add s s' x : frame_add s s' -> eid x = nxt s ->
    (forall p, cnt p (pend s') = cnt p (pend s) + b2n (p x)) ->
    log s' = EAdd (eid x) (etime x) (ekey x) (now s) :: log s -> micro s s'.

Definition mstar := clos_refl_trans st micro.

Lemma ms_refl s : mstar s s. Proof. apply rt_refl. Qed.
Lemma ms_trans s1 s2 s3 : mstar s1 s2 -> mstar s2 s3 -> mstar s1 s3. Proof. apply rt_trans. Qed.
Lemma ms_one s s' : micro s s' -> mstar s s'. Proof. intros; apply rt_step; auto. Qed.

Lemma frame_refl_like s s' :
  now s' = now s -> nxt s' = nxt s -> shut s' = shut s -> fignore s' = fignore s -> fcancel s' = fcancel s ->
  recheck s' = recheck s -> closed s' = closed s -> frame s s'.
Proof.
  intros. unfold frame, flags_eq, closed_mono. repeat split; auto. intros e. rewrite H5; auto.
Qed.

Ltac fr := apply frame_refl_like; reflexivity.

Lemma flags_refl_like s s' :
  shut s' = shut s -> fignore s' = fignore s -> fcancel s' = fcancel s -> recheck s' = recheck s -> flags_eq s s'.
Proof. unfold flags_eq; auto. Qed.

Lemma cm_refl_like s s' : closed s' = closed s -> closed_mono s s'.
Proof. unfold closed_mono; intros H e; rewrite H; auto. Qed.

(* a step that only rearranges / loses pending elements and does not touch the log *)
Lemma quiet_like s s' :
  now s' = now s -> nxt s' = nxt s -> shut s' = shut s -> fignore s' = fignore s -> fcancel s' = fcancel s ->
  recheck s' = recheck s -> closed s' = closed s -> log s' = log s -> shrink s s' -> mstar s s'.
Proof.
  intros. apply ms_one, m_quiet; auto.
  - rewrite H; apply N.le_refl.
  - apply flags_refl_like; auto.
  - apply cm_refl_like; auto.
Qed.

Lemma ev_like s s' e :
  special e = false ->
  now s' = now s -> nxt s' = nxt s -> shut s' = shut s -> fignore s' = fignore s -> fcancel s' = fcancel s ->
  recheck s' = recheck s -> closed s' = closed s -> log s' = e :: log s -> shrink s s' -> mstar s s'.
Proof.
  intros. apply ms_one, m_ev with (e := e); auto. apply frame_refl_like; auto.
Qed.

(* ---------- counting pending elements in the worker list ---------- *)

Lemma wpend_wupd p : forall ws w old new, nth_error ws w = Some old ->
  cnt p (wpend (wupd ws w new)) + cnt p (wpre old) = cnt p (wpend ws) + cnt p (wpre new).
Proof.
  induction ws; intros [|w] old new H; simpl in *; try discriminate.
  - inversion H; subst. unfold wpend; simpl. rewrite !cnt_app. fold (wpend ws). lia.
  - unfold wpend in *; simpl. rewrite !cnt_app. specialize (IHws w old new H). lia.
Qed.

Lemma wpend_in ws w old x : nth_error ws w = Some old -> In x (wpre old) -> In x (wpend ws).
Proof.
  intros H Hx. unfold wpend. apply in_flat_map. exists old. split; auto. eapply nth_error_In; eauto.
Qed.

Lemma cnt_single p x : cnt p [x] = b2n (p x).
Proof. rewrite cnt_cons, cnt_nil; lia. Qed.

(* generic: the worker w goes from [old] to [new]; the heap becomes h' *)
Lemma pend_update p s s' w old new :
  nth_error (workers s) w = Some old ->
  workers s' = wupd (workers s) w new ->
  cnt p (pend s') + cnt p (wpre old) + cnt p (heap s) = cnt p (pend s) + cnt p (wpre new) + cnt p (heap s').
Proof.
  intros H W. unfold pend. rewrite !cnt_app, W. pose proof (wpend_wupd p _ _ _ new H). lia.
Qed.

(* ---------- Poll's decision ---------- *)

Definition upd_w (s : st) (w : nat) (x : wst) : st := set_workers s (wupd (workers s) w x).

Lemma deliver_micro s w e old :
  nth_error (workers s) w = Some old -> wpre old = [e] ->
  (is_due s e = true \/ (shut s = true /\ fignore s = true)) ->
  mstar s (upd_w (fst (deliver s e)) w (snd (deliver s e))).
Proof.
  intros H Ho Hd. unfold deliver. destruct (recheck s && memb (eid e) (closed s)) eqn:E; simpl.
  - apply ev_like with (e := ESkip (eid e)); auto.
    intros p. pose proof (pend_update p s (upd_w (emit s (ESkip (eid e))) w WIdle) w old WIdle H eq_refl) as P; unfold upd_w in *.
    rewrite Ho in P. simpl in P |- *. rewrite cnt_nil in P. lia.
  - apply ms_one, m_deliver with (x := e); auto; [fr | | | ].
    + unfold pend. apply in_or_app; right. eapply wpend_in; eauto. rewrite Ho; simpl; auto.
    + intros p. pose proof (pend_update p s (upd_w (emit s (EDeliver (eid e) (now s))) w (WDeliv e)) w old (WDeliv e) H eq_refl) as P; unfold upd_w in *.
      rewrite Ho, cnt_single in P. simpl in P |- *. rewrite cnt_nil in P. lia.
    + intros R. rewrite R in E. simpl in E. exact E.
Qed.

Lemma chosen_micro s w e old :
  nth_error (workers s) w = Some old -> wpre old = [e] -> mstar s (upd_w s w (WChosen e)).
Proof.
  intros H Ho. apply quiet_like; auto. intros p.
  pose proof (pend_update p s (upd_w s w (WChosen e)) w old (WChosen e) H eq_refl) as P; unfold upd_w in *.
  rewrite Ho in P. simpl in P |- *. lia.
Qed.

Lemma ctx_micro s w e old :
  nth_error (workers s) w = Some old -> wpre old = [e] -> shut s = true ->
  mstar s (upd_w (fst (ctx_branch s e)) w (snd (ctx_branch s e))).
Proof.
  intros H Ho Hs. unfold ctx_branch. destruct (fcancel s) eqn:Fc; simpl.
  - apply ev_like with (e := EDiscard (eid e)); auto.
    intros p. pose proof (pend_update p s (upd_w (emit s (EDiscard (eid e))) w WExit) w old WExit H eq_refl) as P; unfold upd_w in *.
    rewrite Ho in P. simpl in P |- *. rewrite cnt_nil in P. lia.
  - destruct (fignore s) eqn:Fi.
    + simpl. apply chosen_micro with (old := old); auto.
    + simpl. apply quiet_like; auto. intros p.
      pose proof (pend_update p s (upd_w s w (WPopped2 e)) w old (WPopped2 e) H eq_refl) as P; unfold upd_w in *.
      rewrite Ho in P. simpl in P |- *. lia.
Qed.

Lemma take_micro s w e old b :
  nth_error (workers s) w = Some old -> wpre old = [e] ->
  (b = BCtx -> shut s = true) -> (b = BTim -> is_due s e = true) ->
  mstar s (upd_w (fst (take_branch s e b)) w (snd (take_branch s e b))).
Proof.
  intros H Ho Hc Ht. destruct b; simpl.
  - apply ctx_micro with (old := old); auto.
  - apply ev_like with (e := ESkip (eid e)); auto.
    intros p. pose proof (pend_update p s (upd_w (emit s (ESkip (eid e))) w WIdle) w old WIdle H eq_refl) as P; unfold upd_w in *.
    rewrite Ho in P. simpl in P |- *. rewrite cnt_nil in P. lia.
  - apply chosen_micro with (old := old); auto.
Qed.

Lemma nth_mod_in (r : list branch) c : r <> [] -> In (nth (c mod length r) r BTim) r.
Proof.
  intros H. apply nth_In. apply Nat.mod_upper_bound. destruct r; simpl; [congruence | lia].
Qed.

Lemma ready_outer_sound s e b : In b (ready_outer s e) ->
  (b = BCtx -> shut s = true) /\ (b = BTim -> is_due s e = true).
Proof.
  unfold ready_outer. intros H. apply in_app_or in H as [H|H]; [|apply in_app_or in H as [H|H]].
  - destruct (shut s); simpl in H; [|tauto]. destruct H as [<-|[]]. split; auto; discriminate.
  - destruct (memb _ _); simpl in H; [|tauto]. destruct H as [<-|[]]. split; discriminate.
  - destruct (is_due s e); simpl in H; [|tauto]. destruct H as [<-|[]]. split; auto; discriminate.
Qed.

Lemma ready_inner_sound s e b : In b (ready_inner s e) -> b <> BCtx /\ (b = BTim -> is_due s e = true).
Proof.
  unfold ready_inner. intros H. apply in_app_or in H as [H|H].
  - destruct (memb _ _); simpl in H; [|tauto]. destruct H as [<-|[]]. split; discriminate.
  - destruct (is_due s e); simpl in H; [|tauto]. destruct H as [<-|[]]. split; auto; discriminate.
Qed.

(* ---------- worker steps ---------- *)

Lemma worker_micro s w c : mstar s (worker_step s w c).
Proof.
  unfold worker_step. destruct (nth_error (workers s) w) as [ws|] eqn:H; [|apply ms_refl].
  destruct ws; try apply ms_refl.
  - (* WIdle *)
    destruct (hpop (heap s)) as [[e h']|] eqn:Hp; simpl.
    + apply quiet_like; auto. intros p.
      pose proof (pend_update p s (set_workers (set_heap s h') (wupd (workers s) w (WPopped e))) w WIdle (WPopped e) H eq_refl) as P; unfold upd_w in *.
      simpl in P |- *. rewrite cnt_single, cnt_nil in P. pose proof (hpop_cnt p _ _ _ Hp). lia.
    + apply quiet_like; auto. intros p.
      pose proof (pend_update p s (set_workers s (wupd (workers s) w (if shut s then WExit else WWait))) w WIdle _ H eq_refl) as P; unfold upd_w in *.
      simpl in P |- *. destruct (shut s); simpl in P; rewrite cnt_nil in P; lia.
  - (* WPopped *)
    destruct (ready_outer s e) as [|b r] eqn:R.
    + simpl. apply quiet_like; auto. intros p.
      pose proof (pend_update p s (upd_w s w (WParked e)) w (WPopped e) (WParked e) H eq_refl) as P; unfold upd_w in *. simpl in P |- *. lia.
    + rewrite <- R. pose proof (nth_mod_in (ready_outer s e) c) as I.
      destruct (ready_outer_sound s e _ (I ltac:(rewrite R; discriminate))).
      apply take_micro with (old := WPopped e); auto.
  - (* WParked *)
    destruct (is_due s e) eqn:D; [|apply ms_refl].
    apply chosen_micro with (old := WParked e); auto.
  - (* WPopped2 *)
    destruct (ready_inner s e) as [|b r] eqn:R.
    + simpl. apply quiet_like; auto. intros p.
      pose proof (pend_update p s (upd_w s w (WParked2 e)) w (WPopped2 e) (WParked2 e) H eq_refl) as P; unfold upd_w in *. simpl in P |- *. lia.
    + rewrite <- R. pose proof (nth_mod_in (ready_inner s e) c) as I.
      destruct (ready_inner_sound s e _ (I ltac:(rewrite R; discriminate))).
      apply take_micro with (old := WPopped2 e); auto; try (intros; congruence).
  - (* WParked2 *)
    destruct (is_due s e) eqn:D; [|apply ms_refl].
    apply chosen_micro with (old := WParked2 e); auto.
  - (* WChosen *)
    destruct (is_due s e || (shut s && fignore s)) eqn:D; [|apply ms_refl].
    apply deliver_micro with (old := WChosen e); auto.
    apply orb_true_iff in D as [D|D]; auto. apply andb_true_iff in D. auto.
  - (* WDeliv *)
    assert (G : forall s1 ev new, special ev = false -> wpre new = [] ->
              now s1 = now s -> nxt s1 = nxt s -> shut s1 = shut s -> fignore s1 = fignore s -> fcancel s1 = fcancel s ->
              recheck s1 = recheck s -> closed s1 = closed s -> log s1 = log s -> heap s1 = heap s -> workers s1 = workers s ->
              mstar s (set_workers (emit s1 ev) (wupd (workers (emit s1 ev)) w new))).
    { intros s1 ev new Sp Wn E1 E2 E3 E4 E5 E6 E7 E8 Eh Ew. apply ms_one, m_ev with (e := ev); auto.
      - apply frame_refl_like; simpl; auto.
      - intros p.
        assert (W : workers (set_workers (emit s1 ev) (wupd (workers (emit s1 ev)) w new)) = wupd (workers s) w new)
          by (simpl; rewrite Ew; auto).
        pose proof (pend_update p s _ w (WDeliv e) new H W) as P.
        cbn [heap set_workers emit wpre] in P. rewrite Eh, Wn in P. rewrite cnt_nil in P. lia.
      - simpl. congruence. }
    destruct (ekey e) as [k|]; [destruct (mode s)|]; simpl.
    + apply (G s); auto.
    + destruct (tget k (tmap s)) as [v|]; [destruct (v =? eid e)|]; simpl.
      * apply (G (set_tmap s (tdel k (tmap s)))); auto.
      * apply (G s); auto.
      * apply (G s); auto.
    + apply (G s); auto.
  - (* WRun *)
    assert (G : forall s1 ev new, special ev = false -> wpre new = [] ->
              now s1 = now s -> nxt s1 = nxt s -> shut s1 = shut s -> fignore s1 = fignore s -> fcancel s1 = fcancel s ->
              recheck s1 = recheck s -> closed s1 = closed s -> log s1 = log s -> heap s1 = heap s -> workers s1 = workers s ->
              mstar s (set_workers (emit s1 ev) (wupd (workers (emit s1 ev)) w new))).
    { intros s1 ev new Sp Wn E1 E2 E3 E4 E5 E6 E7 E8 Eh Ew. apply ms_one, m_ev with (e := ev); auto.
      - apply frame_refl_like; simpl; auto.
      - intros p.
        assert (W : workers (set_workers (emit s1 ev) (wupd (workers (emit s1 ev)) w new)) = wupd (workers s) w new)
          by (simpl; rewrite Ew; auto).
        pose proof (pend_update p s _ w (WRun e) new H W) as P.
        cbn [heap set_workers emit wpre] in P. rewrite Eh, Wn in P. rewrite cnt_nil in P. lia.
      - simpl. congruence. }
    destruct (ekey e) as [k|]; [destruct (mode s)|]; simpl.
    + apply (G (set_tmap s (tdel k (tmap s)))); auto.
    + apply (G s); auto.
    + apply (G s); auto.
Qed.

(* ---------- Cancel ---------- *)

Lemma wake_cancel_shrink p e : forall ws, cnt p (wpend (fst (wake_cancel e ws))) <= cnt p (wpend ws).
Proof.
  induction ws as [|w r]; simpl; auto.
  destruct (wake_cancel e r) as [r' b] eqn:E. simpl in IHr.
  unfold wpend in *.
  destruct w; simpl; rewrite ?cnt_cons; try lia; destruct (eid e0 =? e); simpl; rewrite ?cnt_cons; lia.
Qed.

Lemma cancel_micro s e : mstar s (cancel_elem s e).
Proof.
  unfold cancel_elem. destruct (nxt s <=? e) eqn:Hn; [apply ms_refl|]. apply Nat.leb_gt in Hn.
  set (p1 := match index_of e (heap s) with
             | Some i => match hremove (heap s) i with Some (_, h') => (set_heap s h', true) | None => (s, false) end
             | None => (s, false) end).
  assert (S1 : now (fst p1) = now s /\ nxt (fst p1) = nxt s /\ shut (fst p1) = shut s /\ fignore (fst p1) = fignore s /\
               fcancel (fst p1) = fcancel s /\ recheck (fst p1) = recheck s /\ closed (fst p1) = closed s /\
               log (fst p1) = log s /\ workers (fst p1) = workers s /\ (forall p, cnt p (heap (fst p1)) <= cnt p (heap s))).
  { unfold p1. destruct (index_of e (heap s)); [destruct (hremove (heap s) n) as [[x h']|] eqn:R|]; simpl; repeat split; auto.
    intros p. destruct (hremove_spec p _ _ _ _ R). lia. }
  destruct p1 as [s1 removed]. simpl in S1. destruct S1 as (E1 & E2 & E3 & E4 & E5 & E6 & E7 & E8 & E9 & E10).
  assert (Q : mstar s s1).
  { apply quiet_like; auto. intros p. unfold pend. rewrite !cnt_app, E9. specialize (E10 p). lia. }
  eapply ms_trans; [exact Q|].
  simpl. destruct (memb e (closed s1)) eqn:M.
  - apply ms_one, m_cancel with (e := e) (r := removed).
    + fr.
    + intros p; unfold pend; simpl; lia.
    + lia.
    + reflexivity.
    + simpl; auto.
  - destruct (wake_cancel e (workers s1)) as [ws woke] eqn:W.
    set (s4 := set_workers (set_closed (emit s1 (ECancel e removed (now s1))) (e :: closed s1)) ws).
    assert (C : mstar s1 s4).
    { apply ms_one, m_cancel with (e := e) (r := removed).
      - unfold frame, flags_eq, closed_mono, s4; simpl. repeat split; auto.
        intros x Hx. rewrite Hx. apply orb_true_r.
      - intros p. unfold s4, pend; simpl. rewrite !cnt_app.
        pose proof (wake_cancel_shrink p e (workers s1)) as S. rewrite W in S. simpl in S. lia.
      - lia.
      - reflexivity.
      - unfold s4; simpl. rewrite Nat.eqb_refl. reflexivity. }
    eapply ms_trans; [exact C|].
    destruct woke; [|apply ms_refl].
    apply ev_like with (e := ESkip e); auto; intros p; unfold pend; simpl; lia.
Qed.

(* ---------- Add ---------- *)

Lemma signal_wpend : forall ws, wpend (signal ws) = wpend ws.
Proof.
  induction ws as [|w r]; simpl; auto. unfold wpend in *.
  destruct w; simpl; try rewrite IHr; auto.
Qed.

Lemma queue_add_micro s t k : mstar s (fst (queue_add s t k)).
Proof.
  unfold queue_add. destruct (shut s) eqn:Sh; simpl.
  - apply ev_like with (e := EReject); auto; intros p; unfold pend; simpl; lia.
  - set (x := mkE (nxt s) t k).
    set (s1 := emit (set_nxt (set_heap s (hpush (heap s) x)) (S (nxt s))) (EAdd (nxt s) t k (now s))).
    assert (A : mstar s s1).
    { apply rt_step, m_add with (x := x); auto.
      - unfold frame_add, flags_eq, closed_mono; simpl; repeat split; auto.
      - intros p. unfold s1, pend; simpl. rewrite !cnt_app, hpush_cnt. lia. }
    eapply ms_trans; [exact A|].
    set (s2 := if (0 <? maxsz s1) && (maxsz s1 <? length (heap s1))
               then match hremove (heap s1) (length (heap s1) - 1) with
                    | Some (d, h') => emit (set_heap s1 h') (EDrop (eid d)) | None => s1 end
               else s1).
    assert (B : mstar s1 s2).
    { unfold s2. destruct ((0 <? maxsz s1) && (maxsz s1 <? length (heap s1))); [|apply ms_refl].
      destruct (hremove (heap s1) (length (heap s1) - 1)) as [[d h']|] eqn:R; [|apply ms_refl].
      apply ev_like with (e := EDrop (eid d)); auto.
      intros p. unfold pend; simpl. rewrite !cnt_app. destruct (hremove_spec p _ _ _ _ R) as [Hc _]. unfold s1 in Hc; simpl in Hc. lia. }
    eapply ms_trans; [exact B|].
    change (mstar s2 (set_workers s2 (signal (workers s2)))). clearbody s2. apply quiet_like; auto. intros p. unfold pend; simpl. rewrite signal_wpend. lia.
Qed.

Lemma quiet_tmap_dead s m d : mstar s (set_dead (set_tmap s m) d).
Proof. apply quiet_like; auto. intros p; unfold pend; simpl; lia. Qed.

Lemma add_micro s t k : mstar s (add_step s t k).
Proof.
  unfold add_step. destruct k as [key|]; [|apply queue_add_micro].
  set (s1 := match tget key (tmap s) with
             | Some old => set_dead (set_tmap (cancel_elem s old) (tdel key (tmap s))) (old :: dead s)
             | None => s end).
  assert (A : mstar s s1).
  { unfold s1. destruct (tget key (tmap s)); [|apply ms_refl].
    eapply ms_trans; [apply cancel_micro | apply quiet_tmap_dead]. }
  eapply ms_trans; [exact A|].
  pose proof (queue_add_micro s1 t (Some key)) as Q.
  destruct (queue_add s1 t (Some key)) as [s2 [id|]]; simpl in Q; auto.
  eapply ms_trans; [exact Q|]. apply quiet_like; auto. intros p; unfold pend; simpl; lia.
Qed.

Lemma tcancel_micro s k : mstar s (tcancel_step s k).
Proof.
  unfold tcancel_step. destruct (tget k (tmap s)) as [e|].
  - apply (ms_trans _ (cancel_elem s e)); [apply cancel_micro|].
    apply ev_like with (e := ETCancel k true); auto; intros p; unfold pend; simpl; lia.
  - apply ev_like with (e := ETCancel k false); auto; intros p; unfold pend; simpl; lia.
Qed.

(* ---------- Shutdown ---------- *)

Lemma wake_ctx_at_micro s w : shut s = true -> mstar s (wake_ctx_at s w) /\ shut (wake_ctx_at s w) = true.
Proof.
  intros Sh. unfold wake_ctx_at. destruct (nth_error (workers s) w) as [ws|] eqn:H; [|split; [apply ms_refl | auto]].
  destruct ws; try (split; [apply ms_refl | auto]).
  split.
  - apply (ctx_micro s w e (WParked e)); auto.
  - unfold ctx_branch. destruct (fcancel s), (fignore s); simpl; auto.
Qed.

Lemma wake_ctx_fold l : forall s, shut s = true -> mstar s (fold_left wake_ctx_at l s).
Proof.
  induction l; intros s Sh; simpl; [apply ms_refl|].
  destruct (wake_ctx_at_micro s a Sh) as [M S']. eapply ms_trans; [exact M | apply IHl; auto].
Qed.

Lemma discard_all_micro h : forall s, mstar s (discard_all s h) /\ heap (discard_all s h) = heap s /\ workers (discard_all s h) = workers s.
Proof.
  induction h; intros s; simpl; [repeat split; apply ms_refl|].
  destruct (IHh (emit s (EDiscard (eid a)))) as (M & H1 & H2). repeat split; auto.
  eapply ms_trans; [|exact M].
  apply ev_like with (e := EDiscard (eid a)); auto; intros p; unfold pend; simpl; lia.
Qed.

Lemma broadcast_wpend : forall ws, wpend (broadcast ws) = wpend ws.
Proof.
  induction ws as [|w r]; simpl; auto. unfold wpend in *; simpl. rewrite IHr. destruct w; reflexivity.
Qed.

Lemma shutdown_micro s fc fi : mstar s (shutdown_step s fc fi).
Proof.
  unfold shutdown_step. destruct (shut s) eqn:Sh; [apply ms_refl|].
  set (s1 := emit (set_shut s fc fi) (EShutdown fc fi (now s))).
  assert (A : mstar s s1).
  { apply ms_one, m_shutdown with (fc := fc) (fi := fi); auto.
    - apply cm_refl_like; auto.
    - intros p; unfold pend; simpl; lia. }
  eapply ms_trans; [exact A|].
  assert (B : mstar s1 (wake_ctx s1)) by (apply wake_ctx_fold; reflexivity).
  eapply ms_trans; [exact B|].
  set (s3 := wake_ctx s1).
  set (s4 := match heap s3 with [] => s3 | h => if fc then set_heap (discard_all s3 h) [] else s3 end).
  assert (C : mstar s3 s4).
  { unfold s4. destruct (heap s3) as [|a r] eqn:Hh; [apply ms_refl|]. destruct fc; [|apply ms_refl].
    destruct (discard_all_micro (a :: r) s3) as (M & H1 & H2).
    eapply ms_trans; [exact M|]. apply quiet_like; auto.
    intros p. unfold pend; simpl. rewrite !cnt_app. lia. }
  assert (D : forall s5, mstar s5 (set_workers s5 (broadcast (workers s5)))).
  { intros s5. apply quiet_like; auto. intros p. unfold pend; simpl. rewrite broadcast_wpend. lia. }
  destruct (heap s3); [|destruct (bcast s4)]; try (eapply ms_trans; [exact C | apply D]). exact C.
Qed.

Theorem step_micro s l : mstar s (step s l).
Proof.
  destruct l; simpl.
  - apply ms_one, m_quiet; auto.
    + simpl. lia.
    + apply flags_refl_like; auto.
    + apply cm_refl_like; auto.
    + intros p; unfold pend; simpl; lia.
  - apply add_micro.
  - apply cancel_micro.
  - apply tcancel_micro.
  - apply shutdown_micro.
  - apply worker_micro.
Qed.

Theorem run_micro ls : forall s, mstar s (run s ls).
Proof.
  induction ls; intros s; simpl; [apply ms_refl|].
  eapply ms_trans; [apply step_micro | apply IHls].
Qed.
