(* C18 - "eventually": termination under fairness with a decreasing measure.
   After the last client call, along EVERY infinite schedule of clock ticks and worker steps in which every worker
   keeps being scheduled and the clock passes every bound (the fairness premise, [fair]), a quiescent state is
   reached after finitely many steps: nothing is queued, every worker waits or has exited, and every accepted
   element has been delivered, cancelled, dropped by the size bound or discarded by the shutdown flag.
   Ingredients: the measure [mu] (8 per heap element + the rank of every worker state) never increases on ticks and
   strictly decreases on every effective worker step; the accounting invariant [AInv] (every accepted element is
   queued or has a final event in the log), for all configurations and all schedules. *)
From Coq Require Import NArith List Bool Arith Lia.
From Verif.C18_Timed Require Import Model Heap Micro Proofs Progress TaskExec.
Import ListNotations.
Local Arguments cnt : simpl never.
Local Arguments has_final : simpl never.

(* ---------- accounting invariant ---------- *)

Record AInv (s : st) : Prop := {
  a_acc : forall e, e < nxt s -> has_final e (log s) = true \/ exists x, In x (waiting s) /\ eid x = e;
  a_cl : forall e, memb e (closed s) = true -> has_final e (log s) = true;
  a_dlv : forall x, In (WDeliv x) (workers s) -> has_final (eid x) (log s) = true
}.

Lemma has_final_app e l lg : has_final e lg = true -> has_final e (l ++ lg) = true.
Proof. unfold has_final. rewrite existsb_app. intros ->. apply orb_true_r. Qed.

Lemma has_final_cons e ev lg : has_final e lg = true -> has_final e (ev :: lg) = true.
Proof. apply (has_final_app e [ev]). Qed.

Definition grows (lg lg' : list ev) : Prop := exists l, lg' = l ++ lg.
Lemma grows_refl lg : grows lg lg. Proof. exists []; auto. Qed.
Lemma grows_one lg e : grows lg (e :: lg). Proof. exists [e]; auto. Qed.
Lemma grows_trans a b c : grows a b -> grows b c -> grows a c.
Proof. intros [l1 ->] [l2 ->]. exists (l2 ++ l1). apply app_assoc. Qed.
Lemma next_grows a b : next a b -> grows a b.
Proof. intros (l & E & _). exists l; auto. Qed.
Lemma grows_final e a b : grows a b -> has_final e a = true -> has_final e b = true.
Proof. intros [l ->]. apply has_final_app. Qed.

(* the one transfer lemma: what leaves the queue has a final event, is closed (hence has one) or was delivered *)
Lemma ainv_step s s' :
  AInv s -> nxt s <= nxt s' -> grows (log s) (log s') ->
  (forall x, memb x (closed s') = true -> memb x (closed s) = true \/ has_final x (log s') = true) ->
  (forall x, In (WDeliv x) (workers s') -> In (WDeliv x) (workers s) \/ has_final (eid x) (log s') = true) ->
  (forall y, In y (waiting s) -> In y (waiting s') \/ has_final (eid y) (log s') = true \/
                                 memb (eid y) (closed s) = true \/ In (WDeliv y) (workers s)) ->
  (forall e, nxt s <= e -> e < nxt s' -> has_final e (log s') = true \/ exists x, In x (waiting s') /\ eid x = e) ->
  AInv s'.
Proof.
  intros I Hn Hl Hc Hd Hw Hnew. constructor.
  - intros e He. destruct (Nat.lt_ge_cases e (nxt s)) as [Lt|Ge]; [|apply Hnew; auto].
    destruct (a_acc s I e Lt) as [F|(x & Hx & Ex)]; [left; eapply grows_final; eauto|].
    destruct (Hw x Hx) as [H|[H|[H|H]]].
    + right. exists x; auto.
    + left. congruence.
    + left. eapply grows_final; eauto. rewrite <- Ex. apply (a_cl s I); auto.
    + left. eapply grows_final; eauto. rewrite <- Ex. apply (a_dlv s I); auto.
  - intros e H. destruct (Hc e H) as [H'|H']; auto. eapply grows_final; eauto. apply (a_cl s I); auto.
  - intros x H. destruct (Hd x H) as [H'|H']; auto. eapply grows_final; eauto. apply (a_dlv s I); auto.
Qed.

(* only the fields nxt / log / closed / workers / heap matter *)
Lemma ainv_ext s s' : nxt s' = nxt s -> log s' = log s -> closed s' = closed s -> workers s' = workers s -> heap s' = heap s ->
  AInv s -> AInv s'.
Proof.
  intros En El Ec Ew Eh I. constructor; unfold waiting; rewrite ?En, ?El, ?Ec, ?Ew, ?Eh; apply I.
Qed.

Lemma in_wupd (x : wst) : forall ws w new, In x (wupd ws w new) -> x = new \/ In x ws.
Proof.
  induction ws; intros [|w] new H; simpl in *; auto.
  - destruct H as [H|H]; auto.
  - destruct H as [H|H]; auto. destruct (IHws w new H); auto.
Qed.

Lemma final_head e ev lg : (match ev with EDeliver e' _ | ECancel e' _ _ | EDrop e' | EDiscard e' => e' =? e | _ => false end) = true ->
  has_final e (ev :: lg) = true.
Proof. intros H. unfold has_final. simpl. rewrite H. reflexivity. Qed.

(* worker w goes from old to new *)
Lemma ainv_worker s s' w old new lost :
  AInv s -> nth_error (workers s) w = Some old -> workers s' = wupd (workers s) w new ->
  nxt s' = nxt s -> closed s' = closed s -> grows (log s) (log s') ->
  (forall p, cnt p (heap s) + cnt p (wq old) = cnt p (heap s') + cnt p (wq new) + cnt p lost) ->
  (forall x, new = WDeliv x -> has_final (eid x) (log s') = true) ->
  (forall x, In x lost -> has_final (eid x) (log s') = true \/ memb (eid x) (closed s) = true \/ old = WDeliv x) ->
  AInv s'.
Proof.
  intros I H W En Ec Hl Hw Hnew Hlost. apply ainv_step with (s := s); auto.
  - rewrite En; auto.
  - intros x Hx. left. congruence.
  - intros x Hx. rewrite W in Hx. apply in_wupd in Hx as [Hx|Hx]; auto.
  - intros y Hy.
    assert (Q : forall p, cnt p (waiting s) = cnt p (waiting s') + cnt p lost).
    { intros p. pose proof (waiting_update p s s' w old new H W). specialize (Hw p). lia. }
    destruct (cnt_split_in _ _ _ Q y Hy) as [Hy'|Hy']; auto.
    destruct (Hlost y Hy') as [A|[A|A]]; auto.
    right. right. right. subst old. eapply nth_error_In; eauto.
  - intros e A B. rewrite En in B. lia.
Qed.

Ltac aside Ho :=
  eauto; simpl; auto; try apply grows_refl; try apply grows_one;
  try (let p := fresh "p" in intros p; rewrite ?Ho; simpl; rewrite ?cnt_cons, ?cnt_nil; lia);
  try (let Hx := fresh "Hx" in intros ? Hx; discriminate Hx);
  try (let a := fresh "a" in intros a []; fail).

Lemma deliver_a s w e old :
  AInv s -> nth_error (workers s) w = Some old -> wq old = [e] ->
  AInv (upd_w (fst (deliver s e)) w (snd (deliver s e))).
Proof.
  intros I H Ho. unfold deliver. destruct (recheck s && memb (eid e) (closed s)) eqn:E; simpl.
  - eapply ainv_worker with (old := old) (new := WIdle) (lost := [e]); aside Ho.
    intros x [<-|[]]. right; left. apply andb_true_iff in E. tauto.
  - eapply ainv_worker with (old := old) (new := WDeliv e) (lost := []); aside Ho.
    intros x Hx. inversion Hx; subst. apply final_head. apply Nat.eqb_refl.
Qed.

Lemma chosen_a s w e old :
  AInv s -> nth_error (workers s) w = Some old -> wq old = [e] -> AInv (upd_w s w (WChosen e)).
Proof.
  intros I H Ho. eapply ainv_worker with (old := old) (new := WChosen e) (lost := []); aside Ho.
Qed.

Lemma ctx_a s w e old :
  AInv s -> nth_error (workers s) w = Some old -> wq old = [e] ->
  AInv (upd_w (fst (ctx_branch s e)) w (snd (ctx_branch s e))).
Proof.
  intros I H Ho. unfold ctx_branch. destruct (fcancel s) eqn:Fc; simpl.
  - eapply ainv_worker with (old := old) (new := WExit) (lost := [e]); aside Ho.
    intros x [<-|[]]. left. apply final_head. apply Nat.eqb_refl.
  - destruct (fignore s).
    + simpl. apply chosen_a with (old := old); auto.
    + simpl. eapply ainv_worker with (old := old) (new := WPopped2 e) (lost := []); aside Ho.
Qed.

Lemma take_a s w e old b :
  AInv s -> nth_error (workers s) w = Some old -> wq old = [e] ->
  (b = BCan -> memb (eid e) (closed s) = true) ->
  AInv (upd_w (fst (take_branch s e b)) w (snd (take_branch s e b))).
Proof.
  intros I H Ho Hb. destruct b; simpl.
  - apply ctx_a with (old := old); auto.
  - eapply ainv_worker with (old := old) (new := WIdle) (lost := [e]); aside Ho.
    intros x [<-|[]]. right; left. auto.
  - apply chosen_a with (old := old); auto.
Qed.

Lemma worker_a s w c : AInv s -> AInv (worker_step s w c).
Proof.
  intros I. unfold worker_step. destruct (nth_error (workers s) w) as [ws|] eqn:H; auto.
  destruct ws; auto.
  - (* WIdle *)
    destruct (hpop (heap s)) as [[e h']|] eqn:Hp; simpl.
    + eapply ainv_worker with (old := WIdle) (new := WPopped e) (lost := []); aside H.
      intros p. rewrite (hpop_cnt p _ _ _ Hp), ?cnt_cons, ?cnt_nil. lia.
    + eapply ainv_worker with (old := WIdle) (new := if shut s then WExit else WWait) (lost := []); aside H.
      * intros p. destruct (shut s); simpl; rewrite ?cnt_cons, ?cnt_nil; lia.
      * intros x Hx. destruct (shut s); discriminate.
  - (* WPopped *)
    destruct (ready_outer s e) as [|b r] eqn:R.
    + simpl. eapply ainv_worker with (old := WPopped e) (new := WParked e) (lost := []); aside H.
    + rewrite <- R. pose proof (nth_mod_in (ready_outer s e) c) as Hin.
      apply take_a with (old := WPopped e); auto.
      intros Eb. apply ready_outer_can. rewrite <- Eb. apply Hin. rewrite R; discriminate.
  - destruct (is_due s e); auto. apply chosen_a with (old := WParked e); auto.
  - (* WPopped2 *)
    destruct (ready_inner s e) as [|b r] eqn:R.
    + simpl. eapply ainv_worker with (old := WPopped2 e) (new := WParked2 e) (lost := []); aside H.
    + rewrite <- R. pose proof (nth_mod_in (ready_inner s e) c) as Hin.
      apply take_a with (old := WPopped2 e); auto.
      intros Eb. apply ready_inner_can. rewrite <- Eb. apply Hin. rewrite R; discriminate.
  - destruct (is_due s e); auto. apply chosen_a with (old := WParked2 e); auto.
  - (* WChosen *)
    destruct (is_due s e || (shut s && fignore s)); auto. apply deliver_a with (old := WChosen e); auto.
  - (* WDeliv *)
    assert (G : forall s1 ev new, (forall x, new <> WDeliv x) -> wq new = [] ->
              nxt s1 = nxt s -> closed s1 = closed s -> log s1 = log s -> heap s1 = heap s -> workers s1 = workers s ->
              AInv (set_workers (emit s1 ev) (wupd (workers (emit s1 ev)) w new))).
    { intros s1 ev new Nd Wn E1 E2 E3 E4 E5.
      eapply ainv_worker with (s := s) (old := WDeliv e) (new := new) (lost := [e]); eauto; simpl; auto;
        try (rewrite E5; auto; fail); try (rewrite E3; apply grows_one);
        try (intros p; rewrite E4, Wn; rewrite ?cnt_cons, ?cnt_nil; lia);
        try (intros x Hx; exfalso; apply (Nd x); auto; fail);
        try (intros x [<-|[]]; auto; fail). }
    destruct (ekey e) as [k|]; [destruct (mode s)|]; simpl.
    + apply (G s); auto; discriminate.
    + destruct (tget k (tmap s)) as [v|]; [destruct (v =? eid e)|]; simpl.
      * apply (G (set_tmap s (tdel k (tmap s)))); auto; discriminate.
      * apply (G s); auto; discriminate.
      * apply (G s); auto; discriminate.
    + apply (G s); auto; discriminate.
  - (* WRun *)
    assert (G : forall s1 ev,
              nxt s1 = nxt s -> closed s1 = closed s -> log s1 = log s -> heap s1 = heap s -> workers s1 = workers s ->
              AInv (set_workers (emit s1 ev) (wupd (workers (emit s1 ev)) w WIdle))).
    { intros s1 ev E1 E2 E3 E4 E5.
      eapply ainv_worker with (s := s) (old := WRun e) (new := WIdle) (lost := []); eauto; simpl; auto;
        try (rewrite E5; auto; fail); try (rewrite E3; apply grows_one);
        try (intros p; rewrite E4; rewrite ?cnt_cons, ?cnt_nil; lia);
        try (intros x Hx; discriminate Hx); try (intros x []; fail). }
    destruct (ekey e) as [k|]; [destruct (mode s)|]; simpl.
    + apply (G (set_tmap s (tdel k (tmap s)))); auto.
    + apply (G s); auto.
    + apply (G s); auto.
Qed.

(* ---------- client steps ---------- *)

Lemma emit_a s ev : AInv s -> AInv (emit s ev).
Proof.
  intros I. apply ainv_step with (s := s); simpl; auto.
  - apply grows_one.
  - intros e A B. lia.
Qed.

Lemma wake_cancel_deliv e x : forall ws, In (WDeliv x) (fst (wake_cancel e ws)) -> In (WDeliv x) ws.
Proof.
  induction ws as [|w r IH]; simpl; auto.
  destruct (wake_cancel e r) as [r' b]. simpl in IH.
  destruct w; simpl; try (intros [H|H]; [left; auto | right; auto]);
    destruct (eid e0 =? e); simpl; intros [H|H]; try discriminate; auto.
Qed.

Lemma cancel_final s e : e < nxt s -> has_final e (log (cancel_elem s e)) = true.
Proof.
  intros Lt. unfold cancel_elem. destruct (nxt s <=? e) eqn:Hn; [apply Nat.leb_le in Hn; lia|].
  destruct (index_of e (heap s)); [destruct (hremove (heap s) n) as [[? ?]|]|]; simpl;
    match goal with |- context [memb e ?c] => destruct (memb e c) end; simpl;
    try (match goal with |- context [wake_cancel e ?w] => destruct (wake_cancel e w) as [ws [|]] end); simpl;
    unfold has_final; simpl; rewrite Nat.eqb_refl; rewrite ?orb_true_r; reflexivity.
Qed.

Lemma cancel_workers s e x : In (WDeliv x) (workers (cancel_elem s e)) -> In (WDeliv x) (workers s).
Proof.
  unfold cancel_elem. destruct (nxt s <=? e); auto.
  destruct (index_of e (heap s)); [destruct (hremove (heap s) n) as [[? ?]|]|]; simpl;
    match goal with |- context [memb e ?c] => destruct (memb e c) end; simpl; auto;
    match goal with |- context [wake_cancel e ?w] =>
      pose proof (wake_cancel_deliv e x w) as Q; destruct (wake_cancel e w) as [ws [|]] end; simpl in *; auto.
Qed.

Lemma cancel_a s e : AInv s -> AInv (cancel_elem s e).
Proof.
  intros I. destruct (Nat.lt_ge_cases e (nxt s)) as [Lt|Ge].
  - destruct (cancel_spec s e Lt) as (Em & En & Et & Ed & Ef & Es & Ex & Ec & El & lost & Hc & Hl).
    pose proof (cancel_final s e Lt) as F.
    apply ainv_step with (s := s); auto.
    + rewrite En; auto.
    + apply next_grows; auto.
    + intros x Hx. destruct (Ec x Hx) as [H| ->]; auto.
    + intros x Hx. left. apply cancel_workers in Hx; auto.
    + intros y Hy. destruct (cnt_split_in _ _ _ Hc y Hy) as [H|H]; auto. right; left. rewrite (Hl y H). auto.
    + intros e0 A B. rewrite En in B. lia.
  - unfold cancel_elem. apply Nat.leb_le in Ge. rewrite Ge. auto.
Qed.

Lemma signal_deliv x : forall ws, In (WDeliv x) (signal ws) -> In (WDeliv x) ws.
Proof.
  induction ws as [|w r IH]; simpl; auto.
  destruct w; simpl; intros [H|H]; auto; discriminate.
Qed.

Lemma hpush_in_conv h x y : In y h \/ y = x -> In y (hpush h x).
Proof.
  intros H. destruct (cnt_pos_in (fun z => elem_eqb z y) (hpush h x)) as (z & Hz & E).
  - rewrite hpush_cnt. destruct H as [H| ->].
    + assert (0 < cnt (fun z => elem_eqb z y) h) by (eapply in_cnt_pos; eauto; apply elem_eqb_eq; auto). lia.
    + assert (E : elem_eqb x x = true) by (apply elem_eqb_eq; auto). rewrite E. simpl. lia.
  - apply elem_eqb_eq in E. subst; auto.
Qed.

Lemma queue_add_a s t k : AInv s -> AInv (fst (queue_add s t k)).
Proof.
  intros I. unfold queue_add. destruct (shut s) eqn:Sh; simpl; [apply emit_a; auto|].
  set (x := mkE (nxt s) t k).
  set (s1 := emit (set_nxt (set_heap s (hpush (heap s) x)) (S (nxt s))) (EAdd (nxt s) t k (now s))).
  set (s2 := if (0 <? maxsz s1) && (maxsz s1 <? length (heap s1))
             then match hremove (heap s1) (length (heap s1) - 1) with
                  | Some (d, h') => emit (set_heap s1 h') (EDrop (eid d)) | None => s1 end
             else s1).
  change (AInv (set_workers s2 (signal (workers s2)))).
  assert (S2 : nxt s2 = S (nxt s) /\ closed s2 = closed s /\ workers s2 = workers s /\ grows (log s) (log s2) /\
               (forall y, In y (heap s) \/ y = x -> In y (heap s2) \/ has_final (eid y) (log s2) = true)).
  { assert (B : nxt s1 = S (nxt s) /\ closed s1 = closed s /\ workers s1 = workers s /\ grows (log s) (log s1) /\
                (forall y, In y (heap s) \/ y = x -> In y (heap s1) \/ has_final (eid y) (log s1) = true)).
    { unfold s1; simpl. repeat split; auto. apply grows_one. intros y Hy. left. apply hpush_in_conv; auto. }
    unfold s2. destruct ((0 <? maxsz s1) && (maxsz s1 <? length (heap s1))); auto.
    destruct (hremove (heap s1) (length (heap s1) - 1)) as [[d h']|] eqn:R; auto.
    destruct B as (B1 & B2 & B3 & B4 & B5). simpl. repeat split; auto.
    - eapply grows_trans; [exact B4 | apply grows_one].
    - intros y Hy. destruct (B5 y Hy) as [H|H].
      + assert (Q : forall p, cnt p (heap s1) = cnt p h' + cnt p [d]).
        { intros p. destruct (hremove_spec p _ _ _ _ R) as [C _]. rewrite cnt_cons, cnt_nil. lia. }
        destruct (cnt_split_in _ _ _ Q y H) as [H'|[<-|[]]]; auto.
        right. apply final_head. apply Nat.eqb_refl.
      + right. apply has_final_cons; auto. }
  clearbody s2. destruct S2 as (E1 & E2 & E3 & E4 & E5).
  apply ainv_step with (s := s); simpl; auto.
  - rewrite E1; auto.
  - intros y Hy. left. congruence.
  - intros y Hy. left. apply signal_deliv in Hy. congruence.
  - intros y Hy. unfold waiting in *. simpl. rewrite signal_wqs, E3. apply in_app_or in Hy as [Hy|Hy].
    + destruct (E5 y (or_introl Hy)); auto. left. apply in_or_app; auto.
    + left. apply in_or_app; auto.
  - intros e A B. rewrite E1 in B. assert (e = nxt s) by lia. subst e.
    destruct (E5 x (or_intror eq_refl)) as [H|H]; auto.
    right. exists x. split; auto. unfold waiting. simpl. apply in_or_app; auto.
Qed.

Lemma add_a s t k : AInv s -> AInv (add_step s t k).
Proof.
  intros I. destruct k as [key|]; [|apply queue_add_a; auto].
  rewrite add_step_pre.
  assert (I1 : AInv (pre_add s key)).
  { unfold pre_add. destruct (tget key (tmap s)) as [old|]; auto.
    eapply ainv_ext; [| | | | |apply (cancel_a s old I)]; reflexivity. }
  pose proof (queue_add_a (pre_add s key) t (Some key) I1) as Q.
  destruct (queue_add (pre_add s key) t (Some key)) as [s2 [id|]]; simpl in Q; auto.
  eapply ainv_ext; [| | | | |exact Q]; reflexivity.
Qed.

Lemma tcancel_a s k : AInv s -> AInv (tcancel_step s k).
Proof.
  intros I. unfold tcancel_step. destruct (tget k (tmap s)) as [e|]; [|apply emit_a; auto].
  apply emit_a. eapply ainv_ext; [| | | | |apply (cancel_a s e I)]; reflexivity.
Qed.

Lemma wake_ctx_at_a s w : AInv s -> AInv (wake_ctx_at s w).
Proof.
  intros I. unfold wake_ctx_at. destruct (nth_error (workers s) w) as [ws|] eqn:H; auto.
  destruct ws; auto. apply (ctx_a s w e (WParked e)); auto.
Qed.

Lemma wake_ctx_fold_a l : forall s, AInv s -> AInv (fold_left wake_ctx_at l s).
Proof. induction l; intros s I; simpl; auto. apply IHl. apply wake_ctx_at_a; auto. Qed.

Lemma discard_all_final h : forall s y, In y h -> has_final (eid y) (log (discard_all s h)) = true.
Proof.
  induction h; intros s y Hy; simpl in *; [tauto|]. destruct Hy as [<-|Hy]; auto.
  destruct (discard_all_spec h (emit s (EDiscard (eid a)))) as (_ & _ & _ & _ & _ & _ & _ & _ & N).
  eapply grows_final; [apply next_grows; exact N|]. simpl. apply final_head. apply Nat.eqb_refl.
Qed.

Lemma broadcast_deliv x : forall ws, In (WDeliv x) (broadcast ws) -> In (WDeliv x) ws.
Proof.
  induction ws as [|w r IH]; simpl; auto. intros [H|H]; auto. left. destruct w; auto; discriminate.
Qed.

Lemma broadcast_a s : AInv s -> AInv (set_workers s (broadcast (workers s))).
Proof.
  intros I. apply ainv_step with (s := s); simpl; auto.
  - apply grows_refl.
  - intros x Hx. left. apply broadcast_deliv; auto.
  - intros y Hy. left. unfold waiting in *. simpl. rewrite broadcast_wqs. auto.
  - intros e A B. lia.
Qed.

Lemma shutdown_a s fc fi : AInv s -> AInv (shutdown_step s fc fi).
Proof.
  intros I. unfold shutdown_step. destruct (shut s) eqn:Sh; auto.
  set (s1 := emit (set_shut s fc fi) (EShutdown fc fi (now s))).
  assert (I1 : AInv s1).
  { apply emit_a. eapply ainv_ext; [| | | | |exact I]; reflexivity. }
  assert (I3 : AInv (wake_ctx s1)) by (apply wake_ctx_fold_a; auto).
  set (s3 := wake_ctx s1) in *. clearbody s3.
  set (s4 := match heap s3 with [] => s3 | h => if fc then set_heap (discard_all s3 h) [] else s3 end).
  assert (I4 : AInv s4).
  { unfold s4. destruct (heap s3) as [|a r] eqn:Hh; auto. destruct fc; auto.
    destruct (discard_all_spec (a :: r) s3) as (A & B & C & D & E & F & G & H & N).
    apply ainv_step with (s := s3); auto.
    - unfold set_heap; cbn [nxt]. rewrite B; auto.
    - unfold set_heap; cbn [log]. apply next_grows; auto.
    - intros x Hx. left. unfold set_heap in Hx; cbn [closed] in Hx. congruence.
    - intros x Hx. left. unfold set_heap in Hx; cbn [workers] in Hx. congruence.
    - intros y Hy. unfold waiting in *. unfold set_heap; cbn [heap workers log app]. rewrite H.
      apply in_app_or in Hy as [Hy|Hy]; auto. right; left. rewrite Hh in Hy. apply discard_all_final; auto.
    - intros e A' B'. unfold set_heap in B'; cbn [nxt] in B'. lia. }
  clearbody s4.
  destruct (heap s3); [|destruct (bcast s4)]; auto; apply broadcast_a; auto.
Qed.

Lemma step_a s l : AInv s -> AInv (step s l).
Proof.
  intros I. destruct l; simpl.
  - eapply ainv_ext; [| | | | |exact I]; reflexivity.
  - apply add_a; auto.
  - apply cancel_a; auto.
  - apply tcancel_a; auto.
  - apply shutdown_a; auto.
  - apply worker_a; auto.
Qed.

Lemma run_a ls : forall s, AInv s -> AInv (run s ls).
Proof. induction ls; intros s I; simpl; auto. apply IHls. apply step_a; auto. Qed.

Lemma init_a n m md rc bc : AInv (init n m md rc bc).
Proof.
  constructor; unfold init; simpl.
  - intros e H. lia.
  - intros e H. discriminate.
  - intros x H. apply repeat_spec in H. discriminate.
Qed.

(* ---------- the measure ---------- *)

Definition rank (w : wst) : nat :=
  match w with
  | WPopped _ => 8 | WParked _ => 7 | WPopped2 _ => 6 | WParked2 _ => 5 | WChosen _ => 4 | WDeliv _ => 3 | WRun _ => 2
  | WIdle => 1 | WWait | WExit => 0
  end.
Definition ranks (ws : list wst) : nat := fold_right (fun w a => rank w + a) 0 ws.
Definition mu (s : st) : nat := 9 * length (heap s) + ranks (workers s).

Lemma ranks_wupd : forall ws w old new, nth_error ws w = Some old ->
  ranks (wupd ws w new) + rank old = ranks ws + rank new.
Proof.
  induction ws; intros [|w] old new H; simpl in *; try discriminate.
  - inversion H; subst. lia.
  - specialize (IHws w old new H). lia.
Qed.

Lemma mu_fin s s1 w old new :
  nth_error (workers s) w = Some old -> heap s1 = heap s -> workers s1 = workers s -> rank new < rank old ->
  mu (set_workers s1 (wupd (workers s1) w new)) < mu s.
Proof.
  intros H Eh Ew R. unfold mu. simpl. rewrite Eh, Ew. pose proof (ranks_wupd _ _ _ new H). lia.
Qed.

Lemma cnt_true (l : list elem) : cnt (fun _ => true) l = length l.
Proof. induction l; auto. rewrite cnt_cons, IHl. reflexivity. Qed.

Lemma deliver_rank s e : rank (snd (deliver s e)) <= 3.
Proof. unfold deliver. destruct (recheck s && memb (eid e) (closed s)); simpl; lia. Qed.

Lemma ctx_rank s e : rank (snd (ctx_branch s e)) <= 6.
Proof.
  unfold ctx_branch. destruct (fcancel s); simpl; [lia|]. destruct (fignore s); simpl; lia.
Qed.

Lemma take_rank s e b : rank (snd (take_branch s e b)) <= 6 /\ (b <> BCtx -> rank (snd (take_branch s e b)) <= 4).
Proof.
  destruct b; simpl.
  - split; [apply ctx_rank | congruence].
  - split; lia.
  - split; lia.
Qed.

Lemma worker_mu_strict s w c ws :
  nth_error (workers s) w = Some ws -> can_step s ws = true -> mu (worker_step s w c) < mu s.
Proof.
  intros H C. unfold worker_step. rewrite H. destruct ws; simpl in C; try discriminate.
  - (* WIdle *)
    destruct (hpop (heap s)) as [[e h']|] eqn:Hp; simpl.
    + unfold mu. simpl. pose proof (hpop_cnt (fun _ => true) _ _ _ Hp) as L. rewrite !cnt_true in L. simpl in L.
      pose proof (ranks_wupd _ _ _ (WPopped e) H). simpl in *. lia.
    + apply mu_fin with (old := WIdle); auto; destruct (shut s); simpl; lia.
  - (* WPopped *)
    destruct (ready_outer s e) as [|b r] eqn:R.
    + apply mu_fin with (old := WPopped e); auto; simpl; lia.
    + rewrite <- R. set (b0 := nth (c mod length (ready_outer s e)) (ready_outer s e) BTim).
      destruct (take_proj s e b0) as (A & B & _).
      { intros Eb. pose proof (nth_mod_in (ready_outer s e) c) as I.
        destruct (ready_outer_sound s e _ (I ltac:(rewrite R; discriminate))) as [Hc _]. auto. }
      apply mu_fin with (old := WPopped e); auto; destruct (take_rank s e b0); simpl; lia.
  - (* WParked *)
    rewrite C. apply mu_fin with (old := WParked e); auto; simpl; lia.
  - (* WPopped2 *)
    destruct (ready_inner s e) as [|b r] eqn:R.
    + apply mu_fin with (old := WPopped2 e); auto; simpl; lia.
    + rewrite <- R. set (b0 := nth (c mod length (ready_inner s e)) (ready_inner s e) BTim).
      pose proof (nth_mod_in (ready_inner s e) c) as I.
      destruct (ready_inner_sound s e _ (I ltac:(rewrite R; discriminate))) as [Hb _]. fold b0 in Hb.
      destruct (take_proj s e b0) as (A & B & _); [intros; congruence|].
      apply mu_fin with (old := WPopped2 e); auto; destruct (take_rank s e b0) as [_ T]; specialize (T Hb); simpl; lia.
  - (* WParked2 *)
    rewrite C. apply mu_fin with (old := WParked2 e); auto; simpl; lia.
  - (* WChosen *)
    rewrite C. destruct (deliver_proj s e) as (A & B & _).
    apply mu_fin with (old := WChosen e); auto; pose proof (deliver_rank s e); simpl; lia.
  - (* WDeliv *)
    destruct (ekey e) as [k|]; [destruct (mode s)|]; simpl.
    + apply (mu_fin s (emit s _) w (WDeliv e)); auto; simpl; lia.
    + destruct (tget k (tmap s)) as [v|]; [destruct (v =? eid e)|]; simpl.
      * apply (mu_fin s (emit (set_tmap s _) _) w (WDeliv e)); auto; simpl; lia.
      * apply (mu_fin s (emit s _) w (WDeliv e)); auto; simpl; lia.
      * apply (mu_fin s (emit s _) w (WDeliv e)); auto; simpl; lia.
    + apply (mu_fin s (emit s _) w (WDeliv e)); auto; simpl; lia.
  - (* WRun *)
    destruct (ekey e) as [k|]; [destruct (mode s)|]; simpl.
    + apply (mu_fin s (emit (set_tmap s _) _) w (WRun e)); auto; simpl; lia.
    + apply (mu_fin s (emit s _) w (WRun e)); auto; simpl; lia.
    + apply (mu_fin s (emit s _) w (WRun e)); auto; simpl; lia.
Qed.

(* a worker step either does nothing at all or strictly decreases the measure *)
Lemma worker_mu s w c : worker_step s w c = s \/ mu (worker_step s w c) < mu s.
Proof.
  destruct (nth_error (workers s) w) as [ws|] eqn:H.
  - destruct (can_step s ws) eqn:C; [right; eapply worker_mu_strict; eauto|].
    left. unfold worker_step. rewrite H. destruct ws; simpl in C; try discriminate; auto; rewrite C; auto.
  - left. unfold worker_step. rewrite H. auto.
Qed.

(* ---------- infinite schedules and fairness ---------- *)

Definition sched := nat -> label.
Definition shiftn (j : nat) (f : sched) : sched := fun i => f (j + i).
Fixpoint prefix (f : sched) (n : nat) : list label :=
  match n with 0 => [] | S n' => f 0 :: prefix (shiftn 1 f) n' end.

Definition internal (l : label) : bool := match l with LTick _ | LWorker _ _ => true | _ => false end.

(* the fairness premise: only clock ticks and worker steps (no further client call); every one of the nw workers is
   scheduled again and again; the clock eventually passes every bound *)
Definition fair (nw : nat) (s : st) (f : sched) : Prop :=
  (forall n, internal (f n) = true) /\
  (forall n i, i < nw -> exists m c, n <= m /\ f m = LWorker i c) /\
  (forall n T, exists m, n <= m /\ (T <= now (run s (prefix f m)))%N).

Lemma shiftn_shiftn a b f i : shiftn a (shiftn b f) i = shiftn (b + a) f i.
Proof. unfold shiftn. f_equal. lia. Qed.

Lemma prefix_ext n : forall f g, (forall i, f i = g i) -> prefix f n = prefix g n.
Proof.
  induction n; intros f g H; simpl; auto. rewrite H. f_equal. apply IHn. intros i. unfold shiftn. apply H.
Qed.

Lemma run_prefix_split j : forall s f n,
  run s (prefix f (j + n)) = run (run s (prefix f j)) (prefix (shiftn j f) n).
Proof.
  induction j; intros s f n; simpl.
  - f_equal; try (apply prefix_ext; intros i; reflexivity).
  - rewrite IHj. f_equal; try (apply prefix_ext; intros i; rewrite shiftn_shiftn; reflexivity).
Qed.

Lemma micro_now s s' : micro s s' -> (now s <= now s')%N.
Proof.
  intros M. destruct M; unfold frame, frame_add in *;
    repeat match goal with H : _ /\ _ |- _ => destruct H end;
    try assumption; try (match goal with H : now _ = now _ |- _ => rewrite H end; apply N.le_refl).
Qed.

Lemma mstar_now s s' : mstar s s' -> (now s <= now s')%N.
Proof.
  induction 1; [apply micro_now; auto | apply N.le_refl | eapply N.le_trans; eauto].
Qed.

Lemma run_now_mono n : forall s f, (now s <= now (run s (prefix f n)))%N.
Proof. intros s f. apply mstar_now. apply run_micro. Qed.

Lemma fair_shift nw s f j : fair nw s f -> fair nw (run s (prefix f j)) (shiftn j f).
Proof.
  intros (F1 & F2 & F3). split; [|split].
  - intros n. apply F1.
  - intros n i Hi. destruct (F2 (j + n) i Hi) as (m & c & Hm & E). exists (m - j), c. split; [lia|].
    unfold shiftn. replace (j + (m - j)) with m by lia. auto.
  - intros n T. destruct (F3 (j + n) T) as (m & Hm & E). exists (m - j). split; [lia|].
    rewrite <- run_prefix_split. replace (j + (m - j)) with m by lia. auto.
Qed.

(* until the active worker i is scheduled with its timer expired, some effective step has happened *)
Lemma first_decrease : forall m s f i ws c,
  (forall n, internal (f n) = true) ->
  nth_error (workers s) i = Some ws -> active ws = true -> f m = LWorker i c ->
  (forall e, ws = WParked e \/ ws = WParked2 e \/ ws = WChosen e -> (etime e <= now (run s (prefix f m)))%N) ->
  exists j, j <= S m /\ mu (run s (prefix f j)) < mu s.
Proof.
  induction m; intros s f i ws c Fi H A Fm Hd.
  - exists 1. split; auto. simpl. rewrite Fm. simpl. eapply worker_mu_strict; eauto.
    destruct ws; simpl in *; auto; try discriminate; try (apply orb_true_iff; left);
      unfold is_due; apply N.leb_le; apply Hd; auto.
  - assert (Fi' : forall n, internal (shiftn 1 f n) = true) by (intros n; apply Fi).
    assert (Next : forall s1, workers s1 = workers s -> mu s1 = mu s -> step s (f 0) = s1 ->
                   exists j, j <= S (S m) /\ mu (run s (prefix f j)) < mu s).
    { intros s1 Ew Em Es.
      destruct (IHm s1 (shiftn 1 f) i ws c Fi') as (j & Hj & Lt); auto.
      - rewrite Ew; auto.
      - intros e He. specialize (Hd e He). simpl in Hd. rewrite Es in Hd. auto.
      - exists (S j). split; [lia|]. simpl. rewrite Es. lia. }
    pose proof (Fi 0) as I0. destruct (f 0) as [d| | | | |w' c'] eqn:F0; try discriminate.
    + apply (Next (set_now s (now s + d)%N)); auto.
    + destruct (worker_mu s w' c') as [E|Lt].
      * apply (Next s); auto.
      * exists 1. split; [lia|]. simpl. rewrite F0. simpl. auto.
Qed.

Lemma run_app s l1 l2 : run s (l1 ++ l2) = run (run s l1) l2.
Proof. unfold run. apply fold_left_app. Qed.

(* every fair schedule reaches, after finitely many steps, a state in which no worker is active *)
Lemma fair_quiesce : forall k w m md rc bc ls f, 0 < w ->
  let s := run (init w m md rc bc) ls in
  mu s <= k -> fair w s f -> exists n, act (workers (run s (prefix f n))) = false.
Proof.
  induction k; intros w m md rc bc ls f Hw s Hk F.
  - destruct (act (workers s)) eqn:A; [|exists 0; auto].
    exfalso. destruct (act_witness _ A) as (i & ws & H & Ac).
    assert (0 < ranks (workers s)).
    { pose proof (ranks_wupd _ _ _ WWait H) as R. destruct ws; simpl in *; try discriminate; lia. }
    unfold mu in Hk. lia.
  - destruct (act (workers s)) eqn:A; [|exists 0; auto].
    destruct (act_witness _ A) as (i & ws & H & Ac).
    pose proof (run_pi w ls _ Hw (init_pi w m md rc bc)) as P. fold s in P. destruct P as (Len & _).
    assert (Hi : i < w). { rewrite <- Len. apply nth_error_Some. congruence. }
    destruct F as (F1 & F2 & F3).
    set (T := match ws with WParked e | WParked2 e | WChosen e => etime e | _ => 0%N end).
    destruct (F3 0 T) as (m1 & _ & HT).
    destruct (F2 m1 i Hi) as (m2 & c & Hm & Fm).
    assert (HT2 : (T <= now (run s (prefix f m2)))%N).
    { replace m2 with (m1 + (m2 - m1)) by lia. rewrite run_prefix_split.
      eapply N.le_trans; [exact HT | apply run_now_mono]. }
    destruct (first_decrease m2 s f i ws c F1 H Ac Fm) as (j & Hj & Lt).
    { intros e [-> | [-> | ->]]; exact HT2. }
    assert (E : run s (prefix f j) = run (init w m md rc bc) (ls ++ prefix f j)) by (unfold s; rewrite run_app; auto).
    destruct (IHk w m md rc bc (ls ++ prefix f j) (shiftn j f) Hw) as (n & Hn).
    + rewrite <- E. lia.
    + rewrite <- E. apply fair_shift. repeat split; auto.
    + exists (j + n). rewrite run_prefix_split. rewrite <- E in Hn. exact Hn.
Qed.

Lemma in_add_due e t k a : forall l, In (EAdd e t k a) l -> due_of e l <> None.
Proof.
  induction l as [|ev l IH]; simpl; [tauto|]. intros [->|H].
  - rewrite Nat.eqb_refl. discriminate.
  - destruct ev; auto. destruct (e0 =? e); [discriminate | auto].
Qed.

Lemma inactive_wqs ws : act ws = false -> wqs ws = [] /\ forall x, In x ws -> x = WWait \/ x = WExit.
Proof.
  unfold act. induction ws as [|w r IH]; simpl; [split; [auto | tauto]|].
  intros H. apply orb_false_iff in H as [H1 H2]. destruct (IH H2) as [Q1 Q2].
  split.
  - unfold wqs in *. simpl. rewrite Q1. destruct w; simpl in *; auto; discriminate.
  - intros x [<-|Hx]; auto. destruct w; simpl in *; auto; discriminate.
Qed.

(* Termination under fairness: after any history of client calls, on EVERY fair schedule of ticks and worker
   steps there is a finite point at which nothing is queued or held, all workers wait or have exited, and every
   accepted element has been delivered, cancelled, dropped by the size bound or discarded by the shutdown flag
   (the variant: [mu] bounds the number of effective worker steps, see [measure_decreases]). *)
Theorem fair_delivery w m md rc bc ls f : 0 < w ->
  let s := run (init w m md rc bc) ls in
  fair w s f ->
  exists n, let s' := run s (prefix f n) in
    waiting s' = [] /\ pend s' = [] /\ (forall x, In x (workers s') -> x = WWait \/ x = WExit) /\
    all_delivered (log s') = true.
Proof.
  intros Hw s F. destruct (fair_quiesce (mu s) w m md rc bc ls f Hw (le_n _) F) as (n & Hn). fold s in Hn.
  exists n. intros s'. fold s' in Hn.
  assert (E : s' = run (init w m md rc bc) (ls ++ prefix f n)) by (unfold s', s; rewrite run_app; auto).
  pose proof (run_pi w (ls ++ prefix f n) _ Hw (init_pi w m md rc bc)) as P. rewrite <- E in P.
  pose proof (run_a (ls ++ prefix f n) _ (init_a w m md rc bc)) as I. rewrite <- E in I.
  pose proof (inv_run w m md rc bc (ls ++ prefix f n)) as J. rewrite <- E in J.
  destruct (inactive_wqs _ Hn) as [Q1 Q2].
  assert (Hh : heap s' = []).
  { destruct P as (_ & A & _). destruct (heap s'); auto. rewrite A in Hn; [discriminate | discriminate]. }
  assert (W : waiting s' = []) by (unfold waiting; rewrite Hh, Q1; auto).
  split; auto. split; [|split; auto].
  - unfold pend. rewrite Hh. simpl. unfold wpend.
    clear -Q2. induction (workers s') as [|x r IH]; simpl; auto.
    rewrite IH by (intros y Hy; apply Q2; simpl; auto).
    destruct (Q2 x (or_introl eq_refl)) as [-> | ->]; reflexivity.
  - unfold all_delivered. apply forallb_forall. intros ev Hev. destruct ev; auto.
    assert (Lt : e < nxt s').
    { destruct (due_of e (log s')) as [d|] eqn:D; [apply (i_due s' J e d D)|].
      exfalso. eapply in_add_due; eauto. }
    destruct (a_acc s' I e Lt) as [Fn|(x & Hx & _)]; auto. rewrite W in Hx. destruct Hx.
Qed.

(* the variant, for ANY state: ticks keep the measure, a worker step does nothing at all or strictly decreases it *)
Theorem measure_decreases s l : internal l = true ->
  mu (step s l) <= mu s /\ (forall w c, l = LWorker w c -> step s l = s \/ mu (step s l) < mu s).
Proof.
  intros I. destruct l as [d| | | | |w c]; try discriminate; simpl.
  - split; [unfold mu; simpl; lia | intros; discriminate].
  - destruct (worker_mu s w c) as [E|Lt].
    + rewrite E. split; auto.
    + split; [lia|]. intros w0 c0 _. auto.
Qed.

(* ---------- non-vacuity of the fairness premise: round robin with a tick before every worker step ---------- *)

Definition round_robin (w a : nat) : sched :=
  fun n => if Nat.even n then LTick 1 else LWorker ((Nat.div2 n + a) mod w) 0.

Lemma round_robin_shift w a i : shiftn 1 (shiftn 1 (round_robin w a)) i = round_robin w (S a) i.
Proof.
  unfold shiftn, round_robin. change (1 + (1 + i)) with (S (S i)).
  rewrite Nat.even_succ_succ. destruct (Nat.even i); auto. simpl Nat.div2. f_equal. f_equal. lia.
Qed.

Lemma round_robin_time w : forall k a s, (now s + N.of_nat k <= now (run s (prefix (round_robin w a) (2 * k))))%N.
Proof.
  induction k; intros a s.
  - simpl. lia.
  - replace (2 * S k) with (S (S (2 * k))) by lia.
    change (prefix (round_robin w a) (S (S (2 * k))))
      with (round_robin w a 0 :: round_robin w a 1 :: prefix (shiftn 1 (shiftn 1 (round_robin w a))) (2 * k)).
    rewrite (prefix_ext (2 * k) _ (round_robin w (S a)) (round_robin_shift w a)).
    unfold round_robin at 1 2. simpl Nat.even. cbn iota.
    change (run s (LTick 1 :: LWorker ((Nat.div2 1 + a) mod w) 0 :: prefix (round_robin w (S a)) (2 * k)))
      with (run (step (step s (LTick 1)) (LWorker ((Nat.div2 1 + a) mod w) 0)) (prefix (round_robin w (S a)) (2 * k))).
    set (s2 := step (step s (LTick 1)) (LWorker ((Nat.div2 1 + a) mod w) 0)).
    assert (H2 : (now s + 1 <= now s2)%N).
    { unfold s2. eapply N.le_trans; [|apply mstar_now; apply step_micro]. simpl. lia. }
    specialize (IHk (S a) s2). lia.
Qed.

Lemma round_robin_fair w s : 0 < w -> fair w s (round_robin w 0).
Proof.
  intros Hw. split; [|split].
  - intros n. unfold round_robin. destruct (Nat.even n); reflexivity.
  - intros n i Hi. exists (S (2 * (w * n + i))), 0. split.
    + nia.
    + unfold round_robin. rewrite Nat.even_succ, Nat.odd_mul, Nat.odd_2. simpl andb. cbn iota.
      rewrite Nat.div2_succ_double, Nat.add_0_r. f_equal.
      rewrite Nat.add_comm, Nat.mul_comm, Nat.mod_add by lia. apply Nat.mod_small; auto.
  - intros n T. exists (2 * (n + N.to_nat T)). split; [lia|].
    pose proof (round_robin_time w (n + N.to_nat T) 0 s). lia.
Qed.

(* a concrete state (bound 2: two drops, one cancel, a worker holding a popped element) and its round-robin run *)
Definition fair_demo : st :=
  run (init 2 2 IfOwn true true)
      [LAdd 5%N None; LAdd 3%N (Some 0); LAdd 9%N None; LAdd 4%N (Some 1); LCancel 3; LWorker 0 0].

Lemma fair_demo_run :
  mu fair_demo = 18 /\ all_delivered (log fair_demo) = false /\
  (let s' := run fair_demo (prefix (round_robin 2 0) 30) in
   waiting s' = [] /\ workers s' = [WWait; WWait] /\ delivered (log s') = [(0, 8%N); (1, 5%N)] /\
   all_delivered (log s') = true /\ mu s' = 0).
Proof. vm_compute. repeat split; reflexivity. Qed.

Lemma fair_nonvacuous :
  (forall w s, 0 < w -> fair w s (round_robin w 0)) /\
  mu fair_demo = 18 /\ all_delivered (log fair_demo) = false /\
  (let s' := run fair_demo (prefix (round_robin 2 0) 30) in
   waiting s' = [] /\ workers s' = [WWait; WWait] /\ delivered (log s') = [(0, 8%N); (1, 5%N)] /\
   all_delivered (log s') = true /\ mu s' = 0).
Proof. split; [exact round_robin_fair | exact fair_demo_run]. Qed.
