(* C18 - "eventually delivered" when some callbacks never return (or consumers poll only once): termination under a
   fairness premise that exempts the stuck workers.  [B] = the elements whose callback blocks for ever; a worker in
   [WRun e] with e in B is stuck: it is never stepped again.  Every other worker keeps being scheduled and the clock
   passes every bound.  Then after finitely many steps every worker waits, has exited or is stuck, and if some worker
   waits, the heap is empty and every accepted element has been delivered, cancelled, dropped or discarded - the
   delivery of the later elements of a burst does not depend on the first woken worker coming back.
   Ingredients: the measure of Fair.v (stuck workers keep their rank), the accounting invariant, and the wake-up
   invariant of Wake.v (without it a waiting worker next to a non-empty heap would be a quiescent state). *)
From Coq Require Import NArith List Bool Arith Lia.
From Verif.C18_Timed Require Import Model Heap Micro Proofs Progress TaskExec Fair Wake.
Import ListNotations.
Local Arguments has_final : simpl never.

Definition stuck (B : list nat) (w : wst) : bool := match w with WRun e => memb (eid e) B | _ => false end.

Definition fairB (B : list nat) (nw : nat) (s : st) (f : sched) : Prop :=
  (forall n, internal (f n) = true) /\
  (* a stuck worker is never stepped: its callback does not return *)
  (forall n i c x, f n = LWorker i c -> nth_error (workers (run s (prefix f n))) i = Some x -> stuck B x = false) /\
  (* every worker is scheduled again and again, unless it is stuck *)
  (forall n i, i < nw -> (exists m c, n <= m /\ f m = LWorker i c) \/
                         (exists x, nth_error (workers (run s (prefix f n))) i = Some x /\ stuck B x = true)) /\
  (forall n T, exists m, n <= m /\ (T <= now (run s (prefix f m)))%N).

Lemma fair_fairB_nil nw s f : fair nw s f -> fairB [] nw s f.
Proof.
  intros (F1 & F2 & F3). repeat split; auto.
  - intros n i c x _ _. destruct x; reflexivity.
Qed.

Lemma fairB_shift B nw s f j : fairB B nw s f -> fairB B nw (run s (prefix f j)) (shiftn j f).
Proof.
  intros (F1 & F2 & F3 & F4). split; [|split; [|split]].
  - intros n. apply F1.
  - intros n i c x E H. rewrite <- run_prefix_split in H. eapply F2; eauto.
  - intros n i Hi. destruct (F3 (j + n) i Hi) as [(m & c & Hm & E)|(x & H & S)].
    + left. exists (m - j), c. split; [lia|]. unfold shiftn. replace (j + (m - j)) with m by lia. auto.
    + right. exists x. rewrite <- run_prefix_split. auto.
  - intros n T. destruct (F4 (j + n) T) as (m & Hm & E). exists (m - j). split; [lia|].
    rewrite <- run_prefix_split. replace (j + (m - j)) with m by lia. auto.
Qed.

(* as long as the measure has not decreased, no worker has changed its state *)
Lemma same_or_decrease : forall m s f, (forall n, internal (f n) = true) ->
  (exists j, j <= m /\ mu (run s (prefix f j)) < mu s) \/ workers (run s (prefix f m)) = workers s.
Proof.
  induction m; intros s f Fi; [right; reflexivity|].
  assert (Fi' : forall n, internal (shiftn 1 f n) = true) by (intros n; apply Fi).
  assert (Next : forall s1, workers s1 = workers s -> mu s1 = mu s -> step s (f 0) = s1 ->
            (exists j, j <= S m /\ mu (run s (prefix f j)) < mu s) \/ workers (run s (prefix f (S m))) = workers s).
  { intros s1 Ew Em Es. destruct (IHm s1 (shiftn 1 f) Fi') as [(j & Hj & Lt)|E].
    - left. exists (S j). split; [lia|]. simpl. rewrite Es. lia.
    - right. simpl. rewrite Es. congruence. }
  pose proof (Fi 0) as I0. destruct (f 0) as [d| | | | |w' c'] eqn:F0; try discriminate.
  - apply (Next (set_now s (now s + d)%N)); auto.
  - destruct (worker_mu s w' c') as [E|Lt].
    + apply (Next s); auto.
    + left. exists 1. split; [lia|]. simpl. rewrite F0. simpl. auto.
Qed.

Definition settled (B : list nat) (ws : list wst) : bool := forallb (fun x => negb (active x) || stuck B x) ws.

Lemma unsettled_witness B ws : settled B ws = false ->
  exists i x, nth_error ws i = Some x /\ active x = true /\ stuck B x = false.
Proof.
  induction ws as [|w r IH]; simpl; [discriminate|]. intros H. apply andb_false_iff in H as [H|H].
  - apply orb_false_iff in H as [H1 H2]. exists 0, w. repeat split; auto. destruct (active w); auto; discriminate.
  - destruct (IH H) as (i & x & A & C & D). exists (S i), x. auto.
Qed.

Lemma fairB_quiesce : forall k B w m md rc bc ls f, 0 < w ->
  let s := run (init w m md rc bc) ls in
  mu s <= k -> fairB B w s f -> exists n, settled B (workers (run s (prefix f n))) = true.
Proof.
  induction k; intros B w m md rc bc ls f Hw s Hk F.
  - destruct (settled B (workers s)) eqn:A; [exists 0; auto|].
    exfalso. destruct (unsettled_witness _ _ A) as (i & ws & H & Ac & _).
    assert (0 < ranks (workers s)).
    { pose proof (ranks_wupd _ _ _ WWait H) as R. destruct ws; simpl in *; try discriminate; lia. }
    unfold mu in Hk. lia.
  - destruct (settled B (workers s)) eqn:A; [exists 0; auto|].
    destruct (unsettled_witness _ _ A) as (i & ws & H & Ac & Ns).
    pose proof (run_pi w ls _ Hw (init_pi w m md rc bc)) as P. fold s in P. destruct P as (Len & _).
    assert (Hi : i < w). { rewrite <- Len. apply nth_error_Some. congruence. }
    assert (Dec : exists j, mu (run s (prefix f j)) < mu s).
    { destruct F as (F1 & F2 & F3 & F4).
      set (T := match ws with WParked e | WParked2 e | WChosen e => etime e | _ => 0%N end).
      destruct (F4 0 T) as (m1 & _ & HT).
      destruct (F3 m1 i Hi) as [(m2 & c & Hm & Fm)|(x & Hx & Sx)].
      - assert (HT2 : (T <= now (run s (prefix f m2)))%N).
        { replace m2 with (m1 + (m2 - m1)) by lia. rewrite run_prefix_split.
          eapply N.le_trans; [exact HT | apply run_now_mono]. }
        destruct (first_decrease m2 s f i ws c F1 H Ac Fm) as (j & _ & Lt); [|eauto].
        intros e [-> | [-> | ->]]; exact HT2.
      - destruct (same_or_decrease m1 s f F1) as [(j & _ & Lt)|E]; [eauto|].
        rewrite E, H in Hx. inversion Hx; subst x. congruence. }
    destruct Dec as (j & Lt).
    assert (E : run s (prefix f j) = run (init w m md rc bc) (ls ++ prefix f j)) by (unfold s; rewrite run_app; auto).
    destruct (IHk B w m md rc bc (ls ++ prefix f j) (shiftn j f) Hw) as (n & Hn).
    + rewrite <- E. lia.
    + rewrite <- E. apply fairB_shift. exact F.
    + exists (j + n). rewrite run_prefix_split. rewrite <- E in Hn. exact Hn.
Qed.

Lemma settled_spec B ws : settled B ws = true ->
  (forall x, In x ws -> x = WWait \/ x = WExit \/ stuck B x = true) /\ cidle ws = 0 /\ wqs ws = [].
Proof.
  unfold settled, cidle. induction ws as [|w r IH]; simpl; [repeat split; auto; tauto|].
  intros H. apply andb_true_iff in H as [H1 H2]. destruct (IH H2) as (Q1 & Q2 & Q3).
  assert (W : w = WWait \/ w = WExit \/ stuck B w = true).
  { apply orb_true_iff in H1 as [H1|H1]; auto. destruct w; simpl in *; auto; discriminate. }
  split; [|split].
  - intros x [<-|Hx]; auto.
  - rewrite cw_cons, Q2. destruct W as [->|[->|S]]; auto. destruct w; simpl in *; auto; discriminate.
  - unfold wqs in *. simpl. rewrite Q3. destruct W as [->|[->|S]]; auto. destruct w; simpl in *; auto; discriminate.
Qed.

Theorem fairB_delivery B w m md rc bc ls f : 0 < w ->
  let s := run (init w m md rc bc) ls in
  fairB B w s f ->
  exists n, let s' := run s (prefix f n) in
    (forall x, In x (workers s') -> x = WWait \/ x = WExit \/ stuck B x = true) /\
    (In WWait (workers s') -> heap s' = [] /\ waiting s' = [] /\ all_delivered (log s') = true).
Proof.
  intros Hw s F. destruct (fairB_quiesce (mu s) B w m md rc bc ls f Hw (le_n _) F) as (n & Hn). fold s in Hn.
  exists n. intros s'. fold s' in Hn.
  assert (E : s' = run (init w m md rc bc) (ls ++ prefix f n)) by (unfold s', s; rewrite run_app; auto).
  pose proof (no_lost_wakeup_run w m md rc bc (ls ++ prefix f n)) as NLI. rewrite <- E in NLI.
  pose proof (run_a (ls ++ prefix f n) _ (init_a w m md rc bc)) as I. rewrite <- E in I.
  pose proof (inv_run w m md rc bc (ls ++ prefix f n)) as J. rewrite <- E in J.
  destruct (settled_spec _ _ Hn) as (Q1 & Q2 & Q3). split; auto.
  intros Hwt.
  assert (Hh : heap s' = []).
  { destruct NLI as [L|L].
    - rewrite Q2 in L. destruct (heap s'); auto. simpl in L. lia.
    - exfalso. pose proof (in_cw_pos iswait _ _ Hwt eq_refl). unfold cwait in L. lia. }
  assert (W : waiting s' = []) by (unfold waiting; rewrite Hh, Q3; auto).
  repeat split; auto.
  unfold all_delivered. apply forallb_forall. intros ev Hev. destruct ev; auto.
  assert (Lt : e < nxt s').
  { destruct (due_of e (log s')) as [d|] eqn:D; [apply (i_due s' J e d D)|].
    exfalso. eapply in_add_due; eauto. }
  destruct (a_acc s' I e Lt) as [Fn|(x & Hx & _)]; auto. rewrite W in Hx. destruct Hx.
Qed.

(* ---------- non-vacuity of [fairB] with a really stuck worker ---------- *)

(* two workers wait, two Adds; worker 1 takes element 0 and runs its callback (for ever); worker 0 is awake *)
Definition burst2' : list label :=
  [LWorker 0 0; LWorker 1 0; LAdd 5 None; LAdd 5 None; LWorker 1 0; LTick 10; LWorker 1 0; LWorker 1 0; LWorker 1 0].

Definition zero_only (l : label) : Prop := match l with LTick _ => True | LWorker 0 _ => True | _ => False end.

Lemma sleeper0_stays : forall ls s, nth_error (workers s) 0 = Some WWait -> Forall zero_only ls ->
  workers (run s ls) = workers s.
Proof.
  induction ls as [|l r IH]; intros s H F; simpl; auto. inversion F as [|? ? Hl Hr]; subst.
  destruct l as [d| | | | |w c]; simpl in Hl; try tauto.
  - exact (IH (set_now s (now s + d)%N) H Hr).
  - destruct w; try tauto. change (workers (run (worker_step s 0 c) r) = workers s).
    unfold worker_step. rewrite H. apply IH; auto.
Qed.

Lemma prefix_all (P : label -> Prop) : forall n f, (forall k, P (f k)) -> Forall P (prefix f n).
Proof. induction n; intros f H; simpl; constructor; auto. apply IHn. intros k. apply H. Qed.

Lemma rr1_zero_only k : zero_only (round_robin 1 0 k).
Proof. unfold round_robin, zero_only. destruct (Nat.even k); auto. rewrite Nat.mod_1_r. exact I. Qed.

Lemma blocked_workers n : let s := run (init 2 0 IfOwn true true) burst2' in
  exists x, workers (run s (prefix (round_robin 1 0) n)) = [x; WRun (mkE 0 5%N None)] /\ stuck [0] x = false.
Proof.
  intros s. destruct (Nat.lt_ge_cases n 12) as [L|G].
  - do 12 (destruct n as [|n]; [eexists; split; [vm_compute; reflexivity | reflexivity]|]). lia.
  - replace n with (12 + (n - 12)) by lia. rewrite run_prefix_split.
    assert (E : workers (run s (prefix (round_robin 1 0) 12)) = [WWait; WRun (mkE 0 5%N None)]) by (vm_compute; reflexivity).
    rewrite sleeper0_stays.
    + rewrite E. eexists; split; reflexivity.
    + rewrite E. reflexivity.
    + apply prefix_all. intros k. unfold shiftn. apply rr1_zero_only.
Qed.

Lemma blocked_nonvacuous :
  (forall w s, 0 < w -> fairB [] w s (round_robin w 0)) /\
  (let s := run (init 2 0 IfOwn true true) burst2' in
   workers s = [WIdle; WRun (mkE 0 5%N None)] /\ heap s = [mkE 1 5%N None] /\ fairB [0] 2 s (round_robin 1 0)).
Proof.
  split; [intros w s Hw; apply fair_fairB_nil, round_robin_fair; auto|].
  intros s. split; [vm_compute; reflexivity|]. split; [vm_compute; reflexivity|].
  split; [|split; [|split]].
  - intros n. unfold round_robin. destruct (Nat.even n); reflexivity.
  - intros n i c x E H. pose proof (rr1_zero_only n) as Z. rewrite E in Z. simpl in Z. destruct i; [|tauto].
    destruct (blocked_workers n) as (y & Ew & Sy). fold s in Ew. rewrite Ew in H. simpl in H. inversion H; subst; auto.
  - intros n i Hi. destruct i as [|[|i]]; [| |lia].
    + left. exists (S (2 * n)), 0. split; [lia|]. unfold round_robin. rewrite Nat.even_succ, Nat.odd_mul.
      change (Nat.odd 2) with false. cbn [andb]. rewrite Nat.mod_1_r. reflexivity.
    + right. destruct (blocked_workers n) as (y & Ew & Sy). fold s in Ew. exists (WRun (mkE 0 5%N None)).
      rewrite Ew. split; reflexivity.
  - intros n T. exists (2 * (n + N.to_nat T)). split; [lia|].
    pose proof (round_robin_time 1 (n + N.to_nat T) 0 s). lia.
Qed.
