(* C18 - concrete schedules: the pinned code violates the property (D18a, D18c, D18d), the repaired code
   does not on the same schedules (regressions), the stale-identifier finding, and the step-local facts
   about the TaskExecutor identifier map. *)
From Coq Require Import NArith List Bool Arith Lia.
From Verif.C18_Timed Require Import Model.
Import ListNotations.
Open Scope N_scope.

(* ---------- D18a: re-scheduling an identifier while its callback runs (pinned wrapper) ---------- *)

Definition d18a_prefix : list label :=
  [ LAdd 0 (Some 1%nat);                          (* ExecuteAt(1, f0, due now) *)
    LWorker 0 0; LWorker 0 0; LWorker 0 0; LWorker 0 0; (* pop, select takes the timer, Poll returns, callback f0 starts *)
    LAdd 100 (Some 1%nat);                        (* ExecuteAt(1, f1, later) while f0 runs *)
    LWorker 0 0;                                  (* f0 returns: the wrapper cleans up *)
    LTCancel 1 ].                                 (* Cancel(1) *)
Definition d18a_suffix : list label :=
  [ LTick 100; LWorker 0 0; LWorker 0 0; LWorker 0 0; LWorker 0 0 ].

Definition pinned_wrapper := init 1 0 Unconditional true true.
Definition repaired := init 1 0 IfOwn true true.

(* pinned: Cancel(1) = false although task 1 of identifier 1 is pending (in the heap, untracked); it then runs *)
Lemma refuted_wrapper_pinned :
  let s := run pinned_wrapper d18a_prefix in
  hd EReject (log s) = ETCancel 1 false /\ heap s = [mkE 1 100 (Some 1%nat)] /\ tget 1 (tmap s) = None /\
  started (log (run s d18a_suffix)) = [1%nat; 0%nat].
Proof. vm_compute. repeat split; reflexivity. Qed.

(* repaired: the same schedule: Cancel(1) = true, the task is removed and never starts *)
Lemma regression_wrapper_repaired :
  let s := run repaired d18a_prefix in
  hd EReject (log s) = ETCancel 1 true /\ heap s = [] /\ dead s = [1%nat] /\
  started (log (run s d18a_suffix)) = [0%nat].
Proof. vm_compute. repeat split; reflexivity. Qed.

(* D18b: Cancel(id) while the callback of id runs *)
Definition d18b : list label := [ LAdd 0 (Some 1%nat); LWorker 0 0; LWorker 0 0; LWorker 0 0; LWorker 0 0; LTCancel 1 ].
Lemma refuted_cancel_running_pinned :
  let s := run pinned_wrapper d18b in hd EReject (log s) = ETCancel 1 true /\ started (log s) = [0%nat].
Proof. vm_compute. split; reflexivity. Qed.
Lemma regression_cancel_running_repaired :
  let s := run repaired d18b in hd EReject (log s) = ETCancel 1 false /\ started (log s) = [0%nat].
Proof. vm_compute. split; reflexivity. Qed.

(* ---------- D18c: a Cancel that completed before the select is entered loses against the timer ---------- *)

Definition d18c (choice : nat) : list label :=
  [ LAdd 5 None; LWorker 0 0 (* pop *); LCancel 0; LTick 10; LWorker 0 choice (* select: cancel and timer ready *);
    LWorker 0 0 (* the return path *) ].

Lemma refuted_cancel_late_pinned :
  let l := log (run (init 1 0 IfOwn false true) (d18c 1)) in
  l = [EDeliver 0 10; ECancel 0 false 0; EAdd 0 5 None 0] /\ cancel_honoured 0 l = false.
Proof. vm_compute. split; reflexivity. Qed.

(* repaired: whichever ready channel the select picks (the choice is used modulo 2), nothing is delivered;
   the general statement is cancel_honoured_run *)
Lemma regression_cancel_late_repaired :
  map (fun c => delivered (log (run (init 1 0 IfOwn true true) (d18c c)))) [0%nat; 1%nat; 2%nat; 3%nat] = [[]; []; []; []].
Proof. vm_compute. reflexivity. Qed.

(* the window after the select: the timer case was taken (nothing else was ready), Cancel completes, Poll returns *)
Definition cancel_in_window : list label :=
  [ LAdd 5 None; LWorker 0 0 (* pop *); LTick 10; LWorker 0 0 (* select takes the timer: WChosen *); LCancel 0; LTick 1;
    LWorker 0 0 (* re-check / return *) ].

(* without the re-check on the return path: delivered (stamp 11) after the Cancel completed (stamp 10) *)
Lemma refuted_cancel_in_window_pinned :
  let s1 := run (init 1 0 IfOwn false true) (firstn 4 cancel_in_window) in
  let l := log (run (init 1 0 IfOwn false true) cancel_in_window) in
  workers s1 = [WChosen (mkE 0 5 None)] /\
  l = [EDeliver 0 11; ECancel 0 false 10; EAdd 0 5 None 0] /\ cancel_honoured 0 l = false.
Proof. vm_compute. repeat split; reflexivity. Qed.

Lemma regression_cancel_in_window_repaired :
  let s1 := run (init 1 0 IfOwn true true) (firstn 4 cancel_in_window) in
  let s := run (init 1 0 IfOwn true true) cancel_in_window in
  workers s1 = [WChosen (mkE 0 5 None)] /\
  log s = [ESkip 0; ECancel 0 false 10; EAdd 0 5 None 0] /\ workers s = [WIdle] /\ delivered (log s) = [].
Proof. vm_compute. repeat split; reflexivity. Qed.

(* ---------- D18d: Shutdown with a non-empty heap does not wake the second waiting worker ---------- *)

Definition d18d : list label :=
  [ LWorker 0 0; LWorker 1 0;                     (* both workers wait on the condition variable *)
    LAdd 5 None;                                  (* Signal wakes worker 0 *)
    LShutdown false false;                        (* heap not empty: the pinned code does not Broadcast *)
    LWorker 0 0; LWorker 0 0; LWorker 0 0;        (* pop; ctx without flags; inner select parks *)
    LTick 10; LWorker 0 0; LWorker 0 0; LWorker 0 0; LWorker 0 0; (* timer; Poll returns; callback; returns *)
    LWorker 0 0 ].                                (* Poll: empty and shut down: the worker exits *)

(* pinned: everything is delivered, but worker 1 sleeps forever (no label can wake it: Add is refused, Shutdown is a no-op) *)
Lemma refuted_shutdown_sleeper_pinned :
  let s := run (init 2 0 IfOwn true false) d18d in
  workers s = [WExit; WWait] /\ heap s = [] /\ shut s = true /\ delivered (log s) = [(0%nat, 10)].
Proof. vm_compute. repeat split; reflexivity. Qed.

Lemma regression_shutdown_sleeper_repaired :
  let s := run (init 2 0 IfOwn true true) (d18d ++ [LWorker 1 0]) in
  workers s = [WExit; WExit] /\ delivered (log s) = [(0%nat, 10)].
Proof. vm_compute. split; reflexivity. Qed.

(* ---------- finding taskexecutor-stale-identifier: the size bound drops a task, its identifier stays ---------- *)

Definition stale : list label := [ LAdd 10 (Some 0%nat); LAdd 20 (Some 1%nat); LTCancel 1 ].

Lemma refuted_cancel_true_after_drop :
  log (run (init 0 1 IfOwn true true) stale) =
  [ETCancel 1 true; ECancel 1 false 0; EDrop 1; EAdd 1 20 (Some 1%nat) 0; EAdd 0 10 (Some 0%nat) 0].
Proof. vm_compute. reflexivity. Qed.

(* ---------- the size bound drops the element in the last array slot, not the furthest in the future ---------- *)

Lemma drop_is_last_slot :
  let s := run (init 0 3 IfOwn true true) [LAdd 50 None; LAdd 30 None; LAdd 40 None; LAdd 10 None] in
  (* array after the push of 10: [10;30;40;50]; slot 3 holds 50 here, but with [50;30;40] + 45 the slot holds 45: *)
  map etime (heap s) = [10; 30; 40] /\
  map etime (heap (run (init 0 3 IfOwn true true) [LAdd 30 None; LAdd 50 None; LAdd 60 None; LAdd 40 None])) = [30; 40; 60].
Proof. vm_compute. split; reflexivity. Qed.

Close Scope N_scope.

(* ---------- step-local facts about the identifier map (any state, repaired wrapper) ---------- *)

Lemma tget_tdel k m : tget k (tdel k m) = None.
Proof. induction m as [|[k' v] r]; simpl; auto. destruct (k' =? k) eqn:E; simpl; auto. rewrite E; auto. Qed.

Lemma tget_tset k v m : tget k (tset k v m) = Some v.
Proof. unfold tset; simpl. rewrite Nat.eqb_refl. reflexivity. Qed.

(* Cancel(id) returns true exactly when the map tracks a task for id; afterwards id is untracked and the
   removed task is marked dead *)
Lemma tcancel_result s k :
  let s' := tcancel_step s k in
  hd EReject (log s') = ETCancel k (match tget k (tmap s) with Some _ => true | None => false end) /\
  tget k (tmap s') = None /\
  (forall e, tget k (tmap s) = Some e -> In e (dead s')).
Proof.
  unfold tcancel_step. destruct (tget k (tmap s)) as [e|] eqn:E; simpl.
  - repeat split; auto. apply tget_tdel. intros e' H; inversion H; auto.
  - repeat split; auto. intros e' H; discriminate.
Qed.

Lemma queue_add_tmap s t k : tmap (fst (queue_add s t k)) = tmap s.
Proof.
  unfold queue_add. destruct (shut s); simpl; auto.
  destruct ((0 <? maxsz s) && (maxsz s <? length (hpush (heap s) (mkE (nxt s) t k)))); simpl; auto.
  destruct (hremove _ _) as [[d h']|]; simpl; auto.
Qed.

Lemma queue_add_dead s t k : dead (fst (queue_add s t k)) = dead s.
Proof.
  unfold queue_add. destruct (shut s); simpl; auto.
  destruct ((0 <? maxsz s) && (maxsz s <? length (hpush (heap s) (mkE (nxt s) t k)))); simpl; auto.
  destruct (hremove _ _) as [[d h']|]; simpl; auto.
Qed.

Lemma queue_add_id s t k : snd (queue_add s t k) = if shut s then None else Some (nxt s).
Proof. unfold queue_add. destruct (shut s); reflexivity. Qed.

(* re-scheduling replaces: after an accepted ExecuteAt(id, ..) the map tracks exactly the new task for id, and the
   previously tracked task (if any) is dead *)
Lemma add_replaces s t k : shut s = false ->
  let s' := add_step s t (Some k) in
  (exists id, tget k (tmap s') = Some id /\ (forall e, tget k (tmap s) = Some e -> e <> id -> In e (dead s'))).
Proof.
  intros Sh. unfold add_step.
  set (s1 := match tget k (tmap s) with
             | Some old => set_dead (set_tmap (cancel_elem s old) (tdel k (tmap s))) (old :: dead s)
             | None => s end).
  assert (Sh1 : shut s1 = false).
  { unfold s1. destruct (tget k (tmap s)); simpl; auto.
    unfold cancel_elem. destruct (nxt s <=? n); auto.
    destruct (index_of n (heap s)); [destruct (hremove (heap s) n0) as [[? ?]|]|]; simpl;
      destruct (memb n (closed s)); simpl; auto; destruct (wake_cancel n (workers s)) as [ws [|]]; simpl; auto. }
  pose proof (queue_add_id s1 t (Some k)) as Q. rewrite Sh1 in Q.
  pose proof (queue_add_tmap s1 t (Some k)) as T.
  pose proof (queue_add_dead s1 t (Some k)) as Dd.
  destruct (queue_add s1 t (Some k)) as [s2 o]. simpl in Q, T, Dd. subst o.
  exists (nxt s1). simpl. rewrite Nat.eqb_refl. split; auto.
  intros e He Hne. rewrite Dd. unfold s1. rewrite He. simpl. auto.
Qed.

(* repaired wrapper: the callback of a task with identifier k starts only if the map tracks exactly this task *)
Lemma start_requires_tracked s w c e k :
  mode s = IfOwn -> nth_error (workers s) w = Some (WDeliv e) -> ekey e = Some k ->
  hd EReject (log (worker_step s w c)) = EStart (eid e) -> tget k (tmap s) = Some (eid e).
Proof.
  intros Md H K. unfold worker_step. rewrite H, K, Md.
  destruct (tget k (tmap s)) as [v|]; [destruct (v =? eid e) eqn:E|]; simpl; try discriminate.
  apply Nat.eqb_eq in E. subst; auto.
Qed.
