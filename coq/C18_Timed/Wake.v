(* C18 - wake-ups ("no lost wake-up"): Queue.Add sends one Signal per call, so every queued element has its own awake
   worker on the way to heapMutex unless nobody sleeps at all.  Invariant of every reachable state, every configuration:

       length (heap s) <= #WIdle (workers s)   \/   #WWait (workers s) = 0.

   Consequences: an element in the heap is never stranded next to a sleeping worker (some worker is in WIdle and its
   next step pops); a burst of j Adds while k >= j workers wait wakes j distinct workers, so the delivery of the later
   elements never depends on the first woken worker coming back (one-shot consumer, blocking callback).
   Refuted variant ([queue_add_lazy]: Signal only when the heap was empty before the push): two waiting workers, two
   Adds back to back, the woken worker runs a callback that does not return - the second element stays in the heap for
   ever while the second worker sleeps. *)
From Coq Require Import NArith List Bool Arith Lia.
From Verif.C18_Timed Require Import Model Heap Micro Progress.
Import ListNotations.

Definition isidle (w : wst) : bool := match w with WIdle => true | _ => false end.
Definition iswait (w : wst) : bool := match w with WWait => true | _ => false end.
Definition cw (p : wst -> bool) (ws : list wst) : nat := length (filter p ws).
Definition cidle := cw isidle.
Definition cwait := cw iswait.

Definition NL (h : list elem) (ws : list wst) : Prop := length h <= cidle ws \/ cwait ws = 0.
Definition NLs (s : st) : Prop := NL (heap s) (workers s).

Lemma cw_cons p x l : cw p (x :: l) = b2n (p x) + cw p l.
Proof. unfold cw. simpl. destruct (p x); reflexivity. Qed.

Lemma cw_wupd p : forall ws i old new, nth_error ws i = Some old ->
  cw p (wupd ws i new) + b2n (p old) = cw p ws + b2n (p new).
Proof.
  induction ws as [|a r IH]; intros [|i] old new H; simpl in *; try discriminate.
  - inversion H; subst. rewrite !cw_cons. lia.
  - rewrite !cw_cons. specialize (IH i old new H). lia.
Qed.

(* a worker that is neither idle nor waiting moves to a state that is not waiting: the invariant is kept *)
Lemma nl_wupd h ws i old new : nth_error ws i = Some old ->
  isidle old = false -> iswait old = false -> iswait new = false -> NL h ws -> NL h (wupd ws i new).
Proof.
  unfold NL. intros H I W W' [A|B]; unfold cidle, cwait in *.
  - left. pose proof (cw_wupd isidle ws i old new H) as E. rewrite I in E. simpl in E. lia.
  - right. pose proof (cw_wupd iswait ws i old new H) as E. rewrite W, W' in E. simpl in E. lia.
Qed.

Lemma active_notwait x : active x = true \/ x = WExit -> iswait x = false.
Proof. intros [H| ->]; [destruct x; simpl in *; auto; discriminate | reflexivity]. Qed.

Lemma nl_fin s s1 i old new :
  NLs s -> nth_error (workers s) i = Some old -> heap s1 = heap s -> workers s1 = workers s ->
  isidle old = false -> iswait old = false -> (active new = true \/ new = WExit) ->
  NLs (set_workers s1 (wupd (workers s1) i new)).
Proof.
  intros P H Eh Ew I W N. unfold NLs in *. simpl. rewrite Eh, Ew.
  eapply nl_wupd; eauto. apply active_notwait; auto.
Qed.

Lemma hpop_length h e h' : hpop h = Some (e, h') -> length h = S (length h').
Proof.
  intros H. pose proof (hpop_cnt (fun _ => true) _ _ _ H) as C. unfold cnt in C.
  revert C. replace (filter (fun _ : elem => true) h) with h by (clear; induction h; simpl; congruence).
  replace (filter (fun _ : elem => true) h') with h' by (clear; induction h'; simpl; congruence).
  simpl. lia.
Qed.

(* ---------- worker steps ---------- *)

Lemma worker_nl s i c : NLs s -> NLs (worker_step s i c).
Proof.
  intros P. unfold worker_step. destruct (nth_error (workers s) i) as [ws|] eqn:H; auto.
  destruct ws; auto.
  - (* WIdle *)
    destruct (hpop (heap s)) as [[e h']|] eqn:Hp; simpl.
    + apply hpop_length in Hp. unfold NLs, NL in *. simpl. destruct P as [A|B]; unfold cidle, cwait in *.
      * left. pose proof (cw_wupd isidle _ _ _ (WPopped e) H) as E. simpl in E. lia.
      * right. pose proof (cw_wupd iswait _ _ _ (WPopped e) H) as E. simpl in E. lia.
    + apply hpop_none in Hp. unfold NLs, NL. simpl. rewrite Hp. left. simpl. lia.
  - (* WPopped *)
    destruct (ready_outer s e) as [|b r] eqn:R.
    + eapply nl_fin; eauto.
    + rewrite <- R. pose proof (nth_mod_in (ready_outer s e) c) as I.
      destruct (ready_outer_sound s e _ (I ltac:(rewrite R; discriminate))) as [Hc _].
      destruct (take_proj s e _ Hc) as (A & B & C & D & E). eapply nl_fin; eauto. destruct E as [E|(_ & _ & E)]; auto.
  - (* WParked *)
    destruct (is_due s e); auto. eapply nl_fin; eauto.
  - (* WPopped2 *)
    destruct (ready_inner s e) as [|b r] eqn:R.
    + eapply nl_fin; eauto.
    + rewrite <- R. pose proof (nth_mod_in (ready_inner s e) c) as I.
      destruct (ready_inner_sound s e _ (I ltac:(rewrite R; discriminate))) as [Hc _].
      destruct (take_proj s e (nth (c mod length (ready_inner s e)) (ready_inner s e) BTim)) as (A & B & C & D & E);
        [intros; congruence|]. eapply nl_fin; eauto. destruct E as [E|(_ & _ & E)]; auto.
  - (* WParked2 *)
    destruct (is_due s e); auto. eapply nl_fin; eauto.
  - (* WChosen *)
    destruct (is_due s e || (shut s && fignore s)); auto.
    destruct (deliver_proj s e) as (A & B & C & D & E). eapply nl_fin; eauto.
  - (* WDeliv *)
    destruct (ekey e) as [k|]; [destruct (mode s)|]; simpl.
    + eapply (nl_fin s (emit s _)); eauto.
    + destruct (tget k (tmap s)) as [v|]; [destruct (v =? eid e)|]; simpl.
      * eapply (nl_fin s (emit (set_tmap s _) _)); eauto.
      * eapply (nl_fin s (emit s _)); eauto.
      * eapply (nl_fin s (emit s _)); eauto.
    + eapply (nl_fin s (emit s _)); eauto.
  - (* WRun *)
    destruct (ekey e) as [k|]; [destruct (mode s)|]; simpl.
    + eapply (nl_fin s (emit (set_tmap s _) _)); eauto.
    + eapply (nl_fin s (emit s _)); eauto.
    + eapply (nl_fin s (emit s _)); eauto.
Qed.

(* ---------- Cancel: the heap shrinks or stays, a parked worker becomes idle ---------- *)

Lemma wake_cancel_cw e : forall ws,
  cidle ws <= cidle (fst (wake_cancel e ws)) /\ cwait (fst (wake_cancel e ws)) = cwait ws.
Proof.
  unfold cidle, cwait. induction ws as [|w r IH]; simpl; auto.
  destruct (wake_cancel e r) as [r' b]. simpl in IH. destruct IH as [I W].
  destruct w; simpl; try (destruct (eid e0 =? e)); simpl; rewrite ?cw_cons; simpl; lia.
Qed.

Lemma nl_mono h h' ws ws' : length h' <= length h -> cidle ws <= cidle ws' -> cwait ws' = cwait ws ->
  NL h ws -> NL h' ws'.
Proof. unfold NL. intros A B C [D|D]; [left | right]; lia. Qed.

Lemma cancel_nl s e : NLs s -> NLs (cancel_elem s e).
Proof.
  intros P. unfold cancel_elem. destruct (nxt s <=? e); auto.
  set (p1 := match index_of e (heap s) with
             | Some i => match hremove (heap s) i with Some (_, h') => (set_heap s h', true) | None => (s, false) end
             | None => (s, false) end).
  assert (S1 : workers (fst p1) = workers s /\ length (heap (fst p1)) <= length (heap s)).
  { unfold p1. destruct (index_of e (heap s)) eqn:Ix; [destruct (hremove (heap s) n) as [[x h']|] eqn:R|]; simpl; auto.
    destruct (hremove_spec (fun _ => true) _ _ _ _ R) as (_ & _ & _ & L). split; auto. lia. }
  destruct p1 as [s1 removed]. simpl in S1. destruct S1 as (Ew & Eh).
  assert (P1 : NLs s1). { unfold NLs in *. rewrite Ew. apply (nl_mono (heap s) _ (workers s) _ Eh (le_n _) eq_refl P). }
  simpl. destruct (memb e (closed s1)); [exact P1|].
  destruct (wake_cancel e (workers s1)) as [ws woke] eqn:W.
  pose proof (wake_cancel_cw e (workers s1)) as (I & Wt). rewrite W in *. simpl in *.
  assert (P2 : NL (heap s1) ws) by (apply (nl_mono (heap s1) _ (workers s1) _ (le_n _) I Wt P1)).
  destruct woke; exact P2.
Qed.

(* ---------- Add: one Signal per call ---------- *)

Lemma signal_cw : forall ws,
  (cwait ws = 0 -> signal ws = ws) /\
  (0 < cwait ws -> cidle (signal ws) = S (cidle ws) /\ S (cwait (signal ws)) = cwait ws).
Proof.
  unfold cidle, cwait. induction ws as [|w r [IH1 IH2]].
  - split; auto. unfold cw; simpl; lia.
  - assert (G : forall x, iswait x = false -> signal (x :: r) = x :: signal r) by (intros x; destruct x; simpl; auto; discriminate).
    destruct (iswait w) eqn:Ew.
    + destruct w; try discriminate. change (signal (WWait :: r)) with (WIdle :: r).
      rewrite !cw_cons. simpl. split; intros; lia.
    + rewrite (G w Ew), !cw_cons, Ew. simpl. split; intros Z.
      * f_equal. apply IH1. lia.
      * destruct (IH2 ltac:(lia)). lia.
Qed.

(* the effect of queue_add on the counts *)
Lemma queue_add_cw s t k : shut s = false ->
  let s' := fst (queue_add s t k) in
  length (heap s') <= S (length (heap s)) /\
  ((cwait (workers s) = 0 /\ workers s' = workers s) \/
   (0 < cwait (workers s) /\ cidle (workers s') = S (cidle (workers s)) /\ S (cwait (workers s')) = cwait (workers s))).
Proof.
  intros Sh. unfold queue_add. rewrite Sh.
  set (s1 := emit (set_nxt (set_heap s (hpush (heap s) (mkE (nxt s) t k))) (S (nxt s))) (EAdd (nxt s) t k (now s))).
  set (s2 := if (0 <? maxsz s1) && (maxsz s1 <? length (heap s1))
             then match hremove (heap s1) (length (heap s1) - 1) with
                  | Some (d, h') => emit (set_heap s1 h') (EDrop (eid d)) | None => s1 end
             else s1).
  assert (E : workers s2 = workers s /\ length (heap s2) <= S (length (heap s))).
  { assert (L1 : length (heap s1) = S (length (heap s))) by (unfold s1; simpl; apply hpush_length).
    unfold s2. destruct ((0 <? maxsz s1) && (maxsz s1 <? length (heap s1))); [|split; [reflexivity | lia]].
    destruct (hremove (heap s1) (length (heap s1) - 1)) as [[d h']|] eqn:R; [|split; [reflexivity | lia]].
    destruct (hremove_spec (fun _ => true) _ _ _ _ R) as (_ & _ & _ & L). split; [reflexivity | simpl; lia]. }
  destruct E as (Ew & Eh). clearbody s2. simpl. rewrite Ew. split; auto.
  destruct (signal_cw (workers s)) as [A B].
  destruct (cwait (workers s)) eqn:C; [left; split; auto | right; split; [lia | apply B; lia]].
Qed.

Lemma queue_add_nl s t k : NLs s -> NLs (fst (queue_add s t k)).
Proof.
  intros P. destruct (shut s) eqn:Sh; [unfold queue_add; rewrite Sh; exact P|].
  destruct (queue_add_cw s t k Sh) as (L & [(Z & E)|(Z & I & W)]); unfold NLs, NL in *.
  - right. rewrite E. exact Z.
  - left. destruct P as [P|P]; lia.
Qed.

Lemma nls_ext s s' : heap s' = heap s -> workers s' = workers s -> NLs s -> NLs s'.
Proof. unfold NLs. intros -> ->. auto. Qed.

Lemma add_nl s t k : NLs s -> NLs (add_step s t k).
Proof.
  intros P. unfold add_step. destruct k as [key|]; [|apply queue_add_nl; auto].
  set (s1 := match tget key (tmap s) with
             | Some old => set_dead (set_tmap (cancel_elem s old) (tdel key (tmap s))) (old :: dead s)
             | None => s end).
  assert (P1 : NLs s1).
  { unfold s1. destruct (tget key (tmap s)); auto. eapply nls_ext; [| |apply (cancel_nl s n P)]; reflexivity. }
  pose proof (queue_add_nl s1 t (Some key) P1) as Q.
  destruct (queue_add s1 t (Some key)) as [s2 [id|]]; simpl in Q; auto.
Qed.

Lemma tcancel_nl s k : NLs s -> NLs (tcancel_step s k).
Proof.
  intros P. unfold tcancel_step. destruct (tget k (tmap s)) as [e|].
  - eapply nls_ext; [| |apply (cancel_nl s e P)]; reflexivity.
  - eapply nls_ext; [| |exact P]; reflexivity.
Qed.

(* ---------- Shutdown ---------- *)

Lemma wake_ctx_at_cw s w :
  heap (wake_ctx_at s w) = heap s /\ cidle (workers (wake_ctx_at s w)) = cidle (workers s) /\
  cwait (workers (wake_ctx_at s w)) = cwait (workers s).
Proof.
  unfold wake_ctx_at. destruct (nth_error (workers s) w) as [ws|] eqn:H; auto.
  destruct ws; auto.
  destruct (ctx_proj s e) as (A & B & _ & _ & E). simpl. rewrite A, B. split; auto.
  assert (N : isidle (snd (ctx_branch s e)) = false /\ iswait (snd (ctx_branch s e)) = false).
  { clear. unfold ctx_branch. destruct (fcancel s); [auto|]. destruct (fignore s); auto. }
  destruct N as [N1 N2]. unfold cidle, cwait.
  pose proof (cw_wupd isidle _ _ _ (snd (ctx_branch s e)) H) as E1.
  pose proof (cw_wupd iswait _ _ _ (snd (ctx_branch s e)) H) as E2.
  rewrite N1 in E1. rewrite N2 in E2. simpl in *. lia.
Qed.

Lemma wake_ctx_fold_cw l : forall s,
  heap (fold_left wake_ctx_at l s) = heap s /\ cidle (workers (fold_left wake_ctx_at l s)) = cidle (workers s) /\
  cwait (workers (fold_left wake_ctx_at l s)) = cwait (workers s).
Proof.
  induction l as [|a l IH]; intros s; simpl; auto.
  destruct (wake_ctx_at_cw s a) as (A & B & C). destruct (IH (wake_ctx_at s a)) as (A' & B' & C').
  repeat split; congruence.
Qed.

Lemma broadcast_cw ws : cwait (broadcast ws) = 0.
Proof.
  unfold cwait, broadcast. induction ws as [|w r IH]; simpl; auto.
  rewrite cw_cons, IH. destruct w; reflexivity.
Qed.

Lemma shutdown_nl s fc fi : NLs s -> NLs (shutdown_step s fc fi).
Proof.
  intros P. unfold shutdown_step. destruct (shut s); auto.
  set (s1 := emit (set_shut s fc fi) (EShutdown fc fi (now s))).
  destruct (wake_ctx_fold_cw (seq 0 (length (workers s1))) s1) as (Eh & Ei & Ew).
  fold (wake_ctx s1) in *. set (s3 := wake_ctx s1) in *. simpl in Eh, Ei, Ew.
  assert (P3 : NLs s3). { unfold NLs, NL in *. rewrite Eh, Ei, Ew. exact P. }
  destruct (heap s3) as [|a r] eqn:Hh.
  - unfold NLs, NL. simpl. right. apply broadcast_cw.
  - set (s4 := if fc then set_heap (discard_all s3 (a :: r)) [] else s3).
    destruct (bcast s4).
    + unfold NLs, NL. simpl. right. apply broadcast_cw.
    + unfold s4. destruct fc; [|exact P3]. unfold NLs, NL. simpl. left. lia.
Qed.

(* ---------- all labels, all schedules ---------- *)

Lemma step_nl s l : NLs s -> NLs (step s l).
Proof.
  intros P. destruct l; simpl.
  - eapply nls_ext; [| |exact P]; reflexivity.
  - apply add_nl; auto.
  - apply cancel_nl; auto.
  - apply tcancel_nl; auto.
  - apply shutdown_nl; auto.
  - apply worker_nl; auto.
Qed.

Lemma run_nl ls : forall s, NLs s -> NLs (run s ls).
Proof. induction ls; intros s P; simpl; auto. apply IHls. apply step_nl; auto. Qed.

Theorem no_lost_wakeup_run w m md rc bc ls : NLs (run (init w m md rc bc) ls).
Proof. apply run_nl. unfold NLs, NL, init. simpl. left. lia. Qed.

(* an element in the heap is never stranded next to a sleeping worker: some worker is awake in front of heapMutex and
   its next step pops the head, whatever the other workers do (or do not do) *)
Lemma cw_pos_nth p : forall ws, 0 < cw p ws -> exists i x, nth_error ws i = Some x /\ p x = true.
Proof.
  induction ws as [|w r IH]; [unfold cw; simpl; lia|]. rewrite cw_cons. destruct (p w) eqn:E.
  - intros _. exists 0, w. auto.
  - simpl. intros H. destruct (IH H) as (i & x & A & B). exists (S i), x. auto.
Qed.

Lemma in_cw_pos p : forall ws x, In x ws -> p x = true -> 0 < cw p ws.
Proof.
  induction ws as [|w r IH]; simpl; [tauto|]. intros x [->|H] E; rewrite cw_cons.
  - rewrite E. simpl. lia.
  - specialize (IH x H E). lia.
Qed.

Theorem never_stranded_run w m md rc bc ls :
  let s := run (init w m md rc bc) ls in
  heap s <> [] -> In WWait (workers s) ->
  exists i, nth_error (workers s) i = Some WIdle /\
    forall c, exists e h', hpop (heap s) = Some (e, h') /\
      heap (step s (LWorker i c)) = h' /\ nth_error (workers (step s (LWorker i c))) i = Some (WPopped e).
Proof.
  intros s Hh Hw. pose proof (no_lost_wakeup_run w m md rc bc ls) as P. fold s in P.
  destruct P as [P|P].
  - assert (0 < cidle (workers s)) by (destruct (heap s); [congruence | simpl in P; lia]).
    destruct (cw_pos_nth isidle _ H) as (i & x & A & B). destruct x; try discriminate.
    exists i. split; auto. intros c. simpl. unfold worker_step. rewrite A.
    destruct (hpop (heap s)) as [[e h']|] eqn:Hp; [|apply hpop_none in Hp; congruence].
    exists e, h'. split; auto. simpl. split; auto.
    clear -A. revert i A. induction (workers s) as [|a r IH]; intros [|i] A; simpl in *; try discriminate; auto.
  - exfalso. pose proof (in_cw_pos iswait _ _ Hw eq_refl). unfold cwait in P. lia.
Qed.

Lemma queue_add_shut s t k : shut (fst (queue_add s t k)) = shut s.
Proof.
  unfold queue_add. destruct (shut s) eqn:Sh; [simpl; auto|]. simpl.
  destruct (_ && _); [|auto]. destruct (hremove _ _) as [[d h']|]; auto.
Qed.

(* a burst: j Adds (any times, any identifiers) while at least j workers wait wake j distinct workers - for ANY state *)
Lemma add_step_cw s t k : shut s = false -> 0 < cwait (workers s) ->
  S (cidle (workers s)) <= cidle (workers (add_step s t k)) /\ S (cwait (workers (add_step s t k))) = cwait (workers s) /\
  shut (add_step s t k) = false.
Proof.
  intros Sh Z. unfold add_step. destruct k as [key|].
  - set (s1 := match tget key (tmap s) with
               | Some old => set_dead (set_tmap (cancel_elem s old) (tdel key (tmap s))) (old :: dead s)
               | None => s end).
    assert (E : cidle (workers s) <= cidle (workers s1) /\ cwait (workers s1) = cwait (workers s) /\ shut s1 = false).
    { unfold s1. destruct (tget key (tmap s)) as [old|]; [|auto]. simpl.
      unfold cancel_elem. destruct (nxt s <=? old); [auto|].
      set (p1 := match index_of old (heap s) with
                 | Some i => match hremove (heap s) i with Some (_, h') => (set_heap s h', true) | None => (s, false) end
                 | None => (s, false) end).
      assert (S1 : workers (fst p1) = workers s /\ shut (fst p1) = shut s).
      { unfold p1. destruct (index_of old (heap s)); [destruct (hremove (heap s) n) as [[x h']|]|]; simpl; auto. }
      destruct p1 as [s1' removed]. simpl in S1. destruct S1 as (Ew & Es). simpl.
      destruct (memb old (closed s1')); [simpl; rewrite Ew, Es; auto|].
      destruct (wake_cancel old (workers s1')) as [ws woke] eqn:W.
      pose proof (wake_cancel_cw old (workers s1')) as (I & Wt). rewrite W in *. simpl in *.
      destruct woke; simpl; rewrite <- Ew, Es; auto. }
    destruct E as (E1 & E2 & E3).
    destruct (queue_add_cw s1 t (Some key) E3) as (_ & [(Z' & _)|(_ & I & W)]); [lia|].
    assert (Sh' : shut (fst (queue_add s1 t (Some key))) = false) by (rewrite queue_add_shut; auto).
    destruct (queue_add s1 t (Some key)) as [s2 [id|]]; simpl in *; repeat split; auto; lia.
  - destruct (queue_add_cw s t None Sh) as (_ & [(Z' & _)|(_ & I & W)]); [lia|].
    repeat split; try lia. rewrite queue_add_shut; auto.
Qed.

Theorem burst_wakes : forall (adds : list (N * option nat)) s,
  shut s = false -> length adds <= cwait (workers s) ->
  let s' := run s (map (fun a => LAdd (fst a) (snd a)) adds) in
  cidle (workers s) + length adds <= cidle (workers s') /\ cwait (workers s') + length adds = cwait (workers s).
Proof.
  induction adds as [|[t k] r IH]; intros s Sh L; simpl in *; [lia|].
  destruct (add_step_cw s t k Sh ltac:(lia)) as (A & B & C).
  destruct (IH (add_step s t k) C ltac:(lia)) as (A' & B'). lia.
Qed.

(* ---------- refuted variant: Signal only when the heap was empty before the push ---------- *)

(* queue_add changes the workers only through its final Signal: the variant takes it back when the heap was not empty *)
Definition queue_add_lazy (s : st) (t : N) (k : option nat) : st * option nat :=
  let p := queue_add s t k in
  match heap s with
  | [] => p
  | _ => (set_workers (fst p) (workers s), snd p)
  end.

Definition step_lazy (s : st) (l : label) : st :=
  match l with
  | LAdd t None => fst (queue_add_lazy s t None)
  | _ => step s l
  end.
Definition run_lazy (s : st) (ls : list label) : st := fold_left step_lazy ls s.

(* two workers wait; two Adds back to back (the woken worker has not popped yet); worker 0 pops element 0, its time
   comes, Poll returns, the callback starts - and does not return (or: the consumer polls only once) *)
Definition burst2 : list label :=
  [LWorker 0 0; LWorker 1 0; LAdd 5 None; LAdd 5 None; LWorker 0 0; LTick 10; LWorker 0 0; LWorker 0 0; LWorker 0 0].

(* from then on only the clock and worker 1 move *)
Definition others_only (l : label) : Prop := match l with LTick _ => True | LWorker 1 _ => True | _ => False end.

Lemma lazy_sleeper_stays : forall ls s, nth_error (workers s) 1 = Some WWait -> Forall others_only ls ->
  heap (run_lazy s ls) = heap s /\ workers (run_lazy s ls) = workers s /\ log (run_lazy s ls) = log s.
Proof.
  induction ls as [|l r IH]; intros s H F; simpl; auto. inversion F as [|? ? Hl Hr]; subst.
  destruct l as [d| | | | |w c]; simpl in Hl; try tauto.
  - destruct (IH (set_now s (now s + d)%N) H Hr) as (A & B & C). simpl. auto.
  - destruct w as [|[|w]]; try tauto. simpl. unfold worker_step. rewrite H. apply IH; auto.
Qed.

Lemma refuted_signal_only_when_empty :
  let s := run_lazy (init 2 0 IfOwn true true) burst2 in
  heap s = [mkE 1 5%N None] /\ workers s = [WRun (mkE 0 5%N None); WWait] /\ shut s = false /\
  all_delivered (log s) = false /\
  forall ls, Forall others_only ls ->
    heap (run_lazy s ls) = [mkE 1 5%N None] /\ delivered (log (run_lazy s ls)) = [(0, 10%N)] /\
    all_delivered (log (run_lazy s ls)) = false.
Proof.
  set (s := run_lazy (init 2 0 IfOwn true true) burst2).
  assert (E : heap s = [mkE 1 5%N None] /\ workers s = [WRun (mkE 0 5%N None); WWait] /\ shut s = false /\
              all_delivered (log s) = false /\ delivered (log s) = [(0, 10%N)]) by (vm_compute; repeat split; reflexivity).
  destruct E as (A & B & C & D & E). split; [auto|]. split; [auto|]. split; [auto|]. split; [auto|].
  intros ls F. destruct (lazy_sleeper_stays ls s ltac:(rewrite B; reflexivity) F) as (A' & B' & C').
  rewrite A', C'. auto.
Qed.

(* the same schedule on the model of the code (one Signal per Add): worker 1 is awake and delivers element 1 *)
Lemma regression_burst2 :
  let s := run (init 2 0 IfOwn true true) burst2 in
  workers s = [WRun (mkE 0 5%N None); WIdle] /\
  (let s' := run s [LWorker 1 0; LWorker 1 0; LWorker 1 0; LWorker 1 0] in
   Forall others_only [LWorker 1 0; LWorker 1 0; LWorker 1 0; LWorker 1 0] /\
   heap s' = [] /\ delivered (log s') = [(1, 10%N); (0, 10%N)] /\ all_delivered (log s') = true).
Proof. vm_compute. repeat split; try reflexivity; repeat constructor. Qed.
