(* C18 - the atomicity assumption behind the TaskExecutor steps of the model.
   [add_step] (ExecuteAt(id)), [tcancel_step] (Cancel(id)) and the wrapper's clean-up (the WDeliv step) are single
   steps because the code holds queuedElementsMutex across the whole read-modify-write of queuedElements and of the
   queue.  This file shows that the assumption is needed: TaskExecutor.Cancel cut into the three pieces a narrowed
   lock would expose (look up the identifier / Cancel() the element / Delete the identifier), with another goroutine's
   atomic step in between, leaves states that no schedule of atomic steps reaches, and every TaskExecutor clause of
   the property fails there.  The correspondence check ties the assumption to the code (harness family "race"). *)
From Coq Require Import NArith List Bool Arith.
From Verif.C18_Timed Require Import Model TaskExec.
Import ListNotations.

(* the three pieces of TaskExecutor.Cancel(k) that found element e *)
Definition tc_lookup (s : st) (k : nat) : option nat := tget k (tmap s).
Definition tc_cancel (s : st) (e : nat) : st := cancel_elem s e.
Definition tc_delete (s : st) (k e : nat) : st :=
  emit (set_dead (set_tmap s (tdel k (tmap s))) (e :: dead s)) (ETCancel k true).

(* with nothing in between they are the atomic step of the model *)
Lemma split_cancel_seq s k :
  tcancel_step s k = match tc_lookup s k with
                     | None => emit s (ETCancel k false)
                     | Some e => tc_delete (tc_cancel s e) k e
                     end.
Proof. unfold tcancel_step, tc_lookup, tc_delete, tc_cancel. destruct (tget k (tmap s)); reflexivity. Qed.

Open Scope N_scope.
(* task 0 of identifier 1 is pending *)
Definition split_s1 : st := run (init 1 0 IfOwn true true) [LAdd 100 (Some 1%nat)].
(* goroutine A: Cancel(1) has looked up task 0.  Goroutine B: ExecuteAt(1, ..) runs to completion (task 1 replaces task 0) *)
Definition split_s2 : st := step split_s1 (LAdd 200 (Some 1%nat)).
(* goroutine A continues: Cancel() of task 0, Delete(1), returns true *)
Definition split_s3 : st := tc_delete (tc_cancel split_s2 0) 1 0.
(* the time of task 1 passes, the worker polls it and runs the wrapper *)
Definition split_rest : list label := [LTick 300; LWorker 0 0; LWorker 0 0; LWorker 0 0; LWorker 0 0].
Close Scope N_scope.

Fixpoint count_tcancel_true (k : nat) (l : list ev) : nat :=
  match l with
  | [] => 0
  | ETCancel k' true :: r => (if k' =? k then 1 else 0) + count_tcancel_true k r
  | _ :: r => count_tcancel_true k r
  end.

(* Cancel(1) || ExecuteAt(1): the re-scheduled task 1 is pending (queued, not dead) but untracked; Cancel(1) reported
   true; a later Cancel(1) returns false although a pending task exists; the task stays in the queue and when its time
   comes the wrapper skips it: it never runs, although no Cancel took it and no ExecuteAt replaced it. *)
Lemma refuted_split_cancel :
  tc_lookup split_s1 1 = Some 0 /\
  pending_task split_s2 1 1 /\
  hd EReject (log split_s3) = ETCancel 1 true /\
  pending_task split_s3 1 1 /\ tget 1 (tmap split_s3) = None /\
  heap split_s3 = [mkE 1 200%N (Some 1)] /\ dead split_s3 = [0; 0] /\
  hd EReject (log (step split_s3 (LTCancel 1))) = ETCancel 1 false /\
  (let s4 := run split_s3 split_rest in
   started (log s4) = [] /\ hd EReject (log s4) = ESkipRun 1 /\ heap s4 = [] /\ workers s4 = [WIdle]) /\
  ~ TInv true split_s3.
Proof.
  split; [vm_compute; reflexivity|].
  split; [apply (pending_of_waiting _ 1 (mkE 1 200%N (Some 1))); vm_compute; auto|].
  split; [vm_compute; reflexivity|].
  assert (P : pending_task split_s3 1 1) by (apply (pending_of_waiting _ 1 (mkE 1 200%N (Some 1))); vm_compute; auto).
  split; [exact P|].
  split; [vm_compute; reflexivity|].
  split; [vm_compute; reflexivity|].
  split; [vm_compute; reflexivity|].
  split; [vm_compute; reflexivity|].
  split; [vm_compute; repeat split; reflexivity|].
  intros I. apply (tracked_iff_pending split_s3 1 1 I) in P. vm_compute in P. discriminate.
Qed.

(* Cancel(1) || Cancel(1): both look up task 0 before either deletes the identifier; both return true although only
   one task was ever scheduled *)
Definition split_two : st := tc_delete (tc_cancel (tc_delete (tc_cancel split_s1 0) 1 0) 0) 1 0.

Lemma refuted_split_cancel_twice :
  tc_lookup split_s1 1 = Some 0 /\ nxt split_two = 1 /\ count_tcancel_true 1 (log split_two) = 2 /\
  (* the atomic steps: the second Cancel(1) returns false *)
  count_tcancel_true 1 (log (run split_s1 [LTCancel 1; LTCancel 1])) = 1.
Proof. vm_compute. repeat split; reflexivity. Qed.
