(* C18 - the window between a select of Poll and the return of the value (worker state WChosen).
   1. [chosen_ok_run]: in every reachable state the guard of the WChosen step of the model is true (a worker is in
      WChosen e only after a timer case - e is due and stays due - or on the IgnorePendingTimeouts path - the flags
      stay), so that step is exactly "re-check the cancel channel, then return the value or continue".
   2. [cancel_in_window_run]: for ALL schedules that bring a worker into the window, a Cancel() that completes there
      leaves the worker in the window (nobody is woken), its next step is the skip, and no continuation of the
      schedule ever delivers the element.  The same for a TaskExecutor.Cancel(id) / re-schedule of the identifier. *)
From Coq Require Import NArith List Bool Arith Lia Relations.
From Verif.C18_Timed Require Import Model Heap Micro Proofs.
Import ListNotations.

Definition G (n : N) (sh fi : bool) (w : wst) : Prop :=
  match w with WChosen e => N.leb (etime e) n = true \/ (sh = true /\ fi = true) | _ => True end.
Definition CI (s : st) : Prop := Forall (G (now s) (shut s) (fignore s)) (workers s).

Definition chosen_ok (s : st) : Prop :=
  forall i e, nth_error (workers s) i = Some (WChosen e) -> is_due s e || (shut s && fignore s) = true.

Lemma G_mono n sh fi n' sh' fi' w :
  G n sh fi w -> (n <= n')%N -> (sh = true -> fi = true -> sh' = true /\ fi' = true) -> G n' sh' fi' w.
Proof.
  destruct w; simpl; auto. intros [H|[H1 H2]] L F; [left | right; auto].
  apply N.leb_le in H. apply N.leb_le. lia.
Qed.

Lemma forall_wupd (P : wst -> Prop) ws : forall i x, Forall P ws -> P x -> Forall P (wupd ws i x).
Proof.
  induction ws as [|a r IH]; intros [|i] x H Px; simpl; auto;
    pose proof (Forall_inv H) as Ha; pose proof (Forall_inv_tail H) as Hr; constructor; auto.
Qed.

Lemma forall_wake_cancel (P : wst -> Prop) e : P WIdle -> forall ws, Forall P ws -> Forall P (fst (wake_cancel e ws)).
Proof.
  intros Pi. induction ws as [|w r IH]; simpl; intros H; auto.
  pose proof (Forall_inv H) as Hw. pose proof (Forall_inv_tail H) as Hr. specialize (IH Hr).
  destruct (wake_cancel e r) as [r' b]. simpl in IH.
  destruct w; simpl; try (constructor; auto; fail); destruct (eid e0 =? e); simpl; constructor; auto.
Qed.

Lemma forall_signal (P : wst -> Prop) : P WIdle -> forall ws, Forall P ws -> Forall P (signal ws).
Proof.
  intros Pi. induction ws as [|w r IH]; simpl; intros H; auto.
  pose proof (Forall_inv H) as Hw. pose proof (Forall_inv_tail H) as Hr.
  destruct w; constructor; auto.
Qed.

Lemma forall_broadcast (P : wst -> Prop) : P WIdle -> forall ws, Forall P ws -> Forall P (broadcast ws).
Proof.
  intros Pi. induction ws as [|w r IH]; simpl; intros H; auto.
  pose proof (Forall_inv H) as Hw. pose proof (Forall_inv_tail H) as Hr.
  destruct w; constructor; auto.
Qed.

Lemma G_idle n sh fi : G n sh fi WIdle. Proof. exact I. Qed.

(* a step that keeps clock and flags and whose workers satisfy G *)
Record same (s s' : st) : Prop := { sm_now : now s' = now s; sm_shut : shut s' = shut s; sm_fi : fignore s' = fignore s }.

Lemma same_refl s : same s s. Proof. constructor; auto. Qed.
Lemma same_trans a b c : same a b -> same b c -> same a c.
Proof. intros [A1 A2 A3] [B1 B2 B3]. constructor; congruence. Qed.

Lemma ci_same s s' : same s s' -> Forall (G (now s) (shut s) (fignore s)) (workers s') -> CI s'.
Proof. intros [A B C] H. unfold CI. rewrite A, B, C. auto. Qed.

Lemma cancel_ci s e : CI s -> CI (cancel_elem s e) /\ same s (cancel_elem s e).
Proof.
  intros I. unfold cancel_elem. destruct (nxt s <=? e); [split; [auto | apply same_refl]|].
  pose proof (forall_wake_cancel _ e (G_idle (now s) (shut s) (fignore s)) (workers s) I) as W.
  destruct (index_of e (heap s)) as [i|]; [destruct (hremove (heap s) i) as [[x h']|]|]; simpl;
    destruct (memb e (closed s)); simpl;
    try (split; [exact I | constructor; reflexivity]);
    destruct (wake_cancel e (workers s)) as [ws [|]]; simpl in *;
    (split; [apply ci_same with (s := s); [constructor; reflexivity | exact W] | constructor; reflexivity]).
Qed.

Lemma queue_add_ci s t k : CI s -> CI (fst (queue_add s t k)) /\ same s (fst (queue_add s t k)).
Proof.
  intros I. unfold queue_add. destruct (shut s) eqn:Sh; simpl.
  - split; [exact I | constructor; reflexivity].
  - destruct ((0 <? maxsz s) && (maxsz s <? length (hpush (heap s) (mkE (nxt s) t k)))); simpl.
    + destruct (hremove _ _) as [[d h']|]; simpl;
        (split; [apply ci_same with (s := s); [constructor; simpl; auto | simpl; apply forall_signal; [apply G_idle | exact I]]
                | constructor; simpl; auto]).
    + split; [apply ci_same with (s := s); [constructor; simpl; auto | simpl; apply forall_signal; [apply G_idle | exact I]]
             | constructor; simpl; auto].
Qed.

Lemma add_ci s t k : CI s -> CI (add_step s t k).
Proof.
  intros I. unfold add_step. destruct k as [key|]; [|apply queue_add_ci; auto].
  set (s1 := match tget key (tmap s) with
             | Some old => set_dead (set_tmap (cancel_elem s old) (tdel key (tmap s))) (old :: dead s)
             | None => s end).
  assert (I1 : CI s1).
  { unfold s1. destruct (tget key (tmap s)) as [old|]; auto.
    destruct (cancel_ci s old I) as [C _]. exact C. }
  destruct (queue_add_ci s1 t (Some key) I1) as [C _].
  destruct (queue_add s1 t (Some key)) as [s2 [id|]]; simpl in *; exact C.
Qed.

Lemma tcancel_ci s k : CI s -> CI (tcancel_step s k).
Proof.
  intros I. unfold tcancel_step. destruct (tget k (tmap s)) as [e|]; [|exact I].
  destruct (cancel_ci s e I) as [C _]. exact C.
Qed.

Lemma ctx_new_G s e : shut s = true -> G (now (fst (ctx_branch s e))) (shut (fst (ctx_branch s e))) (fignore (fst (ctx_branch s e))) (snd (ctx_branch s e))
  /\ same s (fst (ctx_branch s e)) /\ workers (fst (ctx_branch s e)) = workers s.
Proof.
  intros Sh. unfold ctx_branch. destruct (fcancel s); simpl; [repeat split; auto|].
  destruct (fignore s) eqn:Fi; simpl; repeat split; auto.
Qed.

Lemma wake_ctx_at_ci s w : shut s = true -> CI s -> CI (wake_ctx_at s w) /\ same s (wake_ctx_at s w).
Proof.
  intros Sh I. unfold wake_ctx_at. destruct (nth_error (workers s) w) as [ws|]; [|split; [auto | apply same_refl]].
  destruct ws; try (split; [exact I | apply same_refl]).
  destruct (ctx_new_G s e Sh) as (Gn & Sm & W).
  split; [|destruct Sm; constructor; simpl; auto].
  destruct Sm as [A B C]. unfold CI. simpl. rewrite W. apply forall_wupd; [rewrite A, B, C; exact I | exact Gn].
Qed.

Lemma wake_ctx_fold_ci l : forall s, shut s = true -> CI s -> CI (fold_left wake_ctx_at l s) /\ same s (fold_left wake_ctx_at l s).
Proof.
  induction l as [|a l IH]; intros s Sh I; simpl; [split; [auto | apply same_refl]|].
  destruct (wake_ctx_at_ci s a Sh I) as [I1 S1].
  destruct (IH (wake_ctx_at s a)) as [I2 S2]; auto.
  - destruct S1 as [_ B _]. congruence.
  - split; auto. eapply same_trans; eauto.
Qed.

Lemma discard_all_same h : forall s, same s (discard_all s h) /\ workers (discard_all s h) = workers s.
Proof.
  induction h as [|a h IH]; intros s; simpl; [split; [apply same_refl | auto]|].
  destruct (IH (emit s (EDiscard (eid a)))) as [[A B C] W]. split; [constructor|]; simpl in *; auto.
Qed.

Lemma shutdown_ci s fc fi : CI s -> CI (shutdown_step s fc fi).
Proof.
  intros I. unfold shutdown_step. destruct (shut s) eqn:Sh; [exact I|].
  set (s1 := emit (set_shut s fc fi) (EShutdown fc fi (now s))).
  assert (I1 : CI s1).
  { unfold CI, s1; simpl. eapply Forall_impl; [|exact I]. intros a Ga.
    eapply G_mono; [exact Ga | apply N.le_refl | rewrite Sh; discriminate]. }
  destruct (wake_ctx_fold_ci (seq 0 (length (workers s1))) s1 eq_refl I1) as [I3 S3].
  fold (wake_ctx s1) in I3, S3. set (s3 := wake_ctx s1) in *.
  set (s4 := match heap s3 with [] => s3 | h => if fc then set_heap (discard_all s3 h) [] else s3 end).
  assert (I4 : CI s4 /\ same s3 s4).
  { unfold s4. destruct (heap s3) as [|a r]; [split; [auto | apply same_refl]|].
    destruct fc; [|split; [auto | apply same_refl]].
    destruct (discard_all_same (a :: r) s3) as [[A B C] W].
    split; [|constructor; cbn [set_heap now shut fignore]; auto].
    unfold CI. cbn [set_heap now shut fignore workers]. rewrite A, B, C, W. exact I3. }
  destruct I4 as [I4 S4].
  assert (B : forall s5, CI s5 -> CI (set_workers s5 (broadcast (workers s5)))).
  { intros s5 I5. unfold CI; simpl. apply forall_broadcast; [apply G_idle | exact I5]. }
  destruct (heap s3); [|destruct (bcast s4)]; auto.
Qed.

Lemma worker_ci s w c : CI s -> CI (worker_step s w c).
Proof.
  intros I. unfold worker_step. destruct (nth_error (workers s) w) as [ws|] eqn:H; auto.
  assert (F : forall s1 new, now s1 = now s -> shut s1 = shut s -> fignore s1 = fignore s -> workers s1 = workers s ->
              G (now s) (shut s) (fignore s) new -> CI (set_workers s1 (wupd (workers s1) w new))).
  { intros s1 new A B C W Gn. unfold CI; simpl. rewrite A, B, C, W. apply forall_wupd; auto. }
  assert (TB : forall e b, (b = BCtx -> shut s = true) -> (b = BTim -> is_due s e = true) ->
               CI (set_workers (fst (take_branch s e b)) (wupd (workers (fst (take_branch s e b))) w (snd (take_branch s e b))))).
  { intros e b Hc Ht. destruct b; simpl.
    - destruct (ctx_new_G s e (Hc eq_refl)) as (Gn & [A B C] & W). apply F; auto. rewrite <- A, <- B, <- C. exact Gn.
    - apply (F (emit s _)); simpl; auto.
    - apply (F s); simpl; auto. }
  destruct ws; auto.
  - (* WIdle *)
    destruct (hpop (heap s)) as [[e h']|]; simpl.
    + apply (F (set_heap s h')); simpl; auto.
    + apply (F s); auto. destruct (shut s); simpl; auto.
  - (* WPopped *)
    destruct (ready_outer s e) as [|b r] eqn:R.
    + apply (F s); simpl; auto.
    + rewrite <- R. pose proof (nth_mod_in (ready_outer s e) c) as In1.
      destruct (ready_outer_sound s e _ (In1 ltac:(rewrite R; discriminate))) as [Hc Ht]. apply TB; auto.
  - (* WParked *)
    destruct (is_due s e) eqn:D; auto. apply (F s); simpl; auto.
  - (* WPopped2 *)
    destruct (ready_inner s e) as [|b r] eqn:R.
    + apply (F s); simpl; auto.
    + rewrite <- R. pose proof (nth_mod_in (ready_inner s e) c) as In1.
      destruct (ready_inner_sound s e _ (In1 ltac:(rewrite R; discriminate))) as [Hc Ht]. apply TB; auto; intros; congruence.
  - (* WParked2 *)
    destruct (is_due s e) eqn:D; auto. apply (F s); simpl; auto.
  - (* WChosen *)
    destruct (is_due s e || (shut s && fignore s)); auto.
    unfold deliver. destruct (recheck s && memb (eid e) (closed s)); simpl.
    + apply (F (emit s _)); simpl; auto.
    + apply (F (emit s _)); simpl; auto.
  - (* WDeliv *)
    destruct (ekey e) as [k|]; [destruct (mode s)|]; simpl.
    + apply (F (emit s _)); simpl; auto.
    + destruct (tget k (tmap s)) as [v|]; [destruct (v =? eid e)|]; simpl.
      * apply (F (emit (set_tmap s _) _)); simpl; auto.
      * apply (F (emit s _)); simpl; auto.
      * apply (F (emit s _)); simpl; auto.
    + apply (F (emit s _)); simpl; auto.
  - (* WRun *)
    destruct (ekey e) as [k|]; [destruct (mode s)|]; simpl.
    + apply (F (emit (set_tmap s _) _)); simpl; auto.
    + apply (F (emit s _)); simpl; auto.
    + apply (F (emit s _)); simpl; auto.
Qed.

Lemma step_ci s l : CI s -> CI (step s l).
Proof.
  intros I. destruct l; simpl.
  - unfold CI; simpl. eapply Forall_impl; [|exact I]. intros a Ga. eapply G_mono; [exact Ga | lia | auto].
  - apply add_ci; auto.
  - apply cancel_ci; auto.
  - apply tcancel_ci; auto.
  - apply shutdown_ci; auto.
  - apply worker_ci; auto.
Qed.

Lemma run_ci ls : forall s, CI s -> CI (run s ls).
Proof. induction ls; intros s I; simpl; auto. apply IHls. apply step_ci; auto. Qed.

Lemma init_ci n m md rc bc : CI (init n m md rc bc).
Proof. unfold CI, init; simpl. apply Forall_forall. intros x Hx. apply repeat_spec in Hx. subst; exact I. Qed.

Lemma ci_chosen_ok s : CI s -> chosen_ok s.
Proof.
  intros I i e H. unfold CI in I. rewrite Forall_forall in I. specialize (I _ (nth_error_In _ _ H)). simpl in I.
  unfold is_due. destruct I as [D|[A B]]; [rewrite D; auto | rewrite A, B; apply orb_true_r].
Qed.

(* in every reachable state the guard of the WChosen step is true *)
Theorem chosen_ok_run n m md rc bc ls : chosen_ok (run (init n m md rc bc) ls).
Proof. apply ci_chosen_ok, run_ci, init_ci. Qed.

(* ---------- a Cancel that completes inside the window ---------- *)

Lemma wake_cancel_keeps_chosen e x : forall ws i,
  nth_error ws i = Some (WChosen x) -> nth_error (fst (wake_cancel e ws)) i = Some (WChosen x).
Proof.
  induction ws as [|w r IH]; intros [|i] H; simpl in *; try discriminate.
  - inversion H; subst. destruct (wake_cancel e r); reflexivity.
  - specialize (IH i H). destruct (wake_cancel e r) as [r' b]. simpl in IH.
    destruct w; simpl; auto; destruct (eid e0 =? e); simpl; auto.
Qed.

Lemma nth_wupd_same ws : forall i (a x : wst), nth_error ws i = Some a -> nth_error (wupd ws i x) i = Some x.
Proof. induction ws as [|w r IH]; intros [|i] a x H; simpl in *; try discriminate; eauto. Qed.

Lemma cancel_elem_window s e i x : e < nxt s -> nth_error (workers s) i = Some (WChosen x) ->
  memb e (closed (cancel_elem s e)) = true /\ nth_error (workers (cancel_elem s e)) i = Some (WChosen x) /\
  same s (cancel_elem s e).
Proof.
  intros L H. unfold cancel_elem. apply Nat.leb_gt in L. rewrite L.
  pose proof (wake_cancel_keeps_chosen e x (workers s) i H) as W.
  destruct (index_of e (heap s)) as [j|]; [destruct (hremove (heap s) j) as [[y h']|]|]; simpl;
    destruct (memb e (closed s)) eqn:M; simpl; rewrite ?M;
    try (repeat split; auto; fail);
    destruct (wake_cancel e (workers s)) as [ws [|]]; simpl in *; rewrite ?Nat.eqb_refl; repeat split; auto.
Qed.

(* All schedules ls1 (repaired Poll) after which worker i is in the window with element x: Cancel(x) completes there;
   the worker is still in the window (close(cancel) wakes nobody), its next step is the skip (for any choice), and no
   continuation ls2 ever delivers x. *)
Theorem cancel_in_window_run n m md bc ls1 ls2 i x c :
  let s := run (init n m md true bc) ls1 in
  nth_error (workers s) i = Some (WChosen x) ->
  let s' := step s (LCancel (eid x)) in
  nth_error (workers s') i = Some (WChosen x) /\
  (let s'' := step s' (LWorker i c) in
   log s'' = ESkip (eid x) :: log s' /\ nth_error (workers s'') i = Some WIdle) /\
  exists l, log (run s' ls2) = l ++ log s' /\ forall a, ~ In (EDeliver (eid x) a) l.
Proof.
  intros s H s'.
  pose proof (inv_run n m md true bc ls1) as Iv. fold s in Iv.
  assert (Hx : In x (pend s)).
  { unfold pend. apply in_or_app; right. eapply wpend_in; eauto. simpl; auto. }
  destruct (i_pend s Iv x Hx) as [Lx _].
  destruct (cancel_elem_window s (eid x) i x Lx H) as (C & W & [A B F]).
  assert (R : recheck s' = true).
  { unfold s'. rewrite (mstar_recheck _ _ (step_micro s _)). apply run_recheck. }
  split; [exact W|]. split.
  - assert (Ok : chosen_ok s').
    { unfold s', s. replace (step (run (init n m md true bc) ls1) (LCancel (eid x)))
        with (run (init n m md true bc) (ls1 ++ [LCancel (eid x)])).
      - apply chosen_ok_run.
      - unfold run. rewrite fold_left_app. reflexivity. }
    simpl. unfold worker_step. fold s'. change (cancel_elem s (eid x)) with s' in *. rewrite W.
    rewrite (Ok i x W). unfold deliver. rewrite R, C. simpl. split; auto.
    simpl. eapply nth_wupd_same; eauto.
  - apply cancel_then_never_delivered; auto. apply run_micro.
Qed.
