(* Heap, part 2: the heap-ORDER invariant.  For a comparator that is a strict weak order, every operation of the
   model (container/heap up / down / Push / Pop / Remove as transcribed in Heap.v, and the priorityqueue methods on
   top of them) keeps "parent <= child" on the whole slice; hence the root is a minimum of the current contents,
   PopAll returns the contents sorted and PopUntil returns exactly the elements <= limit, sorted. *)
From Coq Require Import List ZArith Bool Arith Lia Permutation Sorted.
From Verif.C12a_Containers Require Import ListAux Heap HeapIndex HeapProofs.
Import ListNotations.
Open Scope bool_scope.

(* ---- parent arithmetic: (c - 1) / 2 ---- *)
Definition par (c : nat) : nat := (c - 1) / 2.

Lemma par_cases : forall c, 0 < c -> c = 2 * par c + 1 \/ c = 2 * par c + 2.
Proof.
  intros c H. unfold par. pose proof (Nat.div_mod (c - 1) 2). pose proof (Nat.mod_upper_bound (c - 1) 2). lia.
Qed.

Lemma par_0 : par 0 = 0.
Proof. reflexivity. Qed.

Lemma par_lt : forall c, 0 < c -> par c < c.
Proof. intros c H. pose proof (par_cases c H). lia. Qed.

Lemma par_uniq : forall c i, c = 2 * i + 1 \/ c = 2 * i + 2 -> par c = i.
Proof. intros c i H. assert (0 < c) by lia. pose proof (par_cases c H0). lia. Qed.

Section HeapOrder.
Variables (P V : Type) (cmp : P -> P -> Z) (pzero : P) (vzero : V).
Hypothesis SWO : strict_weak_order P cmp.

Notation hst := (hst P V).
Notation idx_ok := (idx_ok P V).
Notation plt := (plt P cmp).
Notation good := (good P V).

(* a <= b  :=  not (b < a) *)
Definition ple (a b : P) : Prop := plt b a = false.

Lemma ple_refl : forall a, ple a a.
Proof.
  intros a. unfold ple. destruct SWO as [A _]. destruct (plt a a) eqn:E; auto.
  pose proof (A a a E). congruence.
Qed.

Lemma ple_trans : forall a b c, ple a b -> ple b c -> ple a c.
Proof. unfold ple. intros a b c H1 H2. destruct SWO as [_ T]. exact (T a b c H1 H2). Qed.

Lemma plt_ple : forall a b, plt a b = true -> ple a b.
Proof. unfold ple. intros a b H. destruct SWO as [A _]. exact (A a b H). Qed.

Lemma plt_ple_trans : forall a b c, plt a b = true -> ple b c -> plt a c = true.
Proof.
  intros a b c H1 H2. destruct (plt a c) eqn:E; auto.
  assert (X : ple b a) by (eapply ple_trans; [exact H2|exact E]). unfold ple in X. congruence.
Qed.

(* key at position i of the slice *)
Definition key (s : hst) (i : nat) : P := prio pzero s (at_ s i).
Definition hle (s : hst) (i j : nat) : Prop := ple (key s i) (key s j).

Lemma less_key : forall s i j, less cmp pzero s i j = plt (key s i) (key s j).
Proof. reflexivity. Qed.

Lemma key_swap : forall (s : hst) i j k, i < length (arr s) -> j < length (arr s) ->
  key (swap s i j) k = if j =? k then key s i else if i =? k then key s j else key s k.
Proof.
  intros. unfold key. rewrite (at_swap P V) by auto.
  assert (E : forall id, prio pzero (swap s i j) id = prio pzero s id) by reflexivity.
  rewrite E. destruct (j =? k); auto. destruct (i =? k); auto.
Qed.

Lemma swap_len : forall (s : hst) i j, length (arr (swap s i j)) = length (arr s).
Proof. intros. unfold swap. cbn [arr]. rewrite !upd_length. auto. Qed.

(* parent <= child on the first n cells *)
Definition heap_on (s : hst) (n : nat) : Prop := forall c, 0 < c -> c < n -> hle s (par c) c.

Lemma heap_on_le : forall s n m, heap_on s n -> m <= n -> heap_on s m.
Proof. intros s n m H L c H0 Hc. apply H; lia. Qed.

Lemma root_min : forall s n, heap_on s n -> forall k, k < n -> hle s 0 k.
Proof.
  intros s n H k. induction k as [k IH] using lt_wf_ind. intros Hk.
  destruct k; [apply ple_refl|].
  assert (Z0 : 0 < S k) by lia. pose proof (par_lt (S k) Z0).
  apply ple_trans with (key s (par (S k))); [apply (IH (par (S k))); lia | apply H; lia].
Qed.

(* ---- up ---- *)
(* order holds everywhere except possibly between j and its parent; the parent of j is <= the children of j *)
Definition up_inv (s : hst) (n j : nat) : Prop :=
  j < n /\
  (forall c, 0 < c -> c < n -> c <> j -> hle s (par c) c) /\
  (forall c, 0 < c -> c < n -> par c = j -> 0 < j -> hle s (par j) c).

Lemma heap_on_up_inv : forall s n j, heap_on s n -> j < n -> up_inv s n j.
Proof.
  intros s n j H Hj. split; auto. split; [intros; apply H; auto|].
  intros c Hc Hcn E J0. eapply ple_trans; [apply H; lia|]. rewrite <- E. apply H; auto.
Qed.

Lemma up_order : forall fuel (s : hst) n j, n <= length (arr s) -> j < fuel -> up_inv s n j ->
  heap_on (up cmp pzero fuel s j) n.
Proof.
  induction fuel; intros s n j Hn Hf (Hj & A & B); [lia|].
  cbn [up]. change ((j - 1) / 2) with (par j).
  destruct (Nat.eqb_spec (par j) j) as [E|NE]; cbn [orb].
  - intros c Hc Hcn. apply A; auto. intro. subst c. pose proof (par_lt j Hc). lia.
  - assert (J0 : 0 < j) by (destruct j; [rewrite par_0 in NE; congruence | lia]).
    pose proof (par_lt j J0) as PL. pose proof (par_cases j J0) as PJ.
    rewrite less_key. destruct (plt (key s j) (key s (par j))) eqn:L; cbn [negb].
    + apply IHfuel; [rewrite swap_len; auto | lia |].
      split; [lia|]. split.
      * intros c Hc Hcn Hcp. unfold hle. rewrite !key_swap by lia.
        pose proof (par_cases c Hc) as PC.
        destruct (Nat.eqb_spec j (par c)) as [E1|N1].
        -- (* c is a child of j: it now sits under the old parent key *)
           destruct (Nat.eqb_spec j c); [lia|]. destruct (Nat.eqb_spec (par j) c); [lia|].
           apply B; auto.
        -- destruct (Nat.eqb_spec (par j) (par c)) as [E2|N2].
           ++ destruct (Nat.eqb_spec j c) as [E3|N3].
              ** apply plt_ple. exact L.
              ** destruct (Nat.eqb_spec (par j) c); [lia|].
                 eapply ple_trans; [apply plt_ple; exact L|]. rewrite E2. apply A; auto.
           ++ destruct (Nat.eqb_spec j c) as [E3|N3]; [subst c; congruence|].
              destruct (Nat.eqb_spec (par j) c); [lia|]. apply A; auto.
      * intros c Hc Hcn E PJ0. unfold hle. rewrite !key_swap by lia.
        assert (PP : par (par j) < par j) by (apply par_lt; auto).
        destruct (Nat.eqb_spec j (par (par j))); [lia|].
        destruct (Nat.eqb_spec (par j) (par (par j))); [lia|].
        destruct (Nat.eqb_spec j c) as [E3|N3].
        -- apply A; auto; lia.
        -- destruct (Nat.eqb_spec (par j) c); [pose proof (par_lt c Hc); lia|].
           eapply ple_trans; [apply A; auto; lia|]. rewrite <- E. apply A; auto.
    + intros c Hc Hcn. destruct (Nat.eq_dec c j); [subst; exact L | apply A; auto].
Qed.

(* ---- down ---- *)
(* order holds everywhere except possibly between i and its children; the parent of i is <= the children of i *)
Definition down_inv (s : hst) (n i : nat) : Prop :=
  (forall c, 0 < c -> c < n -> par c <> i -> hle s (par c) c) /\
  (forall c, 0 < c -> c < n -> par c = i -> 0 < i -> hle s (par i) c).

Lemma heap_on_down_inv : forall s n i, heap_on s n -> i < n -> down_inv s n i.
Proof.
  intros s n i H Hi. split; [intros; apply H; auto|].
  intros c Hc Hcn E I0. eapply ple_trans; [apply H; lia|]. rewrite <- E. apply H; auto.
Qed.

(* the child chosen by down is the smaller one *)
Lemma down_child : forall (s : hst) i n, 2 * i + 1 < n ->
  let j := if (2 * i + 1 + 1 <? n) && less cmp pzero s (2 * i + 1 + 1) (2 * i + 1) then 2 * i + 1 + 1 else 2 * i + 1 in
  (j = 2 * i + 1 \/ j = 2 * i + 2) /\ j < n /\ (forall c, c < n -> c = 2 * i + 1 \/ c = 2 * i + 2 -> hle s j c).
Proof.
  intros s i n H. cbv zeta. rewrite less_key.
  destruct (Nat.ltb_spec (2 * i + 1 + 1) n) as [L|L]; cbn [andb].
  - destruct (plt (key s (2 * i + 1 + 1)) (key s (2 * i + 1))) eqn:E.
    + split; [lia|]. split; [lia|]. intros c Hc [C|C]; subst c.
      * apply plt_ple. exact E.
      * replace (2 * i + 2) with (2 * i + 1 + 1) by lia. apply ple_refl.
    + split; [lia|]. split; [lia|]. intros c Hc [C|C]; subst c.
      * apply ple_refl.
      * replace (2 * i + 2) with (2 * i + 1 + 1) by lia. exact E.
  - split; [lia|]. split; [lia|]. intros c Hc [C|C]; subst c; [apply ple_refl|lia].
Qed.

Lemma down_order : forall fuel (s : hst) i n, n <= length (arr s) -> n - i <= fuel -> down_inv s n i ->
  heap_on (fst (down cmp pzero fuel s i n)) n.
Proof.
  induction fuel; intros s i n Hn Hf (A & B).
  - cbn [down fst]. intros c Hc Hcn. apply A; auto. pose proof (par_lt c Hc). lia.
  - cbn [down]. destruct (Nat.leb_spec n (2 * i + 1)) as [L|L].
    + cbn [fst]. intros c Hc Hcn. apply A; auto. pose proof (par_cases c Hc). lia.
    + destruct (down_child s i n L) as (J1 & J2 & J3).
      remember (if (2 * i + 1 + 1 <? n) && less cmp pzero s (2 * i + 1 + 1) (2 * i + 1) then 2 * i + 1 + 1 else 2 * i + 1) as j.
      clear Heqj. assert (PJ : par j = i) by (apply par_uniq; auto).
      rewrite less_key. destruct (plt (key s j) (key s i)) eqn:E; cbn [negb].
      * apply IHfuel; [rewrite swap_len; auto | lia |]. split.
        -- intros c Hc Hcn Hcp. unfold hle. rewrite !key_swap by lia.
           pose proof (par_cases c Hc) as PC.
           destruct (Nat.eqb_spec j (par c)); [congruence|].
           destruct (Nat.eqb_spec i (par c)) as [E2|N2].
           ++ destruct (Nat.eqb_spec j c) as [E3|N3]; [apply plt_ple; exact E|].
              destruct (Nat.eqb_spec i c); [lia|]. apply J3; [auto|lia].
           ++ destruct (Nat.eqb_spec j c) as [E3|N3]; [subst c; congruence|].
              destruct (Nat.eqb_spec i c) as [E4|N4]; [|apply A; auto].
              subst c. apply B; auto; lia.
        -- intros c Hc Hcn E2 J0. unfold hle. rewrite PJ, !key_swap by lia.
           pose proof (par_cases c Hc) as PC.
           destruct (Nat.eqb_spec j i); [lia|]. rewrite Nat.eqb_refl.
           destruct (Nat.eqb_spec j c); [lia|]. destruct (Nat.eqb_spec i c); [lia|].
           rewrite <- E2. apply A; auto. lia.
      * cbn [fst]. intros c Hc Hcn. destruct (Nat.eq_dec (par c) i) as [E2|N2]; [|apply A; auto].
        rewrite E2. eapply ple_trans; [exact E|]. apply J3; auto. pose proof (par_cases c Hc). lia.
Qed.

(* down did not move: the state is unchanged *)
Lemma down_stay : forall fuel (s : hst) i n, snd (down cmp pzero fuel s i n) <= i -> fst (down cmp pzero fuel s i n) = s.
Proof.
  destruct fuel; intros s i n; auto. cbn [down]. destruct (Nat.leb_spec n (2 * i + 1)); auto.
  remember (if (2 * i + 1 + 1 <? n) && less cmp pzero s (2 * i + 1 + 1) (2 * i + 1) then 2 * i + 1 + 1 else 2 * i + 1) as j.
  assert (i < j). { subst j. destruct ((2 * i + 1 + 1 <? n) && _); lia. }
  destruct (less cmp pzero s j i); cbn [negb]; auto.
  intros H1. pose proof (down_pos P V cmp pzero fuel (swap s i j) j n). lia.
Qed.

(* i is already <= its children: down does nothing *)
Lemma down_noop : forall fuel (s : hst) i n, (forall c, 0 < c -> c < n -> par c = i -> hle s i c) ->
  down cmp pzero fuel s i n = (s, i).
Proof.
  destruct fuel; intros s i n H; auto. cbn [down]. destruct (Nat.leb_spec n (2 * i + 1)) as [L|L]; auto.
  destruct (down_child s i n L) as (J1 & J2 & J3).
  remember (if (2 * i + 1 + 1 <? n) && less cmp pzero s (2 * i + 1 + 1) (2 * i + 1) then 2 * i + 1 + 1 else 2 * i + 1) as j.
  clear Heqj. rewrite less_key. assert (X : hle s i j) by (apply H; [lia|auto|apply par_uniq; auto]).
  unfold hle, ple in X. rewrite X. reflexivity.
Qed.

(* ---- the operations of container/heap ---- *)
Lemma key_drop_last : forall (s : hst) k, k < length (arr s) - 1 -> key (fst (drop_last s)) k = key s k.
Proof.
  intros s k H. unfold key, at_, drop_last, prio. cbn [fst arr prios]. rewrite nth_removelast by auto. auto.
Qed.

Lemma heap_on_drop : forall (s : hst) n, heap_on s n -> n <= length (arr s) - 1 -> heap_on (fst (drop_last s)) n.
Proof.
  intros s n H L c Hc Hcn. unfold hle. pose proof (par_lt c Hc). rewrite !key_drop_last by lia. apply H; auto.
Qed.

Lemma up_len : forall fuel (s : hst) j, idx_ok s -> j < length (arr s) ->
  length (arr (up cmp pzero fuel s j)) = length (arr s).
Proof. intros. apply (good_len P V). apply up_good; auto. Qed.

(* heap.Push: append, then up *)
Lemma hpush_order : forall (s : hst) p v, idx_ok s -> heap_on s (length (arr s)) ->
  heap_on (hpush cmp pzero s p v) (S (length (arr s))).
Proof.
  intros s p v I H. pose proof I as (L1 & L2 & A & _). unfold hpush.
  set (s1 := mkH (arr s ++ [length (prios s)]) (idx s ++ [Z.of_nat (length (arr s))]) (prios s ++ [p]) (vals s ++ [v])).
  assert (K : forall k, k < length (arr s) -> key s1 k = key s k).
  { intros k Hk. destruct (A k Hk) as [Ak _]. unfold key, at_, prio, s1 in *. cbn [arr prios].
    rewrite (app_nth1 (arr s)) by auto. rewrite app_nth1; auto. lia. }
  apply up_order.
  - unfold s1. cbn [arr]. rewrite app_length. simpl. lia.
  - lia.
  - split; [lia|]. split.
    + intros c Hc Hcn Hne. unfold hle. pose proof (par_lt c Hc). rewrite !K by lia. apply H; lia.
    + intros c Hc Hcn E. pose proof (par_lt c Hc). lia.
Qed.

(* heap.Pop: swap root and last, down on the shorter prefix, drop the last cell *)
Lemma hpop_order : forall (s : hst), idx_ok s -> arr s <> [] -> heap_on s (length (arr s)) ->
  heap_on (fst (hpop cmp pzero s)) (length (arr s) - 1).
Proof.
  intros s I NE H. unfold hpop.
  assert (LN : 0 < length (arr s)) by (destruct (arr s); simpl; try congruence; lia).
  set (n := length (arr s) - 1).
  assert (G1 : good s (swap s 0 n)) by (apply swap_good; auto; lia).
  pose proof (down_good P V cmp pzero (S n) (swap s 0 n) 0 n (proj1 G1)) as G2.
  rewrite swap_len in G2. assert (G2' := G2 ltac:(lia)). clear G2.
  assert (D : heap_on (fst (down cmp pzero (S n) (swap s 0 n) 0 n)) n).
  { apply down_order; [rewrite swap_len; lia | lia |]. split.
    - intros c Hc Hcn Hp. unfold hle. pose proof (par_lt c Hc). rewrite !key_swap by lia.
      destruct (Nat.eqb_spec n (par c)); [lia|]. destruct (Nat.eqb_spec 0 (par c)); [congruence|].
      destruct (Nat.eqb_spec n c); [lia|]. destruct (Nat.eqb_spec 0 c); [lia|]. apply H; lia.
    - intros; lia. }
  destruct (down cmp pzero (S n) (swap s 0 n) 0 n) as [s2 i']. cbn [fst] in *.
  apply heap_on_drop; auto. rewrite (good_len P V _ _ G2'), swap_len. lia.
Qed.

(* heap.Remove(i): swap i and last; if down did not move the cell, up *)
Lemma hremove_order : forall (s : hst) i, idx_ok s -> i < length (arr s) -> heap_on s (length (arr s)) ->
  heap_on (fst (hremove cmp pzero s i)) (length (arr s) - 1).
Proof.
  intros s i I Hi H. unfold hremove. set (n := length (arr s) - 1).
  destruct (Nat.eqb_spec n i) as [E|N].
  - apply heap_on_drop; [|lia]. eapply heap_on_le; [exact H|lia].
  - assert (Hin : i < n) by lia.
    assert (G1 : good s (swap s i n)) by (apply swap_good; auto; lia).
    assert (L1 : length (arr (swap s i n)) = length (arr s)) by apply swap_len.
    assert (K1 : forall k, k < n -> k <> i -> key (swap s i n) k = key s k).
    { intros k Hk Hki. rewrite key_swap by lia.
      destruct (Nat.eqb_spec n k); [lia|]. destruct (Nat.eqb_spec i k); [lia|]. auto. }
    remember (swap s i n) as s1 eqn:ES1. clear ES1.
    assert (D1 : forall c, 0 < c -> c < n -> c <> i -> par c <> i -> hle s1 (par c) c).
    { intros c Hc Hcn C1 C2. pose proof (par_lt c Hc). unfold hle. rewrite !K1 by lia. apply H; lia. }
    assert (D2 : forall c, 0 < c -> c < n -> par c = i -> 0 < i -> hle s1 (par i) c).
    { intros c Hc Hcn C1 C2. pose proof (par_lt c Hc). pose proof (par_lt i C2). unfold hle. rewrite !K1 by lia.
      apply ple_trans with (key s i); [apply H; lia|]. rewrite <- C1. apply H; lia. }
    pose proof (down_good P V cmp pzero (S n) s1 i n (proj1 G1)) as G2.
    rewrite L1 in G2. assert (G2' := G2 ltac:(lia)). clear G2.
    destruct ((0 <? i) && plt (key s1 i) (key s1 (par i))) eqn:C.
    + (* the moved key is smaller than its new parent's: down stays, up repairs *)
      apply andb_true_iff in C. destruct C as [C0 C1]. apply Nat.ltb_lt in C0.
      assert (CH : forall c, 0 < c -> c < n -> par c = i -> hle s1 i c).
      { intros c Hc Hcn E. apply ple_trans with (key s1 (par i)); [apply plt_ple; exact C1|]. apply D2; auto. }
      rewrite (down_noop (S n) s1 i n CH). rewrite Nat.ltb_irrefl.
      apply heap_on_drop.
      * apply up_order; [lia|lia|]. split; [auto|]. split; [|intros; apply D2; auto].
        intros c Hc Hcn Hne. destruct (Nat.eq_dec (par c) i) as [E|NE]; [rewrite E; apply CH; auto | apply D1; auto].
      * rewrite up_len; [lia|apply G1|lia].
    + (* the moved key is >= its new parent's (or i is the root): down repairs; if it stays, up is a no-op repair *)
      assert (PI : i = 0 \/ hle s1 (par i) i).
      { destruct (Nat.ltb_spec 0 i); [|left; lia]. right. cbn [andb] in C. exact C. }
      assert (DI : down_inv s1 n i).
      { split; [|exact D2]. intros c Hc Hcn Hp. destruct (Nat.eq_dec c i) as [E|NE]; [|apply D1; auto].
        subst c. destruct PI; [lia|auto]. }
      assert (HO : heap_on (fst (down cmp pzero (S n) s1 i n)) n) by (apply down_order; auto; lia).
      pose proof (down_stay (S n) s1 i n) as ST.
      destruct (down cmp pzero (S n) s1 i n) as [s2 i']. cbn [fst snd] in *.
      destruct (Nat.ltb_spec i i') as [LT|GE].
      * apply heap_on_drop; auto. rewrite (good_len P V _ _ G2'). lia.
      * rewrite (ST GE) in *. apply heap_on_drop.
        -- apply up_order; [lia|lia|apply heap_on_up_inv; auto].
        -- rewrite up_len; [lia|apply G1|lia].
Qed.

(* ---- the priority queue: invariant of every reachable state ---- *)
Definition heap_ok (s : hst) : Prop := heap_on s (length (arr s)).
Definition hinv (s : hst) : Prop := idx_ok s /\ heap_ok s.

Lemma hinv_new : hinv hnew.
Proof. split; [apply idx_ok_new|]. intros c H0 H1. simpl in H1. lia. Qed.

Lemma removed_len : forall s s' id, removed_one P V s s' id -> length (arr s') = length (arr s) - 1.
Proof. intros s s' id (_ & Pm & _). apply Permutation_length in Pm. simpl in Pm. lia. Qed.

Lemma hpush_hinv : forall s p v, hinv s -> hinv (hpush cmp pzero s p v).
Proof.
  intros s p v [I H]. destruct (hpush_ok P V cmp pzero s p v I) as (A & _ & _ & _ & L). split; auto.
  unfold heap_ok. rewrite L. apply hpush_order; auto.
Qed.

Lemma hpop_hinv : forall s, hinv s -> arr s <> [] -> hinv (fst (hpop cmp pzero s)).
Proof.
  intros s [I H] NE. destruct (hpop_ok P V cmp pzero s I NE) as [R _]. split; [apply R|].
  unfold heap_ok. rewrite (removed_len _ _ _ R). apply hpop_order; auto.
Qed.

Lemma hremove_hinv : forall s i, hinv s -> i < length (arr s) -> hinv (fst (hremove cmp pzero s i)).
Proof.
  intros s i [I H] Hi. destruct (hremove_ok P V cmp pzero s i I Hi) as [R _]. split; [apply R|].
  unfold heap_ok. rewrite (removed_len _ _ _ R). apply hremove_order; auto.
Qed.

(* order on element ids through the immutable Key fields *)
Definition ile (ps : list P) (a b : nat) : Prop := plt (nth b ps pzero) (nth a ps pzero) = false.

(* the root is a minimum of the contents *)
Lemma root_is_min : forall s x, hinv s -> In x (arr s) -> ile (prios s) (at_ s 0) x.
Proof.
  intros s x [I H] Hin. apply (In_nth _ _ 0) in Hin. destruct Hin as [k [Hk Ek]]. subst x.
  exact (root_min s _ H k Hk).
Qed.

(* the loop of PopAll / PopUntil *)
Lemma pop_loop_spec : forall fuel lim (s : hst) acc, hinv s -> length (arr s) < fuel ->
  let r := pop_loop cmp pzero fuel lim s acc in
  exists ids, snd r = acc ++ ids /\ hinv (fst r) /\ prios (fst r) = prios s /\ vals (fst r) = vals s /\
    Permutation (arr s) (ids ++ arr (fst r)) /\
    StronglySorted (ile (prios s)) ids /\
    match lim with
    | None => arr (fst r) = []
    | Some p => (forall x, In x ids -> (cmp (nth x (prios s) pzero) p <= 0)%Z) /\
                (arr (fst r) = [] \/ (0 < cmp (nth (at_ (fst r) 0) (prios s) pzero) p)%Z)
    end.
Proof.
  induction fuel; intros lim s acc HI Hf; [lia|].
  cbn [pop_loop]. destruct (arr s) as [|a l] eqn:EA.
  - exists []. cbn [fst snd]. rewrite app_nil_r, EA. repeat (split; auto); [constructor|].
    destruct lim; auto. split; [intros x []|auto].
  - assert (NE : arr s <> []) by congruence.
    destruct (match lim with Some p => (cmp (prio pzero s (at_ s 0)) p <=? 0)%Z | None => true end) eqn:G.
    + destruct (hpop_ok P V cmp pzero s (proj1 HI) NE) as [R E].
      pose proof (hpop_hinv s HI NE) as HI1. pose proof (removed_len _ _ _ R) as RL.
      destruct R as (_ & R2 & _ & R4 & R5 & _).
      destruct (hpop cmp pzero s) as [s1 id]. cbn [fst snd] in *.
      assert (LF : length (arr s1) < fuel) by (rewrite RL, EA; cbn [length] in *; lia).
      destruct (IHfuel lim s1 (acc ++ [id]) HI1 LF) as (ids & J1 & J2 & J3 & J4 & J5 & J6 & J7).
      exists (id :: ids). rewrite J1, <- app_assoc. split; auto. split; auto.
      split; [congruence|]. split; [congruence|]. rewrite R4 in *.
      assert (SUB : forall x, In x ids -> In x (arr s)).
      { intros x Hx. eapply Permutation_in; [apply Permutation_sym; exact R2|]. right.
        eapply Permutation_in; [apply Permutation_sym; exact J5|]. apply in_or_app. auto. }
      split; [|split].
      * rewrite <- EA. eapply Permutation_trans; [exact R2|]. simpl. apply perm_skip. exact J5.
      * constructor; auto. apply Forall_forall. intros x Hx. subst id. apply root_is_min; auto.
      * destruct lim as [p|]; auto. destruct J7 as [J7 J8]. split; auto.
        intros x [Hx|Hx]; auto. subst x id. apply Z.leb_le. exact G.
    + destruct lim as [p|]; [|discriminate]. exists []. cbn [fst snd]. rewrite app_nil_r, EA.
      repeat (split; auto); [constructor|intros x []|]. right. apply Z.leb_gt in G. exact G.
Qed.

Lemma hstep_hinv : forall s e, hinv s -> hinv (fst (hstep cmp pzero vzero s e)).
Proof.
  intros s e HI. destruct e; cbn [hstep fst]; auto.
  - apply hpush_hinv; auto.
  - destruct (Z.eqb_spec (nth id (idx s) (-1)%Z) (-1)%Z); cbn [fst]; auto.
    destruct (handle_live P V s id (proj1 HI)) as [_ H]. destruct (H n) as [H1 H2].
    apply hremove_hinv; auto.
  - destruct (arr s) eqn:EA; cbn [fst]; auto.
    assert (NE : arr s <> []) by congruence.
    pose proof (hpop_hinv s HI NE). destruct (hpop cmp pzero s). auto.
  - destruct (pop_loop_spec (S (length (arr s))) (Some p) s [] HI ltac:(lia)) as (ids & _ & J & _).
    destruct (pop_loop cmp pzero (S (length (arr s))) (Some p) s []). auto.
  - destruct (pop_loop_spec (S (length (arr s))) None s [] HI ltac:(lia)) as (ids & _ & J & _).
    destruct (pop_loop cmp pzero (S (length (arr s))) None s []). auto.
Qed.

Theorem heap_reachable_hinv_gen : forall h (s : hst), hinv s -> hinv (fst (hrun cmp pzero vzero s h)).
Proof.
  induction h as [|e r IH]; cbn [hrun]; intros s HI; auto.
  pose proof (hstep_hinv s e HI) as H1. destruct (hstep cmp pzero vzero s e) as [s1 x]. cbn [fst] in H1.
  specialize (IH s1 H1). destruct (hrun cmp pzero vzero s1 r). auto.
Qed.

(* every reachable state: exact index fields AND parent <= child everywhere *)
Theorem heap_reachable_hinv : forall h, hinv (fst (hrun cmp pzero vzero hnew h)).
Proof. intros. apply heap_reachable_hinv_gen. apply hinv_new. Qed.

(* Pop / Peek return a minimum of the current contents; Pop removes exactly it and keeps the invariant *)
Theorem pop_min : forall (s : hst), hinv s -> arr s <> [] ->
  let m := at_ s 0 in
  snd (hstep cmp pzero vzero s HPop) = HOVal (Some (val vzero s m)) /\
  snd (hstep cmp pzero vzero s HPeek) = HOVal (Some (val vzero s m)) /\
  In m (arr s) /\
  (forall x, In x (arr s) -> plt (prio pzero s x) (prio pzero s m) = false) /\
  Permutation (arr s) (m :: arr (fst (hstep cmp pzero vzero s HPop))) /\
  hinv (fst (hstep cmp pzero vzero s HPop)).
Proof.
  intros s HI NE m. destruct (pop_contents P V cmp pzero vzero s (proj1 HI) NE) as (A & B & C & _).
  split; auto. split; auto. split; [|split; [|split; auto]].
  - unfold m, at_. destruct (arr s); [congruence|]. simpl. auto.
  - intros x Hx. exact (root_is_min s x HI Hx).
  - apply hstep_hinv; auto.
Qed.

(* PopAll empties the queue and returns the contents in priority order *)
Theorem popall_sorted : forall (s : hst), hinv s ->
  exists ids, hstep cmp pzero vzero s HPopAll = (fst (hstep cmp pzero vzero s HPopAll), HOVals (map (val vzero s) ids)) /\
    arr (fst (hstep cmp pzero vzero s HPopAll)) = [] /\
    Permutation (arr s) ids /\
    StronglySorted (fun a b => plt (prio pzero s b) (prio pzero s a) = false) ids.
Proof.
  intros s HI. cbn [hstep].
  destruct (pop_loop_spec (S (length (arr s))) None s [] HI ltac:(lia)) as (ids & J1 & _ & _ & _ & J5 & J6 & J7).
  destruct (pop_loop cmp pzero (S (length (arr s))) None s []) as [s1 out]. cbn [fst snd app] in *.
  exists ids. subst out. split; auto. split; auto. split; auto. rewrite J7, app_nil_r in J5. auto.
Qed.

(* three-way comparator contract: a > b exactly when b < a *)
Definition cmp_consistent : Prop := forall a b, (0 < cmp a b)%Z <-> (cmp b a < 0)%Z.

(* PopUntil(p) returns, in priority order, exactly the elements whose key compares <= p; everything that stays is > p *)
Theorem popuntil_exact : cmp_consistent -> forall (s : hst) p, hinv s ->
  let s' := fst (hstep cmp pzero vzero s (HPopUntil p)) in
  exists ids, snd (hstep cmp pzero vzero s (HPopUntil p)) = HOVals (map (val vzero s) ids) /\
    Permutation (arr s) (ids ++ arr s') /\
    StronglySorted (fun a b => plt (prio pzero s b) (prio pzero s a) = false) ids /\
    (forall x, In x ids -> (cmp (prio pzero s x) p <= 0)%Z) /\
    (forall y, In y (arr s') -> (0 < cmp (prio pzero s y) p)%Z) /\
    (forall x, In x (arr s) -> (In x ids <-> (cmp (prio pzero s x) p <= 0)%Z)) /\
    hinv s'.
Proof.
  intros CC s p HI. cbn [hstep].
  destruct (pop_loop_spec (S (length (arr s))) (Some p) s [] HI ltac:(lia)) as (ids & J1 & J2 & J3 & _ & J5 & J6 & J7 & J8).
  destruct (pop_loop cmp pzero (S (length (arr s))) (Some p) s []) as [s1 out]. cbn [fst snd app] in *.
  exists ids. subst out. split; auto. split; auto. split; auto. split; auto.
  assert (REST : forall y, In y (arr s1) -> (0 < cmp (prio pzero s y) p)%Z).
  { intros y Hy. destruct J8 as [J8|J8]; [rewrite J8 in Hy; destruct Hy|].
    pose proof (root_is_min s1 y J2 Hy) as M. rewrite J3 in M. unfold ile in M.
    apply CC in J8. apply CC. apply Z.ltb_lt.
    apply (plt_ple_trans _ (nth (at_ s1 0) (prios s) pzero)); [apply Z.ltb_lt; exact J8|exact M]. }
  split; auto. split; auto.
  intros x Hx. split; [apply J7|]. intros LE.
  eapply Permutation_in in Hx; [|exact J5]. apply in_app_or in Hx. destruct Hx as [Hx|Hx]; auto.
  apply REST in Hx. lia.
Qed.

End HeapOrder.

(* the statement left open in HeapProofs.v: in every reachable state the root is a minimum *)
Theorem pop_min_full : forall (P V : Type) (cmp : P -> P -> Z) (pzero : P) (vzero : V),
  pop_min_full_statement P V cmp pzero vzero.
Proof.
  intros P V cmp pzero vzero SW h x s Hin.
  exact (root_is_min P V cmp pzero SW s x (heap_reachable_hinv P V cmp pzero vzero SW h) Hin).
Qed.

(* the comparators used by the code under test / the harness satisfy the three-way contract *)
From Verif.C12a_Containers Require Import Corr.
Lemma cmp_of_consistent : forall mo, cmp_consistent Z (cmp_of mo).
Proof.
  intros mo a b.
  assert (Z1 : forall x y, (0 < zcmp x y)%Z <-> (y < x)%Z).
  { intros. unfold zcmp. destruct (Z.compare_spec x y); lia. }
  assert (Z2 : forall x y, (zcmp x y < 0)%Z <-> (x < y)%Z).
  { intros. unfold zcmp. destruct (Z.compare_spec x y); lia. }
  destruct mo; simpl; rewrite Z1, Z2; reflexivity.
Qed.
